(* C11 — dense refinement, assembly: every one of the 25 operations of [step]
   refines [dstep] and keeps the world well-formed; whole histories; dims. *)
From Coq Require Import ZArith List Bool Lia Sorted.
From ADV Require Import C11.Model C11.Spec C11.Dense C11.ProofsMap C11.ProofsIter C11.ProofsInv C11.ProofsRef
  C11.ProofsD1 C11.ProofsD2 C11.ProofsD3 C11.ProofsDSort.
Import ListNotations.
Open Scope Z_scope.

(* ---- world-level frames ------------------------------------------------------------- *)
Lemma abs_frame h h' v : (forall l, In l (cells_of v) -> hget h' l = hget h l) -> abs h' v = abs h v.
Proof.
  intro H. apply abs_ext; auto. intros k _. apply peek_frame. intros k0 l L. apply H. eapply lookup_In_cells; eauto.
Qed.
Lemma cells_alloc h v l : Inv v -> Wf h v -> In l (cells_of v) -> (l < length h)%nat.
Proof. intros I [W1 _] Hin. apply In_cells_lookup in Hin; [|apply I]. destruct Hin as [k L]. eauto. Qed.
Lemma dget_map hh w u : dget (map (abs hh) (vecs w)) u = abs hh (getv w u).
Proof. unfold dget, getv. change (@nil Z) with (abs hh (nil_vec 0)). apply map_nth. Qed.
Lemma dget_upd (d : dworld) t x u :
  dget (upd t x d) u = if Nat.eqb t u then (if Nat.ltb t (length d) then x else []) else dget d u.
Proof. unfold dget. apply nth_upd. Qed.
Lemma map_abs_app w e : WWf w -> map (abs (hp w ++ e)) (vecs w) = absw w.
Proof.
  intro W. unfold absw. apply map_ext_in. intros v Hin. unfold WWf in W. rewrite Forall_forall in W.
  apply abs_ext; auto. intros k _. apply peek_app. auto.
Qed.
Lemma upd_map_unshared w t h' x :
  WInv w -> WWf w -> unshared w t ->
  (forall l, (l < length (hp w))%nat -> ~ In l (cells_of (getv w t)) -> hget h' l = hget (hp w) l) ->
  upd t x (map (abs h') (vecs w)) = upd t x (absw w).
Proof.
  intros I W U F. apply dw_ext.
  - rewrite !upd_length. unfold absw. rewrite !map_length. auto.
  - intro u. rewrite !dget_upd. unfold absw. rewrite !map_length.
    destruct (Nat.eqb t u) eqn:E; auto. apply Nat.eqb_neq in E.
    rewrite !dget_map. apply abs_frame. intros l Hl. apply F.
    + eapply cells_alloc; eauto. apply WInv_getv; auto. apply WWf_getv; auto.
    + intro Hin. eapply U; eauto.
Qed.
Lemma upd_dget (d : dworld) t : upd t (dget d t) d = d.
Proof. apply upd_same. Qed.
Lemma has_lt w t : has w t -> (t < length (vecs w))%nat.
Proof. auto. Qed.
Lemma WWf_upd h vs t v : Forall (Wf h) vs -> Wf h v -> Forall (Wf h) (upd t v vs).
Proof. intros. apply Forall_upd; auto. Qed.
Lemma Forall_Wf_mono h h' vs : (length h <= length h')%nat -> Forall (Wf h) vs -> Forall (Wf h') vs.
Proof. intros L F. eapply Forall_impl; [|exact F]. intros v. apply Wf_mono. auto. Qed.

(* the shape of a world after an operation on vector t: new heap, vector t replaced *)
Lemma absw_mk h' vs : absw {| hp := h'; vecs := vs |} = map (abs h') vs.
Proof. auto. Qed.

(* ---- dims: SameDims ----------------------------------------------------------------------- *)
Definition SameDims (w w' : world) : Prop :=
  length (vecs w') = length (vecs w) /\ forall u, dim (getv w' u) = dim (getv w u).
Lemma SD_refl w : SameDims w w.
Proof. split; auto. Qed.
Lemma SD_trans a b c : SameDims a b -> SameDims b c -> SameDims a c.
Proof. intros [A1 A2] [B1 B2]. split; [congruence|]. intro u. rewrite B2. auto. Qed.
Lemma SD_WQ w w' : WQ w w' -> SameDims w w'.
Proof. intros (A1 & A2 & A3). split; auto. intro u. eapply Q2_dim. apply A3. Qed.
Lemma SD_seth w h : SameDims w (seth w h).
Proof. split; auto. Qed.
Lemma SD_setv w t v : dim v = dim (getv w t) -> SameDims w (setv w t v).
Proof.
  intro H. split.
  - unfold setv. cbn [vecs]. apply upd_length.
  - intro u. rewrite getv_setv. destruct (Nat.eqb t u && Nat.ltb t (length (vecs w))) eqn:E; auto.
    apply andb_prop in E. destruct E as [E _]. apply Nat.eqb_eq in E. subst. auto.
Qed.
Lemma set_loop_SD f : forall w t j w' b, set_loop f w t j = Some (w', b) -> SameDims w w'.
Proof.
  induction f as [|f IH]; intros w t j w' b; simpl; destruct (jok j);
    try discriminate; try (intro E; inversion E; subst; apply SD_refl).
  destruct (js1 j) as [l|].
  - destruct (joint_next (seth w (hset (hp w) l (jval (js2 j)))) t j) as [[w2 j']|] eqn:N; [|discriminate].
    intro E. eapply SD_trans; [apply SD_seth|]. eapply SD_trans; [apply SD_WQ; eapply joint_next_WQ; eauto|].
    eapply IH; eauto.
  - destruct (at_ (hp w) (getv w t) (jidx j)) as [[[h' v'] l]|] eqn:A; [|intro E; inversion E; subst; apply SD_refl].
    destruct (joint_next (seth (setv w t v') (hset h' l (jval (js2 j)))) t j) as [[w2 j']|] eqn:N; [|discriminate].
    intro E. eapply SD_trans; [apply (SD_setv w t v'); eapply dim_at; eauto|].
    eapply SD_trans; [apply SD_seth|]. eapply SD_trans; [apply SD_WQ; eapply joint_next_WQ; eauto|].
    eapply IH; eauto.
Qed.
Lemma set_vec_SD w t o w' b : set_vec w t o = Some (w', b) -> SameDims w w'.
Proof.
  unfold set_vec. destruct o as [u|d].
  - destruct (Nat.eqb t u); [intro E; inversion E; subst; apply SD_refl|].
    destruct (negb (dim (getv w t) =? dim (getv w u))); [intro E; inversion E; subst; apply SD_refl|].
    destruct (joint_begin w t (OS u)) as [[w1 j]|] eqn:B; [|discriminate].
    intro E. eapply SD_trans; [apply SD_WQ; eapply joint_begin_WQ; eauto|eapply set_loop_SD; eauto].
  - destruct (negb (dim (getv w t) =? Z.of_nat (length d))); [intro E; inversion E; subst; apply SD_refl|].
    destruct (joint_begin w t (OD d)) as [[w1 j]|] eqn:B; [|discriminate].
    intro E. eapply SD_trans; [apply SD_WQ; eapply joint_begin_WQ; eauto|eapply set_loop_SD; eauto].
Qed.

(* "n changes only by Append": NO operation changes the dimension of an existing vector (Append*
   return a new vector, like Slice, Clone and New) — every operation, every argument, in range or not *)
Lemma getv_addv_old w v u : (u < length (vecs w))%nat -> getv (addv w v) u = getv w u.
Proof. intro H. unfold getv, addv. cbn [vecs]. apply app_nth1. auto. Qed.
Lemma getv_addv_new w v : getv (addv w v) (length (vecs w)) = v.
Proof. unfold getv, addv. cbn [vecs]. rewrite app_nth2 by lia. rewrite Nat.sub_diag. auto. Qed.
Definition creates (o : op) : bool :=
  match o with New _ _ _ | Slice _ _ _ | AppendV _ _ | AppendS _ _ | AppendD _ _ | Clone _ => true | _ => false end.
Lemma step_dims w o :
  let w' := fst (step w o) in
  (forall u, (u < length (vecs w))%nat -> dim (getv w' u) = dim (getv w u)) /\
  (length (vecs w') = length (vecs w) \/ (creates o = true /\ length (vecs w') = S (length (vecs w)))).
Proof.
  assert (K : forall w', SameDims w w' ->
            (forall u, (u < length (vecs w))%nat -> dim (getv w' u) = dim (getv w u)) /\
            (length (vecs w') = length (vecs w) \/ (creates o = true /\ length (vecs w') = S (length (vecs w))))).
  { intros w' [A B]. split; auto. }
  assert (KA : forall w1 v, SameDims w w1 -> creates o = true ->
            (forall u, (u < length (vecs w))%nat -> dim (getv (addv w1 v) u) = dim (getv w u)) /\
            (length (vecs (addv w1 v)) = length (vecs w) \/
             (creates o = true /\ length (vecs (addv w1 v)) = S (length (vecs w))))).
  { intros w1 v [A B] C. split.
    - intros u Hu. rewrite getv_addv_old by lia. auto.
    - right. split; auto. unfold addv. cbn [vecs]. rewrite app_length. simpl. lia. }
  destruct o; cbn [step].
  - destruct (new_vec (hp w) ks xs n) as [[h' v]|]; cbn [fst]; [|apply K, SD_refl].
    apply KA; auto. apply SD_seth.
  - destruct (at_ (hp w) (getv w t) i) as [[[h' v'] l]|] eqn:A; cbn [fst]; [|apply K, SD_refl].
    apply K. eapply SD_trans; [apply (SD_setv w t v'); eapply dim_at; eauto|apply SD_seth].
  - destruct (at_ (hp w) (getv w t) i) as [[[h' v'] l]|] eqn:A; cbn [fst]; [|apply K, SD_refl].
    apply K. eapply SD_trans; [apply (SD_setv w t v'); eapply dim_at; eauto|apply SD_seth].
  - destruct (const_at (hp w) (getv w t) i); cbn [fst]; apply K, SD_refl.
  - destruct (set_vec w t o) as [[w' b]|] eqn:E; cbn [fst]; [|apply K, SD_refl].
    apply K. eapply set_vec_SD; eauto.
  - destruct (set_vec w t (OS u)) as [[w' b]|] eqn:E; cbn [fst]; [|apply K, SD_refl].
    apply K. eapply set_vec_SD; eauto.
  - cbn [fst]. apply K, SD_seth.
  - cbn [fst]. apply K, SD_setv. auto.
  - cbn [fst]. apply K, SD_setv. apply dim_swap.
  - destruct (permute (getv w t) pi) as [v' ok] eqn:E. cbn [fst]. apply K, SD_setv.
    change v' with (fst (v', ok)). rewrite <- E. apply dim_permute.
  - destruct (sort (hp w) (getv w t) r) as [v'|] eqn:E; cbn [fst]; [|apply K, SD_refl].
    apply K, SD_setv. unfold sort in E. destruct (iterate (hp w) (getv w t)) as [[v1 sq]|]; [|discriminate].
    inversion E. rewrite dim_place. auto.
  - cbn [fst]. apply KA; auto. apply SD_refl.
  - destruct (clone (hp w) (getv w t)) as [h1 r].
    destruct (iterate h1 (getv (seth w h1) u)) as [[u' sq]|] eqn:E; cbn [fst]; [|apply K, SD_refl].
    apply KA; auto. eapply SD_trans; [apply SD_seth|]. apply SD_WQ. apply (WQ_setv (seth w h1)).
    eapply iterate_Q2; eauto.
  - destruct (clone (hp w) (getv w t)) as [h1 r]. destruct (append_fresh h1 _ xs _) as [h2 r']. cbn [fst].
    apply KA; auto. apply SD_seth.
  - destruct (clone (hp w) (getv w t)) as [h1 r]. destruct (append_fresh h1 _ d _) as [h2 r']. cbn [fst].
    apply KA; auto. apply SD_seth.
  - cbn [fst]. apply K, SD_seth.
  - cbn [fst]. apply K, SD_seth.
  - cbn [fst]. apply K, SD_seth.
  - cbn [fst]. apply K, SD_refl.
  - destruct (iterate (hp w) (getv w t)) as [[v' s]|] eqn:E; cbn [fst]; [|apply K, SD_refl].
    apply K, SD_WQ, WQ_setv. eapply iterate_Q2; eauto.
  - destruct (it_begin (hp w) (getv w t)) as [[v0 cur]|] eqn:B; cbn [fst]; [|apply K, SD_refl].
    destruct (iter_part m (hp w) v0 cur []) as [[v' s]|] eqn:E; cbn [fst]; [|apply K, SD_refl].
    apply K, SD_WQ, WQ_setv. eapply Q2_trans; [eapply it_begin_Q2; eauto|eapply iter_part_Q2; eauto].
  - destruct (it_from (hp w) (getv w t) i) as [[v0 cur]|] eqn:B; cbn [fst]; [|apply K, SD_refl].
    destruct (iter_loop (sfuel (getv w t)) (hp w) v0 cur []) as [[v' s]|] eqn:E; cbn [fst]; [|apply K, SD_refl].
    apply K, SD_WQ, WQ_setv. eapply Q2_trans; [eapply it_from_Q2; eauto|eapply iter_loop_Q2; eauto].
  - destruct (clone (hp w) (getv w t)) as [h1 r]. cbn [fst]. apply KA; auto. apply SD_seth.
  - destruct (joint_run w t o) as [[w' vis]|] eqn:E; cbn [fst]; [|apply K, SD_refl].
    apply K, SD_WQ. eapply joint_run_WQ; eauto.
  - destruct (joint3_run w t o2 o3) as [[w' vis]|] eqn:E; cbn [fst]; [|apply K, SD_refl].
    apply K, SD_WQ. eapply joint3_run_WQ; eauto.
Qed.

(* ---- the simulation, operation by operation -------------------------------------------------- *)
Definition Sim (w : world) (o : op) : Prop :=
  absw (fst (step w o)) = dstep (absw w) o /\ WWf (fst (step w o)).

Section Step.
Variable w : world.
Hypothesis I : WInv w.
Hypothesis W : WWf w.
Let h := hp w.
Let G : forall t, Inv (getv w t) := fun t => WInv_getv w t I.
Let GW : forall t, Wf (hp w) (getv w t) := fun t => WWf_getv w t W.

(* vector t replaced, heap unchanged *)
Lemma sim_setv t v' (D : list Z -> list Z) :
  abs (hp w) v' = D (abs (hp w) (getv w t)) -> Wf (hp w) v' ->
  absw (setv w t v') = upd t (D (dget (absw w) t)) (absw w) /\ WWf (setv w t v').
Proof.
  intros E Wv. split.
  - unfold absw, setv. cbn [hp vecs]. rewrite map_upd. rewrite E. fold (absw w). rewrite dget_absw. auto.
  - unfold WWf, setv. cbn [hp vecs]. apply Forall_upd; auto.
Qed.
(* a vector added, heap extended *)
Lemma sim_addv e v (l : list Z) :
  abs (hp w ++ e) v = l -> Wf (hp w ++ e) v ->
  absw (addv (seth w (hp w ++ e)) v) = absw w ++ [l] /\ WWf (addv (seth w (hp w ++ e)) v).
Proof.
  intros E Wv. split.
  - unfold absw, addv, seth. cbn [hp vecs]. rewrite map_app. simpl. rewrite E.
    f_equal. apply map_abs_app. auto.
  - unfold WWf, addv, seth. cbn [hp vecs]. apply Forall_app. split; [|constructor; auto].
    eapply Forall_Wf_mono; [|exact W]. rewrite app_length. lia.
Qed.
(* the cells of vector t rewritten in place (heap length unchanged), t unshared *)
Lemma sim_cells t h' (D : list Z -> list Z) :
  has w t -> unshared w t -> length h' = length (hp w) ->
  (forall l, (l < length (hp w))%nat -> ~ In l (cells_of (getv w t)) -> hget h' l = hget (hp w) l) ->
  abs h' (getv w t) = D (abs (hp w) (getv w t)) ->
  absw (seth w h') = upd t (D (dget (absw w) t)) (absw w) /\ WWf (seth w h').
Proof.
  intros Ht U L F E. split.
  - unfold absw at 1. unfold seth. cbn [hp vecs].
    rewrite (map_upd_ext (abs h') (abs h') (vecs w) (nil_vec 0) t) by auto.
    fold (getv w t). rewrite E. rewrite <- dget_absw. apply upd_map_unshared; auto.
  - unfold WWf, seth. cbn [hp vecs]. eapply Forall_Wf_mono; [|exact W]. lia.
Qed.

Lemma sim_New ks xs n : in_range w (New ks xs n) -> Sim w (New ks xs n).
Proof.
  intros (R1 & R2 & R3 & R4). unfold Sim. cbn [step dstep].
  destruct (new_vec_spec (hp w) ks xs n R1 R2 R3 R4) as (h' & v & A & B & (e & C) & D).
  rewrite A. cbn [fst]. subst h'. apply sim_addv; auto.
Qed.
Lemma sim_At t i : in_range w (At t i) -> Sim w (At t i).
Proof.
  intros (R1 & R2). unfold Sim. cbn [step dstep].
  destruct (at_in_range_ok (hp w) (getv w t) i R2) as (h' & v' & l & A). rewrite A. cbn [fst].
  destruct (Wf_at _ _ _ _ _ _ (GW t) A) as (Wv & Lh & Ll & Lk).
  assert (E : abs h' v' = abs (hp w) (getv w t)).
  { apply abs_ext; [eapply dim_at; eauto|]. intros k _. eapply at_peek; eauto. }
  destruct (at_shape _ _ _ _ _ _ A) as [(-> & -> & L)|(-> & -> & L & ->)].
  - split.
    + unfold absw, seth, setv. cbn [hp vecs]. rewrite map_upd. fold (absw w).
      rewrite <- dget_absw. apply upd_dget.
    + unfold WWf, seth, setv. cbn [hp vecs]. apply Forall_upd; auto.
  - split.
    + unfold absw at 1. unfold seth, setv. cbn [hp vecs]. rewrite map_upd. rewrite E. rewrite map_abs_app by auto.
      rewrite <- dget_absw. apply upd_dget.
    + unfold WWf, seth, setv. cbn [hp vecs]. apply Forall_upd; auto.
      eapply Forall_Wf_mono; [|exact W]. rewrite app_length. lia.
Qed.
Lemma sim_SetAt t i x : in_range w (SetAt t i x) -> safe w (SetAt t i x) -> Sim w (SetAt t i x).
Proof.
  intros (R1 & R2) U. unfold safe in U. cbn [writes_cells] in U. unfold Sim. cbn [step dstep].
  destruct (at_in_range_ok (hp w) (getv w t) i R2) as (h' & v' & l & A). rewrite A. cbn [fst].
  destruct (Wf_at _ _ _ _ _ _ (GW t) A) as (Wv & Lh & Ll & Lk).
  assert (E : abs (hset h' l x) v' = upd (Z.to_nat i) x (abs (hp w) (getv w t))).
  { apply set_at_abs; auto. apply R2. }
  assert (F : forall l0, (l0 < length (hp w))%nat -> ~ In l0 (cells_of (getv w t)) ->
                         hget (hset h' l x) l0 = hget (hp w) l0).
  { intros l0 H0 N0. destruct (at_shape _ _ _ _ _ _ A) as [(-> & -> & L)|(-> & -> & L & ->)].
    - apply hget_hset_neq. intro. subst l0. apply N0. eapply lookup_In_cells; eauto.
    - rewrite hget_hset_neq by lia. apply hget_app. auto. }
  split.
  - unfold absw at 1. unfold seth, setv. cbn [hp vecs]. rewrite map_upd, E.
    rewrite <- dget_absw. apply upd_map_unshared; auto.
  - unfold WWf, seth, setv. cbn [hp vecs]. apply Forall_upd.
    + eapply Forall_Wf_mono; [|exact W]. rewrite hset_length. auto.
    + eapply Wf_mono; [|exact Wv]. rewrite hset_length. auto.
Qed.
Lemma sim_map t (f : Z -> Z) : has w t -> unshared w t -> f 0 = 0 ->
  absw (seth w (map_cells f (hp w) (getv w t))) = upd t (map f (dget (absw w) t)) (absw w) /\
  WWf (seth w (map_cells f (hp w) (getv w t))).
Proof.
  intros Ht U F0. destruct (map_cells_spec f (hp w) (getv w t) (G t) (GW t)) as [L HH].
  apply sim_cells; auto.
  - intros l _ N. apply map_cells_frame; auto.
  - apply map_cells_abs; auto.
Qed.
Lemma sim_Swap t i j : in_range w (Swap t i j) -> Sim w (Swap t i j).
Proof.
  intros (R1 & R2 & R3). unfold Sim. cbn [step dstep fst].
  apply (sim_setv t _ (fun l => dswap l i j)); [apply swap_abs; auto|apply Wf_swap; auto].
Qed.
Lemma sim_Permute t pi : has w t -> Sim w (Permute t pi).
Proof.
  intro R1. unfold Sim. cbn [step dstep].
  destruct (permute (getv w t) pi) as [v' ok] eqn:E. cbn [fst].
  assert (v' = fst (permute (getv w t) pi)) as -> by (rewrite E; auto).
  apply (sim_setv t _ (fun l => dpermute l pi)); [apply permute_abs; auto|apply Wf_permute; auto].
Qed.
Lemma sim_Sort t r : has w t -> Sim w (Sort t r).
Proof.
  intro R1. unfold Sim. cbn [step dstep].
  destruct (sort_total (hp w) (getv w t) r (G t)) as [v' E]. rewrite E. cbn [fst].
  apply (sim_setv t _ (dsort r)).
  - eapply sort_refines; eauto.
  - eapply Wf_sort; eauto.
Qed.
Lemma sim_Slice t i j : in_range w (Slice t i j) -> Sim w (Slice t i j).
Proof.
  intros (R1 & R2 & R3). unfold Sim. cbn [step dstep fst].
  pose proof (sim_addv [] (slice (getv w t) i j) (dslice (dget (absw w) t) i j)) as P.
  rewrite app_nil_r in P. replace (seth w (hp w)) with w in P by (destruct w; auto).
  apply P.
  - rewrite dget_absw. apply slice_abs; auto.
  - apply Wf_slice; auto.
Qed.
Lemma sim_Clone t : has w t -> Sim w (Clone t).
Proof.
  intro R1. unfold Sim. cbn [step dstep].
  pose proof (clone_abs (hp w) (getv w t) (G t) (GW t)) as A.
  pose proof (Wf_clone (hp w) (getv w t) (G t) (GW t)) as [B _].
  destruct (clone_heap (hp w) (getv w t) (G t) (GW t)) as [e C].
  destruct (clone (hp w) (getv w t)) as [h1 r]. cbn [fst snd] in *. subst h1.
  apply sim_addv; auto. rewrite dget_absw. auto.
Qed.
Lemma sim_AppendS t xs : has w t ->
  absw (fst (step w (AppendS t xs))) = absw w ++ [dget (absw w) t ++ xs] /\ WWf (fst (step w (AppendS t xs))).
Proof.
  intro R1. cbn [step].
  pose proof (clone_abs (hp w) (getv w t) (G t) (GW t)) as A.
  pose proof (Wf_clone (hp w) (getv w t) (G t) (GW t)) as [B B2].
  pose proof (Inv_clone (hp w) (getv w t) (G t)) as IC.
  destruct (clone_idx_dim (hp w) (getv w t)) as [_ DC].
  destruct (clone_heap (hp w) (getv w t) (G t) (GW t)) as [e C].
  destruct (clone (hp w) (getv w t)) as [h1 r]. cbn [fst snd] in *. subst h1.
  destruct (append_fresh (hp w ++ e) (dim (getv w t)) xs (set_dim (dim (getv w t) + Z.of_nat (length xs)) r))
    as [h2 r'] eqn:E. cbn [fst].
  assert (D0 : 0 <= dim (getv w t)) by apply (G t).
  destruct (append_fresh_spec xs _ _ _ _ _ E) as (Eh & Ed & Wr & P).
  { destruct B as [B1 B3]. split; auto. }
  { intros k l L. cbn [set_dim vals] in L. destruct IC as (_ & _ & Hd & Hr & _). apply Hd in L. apply Hr in L. lia. }
  subst h2. rewrite <- app_assoc. apply sim_addv; rewrite ?app_assoc; auto.
  cbn [set_dim dim] in Ed.
  apply abs_eq_by_nth; rewrite ?Ed; try lia.
  - rewrite app_length, Nat2Z.inj_add, dget_absw, abs_length; auto.
  - intros k Hk. rewrite P. rewrite dget_absw.
    pose proof (abs_length (hp w) (getv w t) D0) as AL.
    destruct (dim (getv w t) <=? k) eqn:C1.
    + apply Z.leb_le in C1. assert ((k <? dim (getv w t) + Z.of_nat (length xs)) = true) as -> by (apply Z.ltb_lt; lia).
      simpl. rewrite app_nth2 by lia. f_equal. lia.
    + apply Z.leb_gt in C1. simpl. rewrite app_nth1 by lia.
      change (peek (hp w ++ e) (set_dim (dim (getv w t) + Z.of_nat (length xs)) r) k) with (peek (hp w ++ e) r k).
      rewrite <- A. rewrite abs_nth by lia. auto.
Qed.
Lemma sim_AppendD t d : has w t ->
  absw (fst (step w (AppendD t d))) = absw w ++ [dget (absw w) t ++ d] /\ WWf (fst (step w (AppendD t d))).
Proof. intro R1. change (step w (AppendD t d)) with (step w (AppendS t d)). apply sim_AppendS. auto. Qed.
Lemma sim_AppendV t u : has w t -> has w u -> Sim w (AppendV t u).
Proof.
  intros R1 R2. unfold Sim. cbn [step dstep].
  pose proof (clone_peek (hp w) (getv w t)) as CP.
  pose proof (Wf_clone (hp w) (getv w t) (G t) (GW t)) as [B B2].
  pose proof (Inv_clone (hp w) (getv w t) (G t)) as IC.
  destruct (clone_idx_dim (hp w) (getv w t)) as [_ DC].
  destruct (clone_heap (hp w) (getv w t) (G t) (GW t)) as [e C].
  destruct (clone (hp w) (getv w t)) as [h1 r]. cbn [fst snd] in *. subst h1.
  change (getv (seth w (hp w ++ e)) u) with (getv w u).
  destruct (iterate_spec (hp w ++ e) (getv w u)) as (u' & A1 & A2 & A3); [apply (G u)|].
  rewrite A1. cbn [fst].
  assert (Q2u : Q2 (hp w ++ e) (getv w u) u') by (eapply iterate_Q2; eauto).
  assert (D0 : 0 <= dim (getv w t)) by apply (G t).
  assert (D1 : 0 <= dim (getv w u)) by apply (G u).
  assert (Wu : Wf (hp w ++ e) (getv w u)) by (eapply Wf_mono; [|apply (GW u)]; rewrite app_length; lia).
  set (r' := append_entries (dim (getv w t)) (cells (getv w u) (filter (nonnull (hp w ++ e) (getv w u)) (idx (getv w u))))
               (set_dim (dim (getv w t) + dim (getv w u)) r)).
  split.
  - unfold absw at 1. unfold addv, setv, seth. cbn [hp vecs]. rewrite map_app. cbn [map].
    rewrite map_upd, map_abs_app by auto. rewrite (Q2_abs _ _ _ Q2u).
    assert (abs (hp w ++ e) (getv w u) = dget (absw w) u) as ->.
    { rewrite dget_absw. apply abs_ext; auto. intros k _. apply peek_app. apply (GW u). }
    rewrite upd_dget. f_equal. f_equal.
    apply abs_eq_by_nth; unfold r'; rewrite ?append_entries_dim; cbn [set_dim dim]; try lia.
    + rewrite app_length, Nat2Z.inj_add, !dget_absw, !abs_length; auto.
    + intros k Hk. rewrite (append_peek (hp w ++ e) r (getv w u) (dim (getv w t)) k IC (G u) DC Hk).
      rewrite !dget_absw.
      pose proof (abs_length (hp w) (getv w t) D0) as AL.
      destruct (k <? dim (getv w t)) eqn:C1.
      * apply Z.ltb_lt in C1. rewrite app_nth1 by lia. rewrite CP by auto. rewrite abs_nth by lia. auto.
      * apply Z.ltb_ge in C1. rewrite app_nth2 by lia.
        replace (Z.to_nat k - length (abs (hp w) (getv w t)))%nat with (Z.to_nat (k - dim (getv w t))) by lia.
        rewrite abs_nth by lia. apply peek_app. apply (GW u).
  - unfold WWf, addv, setv, seth. cbn [hp vecs]. apply Forall_app. split.
    + apply Forall_upd.
      * eapply Forall_Wf_mono; [|exact W]. rewrite app_length. lia.
      * eapply Q2_Wf; eauto.
    + constructor; [|constructor]. apply (Wf_append (hp w ++ e) r (getv w u) (dim (getv w t)) (length (hp w))).
      * exact (G u).
      * exact B.
      * exact Wu.
      * exact B2.
      * intros l Hl. apply (cells_alloc (hp w) (getv w u)); auto.
Qed.
Lemma sim_ReverseOrder t : has w t -> Sim w (ReverseOrder t).
Proof.
  intro R1. unfold Sim. cbn [step dstep fst].
  apply (sim_setv t _ (@rev Z)); [apply reverse_order_abs; auto|apply Wf_reverse_order; auto].
Qed.
Lemma sim_WQ w' : WQ w w' -> absw w' = absw w /\ WWf w'.
Proof. intro Q. split; [apply WQ_absw; auto|eapply WQ_WWf; eauto]. Qed.
Lemma sim_iter (o : op) : dstep (absw w) o = absw w ->
  match o with Iterate _ | IterPart _ _ | IterFrom _ _ | Joint _ _ | Joint3 _ _ _ | ConstAt _ _ | ReduceSum _ => True | _ => False end ->
  Sim w o.
Proof.
  intros E K. unfold Sim. rewrite E. destruct o; try tauto; cbn [step].
  - destruct (const_at (hp w) (getv w t) i); cbn [fst]; apply sim_WQ, WQ_refl.
  - destruct (iterate (hp w) (getv w t)) as [[v' s]|] eqn:X; cbn [fst]; [|apply sim_WQ, WQ_refl].
    apply sim_WQ, WQ_setv. eapply iterate_Q2; eauto.
  - destruct (it_begin (hp w) (getv w t)) as [[v0 cur]|] eqn:B; cbn [fst]; [|apply sim_WQ, WQ_refl].
    destruct (iter_part m (hp w) v0 cur []) as [[v' s]|] eqn:X; cbn [fst]; [|apply sim_WQ, WQ_refl].
    apply sim_WQ, WQ_setv. eapply Q2_trans; [eapply it_begin_Q2; eauto|eapply iter_part_Q2; eauto].
  - destruct (it_from (hp w) (getv w t) i) as [[v0 cur]|] eqn:B; cbn [fst]; [|apply sim_WQ, WQ_refl].
    destruct (iter_loop (sfuel (getv w t)) (hp w) v0 cur []) as [[v' s]|] eqn:X; cbn [fst]; [|apply sim_WQ, WQ_refl].
    apply sim_WQ, WQ_setv. eapply Q2_trans; [eapply it_from_Q2; eauto|eapply iter_loop_Q2; eauto].
  - destruct (joint_run w t o) as [[w' vis]|] eqn:X; cbn [fst]; [|apply sim_WQ, WQ_refl].
    apply sim_WQ. eapply joint_run_WQ; eauto.
  - destruct (joint3_run w t o2 o3) as [[w' vis]|] eqn:X; cbn [fst]; [|apply sim_WQ, WQ_refl].
    apply sim_WQ. eapply joint3_run_WQ; eauto.
Qed.
End Step.

(* ---- every operation ------------------------------------------------------------------------ *)
Definition SetSpec : Prop := forall w t o w' b,
  WInv w -> WWf w -> has w t -> operand_ok w (dim (getv w t)) o -> unshared w t ->
  set_vec w t o = Some (w', b) ->
  b = true /\ absw w' = upd t (doperand (absw w) o) (absw w) /\ WWf w' /\ length (vecs w') = length (vecs w).
Definition SetTotal : Prop := forall w t o,
  WInv w -> has w t -> operand_ok w (dim (getv w t)) o -> exists w' b, set_vec w t o = Some (w', b).

Definition not_set (o : op) : Prop := match o with SetV _ _ | SETV _ _ => False | _ => True end.
Lemma step_sim_noset w o : WInv w -> WWf w -> in_range w o -> safe w o -> not_set o -> Sim w o.
Proof.
  intros I W R S N. destruct o; simpl in N; try tauto.
  - apply sim_New; auto.
  - apply sim_At; auto.
  - apply sim_SetAt; auto.
  - apply sim_iter; auto.
  - (* Reset *) unfold Sim. cbn [step dstep fst]. rewrite reset_is_map. apply sim_map; auto.
  - apply sim_ReverseOrder; auto.
  - apply sim_Swap; auto.
  - apply sim_Permute; auto. apply R.
  - apply sim_Sort; auto.
  - apply sim_Slice; auto.
  - apply sim_AppendV; auto; apply R.
  - unfold Sim. cbn [dstep]. apply sim_AppendS; auto.
  - unfold Sim. cbn [dstep]. apply sim_AppendD; auto.
  - (* MapMul *) unfold Sim. cbn [step dstep fst]. apply (sim_map w I W t (fun x => x * c)); auto.
  - (* MapAdd, c = 0 *) destruct R as [R1 R2]. subst c. unfold Sim. cbn [step dstep fst].
    apply (sim_map w I W t (fun x => x + 0)); auto.
  - (* MapSetMul *) unfold Sim. cbn [step dstep fst]. apply (sim_map w I W t (fun x => x * c)); auto.
  - apply sim_iter; auto.
  - apply sim_iter; auto.
  - apply sim_iter; auto.
  - apply sim_iter; auto.
  - apply sim_Clone; auto.
  - apply sim_iter; auto.
  - apply sim_iter; auto.
Qed.

Section WithSet.
Hypothesis HS : SetSpec.
Hypothesis HT : SetTotal.
Lemma step_sim w o : WInv w -> WWf w -> in_range w o -> safe w o -> Sim w o.
Proof.
  intros I W R S. destruct o; try (apply step_sim_noset; simpl; auto; fail).
  - (* SetV *) destruct R as [R1 R2]. unfold Sim. cbn [step dstep].
    destruct (HT w t o I R1 R2) as (w' & b & E). rewrite E. cbn [fst].
    destruct (HS w t o w' b I W R1 R2 S E) as (_ & A & B & _). auto.
  - (* SETV *) destruct R as (R1 & R2 & R3). unfold Sim. cbn [step dstep].
    assert (R4 : operand_ok w (dim (getv w t)) (OS u)) by (simpl; auto).
    destruct (HT w t (OS u) I R1 R4) as (w' & b & E). rewrite E. cbn [fst].
    destruct (HS w t (OS u) w' b I W R1 R4 S E) as (_ & A & B & _). auto.
Qed.
Lemma run_sim ops : forall w, WInv w -> WWf w -> valid_safe w ops ->
  absw (run w ops) = dense_run (absw w) ops /\ WWf (run w ops).
Proof.
  induction ops as [|o r IH]; intros w I W V; simpl; auto.
  destruct V as (V1 & V2 & V3). destruct (step_sim w o I W V1 V2) as [A B].
  unfold run, dense_run in *. simpl. rewrite <- A. apply IH; auto. apply step_WInv; auto.
Qed.
End WithSet.

Lemma WWf_init : WWf init.
Proof. constructor. Qed.
(* without Set/SET in the history no assumption on set_vec is needed *)
Fixpoint no_set (ops : list op) : Prop := match ops with [] => True | o :: r => not_set o /\ no_set r end.
Lemma run_sim_noset ops : forall w, WInv w -> WWf w -> valid_safe w ops -> no_set ops ->
  absw (run w ops) = dense_run (absw w) ops /\ WWf (run w ops).
Proof.
  induction ops as [|o r IH]; intros w I W V N; simpl; auto.
  destruct V as (V1 & V2 & V3). destruct N as [N1 N2]. destruct (step_sim_noset w o I W V1 V2 N1) as [A B].
  unfold run, dense_run in *. simpl. rewrite <- A. apply IH; auto. apply step_WInv; auto.
Qed.

(* dims along histories *)
Lemma run_dims ops : forall w u, (u < length (vecs w))%nat ->
  dim (getv (run w ops) u) = dim (getv w u) /\ (length (vecs w) <= length (vecs (run w ops)))%nat.
Proof.
  induction ops as [|o r IH]; intros w u Hu; simpl; auto.
  destruct (step_dims w o) as [A B]. unfold run in *. simpl.
  assert (L : (length (vecs w) <= length (vecs (fst (step w o))))%nat) by (destruct B as [B|[_ B]]; lia).
  destruct (IH (fst (step w o)) u) as [C D]; [lia|]. split; [rewrite C; auto|lia].
Qed.

(* the executable side conditions are sound *)
Lemma unsharedb_sound w t : unsharedb w t = true -> unshared w t.
Proof.
  unfold unsharedb, unshared. intros H u l Hu Ht Hin.
  destruct (Nat.lt_ge_cases u (length (vecs w))) as [L|L].
  - rewrite forallb_forall in H. specialize (H u). rewrite in_seq in H.
    assert (X : (Nat.eqb u t || forallb (fun l0 => negb (memb l0 (cells_of (getv w u)))) (cells_of (getv w t))) = true)
      by (apply H; lia).
    apply orb_prop in X. destruct X as [X|X].
    + apply Nat.eqb_eq in X. auto.
    + rewrite forallb_forall in X. specialize (X l Ht). apply negb_true_iff in X.
      apply memb_In in Hin. congruence.
  - unfold getv in Hin. rewrite nth_overflow in Hin by lia. destruct Hin.
Qed.
Lemma safeb_sound w o : safeb w o = true -> safe w o.
Proof. unfold safeb, safe. destruct (writes_cells o); auto. apply unsharedb_sound. Qed.
