(* C11 — dense refinement, part 3: iteration.  Every iterator move goes through
   skip(), which only REMOVES null entries (stored zeros, value-less keys):
   the world after any plain / joint / joint3 iteration stands for the same
   dense lists, keeps its dimensions and its well-formedness. *)
From Coq Require Import ZArith List Bool Lia Sorted.
From ADV Require Import C11.Model C11.Spec C11.Dense C11.ProofsMap C11.ProofsIter C11.ProofsInv C11.ProofsRef C11.ProofsD1.
Import ListNotations.
Open Scope Z_scope.

(* v' is v with some null entries removed, and holds no other entry *)
Definition Q2 (h : heap) (v v' : svec) : Prop :=
  Q h v v' /\ (forall k l, lookup k (vals v') = Some l -> lookup k (vals v) = Some l).
Lemma Q2_refl h v : Q2 h v v.
Proof. split; [apply Q_refl|auto]. Qed.
Lemma Q2_trans h a b c : Q2 h a b -> Q2 h b c -> Q2 h a c.
Proof. intros [A1 A2] [B1 B2]. split; [eapply Q_trans; eauto|auto]. Qed.
Lemma Q2_del h v k : isnull h v k = true -> Q2 h v (del_entry k v).
Proof.
  intro H. split; [apply Q_del; auto|]. unfold del_entry. cbn [vals]. intros k' l.
  rewrite lookup_remove. destruct (k =? k'); [discriminate|auto].
Qed.
Lemma Q2_abs h v v' : Q2 h v v' -> abs h v' = abs h v.
Proof.
  intros [A _]. apply abs_ext; [apply A|]. intros k _. apply Q_peek. auto.
Qed.
Lemma Q2_dim h v v' : Q2 h v v' -> dim v' = dim v.
Proof. intros [A _]. apply A. Qed.
Lemma Q2_Wf h v v' : Q2 h v v' -> Wf h v -> Wf h v'.
Proof.
  intros [_ S] [W1 W2]. split.
  - intros k l L. eauto.
  - intros k1 k2 l L1 L2. eauto.
Qed.
Lemma Q2_cells h v v' l : Q2 h v v' -> In l (cells_of v') -> NoDup (map fst (vals v')) -> In l (cells_of v).
Proof.
  intros [_ S] Hin ND. apply In_cells_lookup in Hin; auto. destruct Hin as [k L].
  eapply lookup_In_cells; eauto.
Qed.

Lemma skip_Q2 f : forall h v cur v' c', skip f h v cur = Some (v', c') -> Q2 h v v'.
Proof.
  induction f as [|f IH]; intros h v cur v' c'; simpl; destruct cur as [k|];
    try (intro E; inversion E; subst; apply Q2_refl).
  - destruct (isnull h v k); intro E; inversion E; subst; apply Q2_refl.
  - destruct (isnull h v k) eqn:N.
    + intro E. apply IH in E. eapply Q2_trans; [apply Q2_del; eauto|].
      (* Q2 is stated with the null test of the heap h on both sides: fine *) exact E.
    + intro E; inversion E; subst; apply Q2_refl.
Qed.
Lemma it_next_Q2 h v cur v' c' : it_next h v cur = Some (v', c') -> Q2 h v v'.
Proof.
  unfold it_next. destruct cur; intro E.
  - eapply skip_Q2; eauto.
  - inversion E; subst; apply Q2_refl.
Qed.
Lemma it_begin_Q2 h v v' c' : it_begin h v = Some (v', c') -> Q2 h v v'.
Proof. unfold it_begin. apply skip_Q2. Qed.
Lemma it_from_Q2 h v i v' c' : it_from h v i = Some (v', c') -> Q2 h v v'.
Proof. unfold it_from. apply skip_Q2. Qed.
Lemma iter_loop_Q2 f : forall h v cur acc v' s, iter_loop f h v cur acc = Some (v', s) -> Q2 h v v'.
Proof.
  induction f as [|f IH]; intros h v cur acc v' s; simpl; destruct cur as [k|];
    try (intro E; inversion E; subst; apply Q2_refl); try discriminate.
  destruct (lookup k (vals v)); [|discriminate].
  destruct (it_next h v (Some k)) as [[v1 c1]|] eqn:N; [|discriminate].
  intro E. eapply Q2_trans; [eapply it_next_Q2; eauto|eapply IH; eauto].
Qed.
Lemma iter_part_Q2 m : forall h v cur acc v' s, iter_part m h v cur acc = Some (v', s) -> Q2 h v v'.
Proof.
  induction m as [|m IH]; intros h v cur acc v' s; simpl.
  - intro E; inversion E; subst; apply Q2_refl.
  - destruct cur as [k|]; [|intro E; inversion E; subst; apply Q2_refl].
    destruct (lookup k (vals v)); [|discriminate].
    destruct (it_next h v (Some k)) as [[v1 c1]|] eqn:N; [|discriminate].
    intro E. eapply Q2_trans; [eapply it_next_Q2; eauto|eapply IH; eauto].
Qed.
Lemma iterate_Q2 h v v' s : iterate h v = Some (v', s) -> Q2 h v v'.
Proof.
  unfold iterate. destruct (it_begin h v) as [[v1 c1]|] eqn:B; [|discriminate].
  intro E. eapply Q2_trans; [eapply it_begin_Q2; eauto|eapply iter_loop_Q2; eauto].
Qed.

(* ---- worlds ---------------------------------------------------------------------------- *)
Definition WQ (w w' : world) : Prop :=
  hp w' = hp w /\ length (vecs w') = length (vecs w) /\ forall u, Q2 (hp w) (getv w u) (getv w' u).
Lemma WQ_refl w : WQ w w.
Proof. split; [auto|split; [auto|intro u; apply Q2_refl]]. Qed.
Lemma WQ_trans a b c : WQ a b -> WQ b c -> WQ a c.
Proof.
  intros (A1 & A2 & A3) (B1 & B2 & B3). split; [congruence|]. split; [congruence|].
  intro u. eapply Q2_trans; [apply A3|]. rewrite <- A1. apply B3.
Qed.
Lemma nth_upd_same {X} (l : list X) d : forall t x, nth t (upd t x l) d = if Nat.ltb t (length l) then x else d.
Proof.
  induction l as [|a l IH]; intros [|t] x; simpl; auto. rewrite IH. reflexivity.
Qed.
Lemma getv_setv w t v u :
  getv (setv w t v) u = if Nat.eqb t u && Nat.ltb t (length (vecs w)) then v else getv w u.
Proof.
  unfold getv, setv. cbn [vecs]. destruct (Nat.eqb t u) eqn:E.
  - apply Nat.eqb_eq in E. subst u. rewrite nth_upd_same. simpl.
    destruct (Nat.ltb t (length (vecs w))) eqn:L; auto.
    apply Nat.ltb_ge in L. rewrite nth_overflow; auto.
  - apply Nat.eqb_neq in E. simpl. apply nth_upd_neq. auto.
Qed.
Lemma WQ_setv w t v' : Q2 (hp w) (getv w t) v' -> WQ w (setv w t v').
Proof.
  intro H. split; [auto|]. split.
  - unfold setv. cbn [vecs]. apply upd_length.
  - intro u. rewrite getv_setv. destruct (Nat.eqb t u && Nat.ltb t (length (vecs w))) eqn:E; [|apply Q2_refl].
    apply andb_prop in E. destruct E as [E _]. apply Nat.eqb_eq in E. subst. auto.
Qed.
Lemma dget_absw w t : dget (absw w) t = abs (hp w) (getv w t).
Proof.
  unfold dget, absw, getv.
  change (@nil Z) with (abs (hp w) (nil_vec 0)). apply map_nth.
Qed.
Lemma absw_length w : length (absw w) = length (vecs w).
Proof. apply map_length. Qed.
Lemma dw_ext (a b : dworld) : length a = length b -> (forall u, dget a u = dget b u) -> a = b.
Proof.
  revert b. induction a as [|x a IH]; intros [|y b] L H; simpl in *; try discriminate; auto.
  f_equal.
  - apply (H O).
  - apply IH; [lia|]. intro u. apply (H (S u)).
Qed.
Lemma WQ_absw w w' : WQ w w' -> absw w' = absw w.
Proof.
  intros (A1 & A2 & A3). apply dw_ext.
  - rewrite !absw_length. auto.
  - intro u. rewrite !dget_absw, A1. apply Q2_abs. auto.
Qed.
Lemma WWf_getv w t : WWf w -> Wf (hp w) (getv w t).
Proof. intro H. unfold getv. apply Forall_nth_d; auto. apply Wf_nil. Qed.
Lemma WWf_intro w : (forall u, Wf (hp w) (getv w u)) -> WWf w.
Proof.
  intro H. unfold WWf. apply Forall_forall. intros v Hin. apply In_nth with (d := nil_vec 0) in Hin.
  destruct Hin as (u & _ & <-). apply H.
Qed.
Lemma WQ_WWf w w' : WQ w w' -> WWf w -> WWf w'.
Proof.
  intros (A1 & A2 & A3) W. apply WWf_intro. intro u. rewrite A1. eapply Q2_Wf; [apply A3|]. apply WWf_getv. auto.
Qed.
Lemma WQ_dims w w' u : WQ w w' -> dim (getv w' u) = dim (getv w u).
Proof. intros (_ & _ & A3). eapply Q2_dim. apply A3. Qed.

Lemma ci_next_WQ w c w' c' : ci_next w c = Some (w', c') -> WQ w w'.
Proof.
  destruct c as [u cur|d p]; simpl.
  - destruct (it_next (hp w) (getv w u) cur) as [[v1 c1]|] eqn:N; [|discriminate].
    intro E. inversion E. subst. apply WQ_setv. eapply it_next_Q2; eauto.
  - intro E. inversion E. subst. apply WQ_refl.
Qed.
Lemma ci_begin_WQ w o w' c' : ci_begin w o = Some (w', c') -> WQ w w'.
Proof.
  destruct o as [u|d]; simpl.
  - destruct (it_begin (hp w) (getv w u)) as [[v1 c1]|] eqn:N; [|discriminate].
    intro E. inversion E. subst. apply WQ_setv. eapply it_begin_Q2; eauto.
  - intro E. inversion E. subst. apply WQ_refl.
Qed.
Lemma joint_next_WQ w t j w' j' : joint_next w t j = Some (w', j') -> WQ w w'.
Proof.
  unfold joint_next.
  destruct (match j1 j with Some k => (k, lookup k (vals (getv w t))) | None => (jidx j, None) end) as [i0 s1].
  destruct (if ci_ok (j2 j) then _ else _) as [[i1 s1'] s2].
  destruct s1' as [l|].
  - destruct (it_next (hp w) (getv w t) (j1 j)) as [[v1 c1]|] eqn:N; [|discriminate].
    assert (H1 : WQ w (setv w t v1)) by (apply WQ_setv; eapply it_next_Q2; eauto).
    destruct s2.
    + destruct (ci_next (setv w t v1) (j2 j)) as [[w2 c2]|] eqn:N2; [|discriminate].
      intro E. inversion E. subst. eapply WQ_trans; [exact H1|]. eapply ci_next_WQ; eauto.
    + intro E. inversion E. subst. auto.
  - destruct s2.
    + destruct (ci_next w (j2 j)) as [[w2 c2]|] eqn:N2; [|discriminate].
      intro E. inversion E. subst. eapply ci_next_WQ; eauto.
    + intro E. inversion E. subst. apply WQ_refl.
Qed.
Lemma joint_begin_WQ w t o w' j' : joint_begin w t o = Some (w', j') -> WQ w w'.
Proof.
  unfold joint_begin.
  destruct (it_begin (hp w) (getv w t)) as [[v1 c1]|] eqn:N; [|discriminate].
  assert (H1 : WQ w (setv w t v1)) by (apply WQ_setv; eapply it_begin_Q2; eauto).
  destruct (ci_begin (setv w t v1) o) as [[w1 c2]|] eqn:N2; [|discriminate].
  intro E. eapply WQ_trans; [exact H1|]. eapply WQ_trans; [eapply ci_begin_WQ; eauto|].
  eapply joint_next_WQ; eauto.
Qed.
Lemma joint_loop_WQ f : forall w t j acc w' r, joint_loop f w t j acc = Some (w', r) -> WQ w w'.
Proof.
  induction f as [|f IH]; intros w t j acc w' r; simpl; destruct (jok j);
    try discriminate; try (intro E; inversion E; subst; apply WQ_refl).
  destruct (joint_next w t j) as [[w1 j1']|] eqn:N; [|discriminate].
  intro E. eapply WQ_trans; [eapply joint_next_WQ; eauto|eapply IH; eauto].
Qed.
Lemma joint_run_WQ w t o w' r : joint_run w t o = Some (w', r) -> WQ w w'.
Proof.
  unfold joint_run. destruct (joint_begin w t o) as [[w1 j]|] eqn:B; [|discriminate].
  intro E. eapply WQ_trans; [eapply joint_begin_WQ; eauto|eapply joint_loop_WQ; eauto].
Qed.

Lemma joint3_next_WQ w t j w' j' : joint3_next w t j = Some (w', j') -> WQ w w'.
Proof.
  unfold joint3_next.
  destruct (match k1 j with Some k => (k, lookup k (vals (getv w t))) | None => (kidx j, None) end) as [i0 s1].
  destruct (if ci_ok (k2 j) then _ else _) as [[i1 s1a] s2a].
  destruct (if ci_ok (k3 j) then _ else _) as [[[i2 s1b] s2b] s3b].
  assert (G : forall wa, WQ w wa -> forall c,
             match (match s2b with Some _ => ci_next wa (k2 j) | None => Some (wa, k2 j) end) with
             | None => None
             | Some (w2, c2) =>
                 match (match s3b with Some _ => ci_next w2 (k3 j) | None => Some (w2, k3 j) end) with
                 | None => None
                 | Some (w3, c3) =>
                     Some (w3, {| k1 := c; k2 := c2; k3 := c3; kidx := i2; ks1 := s1b; ks2 := s2b; ks3 := s3b;
                                  kok := match s1b, s2b, s3b with None, None, None => false | _, _, _ => true end |})
                 end
             end = Some (w', j') -> WQ w w').
  { intros wa Ha c.
    destruct s2b.
    - destruct (ci_next wa (k2 j)) as [[w2 c2]|] eqn:N; [|discriminate].
      assert (H2 : WQ w w2) by (eapply WQ_trans; [exact Ha|eapply ci_next_WQ; eauto]).
      destruct s3b.
      + destruct (ci_next w2 (k3 j)) as [[w3 c3]|] eqn:N3; [|discriminate].
        intro E. inversion E. subst. eapply WQ_trans; [exact H2|eapply ci_next_WQ; eauto].
      + intro E. inversion E. subst. auto.
    - destruct s3b.
      + destruct (ci_next wa (k3 j)) as [[w3 c3]|] eqn:N3; [|discriminate].
        intro E. inversion E. subst. eapply WQ_trans; [exact Ha|eapply ci_next_WQ; eauto].
      + intro E. inversion E. subst. auto. }
  destruct s1b as [l|].
  - destruct (it_next (hp w) (getv w t) (k1 j)) as [[v1 c1]|] eqn:N; [|discriminate].
    apply G. apply WQ_setv. eapply it_next_Q2; eauto.
  - apply G. apply WQ_refl.
Qed.
Lemma joint3_loop_WQ f : forall w t j acc w' r, joint3_loop f w t j acc = Some (w', r) -> WQ w w'.
Proof.
  induction f as [|f IH]; intros w t j acc w' r; simpl; destruct (kok j);
    try discriminate; try (intro E; inversion E; subst; apply WQ_refl).
  destruct (joint3_next w t j) as [[w1 j1']|] eqn:N; [|discriminate].
  intro E. eapply WQ_trans; [eapply joint3_next_WQ; eauto|eapply IH; eauto].
Qed.
Lemma joint3_run_WQ w t o2 o3 w' r : joint3_run w t o2 o3 = Some (w', r) -> WQ w w'.
Proof.
  unfold joint3_run, joint3_begin.
  destruct (it_begin (hp w) (getv w t)) as [[v1 c1]|] eqn:N; [|discriminate].
  assert (H1 : WQ w (setv w t v1)) by (apply WQ_setv; eapply it_begin_Q2; eauto).
  destruct (ci_begin (setv w t v1) o2) as [[w1 c2]|] eqn:N2; [|discriminate].
  assert (H2 : WQ w w1) by (eapply WQ_trans; [exact H1|eapply ci_begin_WQ; eauto]).
  destruct (ci_begin w1 o3) as [[w2 c3]|] eqn:N3; [|discriminate].
  assert (H3 : WQ w w2) by (eapply WQ_trans; [exact H2|eapply ci_begin_WQ; eauto]).
  destruct (joint3_next w2 t _) as [[w3 j]|] eqn:N4; [|discriminate].
  intro E. eapply WQ_trans; [exact H3|]. eapply WQ_trans; [eapply joint3_next_WQ; eauto|eapply joint3_loop_WQ; eauto].
Qed.
