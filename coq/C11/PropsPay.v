(* C11 — property theorems for the payloads Props.reads_agree_step leaves open
   (statements only; proofs live in ProofsDPay.v, the dense readings in DensePay.v).
   All statements quantify over ALL worlds / histories, every operand kind (sparse
   operand, dense operand, operand = the receiver itself), no bounds. *)
From Coq Require Import ZArith List Bool Lia Sorted.
From ADV Require Import C11.Model C11.Spec C11.Dense C11.DensePay C11.ProofsInv C11.ProofsDSet C11.ProofsDense
  C11.ProofsDPay C11.SpecTest.
Import ListNotations.
Open Scope Z_scope.

(* 2d. EVERY reading operation returns its dense reading [DensePay.dout2] (= Dense.dout for At /
       ConstAt / Reduce / ConstIterator / ConstIteratorFrom, plus the abandoned loop IterPart, the
       JointIterator and the JOINT3_ITERATOR with sparse or dense operands, operands that are the
       receiver itself included), the outcome is never a panic nor a fuel exhaustion of the model,
       and no vector reads differently afterwards (the iterators only delete null entries). *)
Theorem reads_agree_step2 : forall w o q,
  WInv w -> WWf w -> in_range w o -> dout2 (absw w) o = Some q ->
  snd (step w o) = (K_OK, q) /\ absw (fst (step w o)) = absw w.
Proof. exact step_reads2. Qed.
(* ... hence after EVERY valid, safe history, read off the dense run alone *)
Theorem reads_agree_all_histories2 : forall ops o q,
  valid_safe init ops -> let w := run init ops in
  in_range w o -> dout2 (dense_run [] ops) o = Some q ->
  snd (step w o) = (K_OK, q) /\ absw (fst (step w o)) = dense_run [] ops.
Proof. exact run_reads2. Qed.

(* the three new readings on their own, from any coherent state *)
Theorem iter_part_is_prefix : forall h v m, Inv v ->
  exists v' s, (match it_begin h v with
                | Some (v0, cur) => iter_part m h v0 cur []
                | None => None end) = Some (v', s) /\
               seq_vals h s = flat2 (firstn m (nonzero (abs h v))).
Proof. exact iter_part_payload. Qed.
Theorem joint_iterator_visits : forall w t o,
  WInv w -> has w t -> operand_ok w (dim (getv w t)) o ->
  exists w' vs, joint_run w t o = Some (w', vs) /\
    flat_map (fun x => let '(i, p, a, b) := x in [i; b2z p; a; b]) vs = djoint (absw w) t o.
Proof. exact joint_visits. Qed.
Theorem joint3_iterator_visits : forall w t o2 o3,
  WInv w -> has w t -> operand_ok w (dim (getv w t)) o2 -> operand_ok w (dim (getv w t)) o3 ->
  exists w' vs, joint3_run w t o2 o3 = Some (w', vs) /\
    flat_map (fun x => let '(i, p, a, b, c) := x in [i; b2z p; a; b; c]) vs = djoint3 (absw w) t o2 o3.
Proof. exact joint3_payload. Qed.

(* ---- the hypotheses are satisfiable: a reachable world with a stored zero (vector 0,
        position 3; vector 1, position 2), value-less index keys (vector 2 after Permute),
        and what the three operations read there ------------------------------------------ *)
Definition pay_ops : list op :=
  [New [1; 3; 4] [5; -2; 7] 6; New [0; 3; 5] [1; 2; 3] 6; New [] [] 6; SetAt 0 3 0; SetAt 1 2 0;
   Permute 2 [0; 1; 2; 3; 4; 5]].
Example pay_valid_safe : valid_safe init pay_ops.
Proof. unfold pay_ops, init. repeat step_valid_safe. Qed.
Example pay_world :
  let w := run init pay_ops in
  WInv w /\ WWf w /\ absw w = [[0; 5; 0; 0; 7; 0]; [1; 0; 0; 2; 0; 3]; [0; 0; 0; 0; 0; 0]] /\
  idx (getv w 0) = [1; 3; 4] /\ idx (getv w 1) = [0; 2; 3; 5] /\ idx (getv w 2) = [0; 1; 2; 3; 4; 5].
Proof.
  intro w.
  destruct (run_sim set_vec_refines set_vec_total pay_ops init WInv_init WWf_init pay_valid_safe) as [A W].
  split; [|split; [exact W|vm_compute; auto]].
  apply run_WInv; [exact WInv_init|]. unfold pay_ops, init. repeat step_valid.
Qed.
(* reads_agree_step2 / reads_agree_all_histories2: in-range reading operations with a dense
   reading exist in that world; receiver entry with a stored zero (position 3) is reported
   absent; the dense operand stops at every position; operand = receiver *)
Example ex_reads_agree_step2 :
  let w := run init pay_ops in
  in_range w (Joint 0 (OS 1%nat)) /\
  dout2 (absw w) (Joint 0 (OS 1%nat)) = Some [0; 0; 0; 1;  1; 1; 5; 0;  3; 0; 0; 2;  4; 1; 7; 0;  5; 0; 0; 3] /\
  in_range w (Joint 0 (OD [0; 1; 0; 0; 2; 0])) /\
  dout2 (absw w) (Joint 0 (OD [0; 1; 0; 0; 2; 0])) =
    Some [0; 0; 0; 0;  1; 1; 5; 1;  2; 0; 0; 0;  3; 0; 0; 0;  4; 1; 7; 2;  5; 0; 0; 0] /\
  in_range w (Joint 0 (OS 0%nat)) /\ dout2 (absw w) (Joint 0 (OS 0%nat)) = Some [1; 1; 5; 5;  4; 1; 7; 7] /\
  in_range w (IterPart 1 2) /\ dout2 (absw w) (IterPart 1 2) = Some [0; 1; 3; 2] /\
  snd (step w (Joint 0 (OS 1%nat))) = (K_OK, [0; 0; 0; 1;  1; 1; 5; 0;  3; 0; 0; 2;  4; 1; 7; 0;  5; 0; 0; 3]).
Proof. vm_compute. unfold has. simpl. repeat split; auto; lia. Qed.
Example ex_reads_agree_all_histories2 :
  in_range (run init pay_ops) (Joint3 0 (OS 1%nat) (OD [0; 0; 9; 0; 0; 0])) /\
  dout2 (dense_run [] pay_ops) (Joint3 0 (OS 1%nat) (OD [0; 0; 9; 0; 0; 0])) =
    Some [0; 0; 0; 1; 0;  1; 1; 5; 0; 0;  2; 0; 0; 0; 9;  3; 0; 0; 2; 0;  4; 1; 7; 0; 0;  5; 0; 0; 3; 0].
Proof. vm_compute. unfold has. simpl. repeat split; auto; lia. Qed.
Example ex_iter_part_is_prefix :
  let w := run init pay_ops in
  Inv (getv w 1) /\ flat2 (firstn 2 (nonzero (abs (hp w) (getv w 1)))) = [0; 1; 3; 2] /\
  snd (step w (IterPart 1 2)) = (K_OK, [0; 1; 3; 2]) /\ idx (getv (fst (step w (IterPart 1 2))) 1) = [0; 3; 5].
Proof.
  intro w. split; [apply WInv_getv; apply pay_world|]. vm_compute. auto.
Qed.
Example ex_joint_iterator_visits :
  let w := run init pay_ops in
  has w 2 /\ operand_ok w (dim (getv w 2)) (OS 2%nat) /\ djoint (absw w) 2 (OS 2%nat) = [] /\
  has w 0 /\ operand_ok w (dim (getv w 0)) (OD [0; 0; 0; 0; 0; 0]) /\
  djoint (absw w) 0 (OD [0; 0; 0; 0; 0; 0]) =
    [0; 0; 0; 0;  1; 1; 5; 0;  2; 0; 0; 0;  3; 0; 0; 0;  4; 1; 7; 0;  5; 0; 0; 0].
Proof. vm_compute. unfold has. simpl. repeat split; auto; lia. Qed.
Example ex_joint3_iterator_visits :
  let w := run init pay_ops in
  has w 0 /\ operand_ok w (dim (getv w 0)) (OS 0%nat) /\ operand_ok w (dim (getv w 0)) (OS 1%nat) /\
  djoint3 (absw w) 0 (OS 0%nat) (OS 1%nat) = [0; 0; 0; 0; 1;  1; 1; 5; 5; 0;  3; 0; 0; 0; 2;  4; 1; 7; 7; 0;  5; 0; 0; 0; 3] /\
  snd (step w (Joint3 0 (OS 0%nat) (OS 1%nat))) =
    (K_OK, [0; 0; 0; 0; 1;  1; 1; 5; 5; 0;  3; 0; 0; 0; 2;  4; 1; 7; 7; 0;  5; 0; 0; 0; 3]).
Proof. vm_compute. unfold has. simpl. repeat split; auto; lia. Qed.
(* the executable check used by the correspondence run agrees on this history *)
Example ex_dense_diverge2 :
  dense_diverge2 0 init [] (pay_ops ++ [Joint 0 (OS 1%nat); Joint 1 (OD [0; 1; 0; 0; 2; 0]); IterPart 0 1;
                                        Joint3 2 (OS 0%nat) (OS 2%nat); Joint 0 (OS 0%nat)]) = None.
Proof. vm_compute. reflexivity. Qed.
