(* C11, sparse matrices — dense refinement, part 3: Set(b) with a DENSE source, both
   loops composed (loop 1 through the iterator, loop 2 over the non-zero entries of b). *)
From Coq Require Import ZArith List Bool Lia Sorted.
From ADV Require Import C11.Model C11.Spec C11.Dense C11.ProofsMap C11.ProofsIter C11.ProofsInv C11.ProofsRef
                        C11.ProofsD1 C11.ProofsD2 C11.ProofsD3
                        C11.ModelMat C11.ProofsMatSpec C11.ProofsMat C11.ProofsMatRef C11.ProofsMatDense C11.ProofsMatDense2.
Import ListNotations.
Open Scope Z_scope.

Lemma In_positions r c i j : In (i, j) (positions r c) <-> 0 <= i < r /\ 0 <= j < c.
Proof.
  unfold positions. rewrite in_flat_map. split.
  - intros (i0 & Hi & Hj). apply in_map_iff in Hj. destruct Hj as (j0 & E & Hj). inversion E. subst.
    apply In_zseq in Hi. apply In_zseq in Hj. lia.
  - intros [Hi Hj]. exists i. split; [apply In_zseq; lia|]. apply in_map_iff. exists j. split; auto. apply In_zseq. lia.
Qed.

Lemma mset_dense_refines h m xs :
  MInv m -> Wf h (mv m) ->
  let r := mrows m in let c := mcols m in
  exists h1 m1 h2 m2,
    wr_all (fun _ _ i j => dense_at r c xs i j) h m = Some (h1, m1, true) /\
    set_list (dense_entries r c xs) h1 m1 = (h2, m2, true) /\
    mabs h2 m2 = ddense r c xs /\ MPost h m h2 m2.
Proof.
  intros MI Wf0 r c. pose proof MI as [I W].
  set (V := fun k => nth (Z.to_nat k) xs 0).
  assert (HR : forall (h0 : heap) (v0 : svec) k, 0 <= k < dim (mv m) ->
             dense_at r c xs (fst (mij m k)) (snd (mij m k)) = Some (V k)).
  { intros _ _ k Hk. destruct (mij m k) as [i j] eqn:E. destruct (index_mij _ _ _ _ W Hk E) as [[Pi Pj] K].
    cbn [fst snd]. unfold dense_at, r, c.
    destruct (i <? 0) eqn:A; [apply Z.ltb_lt in A; lia|]. destruct (j <? 0) eqn:B; [apply Z.ltb_lt in B; lia|].
    destruct (mrows m <=? i) eqn:C; [apply Z.leb_le in C; lia|].
    destruct (mcols m <=? j) eqn:D; [apply Z.leb_le in D; lia|]. simpl. unfold V. rewrite K. reflexivity. }
  destruct (wr_all_spec m V (fun _ _ i j => dense_at r c xs i j) HR h MI Wf0)
    as (h1 & m1 & A & I1 & W1 & D1 & L1 & PK & FR & CL).
  inversion D1 as [[Dr Dc]].
  destruct (set_list (dense_entries r c xs) h1 m1) as [[h2 m2] ok] eqn:S.
  destruct (set_list_spec _ _ _ _ _ _ I1 W1 S) as [T SP].
  assert (DE : forall i j x, In (i, j, x) (dense_entries r c xs) -> pos_ok m i j /\ x = V (i * c + j) /\ x <> 0).
  { intros i j x Hin. unfold dense_entries in Hin. apply filter_In in Hin. destruct Hin as [Hin Nz].
    apply in_map_iff in Hin. destruct Hin as ([i0 j0] & E & Hp). inversion E. subst. apply In_positions in Hp.
    cbn [snd fst] in *. split; [exact Hp|]. split; [reflexivity|].
    destruct (nth (Z.to_nat (i * c + j)) xs 0 =? 0) eqn:Z0; [discriminate|]. apply Z.eqb_neq in Z0. exact Z0. }
  assert (Ok : ok = true).
  { apply T. apply Forall_forall. intros [[a b] x] Hin. apply DE in Hin. cbn [fst snd].
    unfold pos_ok in *. rewrite Dr, Dc. tauto. }
  subst ok. destruct (SP eq_refl) as (I2 & W2 & D2 & L2 & PK2 & FR2 & CL2).
  exists h1, m1, h2, m2. split; [exact A|]. split; [exact S|]. inversion D2 as [[Dr2 Dc2]]. split.
  - rewrite (mabs_by_peek h2 m2 (fun i j => nth (Z.to_nat (i * c + j)) xs 0)).
    + unfold ddense. rewrite Dr2, Dc2, Dr, Dc. reflexivity.
    + intros i j P. rewrite PK2, Dc2, Dc.
      assert (Pm : pos_ok m i j) by (unfold pos_ok in *; rewrite Dr2, Dc2, Dr, Dc in P; auto).
      rewrite (wr_fun_val (mcols m) _ V) by (intros a b x Hin; apply DE in Hin; tauto).
      fold c. destruct (existsb _ (dense_entries r c xs)) eqn:EX; [reflexivity|].
      rewrite PK. destruct (isnull h (mv m) (i * c + j)); [|reflexivity].
      (* no entry of b at (i,j): b(i,j) = 0 *)
      destruct (V (i * c + j) =? 0) eqn:Z0; [apply Z.eqb_eq in Z0; unfold V in Z0; auto|].
      exfalso. assert (Hin : In (i, j, V (i * c + j)) (dense_entries r c xs)).
      { unfold dense_entries. apply filter_In. split.
        - apply in_map_iff. exists (i, j). split; [reflexivity|]. apply In_positions. exact Pm.
        - cbn [snd]. rewrite Z0. reflexivity. }
      assert (EX' : existsb (fun e => fst (fst e) * mcols m + snd (fst e) =? i * c + j) (dense_entries r c xs) = true).
      { apply existsb_exists. eexists. split; [exact Hin|]. cbn [fst snd]. apply Z.eqb_refl. }
      unfold c, r in EX, EX'. rewrite EX' in EX. discriminate.
  - unfold MPost. split; auto. split; auto. split; [congruence|]. split; [lia|]. split.
    + intros l Hl Hn. rewrite FR2; [apply FR; auto|lia|]. intro Hin. apply Hn. apply CL. auto.
    + intros l Hin. apply CL2 in Hin. destruct Hin as [Hin|Hin]; [left; apply CL; auto|right; lia].
Qed.
