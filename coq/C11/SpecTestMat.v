(* C11, sparse matrices — the premises of PropsMat.v are satisfiable by
   non-trivial instances; vm_compute sanity checks of the model against the
   intended dense semantics, including the statements PropsMat.v leaves
   _partial (Reset, SetIdentity on non-square, T, Set, Clone, Map, Tip). *)
From Coq Require Import ZArith List Bool Lia Sorted.
From ADV Require Import C11.Model C11.Spec C11.ModelMat C11.ProofsMatSpec.
Import ListNotations.
Open Scope Z_scope.

Definition mex_ops : list mop :=
  [NewMat [0; 1; 1] [1; 0; 0] [5; -2; 7] 2 3;          (* duplicate position: the later value wins *)
   MSetAt 0 1 2 4; MSetAt 0 0 1 0;                      (* stored zero *)
   MSwap 0 0 0 1 2; MT 0; MSetAt 1 2 1 9;               (* T shares the existing cells only *)
   MSet 0 (OMD 2 3 [0; 1; 0; 2; 0; 3]); MClone 0; MSetIdentity 2; MTip 2;
   MSet 0 (OM 0); MMapMul 0 3; MIterate 0; MReset 1; MSwapRows 0 0 1].

Ltac mfin := simpl; unfold mhas, pos_ok; simpl;
  repeat split; try lia; repeat constructor; simpl; try lia; try tauto.
Ltac mstep_valid :=
  match goal with
  | |- mvalid ?w (?o :: ?r) =>
      let w' := eval vm_compute in (fst (mstep w o)) in
      cut (min_range w o /\ mvalid w' r);
      [ let H := fresh in intro H; split; [exact (proj1 H)|];
        replace (fst (mstep w o)) with w' by (vm_compute; reflexivity); exact (proj2 H)
      | split; [mfin|] ]
  | |- mvalid _ [] => exact I
  end.
Example mex_valid : mvalid minit mex_ops.
Proof. unfold mex_ops, minit. repeat mstep_valid. Qed.
Example mex_result :
  let w := mrun minit mex_ops in
  map (mabs (mhp w)) (mats w) =
  [ [[0; 3; 0]; [0; 0; 9]];            (* Set from dense, times 3 = [[0;3;0];[6;0;9]]; then Reset of its T()
                                          zeroes the cells the two share (F-SPT-REF): (1,0) reads 0 *)
    [[0; 0]; [0; 0]; [0; 0]];          (* the transpose, reset *)
    [[1; 0]; [0; 1]; [0; 0]] ].        (* clone, SetIdentity on 2x3, Tip -> 3x2 *)
Proof. vm_compute. reflexivity. Qed.
(* outcome kinds and payloads along the same history *)
Example mex_iterate :
  snd (mstep (mrun minit (firstn 12 mex_ops)) (MIterate 0)) = (K_OK, [0; 1; 3; 1; 0; 6; 1; 2; 9]).
Proof. vm_compute. reflexivity. Qed.
Example mex_swaprows_nonsquare :
  fst (snd (mstep (mrun minit (firstn 14 mex_ops)) (MSwapRows 0 0 1))) = K_ERR.
Proof. vm_compute. reflexivity. Qed.

(* a whole matrix satisfying MInv and Wf, non-trivially *)
Example mex_inv :
  let w := mrun minit (firstn 4 mex_ops) in
  mabs (mhp w) (getm w 0) = [[4; 0; 0]; [7; 0; 0]] /\
  map fst (vals (mv (getm w 0))) = [0; 3; 1] /\ idx (mv (getm w 0)) = [0; 1; 3].   (* key 1: stored zero *)
Proof. vm_compute. auto. Qed.

(* T(): transposition; a write through T() to an EXISTING entry reaches the parent, a
   write to an absent one does not (C10's known finding F-SPT-REF, reproduced by the model) *)
Example mex_T :
  let w := mrun minit [NewMat [0; 0; 1] [0; 1; 0] [1; 2; 3] 2 2; MT 0; MSetAt 1 1 1 102; MSetAt 1 1 0 7] in
  map (mabs (mhp w)) (mats w) = [ [[1; 7]; [3; 0]]; [[1; 3]; [7; 102]] ].
Proof. vm_compute. reflexivity. Qed.
(* T of a non-square matrix, Tip of the result gives the original back *)
Example mex_T_Tip :
  let w := mrun minit [NewMat [0; 0; 1] [0; 2; 1] [1; 2; 3] 2 3; MT 0; MTip 1] in
  map (mabs (mhp w)) (mats w) = [ [[1; 0; 2]; [0; 3; 0]]; [[1; 0; 2]; [0; 3; 0]] ] /\
  map mdims (mats w) = [(2, 3); (2, 3)].
Proof. vm_compute. auto. Qed.
(* SetIdentity on a wide, a tall and an empty matrix equals didentity *)
Example mex_identity :
  let w := mrun minit [NewMat [0; 1] [2; 0] [5; 6] 2 3; NewMat [2] [1] [4] 3 2; NewMat [] [] [] 0 4;
                       MSetIdentity 0; MSetIdentity 1; MSetIdentity 2] in
  map (mabs (mhp w)) (mats w) = [didentity 2 3; didentity 3 2; didentity 0 4].
Proof. vm_compute. reflexivity. Qed.
(* Set(b): sparse source incl. entries missing in the receiver; explicit zeros are stored
   for entries the receiver had and the source has not *)
Example mex_set :
  let w := mrun minit [NewMat [0] [0] [5] 2 2; NewMat [1] [1] [8] 2 2; MSet 0 (OM 1)] in
  mabs (mhp w) (getm w 0) = [[0; 0]; [0; 8]] /\ idx (mv (getm w 0)) = [0; 3].
Proof. vm_compute. auto. Qed.
(* out-of-range and mismatching arguments: panic kinds, state untouched *)
Example mex_bad :
  let w := mrun minit [NewMat [0] [0] [5] 2 2] in
  map (fun o => fst (snd (mstep w o)))
      [MAt 0 2 0; MConstAt 0 0 (-1); MSwap 0 0 0 0 2; MSet 0 (OMD 2 3 [1; 1; 1; 1; 1; 1]); MSwapRows 0 0 2;
       NewMat [2] [0] [1] 2 2; NewMat [2] [0] [0] 2 2; NewMat [0] [0; 1] [1] 2 2] =
  [K_PANIC; K_PANIC; K_PANIC; K_PANIC; K_PANIC; K_PANIC; K_OK; K_PANIC].
Proof. vm_compute. reflexivity. Qed.
