(* C11 — dense refinement, part 4: what the READING operations return is what the
   plain dense model returns: At / ConstAt (element), Reduce (sum over ALL
   positions although only stored entries are visited), ConstIterator and
   ConstIteratorFrom (exactly the non-zero positions, ascending, with values). *)
From Coq Require Import ZArith List Bool Lia Sorted.
From ADV Require Import C11.Model C11.Spec C11.Dense C11.ProofsMap C11.ProofsIter C11.ProofsInv C11.ProofsRef
  C11.ProofsD1 C11.ProofsD2 C11.ProofsD3 C11.ProofsDSort.
Import ListNotations.
Open Scope Z_scope.

(* ---- Reduce(+) ------------------------------------------------------------------------ *)
Lemma fold_add_shift (l : list Z) : forall a, fold_left Z.add l a = a + fold_left Z.add l 0.
Proof.
  induction l as [|x l IH]; intro a; simpl; [lia|]. rewrite (IH (a + x)), (IH x). lia.
Qed.
Lemma sum_point (f : Z -> Z) (k0 x : Z) n : forall a, a <= k0 < a + Z.of_nat n ->
  fold_left Z.add (map (fun k => if k0 =? k then x else f k) (zseq a n)) 0 =
  x - f k0 + fold_left Z.add (map f (zseq a n)) 0.
Proof.
  induction n as [|n IH]; intros a H; [simpl in H; lia|].
  cbn [zseq map fold_left]. rewrite (fold_add_shift _ (0 + _)), (fold_add_shift _ (0 + f a)).
  destruct (k0 =? a) eqn:E.
  - apply Z.eqb_eq in E. subst a.
    assert (map (fun k => if k0 =? k then x else f k) (zseq (k0 + 1) n) = map f (zseq (k0 + 1) n)) as ->.
    { apply map_ext_in. intros k Hk. apply In_zseq in Hk. destruct (k0 =? k) eqn:X; auto. apply Z.eqb_eq in X. lia. }
    lia.
  - apply Z.eqb_neq in E. rewrite IH by lia. lia.
Qed.
Lemma reduce_fold h (m : vmap) : forall a, fold_left (fun r kv => r + hget h (snd kv)) m a =
  a + fold_left (fun r kv => r + hget h (snd kv)) m 0.
Proof.
  induction m as [|kv m IH]; intro a; simpl; [lia|]. rewrite (IH (a + _)), (IH (hget h (snd kv))). lia.
Qed.
Lemma reduce_vmap h n (m : vmap) :
  NoDup (map fst m) -> (forall k, In k (map fst m) -> 0 <= k < Z.of_nat n) ->
  fold_left (fun r kv => r + hget h (snd kv)) m 0 = fold_left Z.add (map (vpeek h m) (zseq 0 n)) 0.
Proof.
  induction m as [|[k0 l0] r IH]; intros ND HR.
  - simpl. assert (map (vpeek h []) (zseq 0 n) = map (fun _ => 0) (zseq 0 n)) as -> by auto.
    generalize (zseq 0 n). induction l; simpl; auto.
  - inversion ND as [|? ? Hn ND']; subst. cbn [fold_left snd]. rewrite reduce_fold.
    rewrite IH; auto; [|intros k Hk; apply HR; right; auto].
    assert (E : map (vpeek h ((k0, l0) :: r)) (zseq 0 n) =
                map (fun k => if k0 =? k then hget h l0 else vpeek h r k) (zseq 0 n)).
    { apply map_ext. intro k. unfold vpeek. simpl. destruct (k0 =? k); auto. }
    rewrite E, sum_point by (apply HR; left; auto).
    assert (vpeek h r k0 = 0) as ->; [|lia].
    unfold vpeek. destruct (lookup k0 r) eqn:L; auto. apply lookup_In_keys in L. simpl in Hn. tauto.
Qed.
Lemma reduce_sum_dense h v : Inv v -> reduce_sum h v = fold_left Z.add (abs h v) 0.
Proof.
  intro I. unfold reduce_sum, abs, abs_vec.
  rewrite (reduce_vmap h (Z.to_nat (dim v))).
  - auto.
  - apply I.
  - intros k Hk. apply keys_In_lookup in Hk. destruct Hk as [l L].
    destruct I as (_ & _ & Hd & Hr & Hdim). apply Hd, Hr in L. lia.
Qed.

(* ---- iteration -------------------------------------------------------------------------- *)
Lemma nonzero_from_map (f : Z -> Z) n : forall a,
  nonzero_from a (map f (zseq a n)) = map (fun k => (k, f k)) (filter (fun k => negb (f k =? 0)) (zseq a n)).
Proof.
  induction n as [|n IH]; intro a; simpl; auto.
  destruct (f a =? 0); simpl; rewrite IH; auto.
Qed.
Lemma nonzero_abs h v : Inv v ->
  nonzero (abs h v) = map (fun k => (k, peek h v k)) (filter (nonnull h v) (idx v)).
Proof.
  intro I. unfold nonzero, abs, abs_vec. rewrite nonzero_from_map. rewrite visited_keys; auto.
Qed.
Lemma seq_vals_cells h v ks : (forall k, In k ks -> nonnull h v k = true) ->
  seq_vals h (cells v ks) = flat2 (map (fun k => (k, peek h v k)) ks).
Proof.
  intro H. unfold seq_vals, flat2, cells. rewrite !flat_map_concat_map, !map_map. f_equal.
  apply map_ext_in. intros k Hk. simpl. f_equal. f_equal.
  apply H in Hk. apply nonnull_cell in Hk. unfold peek. rewrite Hk. auto.
Qed.
Lemma iterate_payload h v : Inv v ->
  exists v' s, iterate h v = Some (v', s) /\ seq_vals h s = flat2 (nonzero (abs h v)).
Proof.
  intro I. destruct (iterate_spec h v) as (v' & A & B & C); [apply I|].
  exists v', (cells v (filter (nonnull h v) (idx v))). split; auto.
  rewrite nonzero_abs by auto. apply seq_vals_cells. intros k Hk. apply filter_In in Hk. tauto.
Qed.

(* ConstIteratorFrom(i): split the index at i *)
Lemma split_ge i l : sset l ->
  exists pre rest, l = pre ++ rest /\ first_ge i l = hd_error rest /\
                   (forall x, In x pre -> x < i) /\ (forall x, In x rest -> i <= x).
Proof.
  induction l as [|y l IH]; intro H.
  - exists [], []. simpl. repeat split; auto; intros x [].
  - apply sset_cons in H. destruct H as [Hs Hf]. destruct (i <=? y) eqn:E.
    + apply Z.leb_le in E. exists [], (y :: l). unfold first_ge. simpl.
      assert ((i <=? y) = true) as -> by (apply Z.leb_le; auto).
      repeat split; auto; [intros x []|]. intros x [->|Hx]; auto. rewrite Forall_forall in Hf. apply Hf in Hx. lia.
    + apply Z.leb_gt in E. destruct (IH Hs) as (pre & rest & A & B & C & D).
      exists (y :: pre), rest. unfold first_ge in *. simpl.
      assert ((i <=? y) = false) as -> by (apply Z.leb_gt; auto).
      repeat split; auto; [rewrite A; auto|]. intros x [->|Hx]; auto.
Qed.
Lemma dropnull_sset p l pre : sset (pre ++ l) -> sset (pre ++ dropnull p l).
Proof.
  revert pre. induction l as [|z r IH]; intros pre H; simpl; auto.
  destruct (p z); auto. apply IH.
  (* remove z from the middle *)
  clear - H. induction pre as [|y pr IHp]; simpl in *.
  - apply sset_cons in H. tauto.
  - apply sset_cons in H. destruct H as [Hs Hf]. apply sset_cons. split; auto.
    apply Forall_forall. intros x Hx. rewrite Forall_forall in Hf. apply Hf.
    apply in_app_or in Hx. apply in_or_app. destruct Hx; auto. right. right. auto.
Qed.
Lemma iter_from_spec h v pre rest :
  idx v = pre ++ rest -> sset (idx v) ->
  exists v', (match skip (sfuel v) h v (hd_error rest) with
              | Some (v0, cur) => iter_loop (sfuel v) h v0 cur []
              | None => None end) = Some (v', cells v (filter (nonnull h v) rest)) /\ Q h v v'.
Proof.
  intros Hidx Hs.
  destruct (skip_spec h rest pre v (sfuel v)) as (v1 & A & B & C); auto.
  { unfold sfuel. rewrite Hidx, app_length. lia. }
  rewrite A.
  assert (Hext : forall k0, isnull h v1 k0 = isnull h v k0) by apply C.
  destruct (iter_loop_spec h (sfuel v) (dropnull (isnull h v) rest) pre v1 []) as (v2 & A2 & B2 & C2); auto.
  - rewrite B. apply dropnull_sset. rewrite <- Hidx. auto.
  - pose proof (dropnull_length (isnull h v) rest). unfold sfuel. rewrite Hidx, app_length. lia.
  - rewrite (dropnull_ext _ (isnull h v)); auto. apply dropnull_idem.
  - exists v2. rewrite A2. simpl.
    assert (F1 : filter (nonnull h v1) (dropnull (isnull h v) rest) = filter (nonnull h v) rest).
    { unfold nonnull. rewrite (filter_ext _ (fun k0 => negb (isnull h v k0))).
      - apply filter_dropnull.
      - intro a. rewrite Hext. auto. }
    split; [|eapply Q_trans; eauto].
    f_equal. f_equal. rewrite F1. unfold cells. apply map_ext_in. intros a Ha. f_equal.
    apply filter_In in Ha. destruct Ha as [_ Ha]. unfold nonnull in Ha.
    unfold cell_of. destruct C as (_ & C2' & _). rewrite C2'; auto.
    destruct (isnull h v a); auto; discriminate.
Qed.
Lemma filter_app_split {X} (p : X -> bool) pre rest :
  (forall x, In x pre -> p x = false) -> (forall x, In x rest -> p x = true) ->
  filter p (pre ++ rest) = rest.
Proof.
  intros H1 H2. rewrite filter_app. rewrite (filter_none p pre H1). simpl.
  induction rest as [|x r IH]; simpl; auto. rewrite H2 by (left; auto). f_equal. apply IH.
  intros y Hy. apply H2. right. auto.
Qed.
Lemma filter_ge_all i (p : Z -> bool) rest :
  (forall x, In x rest -> i <= x) -> filter (fun x => i <=? x) (filter p rest) = filter p rest.
Proof.
  induction rest as [|x r IH]; intro D; simpl; auto.
  assert (i <= x) by (apply D; left; auto).
  assert (IH' : filter (fun x => i <=? x) (filter p r) = filter p r) by (apply IH; intros y Hy; apply D; right; auto).
  destruct (p x); simpl; auto.
  assert ((i <=? x) = true) as -> by (apply Z.leb_le; auto). f_equal. auto.
Qed.
Lemma iter_from_payload h v i : Inv v ->
  exists v' s, (match it_from h v i with
                | Some (v0, cur) => iter_loop (sfuel v) h v0 cur []
                | None => None end) = Some (v', s) /\
               seq_vals h s = flat2 (filter (fun p => i <=? fst p) (nonzero (abs h v))).
Proof.
  intro I. assert (Hs : sset (idx v)) by apply I.
  destruct (split_ge i (idx v) Hs) as (pre & rest & A & B & C & D).
  destruct (iter_from_spec h v pre rest A Hs) as (v' & E & _).
  unfold it_from. rewrite B. exists v', (cells v (filter (nonnull h v) rest)). split; auto.
  rewrite nonzero_abs by auto. rewrite filter_map_comm. cbn [fst].
  rewrite seq_vals_cells by (intros k Hk; apply filter_In in Hk; tauto).
  f_equal. f_equal.
  (* filter (i <=?) (filter nonnull (pre ++ rest)) = filter nonnull rest *)
  rewrite A, filter_app, filter_app.
  assert (filter (fun x => i <=? x) (filter (nonnull h v) pre) = []) as ->.
  { apply filter_none. intros y Hy. apply filter_In in Hy. destruct Hy as [Hy _]. apply C in Hy. apply Z.leb_gt. lia. }
  simpl. symmetry. apply filter_ge_all. auto.
Qed.

(* ---- the payload of a step ----------------------------------------------------------------- *)
Lemma step_out w o q : WInv w -> WWf w -> in_range w o -> dout (absw w) o = Some q -> snd (step w o) = (K_OK, q).
Proof.
  intros I W R D. assert (G : forall t, Inv (getv w t)) by (intro t0; apply WInv_getv; auto).
  destruct o; simpl in D; try discriminate; inversion D; subst q; clear D; cbn [step]; rewrite dget_absw.
  - (* At *) destruct R as [R1 R2].
    destruct (at_in_range_ok (hp w) (getv w t) i R2) as (h' & v' & l & A). rewrite A. cbn [snd].
    destruct (Wf_at _ _ _ _ _ _ (WWf_getv w t W) A) as (_ & _ & _ & Lk).
    pose proof (at_peek _ _ _ _ _ _ (WWf_getv w t W) A i) as P. unfold peek at 1 in P. rewrite Lk in P.
    rewrite P, abs_nth; auto.
  - (* ConstAt *) destruct R as [R1 R2]. rewrite read_ok; auto.
  - (* ReduceSum *) cbn [snd]. rewrite reduce_sum_dense; auto.
  - (* Iterate *) destruct (iterate_payload (hp w) (getv w t) (G t)) as (v' & s & A & B). rewrite A. cbn [snd]. rewrite B. auto.
  - (* IterFrom *) destruct (iter_from_payload (hp w) (getv w t) i (G t)) as (v' & s & A & B).
    destruct (it_from (hp w) (getv w t) i) as [[v0 cur]|]; [|discriminate]. rewrite A. cbn [snd]. rewrite B. auto.
Qed.
