(* C11 correspondence, part 2 (iterators held across mutations): replay a whole
   extended history in the model ModelIt.step_it (base world and the held
   iterator objects threaded through) and compare, PER STEP, the outcome kind,
   the payload (for ItBegin/ItFrom/ItNext/ItGet: Ok, Index, entry-present flag
   and value of GetConst; for base operations as in Corr.v) and the checksum of
   the observation of the whole base world (Dim, ConstAt of every index,
   private map, AVL index keys, ConstIterator sequence of a clone — for every
   vector), i.e. also WHICH null entries the held iterator's skip() removed. *)
From Coq Require Import ZArith List Bool.
From ADV Require Import Base.Corr C11.Model C11.ModelIt.
Import ListNotations.
Open Scope Z_scope.

Definition out_it := (Z * list Z * Z)%type.
Definition out_it_eqb (a b : out_it) : bool :=
  let '(k1, p1, h1) := a in
  let '(k2, p2, h2) := b in
  (k1 =? k2) && list_eqb Z.eqb p1 p2 && (h1 =? h2).

Fixpoint run_obs_it (wi : worldi) (ops : list opi) : list out_it :=
  match ops with
  | [] => []
  | o :: r => let '(w', (k, p)) := step_it wi o in (k, p, hash (obs_world (base w'))) :: run_obs_it w' r
  end.

Definition case_it := (list opi * list out_it)%type.
Definition check_it (c : case_it) : bool := list_eqb out_it_eqb (run_obs_it initi (fst c)) (snd c).
Definition mism_it (cs : list case_it) : list nat := mismatches check_it cs.
Definition diverge_it (c : case_it) : option nat := first_diff out_it_eqb 0 (run_obs_it initi (fst c)) (snd c).
(* diagnosis: model observation / iterator states after the first [n] operations *)
Definition obs_after_it (n : nat) (c : case_it) : list Z := obs_world (base (run_it initi (firstn n (fst c)))).
Definition its_after_it (n : nat) (c : case_it) : list iter := its (run_it initi (firstn n (fst c))).
