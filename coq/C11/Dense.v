(* C11 — the PLAIN DENSE MODEL of the 25 operations (value lists, copy
   semantics) and the abstraction of a whole world.  Spec-level file (short,
   no proofs): Props.v states  absw (step w o) = dstep (absw w) o  for every
   operation and  absw (run init ops) = dense_run ops  for every valid history.

   Cell sharing.  Slice and AppendVector(sparse) make two vectors hold the SAME
   scalars; a later write through such a scalar is seen by both (and a write to
   an EMPTY position of a slice is not seen by the parent): no plain dense
   semantics — neither copying nor reference slices — describes that (known
   finding C11-SLICEWT).  The dense model below has COPY semantics and the
   refinement theorems are stated for histories in which every operation that
   WRITES scalars in place (At(i).Set, Set/SET, Reset, Map, MapSet) works on a
   vector none of whose scalars is held by another vector ([safe]).  Slice,
   Append* themselves, and every operation that only moves scalars (Swap,
   Permute, Sort, ReverseOrder) or reads are unrestricted. *)
From Coq Require Import ZArith List Bool Lia.
From ADV Require Import C11.Model C11.Spec.
Import ListNotations.
Open Scope Z_scope.

Definition dworld := list (list Z).
Definition absw (w : world) : dworld := map (abs (hp w)) (vecs w).
Definition dget (d : dworld) (t : nat) : list Z := nth t d [].

(* NewSparseXVector(indices, values, n) *)
Definition dnew (ks xs : list Z) (n : Z) : list Z :=
  fold_left (fun l kx => upd (Z.to_nat (fst kx)) (snd kx) l) (combine ks xs) (repeat 0 (Z.to_nat n)).
(* Permute(pi), including the error exits: wrong length = nothing happens; an
   entry outside [0,n) stops the loop, the interchanges done so far stay *)
Fixpoint dperm_loop (n : Z) (pi : list Z) (i : Z) (l : list Z) : list Z :=
  match pi with
  | [] => l
  | p :: r => if (p <? 0) || (n <=? p) then l
              else dperm_loop n r (i + 1) (if i <? p then dswap l i p else l)
  end.
Definition dpermute (l : list Z) (pi : list Z) : list Z :=
  let n := Z.of_nat (length l) in
  if negb (Z.of_nat (length pi) =? n) then l else dperm_loop n pi 0 l.
(* Sort(reverse): insertion sort of the value list (any sorting algorithm gives
   the same list: a sorted permutation is unique) *)
Fixpoint dins (le : Z -> Z -> bool) (x : Z) (l : list Z) : list Z :=
  match l with
  | [] => [x]
  | y :: r => if le y x then y :: dins le x r else x :: y :: r
  end.
Definition dsort (rev_ : bool) (l : list Z) : list Z :=
  fold_left (fun acc x => dins (if rev_ then Z.geb else Z.leb) x acc) l [].
Definition dslice (l : list Z) (i j : Z) : list Z := firstn (Z.to_nat (j - i)) (skipn (Z.to_nat i) l).
Definition doperand (d : dworld) (o : operand) : list Z :=
  match o with OS u => dget d u | OD l => l end.

Definition dstep (d : dworld) (o : op) : dworld :=
  match o with
  | New ks xs n => d ++ [dnew ks xs n]
  | At _ _ | ConstAt _ _ | ReduceSum _ | Iterate _ | IterPart _ _ | IterFrom _ _
  | Joint _ _ | Joint3 _ _ _ => d
  | SetAt t i x => upd t (upd (Z.to_nat i) x (dget d t)) d
  | SetV t o => upd t (doperand d o) d
  | SETV t u => upd t (dget d u) d
  | Reset t => upd t (map (fun _ => 0) (dget d t)) d
  | ReverseOrder t => upd t (rev (dget d t)) d
  | Swap t i j => upd t (dswap (dget d t) i j) d
  | Permute t pi => upd t (dpermute (dget d t) pi) d
  | Sort t r => upd t (dsort r (dget d t)) d
  | Slice t i j => d ++ [dslice (dget d t) i j]
  | AppendV t u => d ++ [dget d t ++ dget d u]
  | AppendS t xs | AppendD t xs => d ++ [dget d t ++ xs]
  | MapMul t c | MapSetMul t c => upd t (map (fun x => x * c) (dget d t)) d
  | MapAdd t c => upd t (map (fun x => x + c) (dget d t)) d  (* in range only for c = 0: a sparse
                                                                 Map visits stored entries only *)
  | Clone t => d ++ [dget d t]
  end.
Definition dense_run (d : dworld) (ops : list op) : dworld := fold_left dstep ops d.

(* what the reading operations return, on the dense side (the abandoned partial loop IterPart
   and the joint iterators are not given a dense reading here: held iterators are treated in
   ModelIt.v / PropsIt.v) *)
Definition dout (d : dworld) (o : op) : option (list Z) :=
  match o with
  | At t i | ConstAt t i => Some [nth (Z.to_nat i) (dget d t) 0]
  | ReduceSum t => Some [fold_left Z.add (dget d t) 0]
  | Iterate t => Some (flat2 (nonzero (dget d t)))
  | IterFrom t i => Some (flat2 (filter (fun p => i <=? fst p) (nonzero (dget d t))))
  | _ => None
  end.

(* ---- cell sharing ------------------------------------------------------------ *)
Definition cells_of (v : svec) : list loc := map snd (vals v).
(* no scalar of vector t is held by another vector *)
Definition unshared (w : world) (t : nat) : Prop :=
  forall u l, u <> t -> In l (cells_of (getv w t)) -> In l (cells_of (getv w u)) -> False.
Definition writes_cells (o : op) : option nat :=
  match o with
  | SetAt t _ _ | SetV t _ | SETV t _ | Reset t | MapMul t _ | MapAdd t _ | MapSetMul t _ => Some t
  | _ => None
  end.
Definition safe (w : world) (o : op) : Prop :=
  match writes_cells o with Some t => unshared w t | None => True end.
(* a history all of whose operations are in range and safe in the state they meet *)
Fixpoint valid_safe (w : world) (ops : list op) : Prop :=
  match ops with
  | [] => True
  | o :: r => in_range w o /\ safe w o /\ valid_safe (fst (step w o)) r
  end.

(* ---- executable versions (used by the correspondence run: the dense equation is
        also evaluated on every replayed history) ------------------------------- *)
Definition memb (l : loc) (ls : list loc) : bool := existsb (Nat.eqb l) ls.
Definition unsharedb (w : world) (t : nat) : bool :=
  forallb (fun u => Nat.eqb u t ||
                    forallb (fun l => negb (memb l (cells_of (getv w u)))) (cells_of (getv w t)))
          (seq 0 (length (vecs w))).
Definition safeb (w : world) (o : op) : bool :=
  match writes_cells o with Some t => unsharedb w t | None => true end.
Definition hasb (w : world) (t : nat) : bool := Nat.ltb t (length (vecs w)).
Definition idx_okb (v : svec) (i : Z) : bool := (0 <=? i) && (i <? dim v).
Fixpoint nodupb (l : list Z) : bool :=
  match l with [] => true | x :: r => negb (kmem x r) && nodupb r end.
Definition operand_okb (w : world) (n : Z) (o : operand) : bool :=
  match o with OS u => hasb w u && (dim (getv w u) =? n) | OD d => Z.of_nat (length d) =? n end.
Definition perm_okb (n : Z) (pi : list Z) : bool :=
  (Z.of_nat (length pi) =? n) && forallb (fun p => (0 <=? p) && (p <? n)) pi &&
  forallb (fun k => kmem k pi) (zseq 0 (Z.to_nat n)).
Definition in_rangeb (w : world) (o : op) : bool :=
  match o with
  | New ks xs n => Nat.eqb (length ks) (length xs) && nodupb ks &&
                   forallb (fun k => (0 <=? k) && (k <? n)) ks && (0 <=? n)
  | At t i | SetAt t i _ | ConstAt t i => hasb w t && idx_okb (getv w t) i
  | SetV t o => hasb w t && operand_okb w (dim (getv w t)) o
  | SETV t u => hasb w t && hasb w u && (dim (getv w u) =? dim (getv w t))
  | Swap t i j => hasb w t && idx_okb (getv w t) i && idx_okb (getv w t) j
  | Permute t pi => hasb w t && perm_okb (dim (getv w t)) pi
  | Slice t i j => hasb w t && (0 <=? i) && (i <=? j) && (j <=? dim (getv w t))
  | AppendV t u => hasb w t && hasb w u
  | MapAdd t c => hasb w t && (c =? 0)
  | Joint t o => hasb w t && operand_okb w (dim (getv w t)) o
  | Joint3 t o2 o3 => hasb w t && operand_okb w (dim (getv w t)) o2 && operand_okb w (dim (getv w t)) o3
  | Reset t | ReverseOrder t | Sort t _ | AppendS t _ | AppendD t _ | MapMul t _ | MapSetMul t _
  | ReduceSum t | Iterate t | IterPart t _ | IterFrom t _ | Clone t => hasb w t
  end.
Fixpoint zl_eqb (a b : list Z) : bool :=
  match a, b with
  | [], [] => true
  | x :: a', y :: b' => (x =? y) && zl_eqb a' b'
  | _, _ => false
  end.
Fixpoint dw_eqb (a b : dworld) : bool :=
  match a, b with
  | [], [] => true
  | x :: a', y :: b' => zl_eqb x y && dw_eqb a' b'
  | _, _ => false
  end.
(* replay a history next to the dense model: position of the first in-range, safe
   operation after which the world (or the value read) is not what the dense
   model says (None = agreement); judging stops at the first out-of-range operation
   (the invariant is not promised afterwards); after an in-range but unsafe operation
   the dense side is resynchronised with the abstraction of the world *)
Fixpoint dense_diverge (k : nat) (w : world) (d : dworld) (ops : list op) : option nat :=
  match ops with
  | [] => None
  | o :: r =>
      let '(w', (_, p)) := step w o in
      if negb (in_rangeb w o) then None else
      if safeb w o then
        let d' := dstep d o in
        if dw_eqb (absw w') d' && match dout d o with Some q => zl_eqb p q | None => true end
        then dense_diverge (S k) w' d' r else Some k
      else dense_diverge (S k) w' (absw w') r
  end.
