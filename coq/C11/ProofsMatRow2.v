(* C11, round 6 — Row / Col / Diag after whole histories over mop3 (ProofsMatRow.v + ProofsMatPerm.v). *)
From Coq Require Import ZArith List Bool Lia.
From ADV Require Import C11.Model C11.Spec C11.Dense C11.ModelMat C11.ProofsMatSpec C11.ProofsMat
                        C11.DenseMat C11.ProofsMatWorld C11.ModelMatFrom C11.DenseMatFrom
                        C11.ModelMatPerm C11.DenseMatPerm C11.ProofsMatPerm C11.ProofsMatRow.
Import ListNotations.
Open Scope Z_scope.

(* what the caller can see of the returned vector, in terms of the dense matrix [a] alone *)
Definition VecIs (h' : heap) (r : svec) (n : Z) (f : Z -> Z) : Prop :=
  Inv r /\ Wf h' r /\ dim r = n /\ abs h' r = map f (zseq 0 (Z.to_nat n)) /\
  (forall k, In k (idx r) <-> peek h' r k <> 0).
Lemma VecReads_VecIs h m h' r n f : VecReads h m h' r n f -> VecIs h' r n f.
Proof. intros (_ & A & B & C & D & E & _). split; [exact A|]. split; [exact B|]. split; [exact C|]. split; [exact D|exact E]. Qed.

Section HistoryRow.
Hypothesis Hbase : forall w o, MWInv w -> MWWf w -> min_range w o -> msafe w o ->
  mabsw (fst (mstep w o)) = mdstep (mabsw w) o /\ MWWf (fst (mstep w o)) /\ fst (snd (mstep w o)) = mcode w o.

Lemma pre_state pre o : mvalid_safe3 minit (pre ++ [M2 (MB o)]) ->
  let w := mrun3 minit pre in
  mabsw w = mdense_run3 [] pre /\ MWWf w /\ MWInv w /\ min_range w o.
Proof.
  intros V w. destruct (mvalid_safe3_app pre minit _ V) as [V1 V2].
  destruct (mrun3_sim_from Hbase pre minit MWInv_minit MWWf_minit V1) as (A & B & C).
  destruct V2 as (R & _). repeat split; auto.
Qed.

Lemma mrow_history pre t i : mvalid_safe3 minit (pre ++ [M2 (MB (MRow t i))]) ->
  let w := mrun3 minit pre in let a := dmget (mdense_run3 [] pre) t in
  exists h' r, mstep3 w (M2 (MB (MRow t i))) = (w, (K_OK, obs_vec h' r)) /\
    VecIs h' r (dc a) (fun j => del a i j).
Proof.
  intros V w a. destruct (pre_state pre _ V) as (A & B & C & R). fold w in A, B, C, R.
  destruct (mrow_step w t i C B R) as (h' & r & E & F). exists h', r. split; [exact E|].
  apply VecReads_VecIs in F. unfold a. rewrite <- A. rewrite dmget_mabsw in *. exact F.
Qed.
Lemma mcol_history pre t j : mvalid_safe3 minit (pre ++ [M2 (MB (MCol t j))]) ->
  let w := mrun3 minit pre in let a := dmget (mdense_run3 [] pre) t in
  exists h' r, mstep3 w (M2 (MB (MCol t j))) = (w, (K_OK, obs_vec h' r)) /\
    VecIs h' r (dr a) (fun i => del a i j).
Proof.
  intros V w a. destruct (pre_state pre _ V) as (A & B & C & R). fold w in A, B, C, R.
  destruct (mcol_step w t j C B R) as (h' & r & E & F). exists h', r. split; [exact E|].
  apply VecReads_VecIs in F. unfold a. rewrite <- A. rewrite dmget_mabsw in *. exact F.
Qed.
Lemma mdiag_history pre t : mvalid_safe3 minit (pre ++ [M2 (MB (MDiag t))]) ->
  let w := mrun3 minit pre in let a := dmget (mdense_run3 [] pre) t in
  exists h' r, mstep3 w (M2 (MB (MDiag t))) = (w, (K_OK, obs_vec h' r)) /\
    VecIs h' r (dr a) (fun i => del a i i).
Proof.
  intros V w a. destruct (pre_state pre _ V) as (A & B & C & R). fold w in A, B, C, R.
  destruct (mdiag_step w t C B R) as (h' & r & E & F). exists h', r. split; [exact E|].
  apply VecReads_VecIs in F. unfold a. rewrite <- A. rewrite dmget_mabsw in *. exact F.
Qed.
End HistoryRow.
