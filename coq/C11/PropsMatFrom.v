(* C11, round 5 — property theorems for ITERATION STARTED IN THE MIDDLE
   (IteratorFrom / ConstIteratorFrom) on sparse vectors and sparse matrices whose
   private map / index hold PENDING ZEROS: stored zeros (written through
   At().Set(0), produced by arithmetic or Reset) and entries merely created by At(),
   with no full iteration since.  Statements only; proofs in ProofsMatFrom.v.
   Model: Model.it_from (vector ITERATOR_FROM: AVL first key >= i, then the
   constructor-time skip()) and ModelMatFrom.v (matrix ITERATOR_FROM(i,j) =
   values.ITERATOR_FROM(index(i,j)); operation set mop2 = the 22 operations of
   ModelMat.v + MIterFrom + MIterFromPart); dense side: DenseMatFrom.v.
   All statements quantify over all vectors / matrices / worlds / histories, no bounds. *)
From Coq Require Import ZArith List Bool Lia Sorted.
From ADV Require Import C11.Model C11.Spec C11.Dense C11.ProofsIter C11.ModelMat C11.ProofsMatSpec C11.ProofsMat
                        C11.DenseMat C11.ProofsMatWorld C11.ProofsMatOut C11.PropsMat2
                        C11.ModelMatFrom C11.DenseMatFrom C11.ProofsMatFrom C11.DensePay C11.PropsPay.
Import ListNotations.
Open Scope Z_scope.

(* ---- 1. (central) the visited-set theorem for ONE coherent matrix in ANY state -------------- *)
(* whatever the private map and index hold (pending zeros of any origin included):
   ConstIteratorFrom(i,j) with an in-range start never panics, terminates within the fuel,
   visits strictly ascending positions (row-major, hence once each), visits ((i',j'), x) iff
   (i',j') >= (i,j), x is the element there and x <> 0 — THE FIRST VISITED POSITION INCLUDED —
   changes no element and no dimension and leaves the matrix coherent *)
Theorem mat_iter_from_exact : forall h m i j, MInv m -> pos_ok m i j ->
  exists v0 cur v' s,
    mit_from h m i j = Some (Some (v0, cur)) /\
    iter_loop (sfuel (mv m)) h v0 cur [] = Some (v', s) /\
    StronglySorted lexlt (map fst (mvisits h m s)) /\
    (forall i' j' x, In ((i', j'), x) (mvisits h m s) <->
       pos_ok m i' j' /\ (i < i' \/ (i = i' /\ j <= j')) /\ x = mget (mabs h m) i' j' /\ x <> 0) /\
    mabs h (set_mv m v') = mabs h m /\ mdims (set_mv m v') = mdims m /\ MInv (set_mv m v').
Proof. exact miter_from_exact. Qed.
(* in closed form: the visit list IS the dense list of non-zero elements from (i,j) on; the loop
   abandoned after n visits delivers its first n elements *)
Theorem mat_iter_from_closed_form : forall h m i j, MInv m -> pos_ok m i j ->
  exists v0 cur v' s,
    mit_from h m i j = Some (Some (v0, cur)) /\
    iter_loop (sfuel (mv m)) h v0 cur [] = Some (v', s) /\
    mvisits h m s = dm_entries_from (mabsd h m) i j /\ Q h (mv m) v0 /\ Q h (mv m) v'.
Proof. exact miter_from_visits. Qed.
Theorem mat_iter_from_part_closed_form : forall h m i j n, MInv m -> pos_ok m i j ->
  exists v0 cur v' s,
    mit_from h m i j = Some (Some (v0, cur)) /\
    iter_part n h v0 cur [] = Some (v', s) /\
    mvisits h m s = firstn n (dm_entries_from (mabsd h m) i j).
Proof. exact miter_from_part_visits. Qed.

(* ---- 2. the constructor-time skip -------------------------------------------------------- *)
(* vector ITERATOR_FROM(i) on any vector with an ordered index: when the constructor returns,
   the cursor is on a NON-NULL key p >= i (or the iterator is exhausted), p is the least index
   key >= i that is left, every index key in [i, p) was null (and is gone), the keys < i are
   untouched, and no element changed (Q) *)
Theorem vec_iter_from_constructor : forall h v i, sset (idx v) ->
  exists v0 cur, it_from h v i = Some (v0, cur) /\ Q h v v0 /\
    (forall q, In q (idx v0) -> In q (idx v)) /\
    (forall q, In q (idx v) -> q < i -> In q (idx v0)) /\
    match cur with
    | Some p => i <= p /\ In p (idx v0) /\ isnull h v0 p = false /\
                (forall q, In q (idx v0) -> i <= q -> p <= q) /\
                (forall q, In q (idx v) -> i <= q < p -> isnull h v q = true)
    | None => (forall q, In q (idx v0) -> q < i) /\ (forall q, In q (idx v) -> i <= q -> isnull h v q = true)
    end.
Proof. exact it_from_constructor. Qed.
(* the histories of the class: a PENDING ZERO p is the first index key at or after the start.
   The constructor deletes it: p is no longer an index key, the cursor is not on p, nothing
   that can be read changed — for vectors and for matrices *)
Theorem vec_pending_zero_dropped : forall h v i p,
  sset (idx v) -> first_ge i (idx v) = Some p -> isnull h v p = true ->
  exists v0 cur, it_from h v i = Some (v0, cur) /\ ~ In p (idx v0) /\ cur <> Some p /\ Q h v v0.
Proof. exact pending_zero_dropped. Qed.
Theorem mat_pending_zero_dropped : forall h m i j p, MInv m -> pos_ok m i j ->
  first_ge (i * mcols m + j) (idx (mv m)) = Some p -> isnull h (mv m) p = true ->
  exists v0 cur, mit_from h m i j = Some (Some (v0, cur)) /\ ~ In p (idx v0) /\ cur <> Some p /\
                 mabsd h (set_mv m v0) = mabsd h m.
Proof. exact mpending_zero_dropped. Qed.
(* closed form of the vector constructor + loop, with the index afterwards: [pre] = the keys
   < i (untouched), [rest] = the keys >= i; visited = the non-null keys of rest; the null keys of
   rest are dropped from the index *)
Theorem vec_iter_from_closed_form : forall h v i, sset (idx v) ->
  exists pre rest v0 v',
    idx v = pre ++ rest /\ (forall x, In x pre -> x < i) /\ (forall x, In x rest -> i <= x) /\
    it_from h v i = Some (v0, hd_error (dropnull (isnull h v) rest)) /\
    idx v0 = pre ++ dropnull (isnull h v) rest /\ Q h v v0 /\
    iter_loop (sfuel v) h v0 (hd_error (dropnull (isnull h v) rest)) []
      = Some (v', cells v (filter (nonnull h v) rest)) /\
    idx v' = pre ++ filter (nonnull h v) rest /\ Q h v v'.
Proof. exact from_loop_spec. Qed.
(* the constructor WITHOUT skip() is refuted (a stored zero at key 2, start key 1: the loop
   would deliver position 2, which reads 0; the constructor as coded deletes it) *)
Theorem iter_from_without_skip_refuted :
  let h := [0] in
  let v := {| vals := [(2, O)]; idx := [2]; dim := 4 |} in
  Inv v /\
  iter_loop (sfuel v) h (fst (it_from_noskip v 1)) (snd (it_from_noskip v 1)) [] = Some (v, [(2, O)]) /\
  peek h v 2 = 0 /\
  (exists v0, it_from h v 1 = Some (v0, None) /\ idx v0 = []).
Proof. exact it_from_noskip_refuted. Qed.

(* ---- 3. (central) worlds of matrices: steps and WHOLE HISTORIES over mop2 -------------------- *)
(* every in-range, safe operation of the extended operation set (22 operations + IterFrom +
   IterFromPart) refines the dense operation, keeps the world well-formed and coherent, and
   never panics or runs out of fuel *)
Theorem mat_from_refinement_step : forall w o,
  MWInv w -> MWWf w -> min_range2 w o -> msafe2 w o ->
  mabsw (fst (mstep2 w o)) = mdstep2 (mabsw w) o /\ MWWf (fst (mstep2 w o)) /\
  fst (snd (mstep2 w o)) = mcode2 w o.
Proof. exact (mstep2_sim mat_refinement_step). Qed.
Theorem mat_from_inv_step : forall w o, MWInv w -> min_range2 w o -> MWInv (fst (mstep2 w o)).
Proof. exact mstep2_MWInv. Qed.
Theorem mat_from_refinement_all_histories : forall ops,
  mvalid_safe2 minit ops ->
  mabsw (mrun2 minit ops) = mdense_run2 [] ops /\ MWWf (mrun2 minit ops) /\ MWInv (mrun2 minit ops).
Proof. intros ops V. exact (mrun2_sim_from mat_refinement_step ops minit MWInv_minit MWWf_minit V). Qed.
(* what the reading operations return, ConstIteratorFrom(i,j) (full / abandoned) included *)
Theorem mat_from_reads_agree_step : forall w o q,
  MWInv w -> MWWf w -> min_range2 w o -> mdout2 (mabsw w) o = Some q -> snd (snd (mstep2 w o)) = q.
Proof. exact mstep2_out. Qed.
Theorem mat_from_history_step : forall pre o,
  mvalid_safe2 minit (pre ++ [o]) ->
  let w := mrun2 minit pre in
  fst (snd (mstep2 w o)) = mcode2 w o /\
  (forall q, mdout2 (mdense_run2 [] pre) o = Some q -> snd (snd (mstep2 w o)) = q).
Proof. exact (mhistory2_step mat_refinement_step). Qed.
(* THE CLASS, as one statement: after ANY in-range, safe history [pre] — whatever pending
   zeros it left, of whatever origin — ConstIteratorFrom(i,j) on matrix t succeeds and delivers
   exactly the non-zero elements at the positions >= (i,j) of the DENSE run of [pre], row-major;
   the loop abandoned after n visits delivers the first n of them *)
Theorem mat_iter_from_after_any_history : forall pre t i j,
  mvalid_safe2 minit (pre ++ [MIterFrom t i j]) ->
  snd (mstep2 (mrun2 minit pre) (MIterFrom t i j)) =
  (K_OK, flat3 (dm_entries_from (dmget (mdense_run2 [] pre) t) i j)).
Proof.
  intros pre t i j V. destruct (mhistory2_step mat_refinement_step pre _ V) as [A B].
  specialize (B _ eq_refl). cbv zeta in A, B.
  destruct (mstep2 (mrun2 minit pre) (MIterFrom t i j)) as [w' [c p]]. cbn [fst snd] in *.
  rewrite A, B. reflexivity.
Qed.
Theorem mat_iter_from_part_after_any_history : forall pre t i j n,
  mvalid_safe2 minit (pre ++ [MIterFromPart t i j n]) ->
  snd (mstep2 (mrun2 minit pre) (MIterFromPart t i j n)) =
  (K_OK, flat3 (firstn n (dm_entries_from (dmget (mdense_run2 [] pre) t) i j))).
Proof.
  intros pre t i j n V. destruct (mhistory2_step mat_refinement_step pre _ V) as [A B].
  specialize (B _ eq_refl). cbv zeta in A, B.
  destruct (mstep2 (mrun2 minit pre) (MIterFromPart t i j n)) as [w' [c p]]. cbn [fst snd] in *.
  rewrite A, B. reflexivity.
Qed.

(* the vector-level twin (the vector IterFrom has been an operation of Model.op since round 2; its
   reading is Dense.dout / DensePay.dout2): after ANY valid, safe vector history, ConstIteratorFrom(i)
   delivers exactly the (position, value) pairs with value <> 0 at the positions >= i, ascending *)
Theorem vec_iter_from_after_any_history : forall pre t i,
  valid_safe init pre -> has (run init pre) t ->
  snd (step (run init pre) (IterFrom t i)) =
  (K_OK, flat2 (filter (fun p => i <=? fst p) (nonzero (dget (dense_run [] pre) t)))).
Proof. intros pre t i V H. exact (proj1 (reads_agree_all_histories2 pre (IterFrom t i) _ V H eq_refl)). Qed.

(* ---- 4. the executable side conditions of the correspondence run are sound ------------------ *)
Theorem mat_from_side_conditions_sound :
  (forall w o, min_rangeb2 w o = true -> min_range2 w o) /\
  (forall w o, msafeb2 w o = true -> msafe2 w o) /\
  (forall ops w, mvalid_safeb2 w ops = true -> mvalid_safe2 w ops).
Proof. exact (conj min_rangeb2_sound (conj msafeb2_sound mvalid_safeb2_sound)). Qed.

(* ---- Examples: the hypotheses are satisfiable by a history of the class ---------------------- *)
(* a 3 x 3 matrix; pending zeros of the four origins — At().Set(0) on a stored position, an
   entry merely created by At(), arithmetic (x -> x*0 on a clone), Reset (on another clone) —
   and iterations started AT and BEFORE them, full and abandoned *)
Definition ex_from_ops : list mop2 :=
  [MB (NewMat [0; 1; 1; 2] [1; 0; 2; 2] [5; 6; 7; 8] 3 3);
   MB (MSetAt 0 1 0 0);          (* stored zero at key 3 *)
   MIterFrom 0 0 2;              (* start key 2 <= 3: first index key at/after the start is the zero *)
   MB (MAt 0 1 1);               (* entry merely created at key 4 *)
   MIterFromPart 0 1 1 1;        (* start ON it, one visit *)
   MB (MClone 0); MB (MMapMul 1 0); MIterFrom 1 1 0;   (* arithmetic: every entry a stored zero *)
   MB (MClone 0); MB (MReset 2); MIterFromPart 2 0 2 0; MIterFrom 2 0 0;   (* Reset, constructor only *)
   MB (MIterate 0)].
Example ex_from_valid : mvalid_safe2 minit ex_from_ops.
Proof. apply mvalid_safeb2_sound. vm_compute. reflexivity. Qed.
Example ex_from_starts_on_pending : count_pending_starts minit ex_from_ops = 5%nat.
Proof. vm_compute. reflexivity. Qed.
Example ex_from_payloads :
  map (fun k => snd (snd (mstep2 (mrun2 minit (firstn k ex_from_ops)) (nth k ex_from_ops (MB (MDims 0))))))
      [2; 4; 7; 10; 11]%nat
  = [[1; 2; 7; 2; 2; 8]; [1; 2; 7]; []; []; []].
Proof. vm_compute. reflexivity. Qed.
Example ex_from_refines : mabsw (mrun2 minit ex_from_ops) = mdense_run2 [] ex_from_ops.
Proof. exact (proj1 (mat_from_refinement_all_histories ex_from_ops ex_from_valid)). Qed.
