(* C09 correspondence, dense matrix pairs (family M).  A case holds the world (dense matrices and dense vectors over
   small integers, built by C03.ModelM operations), the pair, and what Go did for BOTH members (generic method and
   CONCRETE twin called by reflection on identically built worlds): outcome kind, payload (Equals result) and a
   checksum of the observation of the whole world (every element of every matrix and vector).  [check] replays the
   generic model (C03.ModelM.step4) and the concrete model (C09.ModelM) and compares EACH with its Go outcome.
   CI: integer MdotV/MDOTV on values up to 2^62: the float64 product of the generic member and the wrap-around of the
   concrete one (mdotv_int_generic, mdotv_int_concrete of C09.ModelM); a row the model excludes (implementation-defined float->int) is not compared. *)
From Coq Require Import ZArith List Bool.
From ADV Require Import Base.Corr C11.Model C03.Model C03.ModelM C09.ModelM C09.ModelMD.
Import ListNotations.
Open Scope Z_scope.

Definition out := (Z * list Z * Z)%type.
Definition out_eqb (a b : out) : bool :=
  let '(k1, p1, h1) := a in
  let '(k2, p2, h2) := b in
  (k1 =? k2) && list_eqb Z.eqb p1 p2 && (h1 =? h2).
Definition mout (r : w4 * (Z * list Z)) : out := let '(w, (k, p)) := r in (k, p, hash (obs4 w)).

Inductive mcase :=
| CM (y : ty) (setup : list mop4) (p : mpair) (gout cout : out)
| CI (n m : nat) (a b : list Z) (gen conc : list Z).

Fixpoint opt_list_ok (m : list (option Z)) (g : list Z) : bool :=
  match m, g with
  | [], [] => true
  | Some x :: m', y :: g' => (x =? y) && opt_list_ok m' g'
  | None :: m', _ :: g' => opt_list_ok m' g'
  | _, _ => false
  end.
Definition check_generic (c : mcase) : bool :=
  match c with
  | CM y setup p gout _ => out_eqb (mout (mstep_generic y (run4 y init4 setup) p)) gout
  | CI n m a b gen _ => opt_list_ok (mdotv_int_generic n m a b) gen
  end.
Definition check_concrete (c : mcase) : bool :=
  match c with
  | CM y setup p _ cout => out_eqb (mout (mstep_concrete y (run4 y init4 setup) p)) cout
  | CI n m a b _ conc => list_eqb Z.eqb (mdotv_int_concrete n m a b) conc
  end.
(* the loop-level generic members of the product pairs (C09.ModelMD, written from the Go text of MdotM / MdotV / VdotM)
   against what the GENERIC Go method did *)
Definition check_generic_loop (c : mcase) : bool :=
  match c with
  | CM y setup p gout _ =>
      match mstep_generic_loop (run4 y init4 setup) p with Some o => out_eqb (mout o) gout | None => true end
  | CI _ _ _ _ _ _ => true
  end.
Definition check (c : mcase) : bool := check_generic c && check_concrete c && check_generic_loop c.
Definition mism (cs : list mcase) : list nat := mismatches check cs.
Definition mism2 (cs : list mcase) : list nat * list nat := (mismatches check_generic cs, mismatches check_concrete cs).
