(* C09/ModelMD.v — the GENERIC members MdotM / MdotV / VdotM of the dense containers at LOOP level, from the Go text
     /repo/matrix_dense_template_math.in   MdotM(a, b ConstMatrix)           (r dense matrix)
     /repo/vector_dense_template_math.in   MdotV(a ConstMatrix, b ConstVector), VdotM(a ConstVector, b ConstMatrix)
   for operands whose dynamic type is the dense type of the receiver's element type (the situation of the property:
   "given equal operands").  The interface calls a.ConstAt(i, k) / a.Float64At(i, j) land in the dense methods
   Float64{&values[index(i, k)]} / float64(values[index(i, j)]): the same header kernel [index] (coq/C10/Gen.v,
   regenerated from the Go source) the concrete twins reach through AT, but they are separate methods in the source and
   separate definitions here.  Same branch structure as the source: dimension test, r.storageLocation() ==
   b.storageLocation() (&values[0]: panics on an empty matrix) choosing the column-buffered or the row-buffered
   schedule, buffers t3 flushed through r.At.
   C03.ModelM.step4 holds the CLOSED FORM of these members (and the column schedule for r = a = b); C09.ProofsMD proves
   loop level = closed form under C03's hypothesis (well-formed dense matrices) and loop level = concrete twin.
   MdotV / VdotM: r.AT(i) is the accumulator (Reset, then Add per j); as C09.ModelM.MDOTV does, the running sum is
   kept in a local and stored once per i — a is a matrix and b is not r (the guard r.AT(0) == b.ConstAt(0) panicked),
   so no read inside the loop sees the cell r[i].  Integer element types multiply in float64 here (F-C09-MDOTV-INT,
   modelled in C09.ModelM.mdotv_int_generic); over the exact carrier Z the product is the product.
   No proofs in this file. *)
From Coq Require Import ZArith List Bool Lia.
From ADV Require Import C11.Model C03.Model C03.ModelM C10.Gen C09.ModelM.
Import ListNotations.
Open Scope Z_scope.

(* x.ConstAt(i, j).GetFloat64() / x.Float64At(i, j) of a dense matrix operand behind the ConstMatrix interface *)
Definition ConstAtv (w : w4) (k : nat) (i j : Z) : option Z :=
  match DenseP.index (hdr w k) i j with
  | Some p => if (0 <=? p) && (p <? zlen (dvals w k)) then Some (nth (Z.to_nat p) (dvals w k) 0) else None
  | None => None
  end.
(* r.At(i, j): func (matrix *Dense..Matrix) At(i, j int) Scalar { return matrix.AT(i, j) } *)
Definition At (w : w4) (k : nat) (i j : Z) : option Z := AT w k i j.
(* v.ConstAt(i).GetFloat64() / v.Float64At(i) of a dense vector operand behind the ConstVector interface *)
Definition VConstAt (w : w4) (k : nat) (i : Z) : option Z :=
  let d := getd (b3 w) k in
  if (0 <=? i) && (i <? zlen d) then Some (nth (Z.to_nat i) d 0) else None.

(* for k := 0; k < m1; k++ { t1 = a.ConstAt(i, k).GetFloat64()*b.ConstAt(k, j).GetFloat64(); t2 = t2 + t1 } *)
Fixpoint gdot_k (w : w4) (a b : nat) (cnt : nat) (i j k t2 : Z) : option Z :=
  match cnt with
  | O => Some t2
  | S c => match ConstAtv w a i k, ConstAtv w b k j with
           | Some x, Some y => let t1 := x * y in gdot_k w a b c i j (k + 1) (t2 + t1)
           | _, _ => None
           end
  end.
(* for x := 0..: r.At(pos x).SetFloat64(t3[x]) *)
Fixpoint gflush (r : nat) (pos : Z -> Z * Z) (t3 : list Z) (x : Z) (w : w4) : option w4 :=
  match t3 with
  | [] => Some w
  | v :: rest => match At w r (fst (pos x)) (snd (pos x)) with
                 | Some p => gflush r pos rest (x + 1) (setdm w r (upd (Z.to_nat p) v (dvals w r)))
                 | None => None
                 end
  end.
Definition MdotM_loop (w : w4) (r a b : nat) : w4 * (Z * list Z) :=
  let '(n, m) := mdims w (XD r) in
  let '(n1, m1) := mdims w (XD a) in
  let '(n2, m2) := mdims w (XD b) in
  if negb ((n1 =? n) && (m2 =? m) && (m1 =? n2)) then panic w else
  if (zlen (dvals w r) =? 0) || (zlen (dvals w b) =? 0) then panic w else
  if Nat.eqb r b then
    (* t3 := make([]float64, n); for j { for i { t3[i] = sum_k } ; for i { r.At(i, j).SetFloat64(t3[i]) } } *)
    fin (outer_loop (fun w' j =>
           match buf (fun i => gdot_k w' a b (Z.to_nat m1) i j 0 0) (Z.to_nat n) 0 with
           | Some t3 => gflush r (fun i => (i, j)) t3 0 w'
           | None => None
           end) (Z.to_nat m) 0 w)
  else
    (* t3 := make([]float64, m); for i { for j { t3[j] = sum_k } ; for j { r.At(i, j).SetFloat64(t3[j]) } } *)
    fin (outer_loop (fun w' i =>
           match buf (fun j => gdot_k w' a b (Z.to_nat m1) i j 0 0) (Z.to_nat m) 0 with
           | Some t3 => gflush r (fun j => (i, j)) t3 0 w'
           | None => None
           end) (Z.to_nat n) 0 w).

(* r.AT(i).Reset(); for j { t = a.Float64At(i, j)*b.Float64At(j); r.AT(i).Add(r.AT(i), ConstFloat64(t)) } *)
Definition MdotV_loop (w : w4) (r a b : nat) : w4 * (Z * list Z) :=
  let '(n, m) := mdims w (XD a) in
  if negb ((zlen (getd (b3 w) r) =? n) && (zlen (getd (b3 w) b) =? m)) then panic w else
  if (n =? 0) || (m =? 0) then okm w else
  if Nat.eqb r b then panic w else        (* r.AT(0) == b.ConstAt(0) *)
  fin (outer_loop (fun w' i =>
         match acc_j (fun j => two (fun x y => Some (x * y)) (ConstAtv w' a i j) (VConstAt w' b j)) (Z.to_nat m) 0 0 with
         | Some v => vput w' r i v
         | None => None
         end) (Z.to_nat n) 0 w).
(* r.AT(i).Reset(); for j { t = a.Float64At(j)*b.Float64At(j, i); r.AT(i).Add(r.AT(i), ConstFloat64(t)) } *)
Definition VdotM_loop (w : w4) (r a b : nat) : w4 * (Z * list Z) :=
  let '(n, m) := mdims w (XD b) in
  if negb ((zlen (getd (b3 w) r) =? m) && (zlen (getd (b3 w) a) =? n)) then panic w else
  if (n =? 0) || (m =? 0) then okm w else
  if Nat.eqb r a then panic w else        (* r.AT(0) == a.ConstAt(0) *)
  fin (outer_loop (fun w' i =>
         match acc_j (fun j => two (fun x y => Some (x * y)) (VConstAt w' a j) (ConstAtv w' b j i)) (Z.to_nat n) 0 0 with
         | Some v => vput w' r i v
         | None => None
         end) (Z.to_nat m) 0 w).

(* the loop-level generic member of a product pair *)
Definition mstep_generic_loop (w : w4) (p : mpair) : option (w4 * (Z * list Z)) :=
  match p with
  | MPdotM r a b => Some (MdotM_loop w r a b)
  | MPdotV r a b => Some (MdotV_loop w r a b)
  | MPVdotM r a b => Some (VdotM_loop w r a b)
  | _ => None
  end.
