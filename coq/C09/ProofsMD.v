(* C09/ProofsMD.v — the dense PRODUCT pairs MdotM/MDOTM, MdotV/MDOTV, VdotM/VDOTM.
   (1) the concrete twins (C09.ModelM: nested loops over AT, row buffer / column buffer chosen by the storageLocation
       test as coded) leave exactly the world and outcome of the generic members of C03.ModelM.step4 (closed form; the
       column schedule mdot_cols for r = a = b) on every well-formed world, ALL alias patterns (r = a, r = b, a = b,
       r = a = b), dimension mismatches, empty matrices (storageLocation panics) and the r = b guard of MdotV / VdotM;
   (2) the loop-level generic members written from the Go text (C09.ModelMD) are the concrete twins step by step, hence
       also equal C03's closed form under the same hypothesis.
   Method: the world is only ever changed in the receiver's value list, W d = setdm w r d; a buffered line schedule
   (sched) keeps the invariant "lines already flushed hold the closed-form value C, every other cell holds the old value";
   each alias pattern is the observation that the cells read for line x are not in a flushed line. *)
From Coq Require Import ZArith List Bool Lia.
From ADV Require Import C11.Model C03.Model C03.ModelM C10.Gen C09.ModelM C09.ModelMD C09.ProofsM.
Import ListNotations.
Open Scope Z_scope.

(* ------------------------------------------------------------------ lists *)
Lemma upd_upd {X} (x y : X) : forall l k, upd k x (upd k y l) = upd k x l.
Proof. induction l; destruct k; cbn; auto. f_equal. apply IHl. Qed.
Lemma upd_nth_same {X} (d : X) : forall l k, upd k (nth k l d) l = l.
Proof. induction l; destruct k; cbn; auto. f_equal. apply IHl. Qed.
Lemma zseq_len : forall cnt a, length (zseq a cnt) = cnt.
Proof. induction cnt; cbn; auto. Qed.
Lemma in_zseq : forall cnt a q, In q (zseq a cnt) <-> a <= q < a + Z.of_nat cnt.
Proof.
  induction cnt as [|c IH]; intros a q; cbn [zseq In].
  - lia.
  - rewrite IH. lia.
Qed.
Lemma nth_map_zseq (f : Z -> Z) : forall cnt a k, (k < cnt)%nat -> nth k (map f (zseq a cnt)) 0 = f (a + Z.of_nat k).
Proof.
  induction cnt as [|c IH]; intros a k H; [lia|]. destruct k as [|k]; cbn [zseq map nth].
  - f_equal. lia.
  - rewrite IH by lia. f_equal. lia.
Qed.
Lemma fold_ext_in (f g : Z -> Z -> Z) : forall l acc, (forall q, In q l -> forall a, f a q = g a q) ->
  fold_left f l acc = fold_left g l acc.
Proof.
  induction l as [|x l IH]; intros acc H; [reflexivity|]. cbn. rewrite H by (left; reflexivity).
  apply IH. intros q Hq. apply H. right. exact Hq.
Qed.
Lemma list_eq_map (C : Z -> Z) (d : list Z) (N : nat) : length d = N ->
  (forall k, (k < N)%nat -> nth k d 0 = C (Z.of_nat k)) -> d = map C (zseq 0 N).
Proof.
  intros L H. apply (nth_ext d (map C (zseq 0 N)) 0 0).
  - rewrite map_length, zseq_len. exact L.
  - intros k Hk. rewrite nth_map_zseq by lia. rewrite H by lia. f_equal.
Qed.

(* buffers: buf g cnt x = [g x; ..; g (x + cnt - 1)] *)
Lemma buf_spec (g : Z -> option Z) (V : Z -> Z) : forall cnt x,
  (forall y, x <= y < x + Z.of_nat cnt -> g y = Some (V y)) -> buf g cnt x = Some (map V (zseq x cnt)).
Proof.
  induction cnt as [|c IH]; intros x H; [reflexivity|]. cbn [buf zseq map].
  rewrite H by lia. rewrite IH by (intros; apply H; lia). reflexivity.
Qed.
Lemma acc_j_spec (g : Z -> option Z) (V : Z -> Z) : forall cnt j acc,
  (forall y, j <= y < j + Z.of_nat cnt -> g y = Some (V y)) ->
  acc_j g cnt j acc = Some (fold_left (fun s y => s + V y) (zseq j cnt) acc).
Proof.
  induction cnt as [|c IH]; intros j acc H; [reflexivity|]. cbn [acc_j zseq fold_left].
  rewrite H by lia. apply IH. intros; apply H; lia.
Qed.

(* writing the values vs at the positions ps, in order *)
Fixpoint fl (ps vs : list Z) (d : list Z) : list Z :=
  match ps, vs with
  | p :: ps', v :: vs' => fl ps' vs' (upd (Z.to_nat p) v d)
  | _, _ => d
  end.
Lemma fl_len : forall ps vs d, length (fl ps vs d) = length d.
Proof. induction ps; destruct vs; cbn; intros; auto. rewrite IHps. apply upd_len. Qed.
Section FlSeq.
Variables (lin V : Z -> Z).
Lemma fl_miss : forall cnt y d q, 0 <= q -> (forall y', y <= y' < y + Z.of_nat cnt -> 0 <= lin y' /\ lin y' <> q) ->
  nth (Z.to_nat q) (fl (map lin (zseq y cnt)) (map V (zseq y cnt)) d) 0 = nth (Z.to_nat q) d 0.
Proof.
  induction cnt as [|c IH]; intros y d q Hq H; [reflexivity|]. cbn [zseq map fl].
  rewrite IH by (auto; intros; apply H; lia).
  apply nth_upd_other. destruct (H y) as [A B]; [lia|]. intros E. apply B. apply Z2Nat.inj; lia.
Qed.
Lemma fl_hit : forall cnt y d y', y <= y' < y + Z.of_nat cnt ->
  (forall z, y <= z < y + Z.of_nat cnt -> 0 <= lin z < zlen d) ->
  (forall z1 z2, y <= z1 < y + Z.of_nat cnt -> y <= z2 < y + Z.of_nat cnt -> lin z1 = lin z2 -> z1 = z2) ->
  nth (Z.to_nat (lin y')) (fl (map lin (zseq y cnt)) (map V (zseq y cnt)) d) 0 = V y'.
Proof.
  induction cnt as [|c IH]; intros y d y' Hy Hr Hi; [lia|]. cbn [zseq map fl].
  destruct (Z.eq_dec y' y) as [->|N].
  - rewrite fl_miss.
    + apply nth_upd_same. destruct (Hr y) as [A B]; [lia|]. unfold zlen in B. lia.
    + destruct (Hr y); lia.
    + intros z Hz. split; [destruct (Hr z); lia|]. intros E. assert (z = y) by (apply Hi; lia). lia.
  - apply IH; try lia.
    + intros z Hz. unfold zlen. rewrite upd_len. apply Hr. lia.
    + intros z1 z2 H1 H2. apply Hi; lia.
Qed.
End FlSeq.

(* reading a dense matrix cell through ATv / ConstAtv depends on the handle's own triple only *)
Lemma ATv_getdm w1 w2 k i j : getdm w1 k = getdm w2 k -> ATv w1 k i j = ATv w2 k i j.
Proof. intros H. unfold ATv, AT, hdr, dvals. rewrite H. reflexivity. Qed.
Lemma ConstAtv_is_ATv w k i j : ConstAtv w k i j = ATv w k i j.
Proof. unfold ConstAtv, ATv, AT. destruct (DenseP.index (hdr w k) i j); [|reflexivity]. destruct (_ && _); reflexivity. Qed.
Lemma VConstAt_is_VAT w k i : VConstAt w k i = VAT w k i.
Proof. reflexivity. Qed.

(* sum_k a[i,k] b[k,j] through the index kernel = the closed-form fold over linear positions *)
Lemma dot_k_spec w' a b n1 m1 m2 i j : shape w' a n1 m1 -> shape w' b m1 m2 -> 0 <= i < n1 -> 0 <= j < m2 ->
  forall cnt k acc, 0 <= k -> k + Z.of_nat cnt <= m1 ->
  dot_k w' a b cnt i j k acc =
  Some (fold_left (fun s q => s + mrd w' (XD a) (i * m1 + q) * mrd w' (XD b) (q * m2 + j)) (zseq k cnt) acc).
Proof.
  intros Sa Sb Hi Hj. induction cnt as [|c IH]; intros k acc Hk Hc; [reflexivity|].
  cbn [dot_k zseq fold_left].
  rewrite (ATv_shape w' a n1 m1 i k Sa) by lia. rewrite (ATv_shape w' b m1 m2 k j Sb) by lia.
  apply IH; lia.
Qed.

(* ------------------------------------------------------------------ the receiver's value list as the only state *)
Section Recv.
Variables (w : w4) (r : nat) (n m : Z) (d0 : list Z).
Hypothesis Hr : (r < length (dms w))%nat.
Hypothesis Hg : getdm w r = (d0, n, m).
Hypothesis Hl : zlen d0 = n * m.
Hypothesis Hn : 0 <= n.
Hypothesis Hm : 0 <= m.

Definition W (d : list Z) : w4 := setdm w r d.
Lemma W_getdm_r d : getdm (W d) r = (d, n, m).
Proof. unfold W, setdm. rewrite Hg. unfold getdm. cbn. apply nth_upd_same. exact Hr. Qed.
Lemma W_getdm_o d k : k <> r -> getdm (W d) k = getdm w k.
Proof. intros H. apply getdm_setdm_other. exact H. Qed.
Lemma W_b3 d : b3 (W d) = b3 w.
Proof. apply b3_setdm. Qed.
Lemma W_W d d' : setdm (W d) r d' = W d'.
Proof.
  unfold setdm at 1. rewrite W_getdm_r. unfold W, setdm. rewrite Hg. cbn. f_equal. apply upd_upd.
Qed.
Lemma W_d0 : W d0 = w.
Proof.
  unfold W, setdm. rewrite Hg. destruct w as [b s dm]. cbn in *. f_equal.
  unfold getdm in Hg. cbn in Hg. rewrite <- Hg. apply upd_nth_same.
Qed.
Lemma W_dvals d : dvals (W d) r = d.
Proof. unfold dvals. rewrite W_getdm_r. reflexivity. Qed.
Lemma W_shape d : zlen d = n * m -> shape (W d) r n m.
Proof. intros H. exists d. split; [apply W_getdm_r|exact H]. Qed.
Lemma W_shape_o d k nk mk : k <> r -> shape w k nk mk -> shape (W d) k nk mk.
Proof. intros N [dk [G L]]. exists dk. rewrite W_getdm_o by exact N. auto. Qed.
Lemma mrd_W_r d p : mrd (W d) (XD r) p = nth (Z.to_nat p) d 0.
Proof. unfold mrd, mop. rewrite W_getdm_r. reflexivity. Qed.
Lemma mrd_w_r p : mrd w (XD r) p = nth (Z.to_nat p) d0 0.
Proof. unfold mrd, mop. rewrite Hg. reflexivity. Qed.
Lemma mrd_W_o d k p : k <> r -> mrd (W d) (XD k) p = mrd w (XD k) p.
Proof. intros N. unfold mrd, mop. rewrite W_getdm_o by exact N. rewrite W_b3. reflexivity. Qed.

(* flushing a buffer through AT = writing the list positions *)
Lemma flush_W (pos : Z -> Z * Z) (lin : Z -> Z) : forall t3 y d, zlen d = n * m ->
  (forall y', y <= y' < y + Z.of_nat (length t3) ->
     0 <= fst (pos y') < n /\ 0 <= snd (pos y') < m /\ lin y' = fst (pos y') * m + snd (pos y')) ->
  flush r pos t3 y (W d) = Some (W (fl (map lin (zseq y (length t3))) t3 d)).
Proof.
  induction t3 as [|v t3 IH]; intros y d Hd H; [reflexivity|]. cbn [flush length zseq map fl].
  destruct (H y) as (A & B & E); [cbn [length]; lia|].
  rewrite (AT_shape (W d) r n m _ _ (W_shape d Hd) A B). rewrite W_dvals, W_W. rewrite <- E.
  apply IH.
  - unfold zlen. rewrite upd_len. exact Hd.
  - intros y' Hy'. apply H. cbn [length]. lia.
Qed.

(* -------------------------------------------------------------- the buffered line schedule *)
Section Sched.
Variables (L K : nat).
Variable lin : Z -> Z -> Z.               (* line x, offset y: the linear position *)
Variable pos : Z -> Z -> Z * Z.           (* ... and its (i, j) *)
Variable C : Z -> Z.                      (* the closed-form value by linear position *)
Variable g : w4 -> Z -> Z -> option Z.    (* what the loop computes for t3[y] of line x in the current world *)
Hypothesis Hpos : forall x y, 0 <= x < Z.of_nat L -> 0 <= y < Z.of_nat K ->
  0 <= fst (pos x y) < n /\ 0 <= snd (pos x y) < m /\ lin x y = fst (pos x y) * m + snd (pos x y).
Hypothesis Hinj : forall x y x' y', 0 <= x < Z.of_nat L -> 0 <= y < Z.of_nat K -> 0 <= x' < Z.of_nat L ->
  0 <= y' < Z.of_nat K -> lin x y = lin x' y' -> x = x' /\ y = y'.
Definition InvL (x : Z) (d : list Z) : Prop :=
  zlen d = n * m /\
  (forall x' y, 0 <= x' < x -> 0 <= y < Z.of_nat K -> nth (Z.to_nat (lin x' y)) d 0 = C (lin x' y)) /\
  (forall q, 0 <= q -> (forall x' y, 0 <= x' < x -> 0 <= y < Z.of_nat K -> lin x' y <> q) ->
             nth (Z.to_nat q) d 0 = nth (Z.to_nat q) d0 0).
Hypothesis Hgval : forall x d y, 0 <= x < Z.of_nat L -> 0 <= y < Z.of_nat K -> InvL x d ->
  g (W d) x y = Some (C (lin x y)).
Definition lstep (w' : w4) (x : Z) : option w4 :=
  match buf (fun y => g w' x y) K 0 with Some t3 => flush r (pos x) t3 0 w' | None => None end.

Lemma lin_range x y : 0 <= x < Z.of_nat L -> 0 <= y < Z.of_nat K -> 0 <= lin x y < n * m.
Proof. intros Hx Hy. destruct (Hpos x y Hx Hy) as (A & B & E). rewrite E. nia. Qed.

Lemma sched : forall cnt x d, 0 <= x -> x + Z.of_nat cnt = Z.of_nat L -> InvL x d ->
  exists d', outer_loop lstep cnt x (W d) = (W d', true) /\ InvL (Z.of_nat L) d'.
Proof.
  induction cnt as [|c IH]; intros x d Hx Hc HI.
  - exists d. split; [reflexivity|]. replace (Z.of_nat L) with x by lia. exact HI.
  - cbn [outer_loop]. unfold lstep at 1.
    rewrite (buf_spec _ (fun y => C (lin x y))) by (intros y Hy; apply Hgval; [lia|lia|exact HI]).
    destruct HI as (Hd & Hhit & Hmiss).
    rewrite (flush_W (pos x) (lin x)); [| exact Hd |].
    2:{ intros y Hy. rewrite map_length, zseq_len in Hy. apply Hpos; lia. }
    rewrite map_length, zseq_len.
    apply IH; [lia|lia|]. split; [|split].
    + unfold zlen. rewrite fl_len. exact Hd.
    + intros x' y Hx' Hy. destruct (Z.eq_dec x' x) as [->|N].
      * apply (fl_hit (lin x) (fun y => C (lin x y))); [lia| |].
        -- intros z Hz. rewrite Hd. apply lin_range; lia.
        -- intros z1 z2 H1 H2 E. apply (Hinj x z1 x z2); lia.
      * rewrite fl_miss.
        -- apply Hhit; lia.
        -- destruct (lin_range x' y); lia.
        -- intros z Hz. split; [destruct (lin_range x z); lia|].
           intros E. destruct (Hinj x z x' y) as [E1 _]; try lia.
    + intros q Hq H. rewrite fl_miss; [|exact Hq|].
      * apply Hmiss; [exact Hq|]. intros x' y Hx' Hy. apply H; lia.
      * intros z Hz. split; [destruct (lin_range x z); lia|]. apply H; lia.
Qed.

(* when the lines cover every position the final list is the closed form *)
Hypothesis Hcov : forall q, 0 <= q < n * m -> exists x y, 0 <= x < Z.of_nat L /\ 0 <= y < Z.of_nat K /\ lin x y = q.
Lemma sched_closed : outer_loop lstep L 0 w = (W (map C (zseq 0 (Z.to_nat (n * m)))), true).
Proof.
  destruct (sched L 0 d0) as [d' [E (Hd & Hhit & _)]]; [lia|lia| |].
  - split; [exact Hl|]. split; [intros; lia|]. intros; reflexivity.
  - rewrite W_d0 in E. rewrite E. do 2 f_equal. apply list_eq_map.
    + unfold zlen in Hd. lia.
    + intros k Hk. destruct (Hcov (Z.of_nat k)) as (x & y & Hx & Hy & Q); [lia|].
      rewrite <- Q. rewrite <- (Hhit x y Hx Hy). rewrite Q. rewrite Nat2Z.id. reflexivity.
Qed.
End Sched.

(* -------------------------------------------------------------- the three alias situations of MDOTM *)
Lemma lin_inj x y x' y' : 0 <= y < m -> 0 <= y' < m -> x * m + y = x' * m + y' -> x = x' /\ y = y'.
Proof. intros Hy Hy' E. assert (x = x') by nia. subst. lia. Qed.
Lemma lin_div x y : 0 <= y < m -> (x * m + y) / m = x /\ (x * m + y) mod m = y.
Proof.
  intros Hy. split.
  - symmetry. apply Z.div_unique with y; lia.
  - symmetry. apply Z.mod_unique with x; lia.
Qed.
Definition Cdot (a b : nat) (m1 : Z) (q : Z) : Z := dotrow w (XD a) (XD b) m1 m (q / m) (q mod m).

(* r is not b: row buffer.  a may be r: row x of a is read before row x of r is flushed, later rows are untouched *)
Lemma rows_case a b m1 : shape w a n m1 -> shape w b m1 m -> b <> r -> 0 <= m1 -> 0 < m ->
  outer_loop (fun w' i => match buf (fun j => dot_k w' a b (Z.to_nat m1) i j 0 0) (Z.to_nat m) 0 with
                          | Some t3 => flush r (fun j => (i, j)) t3 0 w'
                          | None => None
                          end) (Z.to_nat n) 0 w
  = (W (map (Cdot a b m1) (zseq 0 (Z.to_nat (n * m)))), true).
Proof.
  intros Sa Sb Nb Hm1 Hm0.
  apply (sched_closed (Z.to_nat n) (Z.to_nat m) (fun x y => x * m + y) (fun x y => (x, y)) (Cdot a b m1)
           (fun w' x y => dot_k w' a b (Z.to_nat m1) x y 0 0)).
  - intros x y Hx Hy. cbn [fst snd]. lia.
  - intros x y x' y' Hx Hy Hx' Hy' E. apply lin_inj; lia.
  - intros x d y Hx Hy (Hd & Hhit & Hmiss).
    assert (Sa' : shape (W d) a n m1).
    { destruct (Nat.eq_dec a r) as [->|Na]; [|apply W_shape_o; assumption].
      destruct Sa as [da [Ga _]]. rewrite Hg in Ga. assert (Em : m1 = m) by congruence. rewrite Em. apply W_shape. exact Hd. }
    rewrite (dot_k_spec (W d) a b n m1 m x y Sa' (W_shape_o d b m1 m Nb Sb)) by lia.
    f_equal. unfold Cdot, dotrow. destruct (lin_div x y) as [-> ->]; [lia|].
    apply fold_ext_in. intros q Hq acc. apply in_zseq in Hq. rewrite (mrd_W_o d b) by exact Nb. f_equal. f_equal.
    destruct (Nat.eq_dec a r) as [->|Na]; [|apply mrd_W_o; exact Na].
    destruct Sa as [da [Ga _]]. rewrite Hg in Ga. assert (Em : m1 = m) by congruence. rewrite Em.
    rewrite mrd_W_r, mrd_w_r. apply Hmiss; [nia|].
    intros x' y' Hx' Hy' E. destruct (lin_inj x' y' x q) as [E1 _]; lia.
  - intros q Hq. exists (q / m), (q mod m). pose proof (Z.mod_pos_bound q m Hm0) as B.
    pose proof (Z.div_mod q m) as D. rewrite !Z2Nat.id by lia.
    assert (0 <= q / m) by (apply Z.div_pos; lia).
    assert (q / m < n) by (apply Z.div_lt_upper_bound; lia). lia.
Qed.

(* r is b, a is another matrix: column buffer; column x of b = r is read before it is flushed *)
Lemma cols_case a : shape w a n n -> a <> r -> 0 < n -> 0 < m ->
  outer_loop (fun w' j => match buf (fun i => dot_k w' a r (Z.to_nat n) i j 0 0) (Z.to_nat n) 0 with
                          | Some t3 => flush r (fun i => (i, j)) t3 0 w'
                          | None => None
                          end) (Z.to_nat m) 0 w
  = (W (map (Cdot a r n) (zseq 0 (Z.to_nat (n * m)))), true).
Proof.
  intros Sa Na Hn0 Hm0.
  apply (sched_closed (Z.to_nat m) (Z.to_nat n) (fun x y => y * m + x) (fun x y => (y, x)) (Cdot a r n)
           (fun w' x y => dot_k w' a r (Z.to_nat n) y x 0 0)).
  - intros x y Hx Hy. cbn [fst snd]. lia.
  - intros x y x' y' Hx Hy Hx' Hy' E. destruct (lin_inj y x y' x'); lia.
  - intros x d y Hx Hy (Hd & Hhit & Hmiss).
    rewrite (dot_k_spec (W d) a r n n m y x (W_shape_o d a n n Na Sa) (W_shape d Hd)) by lia.
    f_equal. unfold Cdot, dotrow. destruct (lin_div y x) as [-> ->]; [lia|].
    apply fold_ext_in. intros q Hq acc. apply in_zseq in Hq. rewrite (mrd_W_o d a) by exact Na. f_equal. f_equal.
    rewrite mrd_W_r, mrd_w_r. apply Hmiss; [nia|].
    intros x' y' Hx' Hy' E. destruct (lin_inj y' x' q x) as [_ E1]; lia.
  - intros q Hq. exists (q mod m), (q / m). pose proof (Z.mod_pos_bound q m Hm0) as B.
    pose proof (Z.div_mod q m) as D. rewrite !Z2Nat.id by lia.
    assert (0 <= q / m) by (apply Z.div_pos; lia).
    assert (q / m < n) by (apply Z.div_lt_upper_bound; lia). lia.
Qed.

(* r is a and b: the column schedule reads overwritten columns of the left factor: C03's mdot_cols, step by step *)
Lemma col_flush_fl : forall t3 i j d,
  col_flush t3 i j m d = fl (map (fun i' => i' * m + j) (zseq i (length t3))) t3 d.
Proof. induction t3 as [|v t3 IH]; intros i j d; [reflexivity|]. cbn [col_flush length zseq map fl]. apply IH. Qed.
Lemma rab_case : n = m -> 0 < m -> forall cnt j d, zlen d = n * m -> 0 <= j -> j + Z.of_nat cnt <= m ->
  outer_loop (fun w' j => match buf (fun i => dot_k w' r r (Z.to_nat m) i j 0 0) (Z.to_nat n) 0 with
                          | Some t3 => flush r (fun i => (i, j)) t3 0 w'
                          | None => None
                          end) cnt j (W d)
  = (W (mdot_cols cnt j d n m m), true).
Proof.
  intros E Hm0. induction cnt as [|c IH]; intros j d Hd Hj Hc; [reflexivity|].
  cbn [outer_loop mdot_cols].
  assert (Sb : shape (W d) r m m). { pose proof (W_shape d Hd) as S. rewrite E in S. exact S. }
  rewrite (buf_spec _ (fun i => fold_left (fun acc q => acc + nth (Z.to_nat (i * m + q)) d 0 * nth (Z.to_nat (q * m + j)) d 0)
                                   (zseq 0 (Z.to_nat m)) 0)).
  2:{ intros i Hi. rewrite Z2Nat.id in Hi by lia.
      rewrite (dot_k_spec (W d) r r n m m i j (W_shape d Hd) Sb) by lia.
      f_equal. apply fold_ext_in. intros q _ acc. rewrite !mrd_W_r. reflexivity. }
  fold (col_buf d n m m j).
  rewrite (flush_W (fun i => (i, j)) (fun i => i * m + j)); [|exact Hd|].
  2:{ intros i Hi. unfold col_buf in Hi. rewrite map_length, zseq_len, Z2Nat.id in Hi by lia. cbn [fst snd]. lia. }
  rewrite <- col_flush_fl. apply IH; try lia.
  unfold zlen. rewrite col_flush_fl, fl_len. exact Hd.
Qed.
End Recv.

(* ------------------------------------------------------------------ MDOTM *)
Lemma getdm_in w k d n m : getdm w k = (d, n, m) -> zlen d <> 0 -> (k < length (dms w))%nat.
Proof.
  intros G Z. destruct (Nat.lt_ge_cases k (length (dms w))) as [H|H]; [exact H|].
  unfold getdm in G. rewrite nth_overflow in G by exact H. inversion G; subst. cbn in Z. lia.
Qed.
Lemma shape_of w k d n m : getdm w k = (d, n, m) -> zlen d = n * m -> shape w k n m.
Proof. intros G L. exists d. auto. Qed.

Lemma MDOTM_generic y w r a b : wfdm w -> MDOTM w r a b = step4 y w (MdotM (XD r) (XD a) (XD b)).
Proof.
  intros Wf. unfold MDOTM. cbn [step4].
  pose proof (Wf r) as Wr. pose proof (Wf a) as Wa. pose proof (Wf b) as Wb.
  unfold mdims, dvals.
  destruct (getdm w r) as [[dr n] m] eqn:Gr. destruct (getdm w a) as [[da n1] m1] eqn:Ga.
  destruct (getdm w b) as [[db n2] m2] eqn:Gb.
  destruct Wr as (Hn & Hm & Lr). destruct Wa as (Hn1 & Hm1 & La). destruct Wb as (Hn2 & Hm2 & Lb).
  destruct ((n1 =? n) && (m2 =? m) && (m1 =? n2)) eqn:Edim; cbn [negb]; [|reflexivity].
  apply andb_true_iff in Edim as [Edim E3]. apply andb_true_iff in Edim as [E1 E2].
  apply Z.eqb_eq in E1, E2, E3. subst n1 m2 n2.
  unfold sloc. rewrite Gr.
  destruct (zlen dr =? 0) eqn:Zr; [reflexivity|]. cbn [orb]. rewrite Gb.
  destruct (zlen db =? 0) eqn:Zb; [reflexivity|].
  apply Z.eqb_neq in Zr, Zb.
  pose proof (getdm_in w r dr n m Gr Zr) as Hr.
  assert (Hm0 : 0 < m) by nia. assert (Hn0 : 0 < n) by nia.
  unfold rab_alias. rewrite (Nat.eqb_sym b r).
  destruct (Nat.eqb r b) eqn:Erb.
  - apply Nat.eqb_eq in Erb. subst b. rewrite Gr in Gb.
    assert (Q1 : db = dr) by congruence. assert (Q2 : m1 = n) by congruence. subst db m1. clear Gb.
    destruct (Nat.eqb a r) eqn:Ear; cbn [andb].
    + apply Nat.eqb_eq in Ear. subst a. rewrite Gr in Ga.
      assert (Q3 : n = m) by congruence. clear Ga. subst m.
      rewrite <- (W_d0 w r n n dr Hr Gr) at 1.
      rewrite (rab_case w r n n dr Hr Gr Hn eq_refl Hn0 (Z.to_nat n) 0 dr Lr); try lia.
      unfold fin, okm, W. rewrite Gr. reflexivity.
    + apply Nat.eqb_neq in Ear.
      rewrite (cols_case w r n m dr Hr Gr Lr Hn Hm a (shape_of w a da n n Ga La) Ear Hn0 Hm0).
      unfold fin, okm, W, Cdot. reflexivity.
  - apply Nat.eqb_neq in Erb. rewrite andb_false_r.
    rewrite (rows_case w r n m dr Hr Gr Lr Hn Hm a b m1 (shape_of w a da n m1 Ga La) (shape_of w b db m1 m Gb Lb)); try lia.
    unfold fin, okm, W, Cdot. reflexivity.
Qed.

(* ------------------------------------------------------------------ MDOTV / VDOTM: the receiver is a dense vector *)
Section VRecv.
Variables (w : w4) (r : nat) (l0 : list Z) (n : Z).
Hypothesis Hr : (r < length (dn (b3 w)))%nat.
Hypothesis Hl0 : getd (b3 w) r = l0.
Hypothesis Hn : zlen l0 = n.
Definition U (l : list Z) : w4 := setb w (setd (b3 w) r l).
Lemma U_getd_r l : getd (b3 (U l)) r = l.
Proof. unfold U, setb, setd, getd. cbn. apply nth_upd_same. exact Hr. Qed.
Lemma U_getd_o l k : k <> r -> getd (b3 (U l)) k = getd (b3 w) k.
Proof. intros N. unfold U, setb, setd, getd. cbn. apply nth_upd_other. congruence. Qed.
Lemma U_U l l' : setb (U l) (setd (b3 (U l)) r l') = U l'.
Proof. unfold U, setb, setd. cbn. do 2 f_equal. apply upd_upd. Qed.
Lemma U_l0 : U l0 = w.
Proof.
  unfold U, setb, setd. rewrite <- Hl0. unfold getd. destruct w as [b s dm]. destruct b as [sw0 dn0]. cbn.
  do 2 f_equal. apply upd_nth_same.
Qed.
Lemma vput_U l i v : 0 <= i < zlen l -> vput (U l) r i v = Some (U (upd (Z.to_nat i) v l)).
Proof.
  intros H. unfold vput. rewrite U_getd_r.
  destruct (0 <=? i) eqn:E1; [|apply Z.leb_gt in E1; lia].
  destruct (i <? zlen l) eqn:E2; [|apply Z.ltb_ge in E2; lia]. cbn [andb]. rewrite U_U. reflexivity.
Qed.

Variable gv : w4 -> Z -> Z -> option Z.
Variable F : Z -> Z.
Variable M : nat.
Hypothesis HF : forall l i, zlen l = n -> 0 <= i < n -> acc_j (gv (U l) i) M 0 0 = Some (F i).
Definition vstep (w' : w4) (i : Z) : option w4 :=
  match acc_j (gv w' i) M 0 0 with Some v => vput w' r i v | None => None end.
Lemma vloop : forall cnt x l, 0 <= x -> x + Z.of_nat cnt = n -> zlen l = n ->
  (forall q, 0 <= q < x -> nth (Z.to_nat q) l 0 = F q) ->
  exists l', outer_loop vstep cnt x (U l) = (U l', true) /\ zlen l' = n /\
             forall q, 0 <= q < n -> nth (Z.to_nat q) l' 0 = F q.
Proof.
  induction cnt as [|c IH]; intros x l Hx Hc Hl Hq.
  - exists l. split; [reflexivity|]. split; [exact Hl|]. intros q H. apply Hq. lia.
  - cbn [outer_loop]. unfold vstep at 1. rewrite HF by lia. rewrite vput_U by lia.
    apply IH; try lia.
    + unfold zlen. rewrite upd_len. exact Hl.
    + intros q H. destruct (Z.eq_dec q x) as [->|N].
      * apply nth_upd_same. unfold zlen in Hl. lia.
      * rewrite nth_upd_other by (intros E; apply N; apply Z2Nat.inj; lia). apply Hq. lia.
Qed.
Lemma vloop_closed : outer_loop vstep (Z.to_nat n) 0 w = (U (map F (zseq 0 (Z.to_nat n))), true).
Proof.
  assert (N0 : 0 <= n) by (unfold zlen in Hn; lia).
  destruct (vloop (Z.to_nat n) 0 l0) as [l' [E [L Q]]]; try lia.
  - rewrite U_l0 in E. rewrite E. do 2 f_equal. apply list_eq_map.
    + unfold zlen in L. lia.
    + intros k Hk. rewrite <- (Q (Z.of_nat k)) by lia. rewrite Nat2Z.id. reflexivity.
Qed.
End VRecv.

Lemma getd_in (b : w3) k : zlen (getd b k) <> 0 -> (k < length (dn b))%nat.
Proof.
  intros Z. destruct (Nat.lt_ge_cases k (length (dn b))) as [H|H]; [exact H|].
  unfold getd in Z. rewrite nth_overflow in Z by exact H. cbn in Z. lia.
Qed.
Lemma ATv_U w r l a i j : ATv (U w r l) a i j = ATv w a i j.
Proof. apply ATv_getdm. reflexivity. Qed.
Lemma VAT_U_o w r l k i : (r < length (dn (b3 w)))%nat -> k <> r -> VAT (U w r l) k i = VAT w k i.
Proof. intros Hr N. unfold VAT. rewrite (U_getd_o w r l k N). reflexivity. Qed.

Lemma MDOTV_generic y w r a b : wfdm w -> MDOTV w r a b = step4 y w (MdotV (RD r) (XD a) (RD b)).
Proof.
  intros Wf. unfold MDOTV. cbn [step4]. pose proof (Wf a) as Wa. unfold mdims, vlen, vdim.
  destruct (getdm w a) as [[da n] m] eqn:Ga. destruct Wa as (Hn & Hm & La).
  destruct ((zlen (getd (b3 w) r) =? n) && (zlen (getd (b3 w) b) =? m)) eqn:Ed; cbn [negb]; [|reflexivity].
  apply andb_true_iff in Ed as [E1 E2]. apply Z.eqb_eq in E1, E2.
  destruct ((n =? 0) || (m =? 0)) eqn:Ez; [reflexivity|].
  apply orb_false_iff in Ez as [Z1 Z2]. apply Z.eqb_neq in Z1, Z2.
  destruct (Nat.eqb r b) eqn:Erb; [reflexivity|]. apply Nat.eqb_neq in Erb.
  assert (Hr : (r < length (dn (b3 w)))%nat) by (apply getd_in; lia).
  assert (E : outer_loop (vstep r (fun w' i j => two (fun x y => Some (x * y)) (ATv w' a i j) (VAT w' b j)) (Z.to_nat m))
                (Z.to_nat n) 0 w
              = (U w r (map (fun i => fold_left (fun acc j => acc + mrd w (XD a) (i * m + j) * vrd w (RD b) j)
                                                 (zseq 0 (Z.to_nat m)) 0) (zseq 0 (Z.to_nat n))), true)).
  2:{ unfold vstep in E. cbv beta in E. rewrite E. reflexivity. }
  apply (vloop_closed w r (getd (b3 w) r) n Hr eq_refl E1).
  - intros l i Hl Hi.
    rewrite (acc_j_spec _ (fun j => mrd w (XD a) (i * m + j) * vrd w (RD b) j)); [reflexivity|].
    intros j Hj. rewrite Z2Nat.id in Hj by lia. rewrite ATv_U, (VAT_U_o w r l b j Hr) by congruence.
    rewrite (ATv_shape w a n m i j (shape_of w a da n m Ga La)) by lia.
    rewrite VAT_in by lia. reflexivity.
Qed.
Lemma VDOTM_generic y w r a b : wfdm w -> VDOTM w r a b = step4 y w (VdotM (RD r) (RD a) (XD b)).
Proof.
  intros Wf. unfold VDOTM. cbn [step4]. pose proof (Wf b) as Wb. unfold mdims, vlen, vdim.
  destruct (getdm w b) as [[db n] m] eqn:Gb. destruct Wb as (Hn & Hm & Lb).
  destruct ((zlen (getd (b3 w) r) =? m) && (zlen (getd (b3 w) a) =? n)) eqn:Ed; cbn [negb]; [|reflexivity].
  apply andb_true_iff in Ed as [E1 E2]. apply Z.eqb_eq in E1, E2.
  destruct ((n =? 0) || (m =? 0)) eqn:Ez; [reflexivity|].
  apply orb_false_iff in Ez as [Z1 Z2]. apply Z.eqb_neq in Z1, Z2.
  destruct (Nat.eqb r a) eqn:Era; [reflexivity|]. apply Nat.eqb_neq in Era.
  assert (Hr : (r < length (dn (b3 w)))%nat) by (apply getd_in; lia).
  assert (E : outer_loop (vstep r (fun w' i j => two (fun x y => Some (x * y)) (VAT w' a j) (ATv w' b j i)) (Z.to_nat n))
                (Z.to_nat m) 0 w
              = (U w r (map (fun i => fold_left (fun acc j => acc + vrd w (RD a) j * mrd w (XD b) (j * m + i))
                                                 (zseq 0 (Z.to_nat n)) 0) (zseq 0 (Z.to_nat m))), true)).
  2:{ unfold vstep in E. cbv beta in E. rewrite E. reflexivity. }
  apply (vloop_closed w r (getd (b3 w) r) m Hr eq_refl E1).
  - intros l i Hl Hi.
    rewrite (acc_j_spec _ (fun j => vrd w (RD a) j * mrd w (XD b) (j * m + i))); [reflexivity|].
    intros j Hj. rewrite Z2Nat.id in Hj by lia. rewrite ATv_U, (VAT_U_o w r l a j Hr) by congruence.
    rewrite (ATv_shape w b n m j i (shape_of w b db n m Gb Lb)) by lia.
    rewrite VAT_in by lia. reflexivity.
Qed.

(* ------------------------------------------------------------------ the three product pairs *)
Definition mpair_product (p : mpair) : Prop :=
  match p with MPdotM _ _ _ | MPdotV _ _ _ | MPVdotM _ _ _ => True | _ => False end.
Lemma matrix_products_agree y w p : wfdm w -> mpair_product p -> mstep_concrete y w p = mstep_generic y w p.
Proof.
  intros Wf Hp. destruct p; try contradiction; unfold mstep_concrete, mstep_generic, mgeneric_op.
  - apply MDOTM_generic. exact Wf.
  - apply MDOTV_generic. exact Wf.
  - apply VDOTM_generic. exact Wf.
Qed.
Lemma all_matrix_pairs_agree y w p : wfdm w -> mstep_concrete y w p = mstep_generic y w p.
Proof.
  intros Wf. destruct p; try (apply matrix_pairs_agree; [exact Wf|exact I]); apply matrix_products_agree; try exact Wf; exact I.
Qed.

(* ------------------------------------------------------------------ loop-level generic members (ModelMD) *)
(* the generic loops are the concrete loops: ConstAt/At/Float64At of a dense operand reach the cell AT reaches.
   No hypothesis on the world: equal step by step, panics included. *)
Lemma gdot_k_is_dot_k w a b : forall cnt i j k acc, gdot_k w a b cnt i j k acc = dot_k w a b cnt i j k acc.
Proof.
  induction cnt as [|c IH]; intros i j k acc; [reflexivity|]. cbn [gdot_k dot_k]. rewrite !ConstAtv_is_ATv.
  destruct (ATv w a i k); [|reflexivity]. destruct (ATv w b k j); [|reflexivity]. apply IH.
Qed.
Lemma gflush_is_flush r pos : forall t3 x w, gflush r pos t3 x w = flush r pos t3 x w.
Proof.
  induction t3 as [|v t3 IH]; intros x w; [reflexivity|]. cbn [gflush flush]. unfold At.
  destruct (AT w r (fst (pos x)) (snd (pos x))); [apply IH|reflexivity].
Qed.
Lemma buf_ext (g1 g2 : Z -> option Z) : (forall x, g1 x = g2 x) -> forall cnt x, buf g1 cnt x = buf g2 cnt x.
Proof. intros H. induction cnt as [|c IH]; intros x; [reflexivity|]. cbn [buf]. rewrite H, IH. reflexivity. Qed.
Lemma acc_j_ext (g1 g2 : Z -> option Z) : (forall x, g1 x = g2 x) -> forall cnt j acc, acc_j g1 cnt j acc = acc_j g2 cnt j acc.
Proof. intros H. induction cnt as [|c IH]; intros j acc; [reflexivity|]. cbn [acc_j]. rewrite H. destruct (g2 j); auto. Qed.
Lemma outer_loop_ext (s1 s2 : w4 -> Z -> option w4) : (forall w x, s1 w x = s2 w x) ->
  forall cnt x w, outer_loop s1 cnt x w = outer_loop s2 cnt x w.
Proof. intros H. induction cnt as [|c IH]; intros x w; [reflexivity|]. cbn [outer_loop]. rewrite H. destruct (s2 w x); auto. Qed.

Lemma MdotM_loop_is_MDOTM w r a b : MdotM_loop w r a b = MDOTM w r a b.
Proof.
  unfold MdotM_loop, MDOTM.
  destruct (mdims w (XD r)) as [n m]. destruct (mdims w (XD a)) as [n1 m1]. destruct (mdims w (XD b)) as [n2 m2].
  destruct (negb _); [reflexivity|]. destruct (_ || _); [reflexivity|].
  destruct (Nat.eqb r b); f_equal; apply outer_loop_ext; intros w' x;
    rewrite (buf_ext _ _ (fun y => gdot_k_is_dot_k w' a b (Z.to_nat m1) _ _ 0 0));
    destruct (buf _ _ _); try reflexivity; apply gflush_is_flush.
Qed.
Lemma MdotV_loop_is_MDOTV w r a b : MdotV_loop w r a b = MDOTV w r a b.
Proof.
  unfold MdotV_loop, MDOTV. destruct (mdims w (XD a)) as [n m].
  destruct (negb _); [reflexivity|]. destruct (_ || _); [reflexivity|]. destruct (Nat.eqb r b); [reflexivity|].
  f_equal. apply outer_loop_ext. intros w' i.
  rewrite (acc_j_ext _ (fun j => two (fun x y => Some (x * y)) (ATv w' a i j) (VAT w' b j))); [reflexivity|].
  intros j. rewrite ConstAtv_is_ATv. reflexivity.
Qed.
Lemma VdotM_loop_is_VDOTM w r a b : VdotM_loop w r a b = VDOTM w r a b.
Proof.
  unfold VdotM_loop, VDOTM. destruct (mdims w (XD b)) as [n m].
  destruct (negb _); [reflexivity|]. destruct (_ || _); [reflexivity|]. destruct (Nat.eqb r a); [reflexivity|].
  f_equal. apply outer_loop_ext. intros w' i.
  rewrite (acc_j_ext _ (fun j => two (fun x y => Some (x * y)) (VAT w' a j) (ATv w' b j i))); [reflexivity|].
  intros j. rewrite ConstAtv_is_ATv. reflexivity.
Qed.
Lemma generic_loop_is_concrete y w p out : mstep_generic_loop w p = Some out -> mstep_concrete y w p = out.
Proof.
  destruct p; cbn [mstep_generic_loop]; try discriminate; intros H; inversion H; subst; unfold mstep_concrete;
    symmetry; [apply MdotM_loop_is_MDOTM|apply MdotV_loop_is_MDOTV|apply VdotM_loop_is_VDOTM].
Qed.
(* ... hence the loops of the Go text compute C03's closed form under C03's hypothesis *)
Lemma generic_loop_is_closed_form y w p out : wfdm w -> mstep_generic_loop w p = Some out -> mstep_generic y w p = out.
Proof.
  intros Wf H. rewrite <- (all_matrix_pairs_agree y w p Wf). apply generic_loop_is_concrete. exact H.
Qed.

(* r.MDOTM(r, r) and r.MdotM(r, r) agree with each other — on the product the column schedule computes, which is not
   the matrix product (F-MDOTM-RR): [[1,1],[1,0]]^2 = [[2,1],[1,1]], both members leave [[2,2],[1,1]] *)
Example products_world : w4 := run4 TInt init4 [NewDM [1; 1; 1; 0] 2 2].
Lemma MDOTM_rr_both_members :
  dvals (fst (mstep_concrete TInt products_world (MPdotM 0 0 0))) 0%nat = [2; 2; 1; 1] /\
  dvals (fst (mstep_generic TInt products_world (MPdotM 0 0 0))) 0%nat = [2; 2; 1; 1] /\
  dvals (fst (MdotM_loop products_world 0 0 0)) 0%nat = [2; 2; 1; 1].
Proof. vm_compute. repeat split. Qed.
