(* Bare Float64/Float32: Sqrt is math.Pow(x, 0.5), SQRT is math.Sqrt(x).  On the binary64 carrier of the
   correspondence, with the oracle entry Go itself returns for math.Pow(-0, 0.5) (= +0; math.Sqrt(-0) = -0 is
   computed by PrimFloat.sqrt), the two members store different bits.  (-Inf: +Inf versus NaN.) *)
From Coq Require Import ZArith List Bool Floats.
From ADV Require Import Base.Num Base.Corr C02.Model C09.ModelB C09.CorrB.
Import ListNotations.
Open Scope Z_scope.

Definition orc_m0 : list oentry := [(22, (-0)%float, 0x1p-1%float, 0%float)].
Lemma bare_SQRT_refuted_minus_zero :
  b_generic (CarF orc_m0) BSqrtP TFloat64 (VF 0%float) (VF (-0)%float) (VF (-0)%float) = Val (VF 0%float) /\
  out_ok (b_concrete (CarF orc_m0) BSqrtP TFloat64 (VF 0%float) (VF (-0)%float) (VF (-0)%float)) (GVal (VF 0%float)) = false /\
  out_ok (b_concrete (CarF orc_m0) BSqrtP TFloat64 (VF 0%float) (VF (-0)%float) (VF (-0)%float)) (GVal (VF (-0)%float)) = true.
Proof. vm_compute. repeat split. Qed.

Definition orc_minf : list oentry := [(22, neg_infinity, 0x1p-1%float, infinity)].
Lemma bare_SQRT_refuted_minus_inf :
  out_ok (b_generic (CarF orc_minf) BSqrtP TFloat64 (VF 0%float) (VF neg_infinity) (VF neg_infinity)) (GVal (VF infinity)) = true /\
  out_ok (b_concrete (CarF orc_minf) BSqrtP TFloat64 (VF 0%float) (VF neg_infinity) (VF neg_infinity)) (GVal (VF nan)) = true /\
  out_ok (b_concrete (CarF orc_minf) BSqrtP TFloat64 (VF 0%float) (VF neg_infinity) (VF neg_infinity)) (GVal (VF infinity)) = false.
Proof. vm_compute. repeat split. Qed.
