(* C09/ModelMW.v — the element-wise dense matrix pairs on VIEWS
     /repo/matrix_dense_template_math.in   MaddM/MADDM MsubM/MSUBM MmulM/MMULM MdivM/MDIVM
                                           MaddS/MADDS MsubS/MSUBS MmulS/MMULS MdivS/MDIVS
   when receiver and operands are what SLICE / Slice and T build: headers (rows, cols, rowOffset, rowMax,
   colOffset, colMax, transposed) over BACKING ARRAYS that several headers may share (a view and its parent,
   two overlapping views of one parent, a view and its own transposition).  coq/C09/ModelM.v has these pairs on
   matrices that are neither sliced nor transposed; here the header is arbitrary.
   A world is the list of backing arrays; a matrix is a header [DenseMatrix nat] whose [d_values] names its
   array.  Every element access goes through the header kernel DenseP.index that coq/C10/Gen.v REGENERATES from
   the Go source on every run (index() panics outside rows x cols; &values[k] panics outside the array); the views
   of the replayed cases are built inside Coq by the regenerated DenseP.SLICE and DenseP.T.
   Both members are written out separately as the Go text has them:
     generic :  for i { for j { r.At(i, j).Add(a.ConstAt(i, j), b.ConstAt(i, j)) } }
                At(i, j) = AT(i, j);  ConstAt(i, j) = Float64{&matrix.values[matrix.index(i, j)]}
     concrete:  for i { for j { r.AT(i, j).ADD(a.AT(i, j), b.AT(i, j)) } }
                AT(i, j) = Float64{&matrix.values[matrix.index(i, j)]}
   Element carrier Z (exact ring; division of the float types by zero gives the codes of C03.Model.sdiv, of the
   integer types a panic).  No proofs in this file. *)
From Coq Require Import ZArith List Bool Lia.
From ADV Require Import C11.Model C03.Model C10.Gen.
Import ListNotations.
Open Scope Z_scope.

Definition stores := list (list Z).
Definition hd := DenseMatrix nat.
Definition sget (w : stores) (k : nat) : list Z := nth k w [].

(* ------------------------------------------------------------------ element access *)
(* m.AT(i, j) = Float64{&m.values[m.index(i, j)]}: the position of the cell in the backing array *)
Definition AT_w (w : stores) (h : hd) (i j : Z) : option Z :=
  match DenseP.index h i j with
  | Some p => if (0 <=? p) && (p <? zlen (sget w (d_values h))) then Some p else None
  | None => None
  end.
(* m.At(i, j) = m.AT(i, j) (wrapper) *)
Definition At_w (w : stores) (h : hd) (i j : Z) : option Z := AT_w w h i j.
(* m.ConstAt(i, j) = Float64{&m.values[m.index(i, j)]} (its own copy of the body of AT) *)
Definition ConstAt_w (w : stores) (h : hd) (i j : Z) : option Z :=
  match DenseP.index h i j with
  | Some p => if (0 <=? p) && (p <? zlen (sget w (d_values h))) then Some p else None
  | None => None
  end.
Definition deref (w : stores) (h : hd) (p : option Z) : option Z :=
  match p with Some q => Some (nth (Z.to_nat q) (sget w (d_values h)) 0) | None => None end.
Definition store (w : stores) (h : hd) (p z : Z) : stores :=
  upd (d_values h) (upd (Z.to_nat p) z (sget w (d_values h))) w.

(* ------------------------------------------------------------------ for i { for j { body } } *)
Section Loop.
Variable body : stores -> Z -> Z -> option stores.
Fixpoint wfor_j (cnt : nat) (i j : Z) (w : stores) : stores * bool :=
  match cnt with
  | O => (w, true)
  | S c => match body w i j with None => (w, false) | Some w' => wfor_j c i (j + 1) w' end
  end.
Fixpoint wfor_i (cnt m : nat) (i : Z) (w : stores) : stores * bool :=
  match cnt with
  | O => (w, true)
  | S c => let '(w', ok) := wfor_j m i 0 w in if ok then wfor_i c m (i + 1) w' else (w', false)
  end.
End Loop.

Definition two_w (f : Z -> Z -> option Z) (x y : option Z) : option Z :=
  match x, y with Some a, Some b => f a b | _, _ => None end.

(* the receiver cell first (Go evaluates the receiver expression, then the arguments), then the operation *)
Definition body_generic (f : Z -> Z -> option Z) (r a b : hd) (w : stores) (i j : Z) : option stores :=
  match At_w w r i j with
  | None => None
  | Some p =>
      match two_w f (deref w a (ConstAt_w w a i j)) (deref w b (ConstAt_w w b i j)) with
      | Some z => Some (store w r p z)
      | None => None
      end
  end.
Definition body_concrete (f : Z -> Z -> option Z) (r a b : hd) (w : stores) (i j : Z) : option stores :=
  match AT_w w r i j with
  | None => None
  | Some p =>
      match two_w f (deref w a (AT_w w a i j)) (deref w b (AT_w w b i j)) with
      | Some z => Some (store w r p z)
      | None => None
      end
  end.
Definition bodyS_generic (f : Z -> Z -> option Z) (r a : hd) (c : Z) (w : stores) (i j : Z) : option stores :=
  match At_w w r i j with
  | None => None
  | Some p =>
      match two_w f (deref w a (ConstAt_w w a i j)) (Some c) with
      | Some z => Some (store w r p z)
      | None => None
      end
  end.
Definition bodyS_concrete (f : Z -> Z -> option Z) (r a : hd) (c : Z) (w : stores) (i j : Z) : option stores :=
  match AT_w w r i j with
  | None => None
  | Some p =>
      match two_w f (deref w a (AT_w w a i j)) (Some c) with
      | Some z => Some (store w r p z)
      | None => None
      end
  end.

(* n, m := r.Dims(); n1, m1 := a.Dims(); n2, m2 := b.Dims(); a mismatch panics before anything is written *)
Definition dims_ok3 (r a b : hd) : bool :=
  let '(n, m) := DenseP.Dims r in
  let '(n1, m1) := DenseP.Dims a in
  let '(n2, m2) := DenseP.Dims b in
  (n1 =? n) && (m1 =? m) && (n2 =? n) && (m2 =? m).
Definition dims_ok2 (r a : hd) : bool :=
  let '(n, m) := DenseP.Dims r in
  let '(n1, m1) := DenseP.Dims a in
  (n1 =? n) && (m1 =? m).

Definition MopM_generic (f : Z -> Z -> option Z) (w : stores) (r a b : hd) : stores * bool :=
  if negb (dims_ok3 r a b) then (w, false) else
  wfor_i (body_generic f r a b) (Z.to_nat (d_rows r)) (Z.to_nat (d_cols r)) 0 w.
Definition MOPM_concrete (f : Z -> Z -> option Z) (w : stores) (r a b : hd) : stores * bool :=
  if negb (dims_ok3 r a b) then (w, false) else
  wfor_i (body_concrete f r a b) (Z.to_nat (d_rows r)) (Z.to_nat (d_cols r)) 0 w.
Definition MopS_generic (f : Z -> Z -> option Z) (w : stores) (r a : hd) (c : Z) : stores * bool :=
  if negb (dims_ok2 r a) then (w, false) else
  wfor_i (bodyS_generic f r a c) (Z.to_nat (d_rows r)) (Z.to_nat (d_cols r)) 0 w.
Definition MOPS_concrete (f : Z -> Z -> option Z) (w : stores) (r a : hd) (c : Z) : stores * bool :=
  if negb (dims_ok2 r a) then (w, false) else
  wfor_i (bodyS_concrete f r a c) (Z.to_nat (d_rows r)) (Z.to_nat (d_cols r)) 0 w.

(* ------------------------------------------------------------------ pair table *)
Inductive wpair :=
  | WopM (o : bop) (r a b : hd)          (* MaddM/MADDM MsubM/MSUBM MmulM/MMULM *)
  | WdivM (r a b : hd)
  | WopS (o : bop) (r a : hd) (c : Z)    (* MaddS/MADDS MsubS/MSUBS MmulS/MMULS *)
  | WdivS (r a : hd) (c : Z).
Definition wstep_generic (y : ty) (w : stores) (p : wpair) : stores * bool :=
  match p with
  | WopM o r a b => MopM_generic (fun x z => Some (bop_f o x z)) w r a b
  | WdivM r a b => MopM_generic (sdiv y) w r a b
  | WopS o r a c => MopS_generic (fun x z => Some (bop_f o x z)) w r a c
  | WdivS r a c => MopS_generic (sdiv y) w r a c
  end.
Definition wstep_concrete (y : ty) (w : stores) (p : wpair) : stores * bool :=
  match p with
  | WopM o r a b => MOPM_concrete (fun x z => Some (bop_f o x z)) w r a b
  | WdivM r a b => MOPM_concrete (sdiv y) w r a b
  | WopS o r a c => MOPS_concrete (fun x z => Some (bop_f o x z)) w r a c
  | WdivS r a c => MOPS_concrete (sdiv y) w r a c
  end.
Definition wrecv (p : wpair) : hd :=
  match p with WopM _ r _ _ => r | WdivM r _ _ => r | WopS _ r _ _ => r | WdivS r _ _ => r end.

(* ------------------------------------------------------------------ building views *)
(* NullDense<T>Matrix(rows, cols) over backing array k, then x.Slice(ro, ro+sr, co, co+sc), then .T() when t *)
Definition base_hdr (k : nat) (pr pc : Z) : hd := mkDense k pr pc 0 pr 0 pc false.
Definition view (k : nat) (pr pc ro co sr sc : Z) (t : bool) : hd :=
  let s := DenseP.Slice (base_hdr k pr pc) ro (ro + sr) co (co + sc) in
  if t then DenseP.T s else s.

(* the view lies inside its parent: what Slice / T produce from a constructor's matrix when the slice bounds
   are inside the receiver (Slice itself checks nothing) *)
Definition wf_view (h : hd) : Prop :=
  0 <= d_rowOffset h /\ 0 <= d_colOffset h /\ 0 <= d_rows h /\ 0 <= d_cols h /\
  d_rowOffset h + d_rows h <= d_rowMax h /\ d_colOffset h + d_cols h <= d_colMax h.

(* ------------------------------------------------------------------ frame vocabulary *)
(* the positions of its backing array that a header reaches *)
Definition image (h : hd) (q : Z) : Prop := exists i j, DenseP.index h i j = Some q.
(* what a run may change: no array changes its length, and nothing changes outside the positions [q] of array [kr]
   that satisfy [img] *)
Definition keeps (kr : nat) (img : Z -> Prop) (w0 w : stores) : Prop :=
  length w = length w0 /\
  (forall k, length (sget w k) = length (sget w0 k)) /\
  (forall k q, (k <> kr \/ ~ img (Z.of_nat q)) -> nth q (sget w k) 0 = nth q (sget w0 k) 0).
