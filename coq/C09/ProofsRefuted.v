(* C09/ProofsRefuted.v — the pairs that are NOT interchangeable at HEAD, each with a witness on which the two
   modelled members differ (the same witnesses are replayed on the implementation by the harness). *)
From Coq Require Import ZArith QArith List Bool Lia.
From ADV Require Import Base.Fl C01.Model C11.Model C03.Model C09.ModelS C09.ModelV C09.Spec.
Import ListNotations.

(* an exact carrier for the ring fragment of the scalar table: Z with + - * and comparisons (everything
   ABS / NEG / SET touch); the transcendental fields are never reached by these operations *)
Definition FlZ : Fl Z :=
  mkFl Z Z.add Z.sub Z.mul Z.quot Z.opp Z.ltb Z.leb Z.eqb
       (fun q => Qnum q) (fun z => z) 0%Z (fun _ => 0%Z) (fun _ => false) (fun _ _ => false)
       Z.abs (fun x => x) (fun x => x) (fun x => x) (fun x => x)
       (fun x => x) (fun x => x) (fun x => x) (fun x => x) (fun x => x) (fun x => x)
       (fun x => x) (fun x => x) (fun x => x) (fun x => x) (fun _ => 1%Z)
       (fun x _ => x) (fun x _ => x) (fun x => x) 3%Z 2%Z
       (fun x => x) (fun x => x) (fun x => x) (fun x _ => x)
       (fun _ x => x) (fun _ x => x) (fun _ x => x) (fun _ x => x) (fun _ x => x).

Definition regZ (v : Z) : Reg Z := mkReg K64 v 0 0 [] [].
Definition st_abs : St (A := Z) := fun k => match k with O => regZ 0 | _ => regZ (-4) end.

(* REGRESSION (round-1 witness of F-C09-ABS, fixed by 2fc8894): c := 0 (fresh); a = -4.  Before the fix c.ABS(a)
   looked at the receiver's sign and stored -4; at HEAD both members store 4 *)
Lemma ABS_round1_witness_agrees :
  match run_generic FlZ (fun x => x) (PAbs 0 1) st_abs with Ok s => rval (s 0%nat) | Panic _ => 0%Z end = 4%Z /\
  match run_concrete FlZ (fun x => x) (PAbs 0 1) st_abs with Ok s => rval (s 0%nat) | Panic _ => 0%Z end = 4%Z.
Proof. vm_compute. split; reflexivity. Qed.
(* REGRESSION (round-1 witness of F-C09-SETORD / F-SETORD, fixed by d9fca78): receiver Order 1 N 1, operand Order 2
   N 1: Set and SET both reallocate (no index panic) and copy the Hessian *)
Definition st_setord : St (A := Z) :=
  fun k => match k with O => mkReg K64 1 1 1 [7%Z] [] | _ => mkReg K64 2 2 1 [3%Z] [[5%Z]] end.
Lemma SET_round1_witness_agrees :
  match run_generic FlZ (fun x => x) (PSet 0 1) st_setord with Ok s => Some (rorder (s 0%nat), rderiv (s 0%nat), rhess (s 0%nat)) | Panic _ => None end
    = Some (2%nat, [3%Z], [[5%Z]]) /\
  match run_concrete FlZ (fun x => x) (PSet 0 1) st_setord with Ok s => Some (rorder (s 0%nat), rderiv (s 0%nat), rhess (s 0%nat)) | Panic _ => None end
    = Some (2%nat, [3%Z], [[5%Z]]).
Proof. vm_compute. split; reflexivity. Qed.

Open Scope Z_scope.
(* a = [] (n = 1), b = [1 at 0], epsilon = 2.5: Equals says true (|0 - 1| < 2.5), EQUALS says false
   (an entry stored in only one of the vectors) *)
Definition w_eq : w3 := run3 TInt init3 [NewS [] [] 1; NewS [0] [1] 1].
Lemma sparse_EQUALS_refuted : ~ vector_interchangeable TInt true (VPequals 0 1 5).
Proof.
  intros H. specialize (H w_eq).
  assert (G : snd (step_generic TInt true w_eq (VPequals 0 1 5)) = (K_OK, [1])) by (vm_compute; reflexivity).
  assert (K : snd (step_concrete TInt true w_eq (VPequals 0 1 5)) = (K_OK, [0])) by (vm_compute; reflexivity).
  rewrite H in K. rewrite G in K. discriminate.
Qed.

(* r = a = [] (n = 2), divisor 0: the round-1 witness of the retired finding F-C09-VDIVS-ZERO.  VdivS divides every
   position (integer types: panics; float types: NaN everywhere); VDIVS had its own joint loop over the stored entries
   (nothing happened); since 5abb77d it calls VdivS: both members agree *)
Definition w_div : w3 := run3 TInt init3 [NewS [] [] 2; NewS [] [] 2].
Lemma sparse_VDIVS_zero_witness_agrees :
  fst (snd (step_generic TInt true w_div (VPdivS 0 1 0))) = K_PANIC /\
  fst (snd (step_concrete TInt true w_div (VPdivS 0 1 0))) = K_PANIC /\
  C03.Model.rd (fst (step_generic TFloat true w_div (VPdivS 0 1 0))) (RS 0) 0 = NAN /\
  C03.Model.rd (fst (step_concrete TFloat true w_div (VPdivS 0 1 0))) (RS 0) 0 = NAN.
Proof. vm_compute. repeat split; reflexivity. Qed.
