(* C09 correspondence, accessor and iterator pairs (family I) and the SOURCE SHAPE of their generic members (family S).
   CA: a world (sparse / dense vectors and matrices over small integers, built by C03.ModelM operations), a pair with
       its operands, and what Go did for BOTH members (generic member called through the interface, CONCRETE member
       by reflection, on identically built worlds): outcome kind, payload (At: the value read through the returned
       scalar; iterators: per visit the index and the element record [tag; value] of Get resp. GET, joint iterators
       also the value of s2) and a checksum of the observation of the whole world afterwards (skip() of the sparse
       iterators removes null entries; At creates entries; the write through the scalar At returned).  [check]
       replays the generic model and the concrete model of C09.ModelI and compares EACH with its own Go outcome.
   CSrc: the harness classified (go/ast) the body of the generic member of pair [pair] for a receiver type of family
       [fam] as [shape]; the model assumes [expected_shape pair fam] (ids: see C09.ModelI). *)
From Coq Require Import ZArith List Bool.
From ADV Require Import Base.Corr C11.Model C03.Model C03.ModelM C09.ModelM C09.CorrM C09.ModelI.
Import ListNotations.
Open Scope Z_scope.

Inductive icase :=
| CA (y : ty) (setup : list mop4) (p : ipair) (gout cout : out)
| CSrc (pid fam shape : nat).

Definition icheck_generic (c : icase) : bool :=
  match c with
  | CA y setup p gout _ => out_eqb (mout (istep_generic y (run4 y init4 setup) p)) gout
  | CSrc pid fam shape => Nat.eqb (expected_shape pid fam) shape
  end.
Definition icheck_concrete (c : icase) : bool :=
  match c with
  | CA y setup p _ cout => out_eqb (mout (istep_concrete y (run4 y init4 setup) p)) cout
  | CSrc pid fam shape => Nat.eqb (expected_shape pid fam) shape
  end.
Definition check (c : icase) : bool := icheck_generic c && icheck_concrete c.
Definition mism (cs : list icase) : list nat := mismatches check cs.
Definition mism2 (cs : list icase) : list nat * list nat := (mismatches icheck_generic cs, mismatches icheck_concrete cs).
