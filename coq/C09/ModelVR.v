(* C09/ModelVR.v — the REAL-ELEMENT (Real64 / Real32: value + gradient + Hessian) instance of the vector pairs
     /repo/vector_dense_real{64,32}_math.go   (template vector_dense_real_template_math.in)
        VaddV/VADDV VsubV/VSUBV VmulV/VMULV VdivV/VDIVV  VaddS/VADDS VsubS/VSUBS VmulS/VMULS VdivS/VDIVS  Equals/EQUALS
     /repo/vector_dense_real{64,32}.go        Set/SET
     /repo/vector_sparse_real{64,32}_math.go  (template vector_sparse_real_template_math.in)
        VaddV/VADDV VsubV/VSUBV VmulV/VMULV VmulS/VMULS VdivS/VDIVS (divisor <> 0 branch)
     /repo/vector_sparse_real{64,32}.go       Set/SET
   on top of the SHARED magic scalar model coq/C01/Model.v (register file St: value, Order, N, gradient and
   Hessian storage of every cell) and the concrete scalar twins of coq/C09/ModelS.v (ADD SUB MUL DIV SET NEG).

   DENSE.  type DenseReal64Vector []*Real64: a vector is the list of the register ids of its cells, position
   by position.  Two vectors sharing cells (r = a, r = b, a = b, overlapping slices of one backing array) are
   lists sharing ids; nothing is assumed about the lists.  Every method is
       n := r.Dim(); if a.Dim() != n || b.Dim() != n { panic }; for i := 0; i < a.Dim(); i++ { r.AT(i).OP(a.AT(i), b.AT(i)) }
   the generic member calling the interface method of the cell (C01's instruction), the concrete member the
   concrete twin.  A panic of an element operation ends the loop and is the outcome.

   SPARSE, at the level of VISIT SCHEDULES.  Both members walk a joint iterator (JOINT3_ITERATOR /
   JOINT3_ITERATOR_, JOINT_ITERATOR / JOINT_ITERATOR_) which delivers, visit by visit, the receiver's cell (or
   nil, then the body fetches a fresh cell r.AT(it.Index()) = NullReal64()), and the operand cells or "absent"
   (generic iterator: ConstFloat64(0.0) in place of an absent operand entry; typed iterator: nil).
   C09/ProofsJ.v proves that the typed iterators deliver the same visits as the generic ones, so a schedule
   (list of visits) is what BOTH members see; the loop bodies below are the Go texts.  The dimension check in
   front of the loops is the same text in both members and not part of a schedule.
   Not modelled here: sparse VADDS VSUBS VDIVV (the concrete member CALLS the generic one), sparse
   Equals/EQUALS (refuted in C09/ProofsRefuted.v), sparse VdivS with divisor 0 (the generic member visits
   every position, refuted there too), MdotV/VdotM.
   Carrier record Fl (Base/Fl.v) + storage rounding hook r32, as in C01.  No proofs in this file. *)
From Coq Require Import List Bool Arith.
From ADV Require Import Base.Fl C01.Model C09.ModelS.
Import ListNotations.

Inductive aop := AAdd | ASub | AMul | ADiv.

(* outcome of a vector method: the element loop ran (to the end, or into the panic of an element operation),
   or the dimension check panicked *)
Inductive vres (X : Type) := VRun (r : res X) | VDimPanic.
Arguments VRun {X}. Arguments VDimPanic {X}.

(* ---------------------------------------------------------------- the pair tables *)
Inductive vrpair :=
| VRopV (o : aop) (r a b : list nat)            (* VADDV VSUBV VMULV VDIVV *)
| VRopS (o : aop) (r a : list nat) (b : nat)    (* VADDS VSUBS VMULS VDIVS, b the scalar's register *)
| VRset (r a : list nat).                       (* SET *)

(* one visit of a joint iterator *)
Record visit := mkVisit {
  vc : nat;                 (* the receiver's cell at it.Index() *)
  vnew : option kind;       (* Some k: it.s1 was nil, the cell is the fresh NullReal64() / NullReal32() of r.AT(idx) *)
  va : option nat;          (* it.s2: the operand's cell, None = no entry *)
  vb : option nat }.        (* it.s3 (three-vector iterators only) *)
Inductive spair_kind :=
| SAddV | SSubV | SMulV              (* JOINT3_ITERATOR(a, b) *)
| SMulS (b : nat) | SDivS (b : nat)  (* JOINT_ITERATOR(a), scalar register b; SDivS: the branch b <> 0 of VdivS *)
| SSetV.                             (* JOINT_ITERATOR(x) *)

Section ModelVR.
Context {A : Type} (F : Fl A) (r32 : A -> A).
Notation St := (St (A := A)).
Notation zero := (zero F).

(* v[i] *)
Definition cell (v : list nat) (i : nat) : nat := nth i v 0.

(* for i := 0; i < n; i++ { body(i) } on the register file; a panic ends it *)
Fixpoint for_loop (body : nat -> St -> res St) (is : list nat) (s : St) : res St :=
  match is with
  | [] => Ok s
  | i :: rest => match body i s with Ok s' => for_loop body rest s' | Panic e => Panic e end
  end.
Definition for_range (n : nat) (body : nat -> St -> res St) (s : St) : res St := for_loop body (seq 0 n) s.

(* --------------------------------------------------------------------- dense, generic members *)
(* r.AT(i).Add(x, y) etc. through the ConstScalar interface: C01's instruction *)
Definition op_generic (o : aop) (c : nat) (x y : opd A) : St -> res St :=
  match o with
  | AAdd => exec F r32 (IDy OAdd c x y) | ASub => exec F r32 (IDy OSub c x y)
  | AMul => exec F r32 (IDy OMul c x y) | ADiv => exec F r32 (IDy ODiv c x y)
  end.
(* func (r DenseReal64Vector) VaddV(a, b ConstVector) Vector  (VsubV VmulV VdivV) *)
Definition RVopV (o : aop) (r a b : list nat) (s : St) : vres St :=
  let n := length r in
  if negb (Nat.eqb (length a) n) || negb (Nat.eqb (length b) n) then VDimPanic else
  VRun (for_range (length a) (fun i => op_generic o (cell r i) (Rg (cell a i)) (Rg (cell b i))) s).
(* func (r DenseReal64Vector) VaddS(a ConstVector, b ConstScalar) Vector  (VsubS VmulS VdivS) *)
Definition RVopS (o : aop) (r a : list nat) (b : nat) (s : St) : vres St :=
  let n := length r in
  if negb (Nat.eqb (length a) n) then VDimPanic else
  VRun (for_range (length a) (fun i => op_generic o (cell r i) (Rg (cell a i)) (Rg b)) s).
(* func (v DenseReal64Vector) Set(w ConstVector) *)
Definition RVSet (v w : list nat) (s : St) : vres St :=
  if negb (Nat.eqb (length v) (length w)) then VDimPanic else
  VRun (for_range (length w) (fun i => exec F r32 (ISet (cell v i) (Rg (cell w i)))) s).

(* --------------------------------------------------------------------- dense, concrete members *)
Definition OP_concrete (o : aop) (c x y : nat) : St -> res St :=
  match o with
  | AAdd => ADD F r32 c x y | ASub => SUB F r32 c x y | AMul => MUL F r32 c x y | ADiv => DIV F r32 c x y
  end.
(* func (r DenseReal64Vector) VADDV(a, b DenseReal64Vector) DenseReal64Vector  (VSUBV VMULV VDIVV) *)
Definition RVOPV (o : aop) (r a b : list nat) (s : St) : vres St :=
  let n := length r in
  if negb (Nat.eqb (length a) n) || negb (Nat.eqb (length b) n) then VDimPanic else
  VRun (for_range (length a) (fun i => OP_concrete o (cell r i) (cell a i) (cell b i)) s).
(* func (r DenseReal64Vector) VADDS(a DenseReal64Vector, b *Real64) DenseReal64Vector  (VSUBS VMULS VDIVS) *)
Definition RVOPS (o : aop) (r a : list nat) (b : nat) (s : St) : vres St :=
  let n := length r in
  if negb (Nat.eqb (length a) n) then VDimPanic else
  VRun (for_range (length a) (fun i => OP_concrete o (cell r i) (cell a i) b) s).
(* func (v DenseReal64Vector) SET(w DenseReal64Vector) *)
Definition RVSET (v w : list nat) (s : St) : vres St :=
  if negb (Nat.eqb (length v) (length w)) then VDimPanic else
  VRun (for_range (length w) (fun i => SET F r32 (cell v i) (cell w i)) s).

Definition vr_generic (p : vrpair) : St -> vres St :=
  match p with
  | VRopV o r a b => RVopV o r a b | VRopS o r a b => RVopS o r a b | VRset r a => RVSet r a
  end.
Definition vr_concrete (p : vrpair) : St -> vres St :=
  match p with
  | VRopV o r a b => RVOPV o r a b | VRopS o r a b => RVOPS o r a b | VRset r a => RVSET r a
  end.

(* dense Equals / EQUALS: for i { if !a.AT(i).EQUALS(b.AT(i), epsilon) { return false } }; return true
   (a predicate: no register changes; None = the dimension panic) *)
Fixpoint all_range (f : nat -> bool) (is : list nat) : bool :=
  match is with [] => true | i :: rest => if negb (f i) then false else all_range f rest end.
Definition RVEquals (a b : list nat) (eps : A) (s : St) : option bool :=
  if negb (Nat.eqb (length a) (length b)) then None else
  Some (all_range (fun i => g_equals F s (cell a i) (Rg (cell b i)) eps) (seq 0 (length a))).
Definition RVEQUALS (a b : list nat) (eps : A) (s : St) : option bool :=
  if negb (Nat.eqb (length a) (length b)) then None else
  Some (all_range (fun i => EQUALS F s (cell a i) (cell b i) eps) (seq 0 (length a))).

(* --------------------------------------------------------------------- sparse loop bodies *)
(* if s_r == nil { s_r = r.AT(it.Index()) }: the fresh cell is NullReal64() (value 0, Order 0, N 0) *)
Definition fetch (v : visit) (s : St) : St :=
  match vnew v with Some k => upd s (vc v) (null_reg F k) | None => s end.
(* what the generic iterator hands out for an operand: the cell, or ConstFloat64(0.0) *)
Definition arg (o : option nat) : opd A := match o with Some i => Rg i | None => Im zero end.

(* generic: s_r.Add(s_a, s_b) / Sub / Mul; s_r.Mul(s_a, b) / Div; Set: with Get() the operand is never nil,
   so the three cases of the switch collapse to s1.Set(s2) resp. obj.AT(idx).Set(s2) *)
Definition body_generic (k : spair_kind) (v : visit) (s : St) : res St :=
  let s := fetch v s in
  let c := vc v in
  match k with
  | SAddV => exec F r32 (IDy OAdd c (arg (va v)) (arg (vb v))) s
  | SSubV => exec F r32 (IDy OSub c (arg (va v)) (arg (vb v))) s
  | SMulV => exec F r32 (IDy OMul c (arg (va v)) (arg (vb v))) s
  | SMulS b => exec F r32 (IDy OMul c (arg (va v)) (Rg b)) s
  | SDivS b => exec F r32 (IDy ODiv c (arg (va v)) (Rg b)) s
  | SSetV => exec F r32 (ISet c (arg (va v))) s
  end.

(* concrete: the switch over nil operand cells.  SetFloat64 has no twin (shared method: C01's ISetF). *)
Definition setzero (c : nat) : St -> res St := exec F r32 (ISetF c zero).
Definition body_concrete (k : spair_kind) (v : visit) (s : St) : res St :=
  let s := fetch v s in
  let c := vc v in
  match k with
  | SAddV =>
      match va v, vb v with
      | None, None => setzero c s                  (* case s_a == nil && s_b == nil: s_r.SetFloat64(0.0) *)
      | Some a, None => SET F r32 c a s            (* case s_b == nil: s_r.SET(s_a) *)
      | None, Some b => SET F r32 c b s            (* case s_a == nil: s_r.SET(s_b) *)
      | Some a, Some b => ADD F r32 c a b s        (* default: s_r.ADD(s_a, s_b) *)
      end
  | SSubV =>
      match va v, vb v with
      | None, None => setzero c s
      | Some a, None => SET F r32 c a s
      | None, Some b => bind (SET F r32 c b s) (NEG F r32 c c)   (* s_r.SET(s_b); s_r.NEG(s_r) *)
      | Some a, Some b => SUB F r32 c a b s
      end
  | SMulV =>
      match va v, vb v with
      | Some a, Some b => MUL F r32 c a b s        (* default *)
      | _, _ => setzero c s                        (* case s_a == nil || s_b == nil *)
      end
  | SMulS b => match va v with None => setzero c s | Some a => MUL F r32 c a b s end
  (* VDIVS is { r.VdivS(a, b); return r } since 5abb77d: the generic body *)
  | SDivS b => exec F r32 (IDy ODiv c (arg (va v)) (Rg b)) s
  | SSetV =>
      match vnew v, va v with
      | None, Some a => SET F r32 c a s            (* case s1 != nil && s2 != nil: s1.SET(s2) *)
      | None, None => setzero c s                  (* case s1 != nil: s1.SetFloat64(0) *)
      | Some _, Some a => SET F r32 c a s          (* default: obj.AT(it.Index()).SET(s2) *)
      | Some _, None => Panic EIndex               (* nil dereference; never visited: Ok() is s1 != nil || s2 != nil *)
      end
  end.

Fixpoint visits (body : visit -> St -> res St) (sch : list visit) (s : St) : res St :=
  match sch with
  | [] => Ok s
  | v :: rest => match body v s with Ok s' => visits body rest s' | Panic e => Panic e end
  end.
Definition vs_generic (k : spair_kind) : list visit -> St -> res St := visits (body_generic k).
Definition vs_concrete (k : spair_kind) : list visit -> St -> res St := visits (body_concrete k).

(* every operand cell the kind looks at is present *)
Definition visit_present (k : spair_kind) (v : visit) : Prop :=
  match k with
  | SAddV | SSubV | SMulV => va v <> None /\ vb v <> None
  | SMulS _ | SSetV => va v <> None
  | SDivS _ => True                               (* VDIVS calls VdivS *)
  end.

End ModelVR.
