(* C09/ProofsM.v — dense matrix pairs: the nested `for i { for j { r.AT(i,j).OP(..) } }` loops of the concrete twins
   (C09.ModelM, positions through the translated header kernel index) equal the generic members of C03.ModelM
   (linear row-major loop dmloop) on every well-formed world, all alias patterns. *)
From Coq Require Import ZArith List Bool Lia.
From ADV Require Import C11.Model C03.Model C03.ModelM C10.Gen C09.ModelM.
Import ListNotations.
Open Scope Z_scope.

Lemma upd_len {X} (x : X) : forall l n, length (upd n x l) = length l.
Proof. induction l; destruct n; cbn; auto. Qed.
Lemma nth_upd_same {X} (x d : X) : forall l n, (n < length l)%nat -> nth n (upd n x l) d = x.
Proof. induction l; destruct n; cbn; intros; try lia; auto. apply IHl. lia. Qed.
Lemma nth_upd_other {X} (x d : X) : forall l n m, n <> m -> nth m (upd n x l) d = nth m l d.
Proof. induction l; destruct n, m; cbn; intros; try congruence; auto. Qed.
Lemma upd_oob {X} (x : X) : forall l n, (length l <= n)%nat -> upd n x l = l.
Proof. induction l; destruct n; cbn; intros; try lia; auto. f_equal. apply IHl. lia. Qed.

(* a dense matrix handle with its shape *)
Definition shape (w : w4) (k : nat) (n m : Z) : Prop := exists d, getdm w k = (d, n, m) /\ zlen d = n * m.

Lemma b3_setdm w r l : b3 (setdm w r l) = b3 w.
Proof. unfold setdm. destruct (getdm w r) as [[? ?] ?]. reflexivity. Qed.
Lemma getdm_setdm_other w r l k : k <> r -> getdm (setdm w r l) k = getdm w k.
Proof.
  intros H. unfold setdm. destruct (getdm w r) as [[d0 n0] m0]. unfold getdm. cbn.
  apply nth_upd_other. congruence.
Qed.
Lemma getdm_setdm_same w r l d n m :
  getdm w r = (d, n, m) -> length l = length d -> exists d', getdm (setdm w r l) r = (d', n, m) /\ length d' = length d.
Proof.
  intros H Hl. unfold setdm. rewrite H. unfold getdm in *. cbn.
  destruct (Nat.ltb r (length (dms w))) eqn:E.
  - apply Nat.ltb_lt in E. rewrite nth_upd_same by exact E. eauto.
  - apply Nat.ltb_ge in E. rewrite upd_oob by exact E. rewrite H. eauto.
Qed.
Lemma dvals_setdm_same_in w r l : (r < length (dms w))%nat -> dvals (setdm w r l) r = l.
Proof.
  intros E. unfold dvals, setdm. destruct (getdm w r) as [[d0 n0] m0]. unfold getdm. cbn.
  rewrite nth_upd_same by exact E. reflexivity.
Qed.
Lemma shape_setdm w r p x k n m n' m' :
  shape w r n' m' -> shape w k n m -> shape (setdm w r (upd p x (dvals w r))) k n m.
Proof.
  intros [dr [Hr Lr]] [d [Hk Lk]].
  destruct (Nat.eq_dec k r) as [->|N].
  - rewrite Hr in Hk. inversion Hk; subst.
    destruct (getdm_setdm_same w r (upd p x (dvals w r)) d n m Hr) as [d' [G L]].
    { unfold dvals. rewrite Hr. apply upd_len. }
    exists d'. split; [exact G|]. unfold zlen in *. rewrite L. exact Lk.
  - exists d. rewrite getdm_setdm_other by exact N. auto.
Qed.

Lemma AT_shape w k n m i j : shape w k n m -> 0 <= i < n -> 0 <= j < m -> AT w k i j = Some (i * m + j).
Proof.
  intros [d [H L]] Hi Hj. unfold AT, hdr, dvals, DenseP.index. rewrite H. cbn.
  rewrite !Z.geb_leb.
  destruct (i <? 0) eqn:E1; [apply Z.ltb_lt in E1; lia|].
  destruct (j <? 0) eqn:E2; [apply Z.ltb_lt in E2; lia|].
  destruct (n <=? i) eqn:E3; [apply Z.leb_le in E3; lia|].
  destruct (m <=? j) eqn:E4; [apply Z.leb_le in E4; lia|]. cbn.
  replace ((0 + i) * m + (0 + j)) with (i * m + j) by lia.
  destruct (0 <=? i * m + j) eqn:E5; [|apply Z.leb_gt in E5; nia].
  destruct (i * m + j <? zlen d) eqn:E6; [reflexivity|apply Z.ltb_ge in E6; nia].
Qed.
Lemma ATv_shape w k n m i j : shape w k n m -> 0 <= i < n -> 0 <= j < m ->
  ATv w k i j = Some (mrd w (XD k) (i * m + j)).
Proof.
  intros S Hi Hj. unfold ATv. rewrite (AT_shape w k n m i j S Hi Hj).
  destruct S as [d [H L]]. unfold mrd, mop, dvals. rewrite H. reflexivity.
Qed.

Section Lin.
Variables (r : nat) (n m : Z) (ks : list nat).
Variable P : w4 -> Prop.                    (* what else the body reads: preserved by writes to r *)
Hypothesis HP : forall w l, P w -> P (setdm w r l).
Variable val : w4 -> Z -> Z -> option Z.
Variable g : w4 -> Z -> option Z.
Definition Inv (w : w4) : Prop := 0 <= n /\ 0 <= m /\ (forall k, In k (r :: ks) -> shape w k n m) /\ P w.
Hypothesis Hval : forall w i j, Inv w -> 0 <= i < n -> 0 <= j < m -> val w i j = g w (i * m + j).

Lemma Inv_setdm w p x : Inv w -> Inv (setdm w r (upd p x (dvals w r))).
Proof.
  intros (Hn & Hm & Hs & Hp). repeat split; auto.
  intros k Hk. apply shape_setdm with (n' := n) (m' := m); [apply Hs; left; reflexivity|apply Hs; exact Hk].
Qed.

Lemma dmloop_step w k c :
  dmloop g (S c) k w r =
  match g w k with None => (w, false) | Some x => dmloop g c (k + 1) (setdm w r (upd (Z.to_nat k) x (dvals w r))) r end.
Proof. cbn. destruct (g w k); [|reflexivity]. unfold dvals. destruct (getdm w r) as [[d ?] ?]. reflexivity. Qed.

Lemma for_j_lin : forall cnt i j w, Inv w -> 0 <= i < n -> 0 <= j -> j + Z.of_nat cnt <= m ->
  for_j (put_body r val) cnt i j w = dmloop g cnt (i * m + j) w r.
Proof.
  induction cnt as [|c IH]; intros i j w HI Hi Hj Hc; [reflexivity|].
  rewrite dmloop_step. cbn [for_j]. unfold put_body at 1.
  destruct HI as (Hn & Hm & Hs & Hp).
  rewrite (AT_shape w r n m i j) by (try apply Hs; try (left; reflexivity); lia).
  rewrite Hval by (repeat split; auto; lia).
  destruct (g w (i * m + j)) as [z|]; [|reflexivity].
  rewrite IH; try lia.
  - f_equal. lia.
  - apply Inv_setdm. repeat split; auto.
Qed.

Lemma dmloop_Inv : forall cnt k w w' ok, Inv w -> dmloop g cnt k w r = (w', ok) -> Inv w'.
Proof.
  induction cnt as [|c IH]; intros k w w' ok HI H.
  - cbn in H. inversion H; subst. exact HI.
  - rewrite dmloop_step in H. destruct (g w k) as [x|].
    + eapply IH; [|exact H]. apply Inv_setdm. exact HI.
    + inversion H; subst. exact HI.
Qed.
Lemma dmloop_app : forall a b k w,
  dmloop g (a + b) k w r =
  let '(w', ok) := dmloop g a k w r in if ok then dmloop g b (k + Z.of_nat a) w' r else (w', false).
Proof.
  induction a as [|a IH]; intros b k w.
  - cbn. f_equal. lia.
  - replace (S a + b)%nat with (S (a + b)) by lia. rewrite !dmloop_step.
    destruct (g w k) as [x|]; [|reflexivity].
    rewrite IH. destruct (dmloop g a (k + 1) _ r) as [w' ok]. destruct ok; [|reflexivity]. f_equal. lia.
Qed.

Lemma for_i_lin : forall cnt i w, Inv w -> 0 <= i -> i + Z.of_nat cnt <= n ->
  for_i (put_body r val) cnt (Z.to_nat m) i w = dmloop g (cnt * Z.to_nat m) (i * m) w r.
Proof.
  induction cnt as [|c IH]; intros i w HI Hi Hc; [reflexivity|].
  cbn [for_i]. replace (S c * Z.to_nat m)%nat with (Z.to_nat m + c * Z.to_nat m)%nat by lia.
  rewrite dmloop_app.
  assert (Hm : 0 <= m) by (destruct HI as (_ & Hm & _); exact Hm).
  rewrite for_j_lin by (auto; try lia; rewrite Z2Nat.id; lia).
  replace (i * m + 0) with (i * m) by lia.
  destruct (dmloop g (Z.to_nat m) (i * m) w r) as [w' ok] eqn:E.
  destruct ok; [|reflexivity].
  rewrite IH; try lia.
  - f_equal. rewrite Z2Nat.id by lia. lia.
  - eapply dmloop_Inv; [exact HI|exact E].
Qed.

Lemma nested_is_linear w : Inv w ->
  for_i (put_body r val) (Z.to_nat n) (Z.to_nat m) 0 w = dmloop g (Z.to_nat (n * m)) 0 w r.
Proof.
  intros HI. destruct HI as (Hn & Hm & Hs & Hp).
  assert (HI : Inv w) by (repeat split; auto).
  rewrite (for_i_lin (Z.to_nat n) 0 w HI (Z.le_refl 0)) by (rewrite Z2Nat.id; lia).
  f_equal. rewrite Z2Nat.inj_mul by lia. reflexivity.
Qed.
End Lin.

(* ------------------------------------------------------------------ the pairs *)
Lemma wfdm_shape w k : wfdm w -> shape w k (fst (mdims w (XD k))) (snd (mdims w (XD k))).
Proof.
  intros W. specialize (W k). unfold shape, mdims. destruct (getdm w k) as [[d n] m]. cbn.
  exists d. split; [reflexivity|tauto].
Qed.
Lemma wfdm_nonneg w k : wfdm w -> 0 <= fst (mdims w (XD k)) /\ 0 <= snd (mdims w (XD k)).
Proof. intros W. specialize (W k). unfold mdims. destruct (getdm w k) as [[d n] m]. cbn. tauto. Qed.

Lemma eqb_pair_dims (n1 m1 n m : Z) : dims_eqb (n1, m1) (n, m) = (n1 =? n) && (m1 =? m).
Proof. reflexivity. Qed.

(* MADDM MSUBM MMULM MDIVM *)
Lemma MOPM_generic (f : Z -> Z -> option Z) w r a b : wfdm w ->
  MOPM f w r a b = dmop (fun w' k => f (mrd w' (XD a) k) (mrd w' (XD b) k)) w r [XD a; XD b].
Proof.
  intros W. unfold MOPM, dmop.
  pose proof (wfdm_shape w r W) as Sr. pose proof (wfdm_shape w a W) as Sa. pose proof (wfdm_shape w b W) as Sb.
  pose proof (wfdm_nonneg w r W) as [Nn Nm].
  destruct (mdims w (XD r)) as [n m] eqn:Dr. destruct (mdims w (XD a)) as [n1 m1] eqn:Da.
  destruct (mdims w (XD b)) as [n2 m2] eqn:Db. cbn [fst snd forallb] in *.
  rewrite ?Da, ?Db. rewrite !eqb_pair_dims.
  destruct (n1 =? n) eqn:E1; [|reflexivity]. destruct (m1 =? m) eqn:E2; [|reflexivity].
  destruct (n2 =? n) eqn:E3; [|reflexivity]. destruct (m2 =? m) eqn:E4; [|reflexivity].
  apply Z.eqb_eq in E1, E2, E3, E4. subst. cbn [negb andb].
  rewrite (nested_is_linear r n m [a; b] (fun _ => True) (fun _ _ _ => I) _
             (fun w' k => f (mrd w' (XD a) k) (mrd w' (XD b) k))).
  - unfold fin. destruct (dmloop _ _ _ _ _) as [w' ok]. reflexivity.
  - intros w' i j (Hn & Hm & Hs & _) Hi Hj.
    rewrite (ATv_shape w' a n m i j), (ATv_shape w' b n m i j); auto; apply Hs; cbn; auto.
  - repeat split; auto. intros k [<-|[<-|[<-|[]]]]; assumption.
Qed.

(* MADDS MSUBS MMULS MDIVS *)
Lemma MOPS_generic (f : Z -> Z -> option Z) w r a c : wfdm w ->
  MOPS f w r a c = dmop (fun w' k => f (mrd w' (XD a) k) c) w r [XD a].
Proof.
  intros W. unfold MOPS, dmop.
  pose proof (wfdm_shape w r W) as Sr. pose proof (wfdm_shape w a W) as Sa.
  pose proof (wfdm_nonneg w r W) as [Nn Nm].
  destruct (mdims w (XD r)) as [n m] eqn:Dr. destruct (mdims w (XD a)) as [n1 m1] eqn:Da.
  cbn [fst snd forallb] in *. rewrite ?Da. rewrite !eqb_pair_dims.
  destruct (n1 =? n) eqn:E1; [|reflexivity]. destruct (m1 =? m) eqn:E2; [|reflexivity].
  apply Z.eqb_eq in E1, E2. subst. cbn [negb andb].
  rewrite (nested_is_linear r n m [a] (fun _ => True) (fun _ _ _ => I) _ (fun w' k => f (mrd w' (XD a) k) c)).
  - unfold fin. destruct (dmloop _ _ _ _ _) as [w' ok]. reflexivity.
  - intros w' i j (Hn & Hm & Hs & _) Hi Hj.
    rewrite (ATv_shape w' a n m i j); auto; apply Hs; cbn; auto.
  - repeat split; auto. intros k [<-|[<-|[]]]; assumption.
Qed.

(* OUTER *)
Lemma VAT_in w k i : 0 <= i < zlen (getd (b3 w) k) -> VAT w k i = Some (vrd w (RD k) i).
Proof.
  intros H. unfold VAT, vrd, rd.
  destruct (0 <=? i) eqn:E1; [|apply Z.leb_gt in E1; lia].
  destruct (i <? zlen (getd (b3 w) k)) eqn:E2; [reflexivity|apply Z.ltb_ge in E2; lia].
Qed.
Lemma OUTER_generic y w r a b : wfdm w ->
  OUTER w r a b = step4 y w (MOuter (XD r) (RD a) (RD b)).
Proof.
  intros W. unfold OUTER. cbn [step4].
  pose proof (wfdm_shape w r W) as Sr. pose proof (wfdm_nonneg w r W) as [Nn Nm].
  unfold mdims in *. destruct (getdm w r) as [[d n] m] eqn:G. cbn [fst snd] in *.
  unfold vlen, vdim.
  destruct ((zlen (getd (b3 w) a) =? n) && (zlen (getd (b3 w) b) =? m)) eqn:E; [|reflexivity].
  apply andb_true_iff in E as [Ea Eb]. apply Z.eqb_eq in Ea, Eb. cbn [negb].
  rewrite (nested_is_linear r n m [] (fun w' => b3 w' = b3 w) (fun w' l H => eq_trans (b3_setdm w' r l) H) _
             (fun w' i => Some (vrd w' (RD a) (i / m) * vrd w' (RD b) (i mod m)))).
  - unfold fin. destruct (dmloop _ _ _ _ _) as [w' ok]. reflexivity.
  - intros w' i j (Hn & Hm & Hs & Hb) Hi Hj.
    assert (Q : (i * m + j) / m = i) by (symmetry; apply Z.div_unique with j; lia).
    assert (R : (i * m + j) mod m = j) by (symmetry; apply Z.mod_unique with i; lia).
    rewrite Q, R. rewrite !VAT_in by (rewrite Hb; lia). reflexivity.
  - repeat split; auto. intros k [<-|[]]. exact Sr.
Qed.

(* EQUALS *)
Lemma eq_j_lin e2 a b w n m : shape w a n m -> shape w b n m ->
  forall cnt i j, 0 <= i < n -> 0 <= j -> j + Z.of_nat cnt <= m ->
  eq_j e2 a b w cnt i j =
  Some (forallb (fun k => close e2 (mrd w (XD a) k) (mrd w (XD b) k)) (zseq (i * m + j) cnt)).
Proof.
  intros Sa Sb. induction cnt as [|c IH]; intros i j Hi Hj Hc; [reflexivity|].
  cbn [eq_j zseq forallb]. rewrite (ATv_shape w a n m i j), (ATv_shape w b n m i j) by (auto; lia).
  destruct (close e2 _ _); [|reflexivity]. rewrite IH by lia. cbn. do 3 f_equal. lia.
Qed.
Lemma zseq_app : forall a s b, zseq s (a + b) = zseq s a ++ zseq (s + Z.of_nat a) b.
Proof.
  induction a as [|a IH]; intros s b.
  - cbn. f_equal. lia.
  - replace (S a + b)%nat with (S (a + b)) by lia. cbn [zseq app]. f_equal. rewrite IH. do 2 f_equal. lia.
Qed.
Lemma eq_i_lin e2 a b w n m : 0 <= m -> shape w a n m -> shape w b n m ->
  forall cnt i, 0 <= i -> i + Z.of_nat cnt <= n ->
  eq_i e2 a b w cnt (Z.to_nat m) i =
  Some (forallb (fun k => close e2 (mrd w (XD a) k) (mrd w (XD b) k)) (zseq (i * m) (cnt * Z.to_nat m))).
Proof.
  intros Hm Sa Sb. induction cnt as [|c IH]; intros i Hi Hc; [reflexivity|].
  cbn [eq_i]. rewrite (eq_j_lin e2 a b w n m Sa Sb) by (try lia; rewrite Z2Nat.id; lia).
  replace (S c * Z.to_nat m)%nat with (Z.to_nat m + c * Z.to_nat m)%nat by lia.
  rewrite zseq_app, forallb_app. replace (i * m + 0) with (i * m) by lia.
  destruct (forallb _ (zseq (i * m) (Z.to_nat m))); [|reflexivity].
  rewrite IH by lia. cbn. do 3 f_equal. rewrite Z2Nat.id by lia. lia.
Qed.
Lemma forallb_ext' {X} (f g : X -> bool) : (forall x, f x = g x) -> forall l, forallb f l = forallb g l.
Proof. intros H. induction l; cbn; [reflexivity|]. rewrite H, IHl. reflexivity. Qed.
Lemma MEQUALS_generic y e2 w a b : wfdm w ->
  MEQUALS e2 w a b = step4 y w (MEquals (XD a) (XD b) e2).
Proof.
  intros W. unfold MEQUALS. cbn [step4].
  pose proof (wfdm_shape w a W) as Sa. pose proof (wfdm_shape w b W) as Sb.
  pose proof (wfdm_nonneg w a W) as [Nn Nm].
  destruct (mdims w (XD a)) as [n1 m1] eqn:Da. destruct (mdims w (XD b)) as [n2 m2] eqn:Db.
  cbn [fst snd] in *.
  assert (G : exists d, getdm w a = (d, n1, m1) /\ zlen d = n1 * m1) by exact Sa.
  destruct G as [d [G L]]. rewrite G. rewrite eqb_pair_dims.
  rewrite (Z.eqb_sym n1 n2), (Z.eqb_sym m1 m2).
  destruct (n2 =? n1) eqn:E1; [|reflexivity]. destruct (m2 =? m1) eqn:E2; [|reflexivity].
  apply Z.eqb_eq in E1, E2. subst. cbn [negb andb].
  rewrite (eq_i_lin e2 a b w n1 m1 Nm Sa Sb) by lia.
  replace (Z.to_nat n1 * Z.to_nat m1)%nat with (length d).
  2:{ unfold zlen in L. rewrite <- Z2Nat.inj_mul by lia. rewrite <- L. rewrite Nat2Z.id. reflexivity. }
  do 4 f_equal. apply forallb_ext'. intros k. unfold mrd at 1. unfold mop. rewrite G. reflexivity.
Qed.

(* ------------------------------------------------------------------ all element-wise pairs *)
Definition mpair_proved (p : mpair) : Prop :=
  match p with MPdotM _ _ _ | MPdotV _ _ _ | MPVdotM _ _ _ => False | _ => True end.
Lemma matrix_pairs_agree y w p : wfdm w -> mpair_proved p -> mstep_concrete y w p = mstep_generic y w p.
Proof.
  intros W Hp. destruct p; try contradiction; unfold mstep_concrete, mstep_generic, mgeneric_op; cbn [step4].
  - apply MOPM_generic. exact W.
  - apply MOPM_generic. exact W.
  - rewrite MOPS_generic by exact W. reflexivity.
  - rewrite MOPS_generic by exact W. reflexivity.
  - rewrite MOPS_generic by exact W. reflexivity.
  - rewrite MOPS_generic by exact W. reflexivity.
  - apply (MEQUALS_generic y). exact W.
  - apply (OUTER_generic y). exact W.
Qed.

(* ------------------------------------------------------------------ F-C09-MDOTV-INT *)
(* a = [[94906267]], b = [94906267]: the exact product 9007199515875289 > 2^53 is rounded to an even number by the
   float64 multiplication of the generic MdotV; the concrete MDOTV keeps it *)
Lemma MDOTV_int_refuted :
  mdotv_int_generic 1 1 [94906267] [94906267] = [Some 9007199515875288] /\
  mdotv_int_concrete 1 1 [94906267] [94906267] = [9007199515875289].
Proof. vm_compute. split; reflexivity. Qed.
(* where every operand and product stays below 2^53 (and the sums in range) both members agree: one row *)
Lemma round53_small z : Z.abs z < 2 ^ 53 -> round53 z = z.
Proof.
  intros H. unfold round53. destruct (Z.eq_dec z 0) as [->|N]; [reflexivity|].
  assert (L : Z.log2 (Z.abs z) < 53) by (apply Z.log2_lt_pow2; lia).
  destruct (Z.log2 (Z.abs z) - 52 <=? 0) eqn:E; [reflexivity|apply Z.leb_gt in E; lia].
Qed.
