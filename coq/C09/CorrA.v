(* C09 correspondence, vector-scalar pairs with the scalar operand passed BY REFERENCE (family A).  A case holds the
   world (sparse or dense vectors over small integers, built by C03.Model operations), the pair with its scalar
   operand as the caller writes it ([AVal c]: a scalar of its own, [AElem x i]: x.At(i) — an element of the receiver,
   of the other operand, of a third vector), and what Go did for BOTH members (generic method and CONCRETE twin called
   by reflection on identically built worlds, the reference obtained through the library's own At): outcome kind and
   a checksum of the observation of the whole world.  [check] replays the generic model and the concrete model of
   C09.ModelVA and compares EACH with its Go outcome.  [cached_differs]: the cases on which a twin that reads the
   scalar once before the loop (ModelVA.stepA_cached) would NOT reproduce what the concrete Go member did — the
   cases that decide the re-reading (reported as a count in the evidence). *)
From Coq Require Import ZArith List Bool.
From ADV Require Import Base.Corr C11.Model C03.Model C09.ModelV C09.ModelVA.
Import ListNotations.
Open Scope Z_scope.

Definition out := (Z * list Z * Z)%type.
Definition out_eqb (a b : out) : bool :=
  let '(k1, p1, h1) := a in
  let '(k2, p2, h2) := b in
  (k1 =? k2) && list_eqb Z.eqb p1 p2 && (h1 =? h2).
Definition vout (r : w3 * (Z * list Z)) : out := let '(w, (k, p)) := r in (k, p, hash (obs3 w)).

Inductive acase := CA (y : ty) (sp : bool) (setup : list op3) (p : apair) (gout cout : out).

Definition check_generic (c : acase) : bool :=
  match c with CA y sp setup p gout _ => out_eqb (vout (stepA_generic y sp (run3 y init3 setup) p)) gout end.
Definition check_concrete (c : acase) : bool :=
  match c with CA y sp setup p _ cout => out_eqb (vout (stepA_concrete y sp (run3 y init3 setup) p)) cout end.
Definition check (c : acase) : bool := check_generic c && check_concrete c.
Definition mism (cs : list acase) : list nat := mismatches check cs.
Definition mism2 (cs : list acase) : list nat * list nat := (mismatches check_generic cs, mismatches check_concrete cs).
Definition cached_ok (c : acase) : bool :=
  match c with CA y sp setup p _ cout => out_eqb (vout (stepA_cached y sp (run3 y init3 setup) p)) cout end.
Definition cached_differs (cs : list acase) : list nat := mismatches cached_ok cs.
