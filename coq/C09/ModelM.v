(* C09/ModelM.v — the CONCRETE-typed twins of the dense matrix methods and of the dense matrix/vector products
     /repo/matrix_dense_template_math.in   EQUALS MADDM MADDS MSUBM MSUBS MMULM MMULS MDIVM MDIVS MDOTM OUTER
     /repo/vector_dense_template_math.in   MDOTV VDOTM
   modelled as they are coded (separate textual bodies: `for i { for j { r.AT(i, j).ADD(a.AT(i, j), b.AT(i, j)) } }`,
   every element reached through AT = &values[index(i, j)] with the header kernel [index] that coq/C10/Gen.v
   regenerates from the Go source, typed operands = dense handles) on the SHARED matrix world coq/C03/ModelM.v
   (w4: dense matrices are row-major value lists with their dimensions, neither sliced nor transposed; equal
   handles = the same object).  The GENERIC members of the pairs are the operations of C03.ModelM.step4 on dense
   references (imported, not forked).  Element carrier Z as there.
   Integer element types: the generic MdotV / VdotM multiply in float64 (t = a.Float64At(i,j) * b.Float64At(j);
   r.AT(i).Add(r.AT(i), ConstFloat64(t))), the concrete twins in the element type — both are written out below
   on exact integers with the binary64 rounding and the int64 wrap-around explicit (F-C09-MDOTV-INT).
   No proofs in this file. *)
From Coq Require Import ZArith List Bool Lia.
From ADV Require Import C11.Model C03.Model C03.ModelM C10.Gen.
Import ListNotations.
Open Scope Z_scope.

(* ------------------------------------------------------------------ element access *)
(* the header of handle k: NewDense..Matrix(values, rows, cols) — no offsets, not transposed *)
Definition hdr (w : w4) (k : nat) : DenseMatrix nat :=
  let '(_, r, c) := getdm w k in mkDense k r c 0 r 0 c false.
Definition dvals (w : w4) (k : nat) : list Z := let '(d, _, _) := getdm w k in d.
(* m.AT(i, j) = Float64{&m.values[m.index(i, j)]}: the position of the cell; None = panic (index() or slice bounds) *)
Definition AT (w : w4) (k : nat) (i j : Z) : option Z :=
  match DenseP.index (hdr w k) i j with
  | Some p => if (0 <=? p) && (p <? zlen (dvals w k)) then Some p else None
  | None => None
  end.
Definition ATv (w : w4) (k : nat) (i j : Z) : option Z :=
  match AT w k i j with Some p => Some (nth (Z.to_nat p) (dvals w k) 0) | None => None end.
(* v.AT(i) of a dense vector = Float64{&v[i]} *)
Definition VAT (w : w4) (k : nat) (i : Z) : option Z :=
  let d := getd (b3 w) k in
  if (0 <=? i) && (i <? zlen d) then Some (nth (Z.to_nat i) d 0) else None.

(* ------------------------------------------------------------------ for i { for j { body } } *)
Section Loop.
Variable body : w4 -> Z -> Z -> option w4.      (* one execution of the loop body; None = panic *)
Fixpoint for_j (cnt : nat) (i j : Z) (w : w4) : w4 * bool :=
  match cnt with
  | O => (w, true)
  | S c => match body w i j with None => (w, false) | Some w' => for_j c i (j + 1) w' end
  end.
Fixpoint for_i (cnt m : nat) (i : Z) (w : w4) : w4 * bool :=
  match cnt with
  | O => (w, true)
  | S c => let '(w', ok) := for_j m i 0 w in if ok then for_i c m (i + 1) w' else (w', false)
  end.
End Loop.
Definition fin (r : w4 * bool) : w4 * (Z * list Z) := let '(w, ok) := r in (w, (if ok then K_OK else K_PANIC, [])).

(* r.AT(i, j).OP(x, y): the receiver cell first (as Go evaluates the receiver expression), then the operands *)
Definition put_body (r : nat) (val : w4 -> Z -> Z -> option Z) (w : w4) (i j : Z) : option w4 :=
  match AT w r i j with
  | None => None
  | Some p => match val w i j with
              | None => None
              | Some z => Some (setdm w r (upd (Z.to_nat p) z (dvals w r)))
              end
  end.
Definition two (f : Z -> Z -> option Z) (x y : option Z) : option Z :=
  match x, y with Some a, Some b => f a b | _, _ => None end.

(* MADDM MSUBM MMULM MDIVM: n, m := r.Dims(); n1, m1 := a.Dims(); n2, m2 := b.Dims(); mismatch panics *)
Definition MOPM (f : Z -> Z -> option Z) (w : w4) (r a b : nat) : w4 * (Z * list Z) :=
  let '(n, m) := mdims w (XD r) in
  let '(n1, m1) := mdims w (XD a) in
  let '(n2, m2) := mdims w (XD b) in
  if negb ((n1 =? n) && (m1 =? m) && (n2 =? n) && (m2 =? m)) then panic w else
  fin (for_i (put_body r (fun w' i j => two f (ATv w' a i j) (ATv w' b i j))) (Z.to_nat n) (Z.to_nat m) 0 w).
(* MADDS MSUBS MMULS MDIVS: the scalar operand is a bare scalar of the element type (its value c) *)
Definition MOPS (f : Z -> Z -> option Z) (w : w4) (r a : nat) (c : Z) : w4 * (Z * list Z) :=
  let '(n, m) := mdims w (XD r) in
  let '(n1, m1) := mdims w (XD a) in
  if negb ((n1 =? n) && (m1 =? m)) then panic w else
  fin (for_i (put_body r (fun w' i j => two f (ATv w' a i j) (Some c))) (Z.to_nat n) (Z.to_nat m) 0 w).
(* OUTER(a, b DenseVector): r.AT(i, j).MUL(a.AT(i), b.AT(j)) *)
Definition OUTER (w : w4) (r a b : nat) : w4 * (Z * list Z) :=
  let '(n, m) := mdims w (XD r) in
  if negb ((zlen (getd (b3 w) a) =? n) && (zlen (getd (b3 w) b) =? m)) then panic w else
  fin (for_i (put_body r (fun w' i j => two (fun x y => Some (x * y)) (VAT w' a i) (VAT w' b j))) (Z.to_nat n) (Z.to_nat m) 0 w).

(* EQUALS: if !a.AT(i, j).EQUALS(b.AT(i, j), epsilon) { return false } *)
Fixpoint eq_j (e2 : Z) (a b : nat) (w : w4) (cnt : nat) (i j : Z) : option bool :=
  match cnt with
  | O => Some true
  | S c => match ATv w a i j, ATv w b i j with
           | Some x, Some y => if close e2 x y then eq_j e2 a b w c i (j + 1) else Some false
           | _, _ => None
           end
  end.
Fixpoint eq_i (e2 : Z) (a b : nat) (w : w4) (cnt m : nat) (i : Z) : option bool :=
  match cnt with
  | O => Some true
  | S c => match eq_j e2 a b w m i 0 with
           | Some true => eq_i e2 a b w c m (i + 1)
           | r => r
           end
  end.
Definition MEQUALS (e2 : Z) (w : w4) (a b : nat) : w4 * (Z * list Z) :=
  let '(n1, m1) := mdims w (XD a) in
  let '(n2, m2) := mdims w (XD b) in
  if negb ((n1 =? n2) && (m1 =? m2)) then panic w else
  match eq_i e2 a b w (Z.to_nat n1) (Z.to_nat m1) 0 with
  | Some res => (w, (K_OK, [b2z res]))
  | None => panic w
  end.

(* MDOTM: t2 accumulates a.AT(i, k) * b.AT(k, j) over k; row buffer t3 (column buffer when r and b share storage) *)
Fixpoint dot_k (w : w4) (a b : nat) (cnt : nat) (i j k acc : Z) : option Z :=
  match cnt with
  | O => Some acc
  | S c => match ATv w a i k, ATv w b k j with
           | Some x, Some y => dot_k w a b c i j (k + 1) (acc + x * y)
           | _, _ => None
           end
  end.
Fixpoint buf (g : Z -> option Z) (cnt : nat) (x : Z) : option (list Z) :=
  match cnt with
  | O => Some []
  | S c => match g x with
           | Some v => match buf g c (x + 1) with Some l => Some (v :: l) | None => None end
           | None => None
           end
  end.
(* for x := 0..: r.AT(pos x).SetFloat64(t3[x]) *)
Fixpoint flush (r : nat) (pos : Z -> Z * Z) (t3 : list Z) (x : Z) (w : w4) : option w4 :=
  match t3 with
  | [] => Some w
  | v :: rest => match AT w r (fst (pos x)) (snd (pos x)) with
                 | Some p => flush r pos rest (x + 1) (setdm w r (upd (Z.to_nat p) v (dvals w r)))
                 | None => None
                 end
  end.
Fixpoint outer_loop (step : w4 -> Z -> option w4) (cnt : nat) (x : Z) (w : w4) : w4 * bool :=
  match cnt with
  | O => (w, true)
  | S c => match step w x with Some w' => outer_loop step c (x + 1) w' | None => (w, false) end
  end.
Definition MDOTM (w : w4) (r a b : nat) : w4 * (Z * list Z) :=
  let '(n, m) := mdims w (XD r) in
  let '(n1, m1) := mdims w (XD a) in
  let '(n2, m2) := mdims w (XD b) in
  if negb ((n1 =? n) && (m2 =? m) && (m1 =? n2)) then panic w else
  (* r.storageLocation() == b.storageLocation(): &values[0] panics on an empty slice *)
  if (zlen (dvals w r) =? 0) || (zlen (dvals w b) =? 0) then panic w else
  if Nat.eqb r b then
    fin (outer_loop (fun w' j =>
           match buf (fun i => dot_k w' a b (Z.to_nat m1) i j 0 0) (Z.to_nat n) 0 with
           | Some t3 => flush r (fun i => (i, j)) t3 0 w'
           | None => None
           end) (Z.to_nat m) 0 w)
  else
    fin (outer_loop (fun w' i =>
           match buf (fun j => dot_k w' a b (Z.to_nat m1) i j 0 0) (Z.to_nat m) 0 with
           | Some t3 => flush r (fun j => (i, j)) t3 0 w'
           | None => None
           end) (Z.to_nat n) 0 w).

(* ------------------------------------------------------------------ MDOTV / VDOTM (dense vector receiver) *)
(* r.AT(i).Reset(); for j { t.MUL(a.AT(i, j), b.AT(j)); r.AT(i).ADD(r.AT(i), t) }: the guard r.AT(0) == b.AT(0)
   (same first cell) has panicked for r = b, a is a matrix: the reads never see the cell r[i], which accumulates *)
Fixpoint acc_j (g : Z -> option Z) (cnt : nat) (j acc : Z) : option Z :=
  match cnt with
  | O => Some acc
  | S c => match g j with Some t => acc_j g c (j + 1) (acc + t) | None => None end
  end.
Definition vput (w : w4) (k : nat) (i v : Z) : option w4 :=
  let d := getd (b3 w) k in
  if (0 <=? i) && (i <? zlen d) then Some (setb w (setd (b3 w) k (upd (Z.to_nat i) v d))) else None.
Definition MDOTV (w : w4) (r a b : nat) : w4 * (Z * list Z) :=
  let '(n, m) := mdims w (XD a) in
  if negb ((zlen (getd (b3 w) r) =? n) && (zlen (getd (b3 w) b) =? m)) then panic w else
  if (n =? 0) || (m =? 0) then okm w else
  if Nat.eqb r b then panic w else
  fin (outer_loop (fun w' i =>
         match acc_j (fun j => two (fun x y => Some (x * y)) (ATv w' a i j) (VAT w' b j)) (Z.to_nat m) 0 0 with
         | Some v => vput w' r i v
         | None => None
         end) (Z.to_nat n) 0 w).
Definition VDOTM (w : w4) (r a b : nat) : w4 * (Z * list Z) :=
  let '(n, m) := mdims w (XD b) in
  if negb ((zlen (getd (b3 w) r) =? m) && (zlen (getd (b3 w) a) =? n)) then panic w else
  if (n =? 0) || (m =? 0) then okm w else
  if Nat.eqb r a then panic w else
  fin (outer_loop (fun w' i =>
         match acc_j (fun j => two (fun x y => Some (x * y)) (VAT w' a j) (ATv w' b j i)) (Z.to_nat n) 0 0 with
         | Some v => vput w' r i v
         | None => None
         end) (Z.to_nat m) 0 w).

(* ------------------------------------------------------------------ pair table *)
Inductive mpair :=
  | MPopM (o : bop) (r a b : nat)        (* MaddM/MADDM MsubM/MSUBM MmulM/MMULM *)
  | MPdivM (r a b : nat)
  | MPaddS (r a : nat) (c : Z) | MPsubS (r a : nat) (c : Z) | MPmulS (r a : nat) (c : Z) | MPdivS (r a : nat) (c : Z)
  | MPequals (a b : nat) (e2 : Z)
  | MPdotM (r a b : nat)
  | MPouter (r a b : nat)                (* r matrix, a b dense vectors *)
  | MPdotV (r a b : nat)                 (* r vector, a matrix, b vector *)
  | MPVdotM (r a b : nat).               (* r vector, a vector, b matrix *)

Definition mgeneric_op (p : mpair) : mop4 :=
  match p with
  | MPopM o r a b => MopM o (XD r) (XD a) (XD b)
  | MPdivM r a b => MdivM (XD r) (XD a) (XD b)
  | MPaddS r a c => MaddS (XD r) (XD a) c | MPsubS r a c => MsubS (XD r) (XD a) c
  | MPmulS r a c => MmulS (XD r) (XD a) c | MPdivS r a c => MdivS (XD r) (XD a) c
  | MPequals a b e2 => MEquals (XD a) (XD b) e2
  | MPdotM r a b => MdotM (XD r) (XD a) (XD b)
  | MPouter r a b => MOuter (XD r) (RD a) (RD b)
  | MPdotV r a b => MdotV (RD r) (XD a) (RD b)
  | MPVdotM r a b => VdotM (RD r) (RD a) (XD b)
  end.
Definition mstep_generic (y : ty) (w : w4) (p : mpair) : w4 * (Z * list Z) := step4 y w (mgeneric_op p).
Definition mstep_concrete (y : ty) (w : w4) (p : mpair) : w4 * (Z * list Z) :=
  match p with
  | MPopM o r a b => MOPM (fun x z => Some (bop_f o x z)) w r a b
  | MPdivM r a b => MOPM (sdiv y) w r a b
  | MPaddS r a c => MOPS (fun x z => Some (x + z)) w r a c
  | MPsubS r a c => MOPS (fun x z => Some (x - z)) w r a c
  | MPmulS r a c => MOPS (fun x z => Some (x * z)) w r a c
  | MPdivS r a c => MOPS (sdiv y) w r a c
  | MPequals a b e2 => MEQUALS e2 w a b
  | MPdotM r a b => MDOTM w r a b
  | MPouter r a b => OUTER w r a b
  | MPdotV r a b => MDOTV w r a b
  | MPVdotM r a b => VDOTM w r a b
  end.

(* "the matrices are what the constructors build": non-negative dimensions, rows*cols values *)
Definition wfdm (w : w4) : Prop :=
  forall k, let '(d, r, c) := getdm w k in 0 <= r /\ 0 <= c /\ zlen d = r * c.

(* ------------------------------------------------------------------ integer element types: MdotV in float64 *)
(* round to nearest even at 53 significant bits: float64(z) for an integer z, and the float64 product of two
   float64 values that are integers (exact product, then one rounding) *)
Definition round53 (z : Z) : Z :=
  let a := Z.abs z in
  let e := Z.log2 a - 52 in
  if e <=? 0 then z else
  let q := a / 2 ^ e in
  let rm := a mod 2 ^ e in
  let half := 2 ^ (e - 1) in
  let q' := if (half <? rm) || ((rm =? half) && Z.odd q) then q + 1 else q in
  Z.sgn z * (q' * 2 ^ e).
Definition wrap64 (z : Z) : Z := (z + 2 ^ 63) mod 2 ^ 64 - 2 ^ 63.
(* int64(t) of a float64 t: implementation-defined outside the int64 range (None = excluded) *)
Definition f2i64 (t : Z) : option Z := if (- 2 ^ 63 <=? t) && (t <? 2 ^ 63) then Some t else None.
(* one row: r[i] = 0; for j { t = float64(a_ij) * float64(b_j); r[i] = r[i] + int(t) } *)
Fixpoint row_generic_int (aj bj : list Z) (acc : Z) : option Z :=
  match aj, bj with
  | x :: aj', y :: bj' =>
      match f2i64 (round53 (round53 x * round53 y)) with
      | Some t => row_generic_int aj' bj' (wrap64 (acc + t))
      | None => None
      end
  | _, _ => Some acc
  end.
(* t.MUL(a_ij, b_j); r[i].ADD(r[i], t) in the element type *)
Fixpoint row_concrete_int (aj bj : list Z) (acc : Z) : Z :=
  match aj, bj with
  | x :: aj', y :: bj' => row_concrete_int aj' bj' (wrap64 (acc + wrap64 (x * y)))
  | _, _ => acc
  end.
(* rows of an n x m matrix given row-major *)
Fixpoint rows_of (m : nat) (n : nat) (d : list Z) : list (list Z) :=
  match n with O => [] | S n' => firstn m d :: rows_of m n' (skipn m d) end.
Definition mdotv_int_generic (n m : nat) (a b : list Z) : list (option Z) :=
  map (fun row => row_generic_int row b 0) (rows_of m n a).
Definition mdotv_int_concrete (n m : nat) (a b : list Z) : list Z :=
  map (fun row => row_concrete_int row b 0) (rows_of m n a).
