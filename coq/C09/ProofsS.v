(* C09/ProofsS.v — generic = concrete for the magic scalar pairs, for EVERY state. *)
From Coq Require Import ZArith QArith List Bool Arith.
From ADV Require Import Base.Fl C01.Model C09.ModelS.
Import ListNotations.

Section P.
Context {A : Type} (F : Fl A) (r32 : A -> A).

(* the eight combinators are the same two functions *)
Lemma realMonadic_eq : forall c a v0 v1 v2 s,
  realMonadic F r32 c a v0 v1 v2 s = monadic F r32 c (Rg a) v0 v1 v2 s.
Proof. reflexivity. Qed.
Lemma realMonadicLazy_eq : forall c a v0 f1 f2 s,
  realMonadicLazy F r32 c a v0 f1 f2 s = monadic_lazy F r32 c (Rg a) v0 f1 f2 s.
Proof. reflexivity. Qed.
Lemma realDyadic_eq : forall c a b v0 v10 v01 v11 v20 v02 s,
  realDyadic F r32 c a b v0 v10 v01 v11 v20 v02 s = dyadic F r32 c (Rg a) (Rg b) v0 v10 v01 v11 v20 v02 s.
Proof. reflexivity. Qed.
Lemma realDyadicLazy_eq : forall c a b v0 f1 f2 s,
  realDyadicLazy F r32 c a b v0 f1 f2 s = dyadic_lazy F r32 c (Rg a) (Rg b) v0 f1 f2 s.
Proof. reflexivity. Qed.
Lemma SET_eq : forall c b s, SET F r32 c b s = set_reg F r32 c (Rg b) s.
Proof. reflexivity. Qed.

Lemma NEG_eq c a s : run_concrete F r32 (PNeg c a) s = run_generic F r32 (PNeg c a) s.
Proof. reflexivity. Qed.
Lemma ADD_eq c a b s : run_concrete F r32 (PAdd c a b) s = run_generic F r32 (PAdd c a b) s.
Proof. reflexivity. Qed.
Lemma SUB_eq c a b s : run_concrete F r32 (PSub c a b) s = run_generic F r32 (PSub c a b) s.
Proof. reflexivity. Qed.
Lemma MUL_eq c a b s : run_concrete F r32 (PMul c a b) s = run_generic F r32 (PMul c a b) s.
Proof. reflexivity. Qed.
Lemma DIV_eq c a b s : run_concrete F r32 (PDiv c a b) s = run_generic F r32 (PDiv c a b) s.
Proof. reflexivity. Qed.
Lemma EXP_eq c a s : run_concrete F r32 (PExp c a) s = run_generic F r32 (PExp c a) s.
Proof. reflexivity. Qed.
Lemma LOG_eq c a s : run_concrete F r32 (PLog c a) s = run_generic F r32 (PLog c a) s.
Proof. reflexivity. Qed.
Lemma LOG1P_eq c a s : run_concrete F r32 (PLog1p c a) s = run_generic F r32 (PLog1p c a) s.
Proof. reflexivity. Qed.
Lemma SQRT_eq c a s : run_concrete F r32 (PSqrt c a) s = run_generic F r32 (PSqrt c a) s.
Proof. reflexivity. Qed.
Lemma POW_eq c a b s : run_concrete F r32 (PPow c a b) s = run_generic F r32 (PPow c a b) s.
Proof. cbn. unfold POW, do_pow. cbn. destruct (1 <=? rorder (s b)); reflexivity. Qed.
Lemma SETp_eq c a s : run_concrete F r32 (PSet c a) s = run_generic F r32 (PSet c a) s.
Proof. reflexivity. Qed.
Lemma MIN_eq c a b s : run_concrete F r32 (PMin c a b) s = run_generic F r32 (PMin c a b) s.
Proof. reflexivity. Qed.
Lemma MAX_eq c a b s : run_concrete F r32 (PMax c a b) s = run_generic F r32 (PMax c a b) s.
Proof. reflexivity. Qed.
Lemma LOGADD_eq c a b t s : run_concrete F r32 (PLogAdd c a b t) s = run_generic F r32 (PLogAdd c a b t) s.
Proof.
  cbn. unfold LOGADD, do_logadd, GREATER, getk. cbn [rd].
  destruct (fltb F (rndk r32 (rk (s a)) (rval (s b))) (rndk r32 (rk (s a)) (rval (s a)))); reflexivity.
Qed.
Lemma LOGSUB_eq c a b t s : run_concrete F r32 (PLogSub c a b t) s = run_generic F r32 (PLogSub c a b t) s.
Proof. reflexivity. Qed.

(* HEAD 2fc8894: ABS switches on the ARGUMENT's sign with a zero case, like Abs *)
Lemma ABS_eq c a s : run_concrete F r32 (PAbs c a) s = run_generic F r32 (PAbs c a) s.
Proof. reflexivity. Qed.
Lemma ABS_is_do_ABS_concrete c a s : ABS F r32 c a s = do_ABS_concrete F r32 c (Rg a) s.
Proof. reflexivity. Qed.

(* kept from round 1 (the hypothesis is no longer needed by any theorem; every pair satisfies the conclusion) *)
Definition not_abs (p : spair) : Prop := match p with PAbs _ _ => False | _ => True end.
Lemma scalar_pairs_agree_all p s : run_concrete F r32 p s = run_generic F r32 p s.
Proof.
  destruct p.
  - apply NEG_eq. - apply ADD_eq. - apply SUB_eq. - apply MUL_eq. - apply DIV_eq. - apply POW_eq.
  - apply SQRT_eq. - apply EXP_eq. - apply LOG_eq. - apply LOG1P_eq. - apply MIN_eq. - apply MAX_eq.
  - apply ABS_eq. - apply SETp_eq. - apply LOGADD_eq. - apply LOGSUB_eq.
Qed.
Lemma scalar_pairs_agree p s : not_abs p -> run_concrete F r32 p s = run_generic F r32 p s.
Proof. intros _. apply scalar_pairs_agree_all. Qed.
Lemma scalar_predicates_agree p eps s : pred_concrete F r32 p eps s = pred_generic F r32 p eps s.
Proof. destruct p; reflexivity. Qed.

(* the Sign() method as the predicate model has it (getter of the register's kind) is the sign of the stored value
   whenever the stored value is a value of the register's kind (a Real32 holds a float32): the form C01's Abs and
   the concrete ABS use *)
Lemma Sign_is_sign_of_stored s a :
  rndk r32 (rk (s a)) (rval (s a)) = rval (s a) -> g_sign F r32 s a = sign_of F (rval (s a)).
Proof. intros H. unfold g_sign, getk, sign_of. rewrite H. reflexivity. Qed.
End P.
