(* C09/SpecTest.v — the statements of Spec.v / Props.v evaluated on concrete instances (vm_compute) before
   they were proved: agreeing pairs agree, refuted pairs differ, on worlds with stored zeros and aliasing. *)
From Coq Require Import ZArith List Bool.
From ADV Require Import C11.Model C03.Model C09.ModelV C09.Spec.
Import ListNotations.
Open Scope Z_scope.

(* r = [_,5,0stored,_], a = [1,_,2,_], b = [_,_,3,4] *)
Definition w1 : w3 :=
  run3 TFloat init3 [NewS [1] [5] 4; NewS [0; 2] [1; 2] 4; NewS [2; 3] [3; 4] 4; SetAt (RS 0) 2 0].
Definition same (y : ty) (sp : bool) (w : w3) (p : vpair) : bool :=
  let '(wa, (ka, pa)) := step_concrete y sp w p in
  let '(wb, (kb, pb)) := step_generic y sp w p in
  (ka =? kb) && (hash (obs3 wa) =? hash (obs3 wb)) && (if list_eq_dec Z.eq_dec pa pb then true else false).

Example t_addv : same TFloat true w1 (VPopV Add 0 1 2) = true. Proof. vm_compute. reflexivity. Qed.
Example t_subv_alias : same TFloat true w1 (VPopV Sub 0 0 2) = true. Proof. vm_compute. reflexivity. Qed.
Example t_mulv_alias2 : same TInt true w1 (VPopV Mul 1 2 2) = true. Proof. vm_compute. reflexivity. Qed.
Example t_muls : same TInt true w1 (VPmulS 0 1 (-3)) = true. Proof. vm_compute. reflexivity. Qed.
Example t_divs : same TFloat true w1 (VPdivS 0 1 2) = true. Proof. vm_compute. reflexivity. Qed.
Example t_divs0 : same TFloat true w1 (VPdivS 0 1 0) = true.  (* VDIVS calls VdivS since 5abb77d *) Proof. vm_compute. reflexivity. Qed.
Example t_set : same TReal true w1 (VPset 0 2) = true. Proof. vm_compute. reflexivity. Qed.
Example t_eq_diff : same TInt true w1 (VPequals 1 2 100) = false. Proof. vm_compute. reflexivity. Qed.
Example t_eq_same : same TInt true w1 (VPequals 1 1 1) = true. Proof. vm_compute. reflexivity. Qed.
Definition wd : w3 := run3 TInt init3 [NewD [1; 0; -2]; NewD [4; 5; 0]; NewD [0; 2; 2]].
Example t_dense_div : same TInt false wd (VPdivV 0 1 2) = true. Proof. vm_compute. reflexivity. Qed.
Example t_dense_eq : same TInt false wd (VPequals 0 1 3) = true. Proof. vm_compute. reflexivity. Qed.
