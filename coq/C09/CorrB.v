(* C09 correspondence, bare scalar types (Float64 Float32 Int Int8 Int16 Int32 Int64): a case holds the
   receiver type, the receiver's old value, the operands and what Go returned for BOTH members; [check]
   replays the generic model (C02.Model) and the concrete model (C09.ModelB) and compares each with Go.
   Float carrier: the one of C02/Corr.v (copied): primitive floats, float32 through
   SpecFloat.binary_normalize 24 128, math.Exp/Log/Log1p/Pow answered from the per-case oracle (Go's own
   results), math.Sqrt = PrimFloat.sqrt.  A float->int conversion of NaN / out-of-range values is
   implementation-defined in Go: the model says Excl and the case is counted, not compared. *)
From Coq Require Import ZArith List Bool Floats SpecFloat.
From ADV Require Import Base.Num Base.Corr C02.Model C09.ModelB.
Import ListNotations.
Open Scope Z_scope.

Definition sf_of_float_round (prec emax : Z) (x : float) : float :=
  match Prim2SF x with
  | S754_finite s m e => SF2Prim (binary_normalize prec emax (if s then Zneg m else Zpos m) e s)
  | _ => x
  end.
Definition r32 (x : float) : float := sf_of_float_round 24 128 x.
Definition ofZ64 (z : Z) : float := SF2Prim (binary_normalize 53 1024 z 0 false).
Definition ofZ32 (z : Z) : float := SF2Prim (binary_normalize 24 128 z 0 false).
Definition toZ (x : float) : option Z :=
  match Prim2SF x with
  | S754_zero _ => Some 0
  | S754_finite s m e =>
      let mag := if 0 <=? e then Zpos m * 2 ^ e else Zpos m / 2 ^ (- e) in
      Some (if s then - mag else mag)
  | _ => None
  end.
Definition fisinf (x : float) (s : Z) : bool :=
  match Prim2SF x with
  | S754_infinity neg => if s =? 0 then true else if 0 <? s then negb neg else neg
  | _ => false
  end.
Definition fisnan (x : float) : bool := negb (PrimFloat.eqb x x).

Definition ufn_id (f : ufn) : Z :=
  match f with FExp => 1 | FLog => 2 | FLog1p => 3 | FSin => 4 | FCos => 5 | FTan => 6 | FSinh => 7 | FCosh => 8
             | FTanh => 9 | FErf => 10 | FErfc => 11 | FLogErfc => 12 | FGamma => 13 | FSqrt => 14 end.
Definition id_pow := 22.
Definition oentry := (Z * float * float * float)%type.
Definition sentinel : float := 0x1.badbadbadbadp+600%float.
Fixpoint lookup (o : list oentry) (id : Z) (a b : float) : float :=
  match o with
  | [] => sentinel
  | (i, x, y, r) :: o' => if (i =? id) && feqb x a && feqb y b then r else lookup o' id a b
  end.
Definition flit (l : lit) : float :=
  match l with
  | L0 => 0%float | L1 => 1%float | L2 => 2%float | Lhalf => 0x1p-1%float
  | Lm37 => (-0x1.28p+5)%float | L18 => 0x1.2p+4%float | L33_3 => 0x1.0a66666666666p+5%float
  end.
Definition CarF (o : list oentry) : Car float :=
  mkCar float flit PrimFloat.add PrimFloat.sub PrimFloat.mul PrimFloat.div PrimFloat.opp PrimFloat.abs
        PrimFloat.ltb PrimFloat.leb PrimFloat.eqb fisnan fisinf
        (fun s => if 0 <=? s then infinity else neg_infinity) nan
        ofZ64 ofZ32 r32 toZ
        (fun f x => match f with FSqrt => PrimFloat.sqrt x | _ => lookup o (ufn_id f) x 0%float end)
        (fun x => lookup o 20 x 0%float)
        (fun x => if PrimFloat.ltb (lookup o 21 x 0%float) 0%float then -1 else 1)
        (fun x y => lookup o id_pow x y)
        (fun f p x => sentinel).

Definition sval_eqb (a b : sval float) : bool :=
  match a, b with VF x, VF y => feqb x y | VI x, VI y => x =? y | _, _ => false end.
(* Go's outcome of an operation: the receiver's new value, or a panic *)
Inductive gout := GVal (v : sval float) | GPanic.
Definition out_ok (m : res (sval float)) (g : gout) : bool :=
  match m, g with
  | Excl, _ => true
  | Val v, GVal v' => sval_eqb v v'
  | Panic, GPanic => true
  | _, _ => false
  end.
Definition bres_ok (m g : bres) : bool :=
  match m, g with
  | RExcl, _ => true
  | RB x, RB y => Bool.eqb x y
  | RZ x, RZ y => x =? y
  | RPanic, RPanic => true
  | _, _ => false
  end.

Inductive bcase :=
| CB (p : bpair) (t : ty) (cold a b : sval float) (o : list oentry) (gen conc : gout)
| CQ (p : bpred) (t : ty) (a b : sval float) (eps : float) (gen conc : bres).

Definition check_generic (c : bcase) : bool :=
  match c with
  | CB p t cold a b o g _ => out_ok (b_generic (CarF o) p t cold a b) g
  | CQ p t a b eps g _ => bres_ok (q_generic (CarF []) p t a b eps) g
  end.
Definition check_concrete (c : bcase) : bool :=
  match c with
  | CB p t cold a b o _ k => out_ok (b_concrete (CarF o) p t cold a b) k
  | CQ p t a b eps _ k => bres_ok (q_concrete (CarF []) p t a b eps) k
  end.
Definition check (c : bcase) : bool := check_generic c && check_concrete c.
Definition mism (cs : list bcase) : list nat := mismatches check cs.
Definition is_excl (c : bcase) : bool :=
  match c with
  | CB p t cold a b o _ _ => match b_generic (CarF o) p t cold a b with Excl => true | _ => false end
  | _ => false
  end.
Definition excluded (cs : list bcase) : nat := length (filter is_excl cs).
