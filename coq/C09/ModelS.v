(* C09/ModelS.v — the CONCRETE-typed twins of the magic scalar methods
     /repo/scalar_real{64,32}_math_concrete.go      (EQUALS ... LOG1P)
     /repo/scalar_real{64,32}_derivative.go         (realMonadic, realMonadicLazy, realDyadic, realDyadicLazy)
     /repo/scalar_real{64,32}.go                    (SET)
   modelled as they are coded — separate textual bodies, operands are typed
   registers (ptr Real64 / *Real32: register ids, never immediates) — next to the
   GENERIC members of each pair, which are the instructions of the shared scalar
   model coq/C01/Model.v (imported, not forked: [exec (IDy OAdd c (Rg a) (Rg b))] is
   c.Add(a, b) through the ConstScalar interface and the combinators
   monadic/monadicLazy/dyadic/dyadicLazy).
   The predicates Equals/Greater/Smaller/Sign (no instruction in C01) are
   modelled here for both members.
   Carrier record Fl (Base/Fl.v) + storage rounding hook r32, as in C01.
   No proofs in this file. *)
From Coq Require Import ZArith QArith List Bool Arith.
From ADV Require Import Base.Fl C01.Model.
Import ListNotations.

Section ModelS.
Context {A : Type} (F : Fl A) (r32 : A -> A).

Notation "x + y" := (fadd F x y). Notation "x - y" := (fsub F x y).
Notation "x * y" := (fmul F x y). Notation "x / y" := (fdiv F x y).
Notation "- x" := (fneg F x).
Notation St := (St (A := A)).
Notation lit := (lit F). Notation zero := (zero F). Notation one := (one F). Notation two := (two F).
Notation gd := (gd F). Notation gh := (gh F).
Notation set_h := (set_h r32). Notation set_d := (set_d r32). Notation set_v := (set_v r32).

(* ------------------------------------------------------------ combinators *)
(* func (c ptr-Real64) realMonadic(a ptr-Real64, v0, v1, v2 float64) *Real64 *)
Definition rm_hstep (c a : nat) (v1 v2 : A) (s : St) (p : nat * nat) : St :=
  let '(i, j) := p in
  let v := gd (s a) i * gd (s a) j * v2 + gh (s a) i j * v1 in
  let s1 := upd s c (set_h (s c) i j v) in
  upd s1 c (set_h (s1 c) j i (gh (s1 c) i j)).
Definition rm_gstep (c a : nat) (v1 : A) (s : St) (i : nat) : St :=
  upd s c (set_d (s c) i (gd (s a) i * v1)).

Definition realMonadic (c a : nat) (v0 v1 v2 : A) (s : St) : res St :=
  let s := alloc_for_one F c (Rg a) s in
  let o := rorder (s c) in      (* c.Order / c.GetN(): not changed by SetHessian / SetDerivative *)
  let n := rn (s c) in
  let s :=
    if 1 <=? o then
      let s := if 2 <=? o then fold_left (rm_hstep c a v1 v2) (upairs n) s else s in
      fold_left (rm_gstep c a v1) (seq 0 n) s
    else s in
  Ok (upd s c (set_v (s c) v0)).

(* func (c ptr-Real64) realMonadicLazy(a ptr-Real64, v0 float64, f1, f2 func() float64) *Real64 *)
Definition realMonadicLazy (c a : nat) (v0 : A) (f1 f2 : unit -> A) (s : St) : res St :=
  let s := alloc_for_one F c (Rg a) s in
  let o := rorder (s c) in
  let n := rn (s c) in
  let s :=
    if 1 <=? o then
      let v1 := f1 tt in
      let s := if 2 <=? o then
                 let v2 := f2 tt in fold_left (rm_hstep c a v1 v2) (upairs n) s
               else s in
      fold_left (rm_gstep c a v1) (seq 0 n) s
    else s in
  Ok (upd s c (set_v (s c) v0)).

Definition rd_hstep (c a b : nat) (v10 v01 v11 v20 v02 : A) (s : St) (p : nat * nat) : St :=
  let '(i, j) := p in
  let v := gh (s a) i j * v10 + gh (s b) i j * v01
           + gd (s a) i * gd (s a) j * v20 + gd (s b) i * gd (s b) j * v02
           + gd (s a) i * gd (s b) j * v11 + gd (s b) i * gd (s a) j * v11 in
  let s1 := upd s c (set_h (s c) i j v) in
  upd s1 c (set_h (s1 c) j i (gh (s1 c) i j)).
Definition rd_gstep (c a b : nat) (v10 v01 : A) (s : St) (i : nat) : St :=
  upd s c (set_d (s c) i (gd (s a) i * v10 + gd (s b) i * v01)).

(* func (c ptr-Real64) realDyadic(a, b *Real64, v0, v10, v01, v11, v20, v02 float64) *Real64
   the panic conditions (explicit N mismatch, slice index) are those of C01's [dy_guard],
   evaluated AFTER AllocForTwo like there *)
Definition realDyadic (c a b : nat) (v0 v10 v01 v11 v20 v02 : A) (s : St) : res St :=
  let s := alloc_for_two F c (Rg a) (Rg b) s in
  match dy_guard (s a) (s b) with Some e => Panic e | None =>
  let o := rorder (s c) in
  let n := rn (s c) in
  let s :=
    if 1 <=? o then
      let s := if 2 <=? o then fold_left (rd_hstep c a b v10 v01 v11 v20 v02) (upairs n) s
               else s in
      fold_left (rd_gstep c a b v10 v01) (seq 0 n) s
    else s in
  Ok (upd s c (set_v (s c) v0))
  end.

(* func (c ptr-Real64) realDyadicLazy(a, b ConstScalar, v0 float64, f1 func() (float64, float64),
                                   f2 func() (float64, float64, float64)) *Real64 *)
Definition realDyadicLazy (c a b : nat) (v0 : A) (f1 : unit -> A * A) (f2 : unit -> A * A * A) (s : St) : res St :=
  let s := alloc_for_two F c (Rg a) (Rg b) s in
  match dy_guard (s a) (s b) with Some e => Panic e | None =>
  let o := rorder (s c) in
  let n := rn (s c) in
  let s :=
    if 1 <=? o then
      let '(v10, v01) := f1 tt in
      let s := if 2 <=? o then
                 let '(v11, v20, v02) := f2 tt in
                 fold_left (rd_hstep c a b v10 v01 v11 v20 v02) (upairs n) s
               else s in
      fold_left (rd_gstep c a b v10 v01) (seq 0 n) s
    else s in
  Ok (upd s c (set_v (s c) v0))
  end.

(* ------------------------------------------------------------ storage *)
(* func (a ptr-Real64) SET(b *Real64): the body of Set with a typed operand
   HEAD d9fca78: a.Value = b.GetFloat64(); a.Alloc(b.GetN(), b.GetOrder()); a.Order = b.GetOrder() — Alloc sees the
   receiver's OLD order *)
Definition SET (c b : nat) (s : St) : res St :=
  let rb := s b in
  let r0 := s c in
  let r1 := mkReg (rk r0) (rndk r32 (rk r0) (rval rb)) (rorder r0) (rn r0) (rderiv r0) (rhess r0) in
  let r2 := alloc F r1 (rn rb) (rorder rb) in
  let n := rn rb in
  if 1 <=? rorder r2 then
    if negb (n <=? length (rderiv r2)) then Panic EIndex else
    let s1 := upd s c r2 in
    let s2 := fold_left (fun s i => upd s c (set_d (s c) i (gd (s b) i))) (seq 0 n) s1 in
    if 2 <=? rorder r2 then
      if negb (square_ge n (rhess r2)) then Panic EIndex else
      Ok (fold_left (fun s p => upd s c (set_h (s c) (fst p) (snd p) (gh (s b) (fst p) (snd p))))
                    (allpairs n) s2)
    else Ok s2
  else Ok (upd s c r2).

(* ------------------------------------------------------------ arithmetic *)
Definition NEG (c a : nat) (s : St) : res St :=
  let x := rval (s a) in realMonadic c a (- x) (lit (-1)) zero s.
Definition ADD (c a b : nat) (s : St) : res St :=
  let x := rval (s a) in let y := rval (s b) in realDyadic c a b (x + y) one one zero zero zero s.
Definition SUB (c a b : nat) (s : St) : res St :=
  let x := rval (s a) in let y := rval (s b) in realDyadic c a b (x - y) one (lit (-1)) zero zero zero s.
Definition MUL (c a b : nat) (s : St) : res St :=
  let x := rval (s a) in let y := rval (s b) in realDyadic c a b (x * y) y x one zero zero s.
Definition DIV (c a b : nat) (s : St) : res St :=
  let x := rval (s a) in let y := rval (s b) in
  realDyadic c a b (x / y) (one / y) (- x / (y * y)) (lit (-1) / (y * y)) zero (two * x / (y * y * y)) s.

Definition POW (c a k : nat) (s : St) : res St :=
  let x := rval (s a) in let y := rval (s k) in
  let v0 := fPow F x y in
  if 1 <=? rorder (s k) then
    realDyadicLazy c a k v0
      (fun _ => (fPow F x (y - one) * y, fPow F x (y - zero) * fLog F x))
      (fun _ => (fPow F x (y - one) * (one + y * fLog F x),
                 fPow F x (y - two) * (y - one) * y,
                 fPow F x (y - zero) * fLog F x * fLog F x)) s
  else
    realMonadicLazy c a v0 (fun _ => fPow F x (y - one) * y) (fun _ => fPow F x (y - two) * (y - one) * y) s.
(* SQRT: its own body with y := 0.5 (the generic Sqrt calls Pow(a, ConstFloat64(0.5))) *)
Definition SQRT (c a : nat) (s : St) : res St :=
  let x := rval (s a) in let y := fofQ F (1 # 2) in
  let v0 := fPow F x y in
  realMonadicLazy c a v0 (fun _ => fPow F x (y - one) * y) (fun _ => fPow F x (y - two) * (y - one) * y) s.
Definition EXP (c a : nat) (s : St) : res St :=
  let x := rval (s a) in let v0 := fExp F x in realMonadicLazy c a v0 (fun _ => v0) (fun _ => v0) s.
Definition LOG (c a : nat) (s : St) : res St :=
  let x := rval (s a) in
  realMonadicLazy c a (fLog F x) (fun _ => one / x) (fun _ => lit (-1) / (x * x)) s.
Definition LOG1P (c a : nat) (s : St) : res St :=
  let x := rval (s a) in
  realMonadicLazy c a (fLog1p F x) (fun _ => one / (one + x)) (fun _ => lit (-1) / ((one + x) * (one + x))) s.

(* ------------------------------------------------------------ predicates *)
(* a.GET() with the getter of the receiver type: GetFloat64 for Real64, GetFloat32 for Real32 *)
Definition getk (k : kind) (x : A) : A := rndk r32 k x.
Definition eq_body (v1 v2 eps : A) : bool :=
  fltb F (fAbs F (v1 - v2)) eps || (fisnan F v1 && fisnan F v2)
  || (fisinf F v1 1 && fisinf F v2 1) || (fisinf F v1 (-1) && fisinf F v2 (-1)).
(* generic: the operand b is any ConstScalar *)
Definition g_equals (s : St) (a : nat) (b : opd A) (eps : A) : bool := eq_body (rval (s a)) (rval (rd s b)) eps.
Definition g_greater (s : St) (a : nat) (b : opd A) : bool :=
  let k := rk (s a) in fltb F (getk k (rval (rd s b))) (getk k (rval (s a))).
Definition g_smaller (s : St) (a : nat) (b : opd A) : bool :=
  let k := rk (s a) in fltb F (getk k (rval (s a))) (getk k (rval (rd s b))).
Definition g_sign (s : St) (a : nat) : Z :=
  let k := rk (s a) in
  if fltb F (getk k (rval (s a))) zero then (-1)%Z else if fltb F zero (getk k (rval (s a))) then 1%Z else 0%Z.
(* concrete *)
Definition EQUALS (s : St) (a b : nat) (eps : A) : bool := eq_body (rval (s a)) (rval (s b)) eps.
Definition GREATER (s : St) (a b : nat) : bool :=
  let k := rk (s a) in fltb F (getk k (rval (s b))) (getk k (rval (s a))).
Definition SMALLER (s : St) (a b : nat) : bool :=
  let k := rk (s a) in fltb F (getk k (rval (s a))) (getk k (rval (s b))).
Definition SIGN (s : St) (a : nat) : Z :=
  let k := rk (s a) in
  if fltb F (getk k (rval (s a))) zero then (-1)%Z else if fltb F zero (getk k (rval (s a))) then 1%Z else 0%Z.

(* ------------------------------------------------------------ composite *)
(* MIN/MAX: if a.GET() < b.GET() { r.SET(a) } else { r.SET(b) } with the receiver type's getter *)
Definition MIN (c a b : nat) (s : St) : res St :=
  let k := rk (s c) in
  if fltb F (getk k (rval (s a))) (getk k (rval (s b))) then SET c a s else SET c b s.
Definition MAX (c a b : nat) (s : St) : res St :=
  let k := rk (s c) in
  if fltb F (getk k (rval (s b))) (getk k (rval (s a))) then SET c a s else SET c b s.
(* HEAD 2fc8894: func (c ptr-Real64) ABS(a ptr-Real64) { switch a.Sign() { case -1: c.NEG(a); case 0: c.Reset(); case 1: c.SET(a) } }
   a.Sign() is the lower-case (generic) method of the operand, not SIGN — the very same method object the generic Abs
   reaches through the ConstScalar interface — and c.Reset() has no twin: both are modelled by the functions C01 uses for them
   (sign_of of the stored value; C09/ProofsS.Sign_is_sign_of_stored relates it to the predicate model g_sign) *)
Definition ABS (c a : nat) (s : St) : res St :=
  let sg := sign_of F (rval (s a)) in
  if Z.eqb sg (-1) then NEG c a s
  else if Z.eqb sg 0 then do_reset F c s
  else SET c a s.

(* LOGADD(a, b, t): if a.GREATER(b) swap; if IsInf(a,0) { c.SET(b) } else t.SUB(a,b); t.EXP(t); t.LOG1P(t); c.ADD(t,b) *)
Definition LOGADD (c a b t : nat) (s : St) : res St :=
  let '(a, b) := if GREATER s a b then (b, a) else (a, b) in
  if fisinf F (rval (s a)) 0 then SET c b s else
  seqm [SUB t a b; EXP t t; LOG1P t t; ADD c t b] s.
Definition LOGSUB (c a b t : nat) (s : St) : res St :=
  if fisinf F (rval (s b)) (-1) then SET c a s else
  seqm [SUB t b a; EXP t t; NEG t t; LOG1P t t; ADD c t a] s.

End ModelS.

(* ------------------------------------------------------------ the pair table *)
(* one constructor per scalar pair; c = receiver, a b = operands, t = temporary *)
Inductive spair :=
| PNeg (c a : nat) | PAdd (c a b : nat) | PSub (c a b : nat) | PMul (c a b : nat) | PDiv (c a b : nat)
| PPow (c a b : nat) | PSqrt (c a : nat) | PExp (c a : nat) | PLog (c a : nat) | PLog1p (c a : nat)
| PMin (c a b : nat) | PMax (c a b : nat) | PAbs (c a : nat) | PSet (c a : nat)
| PLogAdd (c a b t : nat) | PLogSub (c a b t : nat).
Inductive ppair :=                     (* predicates *)
| QEquals (a b : nat) | QGreater (a b : nat) | QSmaller (a b : nat) | QSign (a : nat).

Section Run.
Context {A : Type} (F : Fl A) (r32 : A -> A).
(* generic member: the instruction of C01's table *)
Definition generic_instr (p : spair) : instr A :=
  match p with
  | PNeg c a => IMon ONeg c (Rg a) | PAdd c a b => IDy OAdd c (Rg a) (Rg b) | PSub c a b => IDy OSub c (Rg a) (Rg b)
  | PMul c a b => IDy OMul c (Rg a) (Rg b) | PDiv c a b => IDy ODiv c (Rg a) (Rg b)
  | PPow c a b => IPow c (Rg a) (Rg b) | PSqrt c a => ISqrt c (Rg a)
  | PExp c a => IMon OExp c (Rg a) | PLog c a => IMon OLog c (Rg a) | PLog1p c a => IMon OLog1p c (Rg a)
  | PMin c a b => IMin c (Rg a) (Rg b) | PMax c a b => IMax c (Rg a) (Rg b)
  | PAbs c a => IAbs c (Rg a) | PSet c a => ISet c (Rg a)
  | PLogAdd c a b t => ILogAdd c (Rg a) (Rg b) t | PLogSub c a b t => ILogSub c (Rg a) (Rg b) t
  end.
Definition run_generic (p : spair) : St -> res St := exec F r32 (generic_instr p).
Definition run_concrete (p : spair) : St -> res St :=
  match p with
  | PNeg c a => NEG F r32 c a | PAdd c a b => ADD F r32 c a b | PSub c a b => SUB F r32 c a b
  | PMul c a b => MUL F r32 c a b | PDiv c a b => DIV F r32 c a b
  | PPow c a b => POW F r32 c a b | PSqrt c a => SQRT F r32 c a
  | PExp c a => EXP F r32 c a | PLog c a => LOG F r32 c a | PLog1p c a => LOG1P F r32 c a
  | PMin c a b => MIN F r32 c a b | PMax c a b => MAX F r32 c a b
  | PAbs c a => ABS F r32 c a | PSet c a => SET F r32 c a
  | PLogAdd c a b t => LOGADD F r32 c a b t | PLogSub c a b t => LOGSUB F r32 c a b t
  end.
Inductive pres := PB (b : bool) | PZ (z : Z).
Definition pred_generic (p : ppair) (eps : A) (s : St) : pres :=
  match p with
  | QEquals a b => PB (g_equals F s a (Rg b) eps) | QGreater a b => PB (g_greater F r32 s a (Rg b))
  | QSmaller a b => PB (g_smaller F r32 s a (Rg b)) | QSign a => PZ (g_sign F r32 s a)
  end.
Definition pred_concrete (p : ppair) (eps : A) (s : St) : pres :=
  match p with
  | QEquals a b => PB (EQUALS F s a b eps) | QGreater a b => PB (GREATER F r32 s a b)
  | QSmaller a b => PB (SMALLER F r32 s a b) | QSign a => PZ (SIGN F r32 s a)
  end.
End Run.
