(* C09/ModelI.v — ACCESSOR and ITERATOR pairs of the four container families
     /repo/vector_dense_template.in   At/AT  Iterator/ITERATOR  IteratorFrom/ITERATOR_FROM  iterator Get/GET
     /repo/vector_sparse_template.in  At/AT  Iterator/ITERATOR  IteratorFrom/ITERATOR_FROM  iterator Get/GET
                                      JointIterator/JOINT_ITERATOR  joint Get/GET
     /repo/matrix_dense_template.in   At/AT  Iterator/ITERATOR  IteratorFrom/ITERATOR_FROM  iterator Get/GET
     /repo/matrix_sparse_template.in  At/AT  Iterator/ITERATOR  IteratorFrom/ITERATOR_FROM  (iterator Get/GET are the
                                      promoted methods of the embedded sparse vector iterator)
                                      JointIterator/JOINT_ITERATOR  joint Get/GET
   BOTH members of every pair are written out as the Go text has them, on the SHARED worlds (w4 of C03.ModelM =
   sparse vector heap world of C11 + dense vectors + matrices; imported, not forked):
     * the CONCRETE members (upper case) carry the behaviour;
     * the GENERIC members are separate Definitions with the body the Go text has: the one-line wrappers
       `return recv.CONCRETE(args)` and the two nil guards (sparse iterator Get: `if v := obj.GET(); v.ptr == nil
       { return nil } else { return v }`; joint Get: `if obj.s1.ptr == nil { return nil, obj.s2 } ...`).
   An iterator is its Go struct (position / current key); Ok, Next, Index exist once (they are not paired), the
   element access exists twice (GET / Get).  A walk `for it := x.ITERATOR(); it.Ok(); it.Next() { it.Index();
   it.GET() }` yields the visit sequence AND the world afterwards (skip() of the sparse iterators removes null
   entries of the operand: observable).  Data-dependent loops carry explicit fuel; exhaustion = kind K_FUEL.
   The table [expected_shape] records which textual shape of the generic member this model assumes for every pair
   and receiver family; the harness classifies the source (go/ast) and CorrI compares.
   NOT modelled here (implementation-only pairs): JointIterator/JOINT_ITERATOR of the DENSE vector and DENSE matrix
   receivers, Row/ROW Col/COL Diag/DIAG Slice/SLICE (views: C10/C12's worlds).
   No proofs in this file. *)
From Coq Require Import ZArith List Bool Lia.
From ADV Require Import C11.Model C03.Model C03.ModelM C10.Gen C09.ModelM.
Import ListNotations.
Open Scope Z_scope.

(* three-way result: value, Go panic, model out of fuel *)
Inductive res (A : Type) := ROk (a : A) | RPanic | RFuel.
Arguments ROk {A} a.
Arguments RPanic {A}.
Arguments RFuel {A}.

Definition sws (w : w4) : world := sw (b3 w).
Definition setvec (w : w4) (u : nat) (v : svec) : w4 := setsw w (setv (sws w) u v).

(* the containers of a world *)
Inductive cont := KDV (k : nat) | KSV (u : nat) | KDM (k : nat) | KSM (k : nat).

(* ------------------------------------------------------------------ At / AT *)
(* what AT returns: a scalar that POINTS into the container *)
Inductive cell :=
  | CellD (k : nat) (p : Z)      (* &v[p] of dense vector k *)
  | CellM (k : nat) (p : Z)      (* &m.values[p] of dense matrix k *)
  | CellH (l : loc).             (* a heap scalar (sparse containers) *)
Definition cell_get (w : w4) (c : cell) : Z :=
  match c with
  | CellD k p => nth (Z.to_nat p) (getd (b3 w) k) 0
  | CellM k p => nth (Z.to_nat p) (dvals w k) 0
  | CellH l => hget (hp (sws w)) l
  end.
Definition cell_set (w : w4) (c : cell) (x : Z) : w4 :=
  match c with
  | CellD k p => setb w (setd (b3 w) k (upd (Z.to_nat p) x (getd (b3 w) k)))
  | CellM k p => setdm w k (upd (Z.to_nat p) x (dvals w k))
  | CellH l => setsw w (seth (sws w) (hset (hp (sws w)) l x))
  end.

(* func (v DenseTVector) AT(i int) T { return T{&v[i]} } *)
Definition DV_AT (w : w4) (k : nat) (i : Z) : res (w4 * cell) :=
  if (0 <=? i) && (i <? zlen (getd (b3 w) k)) then ROk (w, CellD k i) else RPanic.
(* func (obj *SparseTVector) AT(i int) T: bounds check, then the entry is created (value and index key) *)
Definition SV_AT (w : w4) (u : nat) (i : Z) : res (w4 * cell) :=
  match at_ (hp (sws w)) (getv (sws w) u) i with
  | Some (h', v', l) => ROk (setsw w (seth (setv (sws w) u v') h'), CellH l)
  | None => RPanic
  end.
(* func (matrix *DenseTMatrix) AT(i, j int) T { return T{&matrix.values[matrix.index(i, j)]} }: C09.ModelM.AT *)
Definition DM_AT (w : w4) (k : nat) (i j : Z) : res (w4 * cell) :=
  match AT w k i j with Some p => ROk (w, CellM k p) | None => RPanic end.
(* sparse matrix index(i, j): panics outside rows x cols; (rowOffset + i)*colMax + colOffset + j, no view *)
Definition SM_index (w : w4) (k : nat) (i j : Z) : option Z :=
  let '(_, r, c) := getsm w k in
  if (i <? 0) || (j <? 0) || (r <=? i) || (c <=? j) then None else Some (i * c + j).
(* func (matrix *SparseTMatrix) AT(i, j int) T { return matrix.values.AT(matrix.index(i, j)) } *)
Definition SM_AT (w : w4) (k : nat) (i j : Z) : res (w4 * cell) :=
  match SM_index w k i j with
  | Some p => let '(u, _, _) := getsm w k in SV_AT w u p
  | None => RPanic
  end.
(* the generic members: func (..) At(..) Scalar { return recv.AT(..) } *)
Definition DV_At (w : w4) (k : nat) (i : Z) : res (w4 * cell) := DV_AT w k i.
Definition SV_At (w : w4) (u : nat) (i : Z) : res (w4 * cell) := SV_AT w u i.
Definition DM_At (w : w4) (k : nat) (i j : Z) : res (w4 * cell) := DM_AT w k i j.
Definition SM_At (w : w4) (k : nat) (i j : Z) : res (w4 * cell) := SM_AT w k i j.

Definition AT_of (w : w4) (x : cont) (i j : Z) : res (w4 * cell) :=
  match x with KDV k => DV_AT w k i | KSV u => SV_AT w u i | KDM k => DM_AT w k i j | KSM k => SM_AT w k i j end.
Definition At_of (w : w4) (x : cont) (i j : Z) : res (w4 * cell) :=
  match x with KDV k => DV_At w k i | KSV u => SV_At w u i | KDM k => DM_At w k i j | KSM k => SM_At w k i j end.
(* s := x.AT(i, j); read s; s.Set(s + d): the value seen and a write THROUGH the returned scalar *)
Definition at_step (w : w4) (r : res (w4 * cell)) (d : Z) : w4 * (Z * list Z) :=
  match r with
  | ROk (w', c) => (cell_set w' c (cell_get w' c + d), (K_OK, [cell_get w' c]))
  | RPanic => (w, (K_PANIC, []))
  | RFuel => (w, (K_FUEL, []))
  end.

(* ------------------------------------------------------------------ iterator element access: GET / Get *)
(* what the CONCRETE GET returns: the bare scalar T{ptr}; CNil = T{} (nil ptr) *)
Inductive cres := CNil | CCell (v : Z).
(* what the GENERIC Get returns: the interface Scalar; GNil = nil interface, GTypedNil = a non-nil interface
   holding T{nil} (what a plain wrapper would hand out for an absent entry) *)
Inductive gres := GNil | GVal (v : Z) | GTypedNil.
(* func (obj *SparseTVectorIterator) Get() Scalar { if v := obj.GET(); v.ptr == nil { return nil } else { return v } } *)
Definition Get_guard (c : cres) : gres := match c with CNil => GNil | CCell v => GVal v end.
(* func (obj *DenseTVectorIterator) Get() Scalar { return obj.GET() } *)
Definition Get_wrap (c : cres) : gres := match c with CNil => GTypedNil | CCell v => GVal v end.
(* the harness record of an element: [tag; value], tag 0 = nil, 1 = a scalar, 2 = typed nil *)
Definition enc_c (c : cres) : list Z := match c with CNil => [0; 0] | CCell v => [1; v] end.
Definition enc_g (g : gres) : list Z := match g with GNil => [0; 0] | GVal v => [1; v] | GTypedNil => [2; 0] end.

(* ------------------------------------------------------------------ plain iterators *)
(* the iterator structs: DenseTVectorIterator{v, i}; SparseTVectorIterator{index iterator (its current key), v};
   DenseTMatrixIterator{m, i, j}; SparseTMatrixIterator{sparse vector iterator over m.values, m} *)
Inductive istate :=
  | IDV (k : nat) (i : Z)
  | ISV (u : nat) (cur : option Z)
  | IDM (k : nat) (i j : Z)
  | ISM (k : nat) (cur : option Z).
Definition smvec (w : w4) (k : nat) : nat := let '(u, _, _) := getsm w k in u.
Definition smcols (w : w4) (k : nat) : Z := let '(_, _, c) := getsm w k in c.

(* sparse vector iterator over vector u *)
Definition sp_ok (cur : option Z) : bool := match cur with Some _ => true | None => false end.
Definition sp_index (cur : option Z) : Z := match cur with Some k => k | None => 0 end.
(* GET: if v, ok := obj.v.values[obj.Index()]; ok { return v } else { return T{} } *)
Definition sp_GET (w : w4) (u : nat) (cur : option Z) : cres :=
  match cur with
  | Some k => match lookup k (vals (getv (sws w) u)) with Some l => CCell (hget (hp (sws w)) l) | None => CNil end
  | None => CNil
  end.
Definition sp_lift (w : w4) (u : nat) (r : option (svec * option Z)) : res (w4 * option Z) :=
  match r with Some (v', cur') => ROk (setvec w u v', cur') | None => RFuel end.
(* Next(): index iterator Next, then skip() *)
Definition sp_Next (w : w4) (u : nat) (cur : option Z) : res (w4 * option Z) :=
  sp_lift w u (it_next (hp (sws w)) (getv (sws w) u) cur).
(* ITERATOR(): r := {obj.indexIterator(), obj}; r.skip() *)
Definition sp_ITERATOR (w : w4) (u : nat) : res (w4 * option Z) :=
  sp_lift w u (it_begin (hp (sws w)) (getv (sws w) u)).
(* ITERATOR_FROM(i): r := {obj.indexIteratorFrom(i), obj}; r.skip() — no bounds check *)
Definition sp_ITERATOR_FROM (w : w4) (u : nat) (i : Z) : res (w4 * option Z) :=
  sp_lift w u (it_from (hp (sws w)) (getv (sws w) u) i).

(* dense matrix iterator *)
Definition dm_ok (w : w4) (k : nat) (i j : Z) : bool := let '(_, r, c) := getdm w k in (i <? r) && (j <? c).
(* next(): if obj.j == obj.m.cols-1 { i++; j = 0 } else { j++ } *)
Definition dm_next (w : w4) (k : nat) (i j : Z) : Z * Z :=
  let '(_, _, c) := getdm w k in if j =? c - 1 then (i + 1, 0) else (i, j + 1).
(* for obj.Ok() && obj.GET().nullScalar() { obj.next() }; GET = obj.m.AT(i, j) panics on a negative index *)
Fixpoint dm_skip (fuel : nat) (w : w4) (k : nat) (i j : Z) : res (Z * Z) :=
  if dm_ok w k i j then
    match ATv w k i j with
    | None => RPanic
    | Some v =>
        if v =? 0 then
          match fuel with
          | O => RFuel
          | S f => let '(i', j') := dm_next w k i j in dm_skip f w k i' j'
          end
        else ROk (i, j)
    end
  else ROk (i, j).
Definition dm_fuel (w : w4) (k : nat) : nat := let '(_, r, c) := getdm w k in S (Z.to_nat (r * c)).
(* Next(): obj.next(); then the loop above *)
Definition dm_Next (w : w4) (k : nat) (i j : Z) : res (Z * Z) :=
  let '(i', j') := dm_next w k i j in dm_skip (dm_fuel w k) w k i' j'.

Definition it_ok (w : w4) (s : istate) : bool :=
  match s with
  | IDV k i => i <? zlen (getd (b3 w) k)
  | ISV _ cur => sp_ok cur
  | IDM k i j => dm_ok w k i j
  | ISM _ cur => sp_ok cur
  end.
(* Index(): vectors i; matrices (i, j); sparse matrix m.ij(k) = (k / colMax, k % colMax) *)
Definition it_index (w : w4) (s : istate) : list Z :=
  match s with
  | IDV _ i => [i]
  | ISV _ cur => [sp_index cur]
  | IDM _ i j => [i; j]
  | ISM k cur => [Z.quot (sp_index cur) (smcols w k); Z.rem (sp_index cur) (smcols w k)]
  end.
(* GET(): None = panic *)
Definition it_GET (w : w4) (s : istate) : option cres :=
  match s with
  | IDV k i => let d := getd (b3 w) k in
               if (0 <=? i) && (i <? zlen d) then Some (CCell (nth (Z.to_nat i) d 0)) else None
  | ISV u cur => Some (sp_GET w u cur)
  | IDM k i j => match ATv w k i j with Some v => Some (CCell v) | None => None end
  | ISM k cur => Some (sp_GET w (smvec w k) cur)
  end.
(* Get(): dense iterators `return obj.GET()`; sparse vector iterator the nil guard; the sparse matrix iterator has
   no Get of its own: the promoted method of the embedded sparse vector iterator *)
Definition it_Get (w : w4) (s : istate) : option gres :=
  match s with
  | IDV _ _ => option_map Get_wrap (it_GET w s)
  | ISV _ _ => option_map Get_guard (it_GET w s)
  | IDM _ _ _ => option_map Get_wrap (it_GET w s)
  | ISM _ _ => option_map Get_guard (it_GET w s)
  end.
Definition res_map {A B} (f : A -> B) (r : res A) : res B :=
  match r with ROk a => ROk (f a) | RPanic => RPanic | RFuel => RFuel end.
Definition it_Next (w : w4) (s : istate) : res (w4 * istate) :=
  match s with
  | IDV k i => ROk (w, IDV k (i + 1))
  | ISV u cur => res_map (fun wc => (fst wc, ISV u (snd wc))) (sp_Next w u cur)
  | IDM k i j => res_map (fun ij => (w, IDM k (fst ij) (snd ij))) (dm_Next w k i j)
  | ISM k cur => res_map (fun wc => (fst wc, ISM k (snd wc))) (sp_Next w (smvec w k) cur)
  end.

(* ITERATOR(): dense vector r := {v, -1}; r.Next() — dense matrix r := {m, 0, -1}; r.Next() *)
Definition ITERATOR (w : w4) (x : cont) : res (w4 * istate) :=
  match x with
  | KDV k => it_Next w (IDV k (-1))
  | KSV u => res_map (fun wc => (fst wc, ISV u (snd wc))) (sp_ITERATOR w u)
  | KDM k => it_Next w (IDM k 0 (-1))
  | KSM k => res_map (fun wc => (fst wc, ISM k (snd wc))) (sp_ITERATOR w (smvec w k))
  end.
(* ITERATOR_FROM: dense vector r := {v, i-1}; r.Next() — dense matrix r := {m, i, j-1}; r.Next() —
   sparse matrix k := obj.index(i, j) (panics out of range); obj.values.ITERATOR_FROM(k) *)
Definition ITERATOR_FROM (w : w4) (x : cont) (i j : Z) : res (w4 * istate) :=
  match x with
  | KDV k => it_Next w (IDV k (i - 1))
  | KSV u => res_map (fun wc => (fst wc, ISV u (snd wc))) (sp_ITERATOR_FROM w u i)
  | KDM k => it_Next w (IDM k i (j - 1))
  | KSM k => match SM_index w k i j with
             | Some p => res_map (fun wc => (fst wc, ISM k (snd wc))) (sp_ITERATOR_FROM w (smvec w k) p)
             | None => RPanic
             end
  end.
(* the generic members: func (..) Iterator() ..Iterator { return recv.ITERATOR() } *)
Definition Iterator (w : w4) (x : cont) : res (w4 * istate) := ITERATOR w x.
Definition IteratorFrom (w : w4) (x : cont) (i j : Z) : res (w4 * istate) := ITERATOR_FROM w x i j.

(* for ; it.Ok(); it.Next() { it.Index(); it.<get>() }: visits = index ++ element record, in order *)
Fixpoint walk (get : w4 -> istate -> option (list Z)) (fuel : nat) (w : w4) (s : istate) (acc : list Z)
  : w4 * (Z * list Z) :=
  if it_ok w s then
    match fuel with
    | O => (w, (K_FUEL, []))
    | S f =>
        match get w s with
        | None => (w, (K_PANIC, []))
        | Some e =>
            match it_Next w s with
            | ROk (w', s') => walk get f w' s' (acc ++ it_index w s ++ e)
            | RPanic => (w, (K_PANIC, []))
            | RFuel => (w, (K_FUEL, []))
            end
        end
    end
  else (w, (K_OK, acc)).
Definition get_concrete (w : w4) (s : istate) : option (list Z) := option_map enc_c (it_GET w s).
Definition get_generic (w : w4) (s : istate) : option (list Z) := option_map enc_g (it_Get w s).
(* every visit has a new position of the container *)
Definition wfuel (w : w4) (x : cont) : nat :=
  match x with
  | KDV k => S (S (length (getd (b3 w) k)))
  | KSV u => S (S (length (idx (getv (sws w) u))))
  | KDM k => S (dm_fuel w k)
  | KSM k => S (S (length (idx (getv (sws w) (smvec w k)))))
  end.
Definition run_iter (get : w4 -> istate -> option (list Z)) (w : w4) (x : cont) (beg : res (w4 * istate))
  : w4 * (Z * list Z) :=
  match beg with
  | ROk (w', s) => walk get (wfuel w x) w' s []
  | RPanic => (w, (K_PANIC, []))
  | RFuel => (w, (K_FUEL, []))
  end.

(* ------------------------------------------------------------------ joint iterators (sparse receivers) *)
(* vectors: the state machine of C11 (joint_begin / joint_next, Ok() = the flag jok);
   JOINT_ITERATOR(b): r := {obj.ITERATOR(), b.ConstIterator(), -1, T{}, nil, false}; r.Next() *)
Definition V_JOINT_ITERATOR (w : world) (t : nat) (o : operand) : option (world * joint) := joint_begin w t o.
Definition V_JointIterator (w : world) (t : nat) (o : operand) : option (world * joint) := V_JOINT_ITERATOR w t o.
(* GET() (T, ConstScalar) { return obj.s1, obj.s2 } *)
Definition VJ_GET (w : world) (j : joint) : cres * Z :=
  (match js1 j with Some l => CCell (hget (hp w) l) | None => CNil end, jval (js2 j)).
(* Get() (Scalar, ConstScalar) { if obj.s1.ptr == nil { return nil, obj.s2 } else { return obj.s1, obj.s2 } } *)
Definition VJ_Get (w : world) (j : joint) : gres * Z :=
  match fst (VJ_GET w j) with
  | CNil => (GNil, snd (VJ_GET w j))
  | CCell v => (GVal v, snd (VJ_GET w j))
  end.
Fixpoint vj_walk (get : world -> joint -> list Z) (fuel : nat) (w : world) (t : nat) (j : joint) (acc : list Z)
  : option (world * list Z) :=
  if jok j then
    match fuel with
    | O => None
    | S f =>
        match joint_next w t j with
        | None => None
        | Some (w', j') => vj_walk get f w' t j' (acc ++ [jidx j] ++ get w j)
        end
    end
  else Some (w, acc).
Definition vj_get_concrete (w : world) (j : joint) : list Z := enc_c (fst (VJ_GET w j)) ++ [snd (VJ_GET w j)].
Definition vj_get_generic (w : world) (j : joint) : list Z := enc_g (fst (VJ_Get w j)) ++ [snd (VJ_Get w j)].
Definition vj_run (get : world -> joint -> list Z) (w : w4) (t : nat) (o : operand)
  (beg : option (world * joint)) : w4 * (Z * list Z) :=
  match beg with
  | None => (w, (K_FUEL, []))
  | Some (s1, j) =>
      match vj_walk get (jfuel (sws w) t o) s1 t j [] with
      | Some (s2, l) => (setsw w s2, (K_OK, l))
      | None => (w, (K_FUEL, []))
      end
  end.

(* matrices: the two-way machine of C03.ModelM (mj2_begin / mj2_next / mj2_ok), equal shapes *)
Definition M_JOINT_ITERATOR (w : world) (t : nat) (o : operand) : option (world * mj2) := mj2_begin w t o.
Definition M_JointIterator (w : world) (t : nat) (o : operand) : option (world * mj2) := M_JOINT_ITERATOR w t o.
Definition MJ_GET (w : world) (j : mj2) : cres * Z :=
  (match ns1 j with Some l => CCell (hget (hp w) l) | None => CNil end, jval (ns2 j)).
Definition MJ_Get (w : world) (j : mj2) : gres * Z :=
  match fst (MJ_GET w j) with
  | CNil => (GNil, snd (MJ_GET w j))
  | CCell v => (GVal v, snd (MJ_GET w j))
  end.
Fixpoint mj_walk (get : world -> mj2 -> list Z) (c : Z) (fuel : nat) (w : world) (t : nat) (j : mj2) (acc : list Z)
  : option (world * list Z) :=
  if mj2_ok j then
    match fuel with
    | O => None
    | S f =>
        match mj2_next w t j with
        | None => None
        | Some (w', j') => mj_walk get c f w' t j' (acc ++ [Z.quot (nidx j) c; Z.rem (nidx j) c] ++ get w j)
        end
    end
  else Some (w, acc).
Definition mj_get_concrete (w : world) (j : mj2) : list Z := enc_c (fst (MJ_GET w j)) ++ [snd (MJ_GET w j)].
Definition mj_get_generic (w : world) (j : mj2) : list Z := enc_g (fst (MJ_Get w j)) ++ [snd (MJ_Get w j)].
Definition mj_run (get : world -> mj2 -> list Z) (w : w4) (t : nat) (c : Z)
  (beg : option (world * mj2)) : w4 * (Z * list Z) :=
  match beg with
  | None => (w, (K_FUEL, []))
  | Some (s1, j) =>
      match mj_walk get c (lfuel (sws w) t) s1 t j [] with
      | Some (s2, l) => (setsw w s2, (K_OK, l))
      | None => (w, (K_FUEL, []))
      end
  end.

(* ------------------------------------------------------------------ pair table *)
Inductive ipair :=
  | IPat (x : cont) (i j d : Z)      (* s := x.At(i[, j]); read; s.Set(s + d) through the returned scalar *)
  | IPiter (x : cont)                (* full walk of x.Iterator(), element access by Get resp. GET *)
  | IPfrom (x : cont) (i j : Z)      (* full walk of x.IteratorFrom(i[, j]) *)
  | IPjoint (x b : cont).            (* full walk of x.JointIterator(b): x sparse vector / sparse matrix *)

Definition vec_operand (w : w4) (b : cont) : option operand :=
  match b with
  | KDV k => Some (to_op (b3 w) (RD k))
  | KSV u => Some (to_op (b3 w) (RS u))
  | _ => None
  end.
Definition mat_operand (w : w4) (b : cont) : option (operand * (Z * Z)) :=
  match b with
  | KDM k => Some (mop w (XD k), mdims w (XD k))
  | KSM k => Some (mop w (XS k), mdims w (XS k))
  | _ => None
  end.
Definition not_modelled (w : w4) : w4 * (Z * list Z) := (w, (K_NONE, [])).

Definition istep_concrete (y : ty) (w : w4) (p : ipair) : w4 * (Z * list Z) :=
  match p with
  | IPat x i j d => at_step w (AT_of w x i j) d
  | IPiter x => run_iter get_concrete w x (ITERATOR w x)
  | IPfrom x i j => run_iter get_concrete w x (ITERATOR_FROM w x i j)
  | IPjoint (KSV t) b =>
      match vec_operand w b with
      | Some o => vj_run vj_get_concrete w t o (V_JOINT_ITERATOR (sws w) t o)
      | None => not_modelled w
      end
  | IPjoint (KSM k) b =>
      match mat_operand w b with
      | Some (o, d) =>
          if dims_eqb d (mdims w (XS k))
          then mj_run mj_get_concrete w (smvec w k) (smcols w k) (M_JOINT_ITERATOR (sws w) (smvec w k) o)
          else not_modelled w
      | None => not_modelled w
      end
  | IPjoint _ _ => not_modelled w
  end.
Definition istep_generic (y : ty) (w : w4) (p : ipair) : w4 * (Z * list Z) :=
  match p with
  | IPat x i j d => at_step w (At_of w x i j) d
  | IPiter x => run_iter get_generic w x (Iterator w x)
  | IPfrom x i j => run_iter get_generic w x (IteratorFrom w x i j)
  | IPjoint (KSV t) b =>
      match vec_operand w b with
      | Some o => vj_run vj_get_generic w t o (V_JointIterator (sws w) t o)
      | None => not_modelled w
      end
  | IPjoint (KSM k) b =>
      match mat_operand w b with
      | Some (o, d) =>
          if dims_eqb d (mdims w (XS k))
          then mj_run mj_get_generic w (smvec w k) (smcols w k) (M_JointIterator (sws w) (smvec w k) o)
          else not_modelled w
      | None => not_modelled w
      end
  | IPjoint _ _ => not_modelled w
  end.

(* ------------------------------------------------------------------ the source shapes this model assumes *)
(* pair ids: 0 At/AT  1 Get/GET  2 Iterator/ITERATOR  3 IteratorFrom/ITERATOR_FROM  4 JointIterator/JOINT_ITERATOR
             5 Row/ROW  6 Col/COL  7 Diag/DIAG  8 Slice/SLICE
   receiver families: 0 dense vector  1 sparse vector  2 dense matrix  3 sparse matrix
             4 dense vector iterator  5 sparse vector iterator  6 dense matrix iterator  7 sparse matrix iterator
             8 dense vector joint iterator  9 sparse vector joint iterator  10 dense matrix joint iterator
             11 sparse matrix joint iterator  12 sparse vector joint3 iterator  13 sparse matrix joint3 iterator
             14 dense Real32 / Real64 vector joint iterator (hand-written: GET holds the guard `if obj.s1 == nil
                { return nil, obj.s2 }` and Get is `return obj.GET()`: a nil *Real64 inside a non-nil Scalar)
   shapes: 1 = `return recv.CONCRETE(own arguments in order)`
           2 = `if v := obj.GET(); v.ptr == nil { return nil } else { return v }`
           3 = `if obj.s1.ptr == nil { return nil, obj.s2.. } else { return obj.s1, obj.s2.. }`
           4 = the generic member repeats the text of the concrete one (dense Real vectors: Slice and SLICE are
               both `return v[i:j]`; the template dense vectors have no SLICE)
           0 = anything else *)
Definition expected_shape (pid fam : nat) : nat :=
  match pid, fam with
  | 1%nat, 5%nat => 2%nat
  | 8%nat, 0%nat => 4%nat
  | 1%nat, 8%nat | 1%nat, 9%nat | 1%nat, 10%nat | 1%nat, 11%nat | 1%nat, 12%nat | 1%nat, 13%nat => 3%nat
  | _, _ => 1%nat
  end.
