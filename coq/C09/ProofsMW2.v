(* C09/ProofsMW2.v — closed form of the element-wise dense matrix operations on views: when the receiver is a view
   inside its parent (wf_view) and the operands live in OTHER backing arrays, every cell (i, j) of the receiver view
   holds f (a view (i, j)) (b view (i, j)) afterwards — offsets, row lengths and transposition flags of all three
   headers taken into account by the index kernel — and (ProofsMW) nothing outside the view has changed. *)
From Coq Require Import ZArith List Bool Lia.
From ADV Require Import C11.Model C03.Model C10.Gen C09.ModelMW C09.ProofsMW.
Import ListNotations.
Open Scope Z_scope.

Lemma index_inj (r : hd) i j i' j' p :
  wf_view r -> DenseP.index r i j = Some p -> DenseP.index r i' j' = Some p -> i = i' /\ j = j'.
Proof.
  intros (H1 & H2 & H3 & H4 & H5 & H6). unfold DenseP.index.
  destruct ((((i <? 0) || (j <? 0)) || (i >=? d_rows r)) || (j >=? d_cols r)) eqn:Hb; [discriminate|].
  destruct ((((i' <? 0) || (j' <? 0)) || (i' >=? d_rows r)) || (j' >=? d_cols r)) eqn:Hb'; [discriminate|].
  repeat (apply orb_false_elim in Hb as [Hb ?]). repeat (apply orb_false_elim in Hb' as [Hb' ?]).
  assert (0 <= i < d_rows r /\ 0 <= j < d_cols r /\ 0 <= i' < d_rows r /\ 0 <= j' < d_cols r) as (Hi & Hj & Hi' & Hj') by lia.
  destruct (d_transposed r); intros E1 E2; inversion E1; inversion E2; subst p.
  - set (M := d_rowMax r) in *. set (x := d_rowOffset r + i) in *. set (x' := d_rowOffset r + i') in *.
    set (y := d_colOffset r + j) in *. set (y' := d_colOffset r + j') in *.
    assert (Hx : 0 <= x < M) by (unfold x, M; lia). assert (Hx' : 0 <= x' < M) by (unfold x', M; lia).
    assert (y = y') by nia. assert (x = x') by nia. unfold x, x', y, y' in *. lia.
  - set (M := d_colMax r) in *. set (x := d_rowOffset r + i) in *. set (x' := d_rowOffset r + i') in *.
    set (y := d_colOffset r + j) in *. set (y' := d_colOffset r + j') in *.
    assert (Hy : 0 <= y < M) by (unfold y, M; lia). assert (Hy' : 0 <= y' < M) by (unfold y', M; lia).
    assert (x = x') by nia. assert (y = y') by nia. unfold x, x', y, y' in *. lia.
Qed.

Section Closed.
Variable w : stores.                     (* the world before the call *)
Variable r : hd.
Variable val : Z -> Z -> option Z.       (* what cell (i, j) is to receive, read in the world BEFORE the call *)
Variable body : stores -> Z -> Z -> option stores.
Hypothesis Hwf : wf_view r.
Let K := keeps (d_values r) (image r) w.
Hypothesis Hbody : forall wc i j wc', K wc -> body wc i j = Some wc' ->
  exists p z, AT_w wc r i j = Some p /\ val i j = Some z /\ wc' = store wc r p z.

Definition Done (wc : stores) (P : Z -> Z -> Prop) : Prop :=
  forall i j, P i j -> 0 <= i < d_rows r -> 0 <= j < d_cols r -> deref wc r (AT_w wc r i j) = val i j /\ val i j <> None.

Lemma AT_w_len wc wc' h i j : length (sget wc' (d_values h)) = length (sget wc (d_values h)) -> AT_w wc' h i j = AT_w wc h i j.
Proof. intros Hl. unfold AT_w, zlen. now rewrite Hl. Qed.

Lemma step_done wc i j wc' (P : Z -> Z -> Prop) :
  K wc -> Done wc P -> body wc i j = Some wc' ->
  K wc' /\ Done wc' (fun i' j' => P i' j' \/ (i' = i /\ j' = j)).
Proof.
  intros Hk Hd Hb. destruct (Hbody _ _ _ _ Hk Hb) as (p & z & Hat & Hv & ->).
  assert (Hk' : K (store wc r p z)) by (eapply keeps_store; eassumption).
  split; [assumption|]. intros i' j' HP Hi' Hj'.
  destruct (AT_w_image _ _ _ _ _ Hat) as [Hidx Hp].
  assert (Hlen : length (sget (store wc r p z) (d_values r)) = length (sget wc (d_values r))).
  { destruct Hk as (_ & Hs & _), Hk' as (_ & Hs' & _). now rewrite Hs', Hs. }
  assert (Hkr : (d_values r < length wc)%nat).
  { destruct (Nat.lt_ge_cases (d_values r) (length wc)) as [|Hge]; [assumption|].
    unfold sget in Hp. rewrite nth_overflow in Hp by lia. unfold zlen in Hp. simpl in Hp. lia. }
  assert (Hsg : sget (store wc r p z) (d_values r) = upd (Z.to_nat p) z (sget wc (d_values r))).
  { unfold store, sget. now rewrite nth_upd_here. }
  rewrite (AT_w_len wc) by assumption.
  assert (Hsame : i' = i /\ j' = j -> deref (store wc r p z) r (AT_w wc r i' j') = val i' j' /\ val i' j' <> None).
  { intros [-> ->]. rewrite Hat, Hv. split; [|discriminate]. unfold deref. rewrite Hsg. f_equal.
    apply nth_upd_here. unfold zlen in Hp. lia. }
  destruct (Z.eq_dec i' i) as [Ei|Ei]; [destruct (Z.eq_dec j' j) as [Ej|Ej]|].
  - apply Hsame; split; assumption.
  - destruct HP as [HP|[_ HP]]; [|contradiction]. destruct (Hd i' j' HP Hi' Hj') as [Hd1 Hd2]. split; [|assumption].
    rewrite <- Hd1. destruct (AT_w wc r i' j') as [q|] eqn:Hq; [|reflexivity]. unfold deref. rewrite Hsg. f_equal.
    apply nth_upd_other. intros Heq. apply AT_w_image in Hq as [Hq Hq2].
    assert (q = p) by lia. subst q.
    destruct (index_inj r i' j' i j p Hwf Hq Hidx). contradiction.
  - destruct HP as [HP|[HP _]]; [|contradiction]. destruct (Hd i' j' HP Hi' Hj') as [Hd1 Hd2]. split; [|assumption].
    rewrite <- Hd1. destruct (AT_w wc r i' j') as [q|] eqn:Hq; [|reflexivity]. unfold deref. rewrite Hsg. f_equal.
    apply nth_upd_other. intros Heq. apply AT_w_image in Hq as [Hq Hq2].
    assert (q = p) by lia. subst q.
    destruct (index_inj r i' j' i j p Hwf Hq Hidx). contradiction.
Qed.

Definition before (i j : Z) (i' j' : Z) : Prop := i' < i \/ (i' = i /\ j' < j).

Lemma Done_ext wc (P Q : Z -> Z -> Prop) : (forall i j, Q i j -> P i j) -> Done wc P -> Done wc Q.
Proof. intros H Hd i j HQ. apply Hd. now apply H. Qed.

Lemma wfor_j_done : forall cnt i j wc w',
  K wc -> Done wc (before i j) -> wfor_j body cnt i j wc = (w', true) ->
  K w' /\ Done w' (before i (j + Z.of_nat cnt)).
Proof.
  induction cnt as [|c IH]; intros i j wc w' Hk Hd Hr.
  - simpl in Hr. inversion Hr; subst. split; [assumption|]. eapply Done_ext; [|eassumption]. unfold before. intros; lia.
  - simpl in Hr. destruct (body wc i j) as [wc'|] eqn:Hb; [|discriminate].
    destruct (step_done wc i j wc' (before i j) Hk Hd Hb) as [Hk' Hd'].
    destruct (IH i (j + 1) wc' w' Hk') as [Hk2 Hd2]; [|assumption|].
    + eapply Done_ext; [|eassumption]. unfold before. intros; lia.
    + split; [assumption|]. eapply Done_ext; [|eassumption]. unfold before. intros; lia.
Qed.

Lemma wfor_i_done : forall cnt m i wc w',
  Z.of_nat m = d_cols r ->
  K wc -> Done wc (before i 0) -> wfor_i body cnt m i wc = (w', true) ->
  K w' /\ Done w' (before (i + Z.of_nat cnt) 0).
Proof.
  induction cnt as [|c IH]; intros m i wc w' Hm Hk Hd Hr.
  - simpl in Hr. inversion Hr; subst. split; [assumption|]. eapply Done_ext; [|eassumption]. unfold before. intros; lia.
  - simpl in Hr. destruct (wfor_j body m i 0 wc) as [w1 ok] eqn:Hj. destruct ok.
    + destruct (wfor_j_done m i 0 wc w1 Hk Hd Hj) as [Hk1 Hd1].
      destruct (IH m (i + 1) w1 w' Hm Hk1) as [Hk2 Hd2]; [|assumption|].
      * intros i' j' Hb Hi' Hj'. apply Hd1; [|assumption|assumption]. unfold before in *. lia.
      * split; [assumption|]. eapply Done_ext; [|eassumption]. unfold before. intros; lia.
    + inversion Hr.
Qed.

Lemma loops_closed_form w' :
  wfor_i body (Z.to_nat (d_rows r)) (Z.to_nat (d_cols r)) 0 w = (w', true) ->
  forall i j, 0 <= i < d_rows r -> 0 <= j < d_cols r -> deref w' r (AT_w w' r i j) = val i j /\ val i j <> None.
Proof.
  intros Hr i j Hi Hj. destruct Hwf as (_ & _ & H3 & H4 & _).
  destruct (wfor_i_done (Z.to_nat (d_rows r)) (Z.to_nat (d_cols r)) 0 w w' (Z2Nat.id _ H4) (keeps_refl _ _ _)) as [_ Hd]; [|exact Hr|].
  - intros i' j' Hb. unfold before in Hb. lia.
  - apply Hd; [|assumption|assumption]. unfold before. rewrite Z2Nat.id by assumption. lia.
Qed.
End Closed.

(* reads of an operand in another backing array see the world before the call *)
Lemma read_stable kr img w wc (a : hd) i j :
  keeps kr img w wc -> d_values a <> kr -> deref wc a (AT_w wc a i j) = deref w a (AT_w w a i j).
Proof.
  intros (_ & Hs & Hn) Hne. rewrite (AT_w_len w wc a i j (Hs _)).
  destruct (AT_w w a i j) as [q|]; [|reflexivity]. unfold deref. f_equal. apply Hn. left; assumption.
Qed.

Definition valM (f : Z -> Z -> option Z) (w : stores) (a b : hd) (i j : Z) : option Z :=
  two_w f (deref w a (AT_w w a i j)) (deref w b (AT_w w b i j)).
Definition valS (f : Z -> Z -> option Z) (w : stores) (a : hd) (c : Z) (i j : Z) : option Z :=
  two_w f (deref w a (AT_w w a i j)) (Some c).

Lemma MOPM_closed_form f w r a b w' :
  wf_view r -> d_values a <> d_values r -> d_values b <> d_values r ->
  MOPM_concrete f w r a b = (w', true) ->
  forall i j, 0 <= i < d_rows r -> 0 <= j < d_cols r ->
    deref w' r (AT_w w' r i j) = valM f w a b i j /\ valM f w a b i j <> None.
Proof.
  intros Hwf Ha Hb. unfold MOPM_concrete. destruct (negb (dims_ok3 r a b)); [discriminate|].
  apply (loops_closed_form w r (valM f w a b) (body_concrete f r a b) Hwf).
  intros wc i j wc' Hk Hbd. unfold body_concrete in Hbd.
  destruct (AT_w wc r i j) as [p|] eqn:Hat; [|discriminate].
  rewrite (read_stable _ _ w wc a i j Hk Ha), (read_stable _ _ w wc b i j Hk Hb) in Hbd.
  fold (valM f w a b i j) in Hbd. destruct (valM f w a b i j) as [z|]; [|discriminate].
  exists p, z. inversion Hbd. auto.
Qed.
Lemma MOPS_closed_form f w r a c w' :
  wf_view r -> d_values a <> d_values r ->
  MOPS_concrete f w r a c = (w', true) ->
  forall i j, 0 <= i < d_rows r -> 0 <= j < d_cols r ->
    deref w' r (AT_w w' r i j) = valS f w a c i j /\ valS f w a c i j <> None.
Proof.
  intros Hwf Ha. unfold MOPS_concrete. destruct (negb (dims_ok2 r a)); [discriminate|].
  apply (loops_closed_form w r (valS f w a c) (bodyS_concrete f r a c) Hwf).
  intros wc i j wc' Hk Hbd. unfold bodyS_concrete in Hbd.
  destruct (AT_w wc r i j) as [p|] eqn:Hat; [|discriminate].
  rewrite (read_stable _ _ w wc a i j Hk Ha) in Hbd.
  fold (valS f w a c i j) in Hbd. destruct (valS f w a c i j) as [z|]; [|discriminate].
  exists p, z. inversion Hbd. auto.
Qed.

(* a slice inside its parent, transposed or not, is a view inside its parent *)
Lemma view_wf k pr pc ro co sr sc t :
  0 <= ro -> 0 <= co -> 0 <= sr -> 0 <= sc -> ro + sr <= pr -> co + sc <= pc ->
  wf_view (view k pr pc ro co sr sc t).
Proof. intros. unfold wf_view, view. destruct t; simpl; lia. Qed.

(* non-vacuity: three 4 x 5 parents, views of object shape 2 x 3 at offsets (0,0), (1,1) transposed, (2,2) *)
Definition ex_w : stores :=
  [map Z.of_nat (seq 1 20); map Z.of_nat (seq 31 20); map Z.of_nat (seq 61 20)].
Definition ex_r : hd := view 0 4 5 0 0 2 3 false.
Definition ex_a : hd := view 1 4 5 1 1 3 2 true.
Definition ex_b : hd := view 2 4 5 2 2 2 3 false.
Lemma ex_covered :
  wf_view ex_r /\ d_values ex_a <> d_values ex_r /\ d_values ex_b <> d_values ex_r /\
  MOPM_concrete (fun x z => Some (x + z)) ex_w ex_r ex_a ex_b =
    ([[110; 116; 122; 4; 5; 116; 122; 128; 9; 10; 11; 12; 13; 14; 15; 16; 17; 18; 19; 20];
      map Z.of_nat (seq 31 20); map Z.of_nat (seq 61 20)], true).
Proof.
  split; [apply view_wf; lia|]. split; [discriminate|]. split; [discriminate|]. vm_compute. reflexivity.
Qed.
