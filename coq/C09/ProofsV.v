(* C09/ProofsV.v — the concrete vector twins (C09/ModelV.v) leave exactly the world of the generic
   methods (C03/Model.v), for every world, every zero pattern and every aliasing of the handles. *)
From Coq Require Import ZArith List Bool Lia.
From ADV Require Import C11.Model C03.Model C09.ModelV C09.ProofsJ.
Import ListNotations.
Open Scope Z_scope.

(* the switch over absent operands computes the ring operation with the constant 0 *)
Lemma body3_bop o s2 s3 : body3 o s2 s3 = bop_f o (jval s2) (jval s3).
Proof. destruct o, s2 as [a|], s3 as [b|]; cbn; lia. Qed.

Lemma MAP3_eq o : forall fuel w t j,
  MAP3 o fuel w t j = map3_loop (bop_f o) fuel w t (emb3 j).
Proof.
  induction fuel as [|fu IH]; intros w t j; cbn [MAP3 map3_loop]; change (kok (emb3 j)) with (joint3C_ok j).
  - reflexivity.
  - destruct (joint3C_ok j); [|reflexivity].
    cbn [emb3 kidx ks1 ks2 ks3]. rewrite body3_bop.
    destruct (wr w t (didx j) (ds1 j) (bop_f o (jval (ds2 j)) (jval (ds3 j)))) as [w1|]; [|reflexivity].
    change {| k1 := d1 j; k2 := CS (d2u j) (d2 j); k3 := CS (d3u j) (d3 j); kidx := didx j; ks1 := ds1 j;
              ks2 := ds2 j; ks3 := ds3 j; kok := joint3C_ok j |} with (emb3 j).
    rewrite joint3C_next_emb3. destruct (joint3C_next w1 t j) as [[w2 j']|]; cbn [lift3J]; [apply IH|reflexivity].
Qed.

Lemma VOPV_eq o w t u2 u3 : VOPV o w t u2 u3 = vop3 (bop_f o) w t (OS u2) (OS u3).
Proof.
  unfold VOPV, vop3; cbn [op_dim].
  destruct (negb (dim (getv w u2) =? dim (getv w t)) || negb (dim (getv w u3) =? dim (getv w t))); [reflexivity|].
  rewrite joint3C_begin_emb. destruct (joint3C_begin w t u2 u3) as [[w1 j]|]; cbn [lift3J]; [apply MAP3_eq|reflexivity].
Qed.

(* s_r := it.s1; if nil { s_r = r.AT(idx) }; then the store *)
Lemma wr_cell w t i s1 x :
  wr w t i s1 x = match cell_of w t i s1 with Some (w0, l) => Some (seth w0 (hset (hp w0) l x)) | None => None end.
Proof.
  unfold wr, cell_of. destruct s1 as [l|]; [reflexivity|].
  destruct (at_ (hp w) (getv w t) i) as [[[h' v'] l]|]; reflexivity.
Qed.

Lemma MAP2_eq f g (Hf : forall x, f x = Some (g x)) (H0 : g 0 = 0) : forall fuel w t j,
  MAP2 f fuel w t j = map2_loop g fuel w t (embJ j).
Proof.
  induction fuel as [|fu IH]; intros w t j; cbn [MAP2 map2_loop]; change (jok (embJ j)) with (jointC_ok j).
  - reflexivity.
  - destruct (jointC_ok j); [|reflexivity].
    cbn [embJ jidx js1 js2]. rewrite wr_cell.
    destruct (cell_of w t (cidx j) (cs1 j)) as [[w0 l]|]; [|reflexivity].
    assert (E : match cs2 j with None => Some 0 | Some a => f a end = Some (g (jval (cs2 j)))).
    { destruct (cs2 j) as [a|]; cbn [jval]; [apply Hf | now rewrite H0]. }
    rewrite E.
    change {| j1 := c1 j; j2 := CS (c2u j) (c2 j); jidx := cidx j; js1 := cs1 j; js2 := cs2 j; jok := jointC_ok j |}
      with (embJ j).
    rewrite jointC_next_embJ.
    destruct (jointC_next (seth w0 (hset (hp w0) l (g (jval (cs2 j))))) t j) as [[w2 j']|]; cbn [liftJ];
      [apply IH|reflexivity].
Qed.

Lemma VOPS_eq f g (Hf : forall x, f x = Some (g x)) (H0 : g 0 = 0) w t u :
  VOPS f w t u = vop2 g w t (OS u).
Proof.
  unfold VOPS, vop2; cbn [op_dim]. rewrite (Z.eqb_sym (dim (getv w t))).
  destruct (negb (dim (getv w u) =? dim (getv w t))); [reflexivity|].
  rewrite jointC_begin_emb. destruct (jointC_begin w t u) as [[w1 j]|]; cbn [liftJ];
    [apply MAP2_eq; assumption|reflexivity].
Qed.

Lemma VMULS_eq w t u c : VMULS w t u c = vop2 (fun x => x * c) w t (OS u).
Proof. apply VOPS_eq; [reflexivity|reflexivity]. Qed.

Lemma SET_LOOP_eq : forall fuel w t j, SET_LOOP fuel w t j = map2_loop (fun x => x) fuel w t (embJ j).
Proof.
  induction fuel as [|fu IH]; intros w t j; cbn [SET_LOOP map2_loop]; change (jok (embJ j)) with (jointC_ok j).
  - reflexivity.
  - destruct (jointC_ok j); [|reflexivity].
    cbn [embJ jidx js1 js2].
    assert (E : (match cs1 j, cs2 j with
               | Some l, Some b => Some (seth w (hset (hp w) l b))
               | Some l, None => Some (seth w (hset (hp w) l 0))
               | None, s2 =>
                   match at_ (hp w) (getv w t) (cidx j) with
                   | Some (h', v', l) => Some (seth (setv w t v') (hset h' l (match s2 with Some b => b | None => 0 end)))
                   | None => None
                   end
               end) = wr w t (cidx j) (cs1 j) (jval (cs2 j))).
    { unfold wr, jval. destruct (cs1 j) as [l|], (cs2 j) as [b|]; reflexivity. }
    rewrite E. destruct (wr w t (cidx j) (cs1 j) (jval (cs2 j))) as [w1|]; [|reflexivity].
    change {| j1 := c1 j; j2 := CS (c2u j) (c2 j); jidx := cidx j; js1 := cs1 j; js2 := cs2 j; jok := jointC_ok j |}
      with (embJ j).
    rewrite jointC_next_embJ. destruct (jointC_next w1 t j) as [[w2 j']|]; cbn [liftJ]; [apply IH|reflexivity].
Qed.

Lemma SETV_eq w t u : SETV w t u = vset w t (OS u).
Proof.
  unfold SETV, vset, vop2; cbn [op_dim]. destruct (Nat.eqb t u); [reflexivity|].
  rewrite (Z.eqb_sym (dim (getv w t))).
  destruct (negb (dim (getv w u) =? dim (getv w t))); [reflexivity|].
  rewrite jointC_begin_emb. destruct (jointC_begin w t u) as [[w1 j]|]; cbn [liftJ]; [apply SET_LOOP_eq|reflexivity].
Qed.

(* EQUALS answers true only where Equals does, and then both leave the same world *)
Lemma EQ_LOOP_true e2 : forall fuel w t j w',
  EQ_LOOP e2 fuel w t j = Some (w', true) -> eq_loop e2 fuel w t (embJ j) = Some (w', true).
Proof.
  induction fuel as [|fu IH]; intros w t j w'; cbn [EQ_LOOP eq_loop]; change (jok (embJ j)) with (jointC_ok j).
  - destruct (jointC_ok j); [discriminate|trivial].
  - pose proof (jointC_next_embJ w t j) as N. unfold embJ in *.
    destruct (jointC_ok j); [|trivial].
    cbn [js1 js2]. destruct (cs1 j) as [l|]; [|discriminate]. destruct (cs2 j) as [b|]; [|discriminate].
    cbn [jval]. destruct (close e2 (hget (hp w) l) b); [|discriminate].
    intros H. rewrite N. destruct (jointC_next w t j) as [[w2 j']|]; cbn [liftJ]; [apply IH; exact H|discriminate].
Qed.

Lemma EQUALS_true e2 w t u w' :
  EQUALS e2 w t u = Some (w', Some true) -> vequals e2 w t (OS u) = Some (w', Some true).
Proof.
  unfold EQUALS, vequals; cbn [op_dim]. rewrite (Z.eqb_sym (dim (getv w t))).
  destruct (negb (dim (getv w u) =? dim (getv w t))); [discriminate|].
  rewrite jointC_begin_emb. destruct (jointC_begin w t u) as [[w1 j]|]; cbn [liftJ]; [|discriminate].
  destruct (EQ_LOOP e2 (lfuel w t) w1 t j) as [[w2 b]|] eqn:E; [|discriminate].
  intros H. injection H as -> ->. rewrite (EQ_LOOP_true _ _ _ _ _ _ E). reflexivity.
Qed.

(* ------------------------------------------------------------------ dense *)
Lemma DLOOP_eq g : forall cnt i w k, DLOOP g cnt i w k = dloop g cnt i w k.
Proof. induction cnt as [|c IH]; intros i w k; cbn; [reflexivity|]. destruct (g w i); [apply IH|reflexivity]. Qed.
Lemma forallb_map_ {X Y} (f : X -> Y) (p : Y -> bool) l : forallb p (map f l) = forallb (fun x => p (f x)) l.
Proof. induction l as [|x l IH]; cbn; [reflexivity|now rewrite IH]. Qed.
Lemma DOP_eq g w k xs : DOP g w k xs = dop g w k (map RD xs).
Proof.
  unfold DOP, dop. rewrite forallb_map_. cbn [vdim].
  destruct (forallb (fun x => zlen (getd w x) =? zlen (getd w k)) xs); [apply DLOOP_eq|reflexivity].
Qed.
Lemma DEQUALS_eq e2 w k x : DEQUALS e2 w k x = dequals e2 w k (RD x).
Proof. reflexivity. Qed.

(* ------------------------------------------------------------------ the pair table *)
(* the pairs (and divisors) on which the two members are the same function *)
Definition vpair_ok (sp : bool) (p : vpair) : Prop :=
  match p with
  | VPequals _ _ _ => sp = false
  | _ => True
  end.

Lemma vector_pairs_agree y sp w p : vpair_ok sp p -> step_concrete y sp w p = step_generic y sp w p.
Proof.
  intros H. unfold step_concrete, step_generic. destruct sp.
  - destruct p; cbn [generic_op ref_ step3 to_op vpair_ok] in *; try reflexivity.
    + now rewrite VOPV_eq.
    + now rewrite VMULS_eq.
    + discriminate.
    + now rewrite SETV_eq.
  - destruct p; cbn [generic_op ref_ step3]; rewrite ?DOP_eq; try reflexivity.
Qed.

Lemma sparse_EQUALS_true_implies_Equals y w a b e2 w' :
  step_concrete y true w (VPequals a b e2) = (w', (K_OK, [1])) ->
  step_generic y true w (VPequals a b e2) = (w', (K_OK, [1])).
Proof.
  unfold step_concrete, step_generic; cbn [generic_op ref_ step3 to_op].
  destruct (EQUALS e2 (sw w) a b) as [[s' [r|]]|] eqn:E; try discriminate.
  destruct r; cbn [b2z]; [|discriminate].
  intros H. rewrite (EQUALS_true _ _ _ _ _ E). exact H.
Qed.
