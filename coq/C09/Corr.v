(* C09 correspondence.  A case holds the inputs and what Go did for BOTH members of a pair
   (generic method and CONCRETE twin called on identically built states); [check] replays
   the generic model (C01.Model.exec / C03.Model.step3) and the concrete model
   (C09.ModelS / C09.ModelV) and compares EACH with its Go outcome.
     CS: magic-scalar operation pairs — full registers (kind, value, Order, N, raw Derivative and
         Hessian slices) of every register involved, bit-exact on primitive floats; libm calls
         answered from the per-case oracle (Go's own results; see C01/Corr.v for the design).
     CP: magic-scalar predicates (Equals/Greater/Smaller/Sign).
     CV: vector pairs over small integers — outcome kind, payload (Equals result) and a checksum
         of the observation of the whole world (Dim, ConstAt of every index, private map, AVL
         index keys, ConstIterator sequence of a clone; dense: every element) as in C03/C11.
   The float carrier below is the one of C01/Corr.v (copied: Corr files of other properties are
   not imported). *)
From Coq Require Import ZArith QArith List Bool Floats Uint63.
From ADV Require Import Base.Fl Base.Num Base.Corr C01.Model C11.Model C03.Model C09.ModelS C09.ModelV.
Import ListNotations.
Open Scope float_scope.

Definition two128 : float := 0x1p+128.
Definition round32 (x : float) : float :=
  match Prim2SF x with
  | S754_finite s m e =>
      let d := (Z.log2 (Zpos m) + 1)%Z in
      let e' := Z.max (e + d - 24) (-149) in
      let sh := (e' - e)%Z in
      let r :=
        if (sh <=? 0)%Z then abs x else
        let p := (2 ^ sh)%Z in
        let q := (Zpos m / p)%Z in
        let rm := (Zpos m mod p)%Z in
        let half := (2 ^ (sh - 1))%Z in
        let q' := if (half <? rm)%Z || ((rm =? half)%Z && Z.odd q) then (q + 1)%Z else q in
        Z.ldexp (of_uint63 (Uint63.of_Z q')) e' in
      let r := if two128 <=? r then infinity else r in
      if s then - r else r
  | _ => x
  end.

Definition oracle := list (nat * list float * float).
Fixpoint olook (t : oracle) (f : nat) (args : list float) : float :=
  match t with
  | [] => nan
  | (g, a, r) :: t' => if Nat.eqb f g && list_eqb feqb a args then r else olook t' f args
  end.
Definition f_ofZ (z : Z) : float :=
  let m := of_uint63 (Uint63.of_Z (Z.abs z)) in if (z <? 0)%Z then - m else m.
Definition f_ofQ (q : Q) : float := f_ofZ (Qnum q) / f_ofZ (Zpos (Qden q)).
Definition f_isinf (x : float) (sg : Z) : bool :=
  match Prim2SF x with
  | S754_infinity s => if (sg =? 0)%Z then true else if (0 <? sg)%Z then negb s else s
  | _ => false
  end.
Definition f_isnan (x : float) : bool := negb (PrimFloat.eqb x x).
Definition f_sign (x : float) : Z := if PrimFloat.ltb x 0 then (-1)%Z else 1%Z.

Definition FlF (t : oracle) : Fl float :=
  let o1 id x := olook t id [x] in
  let o2 id x y := olook t id [x; y] in
  mkFl float PrimFloat.add PrimFloat.sub PrimFloat.mul PrimFloat.div PrimFloat.opp
    PrimFloat.ltb PrimFloat.leb PrimFloat.eqb
    f_ofQ f_ofZ nan (fun sg => if (0 <=? sg)%Z then infinity else neg_infinity)
    f_isnan f_isinf
    PrimFloat.abs PrimFloat.sqrt
    (o1 0%nat) (o1 1%nat) (o1 2%nat)
    (o1 3%nat) (o1 4%nat) (o1 5%nat) (o1 6%nat) (o1 7%nat) (o1 8%nat)
    (o1 9%nat) (o1 10%nat) (o1 11%nat) (o1 12%nat)
    (fun x => f_sign (o1 13%nat x))
    (o2 14%nat)
    (fun b z => o2 15%nat b (f_ofZ z))
    (fun x => x)
    0x1.921fb54442d18p+1
    0x1.c5bf891b4ef6bp+0
    (o1 16%nat) (o1 17%nat) (o1 18%nat)
    (fun x k => o2 19%nat x (f_ofZ k))
    (o2 20%nat) (o2 21%nat) (o2 22%nat)
    (o2 23%nat) (o2 24%nat).

Definition kind_eqb (a b : kind) : bool :=
  match a, b with K64, K64 | K32, K32 | KBare, KBare => true | _, _ => false end.
Definition reg_eqb (a b : Reg float) : bool :=
  kind_eqb (rk a) (rk b) && feqb (rval a) (rval b) && Nat.eqb (rorder a) (rorder b) && Nat.eqb (rn a) (rn b)
  && list_eqb feqb (rderiv a) (rderiv b) && list_eqb (list_eqb feqb) (rhess a) (rhess b).
Definition st0 : St (A := float) := fun _ => mkReg K64 0 0 0 [] [].
Fixpoint load (l : list (nat * Reg float)) (s : St) : St :=
  match l with [] => s | (i, r) :: t => load t (C01.Model.upd s i r) end.

(* outcome kinds of a scalar operation: 0 returned, 1 explicit N-mismatch panic, 2 index-out-of-range panic *)
Definition res_ok (r : res (St (A := float))) (k : nat) (post : list (nat * Reg float)) : bool :=
  match r with
  | Ok s => Nat.eqb k 0 && forallb (fun ir => reg_eqb (s (fst ir)) (snd ir)) post
  | Panic EDiffN => Nat.eqb k 1
  | Panic EIndex => Nat.eqb k 2
  end.
Definition pres_eqb (a b : pres) : bool :=
  match a, b with PB x, PB y => Bool.eqb x y | PZ x, PZ y => Z.eqb x y | _, _ => false end.

Definition out := (Z * list Z * Z)%type.
Definition out_eqb (a b : out) : bool :=
  let '(k1, p1, h1) := a in
  let '(k2, p2, h2) := b in
  (k1 =? k2)%Z && list_eqb Z.eqb p1 p2 && (h1 =? h2)%Z.
Definition vout (r : w3 * (Z * list Z)) : out := let '(w, (k, p)) := r in (k, p, hash (obs3 w)).

Inductive case :=
| CS (pre : list (nat * Reg float)) (p : spair) (o : oracle)
     (gk : nat) (gpost : list (nat * Reg float)) (ck : nat) (cpost : list (nat * Reg float))
| CP (pre : list (nat * Reg float)) (p : ppair) (eps : float) (gres cres : pres)
| CV (y : ty) (sp : bool) (setup : list op3) (p : vpair) (gout cout : out).

Definition check_generic (c : case) : bool :=
  match c with
  | CS pre p o gk gpost _ _ => res_ok (run_generic (FlF o) round32 p (load pre st0)) gk gpost
  | CP pre p eps gres _ => pres_eqb (pred_generic (FlF []) round32 p eps (load pre st0)) gres
  | CV y sp setup p gout _ => out_eqb (vout (step_generic y sp (run3 y init3 setup) p)) gout
  end.
Definition check_concrete (c : case) : bool :=
  match c with
  | CS pre p o _ _ ck cpost => res_ok (run_concrete (FlF o) round32 p (load pre st0)) ck cpost
  | CP pre p eps _ cres => pres_eqb (pred_concrete (FlF []) round32 p eps (load pre st0)) cres
  | CV y sp setup p _ cout => out_eqb (vout (step_concrete y sp (run3 y init3 setup) p)) cout
  end.
Definition check (c : case) : bool := check_generic c && check_concrete c.
Definition mism (cs : list case) : list nat := mismatches check cs.
(* which member disagrees with Go: (generic mismatches, concrete mismatches) *)
Definition mism2 (cs : list case) : list nat * list nat := (mismatches check_generic cs, mismatches check_concrete cs).

(* the models' own verdict on a case: do the two members agree IN THE MODEL (diagnosis / refutation witnesses) *)
Definition model_agree (c : case) : bool :=
  match c with
  | CS pre p o _ _ _ _ =>
      match run_generic (FlF o) round32 p (load pre st0), run_concrete (FlF o) round32 p (load pre st0) with
      | Ok s1, Ok s2 => forallb (fun ir => reg_eqb (s1 (fst ir)) (s2 (fst ir))) pre
      | Panic _, Panic _ => true
      | _, _ => false
      end
  | CP pre p eps _ _ => pres_eqb (pred_generic (FlF []) round32 p eps (load pre st0)) (pred_concrete (FlF []) round32 p eps (load pre st0))
  | CV y sp setup p _ _ =>
      out_eqb (vout (step_generic y sp (run3 y init3 setup) p)) (vout (step_concrete y sp (run3 y init3 setup) p))
  end.
