(* C09 correspondence, element-wise dense matrix pairs on VIEWS (family MW).  A case holds the backing arrays of the
   parents, the views of receiver and operands as (parent, parent shape, slice offsets, slice shape, transposed) —
   turned into headers INSIDE Coq by the regenerated DenseP.Slice / DenseP.T (C09.ModelMW.view) —, the operation, and
   what Go did for BOTH members on identically built worlds: panic flag and every cell of every parent afterwards.
   [check] replays the generic model and the concrete model of C09.ModelMW and compares EACH with its Go outcome. *)
From Coq Require Import ZArith List Bool.
From ADV Require Import Base.Corr C11.Model C03.Model C10.Gen C09.ModelMW.
Import ListNotations.
Open Scope Z_scope.

Inductive vspec := VW (k : nat) (pr pc ro co sr sc : Z) (t : bool).
Definition mkv (v : vspec) : hd := let 'VW k pr pc ro co sr sc t := v in view k pr pc ro co sr sc t.
Inductive wop := OpM (o : bop) | DivM | OpS (o : bop) (c : Z) | DivS (c : Z).
Inductive mwcase := CW (y : ty) (sts : stores) (r a b : vspec) (o : wop) (gk : Z) (gs : stores) (ck : Z) (cs : stores).
Definition mkpair (o : wop) (r a b : vspec) : wpair :=
  match o with
  | OpM o => WopM o (mkv r) (mkv a) (mkv b)
  | DivM => WdivM (mkv r) (mkv a) (mkv b)
  | OpS o c => WopS o (mkv r) (mkv a) c
  | DivS c => WdivS (mkv r) (mkv a) c
  end.
Definition out_ok (res : stores * bool) (k : Z) (s : stores) : bool :=
  let '(w, ok) := res in ((if ok then K_OK else K_PANIC) =? k) && list_eqb (list_eqb Z.eqb) w s.
Definition check_generic (c : mwcase) : bool :=
  let 'CW y sts r a b o gk gs _ _ := c in out_ok (wstep_generic y sts (mkpair o r a b)) gk gs.
Definition check_concrete (c : mwcase) : bool :=
  let 'CW y sts r a b o _ _ ck cs := c in out_ok (wstep_concrete y sts (mkpair o r a b)) ck cs.
Definition check (c : mwcase) : bool := check_generic c && check_concrete c.
Definition mism (cs : list mwcase) : list nat := mismatches check cs.
Definition mism2 (cs : list mwcase) : list nat * list nat := (mismatches check_generic cs, mismatches check_concrete cs).
