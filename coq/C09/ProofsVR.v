(* C09/ProofsVR.v — generic = concrete for the vector pairs over REAL elements (Real64 / Real32 cells:
   value, Order, N, gradient, Hessian), model C09/ModelVR.v.
   - dense: every pair, every register file, every cell list (all alias / overlap patterns), both storage
     roundings, element panics and the dimension panic included;
   - sparse, per visit schedule: equal register files whenever every visited operand entry is present;
     with an absent entry the members differ in the receiver cell's Order / N (F-C09-ABSENT-META), witness
     below. *)
From Coq Require Import ZArith List Bool Arith.
From ADV Require Import Base.Fl C01.Model C09.ModelS C09.ModelVR.
From ADV Require C09.ProofsS C09.ProofsRefuted.
Import ListNotations.

Section P.
Context {A : Type} (F : Fl A) (r32 : A -> A).
Notation St := (St (A := A)).

(* ------------------------------------------------------------------ loops *)
Lemma for_loop_ext (f g : nat -> St -> res St) :
  (forall i s, f i s = g i s) -> forall is s, for_loop f is s = for_loop g is s.
Proof.
  intros Hfg is. induction is as [|i rest IH]; intros s; cbn [for_loop]; [reflexivity|].
  rewrite Hfg. destruct (g i s) as [s'|e]; [apply IH|reflexivity].
Qed.
Lemma for_range_ext (f g : nat -> St -> res St) n s :
  (forall i s, f i s = g i s) -> for_range n f s = for_range n g s.
Proof. intros Hfg. unfold for_range. apply for_loop_ext, Hfg. Qed.
Lemma all_range_ext (f g : nat -> bool) :
  (forall i, f i = g i) -> forall is, all_range f is = all_range g is.
Proof.
  intros Hfg is. induction is as [|i rest IH]; cbn [all_range]; [reflexivity|].
  rewrite Hfg, IH. reflexivity.
Qed.

(* ------------------------------------------------------------------ one element *)
Lemma OP_concrete_is_op_generic o c x y (s : St) :
  OP_concrete F r32 o c x y s = op_generic F r32 o c (Rg x) (Rg y) s.
Proof.
  destruct o.
  - exact (ProofsS.scalar_pairs_agree_all F r32 (PAdd c x y) s).
  - exact (ProofsS.scalar_pairs_agree_all F r32 (PSub c x y) s).
  - exact (ProofsS.scalar_pairs_agree_all F r32 (PMul c x y) s).
  - exact (ProofsS.scalar_pairs_agree_all F r32 (PDiv c x y) s).
Qed.
Lemma SET_is_Set c x (s : St) : SET F r32 c x s = exec F r32 (ISet c (Rg x)) s.
Proof. exact (ProofsS.scalar_pairs_agree_all F r32 (PSet c x) s). Qed.
Lemma NEG_is_Neg c x (s : St) : NEG F r32 c x s = exec F r32 (IMon ONeg c (Rg x)) s.
Proof. exact (ProofsS.scalar_pairs_agree_all F r32 (PNeg c x) s). Qed.

(* ------------------------------------------------------------------ dense *)
Lemma VOPV_is_VopV o r a b (s : St) : RVOPV F r32 o r a b s = RVopV F r32 o r a b s.
Proof.
  unfold RVOPV, RVopV.
  destruct (negb (Nat.eqb (length a) (length r)) || negb (Nat.eqb (length b) (length r))) eqn:Hdim;
    [reflexivity|].
  apply f_equal. apply for_range_ext. intros i s'. apply OP_concrete_is_op_generic.
Qed.
Lemma VOPS_is_VopS o r a b (s : St) : RVOPS F r32 o r a b s = RVopS F r32 o r a b s.
Proof.
  unfold RVOPS, RVopS.
  destruct (negb (Nat.eqb (length a) (length r))) eqn:Hdim; [reflexivity|].
  apply f_equal. apply for_range_ext. intros i s'. apply OP_concrete_is_op_generic.
Qed.
Lemma VSET_is_VSet v w (s : St) : RVSET F r32 v w s = RVSet F r32 v w s.
Proof.
  unfold RVSET, RVSet.
  destruct (negb (Nat.eqb (length v) (length w))) eqn:Hdim; [reflexivity|].
  apply f_equal. apply for_range_ext. intros i s'. apply SET_is_Set.
Qed.

(* THE HEADLINE: VADDV VSUBV VMULV VDIVV VADDS VSUBS VMULS VDIVS SET of dense Real vectors *)
Lemma dense_real_vector_pairs_agree (p : vrpair) (s : St) : vr_concrete F r32 p s = vr_generic F r32 p s.
Proof.
  destruct p as [o r a b|o r a b|r a]; cbn [vr_concrete vr_generic].
  - apply VOPV_is_VopV.
  - apply VOPS_is_VopS.
  - apply VSET_is_VSet.
Qed.

(* dense EQUALS / Equals *)
Lemma dense_real_EQUALS_agrees a b eps (s : St) : RVEQUALS F a b eps s = RVEquals F a b eps s.
Proof.
  unfold RVEQUALS, RVEquals.
  destruct (negb (Nat.eqb (length a) (length b))) eqn:Hdim; [reflexivity|].
  apply f_equal. apply all_range_ext. intros i. reflexivity.
Qed.

(* ------------------------------------------------------------------ sparse, per schedule *)
Lemma body_present_agrees k v (s : St) :
  visit_present k v -> body_concrete F r32 k v s = body_generic F r32 k v s.
Proof.
  intros Hp. destruct v as [c nw oa ob]. unfold body_concrete, body_generic.
  cbn [vc va vb vnew].
  destruct k as [| | |sb|sb|]; cbn [visit_present va vb] in Hp.
  - destruct Hp as [Ha Hb]. destruct oa as [a|]; [|congruence]. destruct ob as [b|]; [|congruence].
    cbn [arg]. apply (OP_concrete_is_op_generic AAdd).
  - destruct Hp as [Ha Hb]. destruct oa as [a|]; [|congruence]. destruct ob as [b|]; [|congruence].
    cbn [arg]. apply (OP_concrete_is_op_generic ASub).
  - destruct Hp as [Ha Hb]. destruct oa as [a|]; [|congruence]. destruct ob as [b|]; [|congruence].
    cbn [arg]. apply (OP_concrete_is_op_generic AMul).
  - destruct oa as [a|]; [|congruence]. cbn [arg]. apply (OP_concrete_is_op_generic AMul).
  - reflexivity.
  - destruct oa as [a|]; [|congruence]. cbn [arg]. destruct nw as [kd|]; apply SET_is_Set.
Qed.

Lemma sparse_real_present_visits_agree k (sch : list visit) :
  Forall (visit_present k) sch ->
  forall s : St, vs_concrete F r32 k sch s = vs_generic F r32 k sch s.
Proof.
  unfold vs_concrete, vs_generic.
  induction 1 as [|v rest Hv Hrest IH]; intros s; cbn [visits]; [reflexivity|].
  rewrite (body_present_agrees k v s Hv).
  destruct (body_generic F r32 k v s) as [s'|e]; [apply IH|reflexivity].
Qed.

End P.

(* ------------------------------------------------------------------ F-C09-ABSENT-META *)
(* exact carrier Z (C09/ProofsRefuted.FlZ), storage rounding = identity.  The receiver has an entry of
   Order 1, N 2 at a position where neither operand has one.  VaddV: s_r.Add(ConstFloat64(0), ConstFloat64(0))
   reallocates the cell to Order 0, N 0; VADDV: s_r.SetFloat64(0.0) keeps Order 1, N 2 and zeroes the gradient.
   Value and derivative VALUES (GetDerivative) agree, the metadata does not. *)
Notation FlZ := ProofsRefuted.FlZ.
Definition idZ (x : Z) : Z := x.
Definition st_meta : St (A := Z) := fun k =>
  match k with
  | 0 => mkReg K64 3%Z 1 2 [1%Z; 0%Z] []
  | 1 => mkReg K64 5%Z 2 2 [0%Z; 1%Z] [[2%Z; 0%Z]; [0%Z; 4%Z]]
  | 2 => mkReg K64 7%Z 1 2 [1%Z; 1%Z] []
  | 3 => mkReg K64 (-2)%Z 0 0 [] []
  | _ => mkReg K64 0%Z 0 0 [] []
  end.
Definition sch_absent : list visit := [mkVisit 0 None None None].
(* value, Order, N, gradient storage, GetDerivative(0), GetDerivative(1) of register c *)
Definition peek (c : nat) (r : res (St (A := Z))) : option (Z * nat * nat * list Z * Z * Z) :=
  match r with
  | Ok s => Some (rval (s c), rorder (s c), rn (s c), rderiv (s c), gd FlZ (s c) 0, gd FlZ (s c) 1)
  | Panic _ => None
  end.

Lemma sparse_real_absent_visit_meta_witness :
  peek 0 (vs_generic FlZ idZ SAddV sch_absent st_meta) = Some (0%Z, 0, 0, [], 0%Z, 0%Z) /\
  peek 0 (vs_concrete FlZ idZ SAddV sch_absent st_meta) = Some (0%Z, 1, 2, [0%Z; 0%Z], 0%Z, 0%Z).
Proof. vm_compute. split; reflexivity. Qed.

Lemma sparse_real_absent_visit_meta_refuted :
  ~ (forall (k : spair_kind) (sch : list visit) (s : St (A := Z)),
       vs_concrete FlZ idZ k sch s = vs_generic FlZ idZ k sch s).
Proof.
  intros H. specialize (H SAddV sch_absent st_meta).
  destruct sparse_real_absent_visit_meta_witness as [G C].
  rewrite H in C. rewrite G in C. discriminate.
Qed.

(* ------------------------------------------------------------------ the statements are not vacuous *)
(* dense VMULV / VmulV with r = a = [cell 0; cell 1], b = [cell 2; cell 3]: both members run to the end
   and leave 3*7 with gradient [3*1 + 7*1; 3*1] in cell 0 and 5*(-2) with gradient/Hessian scaled by -2 in cell 1 *)
Definition peekv (c : nat) (r : vres (St (A := Z))) : option (Z * nat * nat * list Z * list (list Z)) :=
  match r with
  | VRun (Ok s) => Some (rval (s c), rorder (s c), rn (s c), rderiv (s c), rhess (s c))
  | _ => None
  end.
Example dense_real_pair_runs :
  let p := VRopV AMul [0; 1] [0; 1] [2; 3] in
  peekv 0 (vr_concrete FlZ idZ p st_meta) = Some (21%Z, 1, 2, [10%Z; 3%Z], []) /\
  peekv 1 (vr_concrete FlZ idZ p st_meta) = Some ((-10)%Z, 2, 2, [0%Z; (-2)%Z], [[(-4)%Z; 0%Z]; [0%Z; (-8)%Z]]) /\
  peekv 0 (vr_generic FlZ idZ p st_meta) = Some (21%Z, 1, 2, [10%Z; 3%Z], []) /\
  peekv 1 (vr_generic FlZ idZ p st_meta) = Some ((-10)%Z, 2, 2, [0%Z; (-2)%Z], [[(-4)%Z; 0%Z]; [0%Z; (-8)%Z]]) /\
  vr_concrete FlZ idZ (VRopV AAdd [0; 1] [1] [2; 2]) st_meta = VDimPanic.
Proof. vm_compute. repeat split; reflexivity. Qed.
(* a sparse schedule with every entry present (second visit: fresh receiver cell) *)
Definition sch_present : list visit := [mkVisit 0 None (Some 1) (Some 2); mkVisit 4 (Some K64) (Some 2) (Some 0)].
Example sparse_real_present_schedule_runs :
  Forall (visit_present SSubV) sch_present /\
  peek 4 (vs_concrete FlZ idZ SSubV sch_present st_meta) = Some (9%Z, 2, 2, [2%Z; 1%Z], 2%Z, 1%Z).
Proof.
  split; [|vm_compute; reflexivity].
  repeat constructor; cbn; discriminate.
Qed.
