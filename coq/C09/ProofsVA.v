(* C09/ProofsVA.v — vector-scalar pairs with the scalar operand passed by reference (C09/ModelVA.v):
   the concrete twins leave exactly the world of the generic members for every world and every reference
   (a scalar of its own, an element of the receiver, of the other operand, of any other vector), sparse VDIVS included
   (it calls VdivS since 5abb77d; F-C09-VDIVS-SELFREF retired, witness kept); an [AVal] operand is the by-value pair of ModelV.v; a reference that is not into the
   receiver is as good as its value (dense); a twin that reads the scalar once before the loop is refuted. *)
From Coq Require Import ZArith List Bool Lia.
From ADV Require Import C11.Model C03.Model C09.ModelV C09.ModelVA C09.ProofsJ C09.ProofsV.
Import ListNotations.
Open Scope Z_scope.

(* ------------------------------------------------------------------ dense *)
Lemma DCON_eq y o w r a s : DCON y o w r a s = dgen y o w r a s.
Proof. unfold DCON, dgen. rewrite DOP_eq. reflexivity. Qed.

(* ------------------------------------------------------------------ sparse joint loops *)
Lemma MAP2R_eq f (H0 : forall w, f w 0 = Some 0) : forall fuel w t j,
  MAP2R f fuel w t j = map2r_loop f fuel w t (embJ j).
Proof.
  induction fuel as [|fu IH]; intros w t j; cbn [MAP2R map2r_loop]; change (jok (embJ j)) with (jointC_ok j).
  - reflexivity.
  - destruct (jointC_ok j); [|reflexivity].
    cbn [embJ jidx js1 js2].
    destruct (cell_of w t (cidx j) (cs1 j)) as [[w0 l]|]; [|reflexivity].
    assert (E : match cs2 j with None => Some 0 | Some a => f w0 a end = f w0 (jval (cs2 j))).
    { destruct (cs2 j) as [a|]; cbn [jval]; [reflexivity | now rewrite H0]. }
    rewrite E. destruct (f w0 (jval (cs2 j))) as [x|]; [|reflexivity].
    change {| j1 := c1 j; j2 := CS (c2u j) (c2 j); jidx := cidx j; js1 := cs1 j; js2 := cs2 j; jok := jointC_ok j |}
      with (embJ j).
    rewrite jointC_next_embJ.
    destruct (jointC_next (seth w0 (hset (hp w0) l x)) t j) as [[w2 j']|]; cbn [liftJ]; [apply IH|reflexivity].
Qed.

Lemma VOPSR_eq f (H0 : forall w, f w 0 = Some 0) w t u : VOPSR f w t u = vop2r f w t (OS u).
Proof.
  unfold VOPSR, vop2r; cbn [op_dim]. rewrite (Z.eqb_sym (dim (getv w t))).
  destruct (negb (dim (getv w u) =? dim (getv w t))); [reflexivity|].
  rewrite jointC_begin_emb. destruct (jointC_begin w t u) as [[w1 j]|]; cbn [liftJ];
    [apply MAP2R_eq; assumption|reflexivity].
Qed.

Lemma SCON_eq y o d w t u s : SCON y o d w t u s = sgen y o d w t u s.
Proof.
  destruct o; cbn [SCON sgen]; try reflexivity.
  apply VOPSR_eq. intros w0. reflexivity.
Qed.

(* ------------------------------------------------------------------ the pairs *)
Lemma scalar_ref_pairs_agree y sp w p : stepA_concrete y sp w p = stepA_generic y sp w p.
Proof.
  unfold stepA_concrete, stepA_generic, run_ref.
  destruct (resolve sp w (ap_s p)) as [[w0 s]|]; [|reflexivity].
  destruct sp; [now rewrite SCON_eq | now rewrite DCON_eq].
Qed.

(* ------------------------------------------------------------------ an AVal operand is the by-value pair of ModelV.v *)
Lemma MAP2R_const f : forall fuel w t j, MAP2R (fun _ x => f x) fuel w t j = MAP2 f fuel w t j.
Proof.
  induction fuel as [|fu IH]; intros w t j; cbn [MAP2R MAP2]; [reflexivity|].
  destruct (jointC_ok j); [|reflexivity].
  destruct (cell_of w t (cidx j) (cs1 j)) as [[w0 l]|]; [|reflexivity].
  destruct (match cs2 j with None => Some 0 | Some a => f a end) as [x|]; [|reflexivity].
  destruct (jointC_next (seth w0 (hset (hp w0) l x)) t j) as [[w2 j']|]; [apply IH|reflexivity].
Qed.
Lemma VOPSR_const f w t u : VOPSR (fun _ x => f x) w t u = VOPS f w t u.
Proof.
  unfold VOPSR, VOPS. destruct (negb (dim (getv w t) =? dim (getv w u))); [reflexivity|].
  destruct (jointC_begin w t u) as [[w1 j]|]; [apply MAP2R_const|reflexivity].
Qed.
Lemma map2r_const g : forall fuel w t j, map2r_loop (fun _ x => Some (g x)) fuel w t j = map2_loop g fuel w t j.
Proof.
  induction fuel as [|fu IH]; intros w t j; cbn [map2r_loop map2_loop]; [reflexivity|].
  destruct (jok j); [|reflexivity].
  rewrite wr_cell. destruct (cell_of w t (jidx j) (js1 j)) as [[w0 l]|]; [|reflexivity].
  destruct (joint_next (seth w0 (hset (hp w0) l (g (jval (js2 j))))) t j) as [[w2 j']|]; [apply IH|reflexivity].
Qed.
Lemma vop2r_const g w t o : vop2r (fun _ x => Some (g x)) w t o = vop2 g w t o.
Proof.
  unfold vop2r, vop2. destruct (negb (op_dim w o =? dim (getv w t))); [reflexivity|].
  destruct (joint_begin w t o) as [[w1 j]|]; [apply map2r_const|reflexivity].
Qed.
Lemma map2r_ext f f' (E : forall w x, f w x = f' w x) : forall fuel w t j,
  map2r_loop f fuel w t j = map2r_loop f' fuel w t j.
Proof.
  induction fuel as [|fu IH]; intros w t j; cbn [map2r_loop]; [reflexivity|].
  destruct (jok j); [|reflexivity].
  destruct (cell_of w t (jidx j) (js1 j)) as [[w0 l]|]; [|reflexivity].
  rewrite E. destruct (f' w0 (jval (js2 j))) as [x|]; [|reflexivity].
  destruct (joint_next (seth w0 (hset (hp w0) l x)) t j) as [[w2 j']|]; [apply IH|reflexivity].
Qed.
Lemma vop2r_ext f f' (E : forall w x, f w x = f' w x) w t o : vop2r f w t o = vop2r f' w t o.
Proof.
  unfold vop2r. destruct (negb (op_dim w o =? dim (getv w t))); [reflexivity|].
  destruct (joint_begin w t o) as [[w1 j]|]; [apply map2r_ext; exact E|reflexivity].
Qed.

Lemma by_value_concrete y sp w o r a c :
  stepA_concrete y sp w {| ap_op := o; ap_r := r; ap_a := a; ap_s := AVal c |} = step_concrete y sp w (vpair_of o r a c).
Proof.
  unfold stepA_concrete, run_ref, step_concrete; cbn [resolve ap_op ap_r ap_a ap_s].
  destruct sp.
  - destruct o; cbn [vpair_of SCON sgen generic_op ref_ step3 to_op sread_s sread lift].
    + destruct (vopS _ (sw w) r (OS a)) as [s1 ok]. reflexivity.
    + destruct (vopS _ (sw w) r (OS a)) as [s1 ok]. reflexivity.
    + unfold VMULS. now rewrite VOPSR_const.
    + unfold vdivs. destruct (c =? 0) eqn:E.
      * apply Z.eqb_eq in E. subst c. destruct (vopS _ (sw w) r (OS a)) as [s1 ok]. reflexivity.
      * rewrite (vop2r_ext _ (fun _ x => Some (Z.quot x c))); [now rewrite vop2r_const|].
        intros w1 x. unfold sdiv. now rewrite E.
  - destruct o; reflexivity.
Qed.
Lemma by_value_generic y sp w o r a c :
  stepA_generic y sp w {| ap_op := o; ap_r := r; ap_a := a; ap_s := AVal c |} = step_generic y sp w (vpair_of o r a c).
Proof.
  unfold stepA_generic, run_ref, step_generic; cbn [resolve ap_op ap_r ap_a ap_s].
  destruct sp.
  - destruct o; cbn [vpair_of sgen generic_op ref_ step3 to_op sread_s sread lift].
    + destruct (vopS _ (sw w) r (OS a)) as [s1 ok]. reflexivity.
    + destruct (vopS _ (sw w) r (OS a)) as [s1 ok]. reflexivity.
    + now rewrite vop2r_const.
    + unfold vdivs. destruct (c =? 0) eqn:E.
      * apply Z.eqb_eq in E. subst c. destruct (vopS _ (sw w) r (OS a)) as [s1 ok]. reflexivity.
      * rewrite (vop2r_ext _ (fun _ x => Some (Z.quot x c))); [now rewrite vop2r_const|].
        intros w1 x. unfold sdiv. now rewrite E.
  - destruct o; reflexivity.
Qed.

(* ------------------------------------------------------------------ a reference outside the receiver is its value *)
Lemma nth_upd_other {X} (d : X) x : forall n m l, n <> m -> nth m (upd n x l) d = nth m l d.
Proof.
  induction n as [|n IH]; intros m l Hnm; destruct l as [|y l]; cbn; try reflexivity.
  - destruct m; [contradiction|reflexivity].
  - destruct m; [reflexivity|]. apply IH. intros ->. now apply Hnm.
Qed.
Lemma getd_setd_other w r l k : r <> k -> getd (setd w r l) k = getd w k.
Proof. intros H. unfold getd, setd; cbn [dn]. now apply nth_upd_other. Qed.

Lemma DLOOP_inv (P : w3 -> Prop) g g' r
  (HP : forall w i x, P w -> P (setd w r (upd (Z.to_nat i) x (getd w r))))
  (Hg : forall w i, P w -> g w i = g' w i) : forall cnt i w, P w -> DLOOP g cnt i w r = DLOOP g' cnt i w r.
Proof.
  induction cnt as [|c IH]; intros i w Hw; cbn [DLOOP]; [reflexivity|].
  rewrite (Hg _ _ Hw). destruct (g' w i) as [x|]; [|reflexivity]. apply IH. now apply HP.
Qed.

Lemma dense_ref_outside_receiver y o w r a k i : k <> r ->
  DCON y o w r a (SDense k i) = DCON y o w r a (SVal (sread w (SDense k i))).
Proof.
  intros Hk. unfold DCON, DOP.
  destruct (forallb (fun x => zlen (getd w x) =? zlen (getd w r)) [a]); [|reflexivity].
  apply (DLOOP_inv (fun w' => getd w' k = getd w k)).
  - intros w' j x Hw'. rewrite getd_setd_other; [exact Hw'|]. intros E. now apply Hk.
  - intros w' j Hw'. cbn [sread]. now rewrite Hw'.
  - reflexivity.
Qed.

(* ------------------------------------------------------------------ witnesses *)
(* dense r = [2; 3], a = [5; 7] *)
Definition wd : w3 := run3 TInt init3 [NewD [2; 3]; NewD [5; 7]].
(* sparse r = [4, 2, _, _], a = [_, _, 2, 4] ; r' = [2, 3], a' = [5, 7] *)
Definition wsp : w3 := run3 TFloat init3 [NewS [0; 1] [4; 2] 4; NewS [2; 3] [2; 4] 4; NewS [0; 1] [2; 3] 2; NewS [0; 1] [5; 7] 2].
Definition p_mul_self (r a : nat) : apair := {| ap_op := SMul; ap_r := r; ap_a := a; ap_s := AElem r 0 |}.
Definition p_div_self (r a : nat) : apair := {| ap_op := SDiv; ap_r := r; ap_a := a; ap_s := AElem r 0 |}.

(* r.VMULS(a, r.AT(0)): both members re-read the scalar: r = [10; 70]; the cached twin leaves [10; 14] *)
Lemma reread_witness_dense :
  getd (fst (stepA_concrete TInt false wd (p_mul_self 0 1))) 0%nat = [10; 70] /\
  getd (fst (stepA_generic TInt false wd (p_mul_self 0 1))) 0%nat = [10; 70] /\
  getd (fst (stepA_cached TInt false wd (p_mul_self 0 1))) 0%nat = [10; 14].
Proof. vm_compute. repeat split. Qed.
Lemma cached_dense_refuted : ~ (forall y w p, stepA_cached y false w p = stepA_generic y false w p).
Proof. intros H. specialize (H TInt wd (p_mul_self 0 1)). vm_compute in H. discriminate H. Qed.
Lemma cached_sparse_refuted : ~ (forall y w p, stepA_cached y true w p = stepA_generic y true w p).
Proof. intros H. specialize (H TFloat wsp (p_mul_self 2 3)). vm_compute in H. discriminate H. Qed.
Lemma reread_witness_sparse :
  abs_vec (hp (sw (fst (stepA_concrete TFloat true wsp (p_mul_self 2 3))))) (getv (sw (fst (stepA_concrete TFloat true wsp (p_mul_self 2 3)))) 2) = [10; 70] /\
  abs_vec (hp (sw (fst (stepA_generic TFloat true wsp (p_mul_self 2 3))))) (getv (sw (fst (stepA_generic TFloat true wsp (p_mul_self 2 3)))) 2) = [10; 70] /\
  abs_vec (hp (sw (fst (stepA_cached TFloat true wsp (p_mul_self 2 3))))) (getv (sw (fst (stepA_cached TFloat true wsp (p_mul_self 2 3)))) 2) = [10; 14].
Proof. vm_compute. repeat split. Qed.

(* the witness of the retired finding F-C09-VDIVS-SELFREF: r = [4, 2, _, _], a = [_, _, 2, 4], b = r.AT(0): position 0
   stores 0 / 4 = 0 INTO THE DIVISOR; position 1 (a absent): 0 / 0 = NaN — in BOTH members since VDIVS calls VdivS
   (5abb77d; the typed loop stored 0 there); integer element types: both panic *)
Lemma sparse_VDIVS_selfref_witness_agrees :
  abs_vec (hp (sw (fst (stepA_generic TFloat true wsp (p_div_self 0 1))))) (getv (sw (fst (stepA_generic TFloat true wsp (p_div_self 0 1)))) 0) = [0; NAN; PINF; PINF] /\
  abs_vec (hp (sw (fst (stepA_concrete TFloat true wsp (p_div_self 0 1))))) (getv (sw (fst (stepA_concrete TFloat true wsp (p_div_self 0 1)))) 0) = [0; NAN; PINF; PINF] /\
  snd (stepA_generic TInt true wsp (p_div_self 0 1)) = (K_PANIC, []) /\
  snd (stepA_concrete TInt true wsp (p_div_self 0 1)) = (K_PANIC, []).
Proof. vm_compute. repeat split. Qed.
(* a self-referencing divisor that never vanishes: r' = [2, 3], a' = [5, 7] over the integers: 5 / 2 = 2, 7 / 2 = 3 *)
Lemma VDIVS_selfref_example :
  abs_vec (hp (sw (fst (stepA_concrete TInt true wsp (p_div_self 2 3))))) (getv (sw (fst (stepA_concrete TInt true wsp (p_div_self 2 3)))) 2) = [2; 3].
Proof. vm_compute. reflexivity. Qed.
