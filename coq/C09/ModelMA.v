(* C09/ModelMA.v — MaddS/MADDS MsubS/MSUBS MmulS/MMULS MdivS/MDIVS of dense matrices with the SCALAR operand passed BY
   REFERENCE   /repo/matrix_dense_template_math.in:
     generic : for i { for j { r.At(i, j).Add(a.ConstAt(i, j), b) } }
     concrete: for i { for j { r.AT(i, j).ADD(a.AT(i, j), b) } }
   m.AT(i, j) = Float64{&m.values[m.index(i, j)]}; passed as b it is read again by every ADD / Add (b.GetFloat64()), so
   r.MADDS(a, r.AT(0, 0)) adds the NEW r[0,0] from the second cell on.  ModelM.v / C03.ModelM pass the scalar by value;
   here both members again, with the scalar a reference into the matrix world:
     MSVal c     a scalar of its own
     MSMat k p   &values[p] of dense matrix k (p = index(i, j), the kernel C10.Gen regenerates from the Go source)
     MSVec k i   &v[i] of dense vector k
   The generic member is C03.ModelM's row-major loop [dmop] (its g reads the CURRENT world), the concrete one the nested
   loops over AT of ModelM.v.  [cached]: the twin that reads the scalar once before the loops — only to be refuted.
   No proofs in this file. *)
From Coq Require Import ZArith List Bool Lia.
From ADV Require Import C11.Model C03.Model C03.ModelM C10.Gen C09.ModelM C09.ModelVA.
Import ListNotations.
Open Scope Z_scope.

Inductive msref := MSVal (c : Z) | MSMat (k : nat) (p : Z) | MSVec (k : nat) (i : Z).
Definition mread (w : w4) (s : msref) : Z :=
  match s with
  | MSVal c => c
  | MSMat k p => nth (Z.to_nat p) (dvals w k) 0
  | MSVec k i => nth (Z.to_nat i) (getd (b3 w) k) 0
  end.
(* the scalar operand as the caller writes it: a value, m.At(i, j), v.At(i) *)
Inductive msarg := MAVal (c : Z) | MAMat (k : nat) (i j : Z) | MAVec (k : nat) (i : Z).
Definition mresolve (w : w4) (a : msarg) : option msref :=
  match a with
  | MAVal c => Some (MSVal c)
  | MAMat k i j => match AT w k i j with Some p => Some (MSMat k p) | None => None end
  | MAVec k i => if (0 <=? i) && (i <? zlen (getd (b3 w) k)) then Some (MSVec k i) else None
  end.

(* concrete: the nested loops of MOPS with the scalar read in the current world *)
Definition MOPSR (f : Z -> Z -> option Z) (w : w4) (r a : nat) (s : msref) : w4 * (Z * list Z) :=
  let '(n, m) := mdims w (XD r) in
  let '(n1, m1) := mdims w (XD a) in
  if negb ((n1 =? n) && (m1 =? m)) then panic w else
  fin (for_i (put_body r (fun w' i j => two f (ATv w' a i j) (Some (mread w' s)))) (Z.to_nat n) (Z.to_nat m) 0 w).
(* generic: C03.ModelM's dense loop *)
Definition mopsr_generic (f : Z -> Z -> option Z) (w : w4) (r a : nat) (s : msref) : w4 * (Z * list Z) :=
  dmop (fun w' k => f (mrd w' (XD a) k) (mread w' s)) w r [XD a].

Record mapair := { mp_op : sop; mp_r : nat; mp_a : nat; mp_s : msarg }.
Definition mrun (body : msref -> w4 * (Z * list Z)) (w : w4) (a : msarg) : w4 * (Z * list Z) :=
  match mresolve w a with None => panic w | Some s => body s end.
Definition mstepA_generic (y : ty) (w : w4) (p : mapair) : w4 * (Z * list Z) :=
  mrun (fun s => mopsr_generic (sop_f y (mp_op p)) w (mp_r p) (mp_a p) s) w (mp_s p).
Definition mstepA_concrete (y : ty) (w : w4) (p : mapair) : w4 * (Z * list Z) :=
  mrun (fun s => MOPSR (sop_f y (mp_op p)) w (mp_r p) (mp_a p) s) w (mp_s p).
Definition mstepA_cached (y : ty) (w : w4) (p : mapair) : w4 * (Z * list Z) :=
  mrun (fun s => MOPS (sop_f y (mp_op p)) w (mp_r p) (mp_a p) (mread w s)) w (mp_s p).
(* the by-value pair of ModelM.v that an [MAVal] operand denotes *)
Definition mpair_of (o : sop) (r a : nat) (c : Z) : mpair :=
  match o with SAdd => MPaddS r a c | SSub => MPsubS r a c | SMul => MPmulS r a c | SDiv => MPdivS r a c end.
