(* C09/ProofsJ.v — the typed joint iterators JOINT_ITERATOR_ / JOINT3_ITERATOR_ (C09/ModelV.v) step exactly
   like the generic joint iterators of C11/Model.v whose second/third iterator is the ConstIterator of a
   sparse vector, for EVERY world (all zero patterns, stored zeros, operands aliasing each other or the
   receiver) — the embedding [embJ]/[emb3] commutes with Next() and with the constructors. *)
From Coq Require Import ZArith List Bool Lia.
From ADV Require Import C11.Model C03.Model C09.ModelV.
Import ListNotations.
Open Scope Z_scope.

Definition embJ (j : jointC) : joint :=
  {| j1 := c1 j; j2 := CS (c2u j) (c2 j); jidx := cidx j; js1 := cs1 j; js2 := cs2 j; jok := jointC_ok j |}.
Definition emb3 (j : joint3C) : joint3 :=
  {| k1 := d1 j; k2 := CS (d2u j) (d2 j); k3 := CS (d3u j) (d3 j); kidx := didx j;
     ks1 := ds1 j; ks2 := ds2 j; ks3 := ds3 j; kok := joint3C_ok j |}.
Definition liftJ (r : option (world * jointC)) : option (world * joint) :=
  match r with Some (w, j) => Some (w, embJ j) | None => None end.
Definition lift3J (r : option (world * joint3C)) : option (world * joint3) :=
  match r with Some (w, j) => Some (w, emb3 j) | None => None end.

Lemma present_some {X} (o : option X) : present o = match o with Some _ => true | None => false end.
Proof. reflexivity. Qed.

Lemma ci_next_CS w u cur :
  ci_next w (CS u cur) = match adv w u cur with Some (w', c') => Some (w', CS u c') | None => None end.
Proof. unfold ci_next, adv. destruct (it_next (hp w) (getv w u) cur) as [[v' c']|]; reflexivity. Qed.

Lemma jointC_next_emb w t j j2flag :
  joint_next w t {| j1 := c1 j; j2 := CS (c2u j) (c2 j); jidx := cidx j; js1 := cs1 j; js2 := cs2 j; jok := j2flag |}
  = liftJ (jointC_next w t j).
Proof.
  unfold joint_next, jointC_next, adv, it_get; cbn [j1 j2 jidx js1 js2 jok ci_ok ci_index ci_get ci_next].
  destruct j as [a1 u a2 ix s1 s2]; cbn [c1 c2u c2 cidx cs1 cs2].
  destruct a1 as [k|]; destruct a2 as [i2|]; cbn [present negb orb andb].
  - destruct (i2 <? k) eqn:E1; cbn [orb present].
    + destruct (lookup i2 (vals (getv w u))) as [l2|] eqn:L2; cbn [present].
      * destruct (it_next (hp w) (getv w u) (Some i2)) as [[v2 n2]|]; reflexivity.
      * reflexivity.
    + destruct (k =? i2) eqn:E2; cbn [present].
      * destruct (lookup k (vals (getv w t))) as [l1|] eqn:L1; cbn [present];
        destruct (lookup i2 (vals (getv w u))) as [l2|] eqn:L2; cbn [present];
        repeat match goal with
        | |- context [it_next ?h ?v ?c] => destruct (it_next h v c) as [[? ?]|] eqn:?
        end; reflexivity.
      * destruct (lookup k (vals (getv w t))) as [l1|] eqn:L1; cbn [present];
        repeat match goal with
        | |- context [it_next ?h ?v ?c] => destruct (it_next h v c) as [[? ?]|] eqn:?
        end; reflexivity.
  - destruct (lookup k (vals (getv w t))) as [l1|] eqn:L1; cbn [present];
    repeat match goal with
    | |- context [it_next ?h ?v ?c] => destruct (it_next h v c) as [[? ?]|] eqn:?
    end; reflexivity.
  - rewrite Bool.orb_true_r.
    destruct (lookup i2 (vals (getv w u))) as [l2|] eqn:L2; cbn [present];
    repeat match goal with
    | |- context [it_next ?h ?v ?c] => destruct (it_next h v c) as [[? ?]|] eqn:?
    end; reflexivity.
  - reflexivity.
Qed.

Lemma jointC_next_embJ w t j : joint_next w t (embJ j) = liftJ (jointC_next w t j).
Proof. unfold embJ. apply jointC_next_emb. Qed.

Lemma jointC_begin_emb w t u : joint_begin w t (OS u) = liftJ (jointC_begin w t u).
Proof.
  unfold joint_begin, jointC_begin, ci_begin.
  destruct (it_begin (hp w) (getv w t)) as [[v' n1]|]; [|reflexivity].
  destruct (it_begin (hp (setv w t v')) (getv (setv w t v') u)) as [[v2 n2]|]; [|reflexivity].
  exact (jointC_next_emb (setv (setv w t v') u v2) t
           {| c1 := n1; c2u := u; c2 := n2; cidx := -1; cs1 := None; cs2 := None |} false).
Qed.

Ltac split_atom :=
  match goal with
  | |- context [?a <? ?b] => is_var a; is_var b; destruct (a <? b) eqn:?
  | |- context [?a =? ?b] => is_var a; is_var b; destruct (a =? b) eqn:?
  | |- context [lookup ?k (vals (getv ?w ?u))] => is_var k; is_var w; destruct (lookup k (vals (getv w u))) eqn:?
  end; cbn [present negb orb andb].
Ltac split_next :=
  match goal with
  | |- context [it_next ?h ?v ?c] => destruct (it_next h v c) as [[? ?]|] eqn:?
  end; cbn [present negb orb andb].

Lemma joint3C_next_emb w t j flag :
  joint3_next w t {| k1 := d1 j; k2 := CS (d2u j) (d2 j); k3 := CS (d3u j) (d3 j); kidx := didx j;
                     ks1 := ds1 j; ks2 := ds2 j; ks3 := ds3 j; kok := flag |}
  = lift3J (joint3C_next w t j).
Proof.
  unfold joint3_next, joint3C_next, adv, it_get; cbn [k1 k2 k3 kidx ks1 ks2 ks3 kok ci_ok ci_index ci_get ci_next].
  destruct j as [a1 u2 a2 u3 a3 ix s1 s2 s3]; cbn [d1 d2u d2 d3u d3 didx ds1 ds2 ds3].
  destruct a1 as [k|]; destruct a2 as [i2|]; destruct a3 as [i3|]; cbn [present negb orb andb];
  rewrite ?Bool.orb_true_r, ?Bool.orb_false_r; cbn [present negb orb andb];
  repeat split_atom; repeat split_next; try reflexivity.
Qed.

Lemma joint3C_next_emb3 w t j : joint3_next w t (emb3 j) = lift3J (joint3C_next w t j).
Proof. unfold emb3. apply joint3C_next_emb. Qed.

Lemma joint3C_begin_emb w t u2 u3 : joint3_begin w t (OS u2) (OS u3) = lift3J (joint3C_begin w t u2 u3).
Proof.
  unfold joint3_begin, joint3C_begin, ci_begin.
  destruct (it_begin (hp w) (getv w t)) as [[v' n1]|]; [|reflexivity].
  destruct (it_begin (hp (setv w t v')) (getv (setv w t v') u2)) as [[v2 n2]|]; [|reflexivity].
  destruct (it_begin (hp (setv (setv w t v') u2 v2)) (getv (setv (setv w t v') u2 v2) u3)) as [[v3 n3]|]; [|reflexivity].
  exact (joint3C_next_emb (setv (setv (setv w t v') u2 v2) u3 v3) t
           {| d1 := n1; d2u := u2; d2 := n2; d3u := u3; d3 := n3; didx := -1; ds1 := None; ds2 := None; ds3 := None |} false).
Qed.
