(* C09/Props.v — generic and concrete-typed methods are interchangeable: the decision.
   Statements only; proofs in ProofsS / ProofsB / ProofsJ / ProofsV / ProofsRefuted.
   Every theorem quantifies over ALL states (register files / worlds): all operand values, Orders, N,
   derivative contents, zero patterns, explicitly stored zeros, receiver = operand and operand = operand
   aliasing (operands are register ids / vector handles).  The pairs that are not interchangeable at HEAD
   are refuted with witnesses; the theorems exclude exactly those, visibly in their statements. *)
From Coq Require Import ZArith QArith List Bool Floats.
From ADV Require Import Base.Fl C01.Model C02.Model C11.Model C03.Model C03.ModelM.
From ADV Require Import C09.ModelS C09.ModelB C09.ModelV C09.ModelM C09.ModelMD C09.ModelVR C09.ModelI C09.ModelVA C09.ModelMA C09.Spec.
From ADV Require Import C10.Gen C09.ModelMW.
From ADV Require C09.ProofsMW C09.ProofsMW2.
From ADV Require C09.ProofsS C09.ProofsB C09.ProofsJ C09.ProofsV C09.ProofsRefuted C09.ProofsRefutedB C09.CorrB C09.ProofsM C09.ProofsMD C09.ProofsVR C09.ProofsI C09.ProofsVA C09.ProofsMA.
Import ListNotations.

(* ------------------------------------------------------------------ magic scalars *)
(* the four concrete combinators are the generic ones (the eight textual copies are two functions) *)
Theorem realMonadic_is_monadic : forall {A} (F : Fl A) r32 c a v0 v1 v2 s,
  realMonadic F r32 c a v0 v1 v2 s = monadic F r32 c (Rg a) v0 v1 v2 s.
Proof. exact @ProofsS.realMonadic_eq. Qed.
Theorem realMonadicLazy_is_monadicLazy : forall {A} (F : Fl A) r32 c a v0 f1 f2 s,
  realMonadicLazy F r32 c a v0 f1 f2 s = monadic_lazy F r32 c (Rg a) v0 f1 f2 s.
Proof. exact @ProofsS.realMonadicLazy_eq. Qed.
Theorem realDyadic_is_dyadic : forall {A} (F : Fl A) r32 c a b v0 v10 v01 v11 v20 v02 s,
  realDyadic F r32 c a b v0 v10 v01 v11 v20 v02 s = dyadic F r32 c (Rg a) (Rg b) v0 v10 v01 v11 v20 v02 s.
Proof. exact @ProofsS.realDyadic_eq. Qed.
Theorem realDyadicLazy_is_dyadicLazy : forall {A} (F : Fl A) r32 c a b v0 f1 f2 s,
  realDyadicLazy F r32 c a b v0 f1 f2 s = dyadic_lazy F r32 c (Rg a) (Rg b) v0 f1 f2 s.
Proof. exact @ProofsS.realDyadicLazy_eq. Qed.

(* NEG ADD SUB MUL DIV POW SQRT EXP LOG LOG1P MIN MAX ABS SET LOGADD LOGSUB: same register file, same panics,
   over every carrier (R, floats, ...) and both storage roundings (Real64 / Real32).  ABS: since 2fc8894 it
   switches on the argument's sign with a Reset case (round 1: refuted); SET: since d9fca78 Alloc before Order. *)
Theorem scalar_pairs_interchangeable : forall {A} (F : Fl A) (r32 : A -> A) (p : spair),
  scalar_interchangeable F r32 p.
Proof. exact (fun A F r32 p s => ProofsS.scalar_pairs_agree_all F r32 p s). Qed.
Theorem scalar_predicates_interchangeable : forall {A} (F : Fl A) (r32 : A -> A) (p : ppair),
  predicate_interchangeable F r32 p.
Proof. exact (fun A F r32 p eps s => ProofsS.scalar_predicates_agree F r32 p eps s). Qed.
Theorem ABS_interchangeable : forall {A} (F : Fl A) (r32 : A -> A) c a,
  scalar_interchangeable F r32 (PAbs c a).
Proof. exact (fun A F r32 c a s => ProofsS.ABS_eq F r32 c a s). Qed.
(* the concrete ABS of this file is the instruction IABSc of the shared scalar model *)
Theorem ABS_is_shared_model_ABS : forall {A} (F : Fl A) (r32 : A -> A) c a s,
  ModelS.ABS F r32 c a s = exec F r32 (IABSc c (Rg a)) s.
Proof. exact (fun A F r32 c a s => ProofsS.ABS_is_do_ABS_concrete F r32 c a s). Qed.
(* round-1 witnesses of the retired findings F-C09-ABS and F-C09-SETORD: both members agree now *)
Theorem ABS_round1_witness_regression :
  match run_generic ProofsRefuted.FlZ (fun x => x) (PAbs 0 1) ProofsRefuted.st_abs with C01.Model.Ok s => rval (s 0%nat) | C01.Model.Panic _ => 0%Z end = 4%Z /\
  match run_concrete ProofsRefuted.FlZ (fun x => x) (PAbs 0 1) ProofsRefuted.st_abs with C01.Model.Ok s => rval (s 0%nat) | C01.Model.Panic _ => 0%Z end = 4%Z.
Proof. exact ProofsRefuted.ABS_round1_witness_agrees. Qed.

(* ------------------------------------------------------------------ bare scalars *)
(* every pair but Sqrt/SQRT, ABS included (2fc8894: the template got the same fix) *)
Theorem bare_pairs_interchangeable : forall {A} (C : Car A) p t cold a b,
  bare t -> wt C t a -> wt C t b -> ProofsB.not_sqrt p ->
  b_concrete C p t cold a b = b_generic C p t cold a b.
Proof. exact @ProofsB.bare_pairs_agree_but_sqrt. Qed.
(* bare LOGADD / LOGSUB (sequences SUB EXP [NEG] LOG1P ADD on a temporary of the receiver's type) on a carrier whose
   float32 rounding is idempotent *)
Theorem bare_LOGADD_LOGSUB_interchangeable : forall {A} (C : Car A) p t cold a b,
  bare t -> ProofsB.r32_idem C -> wt C t a -> wt C t b -> (p = BLogAddP \/ p = BLogSubP) ->
  b_concrete C p t cold a b = b_generic C p t cold a b.
Proof. exact @ProofsB.bare_logadd_logsub_agree. Qed.
Theorem bare_ABS_interchangeable : forall {A} (C : Car A) t cold a b,
  bare t -> wt C t a -> b_concrete C BAbsP t cold a b = b_generic C BAbsP t cold a b.
Proof. exact (fun A C t cold a b Hb Ha => ProofsB.abs_pair C t cold a Hb Ha). Qed.
Theorem bare_predicates_interchangeable : forall {A} (C : Car A) p t a b eps,
  bare t -> wt C t a -> wt C t b -> cr32 C (clit C L0) = clit C L0 ->
  q_concrete C p t a b eps = q_generic C p t a b eps.
Proof. exact @ProofsB.bare_predicates_agree. Qed.
(* Sqrt/SQRT: exactly where math.Pow(x, 0.5) and math.Sqrt(x) return the same value *)
Theorem bare_SQRT_interchangeable_partial : forall {A} (C : Car A) t cold a b,
  cpow C (getf64 C a) (clit C Lhalf) = cfn C FSqrt (getf64 C a) ->
  b_concrete C BSqrtP t cold a b = b_generic C BSqrtP t cold a b.
Proof. exact @ProofsB.bare_sqrt_agree. Qed.
Theorem bare_SQRT_refuted :
  b_generic (CorrB.CarF ProofsRefutedB.orc_m0) BSqrtP TFloat64 (VF 0%float) (VF (-0)%float) (VF (-0)%float) = Val (VF 0%float) /\
  CorrB.out_ok (b_concrete (CorrB.CarF ProofsRefutedB.orc_m0) BSqrtP TFloat64 (VF 0%float) (VF (-0)%float) (VF (-0)%float))
               (CorrB.GVal (VF 0%float)) = false /\
  CorrB.out_ok (b_concrete (CorrB.CarF ProofsRefutedB.orc_m0) BSqrtP TFloat64 (VF 0%float) (VF (-0)%float) (VF (-0)%float))
               (CorrB.GVal (VF (-0)%float)) = true.
Proof. exact ProofsRefutedB.bare_SQRT_refuted_minus_zero. Qed.

(* ------------------------------------------------------------------ vectors *)
(* the typed joint iterators step like the generic ones on sparse operands *)
Theorem JOINT_ITERATOR__steps_like_JOINT_ITERATOR : forall w t j,
  joint_next w t (ProofsJ.embJ j) = ProofsJ.liftJ (jointC_next w t j).
Proof. exact ProofsJ.jointC_next_embJ. Qed.
Theorem JOINT3_ITERATOR__steps_like_JOINT3_ITERATOR : forall w t j,
  joint3_next w t (ProofsJ.emb3 j) = ProofsJ.lift3J (joint3C_next w t j).
Proof. exact ProofsJ.joint3C_next_emb3. Qed.

(* sparse: VADDV VSUBV VMULV VMULS SET, VADDS VSUBS VDIVV VDIVS (they call the generic member; VDIVS since 5abb77d, every
   divisor, 0 included); dense: all ten pairs.  Only sparse Equals/EQUALS is excluded (refuted below).
   Same world (abstraction AND coherence state of receiver and operands), same outcome kind and payload. *)
Theorem vector_pairs_interchangeable : forall y sp p,
  ProofsV.vpair_ok sp p -> vector_interchangeable y sp p.
Proof. exact (fun y sp p H w => ProofsV.vector_pairs_agree y sp w p H). Qed.
Theorem sparse_EQUALS_true_implies_Equals_partial : forall y w a b e2 w',
  step_concrete y true w (VPequals a b e2) = (w', (K_OK, [1%Z])) ->
  step_generic y true w (VPequals a b e2) = (w', (K_OK, [1%Z])).
Proof. exact ProofsV.sparse_EQUALS_true_implies_Equals. Qed.
Theorem sparse_EQUALS_refuted : ~ vector_interchangeable TInt true (VPequals 0 1 5).
Proof. exact ProofsRefuted.sparse_EQUALS_refuted. Qed.
(* the round-1 witness of the retired finding F-C09-VDIVS-ZERO (r = a = [], divisor 0): both members agree now *)
Theorem sparse_VDIVS_zero_witness_regression :
  fst (snd (step_generic TInt true ProofsRefuted.w_div (VPdivS 0 1 0))) = K_PANIC /\
  fst (snd (step_concrete TInt true ProofsRefuted.w_div (VPdivS 0 1 0))) = K_PANIC /\
  C03.Model.rd (fst (step_generic TFloat true ProofsRefuted.w_div (VPdivS 0 1 0))) (RS 0) 0 = NAN /\
  C03.Model.rd (fst (step_concrete TFloat true ProofsRefuted.w_div (VPdivS 0 1 0))) (RS 0) 0 = NAN.
Proof. exact ProofsRefuted.sparse_VDIVS_zero_witness_agrees. Qed.

(* ------------------------------------------------------------------ dense matrices *)
(* MADDM MSUBM MMULM MDIVM MADDS MSUBS MMULS MDIVS EQUALS OUTER: the nested loops of the concrete twins over AT =
   &values[index(i, j)] (index: the kernel coq/C10/Gen.v regenerates from the Go source) leave exactly the world and
   outcome of the generic members (C03.ModelM.step4: row-major loop), for every world whose matrices are what the
   constructors build (rows, cols >= 0, rows*cols values), all alias patterns (r = a, r = b, a = b), dimension
   mismatches and integer division by zero included. *)
Theorem dense_matrix_pairs_interchangeable : forall y w p,
  wfdm w -> ProofsM.mpair_proved p -> mstep_concrete y w p = mstep_generic y w p.
Proof. exact ProofsM.matrix_pairs_agree. Qed.
(* MdotM/MDOTM, MdotV/MDOTV, VdotM/VDOTM: the concrete twins (nested loops over AT, the row buffer or the column buffer
   chosen by r.storageLocation() == b.storageLocation() as coded) leave exactly the world and outcome of the generic
   members (C03.ModelM.step4: closed form computed from the old world; for r = a = b the column schedule mdot_cols that
   both Go members execute, F-MDOTM-RR) for every well-formed world and EVERY alias pattern: r = a (in-place, row buffer),
   r = b (in-place, column buffer), a = b, r = a = b; dimension mismatches, empty matrices (storageLocation panics) and
   the r = b / r = a guard of MdotV / VdotM included. *)
Theorem dense_matrix_products_interchangeable : forall y w p,
  wfdm w -> ProofsMD.mpair_product p -> mstep_concrete y w p = mstep_generic y w p.
Proof. exact ProofsMD.matrix_products_agree. Qed.
(* every dense matrix pair of the table, no exception left *)
Theorem dense_matrix_all_pairs_interchangeable : forall y w p, wfdm w -> mstep_concrete y w p = mstep_generic y w p.
Proof. exact ProofsMD.all_matrix_pairs_agree. Qed.
(* the generic members written out at LOOP level from the Go text (C09.ModelMD: ConstAt / At / Float64At through the
   interfaces, same buffers and branches) are the concrete twins step by step on EVERY world (no hypothesis) ... *)
Theorem generic_product_loops_are_the_concrete_twins : forall y w p out,
  mstep_generic_loop w p = Some out -> mstep_concrete y w p = out.
Proof. exact ProofsMD.generic_loop_is_concrete. Qed.
(* ... and compute C03's closed form under C03's hypothesis *)
Theorem generic_product_loops_compute_closed_form : forall y w p out,
  wfdm w -> mstep_generic_loop w p = Some out -> mstep_generic y w p = out.
Proof. exact ProofsMD.generic_loop_is_closed_form. Qed.
(* r.MdotM(r, r): both members and the loop-level model leave the same (wrong) product *)
Theorem MDOTM_rr_both_members_agree :
  dvals (fst (mstep_concrete TInt ProofsMD.products_world (MPdotM 0 0 0))) 0%nat = [2; 2; 1; 1]%Z /\
  dvals (fst (mstep_generic TInt ProofsMD.products_world (MPdotM 0 0 0))) 0%nat = [2; 2; 1; 1]%Z /\
  dvals (fst (MdotM_loop ProofsMD.products_world 0 0 0)) 0%nat = [2; 2; 1; 1]%Z.
Proof. exact ProofsMD.MDOTM_rr_both_members. Qed.
(* F-C09-MDOTV-INT: the generic MdotV of an integer vector multiplies in float64 *)
Theorem MDOTV_int_refuted :
  mdotv_int_generic 1 1 [94906267%Z] [94906267%Z] = [Some 9007199515875288%Z] /\
  mdotv_int_concrete 1 1 [94906267%Z] [94906267%Z] = [9007199515875289%Z].
Proof. exact ProofsM.MDOTV_int_refuted. Qed.

(* ------------------------------------------------------------------ vectors of magic (Real64 / Real32) elements *)
(* dense Real vectors are lists of cells of the register file (shared ids = aliasing, overlap, slices of one array):
   VADDV VSUBV VMULV VDIVV VADDS VSUBS VMULS VDIVS SET run the concrete scalar twins element by element, the generic
   members the generic scalar methods: same register file (values, Order, N, gradient and Hessian storage of every
   cell), same element and dimension panics — scalar_pairs_interchangeable composed along the loop, every carrier. *)
Theorem vector_pairs_interchangeable_real : forall {A} (F : Fl A) (r32 : A -> A) (p : vrpair) (s : C01.Model.St (A := A)),
  vr_concrete F r32 p s = vr_generic F r32 p s.
Proof. exact (fun A F r32 p s => ProofsVR.dense_real_vector_pairs_agree F r32 p s). Qed.
Theorem dense_real_EQUALS_interchangeable : forall {A} (F : Fl A) (a b : list nat) (eps : A) (s : C01.Model.St (A := A)),
  RVEQUALS F a b eps s = RVEquals F a b eps s.
Proof. exact (fun A F a b eps s => ProofsVR.dense_real_EQUALS_agrees F a b eps s). Qed.
(* sparse Real vectors on visit schedules (what the joint iterators deliver: the same for both members by
   JOINT3_ITERATOR__steps_like_JOINT3_ITERATOR): visits whose operand entries are present run ADD/SUB/MUL/DIV/SET vs
   Add/../Set: same register file.  Missing: visits with an absent operand entry (next theorem). *)
Theorem sparse_real_present_visits_interchangeable_partial : forall {A} (F : Fl A) (r32 : A -> A) (k : spair_kind) (sch : list visit),
  Forall (visit_present k) sch -> forall s : C01.Model.St (A := A), vs_concrete F r32 k sch s = vs_generic F r32 k sch s.
Proof. exact (fun A F r32 k sch H s => ProofsVR.sparse_real_present_visits_agree F r32 k sch H s). Qed.
(* F-C09-ABSENT-META: an absent operand entry: SetFloat64(0) keeps Order/N of the receiver cell, Add(0, 0) resets them *)
Theorem sparse_real_absent_visit_meta_refuted :
  ~ (forall (k : spair_kind) (sch : list visit) (s : C01.Model.St (A := Z)),
       vs_concrete ProofsRefuted.FlZ ProofsVR.idZ k sch s = vs_generic ProofsRefuted.FlZ ProofsVR.idZ k sch s).
Proof. exact ProofsVR.sparse_real_absent_visit_meta_refuted. Qed.

(* ------------------------------------------------------------------ the scalar operand passed by reference *)
(* VaddS/VADDS VsubS/VSUBS VmulS/VMULS VdivS/VDIVS with the scalar a REFERENCE into the world (C09.ModelVA: a scalar of
   its own, x.At(i) of the receiver, of the other operand, of any other vector; both members written out separately and
   read the scalar again on every iteration, replayed against both Go members every run): dense vectors — all four
   pairs, every world, every reference; sparse vectors — VADDS VSUBS VMULS VDIVS, every world, every reference. *)
Theorem vector_scalar_ref_pairs_interchangeable : forall y sp w p, stepA_concrete y sp w p = stepA_generic y sp w p.
Proof. exact ProofsVA.scalar_ref_pairs_agree. Qed.
(* sparse VDIVS with a reference, spelled out (round 6 had it _partial with a side condition on the divisor and a
   refutation, F-C09-VDIVS-SELFREF: repaired by 5abb77d, VDIVS calls VdivS): every world, every reference *)
Theorem sparse_VDIVS_ref_interchangeable : forall y w r a s,
  stepA_concrete y true w {| ap_op := SDiv; ap_r := r; ap_a := a; ap_s := s |} =
  stepA_generic y true w {| ap_op := SDiv; ap_r := r; ap_a := a; ap_s := s |}.
Proof. exact (fun y w r a s => ProofsVA.scalar_ref_pairs_agree y true w {| ap_op := SDiv; ap_r := r; ap_a := a; ap_s := s |}). Qed.
(* the witness of the retired finding: r = [4, 2, _, _], a = [_, _, 2, 4], b = r.AT(0): both members leave [0; NaN; Inf; Inf]
   (the divisor is overwritten with 0 / 4 = 0), integer element types: both panic *)
Theorem sparse_VDIVS_selfref_witness_regression :
  abs_vec (hp (sw (fst (stepA_generic TFloat true ProofsVA.wsp (ProofsVA.p_div_self 0 1))))) (getv (sw (fst (stepA_generic TFloat true ProofsVA.wsp (ProofsVA.p_div_self 0 1)))) 0) = [0; NAN; PINF; PINF]%Z /\
  abs_vec (hp (sw (fst (stepA_concrete TFloat true ProofsVA.wsp (ProofsVA.p_div_self 0 1))))) (getv (sw (fst (stepA_concrete TFloat true ProofsVA.wsp (ProofsVA.p_div_self 0 1)))) 0) = [0; NAN; PINF; PINF]%Z /\
  snd (stepA_generic TInt true ProofsVA.wsp (ProofsVA.p_div_self 0 1)) = (K_PANIC, []) /\
  snd (stepA_concrete TInt true ProofsVA.wsp (ProofsVA.p_div_self 0 1)) = (K_PANIC, []).
Proof. exact ProofsVA.sparse_VDIVS_selfref_witness_agrees. Qed.
(* the by-reference models extend the by-value ones of ModelV.v / C03.Model: a scalar of its own is the old pair *)
Theorem scalar_by_value_is_the_value_pair : forall y sp w o r a c,
  stepA_concrete y sp w {| ap_op := o; ap_r := r; ap_a := a; ap_s := AVal c |} = step_concrete y sp w (vpair_of o r a c) /\
  stepA_generic y sp w {| ap_op := o; ap_r := r; ap_a := a; ap_s := AVal c |} = step_generic y sp w (vpair_of o r a c).
Proof. exact (fun y sp w o r a c => conj (ProofsVA.by_value_concrete y sp w o r a c) (ProofsVA.by_value_generic y sp w o r a c)). Qed.
(* frame: a reference that is not into the receiver (dense) is as good as its value — only the receiver is written *)
Theorem dense_scalar_ref_outside_receiver_is_its_value : forall y o w r a k i, k <> r ->
  DCON y o w r a (SDense k i) = DCON y o w r a (SVal (sread w (SDense k i))).
Proof. exact ProofsVA.dense_ref_outside_receiver. Qed.
(* a twin that reads the scalar ONCE before the loop is not interchangeable with the generic member (dense and sparse) *)
Theorem cached_scalar_twin_refuted :
  ~ (forall y w p, stepA_cached y false w p = stepA_generic y false w p) /\
  ~ (forall y w p, stepA_cached y true w p = stepA_generic y true w p).
Proof. exact (conj ProofsVA.cached_dense_refuted ProofsVA.cached_sparse_refuted). Qed.
Example scalar_ref_pairs_covered :
  getd (fst (stepA_concrete TInt false ProofsVA.wd (ProofsVA.p_mul_self 0 1))) 0%nat = [10; 70]%Z /\
  abs_vec (hp (sw (fst (stepA_concrete TInt true ProofsVA.wsp (ProofsVA.p_div_self 2 3))))) (getv (sw (fst (stepA_concrete TInt true ProofsVA.wsp (ProofsVA.p_div_self 2 3)))) 2) = [2; 3]%Z /\
  (1%nat <> 0%nat).
Proof. repeat split; try discriminate; vm_compute; reflexivity. Qed.

(* dense matrices: MADDS MSUBS MMULS MDIVS with the scalar a reference (C09.ModelMA: a cell &values[index(i, j)] of the
   receiver, of the other operand, of a third matrix, an element of a dense vector, a scalar of its own): the nested
   loops over AT leave exactly the world of the generic row-major loop, every well-formed world, every reference *)
Theorem dense_matrix_scalar_ref_pairs_interchangeable : forall y w p,
  wfdm w -> mstepA_concrete y w p = mstepA_generic y w p.
Proof. exact ProofsMA.matrix_scalar_ref_pairs_agree. Qed.
Theorem matrix_scalar_by_value_is_the_value_pair : forall y w o r a c,
  mstepA_concrete y w {| mp_op := o; mp_r := r; mp_a := a; mp_s := MAVal c |} = mstep_concrete y w (mpair_of o r a c).
Proof. exact ProofsMA.m_by_value_concrete. Qed.
Theorem cached_scalar_matrix_twin_refuted : ~ (forall y w p, wfdm w -> mstepA_cached y w p = mstepA_generic y w p).
Proof. exact ProofsMA.cached_matrix_refuted. Qed.
Example matrix_scalar_ref_covered :
  wfdm ProofsMA.wm /\ dvals (fst (mstepA_concrete TInt ProofsMA.wm ProofsMA.pm_mul_self)) 0%nat = [10; 70]%Z.
Proof. split; [exact ProofsMA.wm_wf | vm_compute; reflexivity]. Qed.

(* ------------------------------------------------------------------ accessors and iterators *)
(* At/AT, Iterator/ITERATOR, IteratorFrom/ITERATOR_FROM (+ Get/GET per visit, the generic nil guards written out) of
   dense and sparse vectors and matrices, JointIterator/JOINT_ITERATOR of sparse receivers: both members modelled
   separately (C09.ModelI); the generic members are wrappers of the concrete ones in the source (checked per run on the
   source shape), so: same visit sequence, same cell, same world (skip() side effects), same panic — EVERY world. *)
Theorem accessor_iterator_pairs_interchangeable : forall y w p, istep_concrete y w p = istep_generic y w p.
Proof. exact ProofsI.accessor_iterator_pairs_agree. Qed.
(* what the dense vector iterator visits: every position in order; ITERATOR_FROM i the suffix *)
Theorem dense_vector_ITERATOR_visits : forall y w k, istep_concrete y w (IPiter (KDV k)) =
  (w, (K_OK, flat_map (ProofsI.dv_rec (getd (b3 w) k)) (zseq 0 (length (getd (b3 w) k))))).
Proof. exact ProofsI.dv_iterator_visits. Qed.
Theorem dense_vector_ITERATOR_FROM_is_suffix : forall y w k i j, (0 <= i <= zlen (getd (b3 w) k))%Z ->
  snd (snd (istep_concrete y w (IPiter (KDV k)))) =
  flat_map (ProofsI.dv_rec (getd (b3 w) k)) (zseq 0 (Z.to_nat i)) ++ snd (snd (istep_concrete y w (IPfrom (KDV k) i j))).
Proof. exact ProofsI.dv_iterator_from_is_suffix. Qed.

(* ------------------------------------------------------------------ the hypotheses are satisfiable *)
Example pairs_covered :
  ProofsV.vpair_ok true (VPopV Sub 0 0 1) /\ ProofsV.vpair_ok true (VPdivS 0 1 0)
  /\ ProofsV.vpair_ok false (VPequals 0 1 3) /\ ProofsB.not_sqrt BAbsP
  /\ bare TInt8 /\ (forall A (C : Car A), wt C TInt8 (VI (-128))) /\ (forall A (C : Car A) x, wt C TFloat64 (VF x)).
Proof. cbn. repeat split; try discriminate; reflexivity. Qed.
Example matrix_world_wellformed :
  wfdm (run4 TInt init4 [NewDM [1; 2; 3; 4; 5; 6]%Z 2 3; NewDM [0; -1; 2; 7; 0; 3]%Z 2 3]) /\ ProofsM.mpair_proved (MPdivM 0 0 1)
  /\ ProofsMD.mpair_product (MPdotM 0 0 0).
Proof.
  split; [|split; exact I]. intros k. do 3 (destruct k as [|k]; [vm_compute; repeat split; discriminate|]).
  vm_compute. destruct k; repeat split; discriminate.
Qed.

(* ------------------------------------------------------------------ element-wise dense matrix pairs on VIEWS *)
(* MaddM/MADDM MsubM/MSUBM MmulM/MMULM MdivM/MDIVM MaddS/MADDS MsubS/MSUBS MmulS/MMULS MdivS/MDIVS when receiver and
   operands are arbitrary headers (SLICE views at any offset, transposed or not, of parents of any shape, also
   OVERLAPPING views of one backing array, also headers pointing outside their array): both members written out
   separately in C09.ModelMW over the index kernel regenerated from the Go source; same backing arrays, same panic. *)
Theorem view_pairs_interchangeable : forall y w p, wstep_concrete y w p = wstep_generic y w p.
Proof. exact ProofsMW.wstep_agree. Qed.
(* frame (C09.ModelMW.keeps / image): no backing array changes its length, and a cell changes only if it is in the
   receiver's backing array at a position the receiver's index kernel reaches — the rest of the parent and every
   other parent are untouched *)
Theorem view_pairs_frame : forall y w p,
  keeps (d_values (wrecv p)) (image (wrecv p)) w (fst (wstep_concrete y w p)).
Proof. exact ProofsMW.wstep_concrete_frame. Qed.
(* closed form: the receiver a view inside its parent, the operands in other backing arrays: after a run that did not
   panic every cell (i, j) of the receiver VIEW holds f (a view (i, j)) (b view (i, j)) of the world before the call —
   whatever the offsets, row lengths and transposition flags of the three headers *)
Theorem view_MOPM_closed_form : forall f w r a b w',
  wf_view r -> d_values a <> d_values r -> d_values b <> d_values r ->
  MOPM_concrete f w r a b = (w', true) ->
  forall i j, (0 <= i < d_rows r)%Z -> (0 <= j < d_cols r)%Z ->
    deref w' r (AT_w w' r i j) = two_w f (deref w a (AT_w w a i j)) (deref w b (AT_w w b i j)) /\
    two_w f (deref w a (AT_w w a i j)) (deref w b (AT_w w b i j)) <> None.
Proof. exact ProofsMW2.MOPM_closed_form. Qed.
Theorem view_MOPS_closed_form : forall f w r a c w',
  wf_view r -> d_values a <> d_values r ->
  MOPS_concrete f w r a c = (w', true) ->
  forall i j, (0 <= i < d_rows r)%Z -> (0 <= j < d_cols r)%Z ->
    deref w' r (AT_w w' r i j) = two_w f (deref w a (AT_w w a i j)) (Some c) /\
    two_w f (deref w a (AT_w w a i j)) (Some c) <> None.
Proof. exact ProofsMW2.MOPS_closed_form. Qed.
(* the hypothesis wf_view holds for what Slice (bounds inside the receiver) and T build from a constructor's matrix *)
Theorem slice_views_are_wf : forall k pr pc ro co sr sc t,
  (0 <= ro)%Z -> (0 <= co)%Z -> (0 <= sr)%Z -> (0 <= sc)%Z -> (ro + sr <= pr)%Z -> (co + sc <= pc)%Z ->
  wf_view (view k pr pc ro co sr sc t).
Proof. exact ProofsMW2.view_wf. Qed.
Example view_pairs_covered :
  wf_view ProofsMW2.ex_r /\ d_values ProofsMW2.ex_a <> d_values ProofsMW2.ex_r /\ d_values ProofsMW2.ex_b <> d_values ProofsMW2.ex_r /\
  MOPM_concrete (fun x z => Some (x + z)%Z) ProofsMW2.ex_w ProofsMW2.ex_r ProofsMW2.ex_a ProofsMW2.ex_b =
    ([[110; 116; 122; 4; 5; 116; 122; 128; 9; 10; 11; 12; 13; 14; 15; 16; 17; 18; 19; 20]%Z;
      map Z.of_nat (seq 31 20); map Z.of_nat (seq 61 20)], true).
Proof. exact ProofsMW2.ex_covered. Qed.
