(* C09/Props.v — generic and concrete-typed methods are interchangeable: the decision.
   Statements only; proofs in ProofsS / ProofsB / ProofsJ / ProofsV / ProofsRefuted.
   Every theorem quantifies over ALL states (register files / worlds): all operand values, Orders, N,
   derivative contents, zero patterns, explicitly stored zeros, receiver = operand and operand = operand
   aliasing (operands are register ids / vector handles).  The pairs that are not interchangeable at HEAD
   are refuted with witnesses; the theorems exclude exactly those, visibly in their statements. *)
From Coq Require Import ZArith QArith List Bool Floats.
From ADV Require Import Base.Fl C01.Model C02.Model C11.Model C03.Model C03.ModelM.
From ADV Require Import C09.ModelS C09.ModelB C09.ModelV C09.ModelM C09.Spec.
From ADV Require C09.ProofsS C09.ProofsB C09.ProofsJ C09.ProofsV C09.ProofsRefuted C09.ProofsRefutedB C09.CorrB C09.ProofsM.
Import ListNotations.

(* ------------------------------------------------------------------ magic scalars *)
(* the four concrete combinators are the generic ones (the eight textual copies are two functions) *)
Theorem realMonadic_is_monadic : forall {A} (F : Fl A) r32 c a v0 v1 v2 s,
  realMonadic F r32 c a v0 v1 v2 s = monadic F r32 c (Rg a) v0 v1 v2 s.
Proof. exact @ProofsS.realMonadic_eq. Qed.
Theorem realMonadicLazy_is_monadicLazy : forall {A} (F : Fl A) r32 c a v0 f1 f2 s,
  realMonadicLazy F r32 c a v0 f1 f2 s = monadic_lazy F r32 c (Rg a) v0 f1 f2 s.
Proof. exact @ProofsS.realMonadicLazy_eq. Qed.
Theorem realDyadic_is_dyadic : forall {A} (F : Fl A) r32 c a b v0 v10 v01 v11 v20 v02 s,
  realDyadic F r32 c a b v0 v10 v01 v11 v20 v02 s = dyadic F r32 c (Rg a) (Rg b) v0 v10 v01 v11 v20 v02 s.
Proof. exact @ProofsS.realDyadic_eq. Qed.
Theorem realDyadicLazy_is_dyadicLazy : forall {A} (F : Fl A) r32 c a b v0 f1 f2 s,
  realDyadicLazy F r32 c a b v0 f1 f2 s = dyadic_lazy F r32 c (Rg a) (Rg b) v0 f1 f2 s.
Proof. exact @ProofsS.realDyadicLazy_eq. Qed.

(* NEG ADD SUB MUL DIV POW SQRT EXP LOG LOG1P MIN MAX ABS SET LOGADD LOGSUB: same register file, same panics,
   over every carrier (R, floats, ...) and both storage roundings (Real64 / Real32).  ABS: since 2fc8894 it
   switches on the argument's sign with a Reset case (round 1: refuted); SET: since d9fca78 Alloc before Order. *)
Theorem scalar_pairs_interchangeable : forall {A} (F : Fl A) (r32 : A -> A) (p : spair),
  scalar_interchangeable F r32 p.
Proof. exact (fun A F r32 p s => ProofsS.scalar_pairs_agree_all F r32 p s). Qed.
Theorem scalar_predicates_interchangeable : forall {A} (F : Fl A) (r32 : A -> A) (p : ppair),
  predicate_interchangeable F r32 p.
Proof. exact (fun A F r32 p eps s => ProofsS.scalar_predicates_agree F r32 p eps s). Qed.
Theorem ABS_interchangeable : forall {A} (F : Fl A) (r32 : A -> A) c a,
  scalar_interchangeable F r32 (PAbs c a).
Proof. exact (fun A F r32 c a s => ProofsS.ABS_eq F r32 c a s). Qed.
(* the concrete ABS of this file is the instruction IABSc of the shared scalar model *)
Theorem ABS_is_shared_model_ABS : forall {A} (F : Fl A) (r32 : A -> A) c a s,
  ModelS.ABS F r32 c a s = exec F r32 (IABSc c (Rg a)) s.
Proof. exact (fun A F r32 c a s => ProofsS.ABS_is_do_ABS_concrete F r32 c a s). Qed.
(* round-1 witnesses of the retired findings F-C09-ABS and F-C09-SETORD: both members agree now *)
Theorem ABS_round1_witness_regression :
  match run_generic ProofsRefuted.FlZ (fun x => x) (PAbs 0 1) ProofsRefuted.st_abs with C01.Model.Ok s => rval (s 0%nat) | C01.Model.Panic _ => 0%Z end = 4%Z /\
  match run_concrete ProofsRefuted.FlZ (fun x => x) (PAbs 0 1) ProofsRefuted.st_abs with C01.Model.Ok s => rval (s 0%nat) | C01.Model.Panic _ => 0%Z end = 4%Z.
Proof. exact ProofsRefuted.ABS_round1_witness_agrees. Qed.

(* ------------------------------------------------------------------ bare scalars *)
(* every pair but Sqrt/SQRT, ABS included (2fc8894: the template got the same fix) *)
Theorem bare_pairs_interchangeable : forall {A} (C : Car A) p t cold a b,
  bare t -> wt C t a -> wt C t b -> ProofsB.not_sqrt p ->
  b_concrete C p t cold a b = b_generic C p t cold a b.
Proof. exact @ProofsB.bare_pairs_agree_but_sqrt. Qed.
(* bare LOGADD / LOGSUB (sequences SUB EXP [NEG] LOG1P ADD on a temporary of the receiver's type) on a carrier whose
   float32 rounding is idempotent *)
Theorem bare_LOGADD_LOGSUB_interchangeable : forall {A} (C : Car A) p t cold a b,
  bare t -> ProofsB.r32_idem C -> wt C t a -> wt C t b -> (p = BLogAddP \/ p = BLogSubP) ->
  b_concrete C p t cold a b = b_generic C p t cold a b.
Proof. exact @ProofsB.bare_logadd_logsub_agree. Qed.
Theorem bare_ABS_interchangeable : forall {A} (C : Car A) t cold a b,
  bare t -> wt C t a -> b_concrete C BAbsP t cold a b = b_generic C BAbsP t cold a b.
Proof. exact (fun A C t cold a b Hb Ha => ProofsB.abs_pair C t cold a Hb Ha). Qed.
Theorem bare_predicates_interchangeable : forall {A} (C : Car A) p t a b eps,
  bare t -> wt C t a -> wt C t b -> cr32 C (clit C L0) = clit C L0 ->
  q_concrete C p t a b eps = q_generic C p t a b eps.
Proof. exact @ProofsB.bare_predicates_agree. Qed.
(* Sqrt/SQRT: exactly where math.Pow(x, 0.5) and math.Sqrt(x) return the same value *)
Theorem bare_SQRT_interchangeable_partial : forall {A} (C : Car A) t cold a b,
  cpow C (getf64 C a) (clit C Lhalf) = cfn C FSqrt (getf64 C a) ->
  b_concrete C BSqrtP t cold a b = b_generic C BSqrtP t cold a b.
Proof. exact @ProofsB.bare_sqrt_agree. Qed.
Theorem bare_SQRT_refuted :
  b_generic (CorrB.CarF ProofsRefutedB.orc_m0) BSqrtP TFloat64 (VF 0%float) (VF (-0)%float) (VF (-0)%float) = Val (VF 0%float) /\
  CorrB.out_ok (b_concrete (CorrB.CarF ProofsRefutedB.orc_m0) BSqrtP TFloat64 (VF 0%float) (VF (-0)%float) (VF (-0)%float))
               (CorrB.GVal (VF 0%float)) = false /\
  CorrB.out_ok (b_concrete (CorrB.CarF ProofsRefutedB.orc_m0) BSqrtP TFloat64 (VF 0%float) (VF (-0)%float) (VF (-0)%float))
               (CorrB.GVal (VF (-0)%float)) = true.
Proof. exact ProofsRefutedB.bare_SQRT_refuted_minus_zero. Qed.

(* ------------------------------------------------------------------ vectors *)
(* the typed joint iterators step like the generic ones on sparse operands *)
Theorem JOINT_ITERATOR__steps_like_JOINT_ITERATOR : forall w t j,
  joint_next w t (ProofsJ.embJ j) = ProofsJ.liftJ (jointC_next w t j).
Proof. exact ProofsJ.jointC_next_embJ. Qed.
Theorem JOINT3_ITERATOR__steps_like_JOINT3_ITERATOR : forall w t j,
  joint3_next w t (ProofsJ.emb3 j) = ProofsJ.lift3J (joint3C_next w t j).
Proof. exact ProofsJ.joint3C_next_emb3. Qed.

(* sparse: VADDV VSUBV VMULV VMULS SET, VDIVS with divisor <> 0, VADDS VSUBS VDIVV; dense: all ten pairs.
   Same world (abstraction AND coherence state of receiver and operands), same outcome kind and payload. *)
Theorem vector_pairs_interchangeable : forall y sp p,
  ProofsV.vpair_ok sp p -> vector_interchangeable y sp p.
Proof. exact (fun y sp p H w => ProofsV.vector_pairs_agree y sp w p H). Qed.
Theorem sparse_EQUALS_true_implies_Equals_partial : forall y w a b e2 w',
  step_concrete y true w (VPequals a b e2) = (w', (K_OK, [1%Z])) ->
  step_generic y true w (VPequals a b e2) = (w', (K_OK, [1%Z])).
Proof. exact ProofsV.sparse_EQUALS_true_implies_Equals. Qed.
Theorem sparse_EQUALS_refuted : ~ vector_interchangeable TInt true (VPequals 0 1 5).
Proof. exact ProofsRefuted.sparse_EQUALS_refuted. Qed.
Theorem sparse_VDIVS_zero_refuted_int : ~ vector_interchangeable TInt true (VPdivS 0 1 0).
Proof. exact ProofsRefuted.sparse_VDIVS_zero_refuted_int. Qed.
Theorem sparse_VDIVS_zero_refuted_float : ~ vector_interchangeable TFloat true (VPdivS 0 1 0).
Proof. exact ProofsRefuted.sparse_VDIVS_zero_refuted_float. Qed.

(* ------------------------------------------------------------------ dense matrices *)
(* MADDM MSUBM MMULM MDIVM MADDS MSUBS MMULS MDIVS EQUALS OUTER: the nested loops of the concrete twins over AT =
   &values[index(i, j)] (index: the kernel coq/C10/Gen.v regenerates from the Go source) leave exactly the world and
   outcome of the generic members (C03.ModelM.step4: row-major loop), for every world whose matrices are what the
   constructors build (rows, cols >= 0, rows*cols values), all alias patterns (r = a, r = b, a = b), dimension
   mismatches and integer division by zero included. *)
Theorem dense_matrix_pairs_interchangeable : forall y w p,
  wfdm w -> ProofsM.mpair_proved p -> mstep_concrete y w p = mstep_generic y w p.
Proof. exact ProofsM.matrix_pairs_agree. Qed.
(* F-C09-MDOTV-INT: the generic MdotV of an integer vector multiplies in float64 *)
Theorem MDOTV_int_refuted :
  mdotv_int_generic 1 1 [94906267%Z] [94906267%Z] = [Some 9007199515875288%Z] /\
  mdotv_int_concrete 1 1 [94906267%Z] [94906267%Z] = [9007199515875289%Z].
Proof. exact ProofsM.MDOTV_int_refuted. Qed.

(* ------------------------------------------------------------------ the hypotheses are satisfiable *)
Example pairs_covered :
  ProofsV.vpair_ok true (VPopV Sub 0 0 1) /\ ProofsV.vpair_ok true (VPdivS 0 1 (-2))
  /\ ProofsV.vpair_ok false (VPequals 0 1 3) /\ ProofsB.not_sqrt BAbsP
  /\ bare TInt8 /\ (forall A (C : Car A), wt C TInt8 (VI (-128))) /\ (forall A (C : Car A) x, wt C TFloat64 (VF x)).
Proof. cbn. repeat split; try discriminate; reflexivity. Qed.
Example matrix_world_wellformed :
  wfdm (run4 TInt init4 [NewDM [1; 2; 3; 4; 5; 6]%Z 2 3; NewDM [0; -1; 2; 7; 0; 3]%Z 2 3]) /\ ProofsM.mpair_proved (MPdivM 0 0 1).
Proof.
  split; [|exact I]. intros k. do 3 (destruct k as [|k]; [vm_compute; repeat split; discriminate|]).
  vm_compute. destruct k; repeat split; discriminate.
Qed.
