(* C09/ProofsB.v — bare scalar types: concrete twin = generic method on operands of the receiver's type. *)
From Coq Require Import ZArith List Bool Lia.
From ADV Require Import C02.Model C09.ModelB.
Import ListNotations.
Open Scope Z_scope.

Lemma wrap_inrange k z : 1 <= k -> inrange k z = true -> wrap k z = z.
Proof.
  intros Hk H. unfold inrange in H. apply andb_true_iff in H as [H1 H2].
  apply Z.leb_le in H1. apply Z.ltb_lt in H2. unfold wrap.
  assert (E : 2 ^ k = 2 * 2 ^ (k - 1)).
  { replace k with (Z.succ (k - 1)) at 1 by lia. rewrite Z.pow_succ_r by lia. reflexivity. }
  rewrite Z.mod_small by lia. lia.
Qed.

Section P.
Context {A : Type} (C : Car A).

Ltac bases t :=
  destruct t; cbn [is_real] in *; try discriminate.

Lemma bits_pos b : is_fbase b = false -> 1 <= bits b.
Proof. destruct b; cbn; intros; try discriminate; lia. Qed.

(* reading an operand of the receiver's type through the interface getter returns the stored value *)
Lemma geti_wt t z : bare t -> wt C t (VI z) -> geti C (bits (base_of t)) (VI z) = Val z.
Proof.
  intros Hb Hw. cbn [geti]. f_equal. apply wrap_inrange.
  - destruct t; cbn in *; try contradiction; try discriminate; lia.
  - destruct t; cbn in *; try contradiction; try discriminate; exact Hw.
Qed.

Lemma arith_pair t o a b : bare t -> wt C t a -> wt C t b -> ARITH C t o a b = arith C t o a b.
Proof.
  intros Hb Ha Hbw. unfold ARITH, arith. rewrite Hb.
  destruct (base_of t) eqn:E; destruct a as [x|x], b as [y|y];
    try (exfalso; unfold wt in *; rewrite E in *; contradiction).
  - reflexivity.
  - cbn. unfold wt in *. rewrite E in *. rewrite Ha, Hbw. reflexivity.
  - pose proof (geti_wt t x Hb Ha) as G1. pose proof (geti_wt t y Hb Hbw) as G2. rewrite E in G1, G2.
    cbn [ownI bind]. rewrite G1, G2. reflexivity.
  - pose proof (geti_wt t x Hb Ha) as G1. pose proof (geti_wt t y Hb Hbw) as G2. rewrite E in G1, G2.
    cbn [ownI bind]. rewrite G1, G2. reflexivity.
  - pose proof (geti_wt t x Hb Ha) as G1. pose proof (geti_wt t y Hb Hbw) as G2. rewrite E in G1, G2.
    cbn [ownI bind]. rewrite G1, G2. reflexivity.
  - pose proof (geti_wt t x Hb Ha) as G1. pose proof (geti_wt t y Hb Hbw) as G2. rewrite E in G1, G2.
    cbn [ownI bind]. rewrite G1, G2. reflexivity.
  - pose proof (geti_wt t x Hb Ha) as G1. pose proof (geti_wt t y Hb Hbw) as G2. rewrite E in G1, G2.
    cbn [ownI bind]. rewrite G1, G2. reflexivity.
Qed.

Lemma neg_pair t a : bare t -> wt C t a -> NEG C t a = neg C t a.
Proof.
  intros Hb Ha. unfold NEG, neg. rewrite Hb.
  destruct (base_of t) eqn:E; destruct a as [x|x]; try (exfalso; unfold wt in *; rewrite E in *; contradiction);
    try reflexivity;
    try (cbn; unfold wt in Ha; rewrite E in Ha; rewrite Ha; reflexivity);
    pose proof (geti_wt t x Hb Ha) as G1; rewrite E in G1; cbn [ownI bind]; rewrite G1; reflexivity.
Qed.

Lemma cmp_pair t r a b : bare t -> wt C t a -> wt C t b -> CMP C t r a b = cmp C t r a b.
Proof.
  intros Hb Ha Hbw. unfold CMP, cmp.
  destruct (base_of t) eqn:E; destruct a as [x|x], b as [y|y];
    try (exfalso; unfold wt in *; rewrite E in *; contradiction); try reflexivity;
    try (cbn; unfold wt in *; rewrite E in *; rewrite Ha, Hbw; reflexivity);
    pose proof (geti_wt t x Hb Ha) as G1; pose proof (geti_wt t y Hb Hbw) as G2; rewrite E in G1, G2;
       cbn [ownI bind]; rewrite G1, G2; reflexivity.
Qed.

Lemma set_pair t a : bare t -> wt C t a -> SET t a = set C t a.
Proof.
  intros Hb Ha. unfold SET, set, get.
  destruct (base_of t) eqn:E; destruct a as [x|x]; try (exfalso; unfold wt in *; rewrite E in *; contradiction);
    try reflexivity;
    try (cbn; unfold wt in Ha; rewrite E in Ha; rewrite Ha; reflexivity);
    pose proof (geti_wt t x Hb Ha) as G1; rewrite E in G1; cbn [ownI bind]; rewrite G1; reflexivity.
Qed.

Lemma min_pair t a b : bare t -> wt C t a -> wt C t b -> MIN C t a b = min_ C t a b.
Proof. intros. unfold MIN, min_. rewrite cmp_pair, !set_pair by assumption. reflexivity. Qed.
Lemma max_pair t a b : bare t -> wt C t a -> wt C t b -> MAX C t a b = max_ C t a b.
Proof. intros. unfold MAX, max_. rewrite cmp_pair, !set_pair by assumption. reflexivity. Qed.

(* the constant zero of a Float32 is a float32 value: hypothesis on the carrier where it is needed *)
Lemma sign_pair t a : bare t -> wt C t a -> cr32 C (clit C L0) = clit C L0 -> SIGN C t a = sign C (t, a).
Proof.
  intros Hb Ha H0. unfold SIGN, sign. cbn [fst snd].
  assert (Z0 : wt C t (zero_of C (base_of t))).
  { destruct t; cbn in *; try discriminate; auto. }
  rewrite !cmp_pair by assumption. reflexivity.
Qed.

Lemma un_pair t f a : UN C t f a = un C t f a.
Proof. reflexivity. Qed.
Lemma pow_pair t a k : POW C t a k = pow C t a k.
Proof. reflexivity. Qed.
Lemma equals_pair t a b eps : EQUALS C a b eps = equals C (t, a) (t, b) eps.
Proof. reflexivity. Qed.

(* SQRT calls math.Sqrt, Sqrt calls math.Pow(x, 0.5): the same value exactly where the two library
   functions agree on the operand (they do not at -0 and -Inf: C09/ProofsRefuted.v) *)
Lemma sqrt_pair t a :
  cpow C (getf64 C a) (clit C Lhalf) = cfn C FSqrt (getf64 C a) -> SQRT C t a = sqrt_ C t a.
Proof. intros H. unfold SQRT, UN, sqrt_, pow, half_c. cbn [snd getf64]. rewrite H. reflexivity. Qed.

(* HEAD 2fc8894: ABS switches on a.Sign() (the argument) with the Reset case, like Abs *)
Lemma abs_pair t cold a : bare t -> wt C t a -> ABS C t cold a = abs_ C t (t, a).
Proof.
  intros Hb Ha. unfold ABS, abs_. cbn [snd].
  destruct (sign C (t, a)) as [z| | |]; cbn [bind]; try reflexivity.
  destruct (z =? -1); [now apply neg_pair|]. destruct (z =? 0); [reflexivity|now apply set_pair].
Qed.

(* what store leaves in a receiver of type t is a value of type t (float32: rounding is idempotent on the carrier) *)
Definition r32_idem : Prop := forall x, cr32 C (cr32 C x) = cr32 C x.
Lemma store_wt t x v : bare t -> r32_idem -> store C (base_of t) x = Val v -> wt C t v.
Proof.
  intros Hb Hi H. unfold store, f2i in H. unfold wt.
  destruct (base_of t) eqn:E; try (inversion H; subst; auto; fail);
    destruct (ctoZ C x) as [z|]; cbn in H; try discriminate;
    destruct (inrange _ z) eqn:R; cbn in H; try discriminate; inversion H; subst; exact R.
Qed.
Lemma un_wt t f a v : bare t -> r32_idem -> un C t f a = Val v -> wt C t v.
Proof. intros Hb Hi H. eapply store_wt; eauto. Qed.

Lemma logadd_pair t a b : bare t -> r32_idem -> wt C t a -> wt C t b -> LOGADD C t a b = logadd C t t (t, a) (t, b).
Proof.
  intros Hb Hi Ha Hbw. unfold LOGADD, logadd. cbn [fst snd].
  rewrite cmp_pair by assumption.
  destruct (cmp C t RGt a b) as [g| | |]; cbn [bind]; try reflexivity.
  destruct g; cbn [fst snd].
  - destruct (cisinf C (getf64 C b) 0); [now apply set_pair|].
    rewrite arith_pair by assumption.
    destruct (arith C t OSub b a) as [t1| | |]; cbn [bind]; try reflexivity.
    change (UN C t FExp t1) with (un C t FExp t1).
    destruct (un C t FExp t1) as [t2| | |]; cbn [bind]; try reflexivity.
    change (UN C t FLog1p t2) with (un C t FLog1p t2).
    destruct (un C t FLog1p t2) as [t3| | |] eqn:E3; cbn [bind]; try reflexivity.
    apply arith_pair; auto. eapply un_wt; eauto.
  - destruct (cisinf C (getf64 C a) 0); [now apply set_pair|].
    rewrite arith_pair by assumption.
    destruct (arith C t OSub a b) as [t1| | |]; cbn [bind]; try reflexivity.
    change (UN C t FExp t1) with (un C t FExp t1).
    destruct (un C t FExp t1) as [t2| | |]; cbn [bind]; try reflexivity.
    change (UN C t FLog1p t2) with (un C t FLog1p t2).
    destruct (un C t FLog1p t2) as [t3| | |] eqn:E3; cbn [bind]; try reflexivity.
    apply arith_pair; auto. eapply un_wt; eauto.
Qed.
Lemma logsub_pair t a b : bare t -> r32_idem -> wt C t a -> wt C t b -> LOGSUB C t a b = logsub C t t (t, a) (t, b).
Proof.
  intros Hb Hi Ha Hbw. unfold LOGSUB, logsub. cbn [fst snd].
  destruct (cisinf C (getf64 C b) (-1)); [now apply set_pair|].
  rewrite arith_pair by assumption.
  destruct (arith C t OSub b a) as [t1| | |]; cbn [bind]; try reflexivity.
  change (UN C t FExp t1) with (un C t FExp t1).
  destruct (un C t FExp t1) as [t2| | |] eqn:E2; cbn [bind]; try reflexivity.
  rewrite neg_pair by (auto; eapply un_wt; eauto).
  destruct (neg C t t2) as [t3| | |]; cbn [bind]; try reflexivity.
  change (UN C t FLog1p t3) with (un C t FLog1p t3).
  destruct (un C t FLog1p t3) as [t4| | |] eqn:E4; cbn [bind]; try reflexivity.
  apply arith_pair; auto. eapply un_wt; eauto.
Qed.

Definition not_sqrt (p : bpair) : Prop := match p with BSqrtP | BLogAddP | BLogSubP => False | _ => True end.
Definition not_abs_sqrt (p : bpair) : Prop := match p with BAbsP | BSqrtP | BLogAddP | BLogSubP => False | _ => True end.

Lemma bare_pairs_agree p t cold a b :
  bare t -> wt C t a -> wt C t b -> not_abs_sqrt p -> b_concrete C p t cold a b = b_generic C p t cold a b.
Proof.
  intros Hb Ha Hbw Hp. destruct p; cbn [b_concrete b_generic]; try contradiction.
  - now apply arith_pair. - now apply neg_pair. - now apply min_pair. - now apply max_pair.
  - now apply set_pair. - apply pow_pair. - apply un_pair. - apply un_pair. - apply un_pair.
Qed.

Lemma bare_pairs_agree_but_sqrt p t cold a b :
  bare t -> wt C t a -> wt C t b -> not_sqrt p -> b_concrete C p t cold a b = b_generic C p t cold a b.
Proof.
  intros Hb Ha Hbw Hp. destruct p; try (apply bare_pairs_agree; assumption || exact I); try contradiction.
  cbn [b_concrete b_generic]. now apply abs_pair.
Qed.
Lemma bare_logadd_logsub_agree p t cold a b :
  bare t -> r32_idem -> wt C t a -> wt C t b -> (p = BLogAddP \/ p = BLogSubP) ->
  b_concrete C p t cold a b = b_generic C p t cold a b.
Proof.
  intros Hb Hi Ha Hbw [->| ->]; cbn [b_concrete b_generic]; [now apply logadd_pair|now apply logsub_pair].
Qed.

Lemma bare_sqrt_agree t cold a b :
  cpow C (getf64 C a) (clit C Lhalf) = cfn C FSqrt (getf64 C a) ->
  b_concrete C BSqrtP t cold a b = b_generic C BSqrtP t cold a b.
Proof. intros H. cbn. now apply sqrt_pair. Qed.

Lemma bare_predicates_agree p t a b eps :
  bare t -> wt C t a -> wt C t b -> cr32 C (clit C L0) = clit C L0 ->
  q_concrete C p t a b eps = q_generic C p t a b eps.
Proof.
  intros Hb Ha Hbw H0. destruct p; cbn [q_concrete q_generic].
  - now rewrite cmp_pair. - now rewrite cmp_pair. - now rewrite sign_pair. - reflexivity.
Qed.
End P.
