(* C09/ModelVA.v — VaddS/VADDS VsubS/VSUBS VmulS/VMULS VdivS/VDIVS with the SCALAR operand passed BY REFERENCE
     /repo/vector_dense_template_math.in    r.AT(i).Mul(a.ConstAt(i), s)  |  r.AT(i).MUL(a.AT(i), s)
     /repo/vector_sparse_template_math.in   s_r.Mul(s_a, b)  |  if s_a.ptr == nil { s_r.SetFloat64(0.0) } else { s_r.MUL(s_a, b) }
                                            (VADDS VSUBS VDIVS: { r.VaddS(a, b); return r })
   A bare scalar is a struct around a pointer (Float64{ptr *float64}); x.AT(i) of a dense vector is Float64{&x[i]},
   of a sparse vector the entry of the private map (created when absent).  Passed as the scalar operand of a
   vector-scalar method it is READ AGAIN ON EVERY ITERATION by both members (c.Mul(a, b): b.GetFloat64()), so a call
   like r.VMULS(a, r.AT(k)) sees the NEW value of r[k] from position k + 1 on.  ModelV.v / C03.Model pass the scalar by
   value; here BOTH members are written out again with the scalar a reference [sref] into the world:
     SVal c        a scalar of its own (no cell of the world: the by-value case)
     SDense k i    Float64{&x[i]} of dense vector k (i in range)
     SCell l       the heap cell of a sparse vector's entry
   The operand of a pair names the element as Go obtains it, [AElem x i] = x.At(i), resolved before the call.
   [cached]: the variant of the concrete twin that reads the scalar ONCE before the loop (what a "performance"
   rewrite of the typed member would do) — in this file only to be REFUTED (ProofsVA.cached_*_refuted).
   No proofs in this file. *)
From Coq Require Import ZArith List Bool Lia.
From ADV Require Import C11.Model C03.Model C09.ModelV.
Import ListNotations.
Open Scope Z_scope.

Inductive sref := SVal (c : Z) | SDense (k : nat) (i : Z) | SCell (l : loc).
(* b.GetFloat64() in the current world *)
Definition sread (w : w3) (s : sref) : Z :=
  match s with
  | SVal c => c
  | SDense k i => nth (Z.to_nat i) (getd w k) 0
  | SCell l => hget (hp (sw w)) l
  end.
(* the same seen from a sparse receiver's loop (which only changes the sparse world): dense vectors as they were *)
Definition sread_s (dn0 : list (list Z)) (s : world) (r : sref) : Z := sread {| sw := s; dn := dn0 |} r.

(* the scalar operand as the caller writes it *)
Inductive sarg := AVal (c : Z) | AElem (x : nat) (i : Z).
(* x.At(i) evaluated before the call: None = index out of bounds (the caller panics, no member runs) *)
Definition resolve (sp : bool) (w : w3) (a : sarg) : option (w3 * sref) :=
  match a with
  | AVal c => Some (w, SVal c)
  | AElem x i =>
      if sp then
        match at_ (hp (sw w)) (getv (sw w) x) i with
        | Some (h', v', l) => Some (sets w (seth (setv (sw w) x v') h'), SCell l)
        | None => None
        end
      else if (0 <=? i) && (i <? zlen (getd w x)) then Some (w, SDense x i) else None
  end.

Inductive sop := SAdd | SSub | SMul | SDiv.
(* c.ADD(a, b) ... c.DIV(a, b) of the element type; None = integer division by zero *)
Definition sop_f (y : ty) (o : sop) (x c : Z) : option Z :=
  match o with SAdd => Some (x + c) | SSub => Some (x - c) | SMul => Some (x * c) | SDiv => sdiv y x c end.

(* ------------------------------------------------------------------ dense receiver *)
(* generic: for i := 0; i < a.Dim(); i++ { r.AT(i).Mul(a.ConstAt(i), s) }   — C03's dense loop, scalar read in w' *)
Definition dgen (y : ty) (o : sop) (w : w3) (r a : nat) (s : sref) : w3 * bool :=
  dop (fun w' i => sop_f y o (rd w' (RD a) i) (sread w' s)) w r [RD a].
(* concrete: for i := 0; i < a.Dim(); i++ { r.AT(i).MUL(a.AT(i), s) } *)
Definition DCON (y : ty) (o : sop) (w : w3) (r a : nat) (s : sref) : w3 * bool :=
  DOP (fun w' i => sop_f y o (dat w' a i) (sread w' s)) w r [a].
(* the cached variant: x := s.GetFloat64() before the loop *)
Definition DCACHED (y : ty) (o : sop) (w : w3) (r a : nat) (s : sref) : w3 * bool :=
  let c := sread w s in DOP (fun w' i => sop_f y o (dat w' a i) c) w r [a].

(* ------------------------------------------------------------------ sparse receiver *)
(* generic joint loop: for it := r.JOINT_ITERATOR(a); it.Ok(); it.Next() { s_r := it.s1; if s_r.ptr == nil
   { s_r = r.AT(it.Index()) }; s_r.Mul(s_a, b) } — s_a absent is the constant 0; b read after r.AT *)
Fixpoint map2r_loop (f : world -> Z -> option Z) (fuel : nat) (w : world) (t : nat) (j : joint)
  : option (world * bool) :=
  if jok j then
    match fuel with
    | O => None
    | S fu =>
        match cell_of w t (jidx j) (js1 j) with
        | None => Some (w, false)
        | Some (w0, l) =>
            match f w0 (jval (js2 j)) with
            | None => Some (w0, false)
            | Some x =>
                match joint_next (seth w0 (hset (hp w0) l x)) t j with
                | None => None
                | Some (w2, j') => map2r_loop f fu w2 t j'
                end
            end
        end
    end
  else Some (w, true).
Definition vop2r (f : world -> Z -> option Z) (w : world) (t : nat) (o : operand) : option (world * bool) :=
  if negb (op_dim w o =? dim (getv w t)) then Some (w, false)
  else match joint_begin w t o with
       | None => None
       | Some (w1, j) => map2r_loop f (lfuel w t) w1 t j
       end.
(* concrete joint loop on the typed iterator: if s_a.ptr == nil { s_r.SetFloat64(0.0) } else { s_r.MUL(s_a, b) } *)
Fixpoint MAP2R (f : world -> Z -> option Z) (fuel : nat) (w : world) (t : nat) (j : jointC) : option (world * bool) :=
  if jointC_ok j then
    match fuel with
    | O => None
    | S fu =>
        match cell_of w t (cidx j) (cs1 j) with
        | None => Some (w, false)
        | Some (w0, l) =>
          match (match cs2 j with None => Some 0 | Some a => f w0 a end) with
          | None => Some (w0, false)
          | Some x =>
              match jointC_next (seth w0 (hset (hp w0) l x)) t j with
              | None => None
              | Some (w2, j') => MAP2R f fu w2 t j'
              end
          end
        end
    end
  else Some (w, true).
Definition VOPSR (f : world -> Z -> option Z) (w : world) (t u : nat) : option (world * bool) :=
  if negb (dim (getv w t) =? dim (getv w u)) then Some (w, false)
  else match jointC_begin w t u with
       | None => None
       | Some (w1, j) => MAP2R f (lfuel w t) w1 t j
       end.

(* the generic members of a sparse receiver (a sparse too) *)
Definition sgen (y : ty) (o : sop) (dn0 : list (list Z)) (w : world) (t u : nat) (s : sref) : option (world * bool) :=
  let rdS w1 := sread_s dn0 w1 s in
  match o with
  (* VaddS / VsubS: for i := 0; i < n; i++ { r.AT(i).Add(a.ConstAt(i), b) } *)
  | SAdd => Some (vopS (fun w1 i => Some (ord w1 (OS u) i + rdS w1)) w t (OS u))
  | SSub => Some (vopS (fun w1 i => Some (ord w1 (OS u) i - rdS w1)) w t (OS u))
  | SMul => vop2r (fun w1 x => Some (x * rdS w1)) w t (OS u)
  (* VdivS: if b.GetFloat64() == 0.0 (tested ONCE) { for i { r.At(i).Div(a.ConstAt(i), b) } } else joint loop *)
  | SDiv => if rdS w =? 0 then Some (vopS (fun w1 i => sdiv y (ord w1 (OS u) i) (rdS w1)) w t (OS u))
            else vop2r (fun w1 x => sdiv y x (rdS w1)) w t (OS u)
  end.
(* the concrete twins: VADDS / VSUBS / VDIVS (since 5abb77d) are { r.VaddS(a, b); return r } *)
Definition SCON (y : ty) (o : sop) (dn0 : list (list Z)) (w : world) (t u : nat) (s : sref) : option (world * bool) :=
  let rdS w1 := sread_s dn0 w1 s in
  match o with
  | SAdd | SSub | SDiv => sgen y o dn0 w t u s
  | SMul => VOPSR (fun w1 x => Some (x * rdS w1)) w t u
  end.
Definition SCACHED (y : ty) (o : sop) (dn0 : list (list Z)) (w : world) (t u : nat) (s : sref) : option (world * bool) :=
  let c := sread_s dn0 w s in
  match o with
  | SAdd | SSub | SDiv => sgen y o dn0 w t u (SVal c)
  | SMul => VOPSR (fun _ x => Some (x * c)) w t u
  end.

(* ------------------------------------------------------------------ the pairs *)
Record apair := { ap_op : sop; ap_r : nat; ap_a : nat; ap_s : sarg }.
Definition run_ref (dense_f : w3 -> sref -> w3 * bool) (sparse_f : list (list Z) -> world -> sref -> option (world * bool))
                   (sp : bool) (w : w3) (a : sarg) : w3 * (Z * list Z) :=
  match resolve sp w a with
  | None => (w, (K_PANIC, []))
  | Some (w0, s) => if sp then lift w0 (sparse_f (dn w0) (sw w0) s) else lift3 (dense_f w0 s)
  end.
Definition stepA_generic (y : ty) (sp : bool) (w : w3) (p : apair) : w3 * (Z * list Z) :=
  run_ref (fun w0 s => dgen y (ap_op p) w0 (ap_r p) (ap_a p) s)
          (fun d s0 s => sgen y (ap_op p) d s0 (ap_r p) (ap_a p) s) sp w (ap_s p).
Definition stepA_concrete (y : ty) (sp : bool) (w : w3) (p : apair) : w3 * (Z * list Z) :=
  run_ref (fun w0 s => DCON y (ap_op p) w0 (ap_r p) (ap_a p) s)
          (fun d s0 s => SCON y (ap_op p) d s0 (ap_r p) (ap_a p) s) sp w (ap_s p).
Definition stepA_cached (y : ty) (sp : bool) (w : w3) (p : apair) : w3 * (Z * list Z) :=
  run_ref (fun w0 s => DCACHED y (ap_op p) w0 (ap_r p) (ap_a p) s)
          (fun d s0 s => SCACHED y (ap_op p) d s0 (ap_r p) (ap_a p) s) sp w (ap_s p).

(* the by-value pair of ModelV.v that an [AVal] operand denotes *)
Definition vpair_of (o : sop) (r a : nat) (c : Z) : vpair :=
  match o with SAdd => VPaddS r a c | SSub => VPsubS r a c | SMul => VPmulS r a c | SDiv => VPdivS r a c end.
