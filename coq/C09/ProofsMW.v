(* C09/ProofsMW.v — the element-wise dense matrix pairs on views: generic = concrete on every world and every
   header; frame (only cells in the image of the receiver's index kernel change, no array changes its length). *)
From Coq Require Import ZArith List Bool Lia.
From ADV Require Import C11.Model C03.Model C10.Gen C09.ModelMW.
Import ListNotations.
Open Scope Z_scope.

(* ------------------------------------------------------------------ generic = concrete *)
Lemma ConstAt_is_AT w h i j : ConstAt_w w h i j = AT_w w h i j.
Proof. reflexivity. Qed.
Lemma At_is_AT w h i j : At_w w h i j = AT_w w h i j.
Proof. reflexivity. Qed.
Lemma body_eq f r a b w i j : body_generic f r a b w i j = body_concrete f r a b w i j.
Proof. reflexivity. Qed.
Lemma bodyS_eq f r a c w i j : bodyS_generic f r a c w i j = bodyS_concrete f r a c w i j.
Proof. reflexivity. Qed.

Lemma wfor_j_ext (b1 b2 : stores -> Z -> Z -> option stores) :
  (forall w i j, b1 w i j = b2 w i j) -> forall cnt i j w, wfor_j b1 cnt i j w = wfor_j b2 cnt i j w.
Proof.
  intros Hb cnt; induction cnt as [|c IH]; intros i j w; simpl; [reflexivity|].
  rewrite Hb. destruct (b2 w i j); [apply IH|reflexivity].
Qed.
Lemma wfor_i_ext (b1 b2 : stores -> Z -> Z -> option stores) :
  (forall w i j, b1 w i j = b2 w i j) -> forall cnt m i w, wfor_i b1 cnt m i w = wfor_i b2 cnt m i w.
Proof.
  intros Hb cnt; induction cnt as [|c IH]; intros m i w; simpl; [reflexivity|].
  rewrite (wfor_j_ext b1 b2 Hb). destruct (wfor_j b2 m i 0 w) as [w' ok]. destruct ok; [apply IH|reflexivity].
Qed.

Lemma MopM_eq f w r a b : MopM_generic f w r a b = MOPM_concrete f w r a b.
Proof.
  unfold MopM_generic, MOPM_concrete. destruct (negb (dims_ok3 r a b)); [reflexivity|].
  apply wfor_i_ext. intros; apply body_eq.
Qed.
Lemma MopS_eq f w r a c : MopS_generic f w r a c = MOPS_concrete f w r a c.
Proof.
  unfold MopS_generic, MOPS_concrete. destruct (negb (dims_ok2 r a)); [reflexivity|].
  apply wfor_i_ext. intros; apply bodyS_eq.
Qed.
Lemma wstep_eq y w p : wstep_generic y w p = wstep_concrete y w p.
Proof. destruct p; simpl; first [apply MopM_eq | apply MopS_eq]. Qed.
Lemma wstep_agree : forall y w p, wstep_concrete y w p = wstep_generic y w p.
Proof. intros; symmetry; apply wstep_eq. Qed.

(* ------------------------------------------------------------------ frame *)
Lemma upd_len {X} (x : X) : forall n l, length (upd n x l) = length l.
Proof. induction n as [|n IH]; intros [|y l]; simpl; auto. Qed.
Lemma nth_upd_other {X} (x d : X) : forall n m l, n <> m -> nth m (upd n x l) d = nth m l d.
Proof.
  induction n as [|n IH]; intros [|m] [|y l] Hne; simpl; auto; try congruence.
Qed.
Lemma nth_upd_here {X} (x d : X) : forall n l, (n < length l)%nat -> nth n (upd n x l) d = x.
Proof. induction n as [|n IH]; intros [|y l] Hl; simpl in *; try lia; auto. apply IH; lia. Qed.
Lemma nth_upd_oob {X} (x : X) : forall n l, (length l <= n)%nat -> upd n x l = l.
Proof. induction n as [|n IH]; intros [|y l] Hl; simpl in *; try lia; auto. f_equal. apply IH; lia. Qed.

Lemma keeps_refl kr img w : keeps kr img w w.
Proof. repeat split; auto. Qed.


Lemma AT_w_image w h i j p : AT_w w h i j = Some p ->
  DenseP.index h i j = Some p /\ 0 <= p < zlen (sget w (d_values h)).
Proof.
  unfold AT_w. destruct (DenseP.index h i j) as [p'|]; [|discriminate].
  destruct ((0 <=? p') && (p' <? zlen (sget w (d_values h)))) eqn:Hb; [|discriminate].
  intros H; inversion H; subst. apply andb_prop in Hb as [H1 H2]. split; [reflexivity|]. lia.
Qed.

Lemma keeps_store r w0 w i j p z :
  keeps (d_values r) (image r) w0 w -> AT_w w r i j = Some p -> keeps (d_values r) (image r) w0 (store w r p z).
Proof.
  intros (Hl & Hs & Hn) Hat. apply AT_w_image in Hat as [Hidx Hp].
  unfold store. set (kr := d_values r) in *.
  assert (Hkr : (kr < length w)%nat).
  { destruct (Nat.lt_ge_cases kr (length w)) as [|Hge]; [assumption|].
    unfold sget in Hp. rewrite nth_overflow in Hp by lia. unfold zlen in Hp. simpl in Hp. lia. }
  split; [rewrite upd_len; assumption|]. split.
  - intros k. unfold sget. destruct (Nat.eq_dec kr k) as [<-|Hne].
    + rewrite nth_upd_here by assumption. rewrite upd_len. apply (Hs kr).
    + rewrite nth_upd_other by assumption. apply (Hs k).
  - intros k q Hc. rewrite <- (Hn k q Hc). unfold sget. destruct (Nat.eq_dec kr k) as [<-|Hne].
    + rewrite nth_upd_here by assumption. apply nth_upd_other.
      destruct Hc as [Hc|Hc]; [congruence|]. intros Heq. apply Hc. exists i, j. rewrite Hidx. f_equal. subst q. lia.
    + now rewrite nth_upd_other by assumption.
Qed.

Section Inv.
Variable body : stores -> Z -> Z -> option stores.
Variable P : stores -> Prop.
Hypothesis Hbody : forall w i j w', P w -> body w i j = Some w' -> P w'.
Lemma wfor_j_inv : forall cnt i j w, P w -> P (fst (wfor_j body cnt i j w)).
Proof.
  induction cnt as [|c IH]; intros i j w Hw; simpl; [assumption|].
  destruct (body w i j) as [w'|] eqn:Hb; [|assumption]. apply IH. eapply Hbody; eassumption.
Qed.
Lemma wfor_i_inv : forall cnt m i w, P w -> P (fst (wfor_i body cnt m i w)).
Proof.
  induction cnt as [|c IH]; intros m i w Hw; simpl; [assumption|].
  pose proof (wfor_j_inv m i 0 w Hw) as Hj. destruct (wfor_j body m i 0 w) as [w' ok]. simpl in Hj.
  destruct ok; [apply IH; assumption|assumption].
Qed.
End Inv.

Lemma body_concrete_keeps f r a b w0 w i j w' :
  keeps (d_values r) (image r) w0 w -> body_concrete f r a b w i j = Some w' -> keeps (d_values r) (image r) w0 w'.
Proof.
  unfold body_concrete. intros Hk. destruct (AT_w w r i j) as [p|] eqn:Hat; [|discriminate].
  destruct (two_w f _ _) as [z|]; [|discriminate]. intros H; inversion H; subst. eapply keeps_store; eassumption.
Qed.
Lemma bodyS_concrete_keeps f r a c w0 w i j w' :
  keeps (d_values r) (image r) w0 w -> bodyS_concrete f r a c w i j = Some w' -> keeps (d_values r) (image r) w0 w'.
Proof.
  unfold bodyS_concrete. intros Hk. destruct (AT_w w r i j) as [p|] eqn:Hat; [|discriminate].
  destruct (two_w f _ _) as [z|]; [|discriminate]. intros H; inversion H; subst. eapply keeps_store; eassumption.
Qed.

Lemma wstep_concrete_frame y w p :
  keeps (d_values (wrecv p)) (image (wrecv p)) w (fst (wstep_concrete y w p)).
Proof.
  destruct p; simpl; unfold MOPM_concrete, MOPS_concrete;
    match goal with |- context [if ?c then _ else _] => destruct c end; simpl; try apply keeps_refl.
  - apply wfor_i_inv; [|apply keeps_refl]. intros; eapply body_concrete_keeps; eassumption.
  - apply wfor_i_inv; [|apply keeps_refl]. intros; eapply body_concrete_keeps; eassumption.
  - apply wfor_i_inv; [|apply keeps_refl]. intros; eapply bodyS_concrete_keeps; eassumption.
  - apply wfor_i_inv; [|apply keeps_refl]. intros; eapply bodyS_concrete_keeps; eassumption.
Qed.
