(* C09 correspondence, dense matrix-scalar pairs with the scalar operand passed BY REFERENCE (family MA): the world
   (dense matrices and dense vectors over small integers), the pair with its scalar operand as the caller writes it
   (a value, m.At(i, j), v.At(i)) and what Go did for BOTH members; [check] replays the generic and the concrete model of
   C09.ModelMA and compares EACH with its Go outcome (kind, checksum of every element of every matrix and vector). *)
From Coq Require Import ZArith List Bool.
From ADV Require Import Base.Corr C11.Model C03.Model C03.ModelM C09.ModelM C09.ModelVA C09.ModelMA.
Import ListNotations.
Open Scope Z_scope.

Definition out := (Z * list Z * Z)%type.
Definition out_eqb (a b : out) : bool :=
  let '(k1, p1, h1) := a in
  let '(k2, p2, h2) := b in
  (k1 =? k2) && list_eqb Z.eqb p1 p2 && (h1 =? h2).
Definition mout (r : w4 * (Z * list Z)) : out := let '(w, (k, p)) := r in (k, p, hash (obs4 w)).
Inductive macase := CMA (y : ty) (setup : list mop4) (p : mapair) (gout cout : out).
Definition check_generic (c : macase) : bool :=
  match c with CMA y setup p gout _ => out_eqb (mout (mstepA_generic y (run4 y init4 setup) p)) gout end.
Definition check_concrete (c : macase) : bool :=
  match c with CMA y setup p _ cout => out_eqb (mout (mstepA_concrete y (run4 y init4 setup) p)) cout end.
Definition check (c : macase) : bool := check_generic c && check_concrete c.
Definition mism (cs : list macase) : list nat := mismatches check cs.
Definition mism2 (cs : list macase) : list nat * list nat := (mismatches check_generic cs, mismatches check_concrete cs).
