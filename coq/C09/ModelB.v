(* C09/ModelB.v — the CONCRETE-typed twins of the bare scalar types
     /repo/scalar_{float64,float32,int,int8,int16,int32,int64}_math_concrete.go   (template scalar_template_math_concrete.in)
     /repo/scalar_*.go  SET
   as they are coded: the operands have the receiver's type, so a.GET() is the stored value itself
   ( *a.ptr, no conversion through an interface getter ), next to the GENERIC members, which are the
   operations of the shared value model coq/C02/Model.v (imported, not forked).  LOGADD / LOGSUB of the
   bare types are sequences of the operations below (the temporary is a value, distinct from the operands).
   No proofs in this file. *)
From Coq Require Import ZArith List Bool.
From ADV Require Import C02.Model.
Import ListNotations.
Open Scope Z_scope.

Section B.
Context {A : Type} (C : Car A).

(* *a.ptr of an operand whose type is the receiver's *)
Definition ownF (v : sval A) : res A := match v with VF x => Val x | VI _ => Excl end.
Definition ownI (v : sval A) : res Z := match v with VI z => Val z | VF _ => Excl end.

(* c.SetInt(x op y) / c.SetFloat32(x op y) / ... : arithmetic in SCALAR_TYPE *)
Definition ARITH (t : ty) (o : aop) (a b : sval A) : res (sval A) :=
  match base_of t with
  | BF64 => x <- ownF a ;; y <- ownF b ;; Val (VF (fop C o x y))
  | BF32 => x <- ownF a ;; y <- ownF b ;; Val (VF (cr32 C (fop C o x y)))
  | bb => x <- ownI a ;; y <- ownI b ;; iop (bits bb) o x y
  end.
Definition NEG (t : ty) (a : sval A) : res (sval A) :=
  match base_of t with
  | BF64 | BF32 => x <- ownF a ;; Val (VF (cneg C x))
  | bb => x <- ownI a ;; Val (VI (wrap (bits bb) (- x)))
  end.
(* a.GET() > b.GET() / a.GET() < b.GET() *)
Definition CMP (t : ty) (r : rel) (a b : sval A) : res bool :=
  match base_of t with
  | BF64 | BF32 => x <- ownF a ;; y <- ownF b ;;
                   Val (match r with RGt => cltb C y x | RLt => cltb C x y end)
  | _ => x <- ownI a ;; y <- ownI b ;; Val (match r with RGt => y <? x | RLt => x <? y end)
  end.
Definition SIGN (t : ty) (a : sval A) : res Z :=
  lt <- CMP t RLt a (zero_of C (base_of t)) ;;
  if lt then Val (-1) else
  gt <- CMP t RGt a (zero_of C (base_of t)) ;;
  if gt then Val 1 else Val 0.
Definition EQUALS (a b : sval A) (eps : A) : res bool :=
  let v1 := getf64 C a in let v2 := getf64 C b in
  Val (cltb C (cabs C (csub C v1 v2)) eps
       || (cisnan C v1 && cisnan C v2)
       || (cisinf C v1 1 && cisinf C v2 1)
       || (cisinf C v1 (-1) && cisinf C v2 (-1))).
(* func (a Float64) SET(b Float64) { *a.ptr = *b.ptr } *)
Definition SET (t : ty) (a : sval A) : res (sval A) :=
  match base_of t with
  | BF64 | BF32 => x <- ownF a ;; Val (VF x)
  | _ => z <- ownI a ;; Val (VI z)
  end.
Definition MIN (t : ty) (a b : sval A) : res (sval A) :=
  lt <- CMP t RLt a b ;; if lt then SET t a else SET t b.
Definition MAX (t : ty) (a b : sval A) : res (sval A) :=
  gt <- CMP t RGt a b ;; if gt then SET t a else SET t b.
(* HEAD 2fc8894: switch a.Sign() { case -1: c.NEG(a); case 0: c.Reset(); case 1: c.SET(a) } — the sign of the ARGUMENT
   (the receiver's old value cold is not read any more; the parameter stays for the case format) *)
Definition ABS (t : ty) (cold a : sval A) : res (sval A) :=
  s <- sign C (t, a) ;;            (* a.Sign(): the lower-case method, not SIGN *)
  if s =? -1 then NEG t a else if s =? 0 then Val (zero_of C (base_of t)) else SET t a.
(* c.SetFloat64(math.F(a.GetFloat64())) *)
Definition UN (t : ty) (f : ufn) (a : sval A) : res (sval A) := store C (base_of t) (cfn C f (getf64 C a)).
Definition POW (t : ty) (a k : sval A) : res (sval A) := store C (base_of t) (cpow C (getf64 C a) (getf64 C k)).
(* SQRT: math.Sqrt(x) — the generic Sqrt is Pow(a, ConstFloat64(0.5)) = math.Pow(x, 0.5) *)
Definition SQRT (t : ty) (a : sval A) : res (sval A) := UN t FSqrt a.

(* LOGADD(a, b, t): if a.GREATER(b) { a, b = b, a }; if math.IsInf(a.GetFloat64(), 0) { c.SET(b); return c };
   t.SUB(a, b); t.EXP(t); t.LOG1P(t); c.ADD(t, b) — t a temporary of the receiver's type, distinct from a, b, c *)
Definition LOGADD (t : ty) (a b : sval A) : res (sval A) :=
  g <- CMP t RGt a b ;;
  let a' := if g then b else a in
  let b' := if g then a else b in
  if cisinf C (getf64 C a') 0 then SET t b'
  else
    t1 <- ARITH t OSub a' b' ;;
    t2 <- UN t FExp t1 ;;
    t3 <- UN t FLog1p t2 ;;
    ARITH t OAdd t3 b'.
(* LOGSUB(a, b, t): if math.IsInf(b.GetFloat64(), -1) { c.SET(a) }; t.SUB(b, a); t.EXP(t); t.NEG(t); t.LOG1P(t); c.ADD(t, a) *)
Definition LOGSUB (t : ty) (a b : sval A) : res (sval A) :=
  if cisinf C (getf64 C b) (-1) then SET t a
  else
    t1 <- ARITH t OSub b a ;;
    t2 <- UN t FExp t1 ;;
    t3 <- NEG t t2 ;;
    t4 <- UN t FLog1p t3 ;;
    ARITH t OAdd t4 a.

(* ---------------------------------------------------------------- pair table *)
Inductive bpair :=
  | BArithP (o : aop) | BNegP | BMinP | BMaxP | BAbsP | BSetP | BPowP | BSqrtP | BExpP | BLogP | BLog1pP
  | BLogAddP | BLogSubP.
Inductive bpred := BGreaterP | BSmallerP | BSignP | BEqualsP.

(* receiver type t (not a magic type), receiver's old value cold, operands a, b of type t *)
Definition b_generic (p : bpair) (t : ty) (cold a b : sval A) : res (sval A) :=
  match p with
  | BArithP o => arith C t o a b
  | BNegP => neg C t a
  | BMinP => min_ C t a b
  | BMaxP => max_ C t a b
  | BAbsP => abs_ C t (t, a)
  | BSetP => set C t a
  | BPowP => pow C t a b
  | BSqrtP => sqrt_ C t a
  | BExpP => un C t FExp a | BLogP => un C t FLog a | BLog1pP => un C t FLog1p a
  | BLogAddP => logadd C t t (t, a) (t, b) | BLogSubP => logsub C t t (t, a) (t, b)
  end.
Definition b_concrete (p : bpair) (t : ty) (cold a b : sval A) : res (sval A) :=
  match p with
  | BArithP o => ARITH t o a b
  | BNegP => NEG t a
  | BMinP => MIN t a b
  | BMaxP => MAX t a b
  | BAbsP => ABS t cold a
  | BSetP => SET t a
  | BPowP => POW t a b
  | BSqrtP => SQRT t a
  | BExpP => UN t FExp a | BLogP => UN t FLog a | BLog1pP => UN t FLog1p a
  | BLogAddP => LOGADD t a b | BLogSubP => LOGSUB t a b
  end.
Inductive bres := RB (b : bool) | RZ (z : Z) | RPanic | RExcl.
Definition rb (r : res bool) : bres := match r with Val b => RB b | Panic => RPanic | _ => RExcl end.
Definition rz (r : res Z) : bres := match r with Val z => RZ z | Panic => RPanic | _ => RExcl end.
Definition q_generic (p : bpred) (t : ty) (a b : sval A) (eps : A) : bres :=
  match p with
  | BGreaterP => rb (cmp C t RGt a b) | BSmallerP => rb (cmp C t RLt a b)
  | BSignP => rz (sign C (t, a)) | BEqualsP => rb (equals C (t, a) (t, b) eps)
  end.
Definition q_concrete (p : bpred) (t : ty) (a b : sval A) (eps : A) : bres :=
  match p with
  | BGreaterP => rb (CMP t RGt a b) | BSmallerP => rb (CMP t RLt a b)
  | BSignP => rz (SIGN t a) | BEqualsP => rb (EQUALS a b eps)
  end.

(* "the operand has the concrete type": it holds a value of type t *)
Definition wt (t : ty) (v : sval A) : Prop :=
  match base_of t, v with
  | BF64, VF _ => True
  | BF32, VF x => cr32 C x = x
  | BF64, VI _ | BF32, VI _ => False
  | bb, VI z => inrange (bits bb) z = true
  | _, VF _ => False
  end.
Definition bare (t : ty) : Prop := is_real t = false.
End B.
