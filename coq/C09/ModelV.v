(* C09/ModelV.v — the CONCRETE-typed twins of the vector methods
     /repo/vector_sparse_template_math.in  EQUALS VADDV VADDS VSUBV VSUBS VMULV VMULS VDIVV VDIVS
     /repo/vector_sparse_template.in       SET, JOINT_ITERATOR_, JOINT3_ITERATOR_ (typed joint iterators)
     /repo/vector_dense_template_math.in   EQUALS VADDV ... VDIVS
   modelled as they are coded (separate textual bodies: own iterator structs whose
   Ok() is computed from the two/three cell pointers, explicit cases for absent
   operand entries) on top of the SHARED sparse vector model coq/C11/Model.v; the
   GENERIC members of the pairs are the operations of coq/C03/Model.v (imported,
   not forked).  Element carrier Z as there.

   The typed iterators hand out the operand's CELL; every loop body reads it
   before it writes, and the only thing that happens between Next() and the read
   is r.AT(idx) (allocates a fresh cell), so — as C11 does for the generic
   iterators — the operand's VALUE at Next() time is kept in the record.
   No proofs in this file. *)
From Coq Require Import ZArith List Bool Lia.
From ADV Require Import C11.Model C03.Model.
Import ListNotations.
Open Scope Z_scope.

Definition present {X} (o : option X) : bool := match o with Some _ => true | None => false end.
(* it.GET() of a plain typed iterator of vector u standing at key k: the cell's value, None = Float64{} *)
Definition it_get (w : world) (u : nat) (cur : option Z) : option Z :=
  match cur with
  | Some k => match lookup k (vals (getv w u)) with Some l => Some (hget (hp w) l) | None => None end
  | None => None
  end.
Definition adv (w : world) (u : nat) (cur : option Z) : option (world * option Z) :=
  match it_next (hp w) (getv w u) cur with
  | Some (v', c') => Some (setv w u v', c')
  | None => None
  end.

(* ------------------------------------------------ SparseXVectorJointIterator_ *)
Record jointC := { c1 : option Z; c2u : nat; c2 : option Z; cidx : Z; cs1 : option loc; cs2 : option Z }.
(* Ok(): obj.s1.ptr != nil || obj.s2.ptr != nil *)
Definition jointC_ok (j : jointC) : bool := present (cs1 j) || present (cs2 j).
Definition jointC_next (w : world) (t : nat) (j : jointC) : option (world * jointC) :=
  let ok1 := present (c1 j) in
  let ok2 := present (c2 j) in
  let '(i0, s1) := match c1 j with
                   | Some k => (k, lookup k (vals (getv w t)))
                   | None => (cidx j, None) end in
  let '(i1, s1', s2) :=
    match c2 j with
    | Some i2 =>
        if (i2 <? i0) || negb ok1 then (i2, None, it_get w (c2u j) (c2 j))
        else if i0 =? i2 then (i0, s1, it_get w (c2u j) (c2 j))
        else (i0, s1, None)
    | None => (i0, s1, None)
    end in
  match (if present s1' then adv w t (c1 j) else Some (w, c1 j)) with
  | None => None
  | Some (w1, n1) =>
      match (if present s2 then adv w1 (c2u j) (c2 j) else Some (w1, c2 j)) with
      | None => None
      | Some (w2, n2) =>
          Some (w2, {| c1 := n1; c2u := c2u j; c2 := n2; cidx := i1; cs1 := s1'; cs2 := s2 |})
      end
  end.
(* r := JointIterator_{obj.ITERATOR(), b.ITERATOR(), -1, Float64{}, Float64{}}; r.Next() *)
Definition jointC_begin (w : world) (t u : nat) : option (world * jointC) :=
  match it_begin (hp w) (getv w t) with
  | None => None
  | Some (v', n1) =>
      let w0 := setv w t v' in
      match it_begin (hp w0) (getv w0 u) with
      | None => None
      | Some (v2, n2) =>
          jointC_next (setv w0 u v2) t {| c1 := n1; c2u := u; c2 := n2; cidx := -1; cs1 := None; cs2 := None |}
      end
  end.

(* ----------------------------------------------- SparseXVectorJoint3Iterator_ *)
Record joint3C := { d1 : option Z; d2u : nat; d2 : option Z; d3u : nat; d3 : option Z; didx : Z;
                    ds1 : option loc; ds2 : option Z; ds3 : option Z }.
Definition joint3C_ok (j : joint3C) : bool := present (ds1 j) || present (ds2 j) || present (ds3 j).
Definition joint3C_next (w : world) (t : nat) (j : joint3C) : option (world * joint3C) :=
  let ok1 := present (d1 j) in
  let ok2 := present (d2 j) in
  let '(i0, s1) := match d1 j with
                   | Some k => (k, lookup k (vals (getv w t)))
                   | None => (didx j, None) end in
  let '(i1, s1a, s2a) :=
    match d2 j with
    | Some i =>
        if (i <? i0) || negb ok1 then (i, None, it_get w (d2u j) (d2 j))
        else if i0 =? i then (i0, s1, it_get w (d2u j) (d2 j))
        else (i0, s1, None)
    | None => (i0, s1, None)
    end in
  let '(i2, s1b, s2b, s3b) :=
    match d3 j with
    | Some i =>
        if (i <? i1) || (negb ok1 && negb ok2) then (i, None, None, it_get w (d3u j) (d3 j))
        else if i1 =? i then (i1, s1a, s2a, it_get w (d3u j) (d3 j))
        else (i1, s1a, s2a, None)
    | None => (i1, s1a, s2a, None)
    end in
  match (if present s1b then adv w t (d1 j) else Some (w, d1 j)) with
  | None => None
  | Some (w1, n1) =>
      match (if present s2b then adv w1 (d2u j) (d2 j) else Some (w1, d2 j)) with
      | None => None
      | Some (w2, n2) =>
          match (if present s3b then adv w2 (d3u j) (d3 j) else Some (w2, d3 j)) with
          | None => None
          | Some (w3, n3) =>
              Some (w3, {| d1 := n1; d2u := d2u j; d2 := n2; d3u := d3u j; d3 := n3; didx := i2;
                           ds1 := s1b; ds2 := s2b; ds3 := s3b |})
          end
      end
  end.
Definition joint3C_begin (w : world) (t u2 u3 : nat) : option (world * joint3C) :=
  match it_begin (hp w) (getv w t) with
  | None => None
  | Some (v', n1) =>
      let w0 := setv w t v' in
      match it_begin (hp w0) (getv w0 u2) with
      | None => None
      | Some (v2, n2) =>
          let w1 := setv w0 u2 v2 in
          match it_begin (hp w1) (getv w1 u3) with
          | None => None
          | Some (v3, n3) =>
              joint3C_next (setv w1 u3 v3) t
                {| d1 := n1; d2u := u2; d2 := n2; d3u := u3; d3 := n3; didx := -1;
                   ds1 := None; ds2 := None; ds3 := None |}
          end
      end
  end.

(* ------------------------------------------------------- VADDV VSUBV VMULV *)
(* the value the switch of the loop body leaves in s_r *)
Definition body3 (o : bop) (s2 s3 : option Z) : Z :=
  match o with
  | Add => match s2, s3 with
           | None, None => 0                 (* s_r.SetFloat64(0.0) *)
           | Some a, None => a               (* s_r.SET(s_a) *)
           | None, Some b => b               (* s_r.SET(s_b) *)
           | Some a, Some b => a + b         (* s_r.ADD(s_a, s_b) *)
           end
  | Sub => match s2, s3 with
           | None, None => 0
           | Some a, None => a
           | None, Some b => - b             (* s_r.SET(s_b); s_r.NEG(s_r) *)
           | Some a, Some b => a - b
           end
  | Mul => match s2, s3 with
           | Some a, Some b => a * b         (* default: s_r.MUL(s_a, s_b) *)
           | _, _ => 0                       (* s_a.ptr == nil || s_b.ptr == nil *)
           end
  end.
Fixpoint MAP3 (o : bop) (fuel : nat) (w : world) (t : nat) (j : joint3C) : option (world * bool) :=
  if joint3C_ok j then
    match fuel with
    | O => None
    | S fu =>
        match wr w t (didx j) (ds1 j) (body3 o (ds2 j) (ds3 j)) with
        | None => Some (w, false)
        | Some w1 =>
            match joint3C_next w1 t j with
            | None => None
            | Some (w2, j') => MAP3 o fu w2 t j'
            end
        end
    end
  else Some (w, true).
Definition VOPV (o : bop) (w : world) (t u2 u3 : nat) : option (world * bool) :=
  let n := dim (getv w t) in
  if negb (dim (getv w u2) =? n) || negb (dim (getv w u3) =? n) then Some (w, false)
  else match joint3C_begin w t u2 u3 with
       | None => None
       | Some (w1, j) => MAP3 o (lfuel w t) w1 t j
       end.

(* ------------------------------------------------------------ VMULS VDIVS *)
(* s_r := it.s1; if s_r.ptr == nil { s_r = r.AT(it.Index()) } *)
Definition cell_of (w : world) (t : nat) (i : Z) (s1 : option loc) : option (world * loc) :=
  match s1 with
  | Some l => Some (w, l)
  | None => match at_ (hp w) (getv w t) i with
            | Some (h', v', l) => Some (seth (setv w t v') h', l)
            | None => None
            end
  end.
(* if s_a.ptr == nil { s_r.SetFloat64(0.0) } else { s_r.MUL(s_a, b) } ; f = None: the scalar operation
   panicked (integer division by zero) AFTER r.AT created the entry *)
Fixpoint MAP2 (f : Z -> option Z) (fuel : nat) (w : world) (t : nat) (j : jointC) : option (world * bool) :=
  if jointC_ok j then
    match fuel with
    | O => None
    | S fu =>
        match cell_of w t (cidx j) (cs1 j) with
        | None => Some (w, false)
        | Some (w0, l) =>
          match (match cs2 j with None => Some 0 | Some a => f a end) with
          | None => Some (w0, false)
          | Some x =>
              match jointC_next (seth w0 (hset (hp w0) l x)) t j with
              | None => None
              | Some (w2, j') => MAP2 f fu w2 t j'
              end
          end
        end
    end
  else Some (w, true).
Definition VOPS (f : Z -> option Z) (w : world) (t u : nat) : option (world * bool) :=
  if negb (dim (getv w t) =? dim (getv w u)) then Some (w, false)
  else match jointC_begin w t u with
       | None => None
       | Some (w1, j) => MAP2 f (lfuel w t) w1 t j
       end.
Definition VMULS (w : world) (t u : nat) (c : Z) := VOPS (fun x => Some (x * c)) w t u.
(* VDIVS is { r.VdivS(a, b); return r } since 5abb77d (it had its own joint loop without the b == 0 branch:
   F-C09-VDIVS-ZERO, retired) *)

(* --------------------------------------------------------------- EQUALS *)
(* s1.ptr == nil -> false; s2.ptr == nil -> false; !s1.EQUALS(s2) -> false *)
Fixpoint EQ_LOOP (e2 : Z) (fuel : nat) (w : world) (t : nat) (j : jointC) : option (world * bool) :=
  if jointC_ok j then
    match fuel with
    | O => None
    | S fu =>
        match cs1 j, cs2 j with
        | Some l, Some b =>
            if close e2 (hget (hp w) l) b then
              match jointC_next w t j with
              | None => None
              | Some (w', j') => EQ_LOOP e2 fu w' t j'
              end
            else Some (w, false)
        | _, _ => Some (w, false)
        end
    end
  else Some (w, true).
Definition EQUALS (e2 : Z) (w : world) (t u : nat) : option (world * option bool) :=
  if negb (dim (getv w t) =? dim (getv w u)) then Some (w, None)
  else match jointC_begin w t u with
       | None => None
       | Some (w1, j) =>
           match EQ_LOOP e2 (lfuel w t) w1 t j with
           | None => None
           | Some (w2, b) => Some (w2, Some b)
           end
       end.

(* ------------------------------------------------------------------ SET *)
(* switch { case s1.ptr != nil && s2.ptr != nil: s1.SET(s2)
            case s1.ptr != nil                  : s1.SetFloat64(0)
            default                             : obj.AT(it.Index()).SET(s2) } *)
Fixpoint SET_LOOP (fuel : nat) (w : world) (t : nat) (j : jointC) : option (world * bool) :=
  if jointC_ok j then
    match fuel with
    | O => None
    | S fu =>
        match (match cs1 j, cs2 j with
               | Some l, Some b => Some (seth w (hset (hp w) l b))
               | Some l, None => Some (seth w (hset (hp w) l 0))
               | None, s2 =>
                   match at_ (hp w) (getv w t) (cidx j) with
                   | Some (h', v', l) => Some (seth (setv w t v') (hset h' l (match s2 with Some b => b | None => 0 end)))
                   | None => None
                   end
               end) with
        | None => Some (w, false)
        | Some w1 =>
            match jointC_next w1 t j with
            | None => None
            | Some (w2, j') => SET_LOOP fu w2 t j'
            end
        end
    end
  else Some (w, true).
Definition SETV (w : world) (t u : nat) : option (world * bool) :=
  if Nat.eqb t u then Some (w, true) else
  if negb (dim (getv w t) =? dim (getv w u)) then Some (w, false) else
  match jointC_begin w t u with
  | None => None
  | Some (w1, j) => SET_LOOP (lfuel w t) w1 t j
  end.

(* ----------------------------------------------------------- dense twins *)
(* for i := 0; i < a.Dim(); i++ { r.AT(i).ADD(a.AT(i), b.AT(i)) }: typed dense operands (handles) *)
Definition dat (w : w3) (k : nat) (i : Z) : Z := nth (Z.to_nat i) (getd w k) 0.
Fixpoint DLOOP (g : w3 -> Z -> option Z) (cnt : nat) (i : Z) (w : w3) (k : nat) : w3 * bool :=
  match cnt with
  | O => (w, true)
  | S c =>
      match g w i with
      | None => (w, false)
      | Some x => DLOOP g c (i + 1) (setd w k (upd (Z.to_nat i) x (getd w k))) k
      end
  end.
Definition DOP (g : w3 -> Z -> option Z) (w : w3) (k : nat) (xs : list nat) : w3 * bool :=
  let n := zlen (getd w k) in
  if forallb (fun x => zlen (getd w x) =? n) xs then DLOOP g (Z.to_nat n) 0 w k else (w, false).
Definition DEQUALS (e2 : Z) (w : w3) (k x : nat) : option bool :=
  let n := zlen (getd w k) in
  if zlen (getd w x) =? n then
    Some (forallb (fun i => close e2 (dat w k i) (dat w x i)) (zseq 0 (Z.to_nat n)))
  else None.

(* ------------------------------------------------------------ pair table *)
(* receiver and operands have the receiver's concrete type: all sparse or all dense handles *)
Inductive vpair :=
  | VPopV (o : bop) (r a b : nat)        (* VaddV/VADDV  VsubV/VSUBV  VmulV/VMULV *)
  | VPdivV (r a b : nat)                 (* VdivV/VDIVV *)
  | VPaddS (r a : nat) (s : Z)           (* VaddS/VADDS *)
  | VPsubS (r a : nat) (s : Z)
  | VPmulS (r a : nat) (s : Z)
  | VPdivS (r a : nat) (s : Z)
  | VPequals (a b : nat) (e2 : Z)        (* Equals/EQUALS, epsilon = e2/2 *)
  | VPset (r a : nat).                   (* Set/SET (sparse) *)

Definition ref_ (sp : bool) (k : nat) : vref := if sp then RS k else RD k.
Definition generic_op (sp : bool) (p : vpair) : op3 :=
  let R := ref_ sp in
  match p with
  | VPopV o r a b => VopV o (R r) (R a) (R b)
  | VPdivV r a b => VdivV (R r) (R a) (R b)
  | VPaddS r a s => VaddS (R r) (R a) s
  | VPsubS r a s => VsubS (R r) (R a) s
  | VPmulS r a s => VmulS (R r) (R a) s
  | VPdivS r a s => VdivS (R r) (R a) s
  | VPequals a b e2 => VEquals (R a) (R b) e2
  | VPset r a => VSet (R r) (R a)
  end.
Definition step_generic (y : ty) (sp : bool) (w : w3) (p : vpair) : w3 * (Z * list Z) :=
  step3 y w (generic_op sp p).

Definition step_concrete (y : ty) (sp : bool) (w : w3) (p : vpair) : w3 * (Z * list Z) :=
  let s := sw w in
  if sp then
    match p with
    | VPopV o r a b => lift w (VOPV o s r a b)
    | VPmulS r a c => lift w (VMULS s r a c)
    | VPequals a b e2 =>
        match EQUALS e2 s a b with
        | Some (s', Some r) => (sets w s', (K_OK, [b2z r]))
        | Some (s', None) => (sets w s', (K_PANIC, []))
        | None => (w, (K_FUEL, []))
        end
    | VPset r a => lift w (SETV s r a)
    (* VADDS, VSUBS, VDIVV, VDIVS: { r.VaddS(a, b); return r } — they call the generic method *)
    | VPaddS _ _ _ | VPsubS _ _ _ | VPdivV _ _ _ | VPdivS _ _ _ => step3 y w (generic_op true p)
    end
  else
    match p with
    | VPopV o r a b => lift3 (DOP (fun w' i => Some (bop_f o (dat w' a i) (dat w' b i))) w r [a; b])
    | VPdivV r a b => lift3 (DOP (fun w' i => sdiv y (dat w' a i) (dat w' b i)) w r [a; b])
    | VPaddS r a c => lift3 (DOP (fun w' i => Some (dat w' a i + c)) w r [a])
    | VPsubS r a c => lift3 (DOP (fun w' i => Some (dat w' a i - c)) w r [a])
    | VPmulS r a c => lift3 (DOP (fun w' i => Some (dat w' a i * c)) w r [a])
    | VPdivS r a c => lift3 (DOP (fun w' i => sdiv y (dat w' a i) c) w r [a])
    | VPequals a b e2 =>
        match DEQUALS e2 w a b with
        | Some r => (w, (K_OK, [b2z r]))
        | None => (w, (K_PANIC, []))
        end
    | VPset r a => lift3 (DOP (fun w' i => Some (dat w' a i)) w r [a])   (* DenseReal SET: v[i].SET(w[i]) *)
    end.
