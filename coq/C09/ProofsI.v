(* C09/ProofsI.v — the accessor and iterator pairs of C09.ModelI: the generic member and the CONCRETE member of every
   modelled pair have the same outcome (kind, payload, world afterwards) on EVERY world, for every operand — also
   where the generic member is a one-line wrapper (a future divergence of the two model members must break this
   file), the nil guards of the sparse iterator Get and of the joint iterator Get by case analysis.
   Structure of the dense vector iterator: ITERATOR visits exactly the positions 0 .. n-1 in order, every one with
   a non-nil element holding v[i], and leaves the world alone; ITERATOR_FROM(i) visits the suffix from i. *)
From Coq Require Import ZArith List Bool Lia.
From ADV Require Import C11.Model C03.Model C03.ModelM C10.Gen C09.ModelM C09.ModelI.
Import ListNotations.
Open Scope Z_scope.

(* ------------------------------------------------------------------ element access *)
Lemma enc_guard : forall c, enc_g (Get_guard c) = enc_c c.
Proof. destruct c; reflexivity. Qed.

Lemma get_agree : forall w s, get_generic w s = get_concrete w s.
Proof.
  intros w s. unfold get_generic, get_concrete, it_Get.
  destruct s as [k i | u cur | k i j | k cur]; simpl.
  - destruct ((0 <=? i) && (i <? zlen (getd (b3 w) k))); reflexivity.
  - rewrite enc_guard. reflexivity.
  - destruct (ATv w k i j); reflexivity.
  - rewrite enc_guard. reflexivity.
Qed.

Lemma walk_agree : forall fuel w s acc, walk get_concrete fuel w s acc = walk get_generic fuel w s acc.
Proof.
  induction fuel as [| f IH]; intros w s acc; simpl.
  - reflexivity.
  - rewrite get_agree.
    destruct (it_ok w s); [| reflexivity].
    destruct (get_concrete w s) as [e |]; [| reflexivity].
    destruct (it_Next w s) as [[w' s'] | |]; try reflexivity.
    apply IH.
Qed.

Lemma vj_get_agree : forall w j, vj_get_generic w j = vj_get_concrete w j.
Proof.
  intros w j. unfold vj_get_generic, vj_get_concrete, VJ_Get, VJ_GET. simpl.
  destruct (js1 j); reflexivity.
Qed.
Lemma vj_walk_agree : forall fuel w t j acc,
  vj_walk vj_get_concrete fuel w t j acc = vj_walk vj_get_generic fuel w t j acc.
Proof.
  induction fuel as [| f IH]; intros w t j acc; simpl.
  - reflexivity.
  - destruct (jok j); [| reflexivity].
    destruct (joint_next w t j) as [[w' j'] |]; [| reflexivity].
    rewrite vj_get_agree. apply IH.
Qed.

Lemma mj_get_agree : forall w j, mj_get_generic w j = mj_get_concrete w j.
Proof.
  intros w j. unfold mj_get_generic, mj_get_concrete, MJ_Get, MJ_GET. simpl.
  destruct (ns1 j); reflexivity.
Qed.
Lemma mj_walk_agree : forall fuel c w t j acc,
  mj_walk mj_get_concrete c fuel w t j acc = mj_walk mj_get_generic c fuel w t j acc.
Proof.
  induction fuel as [| f IH]; intros c w t j acc; simpl.
  - reflexivity.
  - destruct (mj2_ok j); [| reflexivity].
    destruct (mj2_next w t j) as [[w' j'] |]; [| reflexivity].
    rewrite mj_get_agree. apply IH.
Qed.

(* ------------------------------------------------------------------ the pairs *)
Lemma at_pairs_agree : forall w x i j, AT_of w x i j = At_of w x i j.
Proof. intros w x i j. destruct x; reflexivity. Qed.

Lemma run_iter_agree : forall w x beg, run_iter get_concrete w x beg = run_iter get_generic w x beg.
Proof.
  intros w x beg. unfold run_iter. destruct beg as [[w' s] | |]; try reflexivity. apply walk_agree.
Qed.

Lemma accessor_iterator_pairs_agree : forall y w p, istep_concrete y w p = istep_generic y w p.
Proof.
  intros y w p. destruct p as [x i j d | x | x i j | x b]; simpl.
  - rewrite at_pairs_agree. reflexivity.
  - unfold Iterator. apply run_iter_agree.
  - unfold IteratorFrom. apply run_iter_agree.
  - destruct x as [k | t | k | k]; try reflexivity.
    + destruct (vec_operand w b) as [o |]; [| reflexivity].
      unfold V_JointIterator, vj_run.
      destruct (V_JOINT_ITERATOR (sws w) t o) as [[s1 j] |]; [| reflexivity].
      rewrite vj_walk_agree. reflexivity.
    + destruct (mat_operand w b) as [[o d] |]; [| reflexivity].
      destruct (dims_eqb d _); [| reflexivity].
      unfold M_JointIterator, mj_run.
      destruct (M_JOINT_ITERATOR (sws w) (smvec w k) o) as [[s1 j] |]; [| reflexivity].
      rewrite mj_walk_agree. reflexivity.
Qed.

(* ------------------------------------------------------------------ dense vector iterator: the visit sequence *)
(* one visit: index, non-nil element, its value *)
Definition dv_rec (d : list Z) (i : Z) : list Z := [i; 1; nth (Z.to_nat i) d 0].

Lemma walk_dv : forall (w : w4) k n i acc fuel,
  0 <= i -> i + Z.of_nat n = zlen (getd (b3 w) k) -> (n < fuel)%nat ->
  walk get_concrete fuel w (IDV k i) acc = (w, (K_OK, acc ++ flat_map (dv_rec (getd (b3 w) k)) (zseq i n))).
Proof.
  intros w k n. induction n as [| n IH]; intros i acc fuel Hi Hlen Hf.
  - destruct fuel as [| f]; [lia |].
    simpl. replace (i <? zlen (getd (b3 w) k)) with false by (symmetry; apply Z.ltb_ge; lia).
    rewrite app_nil_r. reflexivity.
  - destruct fuel as [| f]; [lia |].
    simpl walk. unfold it_ok, get_concrete, it_GET, it_Next.
    replace (i <? zlen (getd (b3 w) k)) with true by (symmetry; apply Z.ltb_lt; lia).
    replace (0 <=? i) with true by (symmetry; apply Z.leb_le; lia).
    simpl. rewrite IH by lia.
    unfold dv_rec at 2. simpl. rewrite <- app_assoc. reflexivity.
Qed.

Lemma dv_iterator_visits : forall y w k,
  istep_concrete y w (IPiter (KDV k)) =
  (w, (K_OK, flat_map (dv_rec (getd (b3 w) k)) (zseq 0 (length (getd (b3 w) k))))).
Proof.
  intros y w k. unfold istep_concrete, run_iter, ITERATOR, it_Next, wfuel.
  replace (-1 + 1) with 0 by lia.
  rewrite (walk_dv w k (length (getd (b3 w) k)) 0 [] _); [reflexivity | lia | reflexivity | lia].
Qed.

Lemma dv_iterator_from_visits : forall y w k i j,
  0 <= i <= zlen (getd (b3 w) k) ->
  istep_concrete y w (IPfrom (KDV k) i j) =
  (w, (K_OK, flat_map (dv_rec (getd (b3 w) k)) (zseq i (Z.to_nat (zlen (getd (b3 w) k) - i))))).
Proof.
  intros y w k i j Hi. unfold istep_concrete, run_iter, ITERATOR_FROM, it_Next, wfuel.
  replace (i - 1 + 1) with i by lia.
  rewrite (walk_dv w k (Z.to_nat (zlen (getd (b3 w) k) - i)) i [] _); [reflexivity | lia | lia |].
  unfold zlen in *. lia.
Qed.

Lemma zseq_app : forall n m a, zseq a (n + m) = zseq a n ++ zseq (a + Z.of_nat n) m.
Proof.
  induction n as [| n IH]; intros m a.
  - simpl. replace (a + 0) with a by lia. reflexivity.
  - simpl. rewrite IH. replace (a + 1 + Z.of_nat n) with (a + Z.pos (Pos.of_succ_nat n)) by lia. reflexivity.
Qed.

(* ITERATOR_FROM(i) delivers the suffix of what ITERATOR delivers: the full sequence is the visits of the
   positions below i followed by the ITERATOR_FROM(i) sequence *)
Lemma dv_iterator_from_is_suffix : forall y w k i j,
  0 <= i <= zlen (getd (b3 w) k) ->
  snd (snd (istep_concrete y w (IPiter (KDV k)))) =
  flat_map (dv_rec (getd (b3 w) k)) (zseq 0 (Z.to_nat i)) ++ snd (snd (istep_concrete y w (IPfrom (KDV k) i j))).
Proof.
  intros y w k i j Hi.
  rewrite dv_iterator_visits, (dv_iterator_from_visits y w k i j Hi). simpl snd.
  rewrite <- flat_map_app.
  replace (length (getd (b3 w) k)) with (Z.to_nat i + Z.to_nat (zlen (getd (b3 w) k) - i))%nat
    by (unfold zlen in *; lia).
  rewrite zseq_app. replace (0 + Z.of_nat (Z.to_nat i)) with i by lia. reflexivity.
Qed.

(* the same for the generic members Iterator / IteratorFrom with Get *)
Lemma dv_Iterator_visits : forall y w k,
  istep_generic y w (IPiter (KDV k)) =
  (w, (K_OK, flat_map (dv_rec (getd (b3 w) k)) (zseq 0 (length (getd (b3 w) k))))).
Proof. intros y w k. rewrite <- accessor_iterator_pairs_agree. apply dv_iterator_visits. Qed.
