(* C09/ProofsMA.v — dense matrix-scalar pairs with the scalar operand passed by reference (C09/ModelMA.v): the nested
   loops of the concrete twins over AT leave exactly the world of the generic members on every well-formed world, for
   every reference (a cell of the receiver, of the other operand, of a third matrix, of a dense vector, a scalar of its
   own); an [MAVal] operand is the by-value pair of ModelM.v; the cached twin is refuted. *)
From Coq Require Import ZArith List Bool Lia.
From ADV Require Import C11.Model C03.Model C03.ModelM C10.Gen C09.ModelM C09.ModelVA C09.ModelMA C09.ProofsM.
Import ListNotations.
Open Scope Z_scope.

Lemma MOPSR_generic (f : Z -> Z -> option Z) w r a s : wfdm w ->
  MOPSR f w r a s = mopsr_generic f w r a s.
Proof.
  intros W. unfold MOPSR, mopsr_generic, dmop.
  pose proof (wfdm_shape w r W) as Sr. pose proof (wfdm_shape w a W) as Sa.
  pose proof (wfdm_nonneg w r W) as [Nn Nm].
  destruct (mdims w (XD r)) as [n m] eqn:Dr. destruct (mdims w (XD a)) as [n1 m1] eqn:Da.
  cbn [fst snd forallb] in *. rewrite ?Da. rewrite !eqb_pair_dims.
  destruct (n1 =? n) eqn:E1; [|reflexivity]. destruct (m1 =? m) eqn:E2; [|reflexivity].
  apply Z.eqb_eq in E1, E2. subst. cbn [negb andb].
  rewrite (nested_is_linear r n m [a] (fun _ => True) (fun _ _ _ => I) _ (fun w' k => f (mrd w' (XD a) k) (mread w' s))).
  - unfold fin. destruct (dmloop _ _ _ _ _) as [w' ok]. reflexivity.
  - intros w' i j (Hn & Hm & Hs & _) Hi Hj.
    rewrite (ATv_shape w' a n m i j); auto; apply Hs; cbn; auto.
  - repeat split; auto. intros k [<-|[<-|[]]]; assumption.
Qed.

Lemma matrix_scalar_ref_pairs_agree y w p : wfdm w -> mstepA_concrete y w p = mstepA_generic y w p.
Proof.
  intros W. unfold mstepA_concrete, mstepA_generic, mrun.
  destruct (mresolve w (mp_s p)); [|reflexivity]. now apply MOPSR_generic.
Qed.

Lemma m_by_value_concrete y w o r a c :
  mstepA_concrete y w {| mp_op := o; mp_r := r; mp_a := a; mp_s := MAVal c |} = mstep_concrete y w (mpair_of o r a c).
Proof. destruct o; reflexivity. Qed.

(* r = [[2, 3]], a = [[5, 7]]: r.MMULS(a, r.AT(0, 0)) *)
Definition wm : w4 := run4 TInt init4 [NewDM [2; 3] 1 2; NewDM [5; 7] 1 2].
Definition pm_mul_self : mapair := {| mp_op := SMul; mp_r := 0; mp_a := 1; mp_s := MAMat 0 0 0 |}.
Lemma wm_wf : wfdm wm.
Proof. intros k. do 2 (destruct k as [|k]; [vm_compute; repeat split; discriminate|]). vm_compute. destruct k; repeat split; discriminate. Qed.
Lemma reread_witness_matrix :
  dvals (fst (mstepA_concrete TInt wm pm_mul_self)) 0%nat = [10; 70] /\
  dvals (fst (mstepA_generic TInt wm pm_mul_self)) 0%nat = [10; 70] /\
  dvals (fst (mstepA_cached TInt wm pm_mul_self)) 0%nat = [10; 14].
Proof. vm_compute. repeat split. Qed.
Lemma cached_matrix_refuted : ~ (forall y w p, wfdm w -> mstepA_cached y w p = mstepA_generic y w p).
Proof. intros H. specialize (H TInt wm pm_mul_self wm_wf). vm_compute in H. discriminate H. Qed.
