(* C09/Spec.v — what "generic and concrete-typed methods are interchangeable" says about the models.
   A pair is INTERCHANGEABLE when running the concrete member and running the generic member on the same
   state give the same result and the same state: for magic scalars the whole register file (value, Order,
   N, gradient and Hessian storage of every register, panics); for bare scalars the stored value or the
   panic; for vectors the whole world — every vector's elements (abstraction) AND its private map and index
   key set (coherence state), including what the iterators' skip() did to the operands — plus outcome kind
   and returned payload. *)
From Coq Require Import ZArith List Bool.
From ADV Require Import Base.Fl C01.Model C11.Model C03.Model C09.ModelS C09.ModelV.
Import ListNotations.

Definition scalar_interchangeable {A} (F : Fl A) (r32 : A -> A) (p : spair) : Prop :=
  forall s : St (A := A), run_concrete F r32 p s = run_generic F r32 p s.
Definition predicate_interchangeable {A} (F : Fl A) (r32 : A -> A) (p : ppair) : Prop :=
  forall (eps : A) (s : St (A := A)), pred_concrete F r32 p eps s = pred_generic F r32 p eps s.
Definition vector_interchangeable (y : ty) (sp : bool) (p : vpair) : Prop :=
  forall w : w3, step_concrete y sp w p = step_generic y sp w p.

(* equal results in the sense of the property: equal abstraction, equal coherence state, equal outcome *)
Definition same_abstraction (w1 w2 : w3) : Prop :=
  map (fun v => abs_vec (hp (sw w1)) v) (vecs (sw w1)) = map (fun v => abs_vec (hp (sw w2)) v) (vecs (sw w2))
  /\ dn w1 = dn w2.
Definition same_coherence (w1 w2 : w3) : Prop :=
  map (fun v => (map_dump (hp (sw w1)) v, idx v, dim v)) (vecs (sw w1))
  = map (fun v => (map_dump (hp (sw w2)) v, idx v, dim v)) (vecs (sw w2)).
