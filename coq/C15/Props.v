(* C15 — property theorems (statements only; proofs live in Proofs*.v).

   Carrier: any commutative semiring [O] with Leibniz equality ([CSemiring]);
   quotients where the code subtracts log-values ([CSemifield]).  The Go code is
   the instance "log-probabilities with LogAdd / + / - / -Inf / IsInf(.,-1)";
   [logpdf_in_log_space] states that instance over R with
   LogAdd a b = ln(e^a + e^b) and connects it to the probability semiring by
   the homomorphism exp.  [paths m n] is the explicit enumeration of [0,m)^n,
   [weight] the joint weight of a path:
     Pi(x_0) e(x_0,0) * prod_k T_k(x_{k-1},x_k) e(x_k,k),  T_k = Tf for k = n-1, Tr otherwise. *)
From Coq Require Import List Arith Bool QArith Qcanon Reals.
From ADV Require Import C15.Model C15.ModelBuf C15.Spec C15.Proofs.
Import ListNotations.
Open Scope nat_scope.

(* the enumeration ranges over exactly the lists of n states below m *)
Theorem paths_are_all_paths :
  forall m n p, In p (paths m n) <-> (length p = n /\ Forall (fun x => x < m) p).
Proof. exact paths_iff. Qed.

(* forward: alpha(j,k) is the sum of the weights of all paths x_0..x_k with x_k = j *)
Theorem forward_is_path_sum :
  forall A (O : Ops A), CSemiring O -> forall m Pi Tr Tf smap e n k j, k < n -> j < m ->
    at_ O (nth k (forward O m Pi Tr Tf smap e n) []) j =
    esum O (map (fun p => weight O Pi Tr Tf smap e n (p ++ [j])) (paths m k)).
Proof. exact (fun A O CS m Pi Tr Tf smap e n k j => forward_paths O CS m Pi Tr Tf smap e n k j). Qed.

(* backward: beta(i,k) is the sum of the weights of all continuations x_{k+1}..x_{n-1} of x_k = i *)
Theorem backward_is_path_sum :
  forall A (O : Ops A), CSemiring O -> forall m Tr Tf smap e n k i, k < n -> i < m ->
    at_ O (nth k (backward O m Tr Tf smap e n) []) i =
    esum O (map (wtail O Tr Tf smap e n (S k) i) (paths m (n - 1 - k))).
Proof. exact (fun A O CS m Tr Tf smap e n k i => backward_paths O CS m Tr Tf smap e n k i). Qed.

(* LogPdf is the explicit enumeration over [0,m)^n, for every m and n (0 included) *)
Theorem logpdf_is_enumeration :
  forall A (O : Ops A), CSemiring O -> forall m Pi Tr Tf smap e n,
    logpdf O m Pi Tr Tf smap e n = esum O (map (weight O Pi Tr Tf smap e n) (paths m n)).
Proof. exact (fun A O CS m Pi Tr Tf smap e n => logpdf_enum O CS m Pi Tr Tf smap e n). Qed.

(* alpha(i,k) * beta(i,k) is the total weight of the paths with x_k = i ... *)
Theorem alpha_beta_is_marginal :
  forall A (O : Ops A), CSemiring O -> forall m Pi Tr Tf smap e n k i, k < n -> i < m ->
    omul O (at_ O (nth k (forward O m Pi Tr Tf smap e n) []) i)
           (at_ O (nth k (backward O m Tr Tf smap e n) []) i) =
    esum O (map (weight O Pi Tr Tf smap e n) (filter (fun p => nth k p m =? i) (paths m n))).
Proof. exact alpha_beta_model. Qed.

(* ... and these sum to the likelihood at every position *)
Theorem marginals_sum_to_likelihood :
  forall A (O : Ops A), CSemiring O -> forall m Pi Tr Tf smap e n k, k < n ->
    esum O (map (fun i => enum_marginal O m Pi Tr Tf smap e n k i) (seq 0 m)) =
    enum_likelihood O m Pi Tr Tf smap e n.
Proof. exact (fun A O CS m Pi Tr Tf smap e n k => marginal_total O CS m Pi Tr Tf smap e n k). Qed.

(* PosteriorMarginals: an error exactly when every path has weight zero; otherwise
   entry (k,i) is the enumerated marginal over the enumerated likelihood ... *)
Theorem posterior_marginals_are_enumerated :
  forall A (O : Ops A), CSemifield O -> forall m Pi Tr Tf smap e n, 0 < n ->
    marginals O m Pi Tr Tf smap e n =
    if ois0 O (enum_likelihood O m Pi Tr Tf smap e n) then None
    else Some (map (fun k => map (fun i => odiv O (enum_marginal O m Pi Tr Tf smap e n k i)
                                                  (enum_likelihood O m Pi Tr Tf smap e n)) (seq 0 m)) (seq 0 n)).
Proof. exact (fun A O CF m Pi Tr Tf smap e n => marginals_spec O CF m Pi Tr Tf smap e n). Qed.

(* ... and the entries of every position sum to one *)
Theorem posterior_marginals_sum_to_one :
  forall A (O : Ops A), CSemifield O -> forall m Pi Tr Tf smap e n k, k < n ->
    ois0 O (enum_likelihood O m Pi Tr Tf smap e n) = false ->
    esum O (map (fun i => odiv O (enum_marginal O m Pi Tr Tf smap e n k i)
                                 (enum_likelihood O m Pi Tr Tf smap e n)) (seq 0 m)) = o1 O.
Proof. exact (fun A O CF m Pi Tr Tf smap e n k => marginals_sum_one O CF m Pi Tr Tf smap e n k). Qed.

(* Viterbi: for every totally pre-ordered carrier whose product is monotone
   ((max,+) on log-values, (max,x) on non-negative numbers), the returned list is
   a path and no path has a larger joint weight; ties are resolved as coded
   (strict >, first index), which is what the model executes *)
Theorem viterbi_is_optimal :
  forall V (W : VOps V) le ok, VOrder W le ok -> forall m Pi Tr Tf smap e n,
    (forall i, ok (Pi i)) -> (forall i j, ok (Tr i j)) -> (forall i j, ok (Tf i j)) -> (forall c k, ok (e c k)) ->
    0 < m -> 0 < n ->
    is_path m n (viterbi W m Pi Tr Tf smap e n) /\
    forall q, is_path m n q ->
      le (vweight W Pi Tr Tf smap e n q) (vweight W Pi Tr Tf smap e n (viterbi W m Pi Tr Tf smap e n)).
Proof. exact viterbi_generic. Qed.

(* the (max,x) instance on exact non-negative rationals, in terms of the path
   weight of the enumeration *)
Theorem viterbi_maximises_joint_probability :
  forall m Pi Tr Tf smap e n,
    (forall i, 0 <= Pi i)%Qc -> (forall i j, 0 <= Tr i j)%Qc -> (forall i j, 0 <= Tf i j)%Qc ->
    (forall c k, 0 <= e c k)%Qc -> 0 < m -> 0 < n ->
    is_path m n (viterbi VOpsQc m Pi Tr Tf smap e n) /\
    forall q, is_path m n q ->
      (weight OpsQc Pi Tr Tf smap e n q <= weight OpsQc Pi Tr Tf smap e n (viterbi VOpsQc m Pi Tr Tf smap e n))%Qc.
Proof. exact viterbi_rational. Qed.

(* the float64-specialised recursion is the generic one on every input *)
Theorem optimized_is_generic :
  forall A (O : Ops A) m Pi Tr Tf smap e n,
    oforward O m Pi Tr Tf smap e n = forward O m Pi Tr Tf smap e n /\
    obackward O m Tr Tf smap e n = backward O m Tr Tf smap e n.
Proof. exact opt_generic. Qed.

(* mixtures: LogPdf = sum_j p_j w_j; Posterior(states) = selected sum / total
   (NaN iff the total is zero, error iff a component index is out of range);
   the normalised weights sum to one *)
Theorem mixture_logpdf_is_sum :
  forall A (O : Ops A), CSemifield O -> forall w p,
    mix_logpdf O w p = esum O (map (fun j => omul O (p j) (wat O w j)) (seq 0 (length w))).
Proof. exact (fun A O CF w p => mix_logpdf_sum O CF w p). Qed.

Theorem mixture_posterior_is_ratio :
  forall A (O : Ops A), CSemifield O -> forall w p sts,
    mix_posterior O w p sts =
    if forallb (fun j => j <? length w) sts then
      if ois0 O (esum O (map (fun j => omul O (p j) (wat O w j)) (seq 0 (length w)))) then PNaN
      else PVal (odiv O (esum O (map (fun j => omul O (p j) (wat O w j)) sts))
                        (esum O (map (fun j => omul O (p j) (wat O w j)) (seq 0 (length w)))))
    else PErr.
Proof. exact (fun A O CF w p sts => mix_posterior_spec O CF w p sts). Qed.

Theorem mixture_likelihood_is_ratio :
  forall A (O : Ops A), CSemifield O -> forall w p sts,
    mix_likelihood O w p sts =
    if forallb (fun j => j <? length w) sts then
      if ois0 O (esum O (map (wat O w) sts)) then PNaN
      else PVal (odiv O (esum O (map (fun j => omul O (p j) (wat O w j)) sts)) (esum O (map (wat O w) sts)))
    else PErr.
Proof. exact (fun A O CF w p sts => mix_likelihood_spec O CF w p sts). Qed.

Theorem mixture_weights_sum_to_one :
  forall A (O : Ops A), CSemifield O -> forall raw w, mix_weights O raw = Some w -> esum O w = o1 O.
Proof. exact (fun A O CF raw w => mix_weights_sum O CF raw w). Qed.

(* the log-space code: with LogAdd a b = ln(e^a + e^b) on R u {-Inf}, exp of
   LogPdf is the enumerated likelihood of the exponentiated parameters, so
   LogPdf is its logarithm, and -Inf exactly when it is zero *)
Theorem logpdf_in_log_space :
  forall m (Pi : nat -> LR) (Tr Tf : nat -> nat -> LR) smap (e : nat -> nat -> LR) n,
    let L := enum_likelihood OpsR m (fun i => Exp (Pi i)) (fun i j => Exp (Tr i j)) (fun i j => Exp (Tf i j))
                             smap (fun c k => Exp (e c k)) n in
    Exp (logpdf OpsLog m Pi Tr Tf smap e n) = L /\
    ((0 < L)%R -> logpdf OpsLog m Pi Tr Tf smap e n = Some (ln L)) /\
    (L = 0%R -> logpdf OpsLog m Pi Tr Tf smap e n = None).
Proof. exact logpdf_log_space. Qed.

Theorem exp_is_semiring_homomorphism :
  Exp (o0 OpsLog) = 0%R /\ Exp (o1 OpsLog) = 1%R /\
  (forall a b, Exp (oadd OpsLog a b) = (Exp a + Exp b)%R) /\
  (forall a b, Exp (omul OpsLog a b) = (Exp a * Exp b)%R).
Proof. exact (conj eq_refl (conj exp_0 (conj Exp_add Exp_mul))). Qed.

(* known finding F-C15-TF-SELFLOOP (the model follows the code): with final
   states {1} and identity transitions, SetFinalStates yields Tf(0,0) = 1 for the
   non-final state 0, and the Viterbi path [0;0] has positive weight -- the
   restriction to the final states is not enforced for states without a
   transition into them.  All theorems above are relative to Tf as built. *)
Theorem final_state_restriction_refuted :
  zmem 0 [1%Z] = false /\ w_f2 0%Qc w_tf 0 0 = 1%Qc /\ w_path = [0; 0] /\
  (0 < weight OpsQc (w_f 0%Qc w_pi) (w_f2 0%Qc w_tr) (w_f2 0%Qc w_tf) (fun i => i) w_e 2 w_path)%Qc.
Proof. exact final_restriction_witness. Qed.

(* ================= round 2: work buffers, Posterior, Baum-Welch ================= *)

(* forward / backward as state transformers on a work matrix with ARBITRARY prior
   content (ModelBuf.v: every cell access of the Go loops is a read or write of
   the buffer, cells are accumulated in place): the cells (i,k), i < m, k < n hold
   the path sums and every other cell keeps its old value.  In particular every
   cell that is read was written before -- this is what the initialisation loop
   "beta(i, n-1) = 0" of backward / float64Backward provides. *)
Theorem forward_on_any_buffer :
  forall A (O : Ops A), CSemiring O -> forall m Pi Tr Tf smap e (alpha : @mat A) n i k,
    forward_buf O m Pi Tr Tf smap e alpha n i k =
    if (k <? n) && (i <? m)
    then esum O (map (fun p => weight O Pi Tr Tf smap e n (p ++ [i])) (paths m k))
    else alpha i k.
Proof. exact forward_buf_top. Qed.

Theorem backward_on_any_buffer :
  forall A (O : Ops A), CSemiring O -> forall m Tr Tf smap e (beta : @mat A) n i k,
    backward_buf O m Tr Tf smap e beta n i k =
    if (k <? n) && (i <? m)
    then esum O (map (wtail O Tr Tf smap e n (S k) i) (paths m (n - 1 - k)))
    else beta i k.
Proof. exact backward_buf_top. Qed.

(* the float64-specialised copy (hmm_optimized.go) is the same state transformer ... *)
Theorem optimized_is_generic_on_any_buffer :
  forall A (O : Ops A) m Pi Tr Tf smap e (alpha beta : @mat A) n,
    oforward_buf O m Pi Tr Tf smap e alpha n = forward_buf O m Pi Tr Tf smap e alpha n /\
    obackward_buf O m Tr Tf smap e beta n = backward_buf O m Tr Tf smap e beta n.
Proof. exact opt_buf_generic. Qed.

(* ... so float64ForwardBackward on the two work matrices of a Baum-Welch thread
   yields the path sums whatever the matrices held before *)
Theorem float64_forward_backward_on_any_buffers :
  forall A (O : Ops A), CSemiring O -> forall m Pi Tr Tf smap e (alpha beta : @mat A) n i k,
    fst (ofb_buf O m Pi Tr Tf smap e (alpha, beta) n) i k =
      (if (k <? n) && (i <? m)
       then esum O (map (fun p => weight O Pi Tr Tf smap e n (p ++ [i])) (paths m k)) else alpha i k) /\
    snd (ofb_buf O m Pi Tr Tf smap e (alpha, beta) n) i k =
      (if (k <? n) && (i <? m)
       then esum O (map (wtail O Tr Tf smap e n (S k) i) (paths m (n - 1 - k))) else beta i k).
Proof. exact ofb_buf_top. Qed.

(* a thread: any records (of any lengths, in any order) processed before on the
   same two matrices do not change what the next record gets *)
Theorem forward_backward_after_other_records :
  forall A (O : Ops A), CSemiring O -> forall m Pi Tr Tf smap
         (before : list (nat * (nat -> nat -> A))) (alpha0 beta0 : @mat A) n e i k,
    k < n -> i < m ->
    let ab := fold_left (fun ab r => ofb_buf O m Pi Tr Tf smap (snd r) ab (fst r)) before (alpha0, beta0) in
    fst (ofb_buf O m Pi Tr Tf smap e ab n) i k =
      esum O (map (fun p => weight O Pi Tr Tf smap e n (p ++ [i])) (paths m k)) /\
    snd (ofb_buf O m Pi Tr Tf smap e ab n) i k =
      esum O (map (wtail O Tr Tf smap e n (S k) i) (paths m (n - 1 - k))) /\
    omul O (fst (ofb_buf O m Pi Tr Tf smap e ab n) i k) (snd (ofb_buf O m Pi Tr Tf smap e ab n) i k) =
      enum_marginal O m Pi Tr Tf smap e n k i.
Proof. exact ofb_thread_top. Qed.

(* Hmm.Posterior over a sequence of state sets: for every n >= 1, m, every family
   of duplicate-free sets of states below m (they may shrink and grow from one
   position to the next) and ARBITRARY prior content of the two swapped alpha
   vectors, the result is the total weight of the paths with x_k in states[k] for
   all k over the likelihood (NaN iff the likelihood is zero): the cells that are
   read were written in the step before, stale cells are never read *)
Theorem posterior_on_any_buffers_is_enumerated :
  forall A (O : Ops A), CSemifield O -> forall m Pi Tr Tf smap e n sts b0 b1,
    0 < n -> length sts = n -> length b0 = m -> length b1 = m ->
    (forall s, In s sts -> NoDup s /\ forall i, In i s -> i < m) ->
    posterior_buf O m Pi Tr Tf smap e b0 b1 n sts =
    if ois0 O (enum_likelihood O m Pi Tr Tf smap e n) then PNaN
    else PVal (odiv O (enum_sets O m Pi Tr Tf smap e n sts) (enum_likelihood O m Pi Tr Tf smap e n)).
Proof. exact posterior_buf_enum. Qed.

(* ... in particular for the freshly allocated vectors of the code *)
Theorem posterior_is_enumerated :
  forall A (O : Ops A), CSemifield O -> forall m Pi Tr Tf smap e n sts,
    0 < n -> length sts = n ->
    (forall s, In s sts -> NoDup s /\ forall i, In i s -> i < m) ->
    posterior O m Pi Tr Tf smap e n sts =
    if ois0 O (enum_likelihood O m Pi Tr Tf smap e n) then PNaN
    else PVal (odiv O (enum_sets O m Pi Tr Tf smap e n sts) (enum_likelihood O m Pi Tr Tf smap e n)).
Proof. exact posterior_enum. Qed.

(* Baum-Welch: alpha(i,k) T(i,j) e(j,k+1) beta(j,k+1) is the total weight of the
   paths with x_k = i, x_{k+1} = j; these sum to the marginal and to the likelihood *)
Theorem xi_is_pair_weight :
  forall A (O : Ops A), CSemiring O -> forall m Pi Tr Tf smap e n k i j, k + 2 <= n -> i < m -> j < m ->
    omul O (alpha_spec O m Pi Tr Tf smap e n k i)
           (omul O (omul O (Tk Tr Tf n (S k) i j) (e (smap j) (S k))) (beta_spec O m Tr Tf smap e n (S k) j)) =
    enum_pair O m Pi Tr Tf smap e n k i j.
Proof. exact (fun A O CS m Pi Tr Tf smap e n k i j => xi_pair O CS m Pi Tr Tf smap e n k i j). Qed.

Theorem pair_weights_sum_to_marginal :
  forall A (O : Ops A), CSemiring O -> forall m Pi Tr Tf smap e n k i, k + 2 <= n -> i < m ->
    esum O (map (enum_pair O m Pi Tr Tf smap e n k i) (seq 0 m)) = enum_marginal O m Pi Tr Tf smap e n k i.
Proof. exact (fun A O CS m Pi Tr Tf smap e n k i => pair_marginal O CS m Pi Tr Tf smap e n k i). Qed.

(* one Baum-Welch step, expected counts of ONE thread that processes the records
   [recs] (length, emission table) in order on the same alpha/beta matrices, whose
   prior content is arbitrary: the step fails iff some record has likelihood zero;
   otherwise tmp.pi(i) is the sum over the records of the enumerated posterior
   P(x_0 = i), tmp.tr(i,j) the sum over records and positions of the enumerated
   posterior P(x_k = i, x_{k+1} = j) (the last transition is left out when final
   states are set, as coded), and tmp.likelihood the product of the likelihoods.
   Hypothesis: without final states Tf is Tr (the code uses the same object). *)
Theorem baum_welch_expected_counts_are_enumerated :
  forall A (O : Ops A), CSemifield O -> forall m ne Pi Tr Tf smap hasfinal,
    (hasfinal = false -> forall i j, Tf i j = Tr i j) ->
    forall (alpha beta : @mat A) (recs : list (nat * (nat -> nat -> A))),
    (forall r, In r recs -> 0 < fst r) ->
    if existsb (fun r => ois0 O (enum_likelihood O m Pi Tr Tf smap (snd r) (fst r))) recs
    then bw_thread O m ne Pi Tr Tf smap hasfinal alpha beta recs = None
    else exists s, bw_thread O m ne Pi Tr Tf smap hasfinal alpha beta recs = Some s /\
      (forall i, i < m ->
         nth i (bwPi s) (o0 O) =
         esum O (map (fun r => odiv O (enum_marginal O m Pi Tr Tf smap (snd r) (fst r) 0 i)
                                      (enum_likelihood O m Pi Tr Tf smap (snd r) (fst r))) recs)) /\
      (forall i j, i < m -> j < m ->
         nth j (nth i (bwTr s) []) (o0 O) =
         esum O (map (fun r => esum O (map (fun k => odiv O (enum_pair O m Pi Tr Tf smap (snd r) (fst r) k i j)
                                                            (enum_likelihood O m Pi Tr Tf smap (snd r) (fst r)))
                                           (seq 0 (if hasfinal then fst r - 2 else fst r - 1)))) recs)) /\
      bwLik s = fold_right (fun r acc => omul O (enum_likelihood O m Pi Tr Tf smap (snd r) (fst r)) acc) (o1 O) recs.
Proof. exact (fun A O CF m ne Pi Tr Tf smap hasfinal Htf => bw_thread_spec O CF m ne Pi Tr Tf smap hasfinal Htf). Qed.

(* per record, including the gamma vectors handed to the emission estimators
   (C16): posterior marginals of the states, summed per emission class *)
Theorem baum_welch_record_is_enumerated :
  forall A (O : Ops A), CSemifield O -> forall m ne Pi Tr Tf smap hasfinal,
    (hasfinal = false -> forall i j, Tf i j = Tr i j) ->
    forall (s : bwst) n e, 0 < n -> length (bwPi s) = m -> wf_tr m (bwTr s) ->
    if ois0 O (enum_likelihood O m Pi Tr Tf smap e n)
    then bw_record O m ne Pi Tr Tf smap hasfinal s n e = None
    else exists s', bw_record O m ne Pi Tr Tf smap hasfinal s n e = Some s' /\
         length (bwPi s') = m /\ wf_tr m (bwTr s') /\
         (forall i, i < m -> nth i (bwPi s') (o0 O) =
                             oadd O (nth i (bwPi s) (o0 O))
                                    (odiv O (enum_marginal O m Pi Tr Tf smap e n 0 i) (enum_likelihood O m Pi Tr Tf smap e n))) /\
         (forall i j, i < m -> j < m ->
            nth j (nth i (bwTr s') []) (o0 O) =
            oadd O (nth j (nth i (bwTr s) []) (o0 O))
                   (esum O (map (fun k => odiv O (enum_pair O m Pi Tr Tf smap e n k i j) (enum_likelihood O m Pi Tr Tf smap e n))
                                (seq 0 (if hasfinal then n - 2 else n - 1))))) /\
         bwGam s' = bwGam s ++ [map (fun k => bw_gclass O m ne smap
                                     (map (fun i => odiv O (enum_marginal O m Pi Tr Tf smap e n k i)
                                                           (enum_likelihood O m Pi Tr Tf smap e n)) (seq 0 m))) (seq 0 n)] /\
         bwLik s' = omul O (bwLik s) (enum_likelihood O m Pi Tr Tf smap e n).
Proof. exact (fun A O CF m ne Pi Tr Tf smap hasfinal Htf => bw_record_spec O CF m ne Pi Tr Tf smap hasfinal Htf). Qed.

(* non-trivial instances: a reused matrix with stale content, sets that shrink and grow *)
Example reuse_instance :
  let Pi := fun i => nth i [Q2Qc (1 # 4); Q2Qc (3 # 4)] 0%Qc in
  let Tr := fun i j => nth j (nth i [[Q2Qc (1 # 2); Q2Qc (1 # 2)]; [Q2Qc (1 # 4); Q2Qc (3 # 4)]] []) 0%Qc in
  let e1 := fun c k => nth k (nth c [[Q2Qc (1 # 2); 1%Qc; Q2Qc (1 # 4); 1%Qc]; [1%Qc; Q2Qc (1 # 8); 1%Qc; Q2Qc (1 # 2)]] []) 0%Qc in
  let e2 := fun c k => nth k (nth c [[Q2Qc (1 # 2); Q2Qc (1 # 4)]; [1%Qc; Q2Qc (3 # 4)]] []) 0%Qc in
  let ab1 := ofb_buf OpsQc 2 Pi Tr Tr (fun i => i) e1 (fun _ _ => Q2Qc 7, fun _ _ => Q2Qc 7) 4 in
  let ab2 := ofb_buf OpsQc 2 Pi Tr Tr (fun i => i) e2 ab1 2 in
  (* the short record on top of the long one: its own columns are right ... *)
  mat_cols 2 (snd ab2) 2 = backward OpsQc 2 Tr Tr (fun i => i) e2 2 /\
  (* ... while columns 2 and 3 still hold what the long record left there *)
  snd ab2 0 2 = snd ab1 0 2 /\ snd ab2 0 3 = 1%Qc /\ snd ab1 0 2 <> Q2Qc 7.
Proof. repeat split; try (vm_compute; reflexivity). vm_compute. discriminate. Qed.

Example posterior_instance :
  let Pi := fun i => nth i [Q2Qc (1 # 4); Q2Qc (1 # 2); Q2Qc (1 # 4)] 0%Qc in
  let Tr := fun i j => nth j (nth i [[Q2Qc (1 # 2); Q2Qc (1 # 4); Q2Qc (1 # 4)]; [Q2Qc (1 # 4); Q2Qc (1 # 2); Q2Qc (1 # 4)];
                                     [Q2Qc (1 # 4); Q2Qc (1 # 4); Q2Qc (1 # 2)]] []) 0%Qc in
  let e := fun c k => nth k (nth c [[Q2Qc (1 # 2); 1%Qc; Q2Qc (1 # 4); 1%Qc; 1%Qc]; [1%Qc; Q2Qc (1 # 8); 1%Qc; Q2Qc (1 # 2); 1%Qc];
                                    [1%Qc; 1%Qc; Q2Qc (1 # 2); 1%Qc; Q2Qc (1 # 4)]] []) 0%Qc in
  let sts := [[0; 1; 2]; [1]; [2; 0]; [1]; [0; 1; 2]] in
  posterior_buf OpsQc 3 Pi Tr Tr (fun i => i) e [Q2Qc 5; Q2Qc 6; Q2Qc 7] [Q2Qc 8; Q2Qc 9; Q2Qc 10] 5 sts =
  PVal (enum_sets OpsQc 3 Pi Tr Tr (fun i => i) e 5 sts / enum_likelihood OpsQc 3 Pi Tr Tr (fun i => i) e 5)%Qc.
Proof. vm_compute. reflexivity. Qed.

(* the hypotheses are satisfiable: the exact rationals of the correspondence
   run, the reals, and (max,x) on the non-negative rationals *)
Example semifield_instance_Qc : CSemifield OpsQc.
Proof. exact OpsQc_semifield. Qed.
Example semifield_instance_R : CSemifield OpsR.
Proof. exact OpsR_semifield. Qed.
Example viterbi_order_instance : VOrder VOpsQc Qcle Qc_nonneg.
Proof. exact VOpsQc_order. Qed.
