(* C15 — property theorems (statements only; proofs live in Proofs*.v).

   Carrier: any commutative semiring [O] with Leibniz equality ([CSemiring]);
   quotients where the code subtracts log-values ([CSemifield]).  The Go code is
   the instance "log-probabilities with LogAdd / + / - / -Inf / IsInf(.,-1)";
   [logpdf_in_log_space] states that instance over R with
   LogAdd a b = ln(e^a + e^b) and connects it to the probability semiring by
   the homomorphism exp.  [paths m n] is the explicit enumeration of [0,m)^n,
   [weight] the joint weight of a path:
     Pi(x_0) e(x_0,0) * prod_k T_k(x_{k-1},x_k) e(x_k,k),  T_k = Tf for k = n-1, Tr otherwise. *)
From Coq Require Import List Arith Bool QArith Qcanon Reals.
From ADV Require Import C15.Model C15.Spec C15.Proofs.
Import ListNotations.
Open Scope nat_scope.

(* the enumeration ranges over exactly the lists of n states below m *)
Theorem paths_are_all_paths :
  forall m n p, In p (paths m n) <-> (length p = n /\ Forall (fun x => x < m) p).
Proof. exact paths_iff. Qed.

(* forward: alpha(j,k) is the sum of the weights of all paths x_0..x_k with x_k = j *)
Theorem forward_is_path_sum :
  forall A (O : Ops A), CSemiring O -> forall m Pi Tr Tf smap e n k j, k < n -> j < m ->
    at_ O (nth k (forward O m Pi Tr Tf smap e n) []) j =
    esum O (map (fun p => weight O Pi Tr Tf smap e n (p ++ [j])) (paths m k)).
Proof. exact (fun A O CS m Pi Tr Tf smap e n k j => forward_paths O CS m Pi Tr Tf smap e n k j). Qed.

(* backward: beta(i,k) is the sum of the weights of all continuations x_{k+1}..x_{n-1} of x_k = i *)
Theorem backward_is_path_sum :
  forall A (O : Ops A), CSemiring O -> forall m Tr Tf smap e n k i, k < n -> i < m ->
    at_ O (nth k (backward O m Tr Tf smap e n) []) i =
    esum O (map (wtail O Tr Tf smap e n (S k) i) (paths m (n - 1 - k))).
Proof. exact (fun A O CS m Tr Tf smap e n k i => backward_paths O CS m Tr Tf smap e n k i). Qed.

(* LogPdf is the explicit enumeration over [0,m)^n, for every m and n (0 included) *)
Theorem logpdf_is_enumeration :
  forall A (O : Ops A), CSemiring O -> forall m Pi Tr Tf smap e n,
    logpdf O m Pi Tr Tf smap e n = esum O (map (weight O Pi Tr Tf smap e n) (paths m n)).
Proof. exact (fun A O CS m Pi Tr Tf smap e n => logpdf_enum O CS m Pi Tr Tf smap e n). Qed.

(* alpha(i,k) * beta(i,k) is the total weight of the paths with x_k = i ... *)
Theorem alpha_beta_is_marginal :
  forall A (O : Ops A), CSemiring O -> forall m Pi Tr Tf smap e n k i, k < n -> i < m ->
    omul O (at_ O (nth k (forward O m Pi Tr Tf smap e n) []) i)
           (at_ O (nth k (backward O m Tr Tf smap e n) []) i) =
    esum O (map (weight O Pi Tr Tf smap e n) (filter (fun p => nth k p m =? i) (paths m n))).
Proof. exact alpha_beta_model. Qed.

(* ... and these sum to the likelihood at every position *)
Theorem marginals_sum_to_likelihood :
  forall A (O : Ops A), CSemiring O -> forall m Pi Tr Tf smap e n k, k < n ->
    esum O (map (fun i => enum_marginal O m Pi Tr Tf smap e n k i) (seq 0 m)) =
    enum_likelihood O m Pi Tr Tf smap e n.
Proof. exact (fun A O CS m Pi Tr Tf smap e n k => marginal_total O CS m Pi Tr Tf smap e n k). Qed.

(* PosteriorMarginals: an error exactly when every path has weight zero; otherwise
   entry (k,i) is the enumerated marginal over the enumerated likelihood ... *)
Theorem posterior_marginals_are_enumerated :
  forall A (O : Ops A), CSemifield O -> forall m Pi Tr Tf smap e n, 0 < n ->
    marginals O m Pi Tr Tf smap e n =
    if ois0 O (enum_likelihood O m Pi Tr Tf smap e n) then None
    else Some (map (fun k => map (fun i => odiv O (enum_marginal O m Pi Tr Tf smap e n k i)
                                                  (enum_likelihood O m Pi Tr Tf smap e n)) (seq 0 m)) (seq 0 n)).
Proof. exact (fun A O CF m Pi Tr Tf smap e n => marginals_spec O CF m Pi Tr Tf smap e n). Qed.

(* ... and the entries of every position sum to one *)
Theorem posterior_marginals_sum_to_one :
  forall A (O : Ops A), CSemifield O -> forall m Pi Tr Tf smap e n k, k < n ->
    ois0 O (enum_likelihood O m Pi Tr Tf smap e n) = false ->
    esum O (map (fun i => odiv O (enum_marginal O m Pi Tr Tf smap e n k i)
                                 (enum_likelihood O m Pi Tr Tf smap e n)) (seq 0 m)) = o1 O.
Proof. exact (fun A O CF m Pi Tr Tf smap e n k => marginals_sum_one O CF m Pi Tr Tf smap e n k). Qed.

(* Viterbi: for every totally pre-ordered carrier whose product is monotone
   ((max,+) on log-values, (max,x) on non-negative numbers), the returned list is
   a path and no path has a larger joint weight; ties are resolved as coded
   (strict >, first index), which is what the model executes *)
Theorem viterbi_is_optimal :
  forall V (W : VOps V) le ok, VOrder W le ok -> forall m Pi Tr Tf smap e n,
    (forall i, ok (Pi i)) -> (forall i j, ok (Tr i j)) -> (forall i j, ok (Tf i j)) -> (forall c k, ok (e c k)) ->
    0 < m -> 0 < n ->
    is_path m n (viterbi W m Pi Tr Tf smap e n) /\
    forall q, is_path m n q ->
      le (vweight W Pi Tr Tf smap e n q) (vweight W Pi Tr Tf smap e n (viterbi W m Pi Tr Tf smap e n)).
Proof. exact viterbi_generic. Qed.

(* the (max,x) instance on exact non-negative rationals, in terms of the path
   weight of the enumeration *)
Theorem viterbi_maximises_joint_probability :
  forall m Pi Tr Tf smap e n,
    (forall i, 0 <= Pi i)%Qc -> (forall i j, 0 <= Tr i j)%Qc -> (forall i j, 0 <= Tf i j)%Qc ->
    (forall c k, 0 <= e c k)%Qc -> 0 < m -> 0 < n ->
    is_path m n (viterbi VOpsQc m Pi Tr Tf smap e n) /\
    forall q, is_path m n q ->
      (weight OpsQc Pi Tr Tf smap e n q <= weight OpsQc Pi Tr Tf smap e n (viterbi VOpsQc m Pi Tr Tf smap e n))%Qc.
Proof. exact viterbi_rational. Qed.

(* the float64-specialised recursion is the generic one on every input *)
Theorem optimized_is_generic :
  forall A (O : Ops A) m Pi Tr Tf smap e n,
    oforward O m Pi Tr Tf smap e n = forward O m Pi Tr Tf smap e n /\
    obackward O m Tr Tf smap e n = backward O m Tr Tf smap e n.
Proof. exact opt_generic. Qed.

(* mixtures: LogPdf = sum_j p_j w_j; Posterior(states) = selected sum / total
   (NaN iff the total is zero, error iff a component index is out of range);
   the normalised weights sum to one *)
Theorem mixture_logpdf_is_sum :
  forall A (O : Ops A), CSemifield O -> forall w p,
    mix_logpdf O w p = esum O (map (fun j => omul O (p j) (wat O w j)) (seq 0 (length w))).
Proof. exact (fun A O CF w p => mix_logpdf_sum O CF w p). Qed.

Theorem mixture_posterior_is_ratio :
  forall A (O : Ops A), CSemifield O -> forall w p sts,
    mix_posterior O w p sts =
    if forallb (fun j => j <? length w) sts then
      if ois0 O (esum O (map (fun j => omul O (p j) (wat O w j)) (seq 0 (length w)))) then PNaN
      else PVal (odiv O (esum O (map (fun j => omul O (p j) (wat O w j)) sts))
                        (esum O (map (fun j => omul O (p j) (wat O w j)) (seq 0 (length w)))))
    else PErr.
Proof. exact (fun A O CF w p sts => mix_posterior_spec O CF w p sts). Qed.

Theorem mixture_likelihood_is_ratio :
  forall A (O : Ops A), CSemifield O -> forall w p sts,
    mix_likelihood O w p sts =
    if forallb (fun j => j <? length w) sts then
      if ois0 O (esum O (map (wat O w) sts)) then PNaN
      else PVal (odiv O (esum O (map (fun j => omul O (p j) (wat O w j)) sts)) (esum O (map (wat O w) sts)))
    else PErr.
Proof. exact (fun A O CF w p sts => mix_likelihood_spec O CF w p sts). Qed.

Theorem mixture_weights_sum_to_one :
  forall A (O : Ops A), CSemifield O -> forall raw w, mix_weights O raw = Some w -> esum O w = o1 O.
Proof. exact (fun A O CF raw w => mix_weights_sum O CF raw w). Qed.

(* the log-space code: with LogAdd a b = ln(e^a + e^b) on R u {-Inf}, exp of
   LogPdf is the enumerated likelihood of the exponentiated parameters, so
   LogPdf is its logarithm, and -Inf exactly when it is zero *)
Theorem logpdf_in_log_space :
  forall m (Pi : nat -> LR) (Tr Tf : nat -> nat -> LR) smap (e : nat -> nat -> LR) n,
    let L := enum_likelihood OpsR m (fun i => Exp (Pi i)) (fun i j => Exp (Tr i j)) (fun i j => Exp (Tf i j))
                             smap (fun c k => Exp (e c k)) n in
    Exp (logpdf OpsLog m Pi Tr Tf smap e n) = L /\
    ((0 < L)%R -> logpdf OpsLog m Pi Tr Tf smap e n = Some (ln L)) /\
    (L = 0%R -> logpdf OpsLog m Pi Tr Tf smap e n = None).
Proof. exact logpdf_log_space. Qed.

Theorem exp_is_semiring_homomorphism :
  Exp (o0 OpsLog) = 0%R /\ Exp (o1 OpsLog) = 1%R /\
  (forall a b, Exp (oadd OpsLog a b) = (Exp a + Exp b)%R) /\
  (forall a b, Exp (omul OpsLog a b) = (Exp a * Exp b)%R).
Proof. exact (conj eq_refl (conj exp_0 (conj Exp_add Exp_mul))). Qed.

(* known finding F-C15-TF-SELFLOOP (the model follows the code): with final
   states {1} and identity transitions, SetFinalStates yields Tf(0,0) = 1 for the
   non-final state 0, and the Viterbi path [0;0] has positive weight -- the
   restriction to the final states is not enforced for states without a
   transition into them.  All theorems above are relative to Tf as built. *)
Theorem final_state_restriction_refuted :
  zmem 0 [1%Z] = false /\ w_f2 0%Qc w_tf 0 0 = 1%Qc /\ w_path = [0; 0] /\
  (0 < weight OpsQc (w_f 0%Qc w_pi) (w_f2 0%Qc w_tr) (w_f2 0%Qc w_tf) (fun i => i) w_e 2 w_path)%Qc.
Proof. exact final_restriction_witness. Qed.

(* the posterior of a sequence of state sets (Hmm.Posterior) has no theorem yet:
   what is missing is the restricted forward recursion over the two swapped
   buffers; it is compared with the enumeration in every correspondence case *)

(* the hypotheses are satisfiable: the exact rationals of the correspondence
   run, the reals, and (max,x) on the non-negative rationals *)
Example semifield_instance_Qc : CSemifield OpsQc.
Proof. exact OpsQc_semifield. Qed.
Example semifield_instance_R : CSemifield OpsR.
Proof. exact OpsR_semifield. Qed.
Example viterbi_order_instance : VOrder VOpsQc Qcle Qc_nonneg.
Proof. exact VOpsQc_order. Qed.
