(* C15 (round 5) — what "normalise-final" does: entries of the derived final-step matrix
   [tf_masked tr f] (Hmm.normalizeTf on a clone of Tr + HmmTransitionMatrix.Normalize). *)
From Coq Require Import List Arith Bool ZArith Lia.
From ADV Require Import C15.Model C15.ModelSet C15.Spec C15.ProofsSum.
Import ListNotations.
Open Scope nat_scope.

Section IDX.
  Context {X Y : Type}.
  Lemma nth_map_combine_seq (g : nat * X -> Y) (l : list X) d d' : forall a i, i < length l ->
    nth i (map g (combine (seq a (length l)) l)) d = g (a + i, nth i l d').
  Proof.
    induction l as [|x l IH]; intros a i Hi; simpl in *; [lia|].
    destruct i as [|i]; [rewrite Nat.add_0_r; reflexivity|].
    rewrite IH by lia. f_equal. f_equal. lia.
  Qed.
  Lemma length_map_combine_seq (g : nat * X -> Y) (l : list X) a :
    length (map g (combine (seq a (length l)) l)) = length l.
  Proof. rewrite map_length, combine_length, seq_length. apply Nat.min_id. Qed.
End IDX.

Lemma nth_upd {X} (l : list X) i v d j : i < length l ->
  nth j (upd l i v) d = if j =? i then v else nth j l d.
Proof.
  intros Hi. unfold upd. apply Nat.ltb_lt in Hi. rewrite Hi. apply Nat.ltb_lt in Hi.
  destruct (Nat.eqb_spec j i) as [->|Hne].
  - rewrite app_nth2 by (rewrite firstn_length; lia).
    rewrite firstn_length, Nat.min_l by lia. rewrite Nat.sub_diag. reflexivity.
  - destruct (Nat.lt_ge_cases j i) as [Hlt|Hge].
    + rewrite app_nth1 by (rewrite firstn_length; lia).
      rewrite <- (firstn_skipn i l) at 2. rewrite app_nth1 by (rewrite firstn_length; lia). reflexivity.
    + rewrite app_nth2 by (rewrite firstn_length; lia).
      rewrite firstn_length, Nat.min_l by lia.
      destruct (j - i) as [|k] eqn:Ek; [lia|]. simpl.
      rewrite <- (firstn_skipn (S i) l) at 2.
      rewrite app_nth2 by (rewrite firstn_length; lia).
      rewrite firstn_length, Nat.min_l by lia. f_equal. lia.
Qed.

Section TFSEM.
  Context {A : Type} (O : Ops A) (CF : CSemifield O).
  Let CS := sf_semiring O CF.

  Lemma div_zero b : ois0 O b = false -> odiv O (o0 O) b = o0 O.
  Proof.
    intros Hb. rewrite <- (mul_0_l O CS b) at 1. apply (mul_div O CF). exact Hb.
  Qed.

  Lemma nth_mask f (row : list A) j : j < length row ->
    nth j (mask_vec O f row) (o0 O) = if zmem j f then nth j row (o0 O) else o0 O.
  Proof.
    intros Hj. unfold mask_vec.
    rewrite (nth_map_combine_seq _ row (o0 O) (o0 O) 0 j Hj). reflexivity.
  Qed.
  Lemma length_mask f (row : list A) : length (mask_vec O f row) = length row.
  Proof. apply length_map_combine_seq. Qed.

  (* row i of the derived matrix *)
  Lemma tf_masked_row tr f i : i < length tr ->
    nth i (tf_masked O tr f) [] = norm_row O i (mask_vec O f (nth i tr [])).
  Proof.
    intros Hi. unfold tf_masked, norm_mat.
    assert (Hl : i < length (map (mask_vec O f) tr)) by (rewrite map_length; exact Hi).
    rewrite (nth_map_combine_seq _ (map (mask_vec O f) tr) [] [] 0 i Hl). simpl.
    f_equal. change (@nil A) with (mask_vec O f []) at 1. apply map_nth.
  Qed.

  (* entries of Tf in terms of the current Tr and the final-state set *)
  Lemma tf_masked_entry tr f i j : i < length tr -> j < length (nth i tr []) -> i < length (nth i tr []) ->
    let row := nth i tr [] in
    let t := lsum O (mask_vec O f row) in
    mfun O (tf_masked O tr f) i j =
    if ois0 O t
    then (if j =? i then o1 O                        (* no mass on the final states: self loop (F-C15-TF-SELFLOOP) *)
          else if zmem j f then nth j row (o0 O) else o0 O)
    else if zmem j f then odiv O (nth j row (o0 O)) t else o0 O.
  Proof.
    intros Hi Hj Hii row t. unfold mfun. rewrite tf_masked_row by exact Hi.
    unfold norm_row. fold row. fold t.
    destruct (ois0 O t) eqn:Et.
    - rewrite nth_upd by (rewrite length_mask; exact Hii).
      destruct (j =? i) eqn:Eji; [reflexivity|]. apply nth_mask. exact Hj.
    - rewrite nth_indep with (d' := odiv O (o0 O) t) by (rewrite map_length, length_mask; exact Hj).
      rewrite (map_nth (fun x => odiv O x t)). rewrite nth_mask by exact Hj.
      destruct (zmem j f); [reflexivity | apply div_zero; exact Et].
  Qed.

  (* a state outside the final set is never entered by the last transition, except by the self loop
     of a row without mass on the final states *)
  Lemma tf_masked_non_final tr f i j : i < length tr -> j < length (nth i tr []) -> i < length (nth i tr []) ->
    zmem j f = false -> j <> i -> mfun O (tf_masked O tr f) i j = o0 O.
  Proof.
    intros Hi Hj Hii Hz Hne. rewrite tf_masked_entry by assumption. cbv zeta.
    rewrite Hz. apply Nat.eqb_neq in Hne. rewrite Hne.
    destruct (ois0 O (lsum O (mask_vec O f (nth i tr [])))); reflexivity.
  Qed.
End TFSEM.
