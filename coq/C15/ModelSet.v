(* C15 (round 5) — generic.Hmm as a STATE MACHINE under its setters
   (statistics/generic/hmm.go):

     NewHmm               hmm.go:58-93     Pi, Tr normalised, Tf IS Tr (r.Tf = tr: same object)
     SetStartStates       hmm.go:218-234   invalid index -> error, nothing changes; empty list ->
                                           nothing changes; else startStates := set, Pi masked IN PLACE
                                           and renormalised (error of Normalize dropped)
     SetFinalStates       hmm.go:236-254   the same checks; finalStates := set, Tf := clone of Tr, masked,
                                           Normalize (HmmTransitionMatrix: an all-zero row i gets (i,i) := 0.0)
     SetParameters        hmm.go:658-672   Pi.Set(p[0:m]) -- raw, NOT masked by startStates, not normalised;
                                           Tr.Set(p[m:m+m*m]) -- raw; then, by the test  obj.Tr == obj.Tf :
                                           shared: Tf = Tr;  else: Tf := clone of Tr; normalizeTf
     Clone                hmm.go:127-145   newHmm(clone Pi, clone Tr, normalize = false), then SetStartStates /
                                           SetFinalStates with the keys of the two maps

   The state holds what the object holds: the three parameter tables, the two optional sets
   and the bit "Tr and Tf are the same object" that SetParameters branches on.  Tf is DERIVED
   state: every inference routine reads it for the last transition of a sequence of length >= 2.
   Same carrier as Model.v ([Ops]); [norm_vec], [mask_vec], [norm_mat] are those of Model.v.

   For a constrained / hierarchical HMM (Tr a ChmmTransitionMatrix / HhmmTransitionMatrix) the
   comparison  obj.Tr == obj.Tf  of SetParameters panics (uncomparable struct types): finding
   F-C15-SETPARAMS-UNCOMPARABLE; their SetStartStates / SetFinalStates are those of ModelCH.v.
   No proofs in this file. *)
From Coq Require Import List Arith Bool ZArith.
From ADV Require Import C15.Model.
Import ListNotations.
Open Scope nat_scope.

Section SETTERS.
  Context {A : Type} (O : Ops A).
  Variable m : nat.

  Record hst := mkSt {
    stPi : list A;
    stTr : list (list A);
    stTf : list (list A);
    stStart : option (list Z);     (* startStates map: None = nil *)
    stFinal : option (list Z);     (* finalStates map *)
    stShared : bool                (* obj.Tr == obj.Tf (the same object) *)
  }.

  Inductive sop :=
  | OStart (l : list Z)                          (* SetStartStates(l) *)
  | OFinal (l : list Z)                          (* SetFinalStates(l) *)
  | OParams (pi : list A) (tr : list (list A))   (* SetParameters(log pi ++ log tr) *)
  | OClone.                                      (* obj = obj.Clone() *)

  (* for _, i := range states { if i < -1 || i >= obj.M { return error } } *)
  Definition valid_states (l : list Z) : bool :=
    forallb (fun z => (-1 <=? z)%Z && (z <? Z.of_nat m)%Z) l.
  Definition nonempty {X} (l : list X) : bool := match l with [] => false | _ => true end.

  (* normalizeTf on a fresh clone of Tr *)
  Definition tf_masked (tr : list (list A)) (f : list Z) : list (list A) :=
    norm_mat O (map (mask_vec O f) tr).
  (* what Tf has to be for the current Tr and final-state set *)
  Definition tf_of (tr : list (list A)) (final : option (list Z)) : list (list A) :=
    match final with None => tr | Some f => tf_masked tr f end.
  (* normalizePi *)
  Definition pi_masked (pi : list A) (start : option (list Z)) : list A :=
    match start with None => pi | Some l => norm_vec O (mask_vec O l pi) end.

  (* one call; the boolean is "an error was returned" *)
  Definition step (s : hst) (o : sop) : hst * bool :=
    match o with
    | OStart l =>
        if negb (valid_states l) then (s, true)
        else if nonempty l
             then (mkSt (pi_masked (stPi s) (Some l)) (stTr s) (stTf s) (Some l) (stFinal s) (stShared s), false)
             else (s, false)
    | OFinal l =>
        if negb (valid_states l) then (s, true)
        else if nonempty l
             then (mkSt (stPi s) (stTr s) (tf_masked (stTr s) l) (stStart s) (Some l) false, false)
             else (s, false)
    | OParams pi tr =>
        if stShared s
        then (mkSt pi tr tr (stStart s) (stFinal s) true, false)
        else (* Tf = clone; normalizeTf does something only if finalStates != nil *)
             (mkSt pi tr (tf_of tr (stFinal s)) (stStart s) (stFinal s) false, false)
    | OClone =>
        (* newHmm: Tf = Tr (shared); SetStartStates(keys); SetFinalStates(keys) *)
        let pi1 := pi_masked (stPi s) (stStart s) in
        match stFinal s with
        | None => (mkSt pi1 (stTr s) (stTr s) (stStart s) None true, false)
        | Some f => (mkSt pi1 (stTr s) (tf_masked (stTr s) f) (stStart s) (Some f) false, false)
        end
    end.

  Definition run (ops : list sop) (s : hst) : hst := fold_left (fun s o => fst (step s o)) ops s.
  (* all intermediate states and error flags, for the correspondence *)
  Fixpoint trace (ops : list sop) (s : hst) : list (hst * bool) :=
    match ops with
    | [] => []
    | o :: r => let se := step s o in se :: trace r (fst se)
    end.

  (* generic.NewHmmProbabilityVector + NewHmmTransitionMatrix + NewHmm *)
  Definition init (rawpi : list A) (rawtr : list (list A)) : hst :=
    let tr := make_tr O rawtr in
    mkSt (norm_vec O (norm_vec O rawpi)) tr tr None None true.

  (* ---- what the history says the current parameters are (specification side) ---- *)
  Definition spec_tr (ops : list sop) (tr0 : list (list A)) : list (list A) :=
    fold_left (fun t o => match o with OParams _ tr => tr | _ => t end) ops tr0.
  Definition spec_final (ops : list sop) (f0 : option (list Z)) : option (list Z) :=
    fold_left (fun f o => match o with
                          | OFinal l => if valid_states l && nonempty l then Some l else f
                          | _ => f
                          end) ops f0.

  (* tables as the total maps the inference code of Model.v reads *)
  Definition vfun (l : list A) : nat -> A := fun i => nth i l (o0 O).
  Definition mfun (l : list (list A)) : nat -> nat -> A := fun i j => nth j (nth i l []) (o0 O).
End SETTERS.
