(* C15 round 3 — property theorems for the constrained / hierarchical HMM wrappers, Viterbi
   on log-values with -Inf, Posterior with repeated states, corner cases.
   (Statements only; proofs in ProofsCH.v.  Props.v is unchanged.)

   generic.Hmm holds a TransitionMatrix and calls ITS Normalize; all inference code reads
   Tr / Tf through At(i,j).  Hence inference on a constrained or hierarchical HMM is the base
   recursion on the constructed matrices, and every theorem of Props.v applies with
   Tr, Tf := the matrices built here.  What is specific is the construction. *)
From Coq Require Import List Arith Bool ZArith QArith Qcanon Reals.
From ADV Require Import C15.Model C15.ModelBuf C15.ModelCH C15.Spec C15.Proofs C15.ProofsCH.
Import ListNotations.
Open Scope nat_scope.

(* inference = enumeration over the ALLOWED paths only: if the transitions outside [allowed]
   have weight zero in Tr and Tf, the paths using one of them contribute nothing *)
Theorem logpdf_is_enumeration_over_allowed_paths :
  forall A (O : Ops A), CSemiring O -> forall m Pi Tr Tf smap e (allowed : nat -> nat -> bool),
    (forall i j, allowed i j = false -> Tr i j = o0 O /\ Tf i j = o0 O) -> forall n,
    logpdf O m Pi Tr Tf smap e n =
    esum O (map (weight O Pi Tr Tf smap e n) (filter (path_allowed allowed) (paths m n))).
Proof. exact (fun A O CS m Pi Tr Tf smap e allowed H n => logpdf_allowed O CS m Pi Tr Tf smap e allowed H n). Qed.

Theorem marginal_is_enumeration_over_allowed_paths :
  forall A (O : Ops A), CSemiring O -> forall m Pi Tr Tf smap e (allowed : nat -> nat -> bool),
    (forall i j, allowed i j = false -> Tr i j = o0 O /\ Tf i j = o0 O) -> forall n k i,
    enum_marginal O m Pi Tr Tf smap e n k i =
    esum O (map (weight O Pi Tr Tf smap e n)
                (filter (fun p => (nth k p m =? i) && path_allowed allowed p) (paths m n))).
Proof. exact (fun A O CS m Pi Tr Tf smap e allowed H n k i => marginal_allowed O CS m Pi Tr Tf smap e allowed H n k i). Qed.

(* ---- ChmmTransitionMatrix (any carrier, ANY multipliers lambda the Newton iteration returns) ---- *)

(* complementConstraints: the cells that belong to a group are the listed ones and the non-zero ones *)
Theorem chmm_groups_cover_exactly_listed_and_nonzero_cells :
  forall A (O : Ops A) n X cons gs i j, i < n -> j < n ->
    chmm_complement O n X cons = Some gs ->
    (In (i, j) (concat gs) <-> In (i, j) (concat cons) \/ ois0 O (X i j) = false).
Proof. exact (fun A O n => complement_cells O n). Qed.

(* tied parameters stay tied: all cells of a group hold sumXi(group) / s(group) *)
Theorem chmm_tied_parameters_stay_tied :
  forall A (O : Ops A) n lam X gs g c1 c2,
    NoDup (concat gs) -> In g gs -> In c1 g -> In c2 g ->
    chmm_apply O n lam X gs (fst c1) (snd c1) = chmm_apply O n lam X gs (fst c2) (snd c2) /\
    chmm_apply O n lam X gs (fst c1) (snd c1) = odiv O (chmm_xi O X g) (chmm_s O n lam g).
Proof.
  intros A O n lam X gs g c1 c2 ND Hg H1 H2. split.
  - exact (chmm_tied O n lam X gs g c1 c2 ND Hg H1 H2).
  - destruct c1 as [i j]. exact (chmm_apply_group O n lam X gs g i j ND Hg H1).
Qed.

(* forbidden transitions keep weight zero: a zero cell of the matrix the groups were computed
   from, not listed in a user constraint, is never written by normalize(lambda) -- it keeps what
   the first loop of Normalize left there (zero, or the self loop 0.0 of an all-zero row) *)
Theorem chmm_forbidden_transitions_are_not_written :
  forall A (O : Ops A) n lam X T cons gs i j, i < n -> j < n ->
    chmm_complement O n X cons = Some gs ->
    ois0 O (X i j) = true -> ~ In (i, j) (concat cons) ->
    chmm_apply O n lam T gs i j = T i j.
Proof. exact (fun A O n => chmm_forbidden_stays O n). Qed.

(* known finding F-C15-CHMM-FINAL-TIE (the model follows the code): a user constraint tying a
   cell in a final column to a cell in a non-final column re-creates the masked transition in Tf *)
Theorem chmm_final_restriction_with_tied_cells_refuted :
  match chmm_make OpsQc 3 wc_one wc_one wc_X [[(0, 0); (0, 1)]] with
  | Some (gs, _, T2) =>
      map (map this) (tmat_rows 3 T2) = [[3#8; 3#8; 1#4]; [1#4; 1#4; 1#2]; [1#2; 1#4; 1#4]]%Q /\
      zmem 0 [1%Z] = false /\
      map (map this) (tmat_rows 3 (chmm_tf OpsQc 3 (Some (fun i => nth i [Q2Qc (3#8); Q2Qc (1#4); Q2Qc (1#4)] 0%Qc)) T2 gs [1%Z]))
        = [[1#2; 1#2; 0]; [0; 1; 0]; [0; 1; 0]]%Q
  | None => False
  end.
Proof. exact chmm_final_tie_witness. Qed.

(* ---- HhmmTransitionMatrix ---- *)

(* normalizeLeaf on any block [a,b): nothing outside the block changes; if no row sum inside the
   block is zero, each entry is the old one over its row sum (zeros stay zero) and every row sums
   to one over the block.  PARTIAL: the statement for inner nodes (normalizeInt /
   renormalizeSubmatrix keep the rows of the node's block summing to one) is not proved; the
   correspondence run checks, per case, that the model's matrix has row sums EXACTLY one and
   that it is what the Go code produced. *)
Theorem hhmm_leaf_block_row_stochastic_partial :
  forall A (O : Ops A), CSemifield O -> forall a b (T T' : @tmat A) r,
    hnorm O (HLeaf a b) T = Some (T', r) ->
    (forall i j, inrg a b i && inrg a b j = false -> T' i j = T i j) /\
    (forall i, inrg a b i = true ->
       ois0 O (esum O (map (T i) (seq a (b - a)))) = false /\
       (forall j, inrg a b j = true -> T' i j = odiv O (T i j) (esum O (map (T i) (seq a (b - a))))) /\
       esum O (map (T' i) (seq a (b - a))) = o1 O).
Proof. exact (fun A O CF a b T T' r => hleaf_spec O CF a b T T' r). Qed.

(* known findings F-C15-HHMM-FINAL-NAN / F-C15-HHMM-FINAL-LEAK (the model follows the code):
   tree with leaves {0,1},{2,3}.  Final states {3}: the leaf {0,1} contains no final state, its
   masked rows have sum zero and normalizeLeaf computes -Inf - -Inf = NaN.  Final states {1,3}:
   normalizeInt overwrites the masked block entries, Tf(0,2) = 12/49 for the non-final state 2. *)
Theorem hhmm_final_restriction_refuted :
  hcheck_tree wh_tree 4 = true /\
  hhmm_tf OpsQc wh_tree wh_T2 [3%Z] = None /\
  zmem 2 [1%Z; 3%Z] = false /\
  rows 4 (hhmm_tf OpsQc wh_tree wh_T2 [1%Z; 3%Z]) =
    Some [[0; 25 # 49; 12 # 49; 12 # 49]; [0; 25 # 49; 12 # 49; 12 # 49];
          [25 # 167; 25 # 167; 0; 117 # 167]; [25 # 167; 25 # 167; 0; 117 # 167]]%Q.
Proof. exact hhmm_final_witness. Qed.

(* F-C15-HHMM-ZEROROW-NAN: a leaf row without mass inside its leaf yields a NaN matrix (no error,
   no self loop) *)
Theorem hhmm_zero_leaf_row_refuted :
  hhmm_make OpsQc 4 wh_tree
    (qm [[0; 0; 1#8; 1#8]; [1#4; 1#4; 1#2; 1#4]; [1#2; 1#4; 1#4; 1]; [1#4; 1#4; 1#2; 1#2]]%Q) = inl true.
Proof. exact hhmm_zero_leaf_row_witness. Qed.

(* ---- Viterbi on log-values (R u {-Inf}, +, >) ---- *)

(* for ALL log-parameters, -Inf anywhere: the result is a path of maximal weight *)
Theorem viterbi_optimal_on_log_values :
  forall m (Pi : nat -> LR) (Tr Tf : nat -> nat -> LR) smap (e : nat -> nat -> LR) n, 0 < m -> 0 < n ->
    is_path m n (viterbi VOpsLog m Pi Tr Tf smap e n) /\
    forall q, is_path m n q ->
      LRle (vweight VOpsLog Pi Tr Tf smap e n q) (vweight VOpsLog Pi Tr Tf smap e n (viterbi VOpsLog m Pi Tr Tf smap e n)).
Proof. exact viterbi_log. Qed.

(* ... in particular when EVERY path has weight -Inf (all comparisons v > -Inf fail, every
   back-pointer is 0): the result is still a path, of weight -Inf = the maximum *)
Theorem viterbi_when_all_paths_have_zero_probability :
  forall m (Pi : nat -> LR) (Tr Tf : nat -> nat -> LR) smap (e : nat -> nat -> LR) n, 0 < m -> 0 < n ->
    (forall q, is_path m n q -> vweight VOpsLog Pi Tr Tf smap e n q = None) ->
    is_path m n (viterbi VOpsLog m Pi Tr Tf smap e n) /\
    vweight VOpsLog Pi Tr Tf smap e n (viterbi VOpsLog m Pi Tr Tf smap e n) = None.
Proof. exact viterbi_log_all_zero. Qed.

(* ---- Posterior with a state listed twice ---- *)

(* refutation of "Posterior(states) = P(x_k in states[k] for all k)" for lists with repeats:
   a path counts with the product of the multiplicities of its states (4/3 > 1 here).
   The theorems of Props.v require NoDup; the multiset value is checked per case. *)
Theorem posterior_with_repeated_states_refuted :
  let sts := [[0; 0]; [1; 0]] in
  let lik := enum_likelihood OpsQc 2 wp_Pi wp_Tr wp_Tr (fun i => i) wp_e 2 in
  pval (posterior OpsQc 2 wp_Pi wp_Tr wp_Tr (fun i => i) wp_e 2 sts) = Some (4 # 3)%Q /\
  this (enum_sets OpsQc 2 wp_Pi wp_Tr wp_Tr (fun i => i) wp_e 2 sts / lik)%Qc = (2 # 3)%Q /\
  this (enum_msets OpsQc 2 wp_Pi wp_Tr wp_Tr (fun i => i) wp_e 2 sts / lik)%Qc = (4 # 3)%Q.
Proof. exact posterior_dup_witness. Qed.

(* ---- the empty sequence: defined results for every public method (no panic) ---- *)
Theorem empty_sequence_results :
  forall A (O : Ops A) V (W : VOps V) m Pi Tr Tf smap e (vPi : nat -> V) vTr vTf ve,
    logpdf O m Pi Tr Tf smap e 0 = o1 O /\
    forward O m Pi Tr Tf smap e 0 = [] /\ backward O m Tr Tf smap e 0 = [] /\
    marginals O m Pi Tr Tf smap e 0 = Some [] /\
    posterior O m Pi Tr Tf smap e 0 [] = PVal (o1 O) /\
    (forall s r, posterior O m Pi Tr Tf smap e 0 (s :: r) = PErr) /\
    viterbi W m vPi vTr vTf smap ve 0 = [].
Proof. exact empty_sequence. Qed.

(* the hypotheses are satisfiable *)
Example log_order_instance : VOrder VOpsLog LRle (fun _ => True).
Proof. exact VOpsLog_order. Qed.
Example chmm_instance :
  match chmm_complement OpsQc 3 wc_X [[(0, 0); (0, 1)]] with
  | Some gs => length gs = 8 /\ NoDup (concat gs)
  | None => False
  end.
Proof.
  vm_compute. split; [reflexivity|].
  repeat (constructor; [cbn; intuition discriminate|]). constructor.
Qed.
