(* C15 — mixtures, round 7: Posterior / Likelihood do not depend on the order in
   which the component subset is listed, and the posteriors of complementary
   subsets sum to one. *)
From Coq Require Import List Arith Bool Lia Permutation QArith Qcanon.
From ADV Require Import C15.Model C15.Spec C15.ProofsSum C15.ProofsMix.
Import ListNotations.

Section PERM.
  Context {A : Type} (O : Ops A) (CS : CSemiring O).
  Lemma esum_perm l l' : Permutation l l' -> esum O l = esum O l'.
  Proof.
    intros P. induction P as [|x l l' P IH|x y l|l l' l'' P1 IH1 P2 IH2]; simpl.
    - reflexivity.
    - rewrite IH. reflexivity.
    - rewrite <- (add_assoc O CS), (add_comm O CS y x), (add_assoc O CS). reflexivity.
    - rewrite IH1. exact IH2.
  Qed.
End PERM.

Section MIX2.
  Context {A : Type} (O : Ops A) (CF : CSemifield O).
  Let CS := sf_semiring O CF.
  Variable w : list A.
  Variable p : nat -> A.
  Notation sum := (esum O).
  Notation term := (fun j => omul O (p j) (wat O w j)).
  Notation total := (sum (map term (seq 0 (length w)))).

  Lemma forallb_perm {X} (f : X -> bool) l l' : Permutation l l' -> forallb f l = forallb f l'.
  Proof.
    intros P. induction P as [|x l l' P IH|x y l|l l' l'' P1 IH1 P2 IH2]; simpl.
    - reflexivity.
    - rewrite IH. reflexivity.
    - destruct (f x), (f y); reflexivity.
    - rewrite IH1. exact IH2.
  Qed.

  Lemma mix_posterior_perm sts sts' :
    Permutation sts sts' -> mix_posterior O w p sts = mix_posterior O w p sts'.
  Proof.
    intros P. rewrite !(mix_posterior_spec O CF).
    rewrite (forallb_perm _ _ _ P).
    rewrite (esum_perm O CS _ _ (Permutation_map term P)). reflexivity.
  Qed.

  Lemma mix_likelihood_perm sts sts' :
    Permutation sts sts' -> mix_likelihood O w p sts = mix_likelihood O w p sts'.
  Proof.
    intros P. rewrite !(mix_likelihood_spec O CF).
    rewrite (forallb_perm _ _ _ P).
    rewrite (esum_perm O CS _ _ (Permutation_map term P)).
    rewrite (esum_perm O CS _ _ (Permutation_map (wat O w) P)). reflexivity.
  Qed.

  (* a subset and its complement, each listed in any order *)
  Lemma mix_posterior_complement sts sts' a b :
    Permutation (sts ++ sts') (seq 0 (length w)) ->
    mix_posterior O w p sts = PVal a -> mix_posterior O w p sts' = PVal b ->
    oadd O a b = o1 O.
  Proof.
    intros P Ha Hb.
    assert (Z : ois0 O total = false).
    { rewrite (mix_posterior_spec O CF) in Ha. destruct (forallb _ sts); [|discriminate].
      destruct (ois0 O total); [discriminate|reflexivity]. }
    apply (mix_posterior_ratio O CF) in Ha. apply (mix_posterior_ratio O CF) in Hb.
    assert (E : omul O (oadd O a b) total = total).
    { rewrite (distr_r O CS), Ha, Hb, <- (esum_app O CS), <- map_app.
      apply (esum_perm O CS). apply Permutation_map. exact P. }
    rewrite <- (mul_div O CF (oadd O a b) total Z), E.
    rewrite <- (mul_1_l O CS total) at 1. apply (mul_div O CF). exact Z.
  Qed.

  (* the complement has a value whenever the subset has one *)
  Lemma mix_posterior_complement_defined sts sts' a :
    Permutation (sts ++ sts') (seq 0 (length w)) ->
    mix_posterior O w p sts = PVal a -> exists b, mix_posterior O w p sts' = PVal b.
  Proof.
    intros P Ha. rewrite (mix_posterior_spec O CF) in *.
    assert (F : forallb (fun j => j <? length w) sts' = true).
    { apply forallb_forall. intros x Hx. apply Nat.ltb_lt.
      assert (I : In x (seq 0 (length w))).
      { apply (Permutation_in _ P). apply in_or_app. right. exact Hx. }
      apply in_seq in I. lia. }
    rewrite F. destruct (forallb _ sts); [|discriminate].
    destruct (ois0 O total); [discriminate|]. eexists. reflexivity.
  Qed.

  (* every component listed (in any order): the posterior is one; none: zero *)
  Lemma mix_posterior_nil : ois0 O total = false -> mix_posterior O w p [] = PVal (o0 O).
  Proof.
    intros Z. rewrite (mix_posterior_spec O CF). simpl. rewrite Z. f_equal.
    rewrite <- (mul_0_l O CS total) at 1. apply (mul_div O CF). exact Z.
  Qed.

  Lemma mix_posterior_all sts a :
    Permutation sts (seq 0 (length w)) -> mix_posterior O w p sts = PVal a -> a = o1 O.
  Proof.
    intros P Ha.
    assert (Z : ois0 O total = false).
    { rewrite (mix_posterior_spec O CF) in Ha. destruct (forallb _ sts); [|discriminate].
      destruct (ois0 O total); [discriminate|reflexivity]. }
    rewrite <- (mix_posterior_complement sts [] a (o0 O)).
    - symmetry. apply (add_0_r O CS).
    - rewrite app_nil_r. exact P.
    - exact Ha.
    - apply mix_posterior_nil. exact Z.
  Qed.

  (* Bayes: Posterior(S) * density = Likelihood(S) * weight(S) (both are the
     mass of the listed components) *)
  Lemma mix_bayes sts a b :
    mix_posterior O w p sts = PVal a -> mix_likelihood O w p sts = PVal b ->
    omul O a (mix_logpdf O w p) = omul O b (sum (map (wat O w) sts)).
  Proof.
    intros Ha Hb. rewrite (mix_logpdf_sum O CF).
    rewrite (mix_posterior_ratio O CF w p sts a Ha).
    rewrite (mix_likelihood_spec O CF) in Hb. destruct (forallb _ sts); [|discriminate].
    destruct (ois0 O (sum (map (wat O w) sts))) eqn:Z; [discriminate|].
    inversion Hb; subst. symmetry. apply (div_mul O CF). exact Z.
  Qed.
End MIX2.

(* the rational behind a result (for closed examples: canonical-form proofs inside Qc do not normalise) *)
Definition pres_Q (r : pres Qc) : option Q :=
  match r with PVal v => Some (Qred (this v)) | _ => None end.
