(* C15 correspondence: the model (exact, on Qc) and the explicit enumeration of
   hidden paths against what the Go implementation returned.

   Go works on log-values; the harness prints exp(value) of every observed
   log-value as the exact rational value of that float64 ([GVal q]), [GNaN] for
   NaN/+Inf, [GErr] for a returned error.  A model value v (>= 0) and an observed
   q agree iff |v - q| <= 2^-36 * v, decided in exact arithmetic; v = 0 requires
   q = 0 (Go: -Inf).  Viterbi is replayed bit-exactly on primitive floats from
   the log-parameters held by the Go objects (only + and >), and the returned
   path is compared with the enumerated optimum in exact arithmetic. *)
From Coq Require Import List Arith Bool ZArith QArith Qcanon Qabs Floats.
From ADV Require Import Base.Corr C15.Model C15.ModelBuf C15.ModelCls.
Import ListNotations.
Open Scope nat_scope.

Inductive gres := GErr | GNaN | GVal (q : Q).

Definition tolQ : Q := 1 # (2 ^ 36).
Definition approx (v : Qc) (g : gres) : bool :=
  match g with
  | GVal q => Qle_bool (Qabs (this v - q)) (tolQ * this v)
  | _ => false
  end.
Definition approx_pres (v : pres Qc) (g : gres) : bool :=
  match v, g with
  | PErr, GErr => true
  | PNaN, GNaN => true
  | PVal x, _ => approx x g
  | _, _ => false
  end.
Fixpoint list_rel {X Y} (r : X -> Y -> bool) (a : list X) (b : list Y) : bool :=
  match a, b with
  | [], [] => true
  | x :: a', y :: b' => r x y && list_rel r a' b'
  | _, _ => false
  end.
Definition Qc_eqb (a b : Qc) : bool := Qeq_bool a b.
Definition qcl (l : list Q) : list Qc := map Q2Qc l.
Definition vecf {X} (d : X) (l : list X) : nat -> X := fun i => nth i l d.
Definition matf {X} (d : X) (l : list (list X)) : nat -> nat -> X := fun i j => nth j (nth i l []) d.

(* round 6: the classifier front-ends of statistics/vectorClassifier on one sequence.  Outcome kind
   0 = nil error, 1 = error returned, 2 = panic; the values of HmmPosterior.Eval are probabilities
   (Eval exponentiates), printed as the exact rational of the float64; those of HmmClassifier.Eval
   are the float64 values written to r, printed as integers (the harness refuses non-integral ones) *)
Record clsobs := mkCls {
  kStates : list Z; kRdim : nat;
  kPost : nat * list gres;
  kPostClone : option (nat * list gres);      (* the same through CloneVectorClassifier() *)
  kVit : nat * list Z
}.

(* one observation sequence run through one model *)
Record hseq := mkSeq {
  sN : nat;
  sEm : list (list Q);                 (* exact emission probabilities [c][k] *)
  sEmF : list (list float);            (* Go's emission log-values [c][k] *)
  gLogPdf : gres;
  gAlpha : list (list gres); gBeta : list (list gres);   (* generic ForwardBackward, [k][i] *)
  oAlpha : list (list gres); oBeta : list (list gres);   (* float64ForwardBackward, [k][i] *)
  bitsGen : list Z; bitsOpt : list Z;  (* raw float64 bits of alpha ++ beta of both *)
  gMarg : option (list (list gres));   (* PosteriorMarginals [k][i]; None = error *)
  gPost : list (list (list nat) * gres);   (* Posterior(states) *)
  gVit : list nat;
  gCls : list clsobs
}.

Record hcase := mkH {
  hM : nat;
  hPiRaw : list Q; hTrRaw : list (list Q);
  hMap : list nat; hStart : list Z; hFinal : list Z;
  gPi : list gres; gTr : list (list gres); gTf : list (list gres);   (* exp of the Go object's Pi, Tr, Tf *)
  fPi : list float; fTr : list (list float); fTf : list (list float); (* the log-values themselves *)
  hSeqs : list hseq
}.

Definition mPi (c : hcase) : list Qc := make_pi OpsQc (qcl (hPiRaw c)) (hStart c).
Definition mTr (c : hcase) : list (list Qc) := make_tr OpsQc (map qcl (hTrRaw c)).
Definition mTf (c : hcase) : list (list Qc) := make_tf OpsQc (mTr c) (hFinal c).

Definition qmax (l : list Qc) : Qc :=
  fold_left (fun a b => match (a ?= b)%Qc with Lt => b | _ => a end) l 0%Qc.
Definition nodup_sets (sts : list (list nat)) : bool :=
  forallb (fun s => Nat.eqb (length (nodup Nat.eq_dec s)) (length s)) sts.

Definition cres_rel {X Y} (r : X -> Y -> bool) (v : cres (list X)) (g : nat * list Y) : bool :=
  match v, g with
  | CErr, (1, _) => true
  | CPanic, (2, _) => true
  | COk l, (0, o) => list_rel r l o
  | _, _ => false
  end.
Definition z_nodup_valid (m : nat) (l : list Z) : bool :=
  cls_states_ok m l && Nat.eqb (length (nodup Z.eq_dec l)) (length l).
(* HmmPosterior.Eval against the model and, for a duplicate-free valid list, independently of the
   recursions against the enumeration; HmmClassifier.Eval bit-exactly on the float tables *)
Definition chk_cls_one (m : nat) (Pi : nat -> Qc) (Tr Tf : nat -> nat -> Qc) (sm : nat -> nat) (e : nat -> nat -> Qc)
           (fPi' : nat -> float) (fTr' fTf' : nat -> nat -> float) (fe : nat -> nat -> float) (n : nat) (k : clsobs) : bool :=
  let r := cls_posterior OpsQc m Pi Tr Tf sm e (kRdim k) n (kStates k) in
  let elik := enum_likelihood OpsQc m Pi Tr Tf sm e n in
  cres_rel approx r (kPost k) &&
  match kPostClone k with None => true | Some g => cres_rel approx r g end &&
  match r with
  | COk l => if z_nodup_valid m (kStates k)
             then forallb (fun kv => Qc_eqb (snd kv * elik)%Qc
                                            (enum_in_set OpsQc m Pi Tr Tf sm e n (fst kv) (map Z.to_nat (kStates k))))
                          (combine (seq 0 n) l)
             else true
  | _ => true
  end &&
  cres_rel (fun a b => Z.eqb (Z.of_nat a) b) (cls_viterbi VOpsF m fPi' fTr' fTf' sm fe (kRdim k) n) (kVit k).

Section SEQ.
  Variable c : hcase.
  Variable s : hseq.
  Let m := hM c.
  Let n := sN s.
  Let Pi := vecf 0%Qc (mPi c).
  Let Tr := matf 0%Qc (mTr c).
  Let Tf := matf 0%Qc (mTf c).
  Let sm := vecf 0 (hMap c).
  Let e := matf 0%Qc (map qcl (sEm s)).
  Let lik := logpdf OpsQc m Pi Tr Tf sm e n.
  Let elik := enum_likelihood OpsQc m Pi Tr Tf sm e n.
  Let wt := weight OpsQc Pi Tr Tf sm e n.

  Definition chk_logpdf : bool := approx lik (gLogPdf s) && Qc_eqb lik elik.
  Definition chk_alpha : bool :=
    list_rel (list_rel approx) (forward OpsQc m Pi Tr Tf sm e n) (gAlpha s) &&
    list_rel (list_rel approx) (oforward OpsQc m Pi Tr Tf sm e n) (oAlpha s).
  Definition chk_beta : bool :=
    list_rel (list_rel approx) (backward OpsQc m Tr Tf sm e n) (gBeta s) &&
    list_rel (list_rel approx) (obackward OpsQc m Tr Tf sm e n) (oBeta s).
  Definition chk_bits : bool := list_eqb Z.eqb (bitsGen s) (bitsOpt s).
  (* marginals: against Go and against the enumeration *)
  Definition chk_marg : bool :=
    match marginals OpsQc m Pi Tr Tf sm e n, gMarg s with
    | None, None => Qc_eqb elik 0%Qc
    | Some g, Some o =>
        list_rel (list_rel approx) g o &&
        forallb (fun kc => forallb (fun iv =>
                   Qc_eqb (snd iv * elik)%Qc (enum_marginal OpsQc m Pi Tr Tf sm e n (fst kc) (fst iv)))
                   (combine (seq 0 m) (snd kc)))
                (combine (seq 0 n) g)
    | _, _ => false
    end.
  Definition chk_post : bool :=
    forallb (fun sg =>
               let r := posterior OpsQc m Pi Tr Tf sm e n (fst sg) in
               approx_pres r (snd sg) &&
               match r with
               | PVal v => if nodup_sets (fst sg)
                           then Qc_eqb (v * elik)%Qc (enum_sets OpsQc m Pi Tr Tf sm e n (fst sg)) else true
               | _ => true
               end) (gPost s).
  (* Viterbi: bit-exact float replay of the tables, and exact optimality of Go's path *)
  Definition chk_vit : bool :=
    let fe := matf neg_infinity (sEmF s) in
    let vf := viterbi VOpsF m (vecf neg_infinity (fPi c)) (matf neg_infinity (fTr c)) (matf neg_infinity (fTf c)) sm fe n in
    let vq := viterbi VOpsQc m Pi Tr Tf sm e n in
    let best := qmax (map wt (paths m n)) in
    list_eqb Nat.eqb vf (gVit s) &&
    Nat.eqb (length (gVit s)) n && forallb (fun x => x <? m) (gVit s) &&
    Qc_eqb (wt (gVit s)) best && Qc_eqb (wt vq) best.

  Definition chk_cls : bool :=
    forallb (chk_cls_one m Pi Tr Tf sm e (vecf neg_infinity (fPi c)) (matf neg_infinity (fTr c)) (matf neg_infinity (fTf c))
                         (matf neg_infinity (sEmF s)) n) (gCls s).

  Definition seq_fails : list nat :=
    (if chk_logpdf then [] else [1]) ++ (if chk_alpha then [] else [2]) ++ (if chk_beta then [] else [3]) ++
    (if chk_bits then [] else [4]) ++ (if chk_marg then [] else [5]) ++ (if chk_post then [] else [6]) ++
    (if chk_vit then [] else [7]) ++ (if chk_cls then [] else [9]).
End SEQ.

Definition chk_params (c : hcase) : bool :=
  list_rel approx (mPi c) (gPi c) && list_rel (list_rel approx) (mTr c) (gTr c) &&
  list_rel (list_rel approx) (mTf c) (gTf c).

(* failing sub-checks of a case: 0 = parameters, 10*(sequence+1) + code *)
Definition hfails (c : hcase) : list nat :=
  (if chk_params c then [] else [0]) ++
  flat_map (fun ks => map (fun x => 10 * (S (fst ks)) + x) (seq_fails c (snd ks)))
           (combine (seq 0 (length (hSeqs c))) (hSeqs c)).
Definition hcheck (c : hcase) : bool := match hfails c with [] => true | _ => false end.

(* ---- mixtures ---- *)
Record mcase := mkMx {
  xW : list Q;            (* raw weights *)
  xP : list Q;            (* component densities at the observation *)
  gW : list gres;         (* exp(LogWeights) *)
  gMix : gres;            (* LogPdf *)
  gSel : list (list nat * gres * gres)   (* states, Posterior, Likelihood *)
}.
Definition mfails (c : mcase) : list nat :=
  match mix_weights OpsQc (qcl (xW c)) with
  | None => if forallb (fun g => match g with GNaN => true | _ => false end) (gW c) then [] else [0]
  | Some w =>
      let p := vecf 0%Qc (qcl (xP c)) in
      let total := fold_right Qcplus 0%Qc (map (fun j => (nth j w 0 * p j)%Qc) (seq 0 (length w))) in
      (if list_rel approx w (gW c) then [] else [0]) ++
      (if approx (mix_logpdf OpsQc w p) (gMix c) && Qc_eqb (mix_logpdf OpsQc w p) total then [] else [1]) ++
      (if forallb (fun t => approx_pres (mix_posterior OpsQc w p (fst (fst t))) (snd (fst t))) (gSel c) then [] else [2]) ++
      (if forallb (fun t => approx_pres (mix_likelihood OpsQc w p (fst (fst t))) (snd t)) (gSel c) then [] else [3])
  end.
Definition mcheck (c : mcase) : bool := match mfails c with [] => true | _ => false end.

(* ---- round 2: forward-backward on reused work matrices, one Baum-Welch step ---- *)
Record brec := mkBR {
  rN : nat;
  rEm : list (list Q);                               (* emission probabilities [c][k] *)
  rOA : list (list gres); rOB : list (list gres);    (* float64ForwardBackward on the shared matrices, columns 0..n-1 *)
  rGA : list (list gres); rGB : list (list gres)     (* generic forwardBackward on shared matrices *)
}.
Record bwobs := mkBO {
  boErr : bool; boLik : gres;
  boPi : list gres; boTr : list (list gres); boTf : list (list gres);   (* hmm1 after the step *)
  boGam : list (list gres)                                               (* gamma [c][l] handed to Emissions *)
}.
Record bcase := mkB {
  bM : nat; bPiRaw : list Q; bTrRaw : list (list Q); bMap : list nat; bStart : list Z; bFinal : list Z;
  bNe : nat;
  bRecs : list brec;
  bPlain : bwobs; bPois : bwobs;                     (* the public step as is / with poisoned work memory *)
  bAccPi : list gres; bAccTr : list (list gres)      (* expected-count accumulators of thread 0 (poisoned run) *)
}.

Section BWCASE.
  Variable c : bcase.
  Let h := mkH (bM c) (bPiRaw c) (bTrRaw c) (bMap c) (bStart c) (bFinal c) [] [] [] [] [] [] [].
  Let m := bM c.
  Let ne := bNe c.
  Let Pi := vecf 0%Qc (mPi h).
  Let Tr := matf 0%Qc (mTr h).
  Let Tf := matf 0%Qc (mTf h).
  Let sm := vecf 0 (bMap c).
  Let hasfinal := match bFinal c with [] => false | _ => true end.
  Let em (r : brec) := matf 0%Qc (map qcl (rEm r)).
  (* any value will do: the theorems say the result does not depend on it *)
  Definition poison : @mat Qc := fun _ _ => Q2Qc 7.

  (* the recursions record after record on the same matrices *)
  Fixpoint reuse_ok (oa ob ga gb : @mat Qc) (recs : list brec) : bool :=
    match recs with
    | [] => true
    | r :: rest =>
        let n := rN r in
        let oa' := oforward_buf OpsQc m Pi Tr Tf sm (em r) oa n in
        let ob' := obackward_buf OpsQc m Tr Tf sm (em r) ob n in
        let ga' := forward_buf OpsQc m Pi Tr Tf sm (em r) ga n in
        let gb' := backward_buf OpsQc m Tr Tf sm (em r) gb n in
        list_rel (list_rel approx) (mat_cols m oa' n) (rOA r) && list_rel (list_rel approx) (mat_cols m ob' n) (rOB r) &&
        list_rel (list_rel approx) (mat_cols m ga' n) (rGA r) && list_rel (list_rel approx) (mat_cols m gb' n) (rGB r) &&
        (* ... and against the pure model on fresh columns *)
        list_rel (list_rel Qc_eqb) (mat_cols m oa' n) (forward OpsQc m Pi Tr Tf sm (em r) n) &&
        list_rel (list_rel Qc_eqb) (mat_cols m ob' n) (backward OpsQc m Tr Tf sm (em r) n) &&
        reuse_ok oa' ob' ga' gb' rest
    end.
  Definition chk_reuse : bool := reuse_ok poison poison poison poison (bRecs c).

  Definition qsum (l : list Qc) : Qc := fold_right Qcplus 0%Qc l.
  (* posterior expectations by explicit enumeration, summed over the records *)
  Definition exp_pi (i : nat) : Qc :=
    qsum (map (fun r => (enum_marginal OpsQc m Pi Tr Tf sm (em r) (rN r) 0 i /
                         enum_likelihood OpsQc m Pi Tr Tf sm (em r) (rN r))%Qc) (bRecs c)).
  Definition exp_tr (i j : nat) : Qc :=
    qsum (map (fun r => qsum (map (fun k => (enum_pair OpsQc m Pi Tr Tf sm (em r) (rN r) k i j /
                                              enum_likelihood OpsQc m Pi Tr Tf sm (em r) (rN r))%Qc)
                                  (seq 0 (if hasfinal then rN r - 2 else rN r - 1)))) (bRecs c)).
  Definition exp_lik : Qc :=
    fold_right Qcmult 1%Qc (map (fun r => enum_likelihood OpsQc m Pi Tr Tf sm (em r) (rN r)) (bRecs c)).
  Definition exp_gam (r : brec) (k cl : nat) : Qc :=
    (qsum (map (fun i => if sm i =? cl then enum_marginal OpsQc m Pi Tr Tf sm (em r) (rN r) k i else 0%Qc) (seq 0 m)) /
     enum_likelihood OpsQc m Pi Tr Tf sm (em r) (rN r))%Qc.

  Definition obs_ok (o : bwobs) (lik : Qc) (npi : list Qc) (ntr ntf gam : list (list Qc)) : bool :=
    negb (boErr o) && approx lik (boLik o) && list_rel approx npi (boPi o) &&
    list_rel (list_rel approx) ntr (boTr o) && list_rel (list_rel approx) ntf (boTf o) &&
    list_rel (list_rel approx) gam (boGam o).

  Definition chk_bw : list nat :=
    let recs := map (fun r => (rN r, em r)) (bRecs c) in
    let multi := 1 <? length (nodup Z.eq_dec (bFinal c)) in
    match (if multi then None else bw_thread OpsQc m ne Pi Tr Tf sm hasfinal poison poison recs) with
    | None => if boErr (bPlain c) && boErr (bPois c) then [] else [2]
    | Some s =>
        match bw_new_pi OpsQc (bwPi s) (bStart c) with
        | None => if boErr (bPlain c) && boErr (bPois c) then [] else [2]
        | Some npi =>
            let ntr := bw_new_tr OpsQc (bwTr s) in
            let ntf := make_tf OpsQc ntr (bFinal c) in
            let gam := map (fun cl => flat_map (fun g => map (fun col => nth cl col 0%Qc) g) (bwGam s)) (seq 0 ne) in
            (if obs_ok (bPlain c) (bwLik s) npi ntr ntf gam then [] else [3]) ++
            (if obs_ok (bPois c) (bwLik s) npi ntr ntf gam then [] else [4]) ++
            (if list_rel approx (bwPi s) (bAccPi c) && list_rel (list_rel approx) (bwTr s) (bAccTr c) then [] else [5]) ++
            (* the model's accumulators are the enumerated posterior expectations, exactly *)
            (if list_rel Qc_eqb (bwPi s) (map exp_pi (seq 0 m)) &&
                list_rel (list_rel Qc_eqb) (bwTr s) (map (fun i => map (exp_tr i) (seq 0 m)) (seq 0 m)) &&
                Qc_eqb (bwLik s) exp_lik &&
                list_rel (list_rel (list_rel Qc_eqb)) (bwGam s)
                         (map (fun r => map (fun k => map (exp_gam r k) (seq 0 ne)) (seq 0 (rN r))) (bRecs c))
             then [] else [6])
        end
    end.
  Definition bfails : list nat := (if chk_reuse then [] else [1]) ++ chk_bw.
End BWCASE.
Definition bcheck (c : bcase) : bool := match bfails c with [] => true | _ => false end.

Inductive case := CH (c : hcase) | CM (c : mcase) | CB (c : bcase).
Definition check (c : case) : bool := match c with CH h => hcheck h | CM x => mcheck x | CB b => bcheck b end.
Definition fails (c : case) : list nat := match c with CH h => hfails h | CM x => mfails x | CB b => bfails b end.
Definition mism (cs : list case) : list nat := mismatches check cs.
