(* C15 (round 6) — hmm1.normalize after a Baum-Welch step (ModelBuf.bw_new_pi / bw_new_tr): the
   re-estimated start vector is a distribution carried by the start states, every re-estimated
   transition row with mass is a distribution, rows without mass become self loops. *)
From Coq Require Import List Arith Bool ZArith Lia.
From ADV Require Import C15.Model C15.ModelBuf C15.ModelSet C15.Spec C15.Proofs C15.ProofsSet2.
Import ListNotations.
Open Scope nat_scope.

Section PBWN.
  Context {A : Type} (O : Ops A) (CF : CSemifield O).
  Let CS := sf_semiring O CF.

  Definition bw_masked (acc : list A) (start : list Z) : list A :=
    match start with [] => acc | _ => mask_vec O start acc end.

  Lemma bw_new_pi_mix acc start : bw_new_pi O acc start = mix_weights O (bw_masked acc start).
  Proof. destruct start; reflexivity. Qed.

  (* the new Pi sums to one *)
  Lemma bw_new_pi_sum acc start p : bw_new_pi O acc start = Some p -> esum O p = o1 O.
  Proof. rewrite bw_new_pi_mix. apply (mix_weights_sum O CF). Qed.

  (* ... its entries are the expected counts over their total; outside the start states they are zero *)
  Lemma bw_new_pi_entry acc start p i : bw_new_pi O acc start = Some p -> i < length acc ->
    nth i p (o0 O) =
    odiv O (if match start with [] => true | _ => zmem i start end then nth i acc (o0 O) else o0 O)
           (lsum O (bw_masked acc start)).
  Proof.
    unfold bw_new_pi. fold (bw_masked acc start).
    destruct (ois0 O (lsum O (bw_masked acc start))) eqn:Ez; [discriminate|].
    intros E Hi. inversion E; subst. clear E.
    assert (Hl : length (bw_masked acc start) = length acc).
    { unfold bw_masked. destruct start; [reflexivity | apply (length_mask O)]. }
    rewrite nth_indep with (d' := odiv O (o0 O) (lsum O (bw_masked acc start)))
      by (rewrite map_length, Hl; exact Hi).
    rewrite (map_nth (fun x => odiv O x (lsum O (bw_masked acc start)))). f_equal.
    unfold bw_masked. destruct start as [|z l]; [reflexivity|].
    apply (nth_mask O). exact Hi.
  Qed.
  Lemma bw_new_pi_outside acc start p i : bw_new_pi O acc start = Some p -> i < length acc ->
    start <> [] -> zmem i start = false -> nth i p (o0 O) = o0 O.
  Proof.
    intros E Hi Hs Hz. rewrite (bw_new_pi_entry acc start p i E Hi).
    destruct start as [|z l]; [contradiction|]. rewrite Hz.
    apply (div_zero O CF). unfold bw_new_pi in E. fold (bw_masked acc (z :: l)) in E.
    destruct (ois0 O (lsum O (bw_masked acc (z :: l)))); [discriminate|reflexivity].
  Qed.
  (* the step fails iff the expected start counts have no mass on the start states *)
  Lemma bw_new_pi_none acc start : bw_new_pi O acc start = None <-> ois0 O (lsum O (bw_masked acc start)) = true.
  Proof.
    unfold bw_new_pi. fold (bw_masked acc start).
    destruct (ois0 O (lsum O (bw_masked acc start))); split; intros H; try reflexivity; discriminate.
  Qed.

  (* rows of the new Tr *)
  Lemma bw_new_tr_row acc i : i < length acc -> nth i (bw_new_tr O acc) [] = norm_row O i (nth i acc []).
  Proof.
    intros Hi. unfold bw_new_tr, norm_mat.
    rewrite (nth_map_combine_seq _ acc [] [] 0 i Hi). reflexivity.
  Qed.
  Lemma norm_row_sum i row : ois0 O (lsum O row) = false -> esum O (norm_row O i row) = o1 O.
  Proof.
    intros Hz. apply (mix_weights_sum O CF row). unfold mix_weights, norm_row. rewrite Hz. reflexivity.
  Qed.
  Lemma bw_new_tr_spec acc i : i < length acc ->
    let row := nth i acc [] in
    if ois0 O (lsum O row)
    then nth i (bw_new_tr O acc) [] = upd row i (o1 O)
    else esum O (nth i (bw_new_tr O acc) []) = o1 O /\
         forall j, j < length row -> nth j (nth i (bw_new_tr O acc) []) (o0 O) = odiv O (nth j row (o0 O)) (lsum O row).
  Proof.
    intros Hi row. rewrite (bw_new_tr_row acc i Hi). fold row.
    destruct (ois0 O (lsum O row)) eqn:Ez.
    - unfold norm_row. rewrite Ez. reflexivity.
    - split; [apply norm_row_sum; exact Ez|].
      intros j Hj. unfold norm_row. rewrite Ez.
      rewrite nth_indep with (d' := odiv O (o0 O) (lsum O row)) by (rewrite map_length; exact Hj).
      apply (map_nth (fun x => odiv O x (lsum O row))).
  Qed.
End PBWN.
