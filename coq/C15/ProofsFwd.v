(* C15 — the forward recursion and LogPdf compute sums over all hidden paths. *)
From Coq Require Import List Arith Bool Lia Ring.
From ADV Require Import C15.Model C15.Spec C15.ProofsSum.
Import ListNotations.

Lemma nth_map_seq {X} (f : nat -> X) m j d : j < m -> nth j (map f (seq 0 m)) d = f j.
Proof.
  intros H. rewrite (nth_indep _ d (f 0)) by (rewrite map_length, seq_length; exact H).
  rewrite map_nth. rewrite seq_nth by exact H. reflexivity.
Qed.

Lemma last_map_seq {X} (f : nat -> X) c d : last (map f (seq 0 (S c))) d = f c.
Proof. rewrite seq_S, map_app. simpl. apply last_last. Qed.

Lemma last_indep {X} (r : list X) d d' : r <> [] -> last r d = last r d'.
Proof.
  induction r as [|z r IH]; intros H; [congruence|].
  destruct r as [|z' r]; [reflexivity|].
  change (last (z :: z' :: r) d) with (last (z' :: r) d).
  change (last (z :: z' :: r) d') with (last (z' :: r) d').
  apply IH. discriminate.
Qed.
Lemma last_cons_def {X} (y : X) r d : last (y :: r) d = last r y.
Proof.
  destruct r as [|z r]; [reflexivity|].
  change (last (y :: z :: r) d) with (last (z :: r) d). apply last_indep. discriminate.
Qed.

Section FWD.
  Context {A : Type} (O : Ops A) (CS : CSemiring O).
  Variable m : nat.
  Variable Pi : nat -> A.
  Variable Tr Tf : nat -> nat -> A.
  Variable smap : nat -> nat.
  Variable e : nat -> nat -> A.
  Notation "a (+) b" := (oadd O a b) (at level 50, left associativity).
  Notation "a (x) b" := (omul O a b) (at level 40, left associativity).
  Notation zero := (o0 O).
  Notation one := (o1 O).
  Notation sum := (esum O).
  Notation W := (weight O Pi Tr Tf smap e).
  Notation WT := (wtail O Tr Tf smap e).
  Notation TK := (Tk Tr Tf).
  Notation st := (seq 0 m).

  Lemma srt : semi_ring_theory zero one (oadd O) (omul O) eq.
  Proof.
    constructor.
    - apply (add_0_l O CS).
    - apply (add_comm O CS).
    - intros; symmetry; apply (add_assoc O CS).
    - apply (mul_1_l O CS).
    - apply (mul_0_l O CS).
    - apply (mul_comm O CS).
    - intros; symmetry; apply (mul_assoc O CS).
    - intros; apply (distr_r O CS).
  Qed.
  Add Ring sr : srt.

  (* ---- weights of extended paths ---- *)
  Lemma wtail_snoc n r : forall k prev j,
    WT n k prev (r ++ [j]) =
    WT n k prev r (x) (TK n (k + length r) (last r prev) j (x) e (smap j) (k + length r)).
  Proof.
    induction r as [|y r IH]; intros k prev j.
    - simpl. rewrite Nat.add_0_r. ring.
    - change ((y :: r) ++ [j]) with (y :: (r ++ [j])).
      change (WT n k prev (y :: (r ++ [j]))) with
        (TK n k prev y (x) e (smap y) k (x) WT n (S k) y (r ++ [j])).
      rewrite IH. rewrite last_cons_def.
      change (WT n k prev (y :: r)) with (TK n k prev y (x) e (smap y) k (x) WT n (S k) y r).
      replace (k + length (y :: r)) with (S k + length r) by (simpl; lia). ring.
  Qed.

  Lemma weight_snoc2 n p i j :
    W n ((p ++ [i]) ++ [j]) =
    W n (p ++ [i]) (x) (TK n (S (length p)) i j (x) e (smap j) (S (length p))).
  Proof.
    destruct p as [|x0 r].
    - simpl. ring.
    - change (((x0 :: r) ++ [i]) ++ [j]) with (x0 :: ((r ++ [i]) ++ [j])).
      change ((x0 :: r) ++ [i]) with (x0 :: (r ++ [i])).
      change (W n (x0 :: (r ++ [i]) ++ [j])) with (Pi x0 (x) e (smap x0) 0 (x) WT n 1 x0 ((r ++ [i]) ++ [j])).
      change (W n (x0 :: r ++ [i])) with (Pi x0 (x) e (smap x0) 0 (x) WT n 1 x0 (r ++ [i])).
      rewrite (wtail_snoc n (r ++ [i])). rewrite last_last, app_length. simpl.
      replace (S (length r + 1)) with (S (S (length r))) by lia. ring.
  Qed.

  (* weight of a concatenation: prefix ending in i, then the continuation *)
  Lemma wtail_app n p : forall k prev q,
    WT n k prev (p ++ q) = WT n k prev p (x) WT n (k + length p) (last p prev) q.
  Proof.
    induction p as [|y r IH]; intros k prev q.
    - simpl. rewrite Nat.add_0_r. ring.
    - change ((y :: r) ++ q) with (y :: (r ++ q)).
      change (WT n k prev (y :: (r ++ q))) with (TK n k prev y (x) e (smap y) k (x) WT n (S k) y (r ++ q)).
      rewrite IH, last_cons_def.
      change (WT n k prev (y :: r)) with (TK n k prev y (x) e (smap y) k (x) WT n (S k) y r).
      replace (k + length (y :: r)) with (S k + length r) by (simpl; lia). ring.
  Qed.

  Lemma weight_split n p i q :
    W n ((p ++ [i]) ++ q) = W n (p ++ [i]) (x) WT n (S (length p)) i q.
  Proof.
    destruct p as [|x0 r].
    - simpl. ring.
    - change (((x0 :: r) ++ [i]) ++ q) with (x0 :: ((r ++ [i]) ++ q)).
      change ((x0 :: r) ++ [i]) with (x0 :: (r ++ [i])).
      change (W n (x0 :: (r ++ [i]) ++ q)) with (Pi x0 (x) e (smap x0) 0 (x) WT n 1 x0 ((r ++ [i]) ++ q)).
      change (W n (x0 :: r ++ [i])) with (Pi x0 (x) e (smap x0) 0 (x) WT n 1 x0 (r ++ [i])).
      rewrite (wtail_app n (r ++ [i])). rewrite last_last, app_length. simpl.
      replace (S (length r + 1)) with (S (S (length r))) by lia. ring.
  Qed.

  (* ---- the enumerated alpha satisfies the forward recursion ---- *)
  Notation AS := (alpha_spec O m Pi Tr Tf smap e).

  Lemma alpha_spec_0 n j : AS n 0 j = Pi j (x) e (smap j) 0.
  Proof. unfold alpha_spec. simpl. ring. Qed.

  Lemma alpha_spec_S n k j :
    AS n (S k) j = sum (map (fun i => TK n (S k) i j (x) AS n k i) st) (x) e (smap j) (S k).
  Proof.
    unfold alpha_spec. replace (S k) with (k + 1) at 1 by lia.
    rewrite paths_snoc, map_flat_map, (esum_flat_map O CS).
    rewrite (esum_ext O _ (fun p => sum (map (fun i => W n (p ++ [i]) (x) (TK n (S k) i j (x) e (smap j) (S k))) st))).
    2:{ intros p Hp. rewrite map_map. apply (esum_ext O). intros i _.
        rewrite weight_snoc2. rewrite (paths_length m k p Hp). reflexivity. }
    rewrite (esum_swap O CS).
    rewrite <- (esum_mul_r O CS). apply (esum_ext O). intros i _.
    rewrite (esum_mul_r O CS). ring.
  Qed.

  (* ---- the model's columns are the recursion ---- *)
  Fixpoint Aiter (n k : nat) : list A :=
    match k with
    | 0 => col0 O m Pi smap e
    | S k' => fstep O m smap e (TK n k) (Aiter n k') k
    end.

  Lemma Aiter_spec n k : Aiter n k = map (AS n k) st.
  Proof.
    induction k as [|k IH].
    - simpl. unfold col0, states. apply map_ext. intros j. rewrite alpha_spec_0. reflexivity.
    - simpl. rewrite IH. unfold fstep, states. apply map_ext_in. intros j Hj.
      rewrite alpha_spec_S. f_equal. rewrite (fold_left_esum0 O CS).
      apply (esum_ext O). intros i Hi. unfold at_. rewrite nth_map_seq; [reflexivity|].
      apply in_seq in Hi. lia.
  Qed.

  Lemma floop_eq n cnt : forall k0,
    (forall k, S k0 <= k < S k0 + cnt -> TK n k = Tr) ->
    floop O m Tr smap e cnt (S k0) (Aiter n k0) = map (Aiter n) (seq (S k0) cnt).
  Proof.
    induction cnt as [|c IH]; intros k0 H; [reflexivity|].
    assert (E : Aiter n (S k0) = fstep O m smap e Tr (Aiter n k0) (S k0))
      by (simpl; rewrite H by lia; reflexivity).
    cbn [floop seq map]. rewrite <- E. f_equal.
    apply (IH (S k0)). intros k Hk. apply H. lia.
  Qed.

  Lemma Tk_mid n k : k < n - 1 -> TK n k = Tr.
  Proof. intros H. unfold Tk. apply Nat.ltb_lt in H. rewrite H. reflexivity. Qed.
  Lemma Tk_last n k : n - 1 <= k -> TK n k = Tf.
  Proof. intros H. unfold Tk. destruct (Nat.ltb_spec k (n - 1)); [lia|reflexivity]. Qed.

  Lemma forward_eq n : forward O m Pi Tr Tf smap e n = map (Aiter n) (seq 0 n).
  Proof.
    destruct n as [|[|c]]; [reflexivity|reflexivity|].
    unfold forward. replace (S (S c) - 2) with c by lia. replace (S (S c) - 1) with (S c) by lia.
    change (col0 O m Pi smap e) with (Aiter (S (S c)) 0).
    rewrite floop_eq by (intros k Hk; apply Tk_mid; lia).
    change (Aiter (S (S c)) 0 :: map (Aiter (S (S c))) (seq 1 c)) with (map (Aiter (S (S c))) (seq 0 (S c))).
    change (1 <? S (S c)) with true. cbv iota.
    rewrite last_map_seq.
    rewrite (seq_S (S c) 0), map_app. simpl (0 + S c). f_equal. simpl. f_equal.
    rewrite Tk_last by lia. reflexivity.
  Qed.

  (* alpha(j,k) as returned by [forward] is the sum over all paths x_0..x_k ending in j *)
  Lemma forward_paths n k j :
    k < n -> j < m -> at_ O (nth k (forward O m Pi Tr Tf smap e n) []) j = AS n k j.
  Proof.
    intros Hk Hj. rewrite forward_eq, nth_map_seq by exact Hk. rewrite Aiter_spec.
    unfold at_. apply nth_map_seq. exact Hj.
  Qed.

  (* ---- likelihood ---- *)
  Lemma sumcol_esum c : sumcol O c = sum c.
  Proof. unfold sumcol. rewrite (fold_left_esum0 O CS (fun x => x)). rewrite map_id. reflexivity. Qed.

  Lemma alpha_total n k : n = S k ->
    sum (map (AS n k) st) = enum_likelihood O m Pi Tr Tf smap e n.
  Proof.
    intros ->. unfold enum_likelihood, alpha_spec. replace (S k) with (k + 1) at 2 by lia.
    rewrite paths_snoc, map_flat_map, (esum_flat_map O CS).
    rewrite (esum_swap O CS). apply (esum_ext O). intros p _. rewrite map_map. reflexivity.
  Qed.

  Lemma lploop_eq n cnt : forall k0,
    (forall k, S k0 <= k < S k0 + cnt -> TK n k = Tr) ->
    lploop O m Tr smap e cnt (S k0) (Aiter n k0) = Aiter n (k0 + cnt).
  Proof.
    induction cnt as [|c IH]; intros k0 H.
    - simpl. rewrite Nat.add_0_r. reflexivity.
    - assert (E : Aiter n (S k0) = fstep O m smap e Tr (Aiter n k0) (S k0))
        by (simpl; rewrite H by lia; reflexivity).
      cbn [lploop]. rewrite <- E.
      rewrite (IH (S k0)) by (intros k Hk; apply H; lia). f_equal. lia.
  Qed.

  Lemma enum_likelihood_0 : enum_likelihood O m Pi Tr Tf smap e 0 = one.
  Proof. unfold enum_likelihood. simpl. ring. Qed.

  Lemma logpdf_enum n : logpdf O m Pi Tr Tf smap e n = enum_likelihood O m Pi Tr Tf smap e n.
  Proof.
    destruct n as [|[|c]].
    - rewrite enum_likelihood_0. reflexivity.
    - unfold logpdf. simpl lploop. cbv iota. change (1 <? 1) with false. cbv iota.
      rewrite sumcol_esum. change (col0 O m Pi smap e) with (Aiter 1 0). rewrite Aiter_spec.
      apply alpha_total. reflexivity.
    - unfold logpdf. replace (S (S c) - 2) with c by lia. replace (S (S c) - 1) with (S c) by lia.
      change (1 <? S (S c)) with true. cbv iota.
      change (col0 O m Pi smap e) with (Aiter (S (S c)) 0).
      rewrite lploop_eq by (intros k Hk; apply Tk_mid; lia). simpl (0 + c).
      assert (E : Aiter (S (S c)) (S c) = fstep O m smap e Tf (Aiter (S (S c)) c) (S c))
        by (simpl; rewrite Tk_last by lia; reflexivity).
      rewrite <- E.
      rewrite sumcol_esum, Aiter_spec. apply alpha_total. reflexivity.
  Qed.

  (* the last forward column sums to the same value *)
  Lemma forward_last_sum n : 0 < n ->
    sumcol O (last (forward O m Pi Tr Tf smap e n) []) = enum_likelihood O m Pi Tr Tf smap e n.
  Proof.
    intros Hn. destruct n as [|k]; [lia|]. rewrite forward_eq, last_map_seq, sumcol_esum, Aiter_spec.
    apply alpha_total. reflexivity.
  Qed.
End FWD.
