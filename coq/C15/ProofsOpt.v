(* C15 — the float64-specialised forward/backward (hmm_optimized.go) is the
   generic one, on every input; instances of the carrier laws. *)
From Coq Require Import List Arith Bool QArith Qcanon Lia.
From ADV Require Import C15.Model C15.Spec.
Import ListNotations.

Section OPT.
  Context {A : Type} (O : Ops A).
  Variable m : nat.
  Variable Pi : nat -> A.
  Variable Tr Tf : nat -> nat -> A.
  Variable smap : nat -> nat.
  Variable e : nat -> nat -> A.

  Lemma ofstep_eq T prev k : ofstep O m smap e T prev k = fstep O m smap e T prev k.
  Proof. reflexivity. Qed.
  Lemma ofloop_eq cnt : forall k prev, ofloop O m Tr smap e cnt k prev = floop O m Tr smap e cnt k prev.
  Proof. induction cnt as [|c IH]; intros k prev; [reflexivity|]. simpl. rewrite IH. reflexivity. Qed.
  Lemma oforward_eq n : oforward O m Pi Tr Tf smap e n = forward O m Pi Tr Tf smap e n.
  Proof. destruct n; [reflexivity|]. unfold oforward, forward. rewrite ofloop_eq. reflexivity. Qed.
  Lemma obloop_eq cnt : forall next, obloop O m Tr smap e cnt next = bloop O m Tr smap e cnt next.
  Proof. induction cnt as [|c IH]; intros next; [reflexivity|]. simpl. rewrite IH. reflexivity. Qed.
  Lemma obackward_eq n : obackward O m Tr Tf smap e n = backward O m Tr Tf smap e n.
  Proof. destruct n; [reflexivity|]. unfold obackward, backward. rewrite obloop_eq. reflexivity. Qed.
End OPT.

(* ---- the exact rationals used by the correspondence run are a commutative
        semifield in the sense of Spec.v ---- *)
Lemma Qc_is0_spec (a : Qc) : Qc_is0 a = true <-> a = 0%Qc.
Proof.
  unfold Qc_is0. split.
  - intros H. apply Qc_is_canon. apply Qeq_bool_eq. exact H.
  - intros ->. reflexivity.
Qed.
Lemma Qc_is0_false (a : Qc) : Qc_is0 a = false -> a <> 0%Qc.
Proof. intros H E. apply Qc_is0_spec in E. congruence. Qed.

Lemma OpsQc_semiring : CSemiring OpsQc.
Proof.
  constructor; simpl; intros.
  - apply Qcplus_comm.
  - symmetry; apply Qcplus_assoc.
  - apply Qcplus_0_l.
  - apply Qcmult_comm.
  - symmetry; apply Qcmult_assoc.
  - apply Qcmult_1_l.
  - apply Qcmult_0_l.
  - apply Qcmult_plus_distr_r.
Qed.

Lemma OpsQc_semifield : CSemifield OpsQc.
Proof.
  constructor; simpl.
  - exact OpsQc_semiring.
  - exact Qc_is0_spec.
  - intros a b H. rewrite Qcmult_comm. apply Qcmult_div_r. apply Qc_is0_false. exact H.
  - intros a b H. apply Qcdiv_mult_l. apply Qc_is0_false. exact H.
Qed.
