(* C15 (round 5) — the setter state machine of ModelSet.v: the derived final-step matrix
   Tf is, after EVERY history of SetStartStates / SetFinalStates / SetParameters / Clone calls,
   the masked and renormalised copy of the CURRENT Tr for the CURRENT final-state set. *)
From Coq Require Import List Arith Bool ZArith QArith Qcanon Lia.
From ADV Require Import C15.Model C15.ModelBuf C15.ModelSet C15.Spec C15.Proofs.
Import ListNotations.
Open Scope nat_scope.

Section PSET.
  Context {A : Type} (O : Ops A).
  Variable m : nat.

  (* the invariant of the object *)
  Definition Inv (s : @hst A) : Prop :=
    (stShared s = true <-> stFinal s = None) /\ stTf s = tf_of O (stTr s) (stFinal s).

  Lemma init_inv rawpi rawtr : Inv (init O rawpi rawtr).
  Proof. unfold Inv, init; simpl. split; [split; reflexivity | reflexivity]. Qed.

  Lemma step_inv s o : Inv s -> Inv (fst (step O m s o)).
  Proof.
    intros [Hsh Htf]. destruct o as [l|l|pi tr|]; unfold step.
    - destruct (negb (valid_states m l)); [split; assumption|].
      destruct (nonempty l); simpl; split; assumption.
    - destruct (negb (valid_states m l)); [split; assumption|].
      destruct (nonempty l); simpl; [|split; assumption].
      split; [split; discriminate | reflexivity].
    - destruct (stShared s) eqn:Es; simpl.
      + assert (Hf : stFinal s = None) by (apply Hsh; reflexivity).
        split; [split; auto | rewrite Hf; reflexivity].
      + split; [|reflexivity]. split; [discriminate|].
        intros Hf. apply Hsh in Hf. congruence.
    - destruct (stFinal s) as [f|] eqn:Ef; simpl.
      + split; [split; discriminate | reflexivity].
      + split; [split; reflexivity | reflexivity].
  Qed.

  Lemma run_cons o ops s : run O m (o :: ops) s = run O m ops (fst (step O m s o)).
  Proof. reflexivity. Qed.

  Lemma run_inv ops : forall s, Inv s -> Inv (run O m ops s).
  Proof.
    induction ops as [|o ops IH]; intros s H; [exact H|].
    rewrite run_cons. apply IH. apply step_inv. exact H.
  Qed.

  (* the current Tr is the one of the last SetParameters (else the initial one) *)
  Lemma step_tr s o : stTr (fst (step O m s o)) = match o with OParams _ tr => tr | _ => stTr s end.
  Proof.
    destruct o as [l|l|pi tr|]; unfold step.
    - destruct (negb (valid_states m l)); [reflexivity|]. destruct (nonempty l); reflexivity.
    - destruct (negb (valid_states m l)); [reflexivity|]. destruct (nonempty l); reflexivity.
    - destruct (stShared s); reflexivity.
    - destruct (stFinal s); reflexivity.
  Qed.
  Lemma run_tr ops : forall s, stTr (run O m ops s) = spec_tr ops (stTr s).
  Proof.
    induction ops as [|o ops IH]; intros s; [reflexivity|].
    rewrite run_cons, IH, step_tr. reflexivity.
  Qed.

  (* the current final-state set is the one of the last accepted non-empty SetFinalStates *)
  Lemma step_final s o :
    stFinal (fst (step O m s o)) =
    match o with OFinal l => if valid_states m l && nonempty l then Some l else stFinal s | _ => stFinal s end.
  Proof.
    destruct o as [l|l|pi tr|]; unfold step.
    - destruct (negb (valid_states m l)); [reflexivity|]. destruct (nonempty l); reflexivity.
    - destruct (valid_states m l); simpl; [|reflexivity]. destruct (nonempty l); reflexivity.
    - destruct (stShared s); reflexivity.
    - destruct (stFinal s); reflexivity.
  Qed.
  Lemma run_final ops : forall s, stFinal (run O m ops s) = spec_final m ops (stFinal s).
  Proof.
    induction ops as [|o ops IH]; intros s; [reflexivity|].
    rewrite run_cons, IH, step_final. reflexivity.
  Qed.

  (* hence Tf after any history, in terms of the history alone *)
  Lemma run_tf ops s : Inv s ->
    stTf (run O m ops s) = tf_of O (spec_tr ops (stTr s)) (spec_final m ops (stFinal s)).
  Proof.
    intros H. destruct (run_inv ops s H) as [_ Htf]. rewrite Htf, run_tr, run_final. reflexivity.
  Qed.

  (* without an accepted SetFinalStates the two matrices stay one *)
  Lemma run_shared ops s : Inv s -> spec_final m ops (stFinal s) = None ->
    stTf (run O m ops s) = stTr (run O m ops s) /\ stShared (run O m ops s) = true.
  Proof.
    intros H Hn. destruct (run_inv ops s H) as [Hsh Htf].
    rewrite run_final in Hsh. rewrite Htf, run_final, Hn. split; [reflexivity|].
    apply Hsh. exact Hn.
  Qed.

  (* ---- inference on the object after any history ---- *)
  Section INFER.
    Variable CS : CSemiring O.
    Variables (rawpi : list A) (rawtr : list (list A)) (ops : list (@sop A)).
    Let s := run O m ops (init O rawpi rawtr).
    Let Pi := vfun O (stPi s).
    Let Tr := mfun O (stTr s).
    (* the final-step matrix the CURRENT parameters call for *)
    Let TfSpec := mfun O (tf_of O (spec_tr ops (make_tr O rawtr)) (spec_final m ops None)).

    Lemma tf_is_spec : mfun O (stTf s) = TfSpec.
    Proof.
      unfold TfSpec, s. rewrite (run_tf ops _ (init_inv rawpi rawtr)). reflexivity.
    Qed.
    Lemma tr_is_spec : stTr s = spec_tr ops (make_tr O rawtr).
    Proof. unfold s. rewrite run_tr. reflexivity. Qed.

    Lemma logpdf_after_history smap e n :
      logpdf O m Pi Tr (mfun O (stTf s)) smap e n = enum_likelihood O m Pi Tr TfSpec smap e n.
    Proof. rewrite tf_is_spec. apply (logpdf_enum O CS). Qed.

    Lemma forward_after_history smap e n k j : k < n -> j < m ->
      at_ O (nth k (forward O m Pi Tr (mfun O (stTf s)) smap e n) []) j =
      esum O (map (fun p => weight O Pi Tr TfSpec smap e n (p ++ [j])) (paths m k)).
    Proof. rewrite tf_is_spec. apply (forward_paths O CS). Qed.

    Lemma backward_after_history smap e n k i : k < n -> i < m ->
      at_ O (nth k (backward O m Tr (mfun O (stTf s)) smap e n) []) i =
      esum O (map (wtail O Tr TfSpec smap e n (S k) i) (paths m (n - 1 - k))).
    Proof. rewrite tf_is_spec. apply (backward_paths O CS). Qed.
  End INFER.

  Section INFERF.
    Variable CF : CSemifield O.
    Variables (rawpi : list A) (rawtr : list (list A)) (ops : list (@sop A)).
    Let s := run O m ops (init O rawpi rawtr).
    Let Pi := vfun O (stPi s).
    Let Tr := mfun O (stTr s).
    Let TfSpec := mfun O (tf_of O (spec_tr ops (make_tr O rawtr)) (spec_final m ops None)).

    Lemma marginals_after_history smap e n : 0 < n ->
      marginals O m Pi Tr (mfun O (stTf s)) smap e n =
      if ois0 O (enum_likelihood O m Pi Tr TfSpec smap e n) then None
      else Some (map (fun k => map (fun i => odiv O (enum_marginal O m Pi Tr TfSpec smap e n k i)
                                                    (enum_likelihood O m Pi Tr TfSpec smap e n)) (seq 0 m)) (seq 0 n)).
    Proof.
      unfold s, TfSpec. rewrite (tf_is_spec rawpi rawtr ops). apply (marginals_spec O CF).
    Qed.

    Lemma posterior_after_history smap e n sts :
      0 < n -> length sts = n ->
      (forall x, In x sts -> NoDup x /\ forall i, In i x -> i < m) ->
      posterior O m Pi Tr (mfun O (stTf s)) smap e n sts =
      if ois0 O (enum_likelihood O m Pi Tr TfSpec smap e n) then PNaN
      else PVal (odiv O (enum_sets O m Pi Tr TfSpec smap e n sts) (enum_likelihood O m Pi Tr TfSpec smap e n)).
    Proof.
      unfold s, TfSpec. rewrite (tf_is_spec rawpi rawtr ops). apply (posterior_enum A O CF).
    Qed.
  End INFERF.
End PSET.

(* Viterbi on the object after any history (exact non-negative rationals) *)
Lemma viterbi_after_history m rawpi rawtr (ops : list (@sop Qc)) smap e n :
  let s := run OpsQc m ops (init OpsQc rawpi rawtr) in
  let Pi := vfun OpsQc (stPi s) in
  let Tr := mfun OpsQc (stTr s) in
  let TfSpec := mfun OpsQc (tf_of OpsQc (spec_tr ops (make_tr OpsQc rawtr)) (spec_final m ops None)) in
  (forall i, 0 <= Pi i)%Qc -> (forall i j, 0 <= Tr i j)%Qc -> (forall i j, 0 <= TfSpec i j)%Qc ->
  (forall c k, 0 <= e c k)%Qc -> 0 < m -> 0 < n ->
  is_path m n (viterbi VOpsQc m Pi Tr (mfun OpsQc (stTf s)) smap e n) /\
  forall q, is_path m n q ->
    (weight OpsQc Pi Tr TfSpec smap e n q <=
     weight OpsQc Pi Tr TfSpec smap e n (viterbi VOpsQc m Pi Tr (mfun OpsQc (stTf s)) smap e n))%Qc.
Proof.
  intros s Pi Tr TfSpec H1 H2 H3 H4 Hm Hn.
  unfold s, TfSpec in *. rewrite (tf_is_spec OpsQc m rawpi rawtr ops).
  apply viterbi_rational; assumption.
Qed.

(* ---- the start-state restriction is NOT derived state: SetParameters overwrites the masked Pi ---- *)
Definition w_ops : list (@sop Qc) :=
  [OStart [0%Z]; OParams [Q2Qc (1 # 4); Q2Qc (3 # 4)] [[Q2Qc (1 # 2); Q2Qc (1 # 2)]; [Q2Qc (1 # 2); Q2Qc (1 # 2)]]].
Definition w_state : @hst Qc := run OpsQc 2 w_ops (init OpsQc [Q2Qc (1 # 2); Q2Qc (1 # 2)] [[1%Qc; 1%Qc]; [1%Qc; 1%Qc]]).
Lemma start_witness :
  stStart w_state = Some [0%Z] /\ zmem 1 [0%Z] = false /\
  Qc_is0 (vfun OpsQc (stPi w_state) 1) = false /\
  (* a path that starts outside the start states has positive weight *)
  Qc_is0 (weight OpsQc (vfun OpsQc (stPi w_state)) (mfun OpsQc (stTr w_state)) (mfun OpsQc (stTf w_state))
                 (fun i => i) (fun _ _ => 1%Qc) 2 [1; 0]) = false.
Proof. vm_compute. repeat split. Qed.
