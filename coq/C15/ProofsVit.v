(* C15 — Viterbi returns a path of maximal joint weight. *)
From Coq Require Import List Arith Bool Lia.
From ADV Require Import C15.Model C15.Spec C15.ProofsFwd.
Import ListNotations.

Section VIT.
  Context {V : Type} (W : VOps V) (le : V -> V -> Prop) (ok : V -> Prop) (VO : VOrder W le ok).
  Variable m : nat.
  Variable Pi : nat -> V.
  Variable Tr Tf : nat -> nat -> V.
  Variable smap : nat -> nat.
  Variable e : nat -> nat -> V.
  Hypothesis okPi : forall i, ok (Pi i).
  Hypothesis okTr : forall i j, ok (Tr i j).
  Hypothesis okTf : forall i j, ok (Tf i j).
  Hypothesis okE : forall c k, ok (e c k).
  Hypothesis mpos : 0 < m.
  Notation "a [+] b" := (vplus W a b) (at level 50, left associativity).
  Notation st := (seq 0 m).
  Notation VW := (vweight W Pi Tr Tf smap e).

  Definition TT (n k : nat) : nat -> nat -> V := if k <? n - 1 then Tr else Tf.
  Lemma okTT n k i j : ok (TT n k i j).
  Proof. unfold TT. destruct (k <? n - 1); auto. Qed.

  (* ---- argmax ---- *)
  Definition amstep (f : nat -> V) (pv : nat * V) (i : nat) : nat * V :=
    let v := f i in if vgt W v (snd pv) then (i, v) else pv.

  Lemma argmax_unfold f : argmax W m f = fold_left (amstep f) st (0, vninf W).
  Proof. reflexivity. Qed.

  Lemma am_upper f : forall l pv,
    le (snd pv) (snd (fold_left (amstep f) l pv)) /\
    forall i, In i l -> le (f i) (snd (fold_left (amstep f) l pv)).
  Proof.
    induction l as [|a l IH]; intros pv; simpl.
    - split; [apply (le_refl W le ok VO)|intros i []].
    - unfold amstep at 2 4. cbv zeta. destruct (vgt W (f a) (snd pv)) eqn:G.
      + destruct (IH (a, f a)) as [H1 H2]. simpl in H1. split.
        * eapply (le_trans W le ok VO); [apply (gt_true W le ok VO); exact G|exact H1].
        * intros i [<-|Hi]; [exact H1|apply H2; exact Hi].
      + destruct (IH pv) as [H1 H2]. split; [exact H1|].
        intros i [<-|Hi]; [|apply H2; exact Hi].
        eapply (le_trans W le ok VO); [apply (gt_false W le ok VO); exact G|exact H1].
  Qed.

  Lemma am_inv f : forall l pv,
    fold_left (amstep f) l pv = pv \/
    (In (fst (fold_left (amstep f) l pv)) l /\ snd (fold_left (amstep f) l pv) = f (fst (fold_left (amstep f) l pv))).
  Proof.
    induction l as [|a l IH]; intros pv; [left; reflexivity|].
    cbn [fold_left].
    assert (S : amstep f pv a = pv \/ amstep f pv a = (a, f a)).
    { unfold amstep. cbv zeta. destruct (vgt W (f a) (snd pv)); auto. }
    destruct S as [S|S]; rewrite S.
    - destruct (IH pv) as [E|[H1 H2]]; [left; exact E|right; split; [right; exact H1|exact H2]].
    - destruct (IH (a, f a)) as [E|[H1 H2]].
      + right. rewrite E. simpl. auto.
      + right. split; [right; exact H1|exact H2].
  Qed.

  Lemma argmax_upper f i : i < m -> le (f i) (snd (argmax W m f)).
  Proof. intros H. rewrite argmax_unfold. apply am_upper. apply in_seq. lia. Qed.

  Lemma argmax_fst_lt f : fst (argmax W m f) < m.
  Proof.
    rewrite argmax_unfold. destruct (am_inv f st (0, vninf W)) as [E|[H _]].
    - rewrite E. exact mpos.
    - apply in_seq in H. lia.
  Qed.

  Lemma argmax_attained f : ok (f 0) -> le (snd (argmax W m f)) (f (fst (argmax W m f))).
  Proof.
    intros H0. rewrite argmax_unfold. destruct (am_inv f st (0, vninf W)) as [E|[_ H]].
    - rewrite E. simpl. apply (ninf_least W le ok VO). exact H0.
    - rewrite H. apply (le_refl W le ok VO).
  Qed.

  Lemma argmax_ok f : (forall i, ok (f i)) -> ok (snd (argmax W m f)).
  Proof.
    intros H. rewrite argmax_unfold. destruct (am_inv f st (0, vninf W)) as [E|[_ E]]; rewrite E.
    - apply (ok_ninf W le ok VO).
    - apply H.
  Qed.

  Lemma am_ext f g : forall l pv, (forall i, In i l -> f i = g i) ->
    fold_left (amstep f) l pv = fold_left (amstep g) l pv.
  Proof.
    induction l as [|a l IH]; intros pv H; [reflexivity|]. simpl.
    unfold amstep at 2 4. rewrite (H a) by (left; reflexivity).
    apply IH. intros i Hi. apply H. right. exact Hi.
  Qed.
  Lemma argmax_ext f g : (forall i, i < m -> f i = g i) -> argmax W m f = argmax W m g.
  Proof. intros H. rewrite !argmax_unfold. apply am_ext. intros i Hi. apply H. apply in_seq in Hi. lia. Qed.

  (* ---- the tables as functions ---- *)
  Fixpoint T1 (n k j : nat) : V :=
    match k with
    | 0 => Pi j [+] e (smap j) 0
    | S k' => snd (argmax W m (fun i => T1 n k' i [+] TT n k i j)) [+] e (smap j) k
    end.
  Definition BP (n k j : nat) : nat :=
    match k with
    | 0 => 0
    | S k' => fst (argmax W m (fun i => T1 n k' i [+] TT n k i j))
    end.
  Fixpoint bt (n k j : nat) : list nat :=
    match k with
    | 0 => [j]
    | S k' => bt n k' (BP n k j) ++ [j]
    end.

  Lemma ok_T1 n k j : ok (T1 n k j).
  Proof.
    revert j. induction k as [|k IH]; intros j; simpl.
    - apply (ok_plus W le ok VO); auto.
    - apply (ok_plus W le ok VO); [|auto]. apply argmax_ok. intros i.
      apply (ok_plus W le ok VO); [apply IH|apply okTT].
  Qed.

  Lemma BP_lt n k j : BP n k j < m.
  Proof. destruct k; simpl; [exact mpos|apply argmax_fst_lt]. Qed.

  (* ---- weights of extended prefixes ---- *)
  Lemma vwfrom_snoc n r : forall k prev acc j,
    vwfrom W Tr Tf smap e n k prev acc (r ++ [j]) =
    vwfrom W Tr Tf smap e n k prev acc r [+] TT n (k + length r) (last r prev) j [+] e (smap j) (k + length r).
  Proof.
    induction r as [|y r IH]; intros k prev acc j.
    - simpl. rewrite Nat.add_0_r. reflexivity.
    - change ((y :: r) ++ [j]) with (y :: (r ++ [j])). cbn [vwfrom]. rewrite IH.
      rewrite last_cons_def. replace (k + length (y :: r)) with (S k + length r) by (simpl; lia).
      reflexivity.
  Qed.

  Lemma vweight_snoc n q i j :
    VW n ((q ++ [i]) ++ [j]) = VW n (q ++ [i]) [+] TT n (S (length q)) i j [+] e (smap j) (S (length q)).
  Proof.
    destruct q as [|x0 r].
    - reflexivity.
    - change (((x0 :: r) ++ [i]) ++ [j]) with (x0 :: ((r ++ [i]) ++ [j])).
      change ((x0 :: r) ++ [i]) with (x0 :: (r ++ [i])). cbn [vweight].
      rewrite vwfrom_snoc. rewrite last_last, app_length. simpl.
      replace (S (length r + 1)) with (S (S (length r))) by lia. reflexivity.
  Qed.

  (* ---- T1 bounds every prefix from above ... ---- *)
  Lemma T1_upper n : forall k q j, length q = k -> Forall (fun x => x < m) q -> j < m ->
    le (VW n (q ++ [j])) (T1 n k j).
  Proof.
    induction k as [|k IH]; intros q j Hl Hb Hj.
    - destruct q; [|discriminate]. simpl. apply (le_refl W le ok VO).
    - destruct (exists_last (l := q)) as [q' [i ->]]; [destruct q; [discriminate|discriminate]|].
      rewrite app_length in Hl. simpl in Hl.
      apply Forall_app in Hb. destruct Hb as [Hb Hi]. inversion Hi; subst.
      rewrite vweight_snoc. replace (length q') with k by lia. simpl.
      apply (plus_mono_l W le ok VO); [apply okE|].
      eapply (le_trans W le ok VO).
      + apply (plus_mono_l W le ok VO); [apply okTT|]. apply IH; [lia|assumption|assumption].
      + apply (argmax_upper (fun i0 => T1 n k i0 [+] TT n (S k) i0 j)). assumption.
  Qed.

  (* ---- ... and the back-traced path attains it ---- *)
  Lemma bt_len n : forall k j, length (bt n k j) = S k.
  Proof.
    induction k as [|k IH]; intros j; [reflexivity|]. simpl. rewrite app_length, IH. simpl. lia.
  Qed.
  Lemma bt_shape n : forall k j, exists r, bt n k j = r ++ [j] /\ length r = k.
  Proof.
    destruct k as [|k]; intros j.
    - exists []. split; reflexivity.
    - exists (bt n k (BP n (S k) j)). split; [reflexivity|apply bt_len].
  Qed.

  Lemma bt_length n k j : length (bt n k j) = S k.
  Proof. destruct (bt_shape n k j) as [r [-> H]]. rewrite app_length. simpl. lia. Qed.

  Lemma bt_bound n : forall k j, j < m -> Forall (fun x => x < m) (bt n k j).
  Proof.
    induction k as [|k IH]; intros j Hj; cbn [bt].
    - constructor; [exact Hj|constructor].
    - apply Forall_app. split; [apply IH; apply BP_lt|constructor; [exact Hj|constructor]].
  Qed.

  Lemma T1_attained n : forall k j, le (T1 n k j) (VW n (bt n k j)).
  Proof.
    induction k as [|k IH]; intros j.
    - simpl. apply (le_refl W le ok VO).
    - cbn [bt]. destruct (bt_shape n k (BP n (S k) j)) as [r [E Hr]]. rewrite E.
      rewrite vweight_snoc, Hr. rewrite <- E. cbn [T1].
      apply (plus_mono_l W le ok VO); [apply okE|].
      eapply (le_trans W le ok VO).
      + apply (argmax_attained (fun i => T1 n k i [+] TT n (S k) i j)).
        apply (ok_plus W le ok VO); [apply ok_T1|apply okTT].
      + apply (plus_mono_l W le ok VO); [apply okTT|]. apply IH.
  Qed.

  (* ---- the model's tables are these functions ---- *)
  Definition colfn (n k : nat) : list (V * nat) := map (fun j => (T1 n k j, BP n k j)) st.

  Lemma vat_col n k i : i < m -> vat W (map (T1 n k) st) i = T1 n k i.
  Proof. intros H. unfold vat. apply nth_map_seq. exact H. Qed.

  Lemma vstep_eq n k : vstep W m smap e (TT n (S k)) (map (T1 n k) st) (S k) = colfn n (S k).
  Proof.
    unfold vstep, colfn. apply map_ext. intros j. cbv zeta.
    rewrite (argmax_ext (fun i => vat W (map (T1 n k) st) i [+] TT n (S k) i j) (fun i => T1 n k i [+] TT n (S k) i j))
      by (intros i Hi; rewrite vat_col by exact Hi; reflexivity).
    reflexivity.
  Qed.

  Lemma colfn_fst n k : map fst (colfn n k) = map (T1 n k) st.
  Proof. unfold colfn. rewrite map_map. reflexivity. Qed.

  Lemma vloop_eq n cnt : forall k0,
    vloop W m Tr Tf smap e cnt (S k0) n (map (T1 n k0) st) = map (colfn n) (seq (S k0) cnt).
  Proof.
    induction cnt as [|c IH]; intros k0; [reflexivity|].
    cbn [vloop seq map]. change (if S k0 <? n - 1 then Tr else Tf) with (TT n (S k0)).
    rewrite vstep_eq, colfn_fst, IH. reflexivity.
  Qed.

  Lemma vback_eq n c : forall cur, cur < m ->
    rev (cur :: vback W cur (rev (map (colfn n) (seq 1 c)))) = bt n c cur.
  Proof.
    induction c as [|c IH]; intros cur Hc; [reflexivity|].
    rewrite seq_S, map_app, rev_app_distr. cbn [map rev app vback].
    assert (E : snd (nth cur (colfn n (1 + c)) (vninf W, 0)) = BP n (S c) cur).
    { unfold colfn. rewrite nth_map_seq by exact Hc. reflexivity. }
    rewrite E. change (rev (cur :: ?l)) with (rev l ++ [cur]).
    cbn [rev]. cbn [rev] in IH. rewrite (IH (BP n (S c) cur)) by apply BP_lt. reflexivity.
  Qed.

  Definition ipos (n : nat) : nat := fst (argmax W m (T1 n (n - 1))).

  Lemma viterbi_eq n : 0 < n -> viterbi W m Pi Tr Tf smap e n = bt n (n - 1) (ipos n).
  Proof.
    intros Hn. destruct n as [|c]; [lia|]. unfold viterbi, vtables.
    replace (S c - 1) with c by lia.
    change (vcol0 W m Pi smap e) with (map (T1 (S c) 0) st).
    rewrite vloop_eq.
    assert (EL : last (map (map fst) (map (colfn (S c)) (seq 1 c))) (map (T1 (S c) 0) st) = map (T1 (S c) c) st).
    { destruct c as [|c']; [reflexivity|]. rewrite seq_S, !map_app. simpl. rewrite last_last. apply colfn_fst. }
    rewrite EL.
    rewrite (argmax_ext (fun i => vat W (map (T1 (S c) c) st) i) (T1 (S c) c))
      by (intros i Hi; apply vat_col; exact Hi).
    unfold ipos. replace (S c - 1) with c by lia.
    apply vback_eq. apply argmax_fst_lt.
  Qed.

  (* ---- main theorem ---- *)
  Lemma viterbi_is_path n : 0 < n ->
    length (viterbi W m Pi Tr Tf smap e n) = n /\ Forall (fun x => x < m) (viterbi W m Pi Tr Tf smap e n).
  Proof.
    intros Hn. rewrite viterbi_eq by exact Hn. split.
    - rewrite bt_length. lia.
    - apply bt_bound. apply argmax_fst_lt.
  Qed.

  Lemma viterbi_optimal n q : 0 < n -> length q = n -> Forall (fun x => x < m) q ->
    le (VW n q) (VW n (viterbi W m Pi Tr Tf smap e n)).
  Proof.
    intros Hn Hl Hb. rewrite viterbi_eq by exact Hn.
    destruct (exists_last (l := q)) as [q' [j ->]]; [destruct q; [simpl in Hl; lia|discriminate]|].
    rewrite app_length in Hl. simpl in Hl.
    apply Forall_app in Hb. destruct Hb as [Hb Hj]. inversion Hj as [|? ? Hjm _]. clear Hj.
    eapply (le_trans W le ok VO); [apply (T1_upper n (n - 1)); [lia|assumption|assumption]|].
    eapply (le_trans W le ok VO); [apply (argmax_upper (T1 n (n - 1))); assumption|].
    eapply (le_trans W le ok VO); [apply (argmax_attained (T1 n (n - 1))); apply ok_T1|].
    apply T1_attained.
  Qed.
End VIT.
