(* Executable sanity tests of the C15 specification against the model (tests,
   not proofs: they guard the statements in Props.v against typos). *)
From Coq Require Import List Arith Bool ZArith QArith Qcanon.
From ADV Require Import C15.Model C15.Spec.
Import ListNotations.
Open Scope nat_scope.

Definition q (a b : Z) : Qc := Q2Qc (a # Z.to_pos b).
Definition tPi (i : nat) : Qc := nth i [q 1 4; q 3 4; 0%Qc] 0%Qc.
Definition tTr (i j : nat) : Qc := nth j (nth i [[q 1 2; q 1 2; 0%Qc]; [q 1 4; 0%Qc; q 3 4]; [0%Qc; 0%Qc; 1%Qc]] []) 0%Qc.
Definition tTf (i j : nat) : Qc := nth j (nth i [[1%Qc; 0%Qc; 0%Qc]; [1%Qc; 0%Qc; 0%Qc]; [0%Qc; 0%Qc; 1%Qc]] []) 0%Qc.
Definition tmap (i : nat) : nat := nth i [0; 1; 0] 0.
Definition te (c k : nat) : Qc := nth k (nth c [[q 1 2; q 1 4; 1%Qc; q 3 8]; [q 1 8; q 1 2; q 1 2; 0%Qc]] []) 0%Qc.

Definition qeq (a b : Qc) : bool := Qeq_bool a b.

Example t_logpdf : forallb (fun n => qeq (logpdf OpsQc 3 tPi tTr tTf tmap te n)
                                       (enum_likelihood OpsQc 3 tPi tTr tTf tmap te n)) [0; 1; 2; 3; 4] = true.
Proof. vm_compute. reflexivity. Qed.

Example t_alpha : forallb (fun kj =>
    qeq (at_ OpsQc (nth (fst kj) (forward OpsQc 3 tPi tTr tTf tmap te 4) []) (snd kj))
        (alpha_spec OpsQc 3 tPi tTr tTf tmap te 4 (fst kj) (snd kj)) &&
    qeq (at_ OpsQc (nth (fst kj) (backward OpsQc 3 tTr tTf tmap te 4) []) (snd kj))
        (beta_spec OpsQc 3 tTr tTf tmap te 4 (fst kj) (snd kj)))
    (list_prod [0; 1; 2; 3] [0; 1; 2]) = true.
Proof. vm_compute. reflexivity. Qed.

Example t_marg : forallb (fun ki =>
    qeq (alpha_spec OpsQc 3 tPi tTr tTf tmap te 4 (fst ki) (snd ki) * beta_spec OpsQc 3 tTr tTf tmap te 4 (fst ki) (snd ki))%Qc
        (enum_marginal OpsQc 3 tPi tTr tTf tmap te 4 (fst ki) (snd ki)))
    (list_prod [0; 1; 2; 3] [0; 1; 2]) = true.
Proof. vm_compute. reflexivity. Qed.

(* Viterbi on (max, x): the returned path attains the enumerated maximum *)
Example t_viterbi :
  let p := viterbi VOpsQc 3 tPi tTr tTf tmap te 4 in
  forallb (fun r => match (vweight VOpsQc tPi tTr tTf tmap te 4 r ?= vweight VOpsQc tPi tTr tTf tmap te 4 p)%Qc with
                    | Gt => false | _ => true end) (paths 3 4) = true /\ length p = 4.
Proof. vm_compute. split; reflexivity. Qed.

Example t_vweight : forallb (fun r => qeq (vweight VOpsQc tPi tTr tTf tmap te 4 r) (weight OpsQc tPi tTr tTf tmap te 4 r))
                            (paths 3 4) = true.
Proof. vm_compute. reflexivity. Qed.
