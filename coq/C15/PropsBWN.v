(* C15 round 6 — property theorems for the re-normalisation hmm1.normalize at the end of a Baum-Welch
   step (statistics/generic/hmm_baumWelch.go, merge + normalize; model: ModelBuf.bw_new_pi /
   bw_new_tr applied to the expected counts of Props.baum_welch_expected_counts_are_enumerated).
   Statements only; proofs in ProofsBWN.v. *)
From Coq Require Import List Arith Bool ZArith QArith Qcanon.
From ADV Require Import C15.Model C15.ModelBuf C15.ModelSet C15.Spec C15.Proofs C15.ProofsBWN.
Import ListNotations.
Open Scope nat_scope.

(* the re-estimated start vector: fails iff the expected start counts have no mass on the start
   states; otherwise it sums to one, entry i is count(i) / total over the start states, and it is
   zero outside them *)
Theorem baum_welch_new_pi_is_a_distribution_on_the_start_states :
  forall A (O : Ops A), CSemifield O -> forall (acc : list A) (start : list Z),
    let masked := match start with [] => acc | _ => mask_vec O start acc end in
    (bw_new_pi O acc start = None <-> ois0 O (lsum O masked) = true) /\
    forall p, bw_new_pi O acc start = Some p ->
      esum O p = o1 O /\
      (forall i, i < length acc ->
         nth i p (o0 O) =
         odiv O (if match start with [] => true | _ => zmem i start end then nth i acc (o0 O) else o0 O) (lsum O masked)) /\
      (forall i, i < length acc -> start <> [] -> zmem i start = false -> nth i p (o0 O) = o0 O).
Proof.
  exact (fun A O CF acc start =>
           conj (bw_new_pi_none O acc start)
                (fun p E => conj (bw_new_pi_sum O CF acc start p E)
                                 (conj (fun i Hi => bw_new_pi_entry O acc start p i E Hi)
                                       (fun i Hi Hs Hz => bw_new_pi_outside O CF acc start p i E Hi Hs Hz)))).
Qed.

(* the re-estimated transition matrix: a row with mass is divided by its total and sums to one; a row
   without mass (a state that was never left) becomes a self loop, as HmmTransitionMatrix.Normalize codes it *)
Theorem baum_welch_new_tr_rows_are_distributions :
  forall A (O : Ops A), CSemifield O -> forall (acc : list (list A)) i, i < length acc ->
    let row := nth i acc [] in
    if ois0 O (lsum O row)
    then nth i (bw_new_tr O acc) [] = upd row i (o1 O)
    else esum O (nth i (bw_new_tr O acc) []) = o1 O /\
         forall j, j < length row -> nth j (nth i (bw_new_tr O acc) []) (o0 O) = odiv O (nth j row (o0 O)) (lsum O row).
Proof. exact (fun A O CF acc i => bw_new_tr_spec O CF acc i). Qed.

(* non-trivial instance: counts (3/2, 1/2, 1) restricted to the start states {0, 2}; a count matrix with a zero row *)
Example baum_welch_normalize_instance :
  let q := fun a b => Q2Qc (Z.of_nat a # Pos.of_nat b) in
  match bw_new_pi OpsQc [q 3 2; q 1 2; q 1 1] [0%Z; 2%Z] with Some p => map this p | None => [] end = [3 # 5; 0 # 1; 2 # 5]%Q /\
  bw_new_pi OpsQc [0%Qc; q 1 2; 0%Qc] [0%Z; 2%Z] = None /\
  map (map this) (bw_new_tr OpsQc [[q 1 2; q 3 2]; [0%Qc; 0%Qc]]) = [[1 # 4; 3 # 4]; [0 # 1; 1 # 1]]%Q.
Proof. repeat split; vm_compute; reflexivity. Qed.
