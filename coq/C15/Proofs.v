(* C15 — lemmas: this file only gathers the proof files. *)
From ADV Require Export C15.ProofsSum C15.ProofsFwd C15.ProofsBwd C15.ProofsOpt C15.ProofsVit
  C15.ProofsVitInst C15.ProofsMix C15.ProofsLog C15.ProofsTop C15.ProofsBuf C15.ProofsPost C15.ProofsBW C15.ProofsTop2.
