(* C15 (round 2) — one Baum-Welch step: the quantities accumulated by
   baumWelchThread (gamma and xi, hmm_baumWelch.go:55-139), computed from alpha
   and beta on the REUSED work matrices of the thread, are the posterior
   expectations obtained by explicit enumeration of the hidden paths. *)
From Coq Require Import List Arith Bool Lia Ring.
From ADV Require Import C15.Model C15.ModelBuf C15.Spec C15.ProofsSum C15.ProofsFwd C15.ProofsBwd C15.ProofsBuf.
Import ListNotations.

Section PAIR.
  Context {A : Type} (O : Ops A) (CS : CSemiring O).
  Variable m : nat.
  Variable Pi : nat -> A.
  Variable Tr Tf : nat -> nat -> A.
  Variable smap : nat -> nat.
  Variable e : nat -> nat -> A.
  Notation "a (+) b" := (oadd O a b) (at level 50, left associativity).
  Notation "a (x) b" := (omul O a b) (at level 40, left associativity).
  Notation zero := (o0 O).
  Notation one := (o1 O).
  Notation sum := (esum O).
  Notation W := (weight O Pi Tr Tf smap e).
  Notation WT := (wtail O Tr Tf smap e).
  Notation TK := (Tk Tr Tf).
  Notation st := (seq 0 m).
  Notation AS := (alpha_spec O m Pi Tr Tf smap e).
  Notation BS := (beta_spec O m Tr Tf smap e).
  Notation EM := (enum_marginal O m Pi Tr Tf smap e).
  Notation EP := (enum_pair O m Pi Tr Tf smap e).
  Notation EL := (enum_likelihood O m Pi Tr Tf smap e).

  Add Ring srw : (srt O CS).

  Lemma nth_snoc_next (p : list nat) a b q d : nth (S (length p)) ((p ++ [a]) ++ b :: q) d = b.
  Proof.
    rewrite app_nth2 by (rewrite app_length; simpl; lia).
    rewrite app_length. cbn [length]. replace (S (length p) - (length p + 1)) with 0 by lia. reflexivity.
  Qed.

  (* alpha(i,k) T(i,j) e(j,k+1) beta(j,k+1) is the total weight of the paths with
     x_k = i and x_{k+1} = j *)
  Lemma xi_pair n k i j : k + 2 <= n -> i < m -> j < m ->
    AS n k i (x) (TK n (S k) i j (x) e (smap j) (S k) (x) BS n (S k) j) = EP n k i j.
  Proof.
    intros Hk Hi Hj. unfold enum_pair. rewrite (esum_filter O CS).
    replace n with ((k + 1) + S (n - 2 - k)) at 4 by lia.
    rewrite paths_add, map_flat_map, (esum_flat_map O CS).
    rewrite paths_snoc, map_flat_map, (esum_flat_map O CS).
    unfold alpha_spec. rewrite <- (esum_mul_r O CS). apply (esum_ext O). intros p Hp.
    pose proof (paths_length m k p Hp) as Hl.
    rewrite map_map.
    rewrite (esum_ext O _ (fun a => if a =? i then W n (p ++ [a]) (x) (TK n (S k) i j (x) e (smap j) (S k) (x) BS n (S k) j) else zero)).
    - rewrite (esum_pick O CS (fun a => W n (p ++ [a]) (x) (TK n (S k) i j (x) e (smap j) (S k) (x) BS n (S k) j))) by lia.
      reflexivity.
    - intros a _. rewrite map_map. cbn [paths]. rewrite map_flat_map, (esum_flat_map O CS).
      rewrite (esum_ext O _ (fun b => if b =? j then (if a =? i then W n (p ++ [a]) (x) (TK n (S k) a b (x) e (smap b) (S k) (x) BS n (S k) b) else zero) else zero)).
      + rewrite (esum_pick O CS (fun b => if a =? i then W n (p ++ [a]) (x) (TK n (S k) a b (x) e (smap b) (S k) (x) BS n (S k) b) else zero)) by lia.
        destruct (Nat.eqb_spec a i) as [->|]; reflexivity.
      + intros b _. rewrite map_map.
        rewrite (esum_ext O _ (fun q => if (a =? i) && (b =? j)
                                       then W n (p ++ [a]) (x) (TK n (S k) a b (x) e (smap b) (S k)) (x) WT n (S (S k)) b q else zero)).
        * destruct (a =? i), (b =? j); cbn [andb]; try apply (esum_zero O CS).
          rewrite (esum_mul_l O CS). unfold beta_spec.
          replace (n - 1 - S k) with (n - 2 - k) by lia. ring.
        * intros q _. rewrite <- Hl at 1. rewrite nth_snoc_mid. rewrite <- Hl at 1. rewrite nth_snoc_next.
          destruct ((a =? i) && (b =? j)); [|reflexivity].
          rewrite (weight_split O CS), Hl. cbn [wtail]. ring.
  Qed.

  (* the normalisation constant of xi is the likelihood *)
  Lemma xi_total n k : k + 2 <= n ->
    sum (map (fun i => sum (map (fun j => AS n k i (x) (TK n (S k) i j (x) e (smap j) (S k) (x) BS n (S k) j)) st)) st) = EL n.
  Proof.
    intros Hk.
    rewrite (esum_ext O _ (fun i => EM n k i)).
    - apply (marginal_total O CS). lia.
    - intros i Hi. apply in_seq in Hi. rewrite (esum_mul_l O CS).
      rewrite <- (beta_spec_step O CS) by lia. apply (alpha_beta O CS); lia.
  Qed.

  (* summing the pair weights over the successor gives the marginal *)
  Lemma pair_marginal n k i : k + 2 <= n -> i < m -> sum (map (EP n k i) st) = EM n k i.
  Proof.
    intros Hk Hi.
    rewrite (esum_ext O _ (fun j => AS n k i (x) (TK n (S k) i j (x) e (smap j) (S k) (x) BS n (S k) j))).
    - rewrite (esum_mul_l O CS), <- (beta_spec_step O CS) by lia. apply (alpha_beta O CS); lia.
    - intros j Hj. apply in_seq in Hj. symmetry. apply xi_pair; lia.
  Qed.
End PAIR.

(* ---- the per-record quantities of baumWelchThread on reused work matrices ---- *)
Section BWREC.
  Context {A : Type} (O : Ops A) (CF : CSemifield O).
  Let CS := sf_semiring O CF.
  Variable m ne : nat.
  Variable Pi : nat -> A.
  Variable Tr Tf : nat -> nat -> A.
  Variable smap : nat -> nat.
  Variable e : nat -> nat -> A.
  Notation "a (+) b" := (oadd O a b) (at level 50, left associativity).
  Notation "a (x) b" := (omul O a b) (at level 40, left associativity).
  Notation zero := (o0 O).
  Notation sum := (esum O).
  Notation TK := (Tk Tr Tf).
  Notation st := (seq 0 m).
  Notation AS := (alpha_spec O m Pi Tr Tf smap e).
  Notation BS := (beta_spec O m Tr Tf smap e).
  Notation EM := (enum_marginal O m Pi Tr Tf smap e).
  Notation EP := (enum_pair O m Pi Tr Tf smap e).
  Notation EL := (enum_likelihood O m Pi Tr Tf smap e).

  Add Ring srr : (srt O CS).

  (* alpha and beta of the record, computed on top of ARBITRARY prior content *)
  Variable alpha0 beta0 : @mat A.
  Variable n : nat.
  Notation al := (oforward_buf O m Pi Tr Tf smap e alpha0 n).
  Notation be := (obackward_buf O m Tr Tf smap e beta0 n).

  Lemma al_cell i k : k < n -> i < m -> al i k = AS n k i.
  Proof.
    intros Hk Hi. rewrite oforward_buf_eq, (forward_buf_paths O CS).
    apply Nat.ltb_lt in Hk, Hi. rewrite Hk, Hi. reflexivity.
  Qed.
  Lemma be_cell i k : k < n -> i < m -> be i k = BS n k i.
  Proof.
    intros Hk Hi. rewrite obackward_buf_eq, (backward_buf_paths O CS).
    apply Nat.ltb_lt in Hk, Hi. rewrite Hk, Hi. reflexivity.
  Qed.

  Lemma lsum_esum l : lsum O l = sum l.
  Proof. unfold lsum. rewrite (fold_left_esum0 O CS (fun x => x)). rewrite map_id. reflexivity. Qed.

  (* gamma: an error iff the likelihood is zero, else the enumerated posterior marginals *)
  Theorem bw_gcol_spec k : k < n ->
    bw_gcol O m al be k =
    if ois0 O (EL n) then None else Some (map (fun i => odiv O (EM n k i) (EL n)) st).
  Proof.
    intros Hk. unfold bw_gcol.
    assert (E : map (fun i => al i k (x) be i k) st = map (EM n k) st).
    { apply map_ext_in. intros i Hi. apply in_seq in Hi.
      rewrite al_cell, be_cell by lia. apply (alpha_beta O CS); lia. }
    rewrite E, lsum_esum, (marginal_total O CS) by exact Hk.
    destruct (ois0 O (EL n)); [reflexivity|]. rewrite map_map. reflexivity.
  Qed.

  (* xi: the unnormalised entry is the pair weight (whenever the transition used
     by the code, Tr, is the one of the model at that position) ... *)
  Theorem bw_xi_spec k i j : k + 2 <= n -> i < m -> j < m -> TK n (S k) i j = Tr i j ->
    bw_xi O Tr smap al be e k i j = EP n k i j.
  Proof.
    intros Hk Hi Hj HT. unfold bw_xi. rewrite al_cell, be_cell by lia.
    rewrite <- (xi_pair O CS) by lia. rewrite HT. replace (k + 1) with (S k) by lia. ring.
  Qed.

  (* ... and its normalisation constant is the likelihood *)
  Theorem bw_xiz_spec k : k + 2 <= n -> (forall i j, i < m -> j < m -> TK n (S k) i j = Tr i j) ->
    bw_xiz O m Tr smap al be e k = EL n.
  Proof.
    intros Hk HT. unfold bw_xiz.
    assert (G : forall l z, fold_left (fun z i => fold_left (fun z j => z (+) bw_xi O Tr smap al be e k i j) st z) l z =
                            z (+) sum (map (fun i => sum (map (fun j => bw_xi O Tr smap al be e k i j) st)) l)).
    { assert (Hc : forall a l, sum (a :: l) = a (+) sum l) by reflexivity.
      induction l as [|i l IH]; intros z; cbn [fold_left map].
      - change (sum []) with zero. ring.
      - rewrite IH, Hc. rewrite (fold_left_esum O CS). rewrite (add_assoc O CS). reflexivity. }
    rewrite G. rewrite (add_0_l O CS).
    rewrite <- (xi_total O CS m Pi Tr Tf smap e n k Hk).
    apply (esum_ext O). intros i Hi. apply (esum_ext O). intros j Hj. apply in_seq in Hi, Hj.
    rewrite bw_xi_spec by (auto; try lia; apply HT; lia).
    symmetry. apply (xi_pair O CS); lia.
  Qed.

  (* the likelihood summed from the last column of the reused alpha *)
  Theorem bw_lik_spec : 0 < n -> lsum O (map (fun i => al i (n - 1)) st) = EL n.
  Proof.
    intros Hn. rewrite lsum_esum.
    rewrite (esum_ext O _ (AS n (n - 1))) by (intros i Hi; apply in_seq in Hi; apply al_cell; lia).
    apply (alpha_total O CS). lia.
  Qed.
End BWREC.
