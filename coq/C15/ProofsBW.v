(* C15 (round 2) — one Baum-Welch step: the quantities accumulated by
   baumWelchThread (gamma and xi, hmm_baumWelch.go:55-139), computed from alpha
   and beta on the REUSED work matrices of the thread, are the posterior
   expectations obtained by explicit enumeration of the hidden paths. *)
From Coq Require Import List Arith Bool Lia Ring.
From ADV Require Import C15.Model C15.ModelBuf C15.Spec C15.ProofsSum C15.ProofsFwd C15.ProofsBwd C15.ProofsBuf.
Import ListNotations.

Section PAIR.
  Context {A : Type} (O : Ops A) (CS : CSemiring O).
  Variable m : nat.
  Variable Pi : nat -> A.
  Variable Tr Tf : nat -> nat -> A.
  Variable smap : nat -> nat.
  Variable e : nat -> nat -> A.
  Notation "a (+) b" := (oadd O a b) (at level 50, left associativity).
  Notation "a (x) b" := (omul O a b) (at level 40, left associativity).
  Notation zero := (o0 O).
  Notation one := (o1 O).
  Notation sum := (esum O).
  Notation W := (weight O Pi Tr Tf smap e).
  Notation WT := (wtail O Tr Tf smap e).
  Notation TK := (Tk Tr Tf).
  Notation st := (seq 0 m).
  Notation AS := (alpha_spec O m Pi Tr Tf smap e).
  Notation BS := (beta_spec O m Tr Tf smap e).
  Notation EM := (enum_marginal O m Pi Tr Tf smap e).
  Notation EP := (enum_pair O m Pi Tr Tf smap e).
  Notation EL := (enum_likelihood O m Pi Tr Tf smap e).

  Add Ring srw : (srt O CS).

  Lemma nth_snoc_next (p : list nat) a b q d : nth (S (length p)) ((p ++ [a]) ++ b :: q) d = b.
  Proof.
    rewrite app_nth2 by (rewrite app_length; simpl; lia).
    rewrite app_length. cbn [length]. replace (S (length p) - (length p + 1)) with 0 by lia. reflexivity.
  Qed.

  (* alpha(i,k) T(i,j) e(j,k+1) beta(j,k+1) is the total weight of the paths with
     x_k = i and x_{k+1} = j *)
  Lemma xi_pair n k i j : k + 2 <= n -> i < m -> j < m ->
    AS n k i (x) (TK n (S k) i j (x) e (smap j) (S k) (x) BS n (S k) j) = EP n k i j.
  Proof.
    intros Hk Hi Hj. unfold enum_pair. rewrite (esum_filter O CS).
    replace n with ((k + 1) + S (n - 2 - k)) at 4 by lia.
    rewrite paths_add, map_flat_map, (esum_flat_map O CS).
    rewrite paths_snoc, map_flat_map, (esum_flat_map O CS).
    unfold alpha_spec. rewrite <- (esum_mul_r O CS). apply (esum_ext O). intros p Hp.
    pose proof (paths_length m k p Hp) as Hl.
    rewrite map_map.
    rewrite (esum_ext O _ (fun a => if a =? i then W n (p ++ [a]) (x) (TK n (S k) i j (x) e (smap j) (S k) (x) BS n (S k) j) else zero)).
    - rewrite (esum_pick O CS (fun a => W n (p ++ [a]) (x) (TK n (S k) i j (x) e (smap j) (S k) (x) BS n (S k) j))) by lia.
      reflexivity.
    - intros a _. rewrite map_map. cbn [paths]. rewrite map_flat_map, (esum_flat_map O CS).
      rewrite (esum_ext O _ (fun b => if b =? j then (if a =? i then W n (p ++ [a]) (x) (TK n (S k) a b (x) e (smap b) (S k) (x) BS n (S k) b) else zero) else zero)).
      + rewrite (esum_pick O CS (fun b => if a =? i then W n (p ++ [a]) (x) (TK n (S k) a b (x) e (smap b) (S k) (x) BS n (S k) b) else zero)) by lia.
        destruct (Nat.eqb_spec a i) as [->|]; reflexivity.
      + intros b _. rewrite map_map.
        rewrite (esum_ext O _ (fun q => if (a =? i) && (b =? j)
                                       then W n (p ++ [a]) (x) (TK n (S k) a b (x) e (smap b) (S k)) (x) WT n (S (S k)) b q else zero)).
        * destruct (a =? i), (b =? j); cbn [andb]; try apply (esum_zero O CS).
          rewrite (esum_mul_l O CS). unfold beta_spec.
          replace (n - 1 - S k) with (n - 2 - k) by lia. ring.
        * intros q _. rewrite <- Hl at 1. rewrite nth_snoc_mid. rewrite <- Hl at 1. rewrite nth_snoc_next.
          destruct ((a =? i) && (b =? j)); [|reflexivity].
          rewrite (weight_split O CS), Hl. cbn [wtail]. ring.
  Qed.

  (* the normalisation constant of xi is the likelihood *)
  Lemma xi_total n k : k + 2 <= n ->
    sum (map (fun i => sum (map (fun j => AS n k i (x) (TK n (S k) i j (x) e (smap j) (S k) (x) BS n (S k) j)) st)) st) = EL n.
  Proof.
    intros Hk.
    rewrite (esum_ext O _ (fun i => EM n k i)).
    - apply (marginal_total O CS). lia.
    - intros i Hi. apply in_seq in Hi. rewrite (esum_mul_l O CS).
      rewrite <- (beta_spec_step O CS) by lia. apply (alpha_beta O CS); lia.
  Qed.

  (* summing the pair weights over the successor gives the marginal *)
  Lemma pair_marginal n k i : k + 2 <= n -> i < m -> sum (map (EP n k i) st) = EM n k i.
  Proof.
    intros Hk Hi.
    rewrite (esum_ext O _ (fun j => AS n k i (x) (TK n (S k) i j (x) e (smap j) (S k) (x) BS n (S k) j))).
    - rewrite (esum_mul_l O CS), <- (beta_spec_step O CS) by lia. apply (alpha_beta O CS); lia.
    - intros j Hj. apply in_seq in Hj. symmetry. apply xi_pair; lia.
  Qed.
End PAIR.

(* ---- the per-record quantities of baumWelchThread on reused work matrices ---- *)
Section BWREC.
  Context {A : Type} (O : Ops A) (CF : CSemifield O).
  Let CS := sf_semiring O CF.
  Variable m ne : nat.
  Variable Pi : nat -> A.
  Variable Tr Tf : nat -> nat -> A.
  Variable smap : nat -> nat.
  Variable e : nat -> nat -> A.
  Notation "a (+) b" := (oadd O a b) (at level 50, left associativity).
  Notation "a (x) b" := (omul O a b) (at level 40, left associativity).
  Notation zero := (o0 O).
  Notation sum := (esum O).
  Notation TK := (Tk Tr Tf).
  Notation st := (seq 0 m).
  Notation AS := (alpha_spec O m Pi Tr Tf smap e).
  Notation BS := (beta_spec O m Tr Tf smap e).
  Notation EM := (enum_marginal O m Pi Tr Tf smap e).
  Notation EP := (enum_pair O m Pi Tr Tf smap e).
  Notation EL := (enum_likelihood O m Pi Tr Tf smap e).

  Add Ring srr : (srt O CS).

  (* alpha and beta of the record, computed on top of ARBITRARY prior content *)
  Variable alpha0 beta0 : @mat A.
  Variable n : nat.
  Notation al := (oforward_buf O m Pi Tr Tf smap e alpha0 n).
  Notation be := (obackward_buf O m Tr Tf smap e beta0 n).

  Lemma al_cell i k : k < n -> i < m -> al i k = AS n k i.
  Proof.
    intros Hk Hi. rewrite oforward_buf_eq, (forward_buf_paths O CS).
    apply Nat.ltb_lt in Hk, Hi. rewrite Hk, Hi. reflexivity.
  Qed.
  Lemma be_cell i k : k < n -> i < m -> be i k = BS n k i.
  Proof.
    intros Hk Hi. rewrite obackward_buf_eq, (backward_buf_paths O CS).
    apply Nat.ltb_lt in Hk, Hi. rewrite Hk, Hi. reflexivity.
  Qed.

  Lemma lsum_esum l : lsum O l = sum l.
  Proof. unfold lsum. rewrite (fold_left_esum0 O CS (fun x => x)). rewrite map_id. reflexivity. Qed.

  (* gamma: an error iff the likelihood is zero, else the enumerated posterior marginals *)
  Theorem bw_gcol_spec k : k < n ->
    bw_gcol O m al be k =
    if ois0 O (EL n) then None else Some (map (fun i => odiv O (EM n k i) (EL n)) st).
  Proof.
    intros Hk. unfold bw_gcol.
    assert (E : map (fun i => al i k (x) be i k) st = map (EM n k) st).
    { apply map_ext_in. intros i Hi. apply in_seq in Hi.
      rewrite al_cell, be_cell by lia. apply (alpha_beta O CS); lia. }
    rewrite E, lsum_esum, (marginal_total O CS) by exact Hk.
    destruct (ois0 O (EL n)); [reflexivity|]. rewrite map_map. reflexivity.
  Qed.

  (* xi: the unnormalised entry is the pair weight (whenever the transition used
     by the code, Tr, is the one of the model at that position) ... *)
  Theorem bw_xi_spec k i j : k + 2 <= n -> i < m -> j < m -> TK n (S k) i j = Tr i j ->
    bw_xi O Tr smap al be e k i j = EP n k i j.
  Proof.
    intros Hk Hi Hj HT. unfold bw_xi. rewrite al_cell, be_cell by lia.
    rewrite <- (xi_pair O CS) by lia. rewrite HT. replace (k + 1) with (S k) by lia. ring.
  Qed.

  (* ... and its normalisation constant is the likelihood *)
  Theorem bw_xiz_spec k : k + 2 <= n -> (forall i j, i < m -> j < m -> TK n (S k) i j = Tr i j) ->
    bw_xiz O m Tr smap al be e k = EL n.
  Proof.
    intros Hk HT. unfold bw_xiz.
    assert (G : forall l z, fold_left (fun z i => fold_left (fun z j => z (+) bw_xi O Tr smap al be e k i j) st z) l z =
                            z (+) sum (map (fun i => sum (map (fun j => bw_xi O Tr smap al be e k i j) st)) l)).
    { assert (Hc : forall a l, sum (a :: l) = a (+) sum l) by reflexivity.
      induction l as [|i l IH]; intros z; cbn [fold_left map].
      - change (sum []) with zero. ring.
      - rewrite IH, Hc. rewrite (fold_left_esum O CS). rewrite (add_assoc O CS). reflexivity. }
    rewrite G. rewrite (add_0_l O CS).
    rewrite <- (xi_total O CS m Pi Tr Tf smap e n k Hk).
    apply (esum_ext O). intros i Hi. apply (esum_ext O). intros j Hj. apply in_seq in Hi, Hj.
    rewrite bw_xi_spec by (auto; try lia; apply HT; lia).
    symmetry. apply (xi_pair O CS); lia.
  Qed.

  (* the likelihood summed from the last column of the reused alpha *)
  Theorem bw_lik_spec : 0 < n -> lsum O (map (fun i => al i (n - 1)) st) = EL n.
  Proof.
    intros Hn. rewrite lsum_esum.
    rewrite (esum_ext O _ (AS n (n - 1))) by (intros i Hi; apply in_seq in Hi; apply al_cell; lia).
    apply (alpha_total O CS). lia.
  Qed.
End BWREC.

(* ---- the accumulators of the thread (tmp.pi, tmp.tr, tmp.gamma, tmp.likelihood) ---- *)
Section BWACC.
  Context {A : Type} (O : Ops A) (CF : CSemifield O).
  Let CS := sf_semiring O CF.
  Variable m ne : nat.
  Variable Pi : nat -> A.
  Variable Tr Tf : nat -> nat -> A.
  Variable smap : nat -> nat.
  Variable hasfinal : bool.
  Notation "a (+) b" := (oadd O a b) (at level 50, left associativity).
  Notation "a (x) b" := (omul O a b) (at level 40, left associativity).
  Notation zero := (o0 O).
  Notation sum := (esum O).
  Notation TK := (Tk Tr Tf).
  Notation st := (seq 0 m).
  Notation EM := (enum_marginal O m Pi Tr Tf smap).
  Notation EP := (enum_pair O m Pi Tr Tf smap).
  Notation EL := (enum_likelihood O m Pi Tr Tf smap).

  Add Ring sra : (srt O CS).

  (* without final states the code has Tf = Tr (the same object) *)
  Hypothesis Htf : hasfinal = false -> forall i j, Tf i j = Tr i j.

  (* number of transitions whose xi is accumulated *)
  Definition ntrans (n : nat) : nat := if hasfinal then n - 2 else n - 1.

  Lemma Tk_used n k i j : k < ntrans n -> TK n (S k) i j = Tr i j.
  Proof.
    unfold ntrans. intros Hk. destruct hasfinal eqn:Ef.
    - rewrite Tk_mid by lia. reflexivity.
    - destruct (Nat.lt_ge_cases (S k) (n - 1)) as [H|H].
      + rewrite Tk_mid by lia. reflexivity.
      + rewrite Tk_last by lia. apply Htf. reflexivity.
  Qed.

  Definition wf_tr (T : list (list A)) : Prop := length T = m /\ forall i, i < m -> length (nth i T []) = m.

  Lemma nth_map_lt {X Y} (f : X -> Y) l i d d' : i < length l -> nth i (map f l) d = f (nth i l d').
  Proof. intros H. rewrite (nth_indep _ d (f d')) by (rewrite map_length; exact H). apply map_nth. Qed.

  Lemma nth_zip_add (P : list A) (g : nat -> A) i : length P = m -> i < m ->
    nth i (map (fun pg => fst pg (+) snd pg) (combine P (map g st))) zero = nth i P zero (+) g i.
  Proof.
    intros Hl Hi.
    rewrite (nth_map_lt _ _ _ _ (zero, g 0)) by (rewrite combine_length, map_length, seq_length; lia).
    rewrite combine_nth by (rewrite map_length, seq_length; exact Hl).
    cbn [fst snd]. rewrite map_nth, seq_nth by exact Hi. reflexivity.
  Qed.
  Lemma length_zip_add (P : list A) (g : nat -> A) : length P = m ->
    length (map (fun pg => fst pg (+) snd pg) (combine P (map g st))) = m.
  Proof. intros Hl. rewrite map_length, combine_length, map_length, seq_length. lia. Qed.

  Section REC.
    Variable e : nat -> nat -> A.
    Variable n : nat.
    Variable al be : @mat A.

    Lemma xi_add_entry T k i j : wf_tr T -> i < m -> j < m ->
      nth j (nth i (bw_xi_add O m Tr smap al be e T k) []) zero =
      nth j (nth i T []) zero (+) odiv O (bw_xi O Tr smap al be e k i j) (bw_xiz O m Tr smap al be e k).
    Proof.
      intros [L R] Hi Hj. unfold bw_xi_add.
      set (F := fun ir : nat * list A => map _ (combine st (snd ir))).
      rewrite (nth_map_lt F _ _ _ (0, [])) by (rewrite combine_length, seq_length; lia).
      rewrite combine_nth by (rewrite seq_length; lia). rewrite seq_nth by exact Hi.
      unfold F. cbn [fst snd plus].
      set (G := fun jv : nat * A => snd jv (+) _).
      rewrite (nth_map_lt G _ _ _ (0, zero)) by (rewrite combine_length, seq_length, R; lia).
      rewrite combine_nth by (rewrite seq_length, R; lia). rewrite seq_nth by exact Hj.
      unfold G. cbn [fst snd plus]. reflexivity.
    Qed.
    Lemma xi_add_wf T k : wf_tr T -> wf_tr (bw_xi_add O m Tr smap al be e T k).
    Proof.
      intros [L R]. unfold bw_xi_add. split.
      - rewrite map_length, combine_length, seq_length. lia.
      - intros i Hi.
        set (F := fun ir : nat * list A => map _ (combine st (snd ir))).
        rewrite (nth_map_lt F _ _ _ (0, [])) by (rewrite combine_length, seq_length; lia).
        rewrite combine_nth by (rewrite seq_length; lia).
        unfold F. cbn [snd]. rewrite map_length, combine_length, seq_length, R by exact Hi. lia.
    Qed.

    Lemma xi_fold ks : forall T, wf_tr T ->
      let T' := fold_left (bw_xi_add O m Tr smap al be e) ks T in
      wf_tr T' /\
      forall i j, i < m -> j < m ->
        nth j (nth i T' []) zero =
        nth j (nth i T []) zero (+)
        sum (map (fun k => odiv O (bw_xi O Tr smap al be e k i j) (bw_xiz O m Tr smap al be e k)) ks).
    Proof.
      induction ks as [|k ks IH]; intros T WF; cbn [fold_left]; cbv zeta.
      - split; [exact WF|]. intros i j _ _. change (sum (map _ [])) with zero. ring.
      - destruct (IH _ (xi_add_wf T k WF)) as [W E]. cbv zeta in W, E. split; [exact W|].
        intros i j Hi Hj. rewrite E, xi_add_entry by assumption.
        change (sum (map ?f (k :: ks))) with (f k (+) sum (map f ks)). cbv beta. ring.
    Qed.
  End REC.

  (* gamma of every position *)
  Lemma bw_gammas_spec e n alpha0 beta0 ks : (forall k, In k ks -> k < n) -> ois0 O (EL e n) = false ->
    bw_gammas O m ne smap (oforward_buf O m Pi Tr Tf smap e alpha0 n) (obackward_buf O m Tr Tf smap e beta0 n) ks =
    Some (map (fun k => bw_gclass O m ne smap (map (fun i => odiv O (EM e n k i) (EL e n)) st)) ks).
  Proof.
    intros Hks Hz. induction ks as [|k ks IH]; [reflexivity|]. cbn [bw_gammas map].
    rewrite (bw_gcol_spec O CF) by (apply Hks; left; reflexivity). rewrite Hz.
    rewrite IH by (intros k' Hk'; apply Hks; right; exact Hk'). reflexivity.
  Qed.

  (* one record, on top of arbitrary alpha/beta content: an error iff its
     likelihood is zero, otherwise every accumulator grows by the enumerated
     posterior expectation of that record *)
  Theorem bw_record_spec (s : bwst) n e : 0 < n -> length (bwPi s) = m -> wf_tr (bwTr s) ->
    if ois0 O (EL e n) then bw_record O m ne Pi Tr Tf smap hasfinal s n e = None
    else exists s', bw_record O m ne Pi Tr Tf smap hasfinal s n e = Some s' /\
         length (bwPi s') = m /\ wf_tr (bwTr s') /\
         (forall i, i < m -> nth i (bwPi s') zero = nth i (bwPi s) zero (+) odiv O (EM e n 0 i) (EL e n)) /\
         (forall i j, i < m -> j < m ->
            nth j (nth i (bwTr s') []) zero =
            nth j (nth i (bwTr s) []) zero (+) sum (map (fun k => odiv O (EP e n k i j) (EL e n)) (seq 0 (ntrans n)))) /\
         bwGam s' = bwGam s ++ [map (fun k => bw_gclass O m ne smap (map (fun i => odiv O (EM e n k i) (EL e n)) st)) (seq 0 n)] /\
         bwLik s' = bwLik s (x) EL e n.
  Proof.
    intros Hn LP WF. unfold bw_record.
    rewrite (bw_gcol_spec O CF) by exact Hn.
    destruct (ois0 O (EL e n)) eqn:Hz; [reflexivity|].
    rewrite bw_gammas_spec by (auto; intros k Hk; apply in_seq in Hk; lia).
    eexists. split; [reflexivity|]. cbn [bwPi bwTr bwGam bwLik].
    destruct (xi_fold e (oforward_buf O m Pi Tr Tf smap e (bwA s) n) (obackward_buf O m Tr Tf smap e (bwB s) n)
                      (seq 0 (ntrans n)) (bwTr s) WF) as [W E]. cbv zeta in W, E.
    fold (ntrans n).
    split; [apply length_zip_add; exact LP|]. split; [exact W|]. split; [|split; [|split]].
    - intros i Hi. apply nth_zip_add; assumption.
    - intros i j Hi Hj. rewrite E by assumption. f_equal. apply (esum_ext O). intros k Hk.
      apply in_seq in Hk.
      assert (Hk2 : k + 2 <= n) by (unfold ntrans in Hk; destruct hasfinal; lia).
      rewrite (bw_xi_spec O CF) by (auto; apply Tk_used; lia).
      rewrite (bw_xiz_spec O CF) by (auto; intros; apply Tk_used; lia). reflexivity.
    - reflexivity.
    - rewrite (bw_lik_spec O CF) by exact Hn. reflexivity.
  Qed.

  (* all records of a thread, one after the other on the same work matrices *)
  Notation recw := (fun (i : nat) (r : nat * (nat -> nat -> A)) => odiv O (EM (snd r) (fst r) 0 i) (EL (snd r) (fst r))).
  Notation rect := (fun (i j : nat) (r : nat * (nat -> nat -> A)) =>
                      sum (map (fun k => odiv O (EP (snd r) (fst r) k i j) (EL (snd r) (fst r))) (seq 0 (ntrans (fst r))))).

  Lemma bw_records_spec recs : forall s, (forall r, In r recs -> 0 < fst r) -> length (bwPi s) = m -> wf_tr (bwTr s) ->
    if existsb (fun r => ois0 O (EL (snd r) (fst r))) recs
    then bw_records O m ne Pi Tr Tf smap hasfinal s recs = None
    else exists s', bw_records O m ne Pi Tr Tf smap hasfinal s recs = Some s' /\
         (forall i, i < m -> nth i (bwPi s') zero = nth i (bwPi s) zero (+) sum (map (recw i) recs)) /\
         (forall i j, i < m -> j < m ->
            nth j (nth i (bwTr s') []) zero = nth j (nth i (bwTr s) []) zero (+) sum (map (rect i j) recs)) /\
         bwLik s' = bwLik s (x) fold_right (fun r acc => EL (snd r) (fst r) (x) acc) (o1 O) recs.
  Proof.
    assert (Hc : forall a l, sum (a :: l) = a (+) sum l) by reflexivity.
    induction recs as [|r recs IH]; intros s Hpos LP WF.
    - cbn [existsb bw_records]. exists s. split; [reflexivity|].
      split; [intros i _; change (sum (map _ [])) with zero; ring|].
      split; [intros i j _ _; change (sum (map _ [])) with zero; ring|]. cbn [fold_right]. ring.
    - cbn [existsb bw_records].
      pose proof (bw_record_spec s (fst r) (snd r) (Hpos r (or_introl eq_refl)) LP WF) as R.
      destruct (ois0 O (EL (snd r) (fst r))) eqn:Hz; cbn [orb].
      + rewrite R. reflexivity.
      + destruct R as [s1 [E1 [LP1 [WF1 [P1 [T1 [_ K1]]]]]]]. rewrite E1.
        specialize (IH s1 (fun r' Hr' => Hpos r' (or_intror Hr')) LP1 WF1).
        destruct (existsb _ recs); [exact IH|].
        destruct IH as [s' [E' [P' [T' K']]]]. exists s'. split; [exact E'|].
        split; [|split].
        * intros i Hi. rewrite P', P1 by exact Hi.
          cbn [map]. rewrite Hc. cbv beta. ring.
        * intros i j Hi Hj. rewrite T', T1 by assumption.
          cbn [map]. rewrite Hc. cbv beta. ring.
        * rewrite K', K1. cbn [fold_right]. ring.
  Qed.

  (* the thread starts from pi, tr = zero and likelihood one; alpha and beta hold
     whatever the previous step left in them *)
  Theorem bw_thread_spec (alpha beta : @mat A) recs : (forall r, In r recs -> 0 < fst r) ->
    if existsb (fun r => ois0 O (EL (snd r) (fst r))) recs
    then bw_thread O m ne Pi Tr Tf smap hasfinal alpha beta recs = None
    else exists s', bw_thread O m ne Pi Tr Tf smap hasfinal alpha beta recs = Some s' /\
         (forall i, i < m -> nth i (bwPi s') zero = sum (map (recw i) recs)) /\
         (forall i j, i < m -> j < m -> nth j (nth i (bwTr s') []) zero = sum (map (rect i j) recs)) /\
         bwLik s' = fold_right (fun r acc => EL (snd r) (fst r) (x) acc) (o1 O) recs.
  Proof.
    intros Hpos. unfold bw_thread.
    set (s0 := mkBW alpha beta (repeat zero m) (repeat (repeat zero m) m) [] (o1 O)).
    assert (LP : length (bwPi s0) = m) by apply repeat_length.
    assert (WF : wf_tr (bwTr s0)).
    { split; [apply repeat_length|]. intros i Hi. cbn [bwTr s0].
      rewrite (nth_indep _ [] (repeat zero m)) by (rewrite repeat_length; exact Hi).
      rewrite nth_repeat. apply repeat_length. }
    pose proof (bw_records_spec recs s0 Hpos LP WF) as R.
    destruct (existsb _ recs); [exact R|].
    destruct R as [s' [E [P [T K]]]]. exists s'. split; [exact E|].
    assert (Z1 : forall i, nth i (repeat zero m) zero = zero).
    { intros i. destruct (Nat.lt_ge_cases i m) as [H|H].
      - apply nth_repeat.
      - apply nth_overflow. rewrite repeat_length. exact H. }
    split; [|split].
    - intros i Hi. rewrite P by exact Hi. cbn [bwPi s0]. rewrite Z1. ring.
    - intros i j Hi Hj. rewrite T by assumption. cbn [bwTr s0].
      rewrite (nth_indep _ [] (repeat zero m)) by (rewrite repeat_length; exact Hi).
      rewrite nth_repeat, Z1. ring.
    - rewrite K. cbn [bwLik s0]. ring.
  Qed.
End BWACC.
