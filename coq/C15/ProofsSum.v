(* C15 — big sums in a commutative semiring, enumeration of paths. *)
From Coq Require Import List Arith Bool Lia.
From ADV Require Import C15.Model C15.Spec.
Import ListNotations.

Section SUM.
  Context {A : Type} (O : Ops A) (CS : CSemiring O).
  Notation "a (+) b" := (oadd O a b) (at level 50, left associativity).
  Notation "a (x) b" := (omul O a b) (at level 40, left associativity).
  Notation zero := (o0 O).
  Notation one := (o1 O).
  Notation esum := (esum O).

  Lemma add_0_r a : a (+) zero = a.
  Proof. rewrite (add_comm O CS). apply (add_0_l O CS). Qed.
  Lemma mul_1_r a : a (x) one = a.
  Proof. rewrite (mul_comm O CS). apply (mul_1_l O CS). Qed.
  Lemma mul_0_r a : a (x) zero = zero.
  Proof. rewrite (mul_comm O CS). apply (mul_0_l O CS). Qed.
  Lemma distr_r a b c : (a (+) b) (x) c = (a (x) c) (+) (b (x) c).
  Proof. rewrite (mul_comm O CS), (distr_l O CS), (mul_comm O CS c a), (mul_comm O CS c b). reflexivity. Qed.

  Lemma esum_app l1 l2 : esum (l1 ++ l2) = esum l1 (+) esum l2.
  Proof.
    induction l1 as [|a l1 IH]; simpl.
    - symmetry; apply (add_0_l O CS).
    - rewrite IH. symmetry; apply (add_assoc O CS).
  Qed.

  Lemma esum_mul_l {X} c (f : X -> A) l : esum (map (fun x => c (x) f x) l) = c (x) esum (map f l).
  Proof.
    induction l as [|a l IH]; simpl.
    - symmetry; apply mul_0_r.
    - rewrite IH. symmetry; apply (distr_l O CS).
  Qed.
  Lemma esum_mul_r {X} c (f : X -> A) l : esum (map (fun x => f x (x) c) l) = esum (map f l) (x) c.
  Proof.
    induction l as [|a l IH]; simpl.
    - symmetry; apply (mul_0_l O CS).
    - rewrite IH. symmetry; apply distr_r.
  Qed.

  Lemma esum_ext {X} (f g : X -> A) l : (forall x, In x l -> f x = g x) -> esum (map f l) = esum (map g l).
  Proof.
    induction l as [|a l IH]; simpl; intros H; [reflexivity|].
    rewrite H by auto. rewrite IH; auto.
  Qed.

  Lemma esum_zero {X} (l : list X) : esum (map (fun _ => zero) l) = zero.
  Proof. induction l as [|a l IH]; simpl; [reflexivity|]. rewrite IH. apply (add_0_l O CS). Qed.

  Lemma esum_add {X} (f g : X -> A) l :
    esum (map (fun x => f x (+) g x) l) = esum (map f l) (+) esum (map g l).
  Proof.
    induction l as [|a l IH]; simpl.
    - symmetry; apply (add_0_l O CS).
    - rewrite IH. rewrite !(add_assoc O CS). f_equal.
      rewrite <- !(add_assoc O CS). f_equal. apply (add_comm O CS).
  Qed.

  Lemma esum_flat_map {X} (g : X -> list A) l :
    esum (flat_map g l) = esum (map (fun x => esum (g x)) l).
  Proof.
    induction l as [|a l IH]; simpl; [reflexivity|].
    rewrite esum_app, IH. reflexivity.
  Qed.

  (* exchange of two finite sums *)
  Lemma esum_swap {X Y} (f : X -> Y -> A) l1 l2 :
    esum (map (fun i => esum (map (f i) l2)) l1) = esum (map (fun j => esum (map (fun i => f i j) l1)) l2).
  Proof.
    induction l1 as [|a l1 IH]; simpl.
    - symmetry. apply esum_zero.
    - rewrite IH. rewrite <- esum_add. reflexivity.
  Qed.

  Lemma esum_filter {X} (P : X -> bool) (f : X -> A) l :
    esum (map f (filter P l)) = esum (map (fun x => if P x then f x else zero) l).
  Proof.
    induction l as [|a l IH]; simpl; [reflexivity|].
    destruct (P a); simpl; rewrite IH; [reflexivity|].
    symmetry; apply (add_0_l O CS).
  Qed.

  (* a sum over [0,m) that selects one index *)
  Lemma esum_pick (f : nat -> A) s m i :
    s <= i < s + m -> esum (map (fun j => if j =? i then f j else zero) (seq s m)) = f i.
  Proof.
    revert s. induction m as [|m IH]; intros s H; [lia|]. simpl.
    destruct (Nat.eqb_spec s i) as [->|Hne].
    - rewrite (esum_ext _ (fun _ => zero)).
      + rewrite esum_zero. apply add_0_r.
      + intros x Hx. apply in_seq in Hx. destruct (Nat.eqb_spec x i); [lia|reflexivity].
    - rewrite IH by lia. apply (add_0_l O CS).
  Qed.

  (* the left folds of the Go loops are these sums *)
  Lemma fold_left_esum {X} (g : X -> A) l a :
    fold_left (fun acc i => acc (+) g i) l a = a (+) esum (map g l).
  Proof.
    revert a. induction l as [|x l IH]; intros a; simpl.
    - symmetry; apply add_0_r.
    - rewrite IH. apply (add_assoc O CS).
  Qed.
  Lemma fold_left_esum0 {X} (g : X -> A) l :
    fold_left (fun acc i => acc (+) g i) l zero = esum (map g l).
  Proof. rewrite fold_left_esum. apply (add_0_l O CS). Qed.
End SUM.

(* ---- enumeration of paths ---- *)
Section PATHS.
  Variable m : nat.

  Lemma paths_length n p : In p (paths m n) -> length p = n.
  Proof.
    revert p. induction n as [|n IH]; intros p H; simpl in H.
    - destruct H as [<-|[]]; reflexivity.
    - apply in_flat_map in H. destruct H as [x [_ H]]. apply in_map_iff in H.
      destruct H as [q [<- Hq]]. simpl. f_equal. auto.
  Qed.

  Lemma paths_bound n p : In p (paths m n) -> Forall (fun x => x < m) p.
  Proof.
    revert p. induction n as [|n IH]; intros p H; simpl in H.
    - destruct H as [<-|[]]; constructor.
    - apply in_flat_map in H. destruct H as [x [Hx H]]. apply in_map_iff in H.
      destruct H as [q [<- Hq]]. constructor; [apply in_seq in Hx; lia|auto].
  Qed.

  Lemma paths_complete n p : length p = n -> Forall (fun x => x < m) p -> In p (paths m n).
  Proof.
    revert p. induction n as [|n IH]; intros p Hl Hb.
    - destruct p; [left; reflexivity|discriminate].
    - destruct p as [|x q]; [discriminate|]. simpl. apply in_flat_map. exists x.
      inversion Hb; subst. split; [apply in_seq; lia|].
      apply in_map. apply IH; [simpl in Hl; lia|assumption].
  Qed.

  Lemma flat_map_map {X Y Z} (f : X -> Y) (g : Y -> list Z) l :
    flat_map g (map f l) = flat_map (fun x => g (f x)) l.
  Proof. induction l; simpl; [reflexivity|]. rewrite IHl. reflexivity. Qed.
  Lemma map_flat_map {X Y Z} (f : Y -> Z) (g : X -> list Y) l :
    map f (flat_map g l) = flat_map (fun x => map f (g x)) l.
  Proof. induction l; simpl; [reflexivity|]. rewrite map_app, IHl. reflexivity. Qed.
  Lemma flat_map_flat_map {X Y Z} (f : X -> list Y) (g : Y -> list Z) l :
    flat_map g (flat_map f l) = flat_map (fun x => flat_map g (f x)) l.
  Proof. induction l; simpl; [reflexivity|]. rewrite flat_map_app, IHl. reflexivity. Qed.
  Lemma flat_map_ext' {X Y} (f g : X -> list Y) l : (forall x, f x = g x) -> flat_map f l = flat_map g l.
  Proof. intros H. induction l; simpl; [reflexivity|]. rewrite H, IHl. reflexivity. Qed.

  (* the enumeration is lexicographic: paths of length a+b are the
     concatenations, in order *)
  Lemma paths_add a b :
    paths m (a + b) = flat_map (fun p => map (fun q => p ++ q) (paths m b)) (paths m a).
  Proof.
    induction a as [|a IH]; simpl.
    - rewrite app_nil_r. symmetry. rewrite map_id. reflexivity.
    - rewrite IH. rewrite flat_map_flat_map. apply flat_map_ext'. intros x.
      rewrite map_flat_map, flat_map_map. apply flat_map_ext'. intros p.
      rewrite map_map. reflexivity.
  Qed.

  Lemma paths_1 : paths m 1 = map (fun j => [j]) (seq 0 m).
  Proof.
    simpl. induction (seq 0 m) as [|x l IH]; simpl; [reflexivity|]. rewrite IH. reflexivity.
  Qed.

  Lemma paths_snoc k :
    paths m (k + 1) = flat_map (fun p => map (fun j => p ++ [j]) (seq 0 m)) (paths m k).
  Proof.
    rewrite paths_add, paths_1. apply flat_map_ext'. intros p. rewrite map_map. reflexivity.
  Qed.
End PATHS.
