(* C15 correspondence, round 3: constrained / hierarchical HMMs, Posterior with
   repeated states, Posterior precondition.  The cases of Corr.v are wrapped
   ([XC]); new case types:

   XChmm  the three matrices NewChmmTransitionMatrix / NewHmm / SetFinalStates produce
          are compared with [chmm_make] / [chmm_tf] of ModelCH.v, run on exact rationals
          with the Lagrange multipliers the Newton iteration returned as oracle data;
          independently of the multipliers: cells of one constraint group hold the SAME
          float, cells outside every group keep their zero, the rows of Go's Tr sum to
          one within 2^-20; then inference on the object against the model and against
          the enumeration with these matrices.
   XHhmm  the same for HhmmTransitionMatrix against [hhmm_make] / [hhmm_tf] (closed form,
          no oracle); a NaN matrix on the Go side iff the model divides by zero.
   XPre   Posterior panics iff some listed state is outside [0,m). *)
From Coq Require Import List Arith Bool ZArith QArith Qcanon Qabs Floats.
From ADV Require Import Base.Corr C15.Model C15.ModelBuf C15.ModelCls C15.ModelCH C15.ModelSet C15.ModelHist C15.Corr.
Import ListNotations.
Open Scope nat_scope.

Definition gres_eqb (a b : gres) : bool :=
  match a, b with
  | GVal p, GVal q => Qeq_bool p q
  | GNaN, GNaN => true
  | GErr, GErr => true
  | _, _ => false
  end.
Definition is_gnan (g : gres) : bool := match g with GNaN => true | _ => false end.
Definition gmat_bad (t : list (list gres)) : bool := existsb (existsb is_gnan) t.
Definition gat (t : list (list gres)) (i j : nat) : gres := nth j (nth i t []) GErr.
Definition gq (g : gres) : Q := match g with GVal q => q | _ => 0%Q end.
Definition tolRow : Q := 1 # (2 ^ 20).

(* freeze a matrix function into a table (evaluated once under vm_compute) *)
Definition freeze (n : nat) (T : @tmat Qc) : list (list Qc) := tmat_rows n T.

(* ---- the per-sequence checks of Corr.v with explicit parameters ---- *)
Section SEQ2.
  Variable m : nat.
  Variable lPi : list Qc.
  Variable lTr lTf : list (list Qc).
  Variable lmap : list nat.
  Variable fPi' : list float.
  Variable fTr' fTf' : list (list float).
  (* relative slack of the exact-arithmetic optimality test of Go's Viterbi path: 0 when the
     model's matrices are exact closed forms of the dyadic inputs; positive for the constrained
     HMM, whose model matrices are computed from the binary64 Lagrange multipliers Newton
     returned (oracle data that carry rounding error: an exact tie of two paths in the ideal
     matrices becomes a 2^-52 preference in the model, while Go's float tables see a tie) *)
  Variable vtol : Q.
  Variable s : hseq.
  Let n := sN s.
  Let Pi := vecf 0%Qc lPi.
  Let Tr := matf 0%Qc lTr.
  Let Tf := matf 0%Qc lTf.
  Let sm := vecf 0 lmap.
  Let e := matf 0%Qc (map qcl (sEm s)).
  Let lik := logpdf OpsQc m Pi Tr Tf sm e n.
  Let elik := enum_likelihood OpsQc m Pi Tr Tf sm e n.
  Let wt := weight OpsQc Pi Tr Tf sm e n.

  Definition chk2_logpdf : bool := approx lik (gLogPdf s) && Qc_eqb lik elik.
  Definition chk2_alpha : bool :=
    list_rel (list_rel approx) (forward OpsQc m Pi Tr Tf sm e n) (gAlpha s) &&
    list_rel (list_rel approx) (oforward OpsQc m Pi Tr Tf sm e n) (oAlpha s).
  Definition chk2_beta : bool :=
    list_rel (list_rel approx) (backward OpsQc m Tr Tf sm e n) (gBeta s) &&
    list_rel (list_rel approx) (obackward OpsQc m Tr Tf sm e n) (oBeta s).
  Definition chk2_bits : bool := list_eqb Z.eqb (bitsGen s) (bitsOpt s).
  Definition chk2_marg : bool :=
    match marginals OpsQc m Pi Tr Tf sm e n, gMarg s with
    | None, None => Qc_eqb elik 0%Qc
    | Some g, Some o =>
        list_rel (list_rel approx) g o &&
        forallb (fun kc => forallb (fun iv =>
                   Qc_eqb (snd iv * elik)%Qc (enum_marginal OpsQc m Pi Tr Tf sm e n (fst kc) (fst iv)))
                   (combine (seq 0 m) (snd kc)))
                (combine (seq 0 n) g)
    | _, _ => false
    end.
  (* Posterior: against Go; duplicate-free sets against the enumeration of the set;
     lists with repeated states against the MULTISET enumeration *)
  Definition chk2_post : bool :=
    forallb (fun sg =>
               let r := posterior OpsQc m Pi Tr Tf sm e n (fst sg) in
               approx_pres r (snd sg) &&
               match r with
               | PVal v => if nodup_sets (fst sg)
                           then Qc_eqb (v * elik)%Qc (enum_sets OpsQc m Pi Tr Tf sm e n (fst sg))
                           else Qc_eqb (v * elik)%Qc (enum_msets OpsQc m Pi Tr Tf sm e n (fst sg))
               | _ => true
               end) (gPost s).
  (* the multiset reading alone (for the cases of Corr.v, whose own check skips it) *)
  Definition chk2_postdup : bool :=
    forallb (fun sg =>
               if nodup_sets (fst sg) then true else
               match posterior OpsQc m Pi Tr Tf sm e n (fst sg) with
               | PVal v => Qc_eqb (v * elik)%Qc (enum_msets OpsQc m Pi Tr Tf sm e n (fst sg))
               | _ => true
               end) (gPost s).
  Definition chk2_vit : bool :=
    let fe := matf neg_infinity (sEmF s) in
    let vf := viterbi VOpsF m (vecf neg_infinity fPi') (matf neg_infinity fTr') (matf neg_infinity fTf') sm fe n in
    let vq := viterbi VOpsQc m Pi Tr Tf sm e n in
    let best := qmax (map wt (paths m n)) in
    list_eqb Nat.eqb vf (gVit s) &&
    Nat.eqb (length (gVit s)) n && forallb (fun x => x <? m) (gVit s) &&
    Qle_bool (this best * (1 - vtol)) (this (wt (gVit s))) && Qle_bool (this (wt (gVit s))) (this best) &&
    Qc_eqb (wt vq) best.
  Definition chk2_cls : bool :=
    forallb (chk_cls_one m Pi Tr Tf sm e (vecf neg_infinity fPi') (matf neg_infinity fTr') (matf neg_infinity fTf')
                         (matf neg_infinity (sEmF s)) n) (gCls s).
  Definition seq2_fails : list nat :=
    (if chk2_logpdf then [] else [1]) ++ (if chk2_alpha then [] else [2]) ++ (if chk2_beta then [] else [3]) ++
    (if chk2_bits then [] else [4]) ++ (if chk2_marg then [] else [5]) ++ (if chk2_post then [] else [6]) ++
    (if chk2_vit then [] else [7]) ++ (if chk2_cls then [] else [9]).
End SEQ2.

Definition vtolOracle : Q := 1 # (2 ^ 30).
Definition seqs_fails m lPi lTr lTf lmap fPi' fTr' fTf' (vtol : Q) (ss : list hseq) : list nat :=
  flat_map (fun ks => map (fun x => 10 * (S (fst ks)) + x) (seq2_fails m lPi lTr lTf lmap fPi' fTr' fTf' vtol (snd ks)))
           (combine (seq 0 (length ss)) ss).

(* ---- constrained HMM ---- *)
Record chcase := mkCC {
  ccM : nat; ccPiRaw : list Q; ccTrRaw : list (list Q); ccCons : list (list (nat * nat));
  ccMap : list nat; ccStart : list Z; ccFinal : list Z;
  ccLam1 : option (list Q); ccLam2 : option (list Q); ccLam3 : option (list Q);
  ccErr : nat;                                   (* 0 built, 1 NewChmmTransitionMatrix error, 2 NewHmm error *)
  ccGroups : list (list (nat * nat));            (* GetConstraints *)
  ccT1 : list (list gres);                       (* after NewChmmTransitionMatrix *)
  ccPi : list gres; ccTr : list (list gres); ccTf : list (list gres);
  ccfPi : list float; ccfTr : list (list float); ccfTf : list (list float);
  ccSeqs : list hseq
}.
Definition lamf (l : option (list Q)) : option (nat -> Qc) :=
  match l with None => None | Some q => Some (vecf 0%Qc (qcl q)) end.
Definition cells_eqb (a b : list (list (nat * nat))) : bool :=
  list_eqb (list_eqb (fun x y => Nat.eqb (fst x) (fst y) && Nat.eqb (snd x) (snd y))) a b.
(* all cells of a group hold the same observed value *)
Definition tied_ok (t : list (list gres)) (gs : list (list (nat * nat))) : bool :=
  forallb (fun g => match g with
                    | [] => true
                    | c0 :: r => forallb (fun c => gres_eqb (gat t (fst c) (snd c)) (gat t (fst c0) (snd c0))) r
                    end) gs.
Definition rows_stochastic (n : nat) (t : list (list gres)) : bool :=
  forallb (fun i => let s := fold_left (fun a j => (a + gq (gat t i j))%Q) (seq 0 n) 0%Q in
                    Qle_bool (Qabs (s - 1)) tolRow) (seq 0 n).

(* the model's matrix has row sums exactly one *)
Definition rows_exact (l : list (list Qc)) : bool :=
  forallb (fun r => Qc_eqb (fold_left Qcplus r 0%Qc) 1%Qc) l.

Definition chfails (c : chcase) : list nat :=
  let n := ccM c in
  let X := tmat_of OpsQc (map qcl (ccTrRaw c)) in
  match chmm_complement OpsQc n X (ccCons c) with
  | None => if ccErr c =? 1 then [] else [1]
  | Some gs0 =>
      match chmm_make OpsQc n (lamf (ccLam1 c)) (lamf (ccLam2 c)) X (ccCons c) with
      | None => if negb (ccErr c =? 0) then [] else [2]
      | Some (gs, T1, T2) =>
          if negb (ccErr c =? 0) then [2] else
          let l1 := freeze n T1 in
          let l2 := freeze n T2 in
          let ltf := freeze n (chmm_tf OpsQc n (lamf (ccLam3 c)) (tmat_of OpsQc l2) gs (ccFinal c)) in
          let lpi := make_pi OpsQc (qcl (ccPiRaw c)) (ccStart c) in
          (if cells_eqb gs (ccGroups c) then [] else [3]) ++
          (if list_rel (list_rel approx) l1 (ccT1 c) then [] else [4]) ++
          (if list_rel (list_rel approx) l2 (ccTr c) then [] else [5]) ++
          (if list_rel (list_rel approx) ltf (ccTf c) then [] else [6]) ++
          (if list_rel approx lpi (ccPi c) then [] else [7]) ++
          (if tied_ok (ccT1 c) gs && tied_ok (ccTr c) gs then [] else [8]) ++
          (if rows_stochastic n (ccT1 c) && rows_stochastic n (ccTr c) then [] else [9]) ++
          seqs_fails n lpi l2 ltf (ccMap c) (ccfPi c) (ccfTr c) (ccfTf c) vtolOracle (ccSeqs c)
      end
  end.

(* ---- hierarchical HMM ---- *)
Record hhcase := mkHH {
  hhM : nat; hhPiRaw : list Q; hhTrRaw : list (list Q); hhTree : htree;
  hhMap : list nat; hhStart : list Z; hhFinal : list Z;
  hhErr : nat;                                   (* 0 built, 1 invalid tree, 2 other error *)
  hhT1 : list (list gres);
  hhPi : list gres; hhTr : list (list gres); hhTf : list (list gres);
  hhfPi : list float; hhfTr : list (list float); hhfTf : list (list float);
  hhSeqs : list hseq
}.
Definition hhfails (c : hhcase) : list nat :=
  let n := hhM c in
  let X := tmat_of OpsQc (map qcl (hhTrRaw c)) in
  match hhmm_make OpsQc n (hhTree c) X with
  | inl false => if hhErr c =? 1 then [] else [1]
  | inl true => if (hhErr c =? 0) && (gmat_bad (hhT1 c) || gmat_bad (hhTr c)) then [] else [2]
  | inr (T1, T2) =>
      if negb (hhErr c =? 0) then [2] else
      let l1 := freeze n T1 in
      let l2 := freeze n T2 in
      let lpi := make_pi OpsQc (qcl (hhPiRaw c)) (hhStart c) in
      (if list_rel (list_rel approx) l1 (hhT1 c) then [] else [4]) ++
      (if list_rel (list_rel approx) l2 (hhTr c) then [] else [5]) ++
      (if list_rel approx lpi (hhPi c) then [] else [7]) ++
      (if rows_stochastic n (hhTr c) && rows_exact l1 && rows_exact l2 then [] else [9]) ++
      match hhmm_tf OpsQc (hhTree c) (tmat_of OpsQc l2) (hhFinal c) with
      | None => if gmat_bad (hhTf c) then [] else [6]
      | Some Tf =>
          let ltf := freeze n Tf in
          (if list_rel (list_rel approx) ltf (hhTf c) then [] else [6]) ++
          seqs_fails n lpi l2 ltf (hhMap c) (hhfPi c) (hhfTr c) (hhfTf c) 0 (hhSeqs c)
      end
  end.


(* ---- round 5 / 6: histories on generic.Hmm: setters (ModelSet.v) and the config round trip
        ImportConfig(json(ExportConfig())) (ModelHist.v) ---- *)
Inductive jop := JStart (l : list Z) | JFinal (l : list Z) | JParams (pi : list Q) (tr : list (list Q)) | JClone | JConfig.
Definition xop_of (o : jop) : @xop Qc :=
  match o with
  | JStart l => XOld (OStart l)
  | JFinal l => XOld (OFinal l)
  | JParams pi tr => XOld (OParams (qcl pi) (map qcl tr))
  | JClone => XOld OClone
  | JConfig => XConfig
  end.
Record hscase := mkHS {
  hsM : nat; hsPiRaw : list Q; hsTrRaw : list (list Q); hsMap : list nat;
  hsOps : list jop;
  (* after the constructor and after every call: 0 = nil error / 1 = error returned / 2 = panic (recovered; no call
     panics at HEAD, so a 2 never matches the model), exp of Pi, Tr, Tf of the object *)
  hsSteps : list (nat * list gres * list (list gres) * list (list gres));
  hsfPi : list float; hsfTr : list (list float); hsfTf : list (list float);   (* log-values after the last call *)
  hsSeqs : list hseq
}.
Definition step_ok (se : @hst Qc * bool * bool) (ob : nat * list gres * list (list gres) * list (list gres)) : bool :=
  let '(er, gpi, gtr, gtf) := ob in
  let '(st, e, p) := se in
  Nat.eqb er (if p then 2 else if e then 1 else 0) && list_rel approx (stPi st) gpi &&
  list_rel (list_rel approx) (stTr st) gtr && list_rel (list_rel approx) (stTf st) gtf.
Fixpoint steps_fails (k : nat) (ms : list (@hst Qc * bool * bool))
         (obs : list (nat * list gres * list (list gres) * list (list gres))) : list nat :=
  match ms, obs with
  | [], [] => []
  | se :: ms', ob :: obs' => (if step_ok se ob then [] else [1000 + k]) ++ steps_fails (S k) ms' obs'
  | _, _ => [999]
  end.
Definition hsfails (c : hscase) : list nat :=
  let m := hsM c in
  let ops := map xop_of (hsOps c) in
  let s0 := init OpsQc (qcl (hsPiRaw c)) (map qcl (hsTrRaw c)) in
  let sF := xrun OpsQc m ops s0 in
  let cF := cur_run OpsQc m ops (cur_init OpsQc (qcl (hsPiRaw c)) (map qcl (hsTrRaw c))) in
  steps_fails 0 ((s0, false, false) :: xtrace OpsQc m ops s0) (hsSteps c) ++
  (* the derived state of the model is the one the current parameters call for (proved: ProofsHist.xrun_all) *)
  (if list_eqb (list_eqb Qc_eqb) (stTf sF) (tf_of OpsQc (cuTr cF) (cuFinal cF)) &&
      list_eqb (list_eqb Qc_eqb) (stTr sF) (cuTr cF) && list_eqb Qc_eqb (stPi sF) (cuPi cF) then [] else [998]) ++
  seqs_fails m (stPi sF) (stTr sF) (stTf sF) (hsMap c) (hsfPi c) (hsfTr c) (hsfTf c) 0 (hsSeqs c).

(* ---- Posterior with repeated states on the plain cases of Corr.v ---- *)
Definition dup_fails (c : case) : list nat :=
  match c with
  | CH h => flat_map (fun ks => if chk2_postdup (hM h) (mPi h) (mTr h) (mTf h) (hMap h) (snd ks) then []
                                else [10 * (S (fst ks)) + 8])
                     (combine (seq 0 (length (hSeqs h))) (hSeqs h))
  | _ => []
  end.

(* ---- Posterior: precondition ---- *)
Definition pre_ok (m n : nat) (sts : list (list Z)) (panicked iserr : bool) : bool :=
  if negb (n =? length sts) then iserr && negb panicked
  else Bool.eqb panicked (negb (posterior_pre m sts)) && negb iserr.

Inductive xcase :=
| XC (c : case)
| XChmm (c : chcase)
| XHhmm (c : hhcase)
| XPre (m n : nat) (sts : list (list Z)) (panicked iserr : bool)
| XHist (c : hscase).
Definition xfails (c : xcase) : list nat :=
  match c with
  | XC c => fails c ++ dup_fails c
  | XChmm c => chfails c
  | XHhmm c => hhfails c
  | XPre m n sts p e => if pre_ok m n sts p e then [] else [1]
  | XHist c => hsfails c
  end.
Definition xcheck (c : xcase) : bool := match xfails c with [] => true | _ => false end.
Definition xmism (cs : list xcase) : list nat := mismatches xcheck cs.
