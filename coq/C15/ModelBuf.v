(* C15 (round 2) — the recursions as state transformers on WORK BUFFERS.

   Model.v describes forward / backward / Posterior as pure functions that
   build fresh columns.  The Go code writes into matrices and vectors it is
   handed: Baum-Welch (hmm_baumWelch.go, baumWelchThread) keeps ONE alpha and ONE
   beta matrix per thread, sized for the longest sequence, and runs
   float64ForwardBackward on them for every record of that thread, so a short
   sequence is processed on top of whatever a longer one left behind; Posterior
   (hmm.go:349-475) ping-pongs between two vectors that it only writes at the
   listed states.  Here the buffers are explicit input state with ARBITRARY
   prior content:

     mat          a work matrix, b i k = b.At(i, k) (row = state, column = position);
                  a total map, i.e. a matrix at least as large as every index used
     forward_buf / backward_buf        hmm.go:479-583 (generic Scalar code)
     oforward_buf / obackward_buf      hmm_optimized.go:28-136 (AT/LOGADD/ADD copy)
     posterior_buf                     hmm.go:349-475 with the two alpha vectors as input
     bw_record / bw_thread / bw_step   hmm_baumWelch.go: one record, all records of one
                                       thread on the same alpha/beta, merge + normalize

   Every cell access of the Go loops is a read or a write of the buffer, in the
   order of the code (including the accumulation of a cell in place:
   SetFloat64(-Inf) followed by LogAdd(at, t1) into the same cell).
   No proofs in this file. *)
From Coq Require Import List Arith Bool ZArith QArith Qcanon.
From ADV Require Import C15.Model.
Import ListNotations.
Open Scope nat_scope.

Section BUF.
  Context {A : Type} (O : Ops A).
  Variable m : nat.
  Variable Pi : nat -> A.
  Variable Tr Tf : nat -> nat -> A.
  Variable smap : nat -> nat.
  Variable e : nat -> nat -> A.

  Definition mat := nat -> nat -> A.
  Definition mset (b : mat) (i k : nat) (v : A) : mat :=
    fun i' k' => if (i' =? i) && (k' =? k) then v else b i' k'.
  Notation st := (seq 0 m).

  (* ---- forward (hmm.go:479-534) ---- *)
  (* at := alpha.At(j,k); at.SetFloat64(-Inf);
     for i { t1.Add(T(i,j), alpha.At(i,kp)); at.LogAdd(at, t1) };  at.Add(at, e(j,k)) *)
  Definition fcell (T : nat -> nat -> A) (kp : nat) (a : mat) (j k : nat) : mat :=
    let a1 := fold_left (fun a i => mset a j k (oadd O (a j k) (omul O (T i j) (a i kp)))) st
                        (mset a j k (o0 O)) in
    mset a1 j k (omul O (a1 j k) (e (smap j) k)).
  Definition forward_buf (alpha : mat) (n : nat) : mat :=
    (* if n > 0 { for i { alpha.At(i,0).Add(Pi.At(i), e(i,0)) } } *)
    let a0 := if 0 <? n then fold_left (fun a i => mset a i 0 (omul O (Pi i) (e (smap i) 0))) st alpha
              else alpha in
    (* for k := 1; k < n-1; k++ { for j { ... } } *)
    let a1 := fold_left (fun a k => fold_left (fun a j => fcell Tr (k - 1) a j k) st a) (seq 1 (n - 2)) a0 in
    (* if n > 1 { for j { ... Tf ..., alpha.At(i, n-2) ... } } *)
    if 1 <? n then fold_left (fun a j => fcell Tf (n - 2) a j (n - 1)) st a1 else a1.

  (* ---- backward (hmm.go:536-583) ---- *)
  (* bs := beta.At(i,n-2); bs.SetFloat64(-Inf); for j { t1.Add(Tf(i,j), e(j,n-1)); bs.LogAdd(bs,t1) } *)
  Definition bcell_first (n : nat) (b : mat) (i : nat) : mat :=
    fold_left (fun b j => mset b i (n - 2) (oadd O (b i (n - 2)) (omul O (Tf i j) (e (smap j) (n - 1))))) st
              (mset b i (n - 2) (o0 O)).
  (* bs := beta.At(i,k); bs.SetFloat64(-Inf);
     for j { t1.Add(Tr(i,j), beta.At(j,k+1)); t1.Add(t1, e(j,k+1)); bs.LogAdd(bs,t1) } *)
  Definition bcell (b : mat) (i k : nat) : mat :=
    fold_left (fun b j => mset b i k (oadd O (b i k) (omul O (omul O (Tr i j) (b j (k + 1))) (e (smap j) (k + 1))))) st
              (mset b i k (o0 O)).
  Definition backward_buf (beta : mat) (n : nat) : mat :=
    (* if n > 0 { for i { beta.At(i, n-1).SetFloat64(0.0) } }      <- the initialisation *)
    let b0 := if 0 <? n then fold_left (fun b i => mset b i (n - 1) (o1 O)) st beta else beta in
    let b1 := if 1 <? n then fold_left (fun b i => bcell_first n b i) st b0 else b0 in
    (* for k := n-3; k >= 0; k-- { for i { ... } } *)
    fold_left (fun b k => fold_left (fun b i => bcell b i k) st b) (rev (seq 0 (n - 2))) b1.

  (* ---- the float64-specialised copy (hmm_optimized.go), written out a second time ---- *)
  Definition ofcell (T : nat -> nat -> A) (kp : nat) (a : mat) (j k : nat) : mat :=
    let a1 := fold_left (fun a i => let t1 := omul O (T i j) (a i kp) in mset a j k (oadd O (a j k) t1)) st
                        (mset a j k (o0 O)) in
    mset a1 j k (omul O (a1 j k) (e (smap j) k)).
  Definition oforward_buf (alpha : mat) (n : nat) : mat :=
    let a0 := if 0 <? n then fold_left (fun a i => mset a i 0 (omul O (Pi i) (e (smap i) 0))) st alpha
              else alpha in
    let a1 := fold_left (fun a k => fold_left (fun a j => ofcell Tr (k - 1) a j k) st a) (seq 1 (n - 2)) a0 in
    if 1 <? n then fold_left (fun a j => ofcell Tf (n - 2) a j (n - 1)) st a1 else a1.
  Definition obcell_first (n : nat) (b : mat) (i : nat) : mat :=
    fold_left (fun b j => let t1 := omul O (Tf i j) (e (smap j) (n - 1)) in
                          mset b i (n - 2) (oadd O (b i (n - 2)) t1)) st
              (mset b i (n - 2) (o0 O)).
  Definition obcell (b : mat) (i k : nat) : mat :=
    fold_left (fun b j => let t1 := omul O (Tr i j) (b j (k + 1)) in
                          let t1' := omul O t1 (e (smap j) (k + 1)) in
                          mset b i k (oadd O (b i k) t1')) st
              (mset b i k (o0 O)).
  Definition obackward_buf (beta : mat) (n : nat) : mat :=
    let b0 := if 0 <? n then fold_left (fun b i => mset b i (n - 1) (o1 O)) st beta else beta in
    let b1 := if 1 <? n then fold_left (fun b i => obcell_first n b i) st b0 else b0 in
    fold_left (fun b k => fold_left (fun b i => obcell b i k) st b) (rev (seq 0 (n - 2))) b1.

  (* float64ForwardBackward on the two work matrices of a thread *)
  Definition ofb_buf (ab : mat * mat) (n : nat) : mat * mat :=
    (oforward_buf (fst ab) n, obackward_buf (snd ab) n).

  (* read a buffer as columns 0..n-1 (what the harness prints) *)
  Definition mat_cols (b : mat) (n : nat) : list (list A) :=
    map (fun k => map (fun i => b i k) st) (seq 0 n).
End BUF.

(* ---- Posterior of a sequence of state sets with the two alpha vectors as
        input state (hmm.go:349-475): [posterior] of Model.v is the instance with
        freshly allocated vectors (all entries 0.0 = [o1]) ---- *)
Section POSTBUF.
  Context {A : Type} (O : Ops A).
  Variable m : nat.
  Variable Pi : nat -> A.
  Variable Tr Tf : nat -> nat -> A.
  Variable smap : nat -> nat.
  Variable e : nat -> nat -> A.

  Definition pinit_buf (b0 : list A) (st0 : list nat) : list A :=
    fold_left (fun buf i => upd buf i (omul O (Pi i) (e (smap i) 0))) st0 b0.
  Definition posterior_buf (b0 b1 : list A) (n : nat) (sts : list (list nat)) : pres A :=
    if negb (n =? length sts) then PErr else
    match sts with
    | [] => PVal (o1 O)
    | st0 :: rest =>
        let a0 := pinit_buf b0 st0 in
        let '(as_, at0, prevst) := ploop O Tr smap e 1 a0 b1 st0 rest n in
        let lastst := last sts [] in
        let fin := if 1 <? n then pstep O smap e Tf as_ at0 prevst lastst (n - 1) else as_ in
        let r := fold_left (fun r j => oadd O r (at_ O fin j)) lastst (o0 O) in
        let t1 := logpdf O m Pi Tr Tf smap e n in
        if ois0 O t1 then PNaN else PVal (odiv O r t1)
    end.
End POSTBUF.

(* ---- one Baum-Welch step (hmm_baumWelch.go) for the records of ONE thread:
        the same alpha/beta work matrices for every record ---- *)
Section BW.
  Context {A : Type} (O : Ops A).
  Variable m ne : nat.               (* states, emission distributions *)
  Variable Pi : nat -> A.
  Variable Tr Tf : nat -> nat -> A.  (* parameters of hmm2 *)
  Variable smap : nat -> nat.
  Variable hasfinal : bool.          (* obj.finalStates != nil *)
  Notation st := (seq 0 m).

  Record bwst := mkBW {
    bwA : @mat A; bwB : @mat A;      (* tmp.alpha, tmp.beta *)
    bwPi : list A;                   (* tmp.pi *)
    bwTr : list (list A);            (* tmp.tr *)
    bwGam : list (list (list A));    (* per record: gamma contributions [k][c] (tmp.gamma[c][MapIndex k]) *)
    bwLik : A                        (* tmp.likelihood (a sum of logs = a product) *)
  }.

  (* gammaX[i] = alpha(i,k)+beta(i,k); t1 = LOGADD over i; error when -Inf; gammaX[i] -= t1 *)
  Definition bw_gcol (al be : @mat A) (k : nat) : option (list A) :=
    let g := map (fun i => omul O (al i k) (be i k)) st in
    let t1 := lsum O g in
    if ois0 O t1 then None else Some (map (fun x => odiv O x t1) g).
  (* gamma[StateMap[i]][l] = LOGADD(gamma[StateMap[i]][l], gammaTmp[i]), i ascending *)
  Definition bw_gclass (g : list A) : list A :=
    map (fun c => fold_left (fun acc i => if smap i =? c then oadd O acc (nth i g (o0 O)) else acc) st (o0 O))
        (seq 0 ne).
  Fixpoint bw_gammas (al be : @mat A) (ks : list nat) : option (list (list A)) :=
    match ks with
    | [] => Some []
    | k :: r => match bw_gcol al be k with
                | None => None
                | Some g => match bw_gammas al be r with None => None | Some t => Some (bw_gclass g :: t) end
                end
    end.
  (* t := xi(i,j); t.Add(alpha(i,k), Tr(i,j)); t.ADD(t, beta(j,k+1)); t.ADD(t, e(j,k+1)) *)
  Definition bw_xi (al be : @mat A) (e : nat -> nat -> A) (k i j : nat) : A :=
    omul O (omul O (omul O (al i k) (Tr i j)) (be j (k + 1))) (e (smap j) (k + 1)).
  (* xiz: LOGADD over i (outer) and j (inner) *)
  Definition bw_xiz (al be : @mat A) (e : nat -> nat -> A) (k : nat) : A :=
    fold_left (fun z i => fold_left (fun z j => oadd O z (bw_xi al be e k i j)) st z) st (o0 O).
  (* tr(i,j) = LOGADD(tr(i,j), xi(i,j) - xiz) *)
  Definition bw_xi_add (al be : @mat A) (e : nat -> nat -> A) (tr : list (list A)) (k : nat) : list (list A) :=
    let z := bw_xiz al be e k in
    map (fun ir => map (fun jv => oadd O (snd jv) (odiv O (bw_xi al be e k (fst ir) (fst jv)) z))
                       (combine st (snd ir)))
        (combine st tr).

  (* baumWelchThread for one record of length n with emission table e *)
  Definition bw_record (s : bwst) (n : nat) (e : nat -> nat -> A) : option bwst :=
    let al := oforward_buf O m Pi Tr Tf smap e (bwA s) n in
    let be := obackward_buf O m Tr Tf smap e (bwB s) n in
    match bw_gcol al be 0 with
    | None => None
    | Some g0 =>
        let pi' := map (fun pg => oadd O (fst pg) (snd pg)) (combine (bwPi s) g0) in
        match bw_gammas al be (seq 0 n) with
        | None => None
        | Some gam =>
            (* for k < n-1 { if k == n-2 && finalStates != nil { break } ... } *)
            let tr' := fold_left (bw_xi_add al be e) (seq 0 (if hasfinal then n - 2 else n - 1)) (bwTr s) in
            let lik := lsum O (map (fun i => al i (n - 1)) st) in
            Some (mkBW al be pi' tr' (bwGam s ++ [gam]) (omul O (bwLik s) lik))
        end
    end.

  (* all records of the thread, in order; the first error wins *)
  Fixpoint bw_records (s : bwst) (recs : list (nat * (nat -> nat -> A))) : option bwst :=
    match recs with
    | [] => Some s
    | r :: rest => match bw_record s (fst r) (snd r) with
                   | None => None
                   | Some s' => bw_records s' rest
                   end
    end.
  (* tmp.init == false: pi, tr := -Inf, likelihood := 0; alpha and beta are NOT reset *)
  Definition bw_thread (alpha beta : @mat A) (recs : list (nat * (nat -> nat -> A))) : option bwst :=
    bw_records (mkBW alpha beta (repeat (o0 O) m) (repeat (repeat (o0 O) m) m) [] (o1 O)) recs.
End BW.

(* merge of a single thread and hmm1.normalize *)
Section BWNORM.
  Context {A : Type} (O : Ops A).
  Definition bw_new_pi (acc : list A) (start : list Z) : option (list A) :=
    let p := match start with [] => acc | _ => mask_vec O start acc end in
    let t1 := lsum O p in
    if ois0 O t1 then None else Some (map (fun x => odiv O x t1) p).
  Definition bw_new_tr (acc : list (list A)) : list (list A) := norm_mat O acc.
End BWNORM.

(* ---- the reference: posterior expectations by explicit enumeration ---- *)
Section ENUM2.
  Context {A : Type} (O : Ops A).
  Variable m : nat.
  Variable Pi : nat -> A.
  Variable Tr Tf : nat -> nat -> A.
  Variable smap : nat -> nat.
  Variable e : nat -> nat -> A.
  (* total weight of the paths with x_k = i and x_{k+1} = j *)
  Definition enum_pair (n k i j : nat) : A :=
    esum O (map (weight O Pi Tr Tf smap e n)
                (filter (fun p => (nth k p m =? i) && (nth (S k) p m =? j)) (paths m n))).
End ENUM2.
