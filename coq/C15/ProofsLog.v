(* C15 — the log-space code and the probability semiring.
   Log-values are [option R] (None = -Inf) with
       LogAdd a b = ln (e^a + e^b),   Add = +,   Sub = -,
   and exp : log-values -> non-negative reals is a semiring homomorphism; the
   model is natural in the carrier, so LogPdf computed on log-values is the
   logarithm of the enumerated likelihood. *)
From Coq Require Import List Arith Bool Lia Reals Lra.
From ADV Require Import C15.Model C15.Spec C15.ProofsSum C15.ProofsFwd.
Import ListNotations.

(* ---- naturality of the model in the carrier ---- *)
Section HOM.
  Context {A B : Type} (OA : Ops A) (OB : Ops B) (phi : A -> B).
  Hypothesis phi0 : phi (o0 OA) = o0 OB.
  Hypothesis phi1 : phi (o1 OA) = o1 OB.
  Hypothesis phi_add : forall a b, phi (oadd OA a b) = oadd OB (phi a) (phi b).
  Hypothesis phi_mul : forall a b, phi (omul OA a b) = omul OB (phi a) (phi b).
  Variable m : nat.
  Variable Pi : nat -> A.
  Variable Tr Tf : nat -> nat -> A.
  Variable smap : nat -> nat.
  Variable e : nat -> nat -> A.
  Notation Pi' := (fun i => phi (Pi i)).
  Notation Tr' := (fun i j => phi (Tr i j)).
  Notation Tf' := (fun i j => phi (Tf i j)).
  Notation e' := (fun c k => phi (e c k)).

  Lemma at_hom c i : phi (at_ OA c i) = at_ OB (map phi c) i.
  Proof. unfold at_. rewrite <- phi0. symmetry. apply map_nth. Qed.

  Lemma fold_hom {X} (g : X -> A) l : forall a,
    phi (fold_left (fun acc i => oadd OA acc (g i)) l a) =
    fold_left (fun acc i => oadd OB acc (phi (g i))) l (phi a).
  Proof.
    induction l as [|x l IH]; intros a; [reflexivity|]. simpl. rewrite IH, phi_add. reflexivity.
  Qed.

  Lemma fstep_hom T prev k :
    map phi (fstep OA m smap e T prev k) = fstep OB m smap e' (fun i j => phi (T i j)) (map phi prev) k.
  Proof.
    unfold fstep. rewrite map_map. apply map_ext. intros j.
    rewrite phi_mul. f_equal. rewrite (fold_hom (fun i => omul OA (T i j) (at_ OA prev i))), phi0.
    f_equal. apply FunctionalExtensionality.functional_extensionality. intros acc.
    apply FunctionalExtensionality.functional_extensionality. intros i.
    rewrite phi_mul, at_hom. reflexivity.
  Qed.

  Lemma col0_hom : map phi (col0 OA m Pi smap e) = col0 OB m Pi' smap e'.
  Proof. unfold col0. rewrite map_map. apply map_ext. intros i. apply phi_mul. Qed.

  Lemma lploop_hom cnt : forall k prev,
    map phi (lploop OA m Tr smap e cnt k prev) = lploop OB m Tr' smap e' cnt k (map phi prev).
  Proof.
    induction cnt as [|c IH]; intros k prev; [reflexivity|]. simpl. rewrite IH, fstep_hom. reflexivity.
  Qed.

  Lemma sumcol_hom c : phi (sumcol OA c) = sumcol OB (map phi c).
  Proof.
    unfold sumcol. rewrite (fold_hom (fun x => x)), phi0.
    generalize (o0 OB). induction c as [|x c IH]; intros b; [reflexivity|]. simpl. apply IH.
  Qed.

  Lemma logpdf_hom n :
    phi (logpdf OA m Pi Tr Tf smap e n) = logpdf OB m Pi' Tr' Tf' smap e' n.
  Proof.
    destruct n as [|n']; [exact phi1|]. unfold logpdf.
    rewrite sumcol_hom. f_equal.
    destruct (1 <? S n').
    - rewrite fstep_hom, lploop_hom, col0_hom. reflexivity.
    - rewrite lploop_hom, col0_hom. reflexivity.
  Qed.
End HOM.

(* ---- the two carriers ---- *)
Open Scope R_scope.

Definition LR := option R.
Definition LogAdd (a b : LR) : LR :=
  match a, b with
  | None, _ => b
  | _, None => a
  | Some x, Some y => Some (ln (exp x + exp y))
  end.
Definition LAdd (a b : LR) : LR := match a, b with Some x, Some y => Some (x + y) | _, _ => None end.
Definition LSub (a b : LR) : LR := match a, b with Some x, Some y => Some (x - y) | _, _ => None end.
Definition OpsLog : Ops LR :=
  mkOps LR None (Some 0) LogAdd LAdd LSub (fun a => match a with None => true | _ => false end).

Definition OpsR : Ops R :=
  mkOps R 0 1 Rplus Rmult Rdiv (fun a => if Req_EM_T a 0 then true else false).

Definition Exp (a : LR) : R := match a with None => 0 | Some x => exp x end.

Lemma Exp_add a b : Exp (LogAdd a b) = Exp a + Exp b.
Proof.
  destruct a as [x|], b as [y|]; simpl; try lra.
  apply exp_ln. pose proof (exp_pos x). pose proof (exp_pos y). lra.
Qed.
Lemma Exp_mul a b : Exp (LAdd a b) = Exp a * Exp b.
Proof. destruct a as [x|], b as [y|]; simpl; try lra. apply exp_plus. Qed.
Lemma Exp_nonneg a : 0 <= Exp a.
Proof. destruct a as [x|]; simpl; [left; apply exp_pos|lra]. Qed.
Lemma Exp_inv a y : Exp a = y -> (0 < y -> a = Some (ln y)) /\ (y = 0 -> a = None).
Proof.
  intros <-. destruct a as [x|]; simpl; split; intros H.
  - rewrite ln_exp. reflexivity.
  - pose proof (exp_pos x). lra.
  - lra.
  - reflexivity.
Qed.

Lemma OpsR_semiring : CSemiring OpsR.
Proof. constructor; simpl; intros; ring. Qed.

Lemma OpsR_semifield : CSemifield OpsR.
Proof.
  constructor; simpl.
  - exact OpsR_semiring.
  - intros a. destruct (Req_EM_T a 0); split; intros; congruence.
  - intros a b H. destruct (Req_EM_T b 0); [discriminate|]. field. exact n.
  - intros a b H. destruct (Req_EM_T b 0); [discriminate|]. field. exact n.
Qed.

(* LogPdf evaluated on log-values, with LogAdd a b = ln(e^a + e^b): its
   exponential is the enumeration over all paths of the product of the
   exponentiated parameters; hence it is the logarithm of that sum, and -Inf
   exactly when the sum is zero. *)
Lemma logpdf_log_space m (Pi : nat -> LR) (Tr Tf : nat -> nat -> LR) smap (e : nat -> nat -> LR) n :
  let L := enum_likelihood OpsR m (fun i => Exp (Pi i)) (fun i j => Exp (Tr i j)) (fun i j => Exp (Tf i j))
                           smap (fun c k => Exp (e c k)) n in
  Exp (logpdf OpsLog m Pi Tr Tf smap e n) = L /\
  (0 < L -> logpdf OpsLog m Pi Tr Tf smap e n = Some (ln L)) /\
  (L = 0 -> logpdf OpsLog m Pi Tr Tf smap e n = None).
Proof.
  intros L.
  assert (E : Exp (logpdf OpsLog m Pi Tr Tf smap e n) = L).
  { rewrite (logpdf_hom OpsLog OpsR Exp eq_refl exp_0 Exp_add Exp_mul).
    apply (logpdf_enum OpsR OpsR_semiring). }
  split; [exact E|]. apply Exp_inv. exact E.
Qed.
