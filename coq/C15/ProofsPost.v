(* C15 (round 2) — Hmm.Posterior over sequences of state sets (hmm.go:349-475):
   the restricted forward recursion over the two swapped vectors computes, for
   ARBITRARY prior content of both vectors, the total weight of the paths with
   x_k in states[k] for every k; the result is that sum over the likelihood.

   Proof idea: restricting position k to the set S_k is the same as running the
   unrestricted forward recursion with the emission table
       e'(i,k) = e(smap i, k) if i in S_k, zero otherwise      (state map = identity);
   the cells of the swapped vectors that are read (those of S_{k-1}) were written
   in the step before, all other cells -- stale ones included -- are never read. *)
From Coq Require Import List Arith Bool Lia Ring.
From ADV Require Import C15.Model C15.ModelBuf C15.Spec C15.ProofsSum C15.ProofsFwd.
Import ListNotations.

Definition memb (j : nat) (l : list nat) : bool := existsb (Nat.eqb j) l.

Lemma memb_In j l : memb j l = true <-> In j l.
Proof.
  unfold memb. rewrite existsb_exists. split.
  - intros [x [Hx E]]. apply Nat.eqb_eq in E. subst. exact Hx.
  - intros H. exists j. split; [exact H|apply Nat.eqb_refl].
Qed.
Lemma memb_notIn j l : ~ In j l -> memb j l = false.
Proof. intros H. destruct (memb j l) eqn:E; [|reflexivity]. apply memb_In in E. contradiction. Qed.

Lemma map_nth_seq {X} (l : list X) d : map (fun k => nth k l d) (seq 0 (length l)) = l.
Proof.
  induction l as [|a l IH]; [reflexivity|].
  cbn [length seq map nth]. f_equal. rewrite <- seq_shift, map_map. exact IH.
Qed.
Lemma last_nth_len {X} (l : list X) d : last l d = nth (length l - 1) l d.
Proof.
  induction l as [|a l IH]; [reflexivity|].
  destruct l as [|b l]; [reflexivity|].
  change (last (a :: b :: l) d) with (last (b :: l) d). rewrite IH.
  cbn [length]. replace (S (S (length l)) - 1) with (S (S (length l) - 1)) by lia. reflexivity.
Qed.

Lemma list_nil_or_cons {X} (l : list X) : l = [] \/ exists a r, l = a :: r.
Proof. destruct l as [|a r]; [left; reflexivity|right; exists a, r; reflexivity]. Qed.

Section UPD.
  Context {A : Type} (O : Ops A).
  Lemma upd_length (l : list A) j v : length (upd l j v) = length l.
  Proof.
    unfold upd. destruct (Nat.ltb_spec j (length l)) as [H|H]; [|reflexivity].
    rewrite app_length, firstn_length. cbn [length]. rewrite skipn_length. lia.
  Qed.
  Lemma upd_at (l : list A) j v i :
    at_ O (upd l j v) i = if (i =? j) && (j <? length l) then v else at_ O l i.
  Proof.
    unfold upd, at_. destruct (Nat.ltb_spec j (length l)) as [H|H].
    - rewrite andb_true_r. destruct (Nat.eqb_spec i j) as [->|Hne].
      + rewrite app_nth2 by (rewrite firstn_length; lia).
        rewrite firstn_length. replace (j - Nat.min j (length l)) with 0 by lia. reflexivity.
      + destruct (Nat.lt_ge_cases i j) as [Hlt|Hge].
        * rewrite app_nth1 by (rewrite firstn_length; lia).
          rewrite <- (firstn_skipn j l) at 2. rewrite app_nth1 by (rewrite firstn_length; lia). reflexivity.
        * rewrite app_nth2 by (rewrite firstn_length; lia). rewrite firstn_length.
          replace (Nat.min j (length l)) with j by lia.
          replace (i - j) with (S (i - j - 1)) by lia. cbn [nth].
          rewrite <- (firstn_skipn (S j) l) at 2.
          rewrite app_nth2 by (rewrite firstn_length; lia). rewrite firstn_length.
          f_equal. lia.
    - rewrite andb_false_r. reflexivity.
  Qed.

  (* a loop that writes F(j) at every listed position j *)
  Lemma fold_upd (F : nat -> A) cur : forall buf,
    let r := fold_left (fun b j => upd b j (F j)) cur buf in
    length r = length buf /\
    forall i, at_ O r i = if memb i cur && (i <? length buf) then F i else at_ O buf i.
  Proof.
    induction cur as [|j cur IH]; intros buf; cbn [fold_left].
    - split; [reflexivity|]. intros i. reflexivity.
    - destruct (IH (upd buf j (F j))) as [L R]. cbv zeta in L, R. split.
      + rewrite L. apply upd_length.
      + intros i. rewrite R, upd_length, upd_at. unfold memb. cbn [existsb].
        destruct (Nat.eqb_spec i j) as [->|Hne]; cbn [orb andb].
        * destruct (existsb (Nat.eqb j) cur); cbn [andb]; destruct (j <? length buf); reflexivity.
        * reflexivity.
  Qed.
End UPD.

Section POST.
  Context {A : Type} (O : Ops A) (CF : CSemifield O).
  Let CS := sf_semiring O CF.
  Variable m : nat.
  Variable Pi : nat -> A.
  Variable Tr Tf : nat -> nat -> A.
  Variable smap : nat -> nat.
  Variable e : nat -> nat -> A.
  Variable sts : list (list nat).
  Notation "a (+) b" := (oadd O a b) (at level 50, left associativity).
  Notation "a (x) b" := (omul O a b) (at level 40, left associativity).
  Notation zero := (o0 O).
  Notation one := (o1 O).
  Notation sum := (esum O).
  Notation TK := (Tk Tr Tf).
  Notation st := (seq 0 m).
  Notation Sx := (fun k => nth k sts []).

  Add Ring srp : (srt O CS).

  (* the emission table that encodes the restriction *)
  Definition e' (c k : nat) : A := if memb c (nth k sts []) then e (smap c) k else zero.
  Notation idm := (fun i : nat => i).
  Notation A' := (Aiter O m Pi Tr Tf idm e').

  Hypothesis Hnodup : forall k, NoDup (nth k sts []).
  Hypothesis Hrange : forall k i, In i (nth k sts []) -> i < m.

  (* a sum over a duplicate-free list of states below m is a masked sum over all states *)
  Lemma sum_over_set (f : nat -> A) l : NoDup l -> (forall i, In i l -> i < m) ->
    sum (map f l) = sum (map (fun i => if memb i l then f i else zero) st).
  Proof.
    induction l as [|a l IH]; intros ND Hr.
    - simpl. symmetry. apply (esum_zero O CS).
    - inversion ND as [|x y Hnin ND']; subst. change (sum (map f (a :: l))) with (f a (+) sum (map f l)).
      rewrite IH by (auto; intros i Hi; apply Hr; right; exact Hi).
      rewrite <- (esum_pick O CS f 0 m a) by (split; [lia|apply Hr; left; reflexivity]).
      rewrite <- (esum_add O CS). apply (esum_ext O). intros i _.
      unfold memb. cbn [existsb]. destruct (Nat.eqb_spec i a) as [->|Hne]; cbn [orb].
      + fold (memb a l). rewrite (memb_notIn a l Hnin). ring.
      + ring.
  Qed.

  (* entries of the encoded forward column outside the set are zero *)
  Lemma A'_entry n k j : j < m ->
    at_ O (A' n k) j =
    match k with
    | 0 => Pi j (x) e' j 0
    | S k' => fold_left (fun acc i => acc (+) TK n k i j (x) at_ O (A' n k') i) st zero (x) e' j k
    end.
  Proof.
    intros Hj. destruct k as [|k']; cbn [Aiter]; unfold col0, fstep, states, at_; rewrite nth_map_seq by exact Hj; reflexivity.
  Qed.
  Lemma A'_outside n k j : j < m -> memb j (nth k sts []) = false -> at_ O (A' n k) j = zero.
  Proof.
    intros Hj Hm. rewrite A'_entry by exact Hj. unfold e'. destruct k; rewrite Hm; ring.
  Qed.

  (* what the swapped vector must hold after position k: only its cells in S_k matter *)
  Definition Inv (n : nat) (buf : list A) (k : nat) : Prop :=
    length buf = m /\ forall i, In i (nth k sts []) -> at_ O buf i = at_ O (A' n k) i.

  Lemma pinit_inv n b0 : length b0 = m -> Inv n (pinit_buf O Pi smap e b0 (nth 0 sts [])) 0.
  Proof.
    intros Hl. unfold pinit_buf.
    destruct (fold_upd O (fun i => Pi i (x) e (smap i) 0) (nth 0 sts []) b0) as [L R]. cbv zeta in L, R.
    split; [rewrite L; exact Hl|]. intros i Hi. rewrite R.
    pose proof (Hrange 0 i Hi) as Him. rewrite (proj2 (memb_In i _) Hi).
    replace (i <? length b0) with true by (symmetry; apply Nat.ltb_lt; lia). cbn [andb].
    rewrite A'_entry by exact Him. unfold e'. rewrite (proj2 (memb_In i _) Hi). reflexivity.
  Qed.

  Lemma pstep_inv n k T as_ at0 : T = TK n (S k) -> Inv n as_ k -> length at0 = m ->
    Inv n (pstep O smap e T as_ at0 (nth k sts []) (nth (S k) sts []) (S k)) (S k).
  Proof.
    intros HT [La Ha] Lt. unfold pstep.
    destruct (fold_upd O (fun j => fold_left (fun acc i => acc (+) T i j (x) at_ O as_ i) (nth k sts []) zero (x) e (smap j) (S k))
                       (nth (S k) sts []) at0) as [L R]. cbv zeta in L, R.
    split; [rewrite L; exact Lt|]. intros j Hj. rewrite R.
    pose proof (Hrange _ j Hj) as Hjm. rewrite (proj2 (memb_In j _) Hj).
    replace (j <? length at0) with true by (symmetry; apply Nat.ltb_lt; lia). cbn [andb].
    rewrite A'_entry by exact Hjm. unfold e' at 2. rewrite (proj2 (memb_In j _) Hj). f_equal.
    rewrite !(fold_left_esum0 O CS).
    rewrite (esum_ext O _ (fun i => T i j (x) at_ O (A' n k) i)) by (intros i Hi; rewrite Ha by exact Hi; reflexivity).
    rewrite sum_over_set by (auto; apply Hrange). apply (esum_ext O). intros i Hi.
    apply in_seq in Hi. subst T. destruct (memb i (nth k sts [])) eqn:Em; [reflexivity|].
    rewrite A'_outside by (auto; lia). ring.
  Qed.

  (* the middle loop *)
  Lemma ploop_inv n cnt : forall k as_ at0, k + cnt = n -> 1 <= k -> Inv n as_ (k - 1) -> length at0 = m ->
    let '(as', at', prev') := ploop O Tr smap e k as_ at0 (nth (k - 1) sts []) (map Sx (seq k cnt)) n in
    let kk := if cnt =? 0 then k - 1 else n - 2 in
    Inv n as' kk /\ length at' = m /\ prev' = nth kk sts [].
  Proof.
    induction cnt as [|c IH]; intros k as_ at0 Hk Hk1 HI Lt.
    - simpl. repeat split; try assumption; apply HI.
    - cbn [seq map ploop]. destruct (Nat.ltb_spec k (n - 1)) as [Hlt|Hge].
      + assert (HI' : Inv n (pstep O smap e Tr as_ at0 (nth (k - 1) sts []) (nth k sts []) k) k).
        { pose proof (pstep_inv n (k - 1) Tr as_ at0) as P.
          replace (S (k - 1)) with k in P by lia. apply P; [|exact HI|exact Lt].
          symmetry. apply Tk_mid. lia. }
        specialize (IH (S k) (pstep O smap e Tr as_ at0 (nth (k - 1) sts []) (nth k sts []) k) as_ ltac:(lia) ltac:(lia)).
        replace (S k - 1) with k in IH by lia.
        specialize (IH HI' (proj1 HI)).
        destruct (ploop O Tr smap e (S k) (pstep O smap e Tr as_ at0 (nth (k - 1) sts []) (nth k sts []) k) as_ (nth k sts []) (map Sx (seq (S k) c)) n) as [[as' at'] prev'].
        replace (c =? 0) with false in IH by (symmetry; apply Nat.eqb_neq; lia). exact IH.
      + simpl (S c =? 0). cbv iota zeta. replace (n - 2) with (k - 1) by lia.
        repeat split; try assumption; apply HI.
  Qed.

  (* the encoded weight of a path is its weight if it stays inside the sets, else zero *)
  Lemma wtail'_spec n : forall p k prev, k + length p = length sts ->
    wtail O Tr Tf idm e' n k prev p =
    if forallb (fun xs => existsb (Nat.eqb (fst xs)) (snd xs)) (combine p (skipn k sts))
    then wtail O Tr Tf smap e n k prev p else zero.
  Proof.
    induction p as [|x r IH]; intros k prev Hl; [reflexivity|].
    cbn [length] in Hl.
    assert (Hsk : skipn k sts = nth k sts [] :: skipn (S k) sts).
    { clear -Hl. revert k Hl. induction sts as [|s l IHl]; intros k Hl; [simpl in Hl; lia|].
      destruct k as [|k]; [reflexivity|]. simpl. apply IHl. simpl in Hl. lia. }
    rewrite Hsk. cbn [wtail combine forallb fst snd]. rewrite IH by lia.
    unfold e'. fold (memb x (nth k sts [])). destruct (memb x (nth k sts [])); cbn [andb].
    - destruct (forallb _ _); [reflexivity|ring].
    - ring.
  Qed.

  Lemma weight'_spec n p : length p = length sts ->
    weight O Pi Tr Tf idm e' n p = if in_sets sts p then weight O Pi Tr Tf smap e n p else zero.
  Proof.
    intros Hl. destruct p as [|x r].
    - destruct sts; [reflexivity|discriminate].
    - destruct sts as [|s0 l] eqn:Es; [discriminate|].
      unfold in_sets. cbn [weight combine forallb fst snd].
      pose proof (wtail'_spec n r 1 x) as W. rewrite Es in W. cbn [skipn] in W.
      rewrite W by (simpl in *; lia).
      unfold e'. rewrite Es. cbn [nth]. fold (memb x s0). destruct (memb x s0); cbn [andb].
      + destruct (forallb _ _); [reflexivity|ring].
      + ring.
  Qed.

  Lemma enum_sets_encoded n : length sts = n ->
    enum_likelihood O m Pi Tr Tf idm e' n = enum_sets O m Pi Tr Tf smap e n sts.
  Proof.
    intros Hn. unfold enum_likelihood, enum_sets. rewrite (esum_filter O CS).
    apply (esum_ext O). intros p Hp. apply weight'_spec. rewrite (paths_length m n p Hp). auto.
  Qed.

  (* Posterior on arbitrary prior content of the two swapped vectors *)
  Theorem posterior_buf_spec n b0 b1 : 0 < n -> length sts = n -> length b0 = m -> length b1 = m ->
    posterior_buf O m Pi Tr Tf smap e b0 b1 n sts =
    if ois0 O (enum_likelihood O m Pi Tr Tf smap e n) then PNaN
    else PVal (odiv O (enum_sets O m Pi Tr Tf smap e n sts) (enum_likelihood O m Pi Tr Tf smap e n)).
  Proof.
    intros Hn Hl L0 L1. unfold posterior_buf.
    rewrite Hl, Nat.eqb_refl. cbn [negb].
    destruct (list_nil_or_cons sts) as [E|[st0 [rest Es]]]; [rewrite E in Hl; simpl in Hl; lia|].
    assert (Erest : rest = map Sx (seq 1 (n - 1))).
    { rewrite <- seq_shift, map_map. rewrite Es. cbn [nth].
      replace (n - 1) with (length rest) by (rewrite Es in Hl; simpl in Hl; lia). symmetry. apply map_nth_seq. }
    assert (Est0 : st0 = nth 0 sts []) by (rewrite Es; reflexivity).
    set (l := sts) at 1. assert (El : l = st0 :: rest) by exact Es. clearbody l. rewrite El. clear El l.
    rewrite Erest, Est0.
    pose proof (ploop_inv n (n - 1) 1 (pinit_buf O Pi smap e b0 (nth 0 sts [])) b1 ltac:(lia) ltac:(lia)) as PL.
    simpl (1 - 1) in PL. specialize (PL (pinit_inv n b0 L0) L1).
    destruct (ploop O Tr smap e 1 _ b1 (nth 0 sts []) (map Sx (seq 1 (n - 1))) n) as [[as_ at0] prevst].
    cbv zeta in PL. destruct PL as [HI [Lt Hprev]].
    rewrite last_nth_len, Hl.
    (* the vector that is summed at the end holds position n-1 *)
    assert (HF : Inv n (if 1 <? n then pstep O smap e Tf as_ at0 prevst (nth (n - 1) sts []) (n - 1) else as_) (n - 1)).
    { destruct (Nat.ltb_spec 1 n) as [H1|H1].
      - replace (n - 1 =? 0) with false in * by (symmetry; apply Nat.eqb_neq; lia).
        subst prevst. pose proof (pstep_inv n (n - 2) Tf as_ at0) as P.
        replace (S (n - 2)) with (n - 1) in P by lia. apply P; [|exact HI|exact Lt].
        symmetry. apply Tk_last. lia.
      - replace (n - 1 =? 0) with true in * by (symmetry; apply Nat.eqb_eq; lia).
        replace (n - 1) with (1 - 1) by lia. exact HI. }
    set (fin := if 1 <? n then _ else as_) in *.
    rewrite (logpdf_enum O CS).
    assert (Er : fold_left (fun r j => r (+) at_ O fin j) (nth (n - 1) sts []) zero =
                 enum_sets O m Pi Tr Tf smap e n sts).
    { rewrite (fold_left_esum0 O CS). destruct HF as [_ HF].
      rewrite (esum_ext O _ (fun j => at_ O (A' n (n - 1)) j)) by exact HF.
      rewrite sum_over_set by (auto; apply Hrange).
      rewrite (esum_ext O _ (fun j => at_ O (A' n (n - 1)) j)).
      2:{ intros j Hj. apply in_seq in Hj. destruct (memb j (nth (n - 1) sts [])) eqn:Em; [reflexivity|].
          symmetry. apply A'_outside; [lia|exact Em]. }
      rewrite (Aiter_spec O CS).
      rewrite (esum_ext O _ (alpha_spec O m Pi Tr Tf idm e' n (n - 1))).
      2:{ intros j Hj. apply in_seq in Hj. unfold at_. apply nth_map_seq. lia. }
      rewrite (alpha_total O CS) by lia. apply enum_sets_encoded. exact Hl. }
    rewrite Er. reflexivity.
  Qed.
End POST.

(* closed form: no section hypotheses *)
Lemma posterior_buf_enum A (O : Ops A) (CF : CSemifield O) m Pi Tr Tf smap e n sts b0 b1 :
  0 < n -> length sts = n -> length b0 = m -> length b1 = m ->
  (forall s, In s sts -> NoDup s /\ forall i, In i s -> i < m) ->
  posterior_buf O m Pi Tr Tf smap e b0 b1 n sts =
  if ois0 O (enum_likelihood O m Pi Tr Tf smap e n) then PNaN
  else PVal (odiv O (enum_sets O m Pi Tr Tf smap e n sts) (enum_likelihood O m Pi Tr Tf smap e n)).
Proof.
  intros Hn Hl L0 L1 Hs. apply (posterior_buf_spec O CF); try assumption.
  - intros k. destruct (Nat.lt_ge_cases k (length sts)) as [H|H].
    + apply Hs. apply nth_In. exact H.
    + rewrite nth_overflow by exact H. constructor.
  - intros k i Hi. destruct (Nat.lt_ge_cases k (length sts)) as [H|H].
    + apply (proj2 (Hs _ (nth_In sts [] H))). exact Hi.
    + rewrite nth_overflow in Hi by exact H. destruct Hi.
Qed.

(* Hmm.Posterior as modelled in round 1 is the instance with fresh vectors *)
Lemma posterior_is_buf A (O : Ops A) m Pi Tr Tf smap e n sts :
  posterior O m Pi Tr Tf smap e n sts =
  posterior_buf O m Pi Tr Tf smap e (repeat (o1 O) m) (repeat (o1 O) m) n sts.
Proof. reflexivity. Qed.

Lemma posterior_enum A (O : Ops A) (CF : CSemifield O) m Pi Tr Tf smap e n sts :
  0 < n -> length sts = n ->
  (forall s, In s sts -> NoDup s /\ forall i, In i s -> i < m) ->
  posterior O m Pi Tr Tf smap e n sts =
  if ois0 O (enum_likelihood O m Pi Tr Tf smap e n) then PNaN
  else PVal (odiv O (enum_sets O m Pi Tr Tf smap e n sts) (enum_likelihood O m Pi Tr Tf smap e n)).
Proof.
  intros Hn Hl Hs. rewrite posterior_is_buf.
  apply (posterior_buf_enum A O CF); try assumption; apply repeat_length.
Qed.
