(* C15 (round 3) — the transition matrices of the constrained and of the
   hierarchical HMM (statistics/generic/constrainedHmm.go, hierarchicalHmm.go)
   and how generic.Hmm uses them (hmm.go: newHmm -> normalizeTr, SetFinalStates
   -> normalizeTf call the Normalize method of WHATEVER TransitionMatrix the
   model holds).

   Same carrier as Model.v ([Ops]: LogAdd / Add / Sub / -Inf / 0.0 / IsInf(.,-1)).
   A matrix is a total map [tmat]; cells are written in place as in the Go code.

   ChmmTransitionMatrix
     complementConstraints   chmm_complement   (error on a cell listed twice; every
                                                non-zero cell not listed becomes a singleton group)
     computeCounts           chmm_count
     Normalize               chmm_prestep (an all-zero row i gets (i,i) := 0.0), then
                             computeLambda -- Newton's method on EvalConstraints, an ORACLE
                             here: [lam] is whatever vector it returns, [None] its failure --
                             then normalize(lambda) = chmm_apply
     evalConstraints         chmm_evalc (the function whose root Newton looks for, plus one)
   HhmmTransitionMatrix
     Normalize               hnorm on the tree [htree] (normalizeLeaf / normalizeInt /
                             renormalizeSubmatrix); a division 0/0 or x/0 (NaN / +Inf in
                             Go, which goes on computing) is the result [None]
   No proofs in this file. *)
From Coq Require Import List Arith Bool ZArith QArith Qcanon.
From ADV Require Import C15.Model.
Import ListNotations.
Open Scope nat_scope.

Section CH.
  Context {A : Type} (O : Ops A).

  Definition tmat := nat -> nat -> A.
  Definition tset (T : tmat) (i j : nat) (v : A) : tmat :=
    fun i' j' => if (i' =? i) && (j' =? j) then v else T i' j'.
  Definition tmat_rows (n : nat) (T : tmat) : list (list A) :=
    map (fun i => map (T i) (seq 0 n)) (seq 0 n).
  Definition tmat_of (l : list (list A)) : tmat := fun i j => nth j (nth i l []) (o0 O).

  (* math.Log(float64(c)): the log-value of the natural number c = 1 + ... + 1 *)
  Fixpoint onat (c : nat) : A :=
    match c with 0 => o0 O | S c' => oadd O (onat c') (o1 O) end.

  (* Hmm.normalizeTf (hmm.go:167-181): Tf(i,j) := -Inf for j not final, else Tr(i,j) *)
  Definition tmask (final : list Z) (T : tmat) : tmat :=
    fun i j => if zmem j final then T i j else o0 O.

  (* ================= ChmmTransitionMatrix ================= *)
  Definition cell := (nat * nat)%type.
  Definition cell_eqb (a b : cell) : bool := (fst a =? fst b) && (snd a =? snd b).
  Definition group := list cell.
  Definition cmem (c : cell) (l : list cell) : bool := existsb (cell_eqb c) l.
  (* cmap of complementConstraints: the first cell met a second time is an error *)
  Fixpoint has_dup (l : list cell) : bool :=
    match l with [] => false | c :: r => cmem c r || has_dup r end.

  Section CHMM.
    Variable n : nat.                  (* the matrix is n x n *)
    Definition rowsum (T : tmat) (i : nat) : A :=
      fold_left (fun r j => oadd O r (T i j)) (seq 0 n) (o0 O).
    (* for i, for j: skip -Inf cells; append {(i,j)} unless the cell is in cmap *)
    Definition chmm_complement (X : tmat) (cons : list group) : option (list group) :=
      if has_dup (concat cons) then None
      else Some (cons ++
                 flat_map (fun i => flat_map (fun j =>
                     if ois0 O (X i j) then [] else if cmem (i, j) (concat cons) then [] else [[(i, j)]])
                   (seq 0 n)) (seq 0 n)).
    (* counts[k][j]: number of cells of group k in row j *)
    Definition chmm_count (g : group) (j : nat) : nat := length (filter (fun c => fst c =? j) g).
    (* Normalize, first loop: t1 = LogAdd over the row; if -Inf then At(i,i) := 0.0 *)
    Definition chmm_prestep (X : tmat) : tmat :=
      fold_left (fun T i => if ois0 O (rowsum T i) then tset T i i (o1 O) else T) (seq 0 n) X.
    (* sumXi[k] *)
    Definition chmm_xi (X : tmat) (g : group) : A :=
      fold_left (fun r c => oadd O r (X (fst c) (snd c))) g (o0 O).
    (* s = sum_j counts[k][j] * lambda_j   (rows with count 0 are skipped) *)
    Definition chmm_s (lam : nat -> A) (g : group) : A :=
      fold_left (fun s j => if chmm_count g j =? 0 then s
                            else oadd O s (omul O (onat (chmm_count g j)) (lam j))) (seq 0 n) (o0 O).
    (* normalize(lambda): all sumXi first, then for k { for cell in group k { At(cell) := sumXi[k] - s } } *)
    Definition chmm_apply (lam : nat -> A) (X : tmat) (gs : list group) : tmat :=
      fold_left (fun T g => let v := odiv O (chmm_xi X g) (chmm_s lam g) in
                            fold_left (fun T c => tset T (fst c) (snd c) v) g T) gs X.
    (* evalConstraints: x_i = sum over the groups k with a cell in row i of counts[k][i] * sumXi[k] / s_k *)
    Definition chmm_evalc (lam : nat -> A) (X : tmat) (gs : list group) (i : nat) : A :=
      fold_left (fun x g => if chmm_count g i =? 0 then x
                            else oadd O x (odiv O (omul O (onat (chmm_count g i)) (chmm_xi X g)) (chmm_s lam g)))
                gs (o0 O).
    (* Normalize as a whole; on failure of computeLambda the matrix keeps the self loops of the first loop.
       Result: (matrix, error?) *)
    Definition chmm_normalize (lam : option (nat -> A)) (X : tmat) (gs : list group) : tmat * bool :=
      let X1 := chmm_prestep X in
      match lam with
      | None => (X1, true)
      | Some l => (chmm_apply l X1 gs, false)
      end.
    (* NewChmmTransitionMatrix followed by generic.NewHmm (which normalises Tr once more);
       None = an error is returned *)
    Definition chmm_make (lam1 lam2 : option (nat -> A)) (X : tmat) (cons : list group)
      : option (list group * tmat * tmat) :=
      match chmm_complement X cons with
      | None => None
      | Some gs =>
          let '(T1, e1) := chmm_normalize lam1 X gs in
          if e1 then None else
          let '(T2, e2) := chmm_normalize lam2 T1 gs in
          if e2 then None else Some (gs, T1, T2)
      end.
    (* SetFinalStates: clone, mask, Normalize -- its error is dropped (hmm.go:251) *)
    Definition chmm_tf (lam3 : option (nat -> A)) (T2 : tmat) (gs : list group) (final : list Z) : tmat :=
      match final with
      | [] => T2
      | _ => fst (chmm_normalize lam3 (tmask final T2) gs)
      end.
  End CHMM.

  (* ================= HhmmTransitionMatrix ================= *)
  (* HmmNode as built by NewHmmLeaf / NewHmmNode: States of an inner node are
     (from of the first child, to of the last child) *)
  Inductive htree := HLeaf (a b : nat) | HNode (cs : list htree).
  Fixpoint hfrom (t : htree) : nat :=
    match t with
    | HLeaf a _ => a
    | HNode cs => match cs with [] => 0 | c :: _ => hfrom c end
    end.
  Fixpoint hto (t : htree) : nat :=
    match t with
    | HLeaf _ b => b
    | HNode cs => (fix lst (l : list htree) : nat :=
                     match l with [] => 0 | c :: r => match r with [] => hto c | _ => lst r end end) cs
    end.
  Fixpoint hleaves (t : htree) : list (nat * nat) :=
    match t with
    | HLeaf a b => [(a, b)]
    | HNode cs => (fix go (l : list htree) : list (nat * nat) :=
                     match l with [] => [] | c :: r => hleaves c ++ go r end) cs
    end.
  (* HmmNode.Check(n) *)
  Fixpoint contiguous (from : nat) (l : list (nat * nat)) : option nat :=
    match l with
    | [] => Some from
    | (a, b) :: r => if (a =? from) && (a <? b) then contiguous b r else None
    end.
  Definition hcheck_tree (t : htree) (n : nat) : bool :=
    match hleaves t with
    | [] => false
    | _ => match contiguous 0 (hleaves t) with Some r => r =? n | None => false end
    end.

  Definition inrg (a b x : nat) : bool := (a <=? x) && (x <? b).
  Definition range_sum (T : tmat) (rf rt cf ct : nat) : A :=
    fold_left (fun s i => fold_left (fun s j => oadd O s (T i j)) (seq cf (ct - cf)) s) (seq rf (rt - rf)) (o0 O).

  (* normalizeLeaf: for every row of the leaf: t1 = sum over the leaf's columns; the row is divided by t1;
     r accumulates the t1.  A zero t1 is -Inf - -Inf = NaN in Go: None *)
  Definition hleaf (a b : nat) (T : tmat) : option (tmat * A) :=
    fold_left (fun acc i =>
                 match acc with
                 | None => None
                 | Some (T, r) =>
                     let t1 := fold_left (fun s j => oadd O s (T i j)) (seq a (b - a)) (o0 O) in
                     if ois0 O t1 then None
                     else Some (fun i' j' => if (i' =? i) && inrg a b j' then odiv O (T i' j') t1 else T i' j',
                                oadd O r t1)
                 end) (seq a (b - a)) (Some (T, o0 O)).
  (* normalizeInt: r = (sum of the block) / lambda; every cell of the block := r / number of columns *)
  Definition hint (rf rt cf ct : nat) (lam : A) (T : tmat) : option (tmat * A) :=
    if ois0 O lam then None else
    let r := odiv O (range_sum T rf rt cf ct) lam in
    let v := odiv O r (onat (ct - cf)) in
    Some (fun i j => if inrg rf rt i && inrg cf ct j then v else T i j, r).
  (* c := 0.0; for j != i { c = LogAdd(c, normalizeInt(child i rows, child j columns, lambda)) } *)
  Definition hinter (rg : list (nat * nat)) (i rf rt : nat) (lam : A) (T : tmat) : option (tmat * A) :=
    fold_left (fun acc jr =>
                 match acc with
                 | None => None
                 | Some (T, c) =>
                     if fst jr =? i then Some (T, c)
                     else match hint rf rt (fst (snd jr)) (snd (snd jr)) lam T with
                          | None => None
                          | Some (T', r) => Some (T', oadd O c r)
                          end
                 end) (combine (seq 0 (length rg)) rg) (Some (T, o1 O)).
  (* renormalizeSubmatrix(rfrom, rto, from, to, c) *)
  Definition hrenorm (rf rt from to : nat) (c : A) (T : tmat) : option tmat :=
    if ois0 O c then None
    else Some (fun i j => if inrg rf rt i && inrg from to j then odiv O (T i j) c else T i j).

  (* normalize(node): returns the matrix and "sum lambda" *)
  Fixpoint hnorm (t : htree) (T : tmat) : option (tmat * A) :=
    match t with
    | HLeaf a b => hleaf a b T
    | HNode cs =>
        match cs with
        | [] => hleaf 0 0 T          (* len(Children) == 0 is the leaf branch; not constructible by NewHmmNode *)
        | _ =>
        let rg := map (fun c => (hfrom c, hto c)) cs in
        let from := hfrom t in
        let to := hto t in
        (fix go (l : list htree) (i : nat) (T : tmat) (r : A) : option (tmat * A) :=
           match l with
           | [] => Some (T, r)
           | c :: l' =>
               match hnorm c T with
               | None => None
               | Some (T1, t1) =>
                   match hinter rg i (hfrom c) (hto c) t1 T1 with
                   | None => None
                   | Some (T2, cc) =>
                       match hrenorm (hfrom c) (hto c) from to cc T2 with
                       | None => None
                       | Some T3 => go l' (S i) T3 (oadd O r (omul O t1 cc))
                       end
                   end
               end
           end) cs 0 T (o0 O)
        end
    end.
  Definition hnormalize (t : htree) (T : tmat) : option tmat :=
    match hnorm t T with None => None | Some (T', _) => Some T' end.
  (* NewHierarchicalHmm: tree.Check, NewHhmmTransitionMatrix (Normalize), NewHmm (Normalize again).
     inl false = "invalid Hmm tree"; inl true = a matrix with NaN entries is built *)
  Definition hhmm_make (n : nat) (t : htree) (X : tmat) : bool + (tmat * tmat) :=
    if negb (hcheck_tree t n) then inl false else
    match hnormalize t X with
    | None => inl true
    | Some T1 => match hnormalize t T1 with None => inl true | Some T2 => inr (T1, T2) end
    end.
  (* SetFinalStates *)
  Definition hhmm_tf (t : htree) (T2 : tmat) (final : list Z) : option tmat :=
    match final with
    | [] => Some T2
    | _ => hnormalize t (tmask final T2)
    end.
End CH.

(* ---- multiset reading of Hmm.Posterior when a "set" lists a state twice: every
        path counts with the product of the multiplicities of its states ---- *)
Section MSETS.
  Context {A : Type} (O : Ops A).
  Variable m : nat.
  Variable Pi : nat -> A.
  Variable Tr Tf : nat -> nat -> A.
  Variable smap : nat -> nat.
  Variable e : nat -> nat -> A.
  Definition mult_in (sts : list (list nat)) (p : list nat) : nat :=
    fold_left (fun r xs => r * count_occ Nat.eq_dec (snd xs) (fst xs)) (combine p sts) 1.
  Definition enum_msets (n : nat) (sts : list (list nat)) : A :=
    esum O (map (fun p => omul O (onat O (mult_in sts p)) (weight O Pi Tr Tf smap e n p)) (paths m n)).
  (* transitions the constructions above leave at weight zero *)
  Definition path_allowed (allowed : nat -> nat -> bool) (p : list nat) : bool :=
    match p with
    | [] => true
    | x :: r => forallb (fun ab => allowed (fst ab) (snd ab)) (combine p r)
    end.
End MSETS.

(* Hmm.Posterior indexes its work vectors with the listed states (hmm.go:372-376,
   387-394, 426-433, 464): every listed state must lie in [0,m), otherwise Go
   panics (index out of range).  [posterior] of Model.v takes lists of naturals
   and is only meaningful under this precondition. *)
Definition posterior_pre (m : nat) (sts : list (list Z)) : bool :=
  forallb (forallb (fun z => (0 <=? z)%Z && (z <? Z.of_nat m)%Z)) sts.
