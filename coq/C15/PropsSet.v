(* C15 round 5 — property theorems for generic.Hmm under its SETTERS (statements only; proofs in
   ProofsSet.v; Props.v and PropsCH.v are unchanged).

   The object holds DERIVED state: Tf, the matrix of the last transition, is computed from Tr and
   the final-state set by SetFinalStates, SetParameters and Clone.  [run ops (init rawpi rawtr)] is
   the object after the constructor and ANY list [ops] of calls (SetStartStates, SetFinalStates,
   SetParameters with arbitrary new tables, Clone; rejected and empty calls included), in any
   order, of any length.  [spec_tr ops tr0] is the transition table of the last SetParameters (the
   constructor's if there is none), [spec_final m ops None] the set of the last accepted non-empty
   SetFinalStates: the CURRENT parameters.  The theorems say that the object's Tf is always the
   current Tr masked by the current final states and renormalised, and hence that every inference
   routine equals the explicit enumeration of hidden paths for the CURRENT parameters -- for every
   number of states, every history, every sequence length (1 and 2 included: for n = 2 only Tf is
   used, for n = 1 neither).

   Chmm / Hhmm (constrained / hierarchical HMM): SetStartStates / SetFinalStates are modelled in
   ModelCH.v (PropsCH.v); SetParameters on them panics in the unchanged library (finding
   F-C15-SETPARAMS-UNCOMPARABLE: obj.Tr == obj.Tf compares uncomparable structs), so there is no
   history beyond the constructor + one SetStartStates / SetFinalStates each to quantify over. *)
From Coq Require Import List Arith Bool ZArith QArith Qcanon.
From ADV Require Import C15.Model C15.ModelBuf C15.ModelSet C15.Spec C15.Proofs C15.ProofsSet C15.ProofsSet2.
Import ListNotations.
Open Scope nat_scope.

(* the invariant holds after the constructor and is preserved by every call, accepted or not *)
Theorem constructor_establishes_tf_invariant :
  forall A (O : Ops A) rawpi rawtr, Inv O (init O rawpi rawtr).
Proof. exact (fun A O => init_inv O). Qed.

Theorem every_setter_preserves_tf_invariant :
  forall A (O : Ops A) m s o, Inv O s -> Inv O (fst (step O m s o)).
Proof. exact (fun A O m => step_inv O m). Qed.

(* after any history: Tf = normalise-final(current Tr, current final states) *)
Theorem tf_is_derived_from_current_parameters :
  forall A (O : Ops A) m rawpi rawtr (ops : list (@sop A)),
    let s := run O m ops (init O rawpi rawtr) in
    stTr s = spec_tr ops (make_tr O rawtr) /\
    stFinal s = spec_final m ops None /\
    stTf s = tf_of O (stTr s) (stFinal s) /\
    stTf s = tf_of O (spec_tr ops (make_tr O rawtr)) (spec_final m ops None).
Proof.
  intros A O m rawpi rawtr ops s. unfold s.
  split; [apply (run_tr O m)|]. split; [apply (run_final O m)|].
  split; [exact (proj2 (run_inv O m ops _ (init_inv O rawpi rawtr)))|].
  exact (run_tf O m ops _ (init_inv O rawpi rawtr)).
Qed.

(* as long as no SetFinalStates was accepted, Tr and Tf are one matrix (and one object) *)
Theorem tf_is_tr_without_final_states :
  forall A (O : Ops A) m rawpi rawtr (ops : list (@sop A)),
    spec_final m ops None = None ->
    let s := run O m ops (init O rawpi rawtr) in stTf s = stTr s /\ stShared s = true.
Proof. exact (fun A O m rawpi rawtr ops H => run_shared O m ops _ (init_inv O rawpi rawtr) H). Qed.

(* what the derived matrix contains, after any history that accepted a SetFinalStates: row i is the
   current row of Tr restricted to the current final states and divided by its remaining mass t; a row
   without mass on the final states becomes a self loop (the known finding F-C15-TF-SELFLOOP) *)
Theorem tf_entries_after_any_setter_history :
  forall A (O : Ops A), CSemifield O -> forall m rawpi rawtr (ops : list (@sop A)) f i j,
    spec_final m ops None = Some f ->
    let s := run O m ops (init O rawpi rawtr) in
    let row := nth i (spec_tr ops (make_tr O rawtr)) [] in
    let t := lsum O (mask_vec O f row) in
    i < length (spec_tr ops (make_tr O rawtr)) -> j < length row -> i < length row ->
    mfun O (stTf s) i j =
    if ois0 O t
    then (if j =? i then o1 O else if zmem j f then nth j row (o0 O) else o0 O)
    else if zmem j f then odiv O (nth j row (o0 O)) t else o0 O.
Proof.
  intros A O CF m rawpi rawtr ops f i j Hf s row t Hi Hj Hii.
  unfold s. rewrite (run_tf O m ops _ (init_inv O rawpi rawtr)). simpl stTr. simpl stFinal.
  rewrite Hf. exact (tf_masked_entry O CF _ f i j Hi Hj Hii).
Qed.

(* hence the last transition never enters a state outside the current final states, whatever the
   history -- except through that self loop *)
Theorem last_transition_after_any_setter_history_respects_final_states :
  forall A (O : Ops A), CSemifield O -> forall m rawpi rawtr (ops : list (@sop A)) f i j,
    spec_final m ops None = Some f ->
    let s := run O m ops (init O rawpi rawtr) in
    let row := nth i (spec_tr ops (make_tr O rawtr)) [] in
    i < length (spec_tr ops (make_tr O rawtr)) -> j < length row -> i < length row ->
    zmem j f = false -> j <> i -> mfun O (stTf s) i j = o0 O.
Proof.
  intros A O CF m rawpi rawtr ops f i j Hf s row Hi Hj Hii Hz Hne.
  unfold s. rewrite (run_tf O m ops _ (init_inv O rawpi rawtr)). simpl stTr. simpl stFinal.
  rewrite Hf. exact (tf_masked_non_final O CF _ f i j Hi Hj Hii Hz Hne).
Qed.

(* ---- inference after any history = enumeration for the current parameters ---- *)
Theorem logpdf_after_any_setter_history_is_enumeration :
  forall A (O : Ops A), CSemiring O -> forall m rawpi rawtr (ops : list (@sop A)) smap e n,
    let s := run O m ops (init O rawpi rawtr) in
    let TfSpec := mfun O (tf_of O (spec_tr ops (make_tr O rawtr)) (spec_final m ops None)) in
    logpdf O m (vfun O (stPi s)) (mfun O (stTr s)) (mfun O (stTf s)) smap e n =
    esum O (map (weight O (vfun O (stPi s)) (mfun O (stTr s)) TfSpec smap e n) (paths m n)).
Proof. exact (fun A O CS m rawpi rawtr ops smap e n => logpdf_after_history O m CS rawpi rawtr ops smap e n). Qed.

Theorem forward_backward_after_any_setter_history_are_path_sums :
  forall A (O : Ops A), CSemiring O -> forall m rawpi rawtr (ops : list (@sop A)) smap e n k i, k < n -> i < m ->
    let s := run O m ops (init O rawpi rawtr) in
    let Pi := vfun O (stPi s) in
    let Tr := mfun O (stTr s) in
    let TfSpec := mfun O (tf_of O (spec_tr ops (make_tr O rawtr)) (spec_final m ops None)) in
    at_ O (nth k (forward O m Pi Tr (mfun O (stTf s)) smap e n) []) i =
      esum O (map (fun p => weight O Pi Tr TfSpec smap e n (p ++ [i])) (paths m k)) /\
    at_ O (nth k (backward O m Tr (mfun O (stTf s)) smap e n) []) i =
      esum O (map (wtail O Tr TfSpec smap e n (S k) i) (paths m (n - 1 - k))).
Proof.
  intros A O CS m rawpi rawtr ops smap e n k i Hk Hi. split.
  - exact (forward_after_history O m CS rawpi rawtr ops smap e n k i Hk Hi).
  - exact (backward_after_history O m CS rawpi rawtr ops smap e n k i Hk Hi).
Qed.

Theorem posterior_marginals_after_any_setter_history_are_enumerated :
  forall A (O : Ops A), CSemifield O -> forall m rawpi rawtr (ops : list (@sop A)) smap e n, 0 < n ->
    let s := run O m ops (init O rawpi rawtr) in
    let Pi := vfun O (stPi s) in
    let Tr := mfun O (stTr s) in
    let TfSpec := mfun O (tf_of O (spec_tr ops (make_tr O rawtr)) (spec_final m ops None)) in
    marginals O m Pi Tr (mfun O (stTf s)) smap e n =
    if ois0 O (enum_likelihood O m Pi Tr TfSpec smap e n) then None
    else Some (map (fun k => map (fun i => odiv O (enum_marginal O m Pi Tr TfSpec smap e n k i)
                                                  (enum_likelihood O m Pi Tr TfSpec smap e n)) (seq 0 m)) (seq 0 n)).
Proof. exact (fun A O CF m rawpi rawtr ops smap e n H => marginals_after_history O m CF rawpi rawtr ops smap e n H). Qed.

Theorem posterior_after_any_setter_history_is_enumerated :
  forall A (O : Ops A), CSemifield O -> forall m rawpi rawtr (ops : list (@sop A)) smap e n sts,
    0 < n -> length sts = n ->
    (forall x, In x sts -> NoDup x /\ forall i, In i x -> i < m) ->
    let s := run O m ops (init O rawpi rawtr) in
    let Pi := vfun O (stPi s) in
    let Tr := mfun O (stTr s) in
    let TfSpec := mfun O (tf_of O (spec_tr ops (make_tr O rawtr)) (spec_final m ops None)) in
    posterior O m Pi Tr (mfun O (stTf s)) smap e n sts =
    if ois0 O (enum_likelihood O m Pi Tr TfSpec smap e n) then PNaN
    else PVal (odiv O (enum_sets O m Pi Tr TfSpec smap e n sts) (enum_likelihood O m Pi Tr TfSpec smap e n)).
Proof.
  exact (fun A O CF m rawpi rawtr ops smap e n sts H1 H2 H3 =>
           posterior_after_history O m CF rawpi rawtr ops smap e n sts H1 H2 H3).
Qed.

Theorem viterbi_after_any_setter_history_is_optimal :
  forall m rawpi rawtr (ops : list (@sop Qc)) smap e n,
    let s := run OpsQc m ops (init OpsQc rawpi rawtr) in
    let Pi := vfun OpsQc (stPi s) in
    let Tr := mfun OpsQc (stTr s) in
    let TfSpec := mfun OpsQc (tf_of OpsQc (spec_tr ops (make_tr OpsQc rawtr)) (spec_final m ops None)) in
    (forall i, 0 <= Pi i)%Qc -> (forall i j, 0 <= Tr i j)%Qc -> (forall i j, 0 <= TfSpec i j)%Qc ->
    (forall c k, 0 <= e c k)%Qc -> 0 < m -> 0 < n ->
    is_path m n (viterbi VOpsQc m Pi Tr (mfun OpsQc (stTf s)) smap e n) /\
    forall q, is_path m n q ->
      (weight OpsQc Pi Tr TfSpec smap e n q <=
       weight OpsQc Pi Tr TfSpec smap e n (viterbi VOpsQc m Pi Tr (mfun OpsQc (stTf s)) smap e n))%Qc.
Proof. exact viterbi_after_history. Qed.

(* known finding F-C15-SETPARAMS-START (the model follows the code): the start-state restriction
   is NOT derived state -- it lives only in the masked Pi, and SetParameters overwrites Pi without
   re-applying it.  After SetStartStates({0}); SetParameters(pi = (1/4, 3/4), ...) the object still
   lists {0} as its start states, Pi(1) > 0 and the path [1; 0] has positive weight. *)
Theorem start_state_restriction_after_setparameters_refuted :
  stStart w_state = Some [0%Z] /\ zmem 1 [0%Z] = false /\
  Qc_is0 (vfun OpsQc (stPi w_state) 1) = false /\
  Qc_is0 (weight OpsQc (vfun OpsQc (stPi w_state)) (mfun OpsQc (stTr w_state)) (mfun OpsQc (stTf w_state))
                 (fun i => i) (fun _ _ => 1%Qc) 2 [1; 0]) = false.
Proof. exact start_witness. Qed.

(* the hypotheses are satisfiable by a non-trivial history: SetFinalStates, then SetParameters with
   another matrix, then Clone -- Tf follows the new Tr *)
Example setter_history_instance :
  let q := fun a b => Q2Qc (Z.of_nat a # Pos.of_nat b) in
  let ops := [OFinal [1%Z]; OParams [q 1 4; q 3 4] [[q 1 4; q 3 4]; [q 1 2; q 1 2]]; OClone; OStart [5%Z]] in
  let s := run OpsQc 2 ops (init OpsQc [q 1 2; q 1 2] [[q 1 2; q 1 2]; [q 3 4; q 1 4]]) in
  spec_final 2 ops None = Some [1%Z] /\
  map (map this) (stTf s) = [[0 # 1; 1 # 1]; [0 # 1; 1 # 1]]%Q /\
  map (map this) (stTr s) = [[1 # 4; 3 # 4]; [1 # 2; 1 # 2]]%Q /\ stShared s = false /\
  Qeq_bool (logpdf OpsQc 2 (vfun OpsQc (stPi s)) (mfun OpsQc (stTr s)) (mfun OpsQc (stTf s)) (fun i => i)
                   (fun c k => if c =? 0 then q 1 2 else q 1 4) 2) (5 # 64) = true.
Proof. vm_compute. repeat split. Qed.
