(* C15 — the backward recursion, alpha*beta = sum over the paths through a
   state, posterior marginals. *)
From Coq Require Import List Arith Bool Lia Ring.
From ADV Require Import C15.Model C15.Spec C15.ProofsSum C15.ProofsFwd.
Import ListNotations.

Section BWD.
  Context {A : Type} (O : Ops A) (CS : CSemiring O).
  Variable m : nat.
  Variable Pi : nat -> A.
  Variable Tr Tf : nat -> nat -> A.
  Variable smap : nat -> nat.
  Variable e : nat -> nat -> A.
  Notation "a (+) b" := (oadd O a b) (at level 50, left associativity).
  Notation "a (x) b" := (omul O a b) (at level 40, left associativity).
  Notation zero := (o0 O).
  Notation one := (o1 O).
  Notation sum := (esum O).
  Notation W := (weight O Pi Tr Tf smap e).
  Notation WT := (wtail O Tr Tf smap e).
  Notation TK := (Tk Tr Tf).
  Notation st := (seq 0 m).
  Notation AS := (alpha_spec O m Pi Tr Tf smap e).
  Notation BS := (beta_spec O m Tr Tf smap e).

  Add Ring sr2 : (srt O CS).

  (* ---- the enumerated beta satisfies the backward recursion ---- *)
  Lemma beta_spec_last n k : n - 1 - k = 0 -> forall i, BS n k i = one.
  Proof. intros H i. unfold beta_spec. rewrite H. simpl. ring. Qed.

  Lemma beta_spec_step n k i : k + 1 < n ->
    BS n k i = sum (map (fun j => TK n (S k) i j (x) e (smap j) (S k) (x) BS n (S k) j) st).
  Proof.
    intros H. unfold beta_spec. replace (n - 1 - k) with (S (n - 1 - S k)) by lia.
    cbn [paths]. rewrite map_flat_map, (esum_flat_map O CS).
    apply (esum_ext O). intros j _. rewrite map_map.
    rewrite <- (esum_mul_l O CS). apply (esum_ext O). intros p _. reflexivity.
  Qed.

  (* ---- the model's columns are the recursion ---- *)
  (* column at position k of a sequence of length n *)
  Definition Bcol (n k : nat) : list A := map (BS n k) st.

  Lemma bcol_last_eq n : 0 < n -> bcol_last O m = Bcol n (n - 1).
  Proof.
    intros H. unfold bcol_last, Bcol, states. apply map_ext. intros i.
    rewrite beta_spec_last by lia. reflexivity.
  Qed.

  Lemma bfirst_eq n : 1 < n -> bfirst O m Tf smap e n = Bcol n (n - 2).
  Proof.
    intros H. unfold bfirst, Bcol, states. apply map_ext. intros i.
    rewrite beta_spec_step by lia. rewrite (fold_left_esum0 O CS).
    apply (esum_ext O). intros j _. replace (S (n - 2)) with (n - 1) by lia.
    rewrite beta_spec_last by lia. rewrite Tk_last by lia. ring.
  Qed.

  Lemma bstep_eq n k : k + 2 < n -> bstep O m Tr smap e (Bcol n (S k)) k = Bcol n k.
  Proof.
    intros H. unfold bstep, Bcol, states. apply map_ext. intros i.
    rewrite beta_spec_step by lia. rewrite (fold_left_esum0 O CS).
    apply (esum_ext O). intros j Hj. unfold at_. rewrite nth_map_seq by (apply in_seq in Hj; lia).
    rewrite Tk_mid by lia. replace (k + 1) with (S k) by lia. ring.
  Qed.

  Lemma bloop_eq n cnt : cnt + 2 <= n ->
    bloop O m Tr smap e cnt (Bcol n cnt) = map (Bcol n) (seq 0 cnt).
  Proof.
    induction cnt as [|c IH]; intros H; [reflexivity|].
    cbn [bloop]. rewrite bstep_eq by lia. rewrite IH by lia.
    rewrite seq_S, map_app. reflexivity.
  Qed.

  Lemma backward_eq n : backward O m Tr Tf smap e n = map (Bcol n) (seq 0 n).
  Proof.
    destruct n as [|[|c]]; [reflexivity| |].
    - unfold backward. change (1 <? 1) with false. cbv iota. rewrite (bcol_last_eq 1) by lia. reflexivity.
    - unfold backward. change (1 <? S (S c)) with true. cbv iota zeta.
      replace (S (S c) - 2) with c by lia.
      rewrite (bfirst_eq (S (S c))) by lia. replace (S (S c) - 2) with c by lia.
      rewrite bloop_eq by lia. rewrite (bcol_last_eq (S (S c))) by lia.
      replace (S (S c) - 1) with (S c) by lia.
      rewrite (seq_S (S c) 0), (seq_S c 0), !map_app. simpl. rewrite <- app_assoc. reflexivity.
  Qed.

  Lemma backward_paths n k i :
    k < n -> i < m -> at_ O (nth k (backward O m Tr Tf smap e n) []) i = BS n k i.
  Proof.
    intros Hk Hi. rewrite backward_eq, nth_map_seq by exact Hk. unfold Bcol, at_.
    apply nth_map_seq. exact Hi.
  Qed.

  (* ---- alpha * beta ---- *)
  Lemma nth_snoc_mid (p : list nat) i q d : nth (length p) ((p ++ [i]) ++ q) d = i.
  Proof.
    rewrite <- app_assoc. rewrite app_nth2 by lia. rewrite Nat.sub_diag. reflexivity.
  Qed.

  Lemma alpha_beta n k i : k < n -> i < m ->
    AS n k i (x) BS n k i = enum_marginal O m Pi Tr Tf smap e n k i.
  Proof.
    intros Hk Hi. unfold enum_marginal. rewrite (esum_filter O CS).
    replace n with ((k + 1) + (n - 1 - k)) at 3 by lia.
    rewrite paths_add, map_flat_map, (esum_flat_map O CS).
    rewrite paths_snoc, map_flat_map, (esum_flat_map O CS).
    unfold alpha_spec, beta_spec.
    rewrite <- (esum_mul_r O CS). apply (esum_ext O). intros p Hp.
    rewrite map_map.
    rewrite (esum_ext O _ (fun j => if j =? i then W n (p ++ [j]) (x) sum (map (WT n (S k) i) (paths m (n - 1 - k))) else zero)).
    - rewrite (esum_pick O CS (fun j => W n (p ++ [j]) (x) sum (map (WT n (S k) i) (paths m (n - 1 - k))))) by lia.
      reflexivity.
    - intros j _. rewrite map_map.
      rewrite (esum_ext O _ (fun q => if j =? i then W n (p ++ [j]) (x) WT n (S k) i q else zero)).
      + destruct (j =? i).
        * rewrite (esum_mul_l O CS). reflexivity.
        * apply (esum_zero O CS).
      + intros q _. pose proof (paths_length m k p Hp) as Hl.
        rewrite <- Hl at 1. rewrite nth_snoc_mid.
        destruct (Nat.eqb_spec j i) as [->|]; [|reflexivity].
        rewrite (weight_split O CS), Hl. reflexivity.
  Qed.

  (* summing alpha*beta over the states gives the likelihood, at every position *)
  Lemma marginal_total n k : k < n ->
    sum (map (fun i => enum_marginal O m Pi Tr Tf smap e n k i) st) = enum_likelihood O m Pi Tr Tf smap e n.
  Proof.
    intros Hk. unfold enum_marginal, enum_likelihood.
    rewrite (esum_ext O _ (fun i => sum (map (fun p => if nth k p m =? i then W n p else zero) (paths m n))))
      by (intros i _; apply (esum_filter O CS)).
    rewrite (esum_swap O CS). apply (esum_ext O). intros p Hp.
    rewrite (esum_ext O _ (fun i => if i =? nth k p m then W n p else zero))
      by (intros i _; rewrite Nat.eqb_sym; reflexivity).
    apply (esum_pick O CS (fun _ => W n p)).
    pose proof (paths_bound m n p Hp) as Hb. pose proof (paths_length m n p Hp) as Hl.
    rewrite Forall_forall in Hb. split; [lia|]. simpl. apply Hb. apply nth_In. lia.
  Qed.
End BWD.

(* ---- posterior marginals (needs quotients) ---- *)
Section MARG.
  Context {A : Type} (O : Ops A) (CF : CSemifield O).
  Let CS := sf_semiring O CF.
  Variable m : nat.
  Variable Pi : nat -> A.
  Variable Tr Tf : nat -> nat -> A.
  Variable smap : nat -> nat.
  Variable e : nat -> nat -> A.
  Notation "a (+) b" := (oadd O a b) (at level 50, left associativity).
  Notation "a (x) b" := (omul O a b) (at level 40, left associativity).
  Notation sum := (esum O).
  Notation st := (seq 0 m).
  Notation EM := (enum_marginal O m Pi Tr Tf smap e).
  Notation EL := (enum_likelihood O m Pi Tr Tf smap e).

  Lemma gamma_col_spec n k : k < n ->
    gamma_col O m (map (alpha_spec O m Pi Tr Tf smap e n k) st) (map (beta_spec O m Tr Tf smap e n k) st) =
    if ois0 O (EL n) then None else Some (map (fun i => odiv O (EM n k i) (EL n)) st).
  Proof.
    intros Hk. unfold gamma_col, states.
    assert (E : map (fun i => at_ O (map (alpha_spec O m Pi Tr Tf smap e n k) st) i (x)
                              at_ O (map (beta_spec O m Tr Tf smap e n k) st) i) st = map (EM n k) st).
    { apply map_ext_in. intros i Hi. apply in_seq in Hi. unfold at_.
      rewrite !nth_map_seq by lia. apply (alpha_beta O CS); lia. }
    rewrite E. rewrite (sumcol_esum O CS), (marginal_total O CS) by exact Hk.
    destruct (ois0 O (EL n)); [reflexivity|]. rewrite map_map. reflexivity.
  Qed.

  Lemma gamma_cols_spec n : forall ks,
    (forall k, In k ks -> k < n) ->
    gamma_cols O m (map (fun k => map (alpha_spec O m Pi Tr Tf smap e n k) st) ks)
                   (map (fun k => map (beta_spec O m Tr Tf smap e n k) st) ks) =
    match ks with
    | [] => Some []
    | _ => if ois0 O (EL n) then None
           else Some (map (fun k => map (fun i => odiv O (EM n k i) (EL n)) st) ks)
    end.
  Proof.
    induction ks as [|k ks IH]; intros H; [reflexivity|].
    cbn [map gamma_cols]. rewrite gamma_col_spec by (apply H; left; reflexivity).
    destruct (ois0 O (EL n)) eqn:Ez; [reflexivity|].
    rewrite IH by (intros k' Hk'; apply H; right; exact Hk').
    destruct ks; reflexivity.
  Qed.

  (* PosteriorMarginals: an error iff the likelihood is zero, otherwise the
     enumerated marginal divided by the enumerated likelihood *)
  Lemma marginals_spec n : 0 < n ->
    marginals O m Pi Tr Tf smap e n =
    if ois0 O (EL n) then None
    else Some (map (fun k => map (fun i => odiv O (EM n k i) (EL n)) st) (seq 0 n)).
  Proof.
    intros Hn. unfold marginals. rewrite forward_eq, (backward_eq O CS).
    rewrite (map_ext _ _ (Aiter_spec O CS m Pi Tr Tf smap e n)).
    unfold Bcol. rewrite gamma_cols_spec by (intros k Hk; apply in_seq in Hk; lia).
    destruct n; [lia|]. rewrite seq_S. destruct (seq 0 n); reflexivity.
  Qed.

  (* ... and these posteriors sum to one at every position *)
  Lemma marginals_sum_one n k : k < n -> ois0 O (EL n) = false ->
    sum (map (fun i => odiv O (EM n k i) (EL n)) st) = o1 O.
  Proof.
    intros Hk Hz.
    rewrite <- (mul_div O CF (sum (map (fun i => odiv O (EM n k i) (EL n)) st)) (EL n) Hz).
    rewrite <- (esum_mul_r O CS).
    rewrite (esum_ext O _ (EM n k)) by (intros i _; apply (div_mul O CF); exact Hz).
    rewrite (marginal_total O CS) by exact Hk.
    rewrite <- (mul_1_l O CS (EL n)) at 1. apply (mul_div O CF). exact Hz.
  Qed.
End MARG.
