(* C15 — round 7: a state whose emission density at position k is exactly zero
   gets alpha(i,k) = zero from the float64-specialised forward recursion, on ANY
   work matrix (fresh or recycled): the -Inf is stored, no stale cell survives. *)
From Coq Require Import List Arith Bool Lia.
From ADV Require Import C15.Model C15.ModelBuf C15.Spec C15.ProofsSum C15.ProofsTop2.
Import ListNotations.

Section ZERO.
  Context {A : Type} (O : Ops A) (CS : CSemiring O).
  Variable m : nat.
  Variable Pi : nat -> A.
  Variable Tr Tf : nat -> nat -> A.
  Variable smap : nat -> nat.
  Variable e : nat -> nat -> A.

  Lemma wtail_zero_last n i : forall p k prev,
    e (smap i) (k + length p) = o0 O -> wtail O Tr Tf smap e n k prev (p ++ [i]) = o0 O.
  Proof.
    induction p as [|x p IH]; intros k prev Hz; simpl in *.
    - rewrite Nat.add_0_r in Hz. rewrite Hz, (mul_0_r O CS), (mul_0_l O CS). reflexivity.
    - rewrite (IH (S k) x).
      + apply (mul_0_r O CS).
      + rewrite <- Hz. f_equal. lia.
  Qed.

  Lemma weight_zero_last n i p :
    e (smap i) (length p) = o0 O -> weight O Pi Tr Tf smap e n (p ++ [i]) = o0 O.
  Proof.
    destruct p as [|x p]; intros Hz; simpl in *.
    - rewrite Hz, (mul_0_r O CS), (mul_0_l O CS). reflexivity.
    - rewrite (wtail_zero_last n i p 1 x Hz). apply (mul_0_r O CS).
  Qed.

  Lemma alpha_sum_zero n i k :
    e (smap i) k = o0 O ->
    esum O (map (fun p => weight O Pi Tr Tf smap e n (p ++ [i])) (paths m k)) = o0 O.
  Proof.
    intros Hz.
    rewrite (esum_ext O (fun p => weight O Pi Tr Tf smap e n (p ++ [i])) (fun _ => o0 O)).
    - apply (esum_zero O CS).
    - intros p Hp. apply weight_zero_last. rewrite (paths_length m k p Hp). exact Hz.
  Qed.

  Lemma ofb_zero_emission (alpha beta : @mat A) n i k :
    k < n -> i < m -> e (smap i) k = o0 O ->
    fst (ofb_buf O m Pi Tr Tf smap e (alpha, beta) n) i k = o0 O.
  Proof.
    intros Hk Hi Hz.
    destruct (ofb_buf_top A O CS m Pi Tr Tf smap e alpha beta n i k) as [E1 _].
    rewrite E1. apply Nat.ltb_lt in Hk. apply Nat.ltb_lt in Hi. rewrite Hk, Hi. simpl.
    apply alpha_sum_zero. exact Hz.
  Qed.

  Lemma ofb_thread_zero_emission (before : list (nat * (nat -> nat -> A))) (alpha0 beta0 : @mat A) n i k :
    k < n -> i < m -> e (smap i) k = o0 O ->
    let ab := fold_left (fun ab r => ofb_buf O m Pi Tr Tf smap (snd r) ab (fst r)) before (alpha0, beta0) in
    fst (ofb_buf O m Pi Tr Tf smap e ab n) i k = o0 O /\
    enum_marginal O m Pi Tr Tf smap e n k i = o0 O.
  Proof.
    intros Hk Hi Hz ab.
    destruct (ofb_thread_top A O CS m Pi Tr Tf smap before alpha0 beta0 n e i k Hk Hi) as [E1 [_ E3]].
    fold ab in E1, E3. split.
    - rewrite E1. apply alpha_sum_zero. exact Hz.
    - rewrite <- E3, E1, alpha_sum_zero by exact Hz. apply (mul_0_l O CS).
  Qed.
End ZERO.
