(* C15 — the lemmas in the exact form quoted by Props.v. *)
From Coq Require Import List Arith Bool QArith Qcanon Reals.
From ADV Require Import C15.Model C15.Spec C15.ProofsSum C15.ProofsFwd C15.ProofsBwd C15.ProofsOpt
  C15.ProofsVit C15.ProofsVitInst C15.ProofsMix C15.ProofsLog.
Import ListNotations.
Open Scope nat_scope.

Lemma paths_iff m n p : In p (paths m n) <-> (length p = n /\ Forall (fun x => x < m) p).
Proof.
  split.
  - intros H. split; [exact (paths_length m n p H)|exact (paths_bound m n p H)].
  - intros [H1 H2]. exact (paths_complete m n p H1 H2).
Qed.

Lemma alpha_beta_model A (O : Ops A) (CS : CSemiring O) m Pi Tr Tf smap e n k i : k < n -> i < m ->
  omul O (at_ O (nth k (forward O m Pi Tr Tf smap e n) []) i)
         (at_ O (nth k (backward O m Tr Tf smap e n) []) i) =
  esum O (map (weight O Pi Tr Tf smap e n) (filter (fun p => nth k p m =? i) (paths m n))).
Proof.
  intros Hk Hi. rewrite (forward_paths O CS), (backward_paths O CS) by assumption.
  exact (alpha_beta O CS m Pi Tr Tf smap e n k i Hk Hi).
Qed.

Lemma opt_generic A (O : Ops A) m Pi Tr Tf smap e n :
  oforward O m Pi Tr Tf smap e n = forward O m Pi Tr Tf smap e n /\
  obackward O m Tr Tf smap e n = backward O m Tr Tf smap e n.
Proof. split; [apply oforward_eq|apply obackward_eq]. Qed.

Lemma viterbi_generic V (W : VOps V) le ok (VO : VOrder W le ok) m Pi Tr Tf smap e n :
  (forall i, ok (Pi i)) -> (forall i j, ok (Tr i j)) -> (forall i j, ok (Tf i j)) -> (forall c k, ok (e c k)) ->
  0 < m -> 0 < n ->
  is_path m n (viterbi W m Pi Tr Tf smap e n) /\
  forall q, is_path m n q ->
    le (vweight W Pi Tr Tf smap e n q) (vweight W Pi Tr Tf smap e n (viterbi W m Pi Tr Tf smap e n)).
Proof.
  intros HPi HTr HTf He Hm Hn. split.
  - exact (viterbi_is_path W m Pi Tr Tf smap e Hm n Hn).
  - intros q [Hl Hb]. exact (viterbi_optimal W le ok VO m Pi Tr Tf smap e HPi HTr HTf He Hm n q Hn Hl Hb).
Qed.

Lemma viterbi_rational m Pi Tr Tf smap e n :
  (forall i, 0 <= Pi i)%Qc -> (forall i j, 0 <= Tr i j)%Qc -> (forall i j, 0 <= Tf i j)%Qc ->
  (forall c k, 0 <= e c k)%Qc -> 0 < m -> 0 < n ->
  is_path m n (viterbi VOpsQc m Pi Tr Tf smap e n) /\
  forall q, is_path m n q ->
    (weight OpsQc Pi Tr Tf smap e n q <= weight OpsQc Pi Tr Tf smap e n (viterbi VOpsQc m Pi Tr Tf smap e n))%Qc.
Proof.
  intros HPi HTr HTf He Hm Hn.
  destruct (viterbi_Qc_optimal m Pi Tr Tf smap e n HPi HTr HTf He Hm Hn) as [H1 H2].
  split; [exact H1|]. intros q [Hl Hb]. exact (H2 q Hl Hb).
Qed.

(* ---- F-C15-TF-SELFLOOP: the final-state restriction is not enforced for a
        state without transitions into the final states (the masked row is all
        zero and Normalize makes it a self loop).  Identity transitions, final
        states {1}: Tf(0,0) = 1, the Viterbi path is [0;0] and has positive
        weight although state 0 is not final. ---- *)
Definition w_tr : list (list Qc) := make_tr OpsQc [[1%Qc; 0%Qc]; [0%Qc; 1%Qc]].
Definition w_tf : list (list Qc) := make_tf OpsQc w_tr [1%Z].
Definition w_pi : list Qc := make_pi OpsQc [Q2Qc (1 # 2); Q2Qc (1 # 2)] [].
Definition w_f {X} (d : X) (l : list X) : nat -> X := fun i => nth i l d.
Definition w_f2 {X} (d : X) (l : list (list X)) : nat -> nat -> X := fun i j => nth j (nth i l []) d.
Definition w_e (c k : nat) : Qc := if c =? 0 then Q2Qc (1 # 2) else Q2Qc (1 # 4).
Definition w_path : list nat :=
  viterbi VOpsQc 2 (w_f 0%Qc w_pi) (w_f2 0%Qc w_tr) (w_f2 0%Qc w_tf) (fun i => i) w_e 2.

Lemma final_restriction_witness :
  zmem 0 [1%Z] = false /\ w_f2 0%Qc w_tf 0 0 = 1%Qc /\ w_path = [0; 0] /\
  (0 < weight OpsQc (w_f 0%Qc w_pi) (w_f2 0%Qc w_tr) (w_f2 0%Qc w_tf) (fun i => i) w_e 2 w_path)%Qc.
Proof.
  split; [reflexivity|]. split; [apply Qc_is_canon; vm_compute; reflexivity|].
  split; [vm_compute; reflexivity|]. vm_compute. reflexivity.
Qed.
