(* C15 round 3 — proofs about the constrained / hierarchical transition matrices
   (ModelCH.v), enumeration over allowed paths, Viterbi on log-values with -Inf,
   corner cases. *)
From Coq Require Import List Arith Bool Lia ZArith QArith Qcanon Reals Lra.
From ADV Require Import C15.Model C15.ModelCH C15.Spec C15.ProofsSum C15.ProofsFwd C15.ProofsLog
  C15.ProofsVit C15.ProofsTop C15.ProofsVitInst.
Import ListNotations.
Open Scope nat_scope.

(* ================= enumeration over the allowed paths ================= *)
Section ALLOWED.
  Context {A : Type} (O : Ops A) (CS : CSemiring O).
  Variable m : nat.
  Variable Pi : nat -> A.
  Variable Tr Tf : nat -> nat -> A.
  Variable smap : nat -> nat.
  Variable e : nat -> nat -> A.
  Variable allowed : nat -> nat -> bool.
  Hypothesis Hforbidden : forall i j, allowed i j = false -> Tr i j = o0 O /\ Tf i j = o0 O.

  Lemma wtail_forbidden n : forall r k prev,
    forallb (fun ab => allowed (fst ab) (snd ab)) (combine (prev :: r) r) = false ->
    wtail O Tr Tf smap e n k prev r = o0 O.
  Proof.
    induction r as [|y r IH]; intros k prev H; [discriminate|].
    cbn [combine forallb fst snd] in H. cbn [wtail].
    destruct (allowed prev y) eqn:Ha.
    - cbn [andb] in H. rewrite (IH (S k) y H). apply (mul_0_r O CS).
    - destruct (Hforbidden prev y Ha) as [H1 H2].
      assert (Tk Tr Tf n k prev y = o0 O) as -> by (unfold Tk; destruct (k <? n - 1); assumption).
      rewrite (mul_0_l O CS). apply (mul_0_l O CS).
  Qed.

  Lemma weight_forbidden n p : path_allowed allowed p = false -> weight O Pi Tr Tf smap e n p = o0 O.
  Proof.
    destruct p as [|x r]; [discriminate|]. unfold path_allowed. intros H. cbn [weight].
    rewrite (wtail_forbidden n r 1 x H). apply (mul_0_r O CS).
  Qed.

  Lemma enum_allowed n :
    esum O (map (weight O Pi Tr Tf smap e n) (paths m n)) =
    esum O (map (weight O Pi Tr Tf smap e n) (filter (path_allowed allowed) (paths m n))).
  Proof.
    rewrite (esum_filter O CS). apply (esum_ext O). intros p _.
    destruct (path_allowed allowed p) eqn:H; [reflexivity|]. apply weight_forbidden. exact H.
  Qed.

  Lemma logpdf_allowed n :
    logpdf O m Pi Tr Tf smap e n =
    esum O (map (weight O Pi Tr Tf smap e n) (filter (path_allowed allowed) (paths m n))).
  Proof. rewrite (logpdf_enum O CS). apply enum_allowed. Qed.

  Lemma marginal_allowed n k i :
    enum_marginal O m Pi Tr Tf smap e n k i =
    esum O (map (weight O Pi Tr Tf smap e n)
                (filter (fun p => (nth k p m =? i) && path_allowed allowed p) (paths m n))).
  Proof.
    unfold enum_marginal. rewrite !(esum_filter O CS). apply (esum_ext O). intros p _.
    destruct (nth k p m =? i); cbn [andb]; [|reflexivity].
    destruct (path_allowed allowed p) eqn:H; [reflexivity|]. apply weight_forbidden. exact H.
  Qed.
End ALLOWED.

(* ================= Viterbi on log-values: -Inf anywhere ================= *)
Definition LRgt (a b : LR) : bool :=
  match a, b with
  | Some x, Some y => if Rlt_dec y x then true else false
  | Some _, None => true
  | None, _ => false
  end.
Definition LRle (a b : LR) : Prop :=
  match a, b with
  | None, _ => True
  | Some x, Some y => (x <= y)%R
  | Some _, None => False
  end.
Definition VOpsLog : VOps LR := mkVOps LR None LAdd LRgt.

Lemma VOpsLog_order : VOrder VOpsLog LRle (fun _ => True).
Proof.
  constructor; cbn.
  - intros [x|]; cbn; [lra|exact I].
  - intros [x|] [y|] [z|]; cbn; try tauto; lra.
  - intros [x|] [y|]; cbn; try discriminate; try tauto. destruct (Rlt_dec y x); [lra|discriminate].
  - intros [x|] [y|]; cbn; try discriminate; try tauto. destruct (Rlt_dec y x); [discriminate|lra].
  - intros a _. exact I.
  - exact I.
  - intros; exact I.
  - intros [x|] [y|] [z|] _; cbn; try tauto; lra.
Qed.

Lemma viterbi_log m (Pi : nat -> LR) (Tr Tf : nat -> nat -> LR) smap (e : nat -> nat -> LR) n :
  0 < m -> 0 < n ->
  is_path m n (viterbi VOpsLog m Pi Tr Tf smap e n) /\
  forall q, is_path m n q ->
    LRle (vweight VOpsLog Pi Tr Tf smap e n q) (vweight VOpsLog Pi Tr Tf smap e n (viterbi VOpsLog m Pi Tr Tf smap e n)).
Proof.
  intros Hm Hn.
  exact (viterbi_generic LR VOpsLog LRle (fun _ => True) VOpsLog_order m Pi Tr Tf smap e n
           (fun _ => I) (fun _ _ => I) (fun _ _ => I) (fun _ _ => I) Hm Hn).
Qed.

(* every path has weight -Inf: the result is still a path (of weight -Inf, the maximum) *)
Lemma viterbi_log_all_zero m (Pi : nat -> LR) (Tr Tf : nat -> nat -> LR) smap (e : nat -> nat -> LR) n :
  0 < m -> 0 < n ->
  (forall q, is_path m n q -> vweight VOpsLog Pi Tr Tf smap e n q = None) ->
  is_path m n (viterbi VOpsLog m Pi Tr Tf smap e n) /\
  vweight VOpsLog Pi Tr Tf smap e n (viterbi VOpsLog m Pi Tr Tf smap e n) = None.
Proof.
  intros Hm Hn Hall. destruct (viterbi_log m Pi Tr Tf smap e n Hm Hn) as [Hp _].
  split; [exact Hp|apply Hall; exact Hp].
Qed.

(* ================= empty sequence ================= *)
Lemma empty_sequence A (O : Ops A) V (W : VOps V) m Pi Tr Tf smap e (vPi : nat -> V) vTr vTf ve :
  logpdf O m Pi Tr Tf smap e 0 = o1 O /\
  forward O m Pi Tr Tf smap e 0 = [] /\ backward O m Tr Tf smap e 0 = [] /\
  marginals O m Pi Tr Tf smap e 0 = Some [] /\
  posterior O m Pi Tr Tf smap e 0 [] = PVal (o1 O) /\
  (forall s r, posterior O m Pi Tr Tf smap e 0 (s :: r) = PErr) /\
  viterbi W m vPi vTr vTf smap ve 0 = [].
Proof. repeat split. Qed.

(* ================= constrained HMM ================= *)
Section CHMMP.
  Context {A : Type} (O : Ops A).
  Variable n : nat.

  Lemma cell_eqb_spec (a b : cell) : cell_eqb a b = true <-> a = b.
  Proof.
    destruct a as [a1 a2], b as [b1 b2]. unfold cell_eqb. cbn [fst snd].
    rewrite andb_true_iff, !Nat.eqb_eq. split; [intros [-> ->]; reflexivity|intros H; inversion H; auto].
  Qed.
  Lemma cmem_In c l : cmem c l = true <-> In c l.
  Proof.
    unfold cmem. rewrite existsb_exists. split.
    - intros [x [Hx He]]. apply cell_eqb_spec in He. subst. exact Hx.
    - intros H. exists c. split; [exact H|apply cell_eqb_spec; reflexivity].
  Qed.
  Lemma cmem_false c l : cmem c l = false <-> ~ In c l.
  Proof.
    rewrite <- cmem_In. destruct (cmem c l); split; intros H.
    - discriminate.
    - exfalso. apply H. reflexivity.
    - intros H'. discriminate.
    - reflexivity.
  Qed.

  (* one group: every cell of the group receives v, nothing else changes *)
  Lemma set_group (v : A) (g : group) : forall (T : @tmat A) i j,
    fold_left (fun T c => tset T (fst c) (snd c) v) g T i j = if cmem (i, j) g then v else T i j.
  Proof.
    induction g as [|a g IH]; intros T i j; [reflexivity|].
    cbn [fold_left]. rewrite IH. unfold cmem. cbn [existsb]. fold (cmem (i, j) g).
    destruct (cmem (i, j) g); [rewrite orb_true_r; reflexivity|]. rewrite orb_false_r.
    unfold tset, cell_eqb. cbn [fst snd]. reflexivity.
  Qed.

  Notation val lam X g := (odiv O (chmm_xi O X g) (chmm_s O n lam g)).

  Lemma apply_fold lam X gs : forall (T : @tmat A) i j,
    (forall g, In g gs -> cmem (i, j) g = false) ->
    fold_left (fun T g => let v := val lam X g in fold_left (fun T c => tset T (fst c) (snd c) v) g T) gs T i j = T i j.
  Proof.
    induction gs as [|g gs IH]; intros T i j H; [reflexivity|].
    cbn [fold_left]. rewrite IH by (intros g' Hg'; apply H; right; exact Hg').
    cbv zeta. rewrite set_group, (H g (or_introl eq_refl)). reflexivity.
  Qed.

  (* a cell outside every group keeps its value *)
  Lemma chmm_apply_frame lam X gs i j :
    ~ In (i, j) (concat gs) -> chmm_apply O n lam X gs i j = X i j.
  Proof.
    intros H. unfold chmm_apply. apply apply_fold. intros g Hg. apply cmem_false. intros Hin.
    apply H. apply in_concat. exists g. split; assumption.
  Qed.

  (* a cell of group g, not listed in any later group, holds sumXi(g) / s(g) *)
  Lemma chmm_apply_at lam X l1 g l2 i j :
    In (i, j) g -> (forall g', In g' l2 -> ~ In (i, j) g') ->
    chmm_apply O n lam X (l1 ++ g :: l2) i j = val lam X g.
  Proof.
    intros Hin Hl2. unfold chmm_apply. rewrite fold_left_app. cbn [fold_left].
    rewrite apply_fold by (intros g' Hg'; apply cmem_false; apply Hl2; exact Hg').
    cbv zeta. rewrite set_group. apply cmem_In in Hin. rewrite Hin. reflexivity.
  Qed.

  Lemma nodup_app_r {X} (a b : list X) : NoDup (a ++ b) -> NoDup b.
  Proof. induction a as [|x a IH]; cbn [app]; intros H; [exact H|]. inversion H; subst. auto. Qed.
  Lemma nodup_concat_later {X} (l1 : list (list X)) g l2 x :
    NoDup (concat (l1 ++ g :: l2)) -> In x g -> forall g', In g' l2 -> ~ In x g'.
  Proof.
    rewrite concat_app. cbn [concat]. intros ND Hx g' Hg' Hx'.
    apply nodup_app_r in ND.
    induction g as [|a g IH]; [destruct Hx|].
    cbn [app] in ND. inversion ND as [|y l Hnin ND']; subst.
    destruct Hx as [->|Hx]; [|exact (IH ND' Hx)].
    apply Hnin. apply in_or_app. right. apply in_concat. exists g'. split; assumption.
  Qed.

  (* tied parameters stay tied: with pairwise disjoint groups every cell of a group holds
     the group's value sumXi / s, whatever multipliers the Newton iteration returned *)
  Lemma chmm_apply_group lam X gs g i j :
    NoDup (concat gs) -> In g gs -> In (i, j) g -> chmm_apply O n lam X gs i j = val lam X g.
  Proof.
    intros ND Hg Hin. destruct (in_split g gs Hg) as [l1 [l2 ->]].
    apply chmm_apply_at; [exact Hin|]. exact (nodup_concat_later l1 g l2 (i, j) ND Hin).
  Qed.
  Lemma chmm_tied lam X gs g c1 c2 :
    NoDup (concat gs) -> In g gs -> In c1 g -> In c2 g ->
    chmm_apply O n lam X gs (fst c1) (snd c1) = chmm_apply O n lam X gs (fst c2) (snd c2).
  Proof.
    intros ND Hg H1 H2. destruct c1 as [i1 j1], c2 as [i2 j2]. cbn [fst snd].
    rewrite (chmm_apply_group lam X gs g i1 j1 ND Hg H1), (chmm_apply_group lam X gs g i2 j2 ND Hg H2).
    reflexivity.
  Qed.

  (* which cells are in a group after complementConstraints *)
  Lemma complement_cells X cons gs i j : i < n -> j < n ->
    chmm_complement O n X cons = Some gs ->
    (In (i, j) (concat gs) <-> In (i, j) (concat cons) \/ ois0 O (X i j) = false).
  Proof.
    intros Hi Hj. unfold chmm_complement. destruct (has_dup (concat cons)); [discriminate|].
    intros H. injection H as <-. rewrite concat_app, in_app_iff.
    set (F := fun i => flat_map (fun j => if ois0 O (X i j) then [] else
                                   if cmem (i, j) (concat cons) then [] else [[(i, j)]]) (seq 0 n)).
    assert (Hnew : In (i, j) (concat (flat_map F (seq 0 n))) <->
                   ois0 O (X i j) = false /\ ~ In (i, j) (concat cons)).
    { split.
      - intros H. apply in_concat in H. destruct H as [g [Hg Hc]].
        apply in_flat_map in Hg. destruct Hg as [i' [_ Hg]]. unfold F in Hg.
        apply in_flat_map in Hg. destruct Hg as [j' [_ Hg]].
        destruct (ois0 O (X i' j')) eqn:Hz; [destruct Hg|].
        destruct (cmem (i', j') (concat cons)) eqn:Hm; [destruct Hg|].
        destruct Hg as [<-|[]]. destruct Hc as [Hc|[]]. inversion Hc; subst.
        split; [exact Hz|apply cmem_false; exact Hm].
      - intros [Hz Hm]. apply in_concat. exists [(i, j)]. split; [|left; reflexivity].
        apply in_flat_map. exists i. split; [apply in_seq; lia|]. unfold F.
        apply in_flat_map. exists j. split; [apply in_seq; lia|].
        rewrite Hz. apply cmem_false in Hm. rewrite Hm. left. reflexivity. }
    rewrite Hnew. split.
    - intros [H|[H _]]; [left|right]; assumption.
    - intros [H|H]; [left; exact H|].
      destruct (cmem (i, j) (concat cons)) eqn:Hm.
      + left. apply cmem_In. exact Hm.
      + right. split; [exact H|apply cmem_false; exact Hm].
  Qed.

  (* forbidden transitions: a zero cell that no user constraint lists stays exactly as the
     first loop of Normalize left it *)
  Lemma chmm_forbidden_stays lam X T cons gs i j : i < n -> j < n ->
    chmm_complement O n X cons = Some gs ->
    ois0 O (X i j) = true -> ~ In (i, j) (concat cons) ->
    chmm_apply O n lam T gs i j = T i j.
  Proof.
    intros Hi Hj Hc Hz Hn. apply chmm_apply_frame. intros Hin.
    apply (complement_cells X cons gs i j Hi Hj Hc) in Hin. destruct Hin as [H|H]; [tauto|congruence].
  Qed.
End CHMMP.

(* ================= witnesses (executed on exact rationals) ================= *)
Definition qm (l : list (list Q)) : @tmat Qc := tmat_of OpsQc (map (map Q2Qc) l).
Definition rows (n : nat) (o : option (@tmat Qc)) : option (list (list Q)) :=
  match o with None => None | Some T => Some (map (map this) (tmat_rows n T)) end.

(* F-C15-HHMM-FINAL: hierarchical HMM with two leaves {0,1}, {2,3} *)
Definition wh_tree := HNode [HLeaf 0 2; HLeaf 2 4].
Definition wh_X := qm [[1#2; 1#4; 1#8; 1#8]; [1#4; 1#4; 1#2; 1#4]; [1#2; 1#4; 1#4; 1]; [1#4; 1#4; 1#2; 1#2]]%Q.
Definition wh_T2 : @tmat Qc :=
  match hhmm_make OpsQc 4 wh_tree wh_X with inr (_, T2) => T2 | _ => fun _ _ => 0%Qc end.

Lemma hhmm_final_witness :
  hcheck_tree wh_tree 4 = true /\
  (* final states {3}: the leaf {0,1} has no final state, normalizeLeaf divides 0 by 0 *)
  hhmm_tf OpsQc wh_tree wh_T2 [3%Z] = None /\
  (* final states {1,3}: state 2 is not final, yet Tf(0,2) = 12/49 *)
  zmem 2 [1%Z; 3%Z] = false /\
  rows 4 (hhmm_tf OpsQc wh_tree wh_T2 [1%Z; 3%Z]) =
    Some [[0; 25 # 49; 12 # 49; 12 # 49]; [0; 25 # 49; 12 # 49; 12 # 49];
          [25 # 167; 25 # 167; 0; 117 # 167]; [25 # 167; 25 # 167; 0; 117 # 167]]%Q.
Proof. repeat split; vm_compute; reflexivity. Qed.

(* a leaf row without mass inside its leaf: NaN matrix, no error *)
Lemma hhmm_zero_leaf_row_witness :
  hhmm_make OpsQc 4 wh_tree
    (qm [[0; 0; 1#8; 1#8]; [1#4; 1#4; 1#2; 1#4]; [1#2; 1#4; 1#4; 1]; [1#4; 1#4; 1#2; 1#2]]%Q) = inl true.
Proof. vm_compute. reflexivity. Qed.

(* F-C15-CHMM-FINAL-TIE: cells (0,0) and (0,1) tied, final states {1}: the masked cell (0,0)
   gets the group's value back *)
Definition wc_X := qm [[1#2; 1#4; 1#4]; [1#4; 1#4; 1#2]; [1#2; 1#4; 1#4]]%Q.
Definition wc_one : option (nat -> Qc) := Some (fun _ => 1%Qc).
Lemma chmm_final_tie_witness :
  match chmm_make OpsQc 3 wc_one wc_one wc_X [[(0, 0); (0, 1)]] with
  | Some (gs, _, T2) =>
      map (map this) (tmat_rows 3 T2) = [[3#8; 3#8; 1#4]; [1#4; 1#4; 1#2]; [1#2; 1#4; 1#4]]%Q /\
      zmem 0 [1%Z] = false /\
      map (map this) (tmat_rows 3 (chmm_tf OpsQc 3 (Some (fun i => nth i [Q2Qc (3#8); Q2Qc (1#4); Q2Qc (1#4)] 0%Qc)) T2 gs [1%Z]))
        = [[1#2; 1#2; 0]; [0; 1; 0]; [0; 1; 0]]%Q
  | None => False
  end.
Proof. vm_compute. repeat split; reflexivity. Qed.

(* Hmm.Posterior with a state listed twice: [[0;0];[1;0]] on a uniform 2-state model *)
Definition wp_Pi : nat -> Qc := fun _ => Q2Qc (1 # 2).
Definition wp_Tr : nat -> nat -> Qc := fun _ _ => Q2Qc (1 # 2).
Definition wp_e : nat -> nat -> Qc :=
  fun c k => nth k (nth c [[Q2Qc (1#2); Q2Qc (1#4)]; [Q2Qc (1#4); Q2Qc (1#2)]] []) 0%Qc.
Definition pval (r : pres Qc) : option Q := match r with PVal v => Some (this v) | _ => None end.
Lemma posterior_dup_witness :
  let sts := [[0; 0]; [1; 0]] in
  let lik := enum_likelihood OpsQc 2 wp_Pi wp_Tr wp_Tr (fun i => i) wp_e 2 in
  pval (posterior OpsQc 2 wp_Pi wp_Tr wp_Tr (fun i => i) wp_e 2 sts) = Some (4 # 3)%Q /\
  this (enum_sets OpsQc 2 wp_Pi wp_Tr wp_Tr (fun i => i) wp_e 2 sts / lik)%Qc = (2 # 3)%Q /\
  this (enum_msets OpsQc 2 wp_Pi wp_Tr wp_Tr (fun i => i) wp_e 2 sts / lik)%Qc = (4 # 3)%Q.
Proof. repeat split; vm_compute; reflexivity. Qed.

(* ================= hierarchical HMM: a leaf block ================= *)
Section HLEAF.
  Context {A : Type} (O : Ops A) (CF : CSemifield O).
  Let CS := sf_semiring O CF.
  Variables a b : nat.
  Notation cols := (seq a (b - a)).
  Notation rsum T i := (esum O (map (T i) cols)).

  Definition leaf_step (acc : option (@tmat A * A)) (i : nat) : option (@tmat A * A) :=
    match acc with
    | None => None
    | Some (T, r) =>
        let t1 := fold_left (fun s j => oadd O s (T i j)) cols (o0 O) in
        if ois0 O t1 then None
        else Some (fun i' j' => if (i' =? i) && inrg a b j' then odiv O (T i' j') t1 else T i' j', oadd O r t1)
    end.

  Lemma leaf_fold_none l : fold_left leaf_step l None = None.
  Proof. induction l; [reflexivity|exact IHl]. Qed.

  Lemma leaf_fold l : forall T0 r0 T' r', NoDup l ->
    fold_left leaf_step l (Some (T0, r0)) = Some (T', r') ->
    (forall i, ~ In i l -> forall j, T' i j = T0 i j) /\
    (forall i, In i l -> ois0 O (rsum T0 i) = false /\
                         forall j, T' i j = if inrg a b j then odiv O (T0 i j) (rsum T0 i) else T0 i j).
  Proof.
    induction l as [|x l IH]; intros T0 r0 T' r' ND H.
    - cbn in H. injection H as <- <-. split; [reflexivity|intros i []].
    - inversion ND as [|y l' Hnin ND']; subst. cbn [fold_left] in H. unfold leaf_step at 2 in H.
      rewrite (fold_left_esum0 O CS) in H.
      destruct (ois0 O (rsum T0 x)) eqn:Hz; [rewrite leaf_fold_none in H; discriminate|].
      destruct (IH _ _ _ _ ND' H) as [Hout Hin]. split.
      + intros i Hi j. rewrite Hout by (intros Hc; apply Hi; right; exact Hc).
        destruct (Nat.eqb_spec i x) as [->|Hne]; [exfalso; apply Hi; left; reflexivity|reflexivity].
      + intros i [<-|Hi].
        * split; [exact Hz|]. intros j. rewrite Hout by exact Hnin. rewrite Nat.eqb_refl. reflexivity.
        * assert (Hne : i <> x) by (intros ->; exact (Hnin Hi)).
          assert (Hrow : forall j, (fun i' j' => if (i' =? x) && inrg a b j' then odiv O (T0 i' j') (rsum T0 x) else T0 i' j') i j = T0 i j).
          { intros j. cbv beta. destruct (Nat.eqb_spec i x); [contradiction|reflexivity]. }
          destruct (Hin i Hi) as [Hz' Hv].
          assert (Hs : esum O (map ((fun i' j' => if (i' =? x) && inrg a b j' then odiv O (T0 i' j') (rsum T0 x) else T0 i' j') i) cols) = rsum T0 i).
          { apply (esum_ext O). intros j _. apply Hrow. }
          rewrite Hs in Hz', Hv. split; [exact Hz'|]. intros j. rewrite Hv, Hrow. reflexivity.
  Qed.

  Lemma div_sum (f : nat -> A) c l : ois0 O c = false ->
    esum O (map (fun j => odiv O (f j) c) l) = odiv O (esum O (map f l)) c.
  Proof.
    intros Hc. rewrite <- (mul_div O CF (esum O (map (fun j => odiv O (f j) c) l)) c Hc).
    f_equal. rewrite <- (esum_mul_r O CS). apply (esum_ext O). intros j _. apply (div_mul O CF). exact Hc.
  Qed.
  Lemma div_self c : ois0 O c = false -> odiv O c c = o1 O.
  Proof. intros Hc. rewrite <- (mul_1_l O CS c) at 1. apply (mul_div O CF). exact Hc. Qed.

  (* normalizeLeaf: if no row sum inside the leaf is zero, every row of the leaf sums to one over
     the leaf's columns, entries are the old ones divided by the row sum (zero stays zero),
     nothing outside the block changes *)
  Lemma hleaf_spec (T T' : @tmat A) r :
    hleaf O a b T = Some (T', r) ->
    (forall i j, inrg a b i && inrg a b j = false -> T' i j = T i j) /\
    (forall i, inrg a b i = true ->
       ois0 O (rsum T i) = false /\
       (forall j, inrg a b j = true -> T' i j = odiv O (T i j) (rsum T i)) /\
       rsum T' i = o1 O).
  Proof.
    intros H. change (hleaf O a b T) with (fold_left leaf_step cols (Some (T, o0 O))) in H.
    destruct (leaf_fold cols T (o0 O) T' r (seq_NoDup _ _) H) as [Hout Hin].
    assert (Hrg : forall i, inrg a b i = true <-> In i cols).
    { intros i. unfold inrg. rewrite andb_true_iff, Nat.leb_le, Nat.ltb_lt, in_seq. lia. }
    split.
    - intros i j Hf. destruct (inrg a b i) eqn:Hi.
      + cbn [andb] in Hf. destruct (Hin i (proj1 (Hrg i) Hi)) as [_ Hv]. rewrite Hv, Hf. reflexivity.
      + apply Hout. intros Hc. apply Hrg in Hc. congruence.
    - intros i Hi. destruct (Hin i (proj1 (Hrg i) Hi)) as [Hz Hv]. split; [exact Hz|]. split.
      + intros j Hj. rewrite Hv, Hj. reflexivity.
      + rewrite (esum_ext O _ (fun j => odiv O (T i j) (rsum T i))).
        * rewrite (div_sum _ _ _ Hz). apply div_self. exact Hz.
        * intros j Hj. apply Hrg in Hj. rewrite Hv, Hj. reflexivity.
  Qed.
End HLEAF.
