(* C15 — Viterbi: the (max, x) instance on the non-negative rationals, and the
   Viterbi weight is the path weight of the enumeration. *)
From Coq Require Import List Arith Bool Lia QArith Qcanon Ring.
From ADV Require Import C15.Model C15.Spec C15.ProofsSum C15.ProofsFwd C15.ProofsVit C15.ProofsOpt.
Import ListNotations.

Section VW.
  Context {A : Type} (O : Ops A) (CS : CSemiring O) (gt : A -> A -> bool).
  Variable Pi : nat -> A.
  Variable Tr Tf : nat -> nat -> A.
  Variable smap : nat -> nat.
  Variable e : nat -> nat -> A.
  Let W := mkVOps A (o0 O) (omul O) gt.
  Add Ring sr3 : (srt O CS).

  Lemma vwfrom_wtail n r : forall k prev acc,
    vwfrom W Tr Tf smap e n k prev acc r = omul O acc (wtail O Tr Tf smap e n k prev r).
  Proof.
    induction r as [|y r IH]; intros k prev acc.
    - simpl. ring.
    - cbn [vwfrom wtail]. rewrite IH. unfold Tk. simpl. ring.
  Qed.

  Lemma vweight_weight n p : p <> [] ->
    vweight W Pi Tr Tf smap e n p = weight O Pi Tr Tf smap e n p.
  Proof.
    destruct p as [|x r]; [congruence|]. intros _. cbn [vweight weight].
    rewrite vwfrom_wtail. reflexivity.
  Qed.
End VW.

Definition Qc_nonneg (a : Qc) : Prop := (0 <= a)%Qc.

Lemma VOpsQc_order : VOrder VOpsQc Qcle Qc_nonneg.
Proof.
  constructor; unfold Qc_nonneg; cbn [vgt vninf vplus VOpsQc].
  - apply Qcle_refl.
  - apply Qcle_trans.
  - intros a b H. destruct (b ?= a)%Qc eqn:E; try discriminate.
    apply Qclt_le_weak. apply Qclt_alt. exact E.
  - intros a b H. destruct (b ?= a)%Qc eqn:E; try discriminate.
    + apply Qceq_alt in E. rewrite E. apply Qcle_refl.
    + apply Qcgt_alt in E. apply Qclt_le_weak. exact E.
  - intros a H. exact H.
  - apply Qcle_refl.
  - intros a b Ha Hb. rewrite <- (Qcmult_0_l b). apply Qcmult_le_compat_r; assumption.
  - intros a b c Hc H. apply Qcmult_le_compat_r; assumption.
Qed.

(* Viterbi on the exact rationals: the returned path maximises the joint
   probability (the weight of the enumeration) over all paths *)
Lemma viterbi_Qc_optimal m Pi Tr Tf smap e n :
  (forall i, 0 <= Pi i)%Qc -> (forall i j, 0 <= Tr i j)%Qc -> (forall i j, 0 <= Tf i j)%Qc ->
  (forall c k, 0 <= e c k)%Qc -> 0 < m -> 0 < n ->
  let v := viterbi VOpsQc m Pi Tr Tf smap e n in
  (length v = n /\ Forall (fun x => x < m) v) /\
  forall q, length q = n -> Forall (fun x => x < m) q ->
    (weight OpsQc Pi Tr Tf smap e n q <= weight OpsQc Pi Tr Tf smap e n v)%Qc.
Proof.
  intros HPi HTr HTf He Hm Hn v.
  pose proof (viterbi_is_path VOpsQc m Pi Tr Tf smap e Hm n Hn) as HP.
  split; [exact HP|]. intros q Hl Hb.
  pose proof (viterbi_optimal VOpsQc Qcle Qc_nonneg VOpsQc_order m Pi Tr Tf smap e HPi HTr HTf He Hm n q Hn Hl Hb) as H.
  change VOpsQc with (mkVOps Qc (o0 OpsQc) (omul OpsQc) (vgt VOpsQc)) in H.
  rewrite !(vweight_weight OpsQc OpsQc_semiring) in H.
  - exact H.
  - destruct HP as [HL _]. intros E.
    change (viterbi VOpsQc m Pi Tr Tf smap e n = []) in E. unfold v in HL. rewrite E in HL. simpl in HL. lia.
  - intros E. rewrite E in Hl. simpl in Hl. lia.
Qed.
