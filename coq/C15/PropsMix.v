(* C15 — round 7, mixtures over component SUBSETS listed in any order
   (mixture.go:129-157 Posterior, :112-128 Likelihood).  Statement-only. *)
From Coq Require Import List Arith Bool QArith Qcanon Permutation.
From ADV Require Import C15.Model C15.Spec C15.ProofsOpt C15.ProofsMix2.
Import ListNotations.

(* Posterior / Likelihood of a component list depend on the list only up to
   permutation: {2,0} and {0,2} give the same value (and the same error / NaN
   outcome) *)
Theorem mixture_posterior_order_irrelevant :
  forall A (O : Ops A), CSemifield O -> forall w p sts sts',
    Permutation sts sts' -> mix_posterior O w p sts = mix_posterior O w p sts'.
Proof. exact (fun A O CF w p sts sts' => mix_posterior_perm O CF w p sts sts'). Qed.

Theorem mixture_likelihood_order_irrelevant :
  forall A (O : Ops A), CSemifield O -> forall w p sts sts',
    Permutation sts sts' -> mix_likelihood O w p sts = mix_likelihood O w p sts'.
Proof. exact (fun A O CF w p sts sts' => mix_likelihood_perm O CF w p sts sts'). Qed.

(* a subset and its complement (each listed in any order, together a
   rearrangement of all components): whenever Posterior returns a value for the
   subset it returns one for the complement, and the two sum to one *)
Theorem mixture_posterior_complement_sums_to_one :
  forall A (O : Ops A), CSemifield O -> forall w p sts sts' a,
    Permutation (sts ++ sts') (seq 0 (length w)) ->
    mix_posterior O w p sts = PVal a ->
    exists b, mix_posterior O w p sts' = PVal b /\ oadd O a b = o1 O.
Proof.
  exact (fun A O CF w p sts sts' a P Ha =>
           match mix_posterior_complement_defined O CF w p sts sts' a P Ha with
           | ex_intro _ b Hb => ex_intro _ b (conj Hb (mix_posterior_complement O CF w p sts sts' a b P Ha Hb))
           end).
Qed.

(* all components listed, in any order: posterior one; the empty list: zero *)
Theorem mixture_posterior_of_all_components_is_one :
  forall A (O : Ops A), CSemifield O -> forall w p sts a,
    Permutation sts (seq 0 (length w)) -> mix_posterior O w p sts = PVal a -> a = o1 O.
Proof. exact (fun A O CF w p sts a => mix_posterior_all O CF w p sts a). Qed.

Theorem mixture_posterior_of_no_component_is_zero :
  forall A (O : Ops A), CSemifield O -> forall w p,
    ois0 O (esum O (map (fun j => omul O (p j) (wat O w j)) (seq 0 (length w)))) = false ->
    mix_posterior O w p [] = PVal (o0 O).
Proof. exact (fun A O CF w p => mix_posterior_nil O CF w p). Qed.

(* Bayes' rule ties the two functions: Posterior(S) * LogPdf-density =
   Likelihood(S) * total weight of S, for any list S (any order, repetitions) *)
Theorem mixture_posterior_likelihood_bayes :
  forall A (O : Ops A), CSemifield O -> forall w p sts a b,
    mix_posterior O w p sts = PVal a -> mix_likelihood O w p sts = PVal b ->
    omul O a (mix_logpdf O w p) = omul O b (esum O (map (wat O w) sts)).
Proof. exact (fun A O CF w p sts a b => mix_bayes O CF w p sts a b). Qed.

(* non-vacuity: three components, subset {2,0} (unsorted) and complement {1} *)
Example mixture_subset_instance :
  let w := [Q2Qc (1 # 4); Q2Qc (1 # 2); Q2Qc (1 # 4)] in
  let p := fun j => nth j [Q2Qc (1 # 2); Q2Qc (1 # 8); 1%Qc] 0%Qc in
  Permutation ([2; 0] ++ [1]) (seq 0 (length w)) /\
  pres_Q (mix_posterior OpsQc w p [2; 0]) = Some (6 # 7)%Q /\
  pres_Q (mix_posterior OpsQc w p [0; 2]) = Some (6 # 7)%Q /\
  pres_Q (mix_posterior OpsQc w p [1]) = Some (1 # 7)%Q /\
  pres_Q (mix_likelihood OpsQc w p [2; 0]) = Some (3 # 4)%Q /\
  pres_Q (mix_posterior OpsQc w p [1; 2; 0]) = Some 1%Q /\
  pres_Q (mix_posterior OpsQc w p []) = Some 0%Q.
Proof.
  split; [simpl; eapply perm_trans; [apply perm_swap | apply perm_skip, perm_swap] |].
  repeat split; vm_compute; reflexivity.
Qed.
