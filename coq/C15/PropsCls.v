(* C15 round 6 — property theorems for the classifier front-ends
   statistics/vectorClassifier/hmmPosterior.go (HmmPosterior.Eval) and
   statistics/vectorClassifier/hmm.go (HmmClassifier.Eval); statements only, proofs in ProofsCls.v.

   [cls_posterior O m Pi Tr Tf smap e rdim n states] is HmmPosterior{hmm, states}.Eval(r, x) with
   r.Dim() = rdim, x.Dim() = n: [CErr] a returned error, [CPanic] an index panic, [COk v] the
   vector written to r.  [enum_in_set .. n k s] is the total weight of the hidden paths
   x_0..x_{n-1} with x_k in s, by explicit enumeration of [0,m)^n. *)
From Coq Require Import List Arith Bool ZArith QArith Qcanon.
From ADV Require Import C15.Model C15.ModelCls C15.ModelSet C15.Spec C15.Proofs C15.ProofsSet C15.ProofsCls.
Import ListNotations.
Open Scope nat_scope.

(* for a duplicate-free list of states below m: entry k of the result is the enumerated
   posterior probability that the hidden state at position k is one of the listed states;
   an error exactly when every path has weight zero *)
Theorem hmm_posterior_classifier_is_enumerated :
  forall A (O : Ops A), CSemifield O -> forall m Pi Tr Tf smap e n s,
    0 < n -> NoDup s -> (forall i, In i s -> i < m) ->
    cls_posterior O m Pi Tr Tf smap e n n (map Z.of_nat s) =
    if ois0 O (enum_likelihood O m Pi Tr Tf smap e n) then CErr
    else COk (map (fun k => odiv O (enum_in_set O m Pi Tr Tf smap e n k s)
                                   (enum_likelihood O m Pi Tr Tf smap e n)) (seq 0 n)).
Proof. exact (fun A O CF m Pi Tr Tf smap e n s => cls_posterior_set O CF m Pi Tr Tf smap e n s). Qed.

(* as coded, for ANY list of valid indices (repetitions count twice): the sum of the
   enumerated posterior marginals of the listed states *)
Theorem hmm_posterior_classifier_sums_listed_marginals :
  forall A (O : Ops A), CSemifield O -> forall m Pi Tr Tf smap e n s,
    0 < n -> (forall i, In i s -> i < m) ->
    cls_posterior O m Pi Tr Tf smap e n n (map Z.of_nat s) =
    if ois0 O (enum_likelihood O m Pi Tr Tf smap e n) then CErr
    else COk (map (fun k => esum O (map (fun j => odiv O (enum_marginal O m Pi Tr Tf smap e n k j)
                                                         (enum_likelihood O m Pi Tr Tf smap e n)) s)) (seq 0 n)).
Proof. exact (fun A O CF m Pi Tr Tf smap e n s => cls_posterior_list O CF m Pi Tr Tf smap e n s). Qed.

(* listing every state gives one at every position *)
Theorem hmm_posterior_classifier_of_all_states_is_one :
  forall A (O : Ops A), CSemifield O -> forall m Pi Tr Tf smap e n,
    0 < n -> ois0 O (enum_likelihood O m Pi Tr Tf smap e n) = false ->
    cls_posterior O m Pi Tr Tf smap e n n (map Z.of_nat (seq 0 m)) = COk (map (fun _ => o1 O) (seq 0 n)).
Proof. exact (fun A O CF m Pi Tr Tf smap e n => cls_posterior_all O CF m Pi Tr Tf smap e n). Qed.

(* the guards of Eval: a result vector of the wrong length is an error whatever else holds; a listed
   index outside [0,m) panics -- unless every path has weight zero (the error of PosteriorMarginals
   comes first) *)
Theorem hmm_posterior_classifier_guards :
  forall A (O : Ops A), CSemifield O -> forall m Pi Tr Tf smap e,
    (forall rdim n states, rdim <> n -> cls_posterior O m Pi Tr Tf smap e rdim n states = CErr) /\
    (forall n states, 0 < n -> cls_states_ok m states = false ->
       cls_posterior O m Pi Tr Tf smap e n n states =
       if ois0 O (enum_likelihood O m Pi Tr Tf smap e n) then CErr else CPanic).
Proof. exact cls_posterior_guards. Qed.

(* HmmClassifier.Eval writes a maximum-weight path (every ordered carrier of Viterbi's theorem) *)
Theorem hmm_classifier_returns_an_optimal_path :
  forall V (W : VOps V) le ok, VOrder W le ok -> forall m Pi Tr Tf smap e n,
    (forall i, ok (Pi i)) -> (forall i j, ok (Tr i j)) -> (forall i j, ok (Tf i j)) -> (forall c k, ok (e c k)) ->
    0 < m -> 0 < n ->
    exists p, cls_viterbi W m Pi Tr Tf smap e n n = COk p /\ is_path m n p /\
              forall q, is_path m n q -> le (vweight W Pi Tr Tf smap e n q) (vweight W Pi Tr Tf smap e n p).
Proof. exact cls_viterbi_optimal. Qed.

Theorem hmm_classifier_rejects_wrong_length :
  forall V (W : VOps V) m Pi Tr Tf smap e rdim n, rdim <> n -> cls_viterbi W m Pi Tr Tf smap e rdim n = CErr.
Proof. exact cls_viterbi_wrong_length. Qed.

(* the classifier wraps a *Hmm: after ANY setter history on that object (PropsSet.v) its result is the
   enumeration for the CURRENT parameters *)
Theorem hmm_posterior_classifier_after_any_setter_history :
  forall A (O : Ops A), CSemifield O -> forall m rawpi rawtr (ops : list (@sop A)) smap e n s,
    0 < n -> NoDup s -> (forall i, In i s -> i < m) ->
    let st := run O m ops (init O rawpi rawtr) in
    let Pi := vfun O (stPi st) in
    let Tr := mfun O (stTr st) in
    let TfSpec := mfun O (tf_of O (spec_tr ops (make_tr O rawtr)) (spec_final m ops None)) in
    cls_posterior O m Pi Tr (mfun O (stTf st)) smap e n n (map Z.of_nat s) =
    if ois0 O (enum_likelihood O m Pi Tr TfSpec smap e n) then CErr
    else COk (map (fun k => odiv O (enum_in_set O m Pi Tr TfSpec smap e n k s)
                                   (enum_likelihood O m Pi Tr TfSpec smap e n)) (seq 0 n)).
Proof. exact cls_after_history. Qed.

(* non-trivial instance: 3 states, non-injective state map, a final-step matrix that differs from Tr,
   states listed out of order *)
Example posterior_classifier_instance :
  let q := fun a b => Q2Qc (Z.of_nat a # Pos.of_nat b) in
  let Pi := fun i => nth i [q 1 4; q 1 2; q 1 4] 0%Qc in
  let Tr := fun i j => nth j (nth i [[q 1 2; q 1 4; q 1 4]; [q 1 4; q 1 2; q 1 4]; [0%Qc; q 1 2; q 1 2]] []) 0%Qc in
  let Tf := fun i j => nth j (nth i [[0%Qc; q 1 2; q 1 2]; [0%Qc; q 2 3; q 1 3]; [0%Qc; q 1 2; q 1 2]] []) 0%Qc in
  let sm := fun i => nth i [0; 1; 0] 0 in
  let e := fun c k => nth k (nth c [[q 1 2; 1%Qc; q 1 4]; [1%Qc; q 1 8; q 3 4]] []) 0%Qc in
  let S := [2; 0] in
  match cls_posterior OpsQc 3 Pi Tr Tf sm e 3 3 [2%Z; 0%Z] with COk v => map this v | _ => [] end =
  map (fun k => this (enum_in_set OpsQc 3 Pi Tr Tf sm e 3 k S / enum_likelihood OpsQc 3 Pi Tr Tf sm e 3)%Qc) [0; 1; 2] /\
  cls_posterior OpsQc 3 Pi Tr Tf sm e 3 3 [2%Z; 3%Z] = CPanic /\
  cls_posterior OpsQc 3 Pi Tr Tf sm e 2 3 [2%Z] = CErr /\
  Qc_is0 (enum_in_set OpsQc 3 Pi Tr Tf sm e 3 1 [2; 0]) = false /\
  match cls_viterbi VOpsQc 3 Pi Tr Tf sm e 3 3 with COk p => p | _ => [] end = [1; 0; 1].
Proof. repeat split; vm_compute; reflexivity. Qed.
