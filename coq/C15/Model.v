(* C15 — executable model of the HMM / mixture inference code of
   /repo/statistics/generic (hmm.go, hmm_optimized.go, hmm_viterbi.go,
   hmm_utility.go, mixture.go).

   The Go code works on log-probabilities with the operations
       Add     (product of probabilities),
       LogAdd  (sum of probabilities),
       Sub     (quotient),
       -Inf    (probability zero),     0.0 (probability one),
       IsInf(.,-1)                      (is-zero test).
   The model is written once over an abstract carrier with exactly these
   operations ([Ops]); it is executed on canonical rationals [Qc] (probability
   semiring, exact) and, for Viterbi, on Coq's primitive binary64 floats with
   (+, >, -Inf) (bit-exact replay of the Go tables).  No proofs in this file. *)
From Coq Require Import List Arith Bool ZArith QArith Qcanon Floats.
Import ListNotations.
Open Scope nat_scope.

Record Ops (A : Type) := mkOps {
  o0 : A;                      (* math.Inf(-1) *)
  o1 : A;                      (* 0.0 *)
  oadd : A -> A -> A;          (* c.LogAdd(a, b, t) *)
  omul : A -> A -> A;          (* c.Add(a, b) *)
  odiv : A -> A -> A;          (* c.Sub(a, b) *)
  ois0 : A -> bool             (* math.IsInf(x, -1) *)
}.
Arguments o0 {A}. Arguments o1 {A}. Arguments oadd {A}. Arguments omul {A}.
Arguments odiv {A}. Arguments ois0 {A}.

(* what Viterbi needs: +, >, -Inf on the float64 values *)
Record VOps (V : Type) := mkVOps {
  vninf : V;
  vplus : V -> V -> V;
  vgt : V -> V -> bool
}.
Arguments vninf {V}. Arguments vplus {V}. Arguments vgt {V}.

Definition upd {X} (l : list X) (i : nat) (v : X) : list X :=
  if i <? length l then firstn i l ++ v :: skipn (S i) l else l.

Inductive pres (A : Type) := PErr | PNaN | PVal (v : A).
Arguments PErr {A}. Arguments PNaN {A}. Arguments PVal {A}.

Section HMM.
  Context {A : Type} (O : Ops A).
  (* the model after construction: M, Pi, Tr, Tf, StateMap; emissions as a table
     e c k = data.LogPdf(., c, k) *)
  Variable m : nat.
  Variable Pi : nat -> A.
  Variable Tr Tf : nat -> nat -> A.
  Variable smap : nat -> nat.
  Variable e : nat -> nat -> A.

  Definition states : list nat := seq 0 m.
  Definition at_ (c : list A) (i : nat) : A := nth i c (o0 O).

  (* ---- forward (hmm.go:479-534) ---- *)
  (* alpha.At(i,0).Add(Pi.At(i), t2) *)
  Definition col0 : list A := map (fun i => omul O (Pi i) (e (smap i) 0)) states.
  (* at := -Inf; for i { t1 := T(i,j)+alpha(i,k-1); at := LogAdd(at,t1) }; at := at + e(j,k) *)
  Definition fstep (T : nat -> nat -> A) (prev : list A) (k : nat) : list A :=
    map (fun j => omul O (fold_left (fun acc i => oadd O acc (omul O (T i j) (at_ prev i))) states (o0 O))
                         (e (smap j) k)) states.
  Fixpoint floop (cnt k : nat) (prev : list A) : list (list A) :=
    match cnt with
    | 0 => []
    | S c => let cur := fstep Tr prev k in cur :: floop c (S k) cur
    end.
  (* columns 0..n-1 of alpha *)
  Definition forward (n : nat) : list (list A) :=
    match n with
    | 0 => []
    | S _ => let cols := col0 :: floop (n - 2) 1 col0 in
             if 1 <? n then cols ++ [fstep Tf (last cols col0) (n - 1)] else cols
    end.

  (* ---- backward (hmm.go:536-583) ---- *)
  Definition bcol_last : list A := map (fun _ => o1 O) states.
  (* first step: bs := -Inf; for j { t1 := Tf(i,j) + e(j,n-1); bs := LogAdd(bs,t1) } *)
  Definition bfirst (n : nat) : list A :=
    map (fun i => fold_left (fun bs j => oadd O bs (omul O (Tf i j) (e (smap j) (n - 1)))) states (o0 O)) states.
  (* for j { t1 := Tr(i,j)+beta(j,k+1); t1 := t1 + e(j,k+1); bs := LogAdd(bs,t1) } *)
  Definition bstep (next : list A) (k : nat) : list A :=
    map (fun i => fold_left (fun bs j => oadd O bs (omul O (omul O (Tr i j) (at_ next j)) (e (smap j) (k + 1)))) states (o0 O)) states.
  (* columns cnt-1 .. 0, returned in increasing k *)
  Fixpoint bloop (cnt : nat) (next : list A) : list (list A) :=
    match cnt with
    | 0 => []
    | S c => let cur := bstep next c in bloop c cur ++ [cur]
    end.
  Definition backward (n : nat) : list (list A) :=
    match n with
    | 0 => []
    | S _ => if 1 <? n then let b1 := bfirst n in bloop (n - 2) b1 ++ [b1; bcol_last]
             else [bcol_last]
    end.

  (* ---- LogPdf (hmm.go:272-342): two swapped buffers, same step ---- *)
  Fixpoint lploop (cnt k : nat) (prev : list A) : list A :=
    match cnt with
    | 0 => prev
    | S c => lploop c (S k) (fstep Tr prev k)
    end.
  Definition sumcol (c : list A) : A := fold_left (fun r x => oadd O r x) c (o0 O).
  Definition logpdf (n : nat) : A :=
    match n with
    | 0 => o1 O
    | S _ => let a := lploop (n - 2) 1 col0 in
             let a' := if 1 <? n then fstep Tf a (n - 1) else a in
             sumcol a'
    end.

  (* ---- PosteriorMarginals (hmm.go:616-648); result [k][i]; None = error
          "all paths have zero probability" ---- *)
  Definition gamma_col (a b : list A) : option (list A) :=
    let g := map (fun i => omul O (at_ a i) (at_ b i)) states in
    let t1 := sumcol g in
    if ois0 O t1 then None else Some (map (fun x => odiv O x t1) g).
  Fixpoint gamma_cols (al be : list (list A)) : option (list (list A)) :=
    match al, be with
    | a :: al', b :: be' =>
        match gamma_col a b with
        | None => None
        | Some g => match gamma_cols al' be' with None => None | Some r => Some (g :: r) end
        end
    | _, _ => Some []
    end.
  Definition marginals (n : nat) : option (list (list A)) :=
    gamma_cols (forward n) (backward n).

  (* ---- Posterior of a sequence of state sets (hmm.go:349-475).  The restricted
          alpha lives in two swapped buffers that are only written at the listed
          states (fresh buffers hold 0.0, i.e. [o1]). ---- *)
  Definition pstep (T : nat -> nat -> A) (as_ at0 : list A) (prevst curst : list nat) (k : nat) : list A :=
    fold_left (fun buf j =>
                 upd buf j (omul O (fold_left (fun acc i => oadd O acc (omul O (T i j) (at_ as_ i))) prevst (o0 O))
                                   (e (smap j) k)))
              curst at0.
  Definition pinit (st0 : list nat) : list A :=
    fold_left (fun buf i => upd buf i (omul O (Pi i) (e (smap i) 0))) st0 (repeat (o1 O) m).
  (* returns (alpha_s, alpha_t) after the middle loop *)
  Fixpoint ploop (k : nat) (as_ at0 : list A) (prevst : list nat) (sts : list (list nat)) (n : nat)
    : list A * list A * list nat :=
    match sts with
    | [] => (as_, at0, prevst)
    | cur :: rest =>
        if k <? n - 1 then
          let at1 := pstep Tr as_ at0 prevst cur k in
          ploop (S k) at1 as_ cur rest n
        else (as_, at0, prevst)
    end.
  Definition posterior (n : nat) (sts : list (list nat)) : pres A :=
    if negb (n =? length sts) then PErr else
    match sts with
    | [] => PVal (o1 O)
    | st0 :: rest =>
        let a0 := pinit st0 in
        let '(as_, at0, prevst) := ploop 1 a0 (repeat (o1 O) m) st0 rest n in
        let lastst := last sts [] in
        let fin := if 1 <? n then pstep Tf as_ at0 prevst lastst (n - 1) else as_ in
        let r := fold_left (fun r j => oadd O r (at_ fin j)) lastst (o0 O) in
        let t1 := logpdf n in
        if ois0 O t1 then PNaN else PVal (odiv O r t1)
    end.

  (* ---- the float64-specialised forward/backward of hmm_optimized.go, written
          out a second time (AT / LOGADD / ADD instead of At / LogAdd / Add) ---- *)
  Definition ocol0 : list A := map (fun i => omul O (Pi i) (e (smap i) 0)) states.
  Definition ofstep (T : nat -> nat -> A) (prev : list A) (k : nat) : list A :=
    map (fun j =>
           let at0 := fold_left (fun acc i => let t1 := omul O (T i j) (at_ prev i) in oadd O acc t1) states (o0 O) in
           omul O at0 (e (smap j) k)) states.
  Fixpoint ofloop (cnt k : nat) (prev : list A) : list (list A) :=
    match cnt with
    | 0 => []
    | S c => let cur := ofstep Tr prev k in cur :: ofloop c (S k) cur
    end.
  Definition oforward (n : nat) : list (list A) :=
    match n with
    | 0 => []
    | S _ => let cols := ocol0 :: ofloop (n - 2) 1 ocol0 in
             if 1 <? n then cols ++ [ofstep Tf (last cols ocol0) (n - 1)] else cols
    end.
  Definition obfirst (n : nat) : list A :=
    map (fun i => fold_left (fun bs j => let t1 := omul O (Tf i j) (e (smap j) (n - 1)) in oadd O bs t1) states (o0 O)) states.
  Definition obstep (next : list A) (k : nat) : list A :=
    map (fun i => fold_left (fun bs j =>
                               let t1 := omul O (Tr i j) (at_ next j) in
                               let t1' := omul O t1 (e (smap j) (k + 1)) in oadd O bs t1') states (o0 O)) states.
  Fixpoint obloop (cnt : nat) (next : list A) : list (list A) :=
    match cnt with
    | 0 => []
    | S c => let cur := obstep next c in obloop c cur ++ [cur]
    end.
  Definition obackward (n : nat) : list (list A) :=
    match n with
    | 0 => []
    | S _ => if 1 <? n then let b1 := obfirst n in obloop (n - 2) b1 ++ [b1; map (fun _ => o1 O) states]
             else [map (fun _ => o1 O) states]
    end.
End HMM.

(* ---- Viterbi (hmm_viterbi.go) ---- *)
Section VITERBI.
  Context {V : Type} (W : VOps V).
  Variable m : nat.
  Variable Pi : nat -> V.
  Variable Tr Tf : nat -> nat -> V.
  Variable smap : nat -> nat.
  Variable e : nat -> nat -> V.

  Definition vat (c : list V) (i : nat) : V := nth i c (vninf W).
  (* i_pos := 0; i_val := -Inf; for i { if v := f i; v > i_val { i_pos = i; i_val = v } } *)
  Definition argmax (f : nat -> V) : nat * V :=
    fold_left (fun pv i => let v := f i in if vgt W v (snd pv) then (i, v) else pv) (seq 0 m) (0, vninf W).
  Definition vcol0 : list V := map (fun j => vplus W (Pi j) (e (smap j) 0)) (seq 0 m).
  (* one column of t1 and t2 *)
  Definition vstep (T : nat -> nat -> V) (prev : list V) (k : nat) : list (V * nat) :=
    map (fun j => let pv := argmax (fun i => vplus W (vat prev i) (T i j)) in
                  (vplus W (snd pv) (e (smap j) k), fst pv)) (seq 0 m).
  (* columns 1.. of (t1,t2); the column for k uses Tr when k < n-1 and Tf when k = n-1 *)
  Fixpoint vloop (cnt k n : nat) (prev : list V) : list (list (V * nat)) :=
    match cnt with
    | 0 => []
    | S c => let cur := vstep (if k <? n - 1 then Tr else Tf) prev k in
             cur :: vloop c (S k) n (map fst cur)
    end.
  Definition vtables (n : nat) : list V * list (list (V * nat)) := (vcol0, vloop (n - 1) 1 n vcol0).
  (* r[k] = t2[r[k+1]][k+1], cols given in decreasing k *)
  Fixpoint vback (cur : nat) (rcols : list (list (V * nat))) : list nat :=
    match rcols with
    | [] => []
    | c :: rest => let p := snd (nth cur c (vninf W, 0)) in p :: vback p rest
    end.
  Definition viterbi (n : nat) : list nat :=
    match n with
    | 0 => []
    | S _ =>
        let '(c0, cols) := vtables n in
        let lastc := last (map (map fst) cols) c0 in
        let ipos := fst (argmax (fun i => vat lastc i)) in
        rev (ipos :: vback ipos (rev cols))
    end.
End VITERBI.

(* ---- normalisation of the parameters (hmm_utility.go Normalize, hmm.go
        normalizePi / normalizeTf, SetStartStates / SetFinalStates) ---- *)
Section NORMALIZE.
  Context {A : Type} (O : Ops A).
  Definition lsum (l : list A) : A := fold_left (fun r x => oadd O r x) l (o0 O).
  (* HmmProbabilityVector.Normalize: on failure the vector is left as it is *)
  Definition norm_vec (l : list A) : list A :=
    let t1 := lsum l in if ois0 O t1 then l else map (fun x => odiv O x t1) l.
  Definition zmem (i : nat) (l : list Z) : bool := existsb (fun z => Z.eqb z (Z.of_nat i)) l.
  Definition mask_vec (keep : list Z) (l : list A) : list A :=
    map (fun ix => if zmem (fst ix) keep then snd ix else o0 O) (combine (seq 0 (length l)) l).
  (* NewHmmProbabilityVector; newHmm.normalize; SetStartStates (len(states) > 0) *)
  Definition make_pi (raw : list A) (start : list Z) : list A :=
    let p := norm_vec (norm_vec raw) in
    match start with [] => p | _ => norm_vec (mask_vec start p) end.
  (* HmmTransitionMatrix.Normalize: an all-zero row i gets entry (i,i) := one *)
  Definition norm_row (i : nat) (row : list A) : list A :=
    let t1 := lsum row in
    if ois0 O t1 then upd row i (o1 O) else map (fun x => odiv O x t1) row.
  Definition norm_mat (mt : list (list A)) : list (list A) :=
    map (fun ir => norm_row (fst ir) (snd ir)) (combine (seq 0 (length mt)) mt).
  Definition make_tr (raw : list (list A)) : list (list A) := norm_mat (norm_mat raw).
  Definition make_tf (tr : list (list A)) (final : list Z) : list (list A) :=
    match final with [] => tr | _ => norm_mat (map (mask_vec final) tr) end.
End NORMALIZE.

(* ---- mixture (mixture.go) ---- *)
Section MIXTURE.
  Context {A : Type} (O : Ops A).
  (* a - b on log-values: NaN when both are -Inf (b = -Inf and a finite cannot
     occur below: the numerator is a sub-sum of the denominator) *)
  Definition qdiv (a b : A) : pres A := if ois0 O b then PNaN else PVal (odiv O a b).
  (* NewMixture: log, normalize (no zero test: 0/0 = NaN for every weight) *)
  Definition mix_weights (raw : list A) : option (list A) :=
    let t1 := lsum O raw in if ois0 O t1 then None else Some (map (fun x => odiv O x t1) raw).
  Variable w : list A.           (* normalised weights *)
  Variable p : nat -> A.         (* component densities at the observation *)
  Definition wat (j : nat) : A := nth j w (o0 O).
  Definition mix_logpdf : A :=
    fold_left (fun r j => oadd O r (omul O (p j) (wat j))) (seq 0 (length w)) (o0 O).
  Definition mix_sel (sts : list nat) : A :=
    fold_left (fun r j => oadd O r (omul O (p j) (wat j))) sts (o0 O).
  Definition mix_posterior (sts : list nat) : pres A :=
    if forallb (fun j => j <? length w) sts then qdiv (mix_sel sts) mix_logpdf else PErr.
  Definition mix_likelihood (sts : list nat) : pres A :=
    if forallb (fun j => j <? length w) sts
    then qdiv (mix_sel sts) (fold_left (fun z j => oadd O z (wat j)) sts (o0 O)) else PErr.
End MIXTURE.

(* ---- explicit enumeration of hidden paths (the reference of the property) ---- *)
Section ENUM.
  Context {A : Type} (O : Ops A).
  Variable m : nat.
  Variable Pi : nat -> A.
  Variable Tr Tf : nat -> nat -> A.
  Variable smap : nat -> nat.
  Variable e : nat -> nat -> A.
  (* all paths of length n over [0,m) *)
  Fixpoint paths (n : nat) : list (list nat) :=
    match n with
    | 0 => [[]]
    | S n' => flat_map (fun x => map (fun p => x :: p) (paths n')) (seq 0 m)
    end.
  (* transition used to enter position k of a sequence of length n *)
  Definition Tk (n k : nat) : nat -> nat -> A := if k <? n - 1 then Tr else Tf.
  (* weight of x_k.. given the previous state *)
  Fixpoint wtail (n k prev : nat) (p : list nat) : A :=
    match p with
    | [] => o1 O
    | x :: r => omul O (omul O (Tk n k prev x) (e (smap x) k)) (wtail n (S k) x r)
    end.
  Definition weight (n : nat) (p : list nat) : A :=
    match p with
    | [] => o1 O
    | x :: r => omul O (omul O (Pi x) (e (smap x) 0)) (wtail n 1 x r)
    end.
  Definition esum (l : list A) : A := fold_right (oadd O) (o0 O) l.
  Definition enum_likelihood (n : nat) : A := esum (map (weight n) (paths n)).
  Definition enum_marginal (n k i : nat) : A :=
    esum (map (weight n) (filter (fun p => nth k p m =? i) (paths n))).
  Definition in_sets (sts : list (list nat)) (p : list nat) : bool :=
    forallb (fun xs => existsb (Nat.eqb (fst xs)) (snd xs)) (combine p sts).
  Definition enum_sets (n : nat) (sts : list (list nat)) : A :=
    esum (map (weight n) (filter (in_sets sts) (paths n))).
End ENUM.

(* ---- instances ---- *)
Definition Qc_is0 (x : Qc) : bool := Qeq_bool x 0.
Definition OpsQc : Ops Qc := mkOps Qc 0%Qc 1%Qc Qcplus Qcmult Qcdiv Qc_is0.
Definition VOpsQc : VOps Qc := mkVOps Qc 0%Qc Qcmult (fun a b => match (b ?= a)%Qc with Lt => true | _ => false end).
Definition VOpsF : VOps float := mkVOps float neg_infinity PrimFloat.add (fun a b => PrimFloat.ltb b a).
