(* C15 (round 6) — the setter state machine of ModelSet.v extended by the CONFIG ROUND TRIP

     obj.ImportConfig(json(obj.ExportConfig()), t)      statistics/generic/hmm.go:699-772

   as one more history step on the same object:

     ExportConfig   hmm.go:738-772   Pi, Tr exponentiated; StateMap; N = Pi.Dim(); the keys of the two
                                     state sets (nil maps give JSON null, read back as empty lists)
     ImportConfig   hmm.go:699-736   NewHmmProbabilityVector(pi, isLog = false): log, Normalize -- when the
                                     normalisation fails (no mass) the error "normalization failed" is
                                     returned by ImportConfig and the receiver is unchanged (until the fix
                                     "NewHmmProbabilityVector returns the normalisation error" the error was
                                     swallowed and NewHmm panicked on a nil vector: F-C15-PIVEC-ERR-SWALLOWED, repaired).
                                     NewHmmTransitionMatrix(tr, false): log, Normalize (an all-zero row i gets
                                     (i,i) := one).  NewHmm: normalizePi, normalizeTr once more, Tf IS Tr.
                                     *obj = *tmp; SetStartStates(keys); SetFinalStates(keys).

   So a successful round trip is the constructor on the CURRENT Pi and Tr followed by the two setter
   calls: it renormalises whatever SetParameters stored raw, re-applies the start-state mask (which
   SetParameters had dropped: F-C15-SETPARAMS-START) and derives Tf afresh -- a fourth code path
   that computes the derived final-step matrix.

   [cur] is the specification side: the CURRENT PARAMETERS the history calls for (Pi, Tr, the two
   sets), a machine WITHOUT derived state.  No proofs in this file. *)
From Coq Require Import List Arith Bool ZArith.
From ADV Require Import C15.Model C15.ModelSet.
Import ListNotations.
Open Scope nat_scope.

Section HIST.
  Context {A : Type} (O : Ops A).
  Variable m : nat.

  Inductive xop :=
  | XOld (o : @sop A)       (* SetStartStates / SetFinalStates / SetParameters / Clone *)
  | XConfig.                (* obj.ImportConfig(json(obj.ExportConfig())) *)

  Definition keys (o : option (list Z)) : list Z := match o with None => [] | Some l => l end.
  (* NewHmmProbabilityVector cannot normalise exp(Pi) *)
  Definition config_fails (s : @hst A) : bool := ois0 O (lsum O (stPi s)).
  Definition config_step (s : @hst A) : @hst A :=
    run O m [OStart (keys (stStart s)); OFinal (keys (stFinal s))] (init O (stPi s) (stTr s)).

  (* one call: new state, "an error was returned", "it panicked" (no call of this machine panics at HEAD) *)
  Definition xstep (s : @hst A) (o : xop) : @hst A * bool * bool :=
    match o with
    | XOld o => (step O m s o, false)
    | XConfig => if config_fails s then (s, true, false) else (config_step s, false, false)
    end.
  Definition xrun (ops : list xop) (s : @hst A) : @hst A := fold_left (fun s o => fst (fst (xstep s o))) ops s.
  Fixpoint xtrace (ops : list xop) (s : @hst A) : list (@hst A * bool * bool) :=
    match ops with
    | [] => []
    | o :: r => let se := xstep s o in se :: xtrace r (fst (fst se))
    end.

  (* ---- the current parameters (specification side) ---- *)
  Record cur := mkCur { cuPi : list A; cuTr : list (list A); cuStart : option (list Z); cuFinal : option (list Z) }.
  Definition accepted (l : list Z) : bool := valid_states m l && nonempty l.
  Definition reaccept (o : option (list Z)) : option (list Z) :=
    match o with Some l => if accepted l then Some l else None | None => None end.
  Definition cur_step (c : cur) (o : xop) : cur :=
    match o with
    | XOld (OStart l) => if accepted l then mkCur (pi_masked O (cuPi c) (Some l)) (cuTr c) (Some l) (cuFinal c) else c
    | XOld (OFinal l) => if accepted l then mkCur (cuPi c) (cuTr c) (cuStart c) (Some l) else c
    | XOld (OParams pi tr) => mkCur pi tr (cuStart c) (cuFinal c)
    | XOld OClone => mkCur (pi_masked O (cuPi c) (cuStart c)) (cuTr c) (cuStart c) (cuFinal c)
    | XConfig =>
        if ois0 O (lsum O (cuPi c)) then c
        else mkCur (pi_masked O (norm_vec O (norm_vec O (cuPi c))) (reaccept (cuStart c)))
                   (make_tr O (cuTr c)) (reaccept (cuStart c)) (reaccept (cuFinal c))
    end.
  Definition cur_run (ops : list xop) (c : cur) : cur := fold_left cur_step ops c.
  Definition cur_of (s : @hst A) : cur := mkCur (stPi s) (stTr s) (stStart s) (stFinal s).
  Definition cur_init (rawpi : list A) (rawtr : list (list A)) : cur :=
    mkCur (norm_vec O (norm_vec O rawpi)) (make_tr O rawtr) None None.
End HIST.
