(* C15 (round 2) — the lemmas in the exact form quoted by Props.v. *)
From Coq Require Import List Arith Bool.
From ADV Require Import C15.Model C15.ModelBuf C15.Spec C15.ProofsSum C15.ProofsFwd C15.ProofsBwd
  C15.ProofsBuf C15.ProofsPost C15.ProofsBW.
Import ListNotations.
Open Scope nat_scope.

Lemma forward_buf_top A (O : Ops A) (CS : CSemiring O) m Pi Tr Tf smap e (alpha : @mat A) n i k :
  forward_buf O m Pi Tr Tf smap e alpha n i k =
  if (k <? n) && (i <? m)
  then esum O (map (fun p => weight O Pi Tr Tf smap e n (p ++ [i])) (paths m k))
  else alpha i k.
Proof. exact (forward_buf_paths O CS m Pi Tr Tf smap e alpha n i k). Qed.

Lemma backward_buf_top A (O : Ops A) (CS : CSemiring O) m Tr Tf smap e (beta : @mat A) n i k :
  backward_buf O m Tr Tf smap e beta n i k =
  if (k <? n) && (i <? m)
  then esum O (map (wtail O Tr Tf smap e n (S k) i) (paths m (n - 1 - k)))
  else beta i k.
Proof. exact (backward_buf_paths O CS m Tr Tf smap e beta n i k). Qed.

Lemma ofb_buf_top A (O : Ops A) (CS : CSemiring O) m Pi Tr Tf smap e (alpha beta : @mat A) n i k :
  fst (ofb_buf O m Pi Tr Tf smap e (alpha, beta) n) i k =
    (if (k <? n) && (i <? m)
     then esum O (map (fun p => weight O Pi Tr Tf smap e n (p ++ [i])) (paths m k)) else alpha i k) /\
  snd (ofb_buf O m Pi Tr Tf smap e (alpha, beta) n) i k =
    (if (k <? n) && (i <? m)
     then esum O (map (wtail O Tr Tf smap e n (S k) i) (paths m (n - 1 - k))) else beta i k).
Proof.
  unfold ofb_buf. cbn [fst snd]. rewrite oforward_buf_eq, obackward_buf_eq. split.
  - exact (forward_buf_paths O CS m Pi Tr Tf smap e alpha n i k).
  - exact (backward_buf_paths O CS m Tr Tf smap e beta n i k).
Qed.

(* a thread: records processed one after the other on the same two matrices *)
Lemma ofb_thread_top A (O : Ops A) (CS : CSemiring O) m Pi Tr Tf smap
      (before : list (nat * (nat -> nat -> A))) (alpha0 beta0 : @mat A) n e i k :
  k < n -> i < m ->
  let ab := fold_left (fun ab r => ofb_buf O m Pi Tr Tf smap (snd r) ab (fst r)) before (alpha0, beta0) in
  fst (ofb_buf O m Pi Tr Tf smap e ab n) i k =
    esum O (map (fun p => weight O Pi Tr Tf smap e n (p ++ [i])) (paths m k)) /\
  snd (ofb_buf O m Pi Tr Tf smap e ab n) i k =
    esum O (map (wtail O Tr Tf smap e n (S k) i) (paths m (n - 1 - k))) /\
  omul O (fst (ofb_buf O m Pi Tr Tf smap e ab n) i k) (snd (ofb_buf O m Pi Tr Tf smap e ab n) i k) =
    enum_marginal O m Pi Tr Tf smap e n k i.
Proof.
  intros Hk Hi ab. destruct ab as [a b].
  destruct (ofb_buf_top A O CS m Pi Tr Tf smap e a b n i k) as [E1 E2].
  apply Nat.ltb_lt in Hk, Hi. rewrite Hk, Hi in E1, E2. cbn [andb] in E1, E2.
  split; [exact E1|]. split; [exact E2|]. rewrite E1, E2.
  apply Nat.ltb_lt in Hk, Hi. exact (alpha_beta O CS m Pi Tr Tf smap e n k i Hk Hi).
Qed.

Lemma opt_buf_generic A (O : Ops A) m Pi Tr Tf smap e (alpha beta : @mat A) n :
  oforward_buf O m Pi Tr Tf smap e alpha n = forward_buf O m Pi Tr Tf smap e alpha n /\
  obackward_buf O m Tr Tf smap e beta n = backward_buf O m Tr Tf smap e beta n.
Proof. split; reflexivity. Qed.
