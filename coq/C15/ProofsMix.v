(* C15 — mixtures: LogPdf is sum_j w_j p_j, Posterior / Likelihood are the ratios. *)
From Coq Require Import List Arith Bool Lia.
From ADV Require Import C15.Model C15.Spec C15.ProofsSum.
Import ListNotations.

Section MIX.
  Context {A : Type} (O : Ops A) (CF : CSemifield O).
  Let CS := sf_semiring O CF.
  Variable w : list A.
  Variable p : nat -> A.
  Notation sum := (esum O).
  Notation term := (fun j => omul O (p j) (wat O w j)).

  Lemma mix_logpdf_sum : mix_logpdf O w p = sum (map term (seq 0 (length w))).
  Proof. unfold mix_logpdf. apply (fold_left_esum0 O CS term). Qed.

  Lemma mix_sel_sum sts : mix_sel O w p sts = sum (map term sts).
  Proof. unfold mix_sel. apply (fold_left_esum0 O CS term). Qed.

  (* Posterior(states) * total = sum over the selected components; NaN exactly
     when the total is zero; an error exactly when a component is out of range *)
  Lemma mix_posterior_spec sts :
    mix_posterior O w p sts =
    if forallb (fun j => j <? length w) sts then
      if ois0 O (sum (map term (seq 0 (length w)))) then PNaN
      else PVal (odiv O (sum (map term sts)) (sum (map term (seq 0 (length w)))))
    else PErr.
  Proof.
    unfold mix_posterior, qdiv. rewrite mix_logpdf_sum, mix_sel_sum. reflexivity.
  Qed.

  Lemma mix_posterior_ratio sts v :
    mix_posterior O w p sts = PVal v ->
    omul O v (sum (map term (seq 0 (length w)))) = sum (map term sts).
  Proof.
    rewrite mix_posterior_spec. destruct (forallb _ sts); [|discriminate].
    destruct (ois0 O _) eqn:Z; [discriminate|]. intros E. inversion E; subst.
    apply (div_mul O CF). exact Z.
  Qed.

  Lemma mix_likelihood_spec sts :
    mix_likelihood O w p sts =
    if forallb (fun j => j <? length w) sts then
      if ois0 O (sum (map (wat O w) sts)) then PNaN
      else PVal (odiv O (sum (map term sts)) (sum (map (wat O w) sts)))
    else PErr.
  Proof.
    unfold mix_likelihood, qdiv. rewrite mix_sel_sum.
    rewrite (fold_left_esum0 O CS (wat O w)). reflexivity.
  Qed.
End MIX.

Section MIXW.
  Context {A : Type} (O : Ops A) (CF : CSemifield O).
  Let CS := sf_semiring O CF.
  (* NewMixture normalises: the weights sum to one (when their total is not zero) *)
  Lemma mix_weights_sum raw w : mix_weights O raw = Some w -> esum O w = o1 O.
  Proof.
    unfold mix_weights. destruct (ois0 O (lsum O raw)) eqn:Z; [discriminate|].
    intros E. inversion E; subst. clear E.
    assert (L : lsum O raw = esum O raw).
    { unfold lsum. rewrite (fold_left_esum0 O CS (fun x => x)), map_id. reflexivity. }
    rewrite L in *.
    rewrite <- (mul_div O CF (esum O (map (fun x => odiv O x (esum O raw)) raw)) (esum O raw) Z).
    rewrite <- (esum_mul_r O CS).
    rewrite (esum_ext O _ (fun x => x)) by (intros x _; apply (div_mul O CF); exact Z).
    rewrite map_id. rewrite <- (mul_1_l O CS (esum O raw)) at 1. apply (mul_div O CF). exact Z.
  Qed.
End MIXW.
