(* C15 (round 2) — frame / initialisation theorems for the work buffers:
   forward_buf / backward_buf (and the float64-specialised copies) overwrite
   every cell they later read, so for ARBITRARY prior content of the matrix the
   cells (i,k), i < m, k < n hold the path sums and every other cell is
   untouched. *)
From Coq Require Import List Arith Bool Lia Ring.
From ADV Require Import C15.Model C15.ModelBuf C15.Spec C15.ProofsSum C15.ProofsFwd C15.ProofsBwd.
Import ListNotations.

(* ---- data flow of the cell and column loops (no algebra) ---- *)
Section FLOW.
  Context {A : Type} (O : Ops A).

  Lemma mset_same (b : @mat A) i k v : mset b i k v i k = v.
  Proof. unfold mset. rewrite !Nat.eqb_refl. reflexivity. Qed.
  Lemma mset_other (b : @mat A) i k v i' k' : (i' <> i \/ k' <> k) -> mset b i k v i' k' = b i' k'.
  Proof.
    intros H. unfold mset.
    destruct (Nat.eqb_spec i' i); destruct (Nat.eqb_spec k' k); simpl; try reflexivity.
    exfalso; destruct H; congruence.
  Qed.

  (* a cell used as its own accumulator: set to zero, then [cell := cell (+) f(buffer, i)]
     where f does not read the cell *)
  Lemma acc_cell (f : @mat A -> nat -> A) (j k : nat) (a : @mat A) :
    (forall a' i, (forall i' k', (i' <> j \/ k' <> k) -> a' i' k' = a i' k') -> f a' i = f a i) ->
    forall l,
    let r := fold_left (fun a i => mset a j k (oadd O (a j k) (f a i))) l (mset a j k (o0 O)) in
    r j k = fold_left (fun acc i => oadd O acc (f a i)) l (o0 O) /\
    (forall i' k', (i' <> j \/ k' <> k) -> r i' k' = a i' k').
  Proof.
    intros Hf l.
    assert (G : forall l a' acc, a' j k = acc ->
                (forall i' k', (i' <> j \/ k' <> k) -> a' i' k' = a i' k') ->
                let r := fold_left (fun a i => mset a j k (oadd O (a j k) (f a i))) l a' in
                r j k = fold_left (fun acc i => oadd O acc (f a i)) l acc /\
                (forall i' k', (i' <> j \/ k' <> k) -> r i' k' = a i' k')).
    { clear l. induction l as [|i l IH]; intros a' acc Hc Ho; simpl.
      - split; [exact Hc|exact Ho].
      - apply IH.
        + rewrite mset_same, Hc, (Hf a' i Ho). reflexivity.
        + intros i' k' Hn. rewrite mset_other by exact Hn. apply Ho. exact Hn. }
    apply G.
    - apply mset_same.
    - intros i' k' Hn. apply mset_other. exact Hn.
  Qed.

  (* a loop over the rows of column k whose body writes cell (j,k) with a value
     g(buffer, j) that only reads column kp <> k *)
  Lemma col_loop (cellop : @mat A -> nat -> @mat A) (g : @mat A -> nat -> A) (k kp : nat) :
    kp <> k ->
    (forall a j, cellop a j j k = g a j) ->
    (forall a j i' k', (i' <> j \/ k' <> k) -> cellop a j i' k' = a i' k') ->
    (forall a a' j, (forall i', a i' kp = a' i' kp) -> g a j = g a' j) ->
    forall l a, NoDup l ->
    let r := fold_left cellop l a in
    (forall j, In j l -> r j k = g a j) /\
    (forall i' k', (k' <> k \/ ~ In i' l) -> r i' k' = a i' k').
  Proof.
    intros Hk H1 H2 H3 l a ND.
    assert (G : forall l a', NoDup l -> (forall i', a' i' kp = a i' kp) ->
                let r := fold_left cellop l a' in
                (forall j, In j l -> r j k = g a j) /\
                (forall i' k', (k' <> k \/ ~ In i' l) -> r i' k' = a' i' k')).
    { clear l ND. induction l as [|j l IH]; intros a' ND Hcol; simpl.
      - split; [intros j []|reflexivity].
      - inversion ND as [|x y Hnin ND']; subst.
        assert (Hcol' : forall i', cellop a' j i' kp = a i' kp).
        { intros i'. rewrite H2 by (right; exact Hk). apply Hcol. }
        destruct (IH (cellop a' j) ND' Hcol') as [I1 I2]. split.
        + intros j' [->|Hin]; [|apply I1; exact Hin].
          rewrite I2 by (right; exact Hnin). rewrite H1. apply H3. exact Hcol.
        + intros i' k' Hn. rewrite I2.
          * apply H2. destruct Hn as [Hn|Hn]; [right; exact Hn|left; intros ->; apply Hn; left; reflexivity].
          * destruct Hn as [Hn|Hn]; [left; exact Hn|right; intros Hin; apply Hn; right; exact Hin]. }
    apply G; [exact ND|reflexivity].
  Qed.

  Lemma fold_left_ext_in {X Y} (f g : X -> Y -> X) l : (forall x y, In y l -> f x y = g x y) ->
    forall a, fold_left f l a = fold_left g l a.
  Proof.
    induction l as [|y l IH]; intros H a; simpl; [reflexivity|].
    rewrite H by (left; reflexivity). apply IH. intros x y' Hy. apply H. right; exact Hy.
  Qed.
End FLOW.

Section BUFP.
  Context {A : Type} (O : Ops A) (CS : CSemiring O).
  Variable m : nat.
  Variable Pi : nat -> A.
  Variable Tr Tf : nat -> nat -> A.
  Variable smap : nat -> nat.
  Variable e : nat -> nat -> A.
  Notation "a (+) b" := (oadd O a b) (at level 50, left associativity).
  Notation "a (x) b" := (omul O a b) (at level 40, left associativity).
  Notation zero := (o0 O).
  Notation one := (o1 O).
  Notation sum := (esum O).
  Notation TK := (Tk Tr Tf).
  Notation st := (seq 0 m).
  Notation AS := (alpha_spec O m Pi Tr Tf smap e).
  Notation BS := (beta_spec O m Tr Tf smap e).

  Add Ring srb : (srt O CS).

  Lemma in_st i : In i st <-> i < m.
  Proof. rewrite in_seq. lia. Qed.

  (* ---- the forward cell ---- *)
  Definition fval (T : nat -> nat -> A) (kp : nat) (a : mat) (j k : nat) : A :=
    fold_left (fun acc i => acc (+) T i j (x) a i kp) st zero (x) e (smap j) k.

  Lemma fcell_spec T kp a j k : kp <> k ->
    fcell O m smap e T kp a j k j k = fval T kp a j k /\
    (forall i' k', (i' <> j \/ k' <> k) -> fcell O m smap e T kp a j k i' k' = a i' k').
  Proof.
    intros Hk. unfold fcell.
    destruct (acc_cell O (fun a i => T i j (x) a i kp) j k a) with (l := st) as [E1 E2].
    { intros a' i H. rewrite H by (right; exact Hk). reflexivity. }
    cbv zeta in E1, E2. split.
    - rewrite mset_same. unfold fval. rewrite E1. reflexivity.
    - intros i' k' Hn. rewrite mset_other by exact Hn. apply E2. exact Hn.
  Qed.

  Lemma fval_ext T kp a a' j k : (forall i, a i kp = a' i kp) -> fval T kp a j k = fval T kp a' j k.
  Proof.
    intros H. unfold fval. f_equal. apply fold_left_ext_in. intros acc i _. rewrite H. reflexivity.
  Qed.

  (* one column of the forward pass *)
  Lemma fcol_spec T kp k a : kp <> k ->
    let r := fold_left (fun a j => fcell O m smap e T kp a j k) st a in
    (forall j, j < m -> r j k = fval T kp a j k) /\
    (forall i' k', (k' <> k \/ ~ i' < m) -> r i' k' = a i' k').
  Proof.
    intros Hk.
    destruct (col_loop (fun a j => fcell O m smap e T kp a j k) (fun a j => fval T kp a j k) k kp Hk) with (l := st) (a := a)
      as [E1 E2].
    - intros a0 j. apply fcell_spec. exact Hk.
    - intros a0 j i' k' Hn. apply fcell_spec; assumption.
    - intros a0 a' j H. apply fval_ext. exact H.
    - apply seq_NoDup.
    - cbv zeta in *. split.
      + intros j Hj. apply E1. apply in_st. exact Hj.
      + intros i' k' Hn. apply E2. rewrite in_st. exact Hn.
  Qed.

  (* the value written is the recursion of the enumerated alpha *)
  Lemma fval_alpha n k a j : TK n (S k) = TK n (S k) ->
    (forall i, i < m -> a i k = AS n k i) ->
    fval (TK n (S k)) k a j (S k) = AS n (S k) j.
  Proof.
    intros _ H. unfold fval. rewrite (alpha_spec_S O CS). f_equal.
    rewrite (fold_left_esum0 O CS). apply (esum_ext O). intros i Hi.
    rewrite H by (apply in_st; exact Hi). reflexivity.
  Qed.

  (* the middle loop: columns s .. s+c-1 *)
  Lemma fmid_spec n c : forall s a, 1 <= s -> s + c <= n - 1 ->
    (forall i, i < m -> a i (s - 1) = AS n (s - 1) i) ->
    let r := fold_left (fun a k => fold_left (fun a j => fcell O m smap e Tr (k - 1) a j k) st a) (seq s c) a in
    (forall k j, s <= k < s + c -> j < m -> r j k = AS n k j) /\
    (forall i' k', ~ (s <= k' < s + c /\ i' < m) -> r i' k' = a i' k').
  Proof.
    induction c as [|c IH]; intros s a Hs Hc Hprev; cbn [seq fold_left].
    - split; [intros k j Hk; lia|reflexivity].
    - destruct (fcol_spec Tr (s - 1) s a) as [C1 C2]; [lia|]. cbv zeta in C1, C2.
      set (a' := fold_left (fun a j => fcell O m smap e Tr (s - 1) a j s) st a) in *.
      assert (Hs' : forall i, i < m -> a' i s = AS n s i).
      { intros i Hi. rewrite C1 by exact Hi.
        replace s with (S (s - 1)) at 2 3 by lia.
        rewrite <- (fval_alpha n (s - 1) a i eq_refl Hprev).
        replace (S (s - 1)) with s by lia. rewrite Tk_mid by lia. reflexivity. }
      destruct (IH (S s) a') as [I1 I2]; [lia|lia| |].
      { replace (S s - 1) with s by lia. exact Hs'. }
      cbv zeta in I1, I2. split.
      + intros k j Hk Hj. destruct (Nat.eq_dec k s) as [->|Hne].
        * rewrite I2 by lia. apply Hs'. exact Hj.
        * apply I1; [lia|exact Hj].
      + intros i' k' Hn. rewrite I2 by lia. apply C2. lia.
  Qed.

  Lemma finit_spec (alpha : mat) :
    let r := fold_left (fun a i => mset a i 0 (Pi i (x) e (smap i) 0)) st alpha in
    (forall i, i < m -> r i 0 = Pi i (x) e (smap i) 0) /\
    (forall i' k', (k' <> 0 \/ ~ i' < m) -> r i' k' = alpha i' k').
  Proof.
    destruct (col_loop (fun a i => mset a i 0 (Pi i (x) e (smap i) 0)) (fun _ i => Pi i (x) e (smap i) 0) 0 1) with (l := st) (a := alpha)
      as [E1 E2]; try (intros; reflexivity).
    - lia.
    - intros a j. apply mset_same.
    - intros a j i' k' Hn. apply mset_other. exact Hn.
    - apply seq_NoDup.
    - cbv zeta in *. split.
      + intros i Hi. apply E1. apply in_st. exact Hi.
      + intros i' k' Hn. apply E2. rewrite in_st. exact Hn.
  Qed.

  (* forward on a work matrix with arbitrary prior content: the cells of the
     sequence hold the path sums, every other cell is untouched *)
  Theorem forward_buf_paths (alpha : mat) n i k :
    forward_buf O m Pi Tr Tf smap e alpha n i k =
    if (k <? n) && (i <? m) then AS n k i else alpha i k.
  Proof.
    unfold forward_buf.
    destruct n as [|[|c]].
    - (* n = 0: nothing is written *)
      simpl. reflexivity.
    - (* n = 1 *)
      change (0 <? 1) with true. change (1 <? 1) with false. cbv iota. cbn [Nat.sub seq fold_left].
      destruct (finit_spec alpha) as [F1 F2]. cbv zeta in F1, F2.
      destruct (Nat.ltb_spec k 1) as [Hk|Hk]; destruct (Nat.ltb_spec i m) as [Hi|Hi]; cbn [andb].
      + replace k with 0 by lia. rewrite F1 by exact Hi. rewrite (alpha_spec_0 O CS). reflexivity.
      + apply F2. right. lia.
      + apply F2. left. lia.
      + apply F2. left. lia.
    - change (0 <? S (S c)) with true. change (1 <? S (S c)) with true. cbv iota.
      replace (S (S c) - 2) with c by lia. replace (S (S c) - 1) with (S c) by lia.
      destruct (finit_spec alpha) as [F1 F2]. cbv zeta in F1, F2.
      set (a0 := fold_left (fun a i => mset a i 0 (Pi i (x) e (smap i) 0)) st alpha) in *.
      destruct (fmid_spec (S (S c)) c 1 a0) as [M1 M2]; [lia|lia| |].
      { intros j Hj. simpl. rewrite F1 by exact Hj. rewrite (alpha_spec_0 O CS). reflexivity. }
      cbv zeta in M1, M2.
      set (a1 := fold_left (fun a k => fold_left (fun a j => fcell O m smap e Tr (k - 1) a j k) st a) (seq 1 c) a0) in *.
      assert (Hall : forall k j, k <= c -> j < m -> a1 j k = AS (S (S c)) k j).
      { intros k' j Hk Hj. destruct k' as [|k'].
        - rewrite M2 by lia. rewrite F1 by exact Hj. rewrite (alpha_spec_0 O CS). reflexivity.
        - apply M1; [lia|exact Hj]. }
      destruct (fcol_spec Tf c (S c) a1) as [L1 L2]; [lia|]. cbv zeta in L1, L2.
      destruct (Nat.ltb_spec k (S (S c))) as [Hk|Hk]; destruct (Nat.ltb_spec i m) as [Hi|Hi]; cbn [andb].
      + destruct (Nat.eq_dec k (S c)) as [->|Hne].
        * rewrite L1 by exact Hi.
          rewrite <- (fval_alpha (S (S c)) c a1 i eq_refl (fun j Hj => Hall c j (le_n c) Hj)).
          rewrite Tk_last by lia. reflexivity.
        * rewrite L2 by lia. apply Hall; [lia|exact Hi].
      + rewrite L2 by lia. rewrite M2 by lia. apply F2. right. lia.
      + rewrite L2 by lia. rewrite M2 by lia. apply F2. left. lia.
      + rewrite L2 by lia. rewrite M2 by lia. apply F2. left. lia.
  Qed.

  (* ---- the backward cells ---- *)
  Definition bval_first (n i : nat) : A :=
    fold_left (fun acc j => acc (+) Tf i j (x) e (smap j) (n - 1)) st zero.
  Definition bval (b : mat) (i k : nat) : A :=
    fold_left (fun acc j => acc (+) Tr i j (x) b j (k + 1) (x) e (smap j) (k + 1)) st zero.

  Lemma bcell_first_spec n b i :
    bcell_first O m Tf smap e n b i i (n - 2) = bval_first n i /\
    (forall i' k', (i' <> i \/ k' <> n - 2) -> bcell_first O m Tf smap e n b i i' k' = b i' k').
  Proof.
    unfold bcell_first.
    destruct (acc_cell O (fun _ j => Tf i j (x) e (smap j) (n - 1)) i (n - 2) b) with (l := st) as [E1 E2].
    { reflexivity. }
    cbv zeta in E1, E2. split; [exact E1|exact E2].
  Qed.

  Lemma bcell_spec b i k :
    bcell O m Tr smap e b i k i k = bval b i k /\
    (forall i' k', (i' <> i \/ k' <> k) -> bcell O m Tr smap e b i k i' k' = b i' k').
  Proof.
    unfold bcell.
    destruct (acc_cell O (fun b j => Tr i j (x) b j (k + 1) (x) e (smap j) (k + 1)) i k b) with (l := st) as [E1 E2].
    { intros a' j H. rewrite H by (right; lia). reflexivity. }
    cbv zeta in E1, E2. split; [exact E1|exact E2].
  Qed.

  Lemma bval_ext b b' i k : (forall j, b j (k + 1) = b' j (k + 1)) -> bval b i k = bval b' i k.
  Proof. intros H. unfold bval. apply fold_left_ext_in. intros acc j _. rewrite H. reflexivity. Qed.

  Lemma bcol_spec k b :
    let r := fold_left (fun b i => bcell O m Tr smap e b i k) st b in
    (forall i, i < m -> r i k = bval b i k) /\
    (forall i' k', (k' <> k \/ ~ i' < m) -> r i' k' = b i' k').
  Proof.
    destruct (col_loop (fun b i => bcell O m Tr smap e b i k) (fun b i => bval b i k) k (k + 1)) with (l := st) (a := b)
      as [E1 E2].
    - lia.
    - intros a0 j. apply bcell_spec.
    - intros a0 j i' k' Hn. apply bcell_spec. exact Hn.
    - intros a0 a' j H. apply bval_ext. exact H.
    - apply seq_NoDup.
    - cbv zeta in *. split.
      + intros j Hj. apply E1. apply in_st. exact Hj.
      + intros i' k' Hn. apply E2. rewrite in_st. exact Hn.
  Qed.

  Lemma bval_beta n k b i : k + 2 < n ->
    (forall j, j < m -> b j (k + 1) = BS n (k + 1) j) -> bval b i k = BS n k i.
  Proof.
    intros Hk H. unfold bval. rewrite (beta_spec_step O CS) by lia.
    rewrite (fold_left_esum0 O CS). apply (esum_ext O). intros j Hj.
    rewrite H by (apply in_st; exact Hj). rewrite Tk_mid by lia.
    replace (k + 1) with (S k) by lia. ring.
  Qed.

  Lemma bval_first_beta n i : 1 < n -> bval_first n i = BS n (n - 2) i.
  Proof.
    intros Hn. unfold bval_first. rewrite (beta_spec_step O CS) by lia.
    rewrite (fold_left_esum0 O CS). apply (esum_ext O). intros j _.
    replace (S (n - 2)) with (n - 1) by lia.
    rewrite (beta_spec_last O CS) by lia. rewrite Tk_last by lia. ring.
  Qed.

  (* the downward loop: columns c-1 .. 0, given column c *)
  Lemma bdown_spec n c : forall b, c + 2 <= n ->
    (forall j, j < m -> b j c = BS n c j) ->
    let r := fold_left (fun b k => fold_left (fun b i => bcell O m Tr smap e b i k) st b) (rev (seq 0 c)) b in
    (forall k i, k < c -> i < m -> r i k = BS n k i) /\
    (forall i' k', ~ (k' < c /\ i' < m) -> r i' k' = b i' k').
  Proof.
    induction c as [|c IH]; intros b Hc Hnext.
    - simpl. split; [intros k i Hk; lia|reflexivity].
    - rewrite seq_S, rev_app_distr. cbn [rev app fold_left plus].
      destruct (bcol_spec c b) as [C1 C2]. cbv zeta in C1, C2.
      set (b' := fold_left (fun b i => bcell O m Tr smap e b i c) st b) in *.
      assert (Hc' : forall i, i < m -> b' i c = BS n c i).
      { intros i Hi. rewrite C1 by exact Hi. apply bval_beta; [lia|].
        intros j Hj. replace (c + 1) with (S c) by lia. apply Hnext. exact Hj. }
      destruct (IH b') as [I1 I2]; [lia|exact Hc'|]. cbv zeta in I1, I2. split.
      + intros k i Hk Hi. destruct (Nat.eq_dec k c) as [->|Hne].
        * rewrite I2 by lia. apply Hc'. exact Hi.
        * apply I1; [lia|exact Hi].
      + intros i' k' Hn. rewrite I2 by lia. apply C2. lia.
  Qed.

  Lemma blast_spec n (beta : mat) :
    let r := fold_left (fun b i => mset b i (n - 1) one) st beta in
    (forall i, i < m -> r i (n - 1) = one) /\
    (forall i' k', (k' <> n - 1 \/ ~ i' < m) -> r i' k' = beta i' k').
  Proof.
    destruct (col_loop (fun b i => mset b i (n - 1) one) (fun _ _ => one) (n - 1) (S n)) with (l := st) (a := beta)
      as [E1 E2]; try (intros; reflexivity).
    - lia.
    - intros a j. apply mset_same.
    - intros a j i' k' Hn. apply mset_other. exact Hn.
    - apply seq_NoDup.
    - cbv zeta in *. split.
      + intros i Hi. apply E1. apply in_st. exact Hi.
      + intros i' k' Hn. apply E2. rewrite in_st. exact Hn.
  Qed.

  Lemma bfirstcol_spec n b : 1 < n ->
    let r := fold_left (fun b i => bcell_first O m Tf smap e n b i) st b in
    (forall i, i < m -> r i (n - 2) = bval_first n i) /\
    (forall i' k', (k' <> n - 2 \/ ~ i' < m) -> r i' k' = b i' k').
  Proof.
    intros Hn.
    destruct (col_loop (fun b i => bcell_first O m Tf smap e n b i) (fun _ i => bval_first n i) (n - 2) (n - 1)) with (l := st) (a := b)
      as [E1 E2]; try (intros; reflexivity).
    - lia.
    - intros a j. apply bcell_first_spec.
    - intros a j i' k' Hne. apply bcell_first_spec. exact Hne.
    - apply seq_NoDup.
    - cbv zeta in *. split.
      + intros i Hi. apply E1. apply in_st. exact Hi.
      + intros i' k' Hne. apply E2. rewrite in_st. exact Hne.
  Qed.

  (* backward on a work matrix with arbitrary prior content *)
  Theorem backward_buf_paths (beta : mat) n i k :
    backward_buf O m Tr Tf smap e beta n i k =
    if (k <? n) && (i <? m) then BS n k i else beta i k.
  Proof.
    unfold backward_buf.
    destruct n as [|[|c]].
    - simpl. reflexivity.
    - change (0 <? 1) with true. change (1 <? 1) with false. cbv iota. cbn [Nat.sub seq rev fold_left].
      destruct (blast_spec 1 beta) as [F1 F2]. cbv zeta in F1, F2. simpl (1 - 1) in *.
      destruct (Nat.ltb_spec k 1) as [Hk|Hk]; destruct (Nat.ltb_spec i m) as [Hi|Hi]; cbn [andb].
      + replace k with 0 by lia. rewrite F1 by exact Hi. rewrite (beta_spec_last O CS) by lia. reflexivity.
      + apply F2. right. lia.
      + apply F2. left. lia.
      + apply F2. left. lia.
    - change (0 <? S (S c)) with true. change (1 <? S (S c)) with true. cbv iota.
      destruct (blast_spec (S (S c)) beta) as [F1 F2]. cbv zeta in F1, F2.
      set (b0 := fold_left (fun b i => mset b i (S (S c) - 1) one) st beta) in *.
      destruct (bfirstcol_spec (S (S c)) b0) as [G1 G2]; [lia|]. cbv zeta in G1, G2.
      set (b1 := fold_left (fun b i => bcell_first O m Tf smap e (S (S c)) b i) st b0) in *.
      replace (S (S c) - 2) with c in * by lia. replace (S (S c) - 1) with (S c) in * by lia.
      assert (Hc : forall j, j < m -> b1 j c = BS (S (S c)) c j).
      { intros j Hj. rewrite G1 by exact Hj. rewrite bval_first_beta by lia. f_equal. lia. }
      destruct (bdown_spec (S (S c)) c b1) as [D1 D2]; [lia|exact Hc|]. cbv zeta in D1, D2.
      destruct (Nat.ltb_spec k (S (S c))) as [Hk|Hk]; destruct (Nat.ltb_spec i m) as [Hi|Hi]; cbn [andb].
      + destruct (Nat.lt_ge_cases k c) as [Hlt|Hge].
        * apply D1; assumption.
        * rewrite D2 by lia. destruct (Nat.eq_dec k c) as [->|Hne]; [apply Hc; exact Hi|].
          replace k with (S c) by lia. rewrite G2 by lia. rewrite F1 by exact Hi.
          rewrite (beta_spec_last O CS) by lia. reflexivity.
      + rewrite D2 by lia. rewrite G2 by lia. apply F2. right. lia.
      + rewrite D2 by lia. rewrite G2 by lia. apply F2. left. lia.
      + rewrite D2 by lia. rewrite G2 by lia. apply F2. left. lia.
  Qed.

  (* ---- the float64-specialised copy is the same state transformer ---- *)
  Lemma ofcell_eq T kp a j k : ofcell O m smap e T kp a j k = fcell O m smap e T kp a j k.
  Proof. reflexivity. Qed.
  Lemma oforward_buf_eq alpha n : oforward_buf O m Pi Tr Tf smap e alpha n = forward_buf O m Pi Tr Tf smap e alpha n.
  Proof. reflexivity. Qed.
  Lemma obackward_buf_eq beta n : obackward_buf O m Tr Tf smap e beta n = backward_buf O m Tr Tf smap e beta n.
  Proof. reflexivity. Qed.

  (* ---- hence: on arbitrary prior content both agree with the pure model ---- *)
  Lemma forward_buf_model alpha n k i : k < n -> i < m ->
    forward_buf O m Pi Tr Tf smap e alpha n i k = at_ O (nth k (forward O m Pi Tr Tf smap e n) []) i.
  Proof.
    intros Hk Hi. rewrite forward_buf_paths, (forward_paths O CS) by assumption.
    apply Nat.ltb_lt in Hk, Hi. rewrite Hk, Hi. reflexivity.
  Qed.
  Lemma backward_buf_model beta n k i : k < n -> i < m ->
    backward_buf O m Tr Tf smap e beta n i k = at_ O (nth k (backward O m Tr Tf smap e n) []) i.
  Proof.
    intros Hk Hi. rewrite backward_buf_paths, (backward_paths O CS) by assumption.
    apply Nat.ltb_lt in Hk, Hi. rewrite Hk, Hi. reflexivity.
  Qed.
End BUFP.
