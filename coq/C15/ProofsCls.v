(* C15 (round 6) — the classifier front-ends of ModelCls.v equal the enumeration. *)
From Coq Require Import List Arith Bool ZArith Lia.
From ADV Require Import C15.Model C15.ModelCls C15.ModelSet C15.Spec C15.Proofs C15.ProofsSet.
Import ListNotations.
Open Scope nat_scope.

Section PCLS.
  Context {A : Type} (O : Ops A) (CF : CSemifield O).
  Let CS : CSemiring O := sf_semiring O CF.
  Variable m : nat.
  Variable Pi : nat -> A.
  Variable Tr Tf : nat -> nat -> A.
  Variable smap : nat -> nat.
  Variable e : nat -> nat -> A.
  Notation zero := (o0 O).
  Notation sum := (esum O).
  Notation W n := (weight O Pi Tr Tf smap e n).
  Notation EL n := (enum_likelihood O m Pi Tr Tf smap e n).
  Notation EM n := (enum_marginal O m Pi Tr Tf smap e n).
  Notation st := (seq 0 m).

  Lemma cls_states_ok_of_nat s : (forall i, In i s -> i < m) -> cls_states_ok m (map Z.of_nat s) = true.
  Proof.
    intros H. unfold cls_states_ok. rewrite forallb_forall. intros z Hz.
    apply in_map_iff in Hz. destruct Hz as [i [<- Hi]]. apply H in Hi.
    apply andb_true_intro. split; [apply Z.leb_le; lia | apply Z.ltb_lt; lia].
  Qed.

  Lemma cls_col_fold s col : forall a,
    fold_left (fun r z => oadd O r (at_ O col (Z.to_nat z))) (map Z.of_nat s) a =
    fold_left (fun r j => oadd O r (at_ O col j)) s a.
  Proof.
    induction s as [|x s IH]; intros a; [reflexivity|].
    simpl. rewrite Nat2Z.id. apply IH.
  Qed.

  Lemma cls_col_esum s col : cls_col O (map Z.of_nat s) col = sum (map (fun j => at_ O col j) s).
  Proof. unfold cls_col. rewrite cls_col_fold. apply (fold_left_esum0 O CS). Qed.

  (* a sum of quotients by one non-zero element *)
  Lemma esum_div {X} (f : X -> A) b l : ois0 O b = false ->
    sum (map (fun x => odiv O (f x) b) l) = odiv O (sum (map f l)) b.
  Proof.
    intros Hb.
    rewrite <- (mul_div O CF (sum (map (fun x => odiv O (f x) b) l)) b Hb).
    rewrite <- (esum_mul_r O CS).
    rewrite (esum_ext O _ f) by (intros x _; apply (div_mul O CF); exact Hb).
    reflexivity.
  Qed.

  (* a duplicate-free list selects a value at most once *)
  Lemma pick_nodup x w s : NoDup s ->
    sum (map (fun j => if x =? j then w else zero) s) = if nmem x s then w else zero.
  Proof.
    induction s as [|a s IH]; intros ND; [reflexivity|].
    inversion ND as [|y l Hnin ND']; subst. simpl. rewrite (IH ND').
    destruct (Nat.eqb_spec x a) as [->|Hne]; simpl.
    - replace (nmem a s) with false.
      + apply (add_0_r O CS).
      + symmetry. unfold nmem. apply not_true_is_false. intros Hex.
        apply existsb_exists in Hex. destruct Hex as [y [Hy Heq]].
        apply Nat.eqb_eq in Heq. subst. contradiction.
    - apply (add_0_l O CS).
  Qed.

  (* the marginals of a duplicate-free set of states add up to the weight of the paths through the set *)
  Lemma marginals_over_set n k s : NoDup s ->
    sum (map (EM n k) s) = enum_in_set O m Pi Tr Tf smap e n k s.
  Proof.
    intros ND. unfold enum_marginal, enum_in_set.
    rewrite (esum_ext O _ (fun i => sum (map (fun p => if nth k p m =? i then W n p else zero) (paths m n))))
      by (intros i _; apply (esum_filter O CS)).
    rewrite (esum_swap O CS).
    rewrite (esum_filter O CS). apply (esum_ext O). intros p _.
    apply pick_nodup. exact ND.
  Qed.

  (* HmmPosterior.Eval as coded: for ANY list of valid state indices (repetitions included)
     entry k is the sum of the posterior marginals of the listed states *)
  Lemma cls_posterior_list n s : 0 < n -> (forall i, In i s -> i < m) ->
    cls_posterior O m Pi Tr Tf smap e n n (map Z.of_nat s) =
    if ois0 O (EL n) then CErr
    else COk (map (fun k => sum (map (fun j => odiv O (EM n k j) (EL n)) s)) (seq 0 n)).
  Proof.
    intros Hn Hr. unfold cls_posterior. rewrite Nat.eqb_refl. cbn [negb].
    rewrite (marginals_spec O CF m Pi Tr Tf smap e n Hn).
    destruct (ois0 O (EL n)); [reflexivity|].
    rewrite (cls_states_ok_of_nat s Hr). rewrite andb_false_r.
    f_equal. rewrite map_map. apply map_ext. intros k.
    rewrite cls_col_esum. apply (esum_ext O). intros j Hj.
    unfold at_. apply (nth_map_seq (fun i => odiv O (EM n k i) (EL n))). apply Hr. exact Hj.
  Qed.

  (* ... and for a duplicate-free list the enumerated probability of "the state at position k is listed" *)
  Lemma cls_posterior_set n s : 0 < n -> NoDup s -> (forall i, In i s -> i < m) ->
    cls_posterior O m Pi Tr Tf smap e n n (map Z.of_nat s) =
    if ois0 O (EL n) then CErr
    else COk (map (fun k => odiv O (enum_in_set O m Pi Tr Tf smap e n k s) (EL n)) (seq 0 n)).
  Proof.
    intros Hn ND Hr. rewrite (cls_posterior_list n s Hn Hr).
    destruct (ois0 O (EL n)) eqn:Ez; [reflexivity|].
    f_equal. apply map_ext. intros k.
    rewrite (esum_div (EM n k) (EL n) s Ez). rewrite (marginals_over_set n k s ND). reflexivity.
  Qed.

  (* all states listed: every entry is one *)
  Lemma cls_posterior_all n : 0 < n -> ois0 O (EL n) = false ->
    cls_posterior O m Pi Tr Tf smap e n n (map Z.of_nat st) = COk (map (fun _ => o1 O) (seq 0 n)).
  Proof.
    intros Hn Ez. rewrite (cls_posterior_list n st Hn) by (intros i Hi; apply in_seq in Hi; lia).
    rewrite Ez. f_equal. apply map_ext_in. intros k Hk. apply in_seq in Hk.
    apply (marginals_sum_one O CF). - lia. - exact Ez.
  Qed.

  (* the guards: wrong result length -> error; an index outside [0,m) -> panic, unless
     PosteriorMarginals already failed or x is empty *)
  Lemma cls_posterior_wrong_length rdim n states : rdim <> n ->
    cls_posterior O m Pi Tr Tf smap e rdim n states = CErr.
  Proof.
    intros H. unfold cls_posterior. destruct (Nat.eqb_spec rdim n); [contradiction|reflexivity].
  Qed.
  Lemma cls_posterior_bad_state n states : 0 < n -> cls_states_ok m states = false ->
    cls_posterior O m Pi Tr Tf smap e n n states = if ois0 O (EL n) then CErr else CPanic.
  Proof.
    intros Hn Hs. unfold cls_posterior. rewrite Nat.eqb_refl. cbn [negb].
    rewrite (marginals_spec O CF m Pi Tr Tf smap e n Hn).
    destruct (ois0 O (EL n)); [reflexivity|].
    rewrite Hs. apply Nat.ltb_lt in Hn. rewrite Hn. reflexivity.
  Qed.
End PCLS.

(* HmmClassifier.Eval returns the Viterbi path, which is optimal *)
Lemma cls_viterbi_optimal V (W : VOps V) le ok (VO : VOrder W le ok) m Pi Tr Tf smap e n :
  (forall i, ok (Pi i)) -> (forall i j, ok (Tr i j)) -> (forall i j, ok (Tf i j)) -> (forall c k, ok (e c k)) ->
  0 < m -> 0 < n ->
  exists p, cls_viterbi W m Pi Tr Tf smap e n n = COk p /\ is_path m n p /\
            forall q, is_path m n q -> le (vweight W Pi Tr Tf smap e n q) (vweight W Pi Tr Tf smap e n p).
Proof.
  intros H1 H2 H3 H4 Hm Hn. exists (viterbi W m Pi Tr Tf smap e n).
  unfold cls_viterbi. rewrite Nat.eqb_refl. split; [reflexivity|].
  exact (viterbi_generic V W le ok VO m Pi Tr Tf smap e n H1 H2 H3 H4 Hm Hn).
Qed.
Lemma cls_viterbi_wrong_length V (W : VOps V) m Pi Tr Tf smap e rdim n : rdim <> n ->
  cls_viterbi W m Pi Tr Tf smap e rdim n = CErr.
Proof. intros H. unfold cls_viterbi. destruct (Nat.eqb_spec rdim n); [contradiction|reflexivity]. Qed.

Lemma cls_posterior_guards A (O : Ops A) (CF : CSemifield O) m Pi Tr Tf smap e :
  (forall rdim n states, rdim <> n -> cls_posterior O m Pi Tr Tf smap e rdim n states = CErr) /\
  (forall n states, 0 < n -> cls_states_ok m states = false ->
     cls_posterior O m Pi Tr Tf smap e n n states =
     if ois0 O (enum_likelihood O m Pi Tr Tf smap e n) then CErr else CPanic).
Proof.
  split.
  - exact (cls_posterior_wrong_length O m Pi Tr Tf smap e).
  - exact (cls_posterior_bad_state O CF m Pi Tr Tf smap e).
Qed.

(* the classifier on the object after any setter history (ModelSet.v) *)
Lemma cls_after_history A (O : Ops A) (CF : CSemifield O) m rawpi rawtr (ops : list (@sop A)) smap e n s :
  0 < n -> NoDup s -> (forall i, In i s -> i < m) ->
  let st := run O m ops (init O rawpi rawtr) in
  let Pi := vfun O (stPi st) in
  let Tr := mfun O (stTr st) in
  let TfSpec := mfun O (tf_of O (spec_tr ops (make_tr O rawtr)) (spec_final m ops None)) in
  cls_posterior O m Pi Tr (mfun O (stTf st)) smap e n n (map Z.of_nat s) =
  if ois0 O (enum_likelihood O m Pi Tr TfSpec smap e n) then CErr
  else COk (map (fun k => odiv O (enum_in_set O m Pi Tr TfSpec smap e n k s)
                                 (enum_likelihood O m Pi Tr TfSpec smap e n)) (seq 0 n)).
Proof.
  intros Hn ND Hr st Pi Tr TfSpec.
  unfold st, TfSpec. rewrite (tf_is_spec O m rawpi rawtr ops).
  exact (cls_posterior_set O CF m _ _ _ smap e n s Hn ND Hr).
Qed.
