(* C15 (round 6) — the classifier front-ends of statistics/vectorClassifier:

     HmmPosterior.Eval   hmmPosterior.go:47-64   r.Dim() != x.Dim() -> error; PosteriorMarginals(x) error -> error;
                                                 for every position i:  r[i] := -Inf;
                                                 for j in States (in list order, repetitions included):
                                                 r[i] := LogAdd(r[i], p[States[j]][i]);  r[i] := Exp(r[i]).
                                                 p has one vector per state: a listed index outside [0,m)
                                                 panics (index out of range) in the first position --
                                                 after PosteriorMarginals returned, so its error wins;
                                                 for an empty x nothing is indexed.
     HmmClassifier.Eval  hmm.go:45-57            the same length test; r[i] := float64(Viterbi(x)[i]).

   Same carrier as Model.v: on the probability semiring Exp is the identity (the
   result of Eval is a probability, not a log-value).  No proofs in this file. *)
From Coq Require Import List Arith Bool ZArith.
From ADV Require Import C15.Model.
Import ListNotations.
Open Scope nat_scope.

Inductive cres (X : Type) := CErr | CPanic | COk (v : X).
Arguments CErr {X}. Arguments CPanic {X}. Arguments COk {X}.

Section CLS.
  Context {A : Type} (O : Ops A).
  Variable m : nat.
  Variable Pi : nat -> A.
  Variable Tr Tf : nat -> nat -> A.
  Variable smap : nat -> nat.
  Variable e : nat -> nat -> A.

  (* p[States[j]] is defined *)
  Definition cls_states_ok (states : list Z) : bool :=
    forallb (fun z => (0 <=? z)%Z && (z <? Z.of_nat m)%Z) states.
  (* the inner loop on one column of gamma *)
  Definition cls_col (states : list Z) (col : list A) : A :=
    fold_left (fun r z => oadd O r (at_ O col (Z.to_nat z))) states (o0 O).
  Definition cls_posterior (rdim n : nat) (states : list Z) : cres (list A) :=
    if negb (rdim =? n) then CErr else
    match marginals O m Pi Tr Tf smap e n with
    | None => CErr
    | Some g =>
        if (0 <? n) && negb (cls_states_ok states) then CPanic
        else COk (map (cls_col states) g)
    end.
End CLS.

Section CLSV.
  Context {V : Type} (W : VOps V).
  Variable m : nat.
  Variable Pi : nat -> V.
  Variable Tr Tf : nat -> nat -> V.
  Variable smap : nat -> nat.
  Variable e : nat -> nat -> V.
  Definition cls_viterbi (rdim n : nat) : cres (list nat) :=
    if negb (rdim =? n) then CErr else COk (viterbi W m Pi Tr Tf smap e n).
End CLSV.

(* ---- the enumerated reference: total weight of the paths whose state at position k is listed ---- *)
Section CLSENUM.
  Context {A : Type} (O : Ops A).
  Variable m : nat.
  Variable Pi : nat -> A.
  Variable Tr Tf : nat -> nat -> A.
  Variable smap : nat -> nat.
  Variable e : nat -> nat -> A.
  Definition nmem (x : nat) (l : list nat) : bool := existsb (Nat.eqb x) l.
  Definition enum_in_set (n k : nat) (s : list nat) : A :=
    esum O (map (weight O Pi Tr Tf smap e n) (filter (fun p => nmem (nth k p m) s) (paths m n))).
End CLSENUM.
