(* C15 — specification: what "equals explicit enumeration of all hidden paths"
   means.  The enumeration itself ([paths], [weight], [esum], [enum_likelihood],
   [enum_marginal], [enum_sets]) is executable and lives in Model.v (section
   ENUM) so that the correspondence run can evaluate it; here are the laws of
   the carrier and the enumerated quantities the recursions are compared with. *)
From Coq Require Import List Arith Bool.
From ADV Require Import C15.Model.
Import ListNotations.

(* commutative semiring with Leibniz equality *)
Record CSemiring {A} (O : Ops A) : Prop := mkCS {
  add_comm : forall a b, oadd O a b = oadd O b a;
  add_assoc : forall a b c, oadd O (oadd O a b) c = oadd O a (oadd O b c);
  add_0_l : forall a, oadd O (o0 O) a = a;
  mul_comm : forall a b, omul O a b = omul O b a;
  mul_assoc : forall a b c, omul O (omul O a b) c = omul O a (omul O b c);
  mul_1_l : forall a, omul O (o1 O) a = a;
  mul_0_l : forall a, omul O (o0 O) a = o0 O;
  distr_l : forall a b c, omul O a (oadd O b c) = oadd O (omul O a b) (omul O a c)
}.

(* ... in which quotients by non-zero elements exist (Sub on log-values) *)
Record CSemifield {A} (O : Ops A) : Prop := mkCF {
  sf_semiring : CSemiring O;
  is0_spec : forall a, ois0 O a = true <-> a = o0 O;
  div_mul : forall a b, ois0 O b = false -> omul O (odiv O a b) b = a;
  mul_div : forall a b, ois0 O b = false -> odiv O (omul O a b) b = a
}.

Section SPEC.
  Context {A : Type} (O : Ops A).
  Variable m : nat.
  Variable Pi : nat -> A.
  Variable Tr Tf : nat -> nat -> A.
  Variable smap : nat -> nat.
  Variable e : nat -> nat -> A.

  (* alpha(j,k): total weight of the paths x_0..x_k with x_k = j *)
  Definition alpha_spec (n k j : nat) : A :=
    esum O (map (fun p => weight O Pi Tr Tf smap e n (p ++ [j])) (paths m k)).
  (* beta(i,k): total weight of the continuations x_{k+1}..x_{n-1} of x_k = i *)
  Definition beta_spec (n k i : nat) : A :=
    esum O (map (wtail O Tr Tf smap e n (S k) i) (paths m (n - 1 - k))).
End SPEC.

(* a path is a list of n states below m *)
Definition is_path (m n : nat) (p : list nat) : Prop := length p = n /\ Forall (fun x => x < m) p.

(* ordered carrier for Viterbi: a total preorder, the product monotone in its
   left argument on a sub-domain [ok] closed under the product (the
   non-negative rationals under x; every log-value under +) *)
Record VOrder {V} (W : VOps V) (le : V -> V -> Prop) (ok : V -> Prop) : Prop := mkVO {
  le_refl : forall a, le a a;
  le_trans : forall a b c, le a b -> le b c -> le a c;
  gt_true : forall a b, vgt W a b = true -> le b a;
  gt_false : forall a b, vgt W a b = false -> le a b;
  ninf_least : forall a, ok a -> le (vninf W) a;
  ok_ninf : ok (vninf W);
  ok_plus : forall a b, ok a -> ok b -> ok (vplus W a b);
  plus_mono_l : forall a b c, ok c -> le a b -> le (vplus W a c) (vplus W b c)
}.

Section VSPEC.
  Context {V : Type} (W : VOps V).
  Variable Pi : nat -> V.
  Variable Tr Tf : nat -> nat -> V.
  Variable smap : nat -> nat.
  Variable e : nat -> nat -> V.
  (* joint weight of a path prefix, associated exactly as Viterbi accumulates it:
     ((((Pi + e_0) + T) + e_1) + T) + e_2 ... ; T = Tf for the step into position n-1 *)
  Fixpoint vwfrom (n k prev : nat) (acc : V) (p : list nat) : V :=
    match p with
    | [] => acc
    | x :: r => vwfrom n (S k) x
                  (vplus W (vplus W acc ((if k <? n - 1 then Tr else Tf) prev x)) (e (smap x) k)) r
    end.
  Definition vweight (n : nat) (p : list nat) : V :=
    match p with
    | [] => vninf W
    | x :: r => vwfrom n 1 x (vplus W (Pi x) (e (smap x) 0)) r
    end.
End VSPEC.
