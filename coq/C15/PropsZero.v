(* C15 — round 7: exactly-zero emission densities in the float64-specialised
   forward recursion (hmm_optimized.go:28-85) on fresh and on recycled work
   matrices.  Statement-only. *)
From Coq Require Import List Arith Bool QArith Qcanon.
From ADV Require Import C15.Model C15.ModelBuf C15.Spec C15.ProofsOpt C15.ProofsZero.
Import ListNotations.

(* whatever the two work matrices held before (fresh zeros, NaN, the cells of an
   earlier record): a state whose emission density at position k < n is zero has
   alpha(i,k) = zero after float64ForwardBackward -- at the first, at every
   interior and at the last position *)
Theorem float64_forward_zero_emission_on_any_buffers :
  forall A (O : Ops A), CSemiring O -> forall m Pi Tr Tf smap e (alpha beta : @mat A) n i k,
    k < n -> i < m -> e (smap i) k = o0 O ->
    fst (ofb_buf O m Pi Tr Tf smap e (alpha, beta) n) i k = o0 O.
Proof. exact (fun A O CS m Pi Tr Tf smap e alpha beta n i k => ofb_zero_emission O CS m Pi Tr Tf smap e alpha beta n i k). Qed.

(* the same after any records processed before on the same two matrices (a
   Baum-Welch thread), and the enumerated mass of the paths through (i,k) is zero *)
Theorem float64_forward_zero_emission_after_other_records :
  forall A (O : Ops A), CSemiring O -> forall m Pi Tr Tf smap
         (before : list (nat * (nat -> nat -> A))) (alpha0 beta0 : @mat A) n e i k,
    k < n -> i < m -> e (smap i) k = o0 O ->
    let ab := fold_left (fun ab r => ofb_buf O m Pi Tr Tf smap (snd r) ab (fst r)) before (alpha0, beta0) in
    fst (ofb_buf O m Pi Tr Tf smap e ab n) i k = o0 O /\
    enum_marginal O m Pi Tr Tf smap e n k i = o0 O.
Proof. exact (fun A O CS m Pi Tr Tf smap before alpha0 beta0 n e i k => ofb_thread_zero_emission O CS m Pi Tr Tf smap e before alpha0 beta0 n i k). Qed.

(* non-vacuity: 2 states, a record of length 4 on matrices that hold 7 everywhere,
   state 0 has emission density zero at the interior position 2; the stale 7 is
   overwritten by zero while the neighbouring cell is positive *)
Example zero_emission_instance :
  let Pi := fun i => nth i [Q2Qc (1 # 4); Q2Qc (3 # 4)] 0%Qc in
  let Tr := fun i j => nth j (nth i [[Q2Qc (1 # 2); Q2Qc (1 # 2)]; [Q2Qc (1 # 4); Q2Qc (3 # 4)]] []) 0%Qc in
  let e := fun c k => nth k (nth c [[Q2Qc (1 # 2); 1%Qc; 0%Qc; 1%Qc]; [1%Qc; Q2Qc (1 # 8); 1%Qc; Q2Qc (1 # 2)]] []) 0%Qc in
  let ab := ofb_buf OpsQc 2 Pi Tr Tr (fun i => i) e (fun _ _ => Q2Qc 7, fun _ _ => Q2Qc 7) 4 in
  e 0 2 = o0 OpsQc /\ Qeq_bool (this (fst ab 0 2)) 0 = true /\ Qeq_bool (this (fst ab 1 2)) 0 = false /\
  Qeq_bool (this (fst ab 0 3)) 0 = false.
Proof. repeat split; vm_compute; reflexivity. Qed.
