(* C15 round 6 — property theorems for generic.Hmm under EXTENDED histories: the setters of PropsSet.v
   (SetStartStates / SetFinalStates / SetParameters / Clone) and the config round trip
   obj.ImportConfig(json(obj.ExportConfig())) in any order and number (statements only; proofs in
   ProofsHist.v; PropsSet.v is unchanged).

   [xrun O m ops (init O rawpi rawtr)] is the object after the constructor and the calls [ops];
   [cur_run O m ops (cur_init O rawpi rawtr)] are the CURRENT PARAMETERS the same history calls for,
   computed by a machine that has no derived state at all (ModelHist.v: Pi, Tr and the two state
   sets only).  The object's Pi, Tr and sets are those, and its derived final-step matrix Tf -- now
   computed on four code paths: SetFinalStates, SetParameters, Clone, NewHmm + SetFinalStates inside
   ImportConfig -- is always the current Tr masked by the current final states and renormalised.
   Hence every inference routine (and the classifier front-end) equals the explicit enumeration of
   hidden paths for the current parameters after every extended history. *)
From Coq Require Import List Arith Bool ZArith QArith Qcanon.
From ADV Require Import C15.Model C15.ModelBuf C15.ModelCls C15.ModelSet C15.ModelHist C15.Spec C15.Proofs
  C15.ProofsSet C15.ProofsHist.
Import ListNotations.
Open Scope nat_scope.

Theorem every_call_preserves_tf_invariant :
  forall A (O : Ops A) m s (o : @xop A), Inv O s -> Inv O (fst (fst (xstep O m s o))).
Proof. exact (fun A O m => xstep_inv O m). Qed.

(* one call moves the parameters of the object exactly as the machine without derived state *)
Theorem every_call_follows_the_current_parameters :
  forall A (O : Ops A) m s (o : @xop A), cur_of (fst (fst (xstep O m s o))) = cur_step O m (cur_of s) o.
Proof. exact (fun A O m => xstep_cur O m). Qed.

Theorem parameters_and_tf_after_any_extended_history :
  forall A (O : Ops A) m rawpi rawtr (ops : list (@xop A)),
    let s := xrun O m ops (init O rawpi rawtr) in
    let c := cur_run O m ops (cur_init O rawpi rawtr) in
    stPi s = cuPi c /\ stTr s = cuTr c /\ stStart s = cuStart c /\ stFinal s = cuFinal c /\
    stTf s = tf_of O (cuTr c) (cuFinal c).
Proof. exact xrun_all. Qed.

(* a successful round trip re-applies the start-state restriction that SetParameters drops
   (F-C15-SETPARAMS-START): afterwards Pi is zero outside the recorded start states *)
Theorem config_round_trip_restores_start_restriction :
  forall A (O : Ops A), CSemifield O -> forall m (s : @hst A) l i,
    config_fails O s = false -> stStart s = Some l -> accepted m l = true ->
    i < length (stPi s) -> zmem i l = false ->
    vfun O (stPi (config_step O m s)) i = o0 O.
Proof. exact (fun A O CF m => config_restores_mask O m CF). Qed.

(* when the current Pi has no mass the round trip returns the normalisation error and leaves the object
   alone (regression statement for the repaired F-C15-PIVEC-ERR-SWALLOWED, where the error was swallowed
   and NewHmm panicked): after SetStartStates({-1}) -- accepted, masks every state -- whatever the object was *)
Theorem config_round_trip_fails_with_an_error_after_start_minus_one :
  forall A (O : Ops A), CSemifield O -> forall m (s : @hst A),
    let s1 := fst (step O m s (OStart [(-1)%Z])) in
    xstep O m s1 XConfig = (s1, true, false).
Proof. exact xconfig_error_minus1. Qed.

(* no call of an extended history panics *)
Theorem no_call_of_an_extended_history_panics :
  forall A (O : Ops A) m (s : @hst A) o, snd (xstep O m s o) = false.
Proof. exact xstep_never_panics. Qed.

(* ---- inference after any extended history = enumeration for the current parameters ---- *)
Theorem logpdf_after_any_extended_history_is_enumeration :
  forall A (O : Ops A), CSemiring O -> forall m rawpi rawtr (ops : list (@xop A)) smap e n,
    let s := xrun O m ops (init O rawpi rawtr) in
    let c := cur_run O m ops (cur_init O rawpi rawtr) in
    let TfSpec := mfun O (tf_of O (cuTr c) (cuFinal c)) in
    logpdf O m (vfun O (stPi s)) (mfun O (stTr s)) (mfun O (stTf s)) smap e n =
    esum O (map (weight O (vfun O (stPi s)) (mfun O (stTr s)) TfSpec smap e n) (paths m n)).
Proof. exact (fun A O CS m rawpi rawtr ops smap e n => xlogpdf_after O m rawpi rawtr ops CS smap e n). Qed.

Theorem posterior_marginals_after_any_extended_history_are_enumerated :
  forall A (O : Ops A), CSemifield O -> forall m rawpi rawtr (ops : list (@xop A)) smap e n, 0 < n ->
    let s := xrun O m ops (init O rawpi rawtr) in
    let c := cur_run O m ops (cur_init O rawpi rawtr) in
    let Pi := vfun O (stPi s) in
    let Tr := mfun O (stTr s) in
    let TfSpec := mfun O (tf_of O (cuTr c) (cuFinal c)) in
    marginals O m Pi Tr (mfun O (stTf s)) smap e n =
    if ois0 O (enum_likelihood O m Pi Tr TfSpec smap e n) then None
    else Some (map (fun k => map (fun i => odiv O (enum_marginal O m Pi Tr TfSpec smap e n k i)
                                                  (enum_likelihood O m Pi Tr TfSpec smap e n)) (seq 0 m)) (seq 0 n)).
Proof. exact (fun A O CF m rawpi rawtr ops smap e n H => xmarginals_after O m rawpi rawtr ops CF smap e n H). Qed.

Theorem posterior_after_any_extended_history_is_enumerated :
  forall A (O : Ops A), CSemifield O -> forall m rawpi rawtr (ops : list (@xop A)) smap e n sts,
    0 < n -> length sts = n ->
    (forall x, In x sts -> NoDup x /\ forall i, In i x -> i < m) ->
    let s := xrun O m ops (init O rawpi rawtr) in
    let c := cur_run O m ops (cur_init O rawpi rawtr) in
    let Pi := vfun O (stPi s) in
    let Tr := mfun O (stTr s) in
    let TfSpec := mfun O (tf_of O (cuTr c) (cuFinal c)) in
    posterior O m Pi Tr (mfun O (stTf s)) smap e n sts =
    if ois0 O (enum_likelihood O m Pi Tr TfSpec smap e n) then PNaN
    else PVal (odiv O (enum_sets O m Pi Tr TfSpec smap e n sts) (enum_likelihood O m Pi Tr TfSpec smap e n)).
Proof.
  exact (fun A O CF m rawpi rawtr ops smap e n sts H1 H2 H3 =>
           xposterior_after O m rawpi rawtr ops CF smap e n sts H1 H2 H3).
Qed.

Theorem posterior_classifier_after_any_extended_history_is_enumerated :
  forall A (O : Ops A), CSemifield O -> forall m rawpi rawtr (ops : list (@xop A)) smap e n l,
    0 < n -> NoDup l -> (forall i, In i l -> i < m) ->
    let s := xrun O m ops (init O rawpi rawtr) in
    let c := cur_run O m ops (cur_init O rawpi rawtr) in
    let Pi := vfun O (stPi s) in
    let Tr := mfun O (stTr s) in
    let TfSpec := mfun O (tf_of O (cuTr c) (cuFinal c)) in
    cls_posterior O m Pi Tr (mfun O (stTf s)) smap e n n (map Z.of_nat l) =
    if ois0 O (enum_likelihood O m Pi Tr TfSpec smap e n) then CErr
    else COk (map (fun k => odiv O (enum_in_set O m Pi Tr TfSpec smap e n k l)
                                   (enum_likelihood O m Pi Tr TfSpec smap e n)) (seq 0 n)).
Proof.
  exact (fun A O CF m rawpi rawtr ops smap e n l H1 H2 H3 =>
           xcls_after O m rawpi rawtr ops CF smap e n l H1 H2 H3).
Qed.

Theorem viterbi_after_any_extended_history_is_optimal :
  forall m rawpi rawtr (ops : list (@xop Qc)) smap e n,
    let s := xrun OpsQc m ops (init OpsQc rawpi rawtr) in
    let c := cur_run OpsQc m ops (cur_init OpsQc rawpi rawtr) in
    let Pi := vfun OpsQc (stPi s) in
    let Tr := mfun OpsQc (stTr s) in
    let TfSpec := mfun OpsQc (tf_of OpsQc (cuTr c) (cuFinal c)) in
    (forall i, 0 <= Pi i)%Qc -> (forall i j, 0 <= Tr i j)%Qc -> (forall i j, 0 <= TfSpec i j)%Qc ->
    (forall c k, 0 <= e c k)%Qc -> 0 < m -> 0 < n ->
    is_path m n (viterbi VOpsQc m Pi Tr (mfun OpsQc (stTf s)) smap e n) /\
    forall q, is_path m n q ->
      (weight OpsQc Pi Tr TfSpec smap e n q <=
       weight OpsQc Pi Tr TfSpec smap e n (viterbi VOpsQc m Pi Tr (mfun OpsQc (stTf s)) smap e n))%Qc.
Proof. exact xviterbi_after. Qed.

(* a non-trivial extended history: SetStartStates({0}); SetFinalStates({1}); SetParameters with an
   unnormalised Pi that has mass on state 1 and an unnormalised Tr; round trip.  Before the round trip
   Pi(1) > 0 (the dropped restriction); after it Pi = (1, 0), Tr is row-stochastic and Tf follows it *)
Example extended_history_instance :
  let q := fun a b => Q2Qc (Z.of_nat a # Pos.of_nat b) in
  let pre := [XOld (OStart [0%Z]); XOld (OFinal [1%Z]);
              XOld (OParams [q 1 4; q 3 4] [[q 1 4; q 1 4]; [q 1 2; q 3 2]])] in
  let s0 := xrun OpsQc 2 pre (init OpsQc [q 1 2; q 1 2] [[q 1 2; q 1 2]; [q 3 4; q 1 4]]) in
  let s1 := xrun OpsQc 2 (pre ++ [XConfig]) (init OpsQc [q 1 2; q 1 2] [[q 1 2; q 1 2]; [q 3 4; q 1 4]]) in
  map this (stPi s0) = [1 # 4; 3 # 4]%Q /\
  map this (stPi s1) = [1 # 1; 0 # 1]%Q /\
  map (map this) (stTr s1) = [[1 # 2; 1 # 2]; [1 # 4; 3 # 4]]%Q /\
  map (map this) (stTf s1) = [[0 # 1; 1 # 1]; [0 # 1; 1 # 1]]%Q /\
  stShared s1 = false /\ stStart s1 = Some [0%Z] /\ stFinal s1 = Some [1%Z] /\
  snd (fst (xstep OpsQc 2 s1 XConfig)) = false /\
  snd (fst (xstep OpsQc 2 (fst (step OpsQc 2 s1 (OStart [(-1)%Z]))) XConfig)) = true.
Proof. repeat split; vm_compute; reflexivity. Qed.
