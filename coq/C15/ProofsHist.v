(* C15 (round 6) — the extended history machine of ModelHist.v (setters + config round trip):
   the object's parameters follow the machine WITHOUT derived state, and the derived final-step
   matrix Tf is, after every extended history, the one the current Tr and final states call for. *)
From Coq Require Import List Arith Bool ZArith QArith Qcanon Lia.
From ADV Require Import C15.Model C15.ModelBuf C15.ModelCls C15.ModelSet C15.ModelHist C15.Spec C15.Proofs
  C15.ProofsSet C15.ProofsSet2 C15.ProofsCls.
Import ListNotations.
Open Scope nat_scope.

Section PHIST.
  Context {A : Type} (O : Ops A).
  Variable m : nat.

  Lemma xstep_inv s o : Inv O s -> Inv O (fst (fst (xstep O m s o))).
  Proof.
    intros H. destruct o as [o|]; simpl.
    - apply step_inv. exact H.
    - destruct (config_fails O s); simpl; [exact H|].
      unfold config_step. apply run_inv. apply init_inv.
  Qed.

  Lemma cur_start s l :
    cur_of (fst (step O m s (OStart l))) =
    if accepted m l then mkCur (pi_masked O (stPi s) (Some l)) (stTr s) (Some l) (stFinal s) else cur_of s.
  Proof.
    unfold step, accepted. destruct (valid_states m l); simpl; [|reflexivity].
    destruct (nonempty l); reflexivity.
  Qed.
  Lemma cur_final s l :
    cur_of (fst (step O m s (OFinal l))) =
    if accepted m l then mkCur (stPi s) (stTr s) (stStart s) (Some l) else cur_of s.
  Proof.
    unfold step, accepted. destruct (valid_states m l); simpl; [|reflexivity].
    destruct (nonempty l); reflexivity.
  Qed.

  Lemma cur_keys_start s o :
    cur_of (fst (step O m s (OStart (keys o)))) =
    match reaccept m o with
    | Some l => mkCur (pi_masked O (stPi s) (Some l)) (stTr s) (Some l) (stFinal s)
    | None => cur_of s
    end.
  Proof.
    rewrite cur_start. destruct o as [l|]; simpl.
    - destruct (accepted m l); reflexivity.
    - reflexivity.
  Qed.
  Lemma cur_keys_final s o :
    cur_of (fst (step O m s (OFinal (keys o)))) =
    match reaccept m o with
    | Some l => mkCur (stPi s) (stTr s) (stStart s) (Some l)
    | None => cur_of s
    end.
  Proof.
    rewrite cur_final. destruct o as [l|]; simpl.
    - destruct (accepted m l); reflexivity.
    - reflexivity.
  Qed.

  (* a successful round trip, on the parameters *)
  Lemma cur_config s :
    cur_of (config_step O m s) =
    mkCur (pi_masked O (norm_vec O (norm_vec O (stPi s))) (reaccept m (stStart s)))
          (make_tr O (stTr s)) (reaccept m (stStart s)) (reaccept m (stFinal s)).
  Proof.
    unfold config_step. rewrite !run_cons. cbn [run fold_left].
    rewrite cur_keys_final.
    pose proof (cur_keys_start (init O (stPi s) (stTr s)) (stStart s)) as Hs.
    set (s1 := fst (step O m (init O (stPi s) (stTr s)) (OStart (keys (stStart s))))) in *.
    assert (E : cur_of s1 = mkCur (stPi s1) (stTr s1) (stStart s1) (stFinal s1)) by reflexivity.
    rewrite E in Hs. clear E.
    destruct (reaccept m (stStart s)) as [l|]; cbn [cur_of init stPi stTr stStart stFinal] in Hs;
      injection Hs as H1 H2 H3 H4;
      destruct (reaccept m (stFinal s)) as [f|]; unfold cur_of; rewrite ?H1, ?H2, ?H3, ?H4; reflexivity.
  Qed.

  (* the parameters of the object follow the machine without derived state *)
  Lemma xstep_cur s o : cur_of (fst (fst (xstep O m s o))) = cur_step O m (cur_of s) o.
  Proof.
    destruct o as [o|]; simpl.
    - destruct o as [l|l|pi tr|].
      + rewrite cur_start. reflexivity.
      + rewrite cur_final. reflexivity.
      + unfold step. destruct (stShared s); reflexivity.
      + unfold step. destruct (stFinal s); reflexivity.
    - unfold config_fails. destruct (ois0 O (lsum O (stPi s))); simpl; [reflexivity|].
      apply cur_config.
  Qed.

  Lemma xrun_cons o ops s : xrun O m (o :: ops) s = xrun O m ops (fst (fst (xstep O m s o))).
  Proof. reflexivity. Qed.
  Lemma xrun_inv ops : forall s, Inv O s -> Inv O (xrun O m ops s).
  Proof.
    induction ops as [|o ops IH]; intros s H; [exact H|].
    rewrite xrun_cons. apply IH. apply xstep_inv. exact H.
  Qed.
  Lemma xrun_cur ops : forall s, cur_of (xrun O m ops s) = cur_run O m ops (cur_of s).
  Proof.
    induction ops as [|o ops IH]; intros s; [reflexivity|].
    rewrite xrun_cons, IH, xstep_cur. reflexivity.
  Qed.

  Lemma cur_of_init rawpi rawtr : cur_of (init O rawpi rawtr) = cur_init O rawpi rawtr.
  Proof. reflexivity. Qed.

  Section AFTER.
    Variables (rawpi : list A) (rawtr : list (list A)) (ops : list (@xop A)).
    Let s := xrun O m ops (init O rawpi rawtr).
    Let c := cur_run O m ops (cur_init O rawpi rawtr).

    Lemma xrun_params : stPi s = cuPi c /\ stTr s = cuTr c /\ stStart s = cuStart c /\ stFinal s = cuFinal c.
    Proof.
      pose proof (xrun_cur ops (init O rawpi rawtr)) as H. rewrite cur_of_init in H.
      fold s in H. fold c in H. unfold cur_of in H. rewrite <- H. repeat split.
    Qed.
    Lemma xrun_tf : stTf s = tf_of O (cuTr c) (cuFinal c).
    Proof.
      destruct (xrun_inv ops _ (init_inv O rawpi rawtr)) as [_ Htf]. fold s in Htf.
      destruct xrun_params as [_ [H2 [_ H4]]]. rewrite Htf, H2, H4. reflexivity.
    Qed.
    Lemma xtf_is_spec : mfun O (stTf s) = mfun O (tf_of O (cuTr c) (cuFinal c)).
    Proof. rewrite xrun_tf. reflexivity. Qed.
  End AFTER.

  (* ---- a successful import re-applies the start-state restriction ---- *)
  Section MASK.
    Variable CF : CSemifield O.
    Let CS := sf_semiring O CF.

    Lemma norm_vec_length (l : list A) : length (norm_vec O l) = length l.
    Proof. unfold norm_vec. destruct (ois0 O (lsum O l)); [reflexivity | apply map_length]. Qed.

    Lemma masked_entry_zero (p : list A) l i : i < length p -> zmem i l = false ->
      nth i (pi_masked O p (Some l)) (o0 O) = o0 O.
    Proof.
      intros Hi Hz. unfold pi_masked, norm_vec.
      assert (Hm : nth i (mask_vec O l p) (o0 O) = o0 O) by (rewrite (nth_mask O) by exact Hi; rewrite Hz; reflexivity).
      destruct (ois0 O (lsum O (mask_vec O l p))) eqn:Et; [exact Hm|].
      rewrite nth_indep with (d' := odiv O (o0 O) (lsum O (mask_vec O l p)))
        by (rewrite map_length, (length_mask O); exact Hi).
      rewrite (map_nth (fun x => odiv O x (lsum O (mask_vec O l p)))). rewrite Hm.
      apply (div_zero O CF). exact Et.
    Qed.

    Lemma config_restores_mask s l i :
      config_fails O s = false -> stStart s = Some l -> accepted m l = true ->
      i < length (stPi s) -> zmem i l = false ->
      vfun O (stPi (config_step O m s)) i = o0 O.
    Proof.
      intros _ Hs Ha Hi Hz.
      pose proof (cur_config s) as H. unfold cur_of in H. injection H as H1 _ _ _.
      unfold vfun. rewrite H1, Hs. cbn [reaccept]. rewrite Ha.
      apply masked_entry_zero; [|exact Hz]. rewrite !norm_vec_length. exact Hi.
    Qed.

    (* ---- SetStartStates({-1}) masks every state, the round trip then fails with the normalisation error ---- *)
    Lemma lsum_zeros {X} (l : list X) : lsum O (map (fun _ => o0 O) l) = o0 O.
    Proof.
      unfold lsum. induction l as [|x l IH]; [reflexivity|].
      simpl. rewrite (add_0_l O CS). exact IH.
    Qed.
    Lemma mask_minus1 (p : list A) : mask_vec O [(-1)%Z] p = map (fun _ => o0 O) (combine (seq 0 (length p)) p).
    Proof.
      unfold mask_vec. apply map_ext. intros [i x]. cbn [fst snd].
      unfold zmem. cbn [existsb]. destruct (Z.eqb_spec (-1) (Z.of_nat i)) as [E|E]; [lia|reflexivity].
    Qed.
    Lemma config_fails_after_minus1 s :
      config_fails O (fst (step O m s (OStart [(-1)%Z]))) = true.
    Proof.
      assert (Hv : valid_states m [(-1)%Z] = true).
      { unfold valid_states. cbn [forallb]. rewrite andb_true_r. apply andb_true_intro.
        split; [reflexivity | apply Z.ltb_lt; lia]. }
      unfold step.
      rewrite Hv. cbn [negb nonempty fst]. unfold config_fails. cbn [stPi].
      unfold pi_masked, norm_vec. rewrite mask_minus1, lsum_zeros.
      assert (Hz : ois0 O (o0 O) = true) by (apply (is0_spec O CF); reflexivity).
      rewrite Hz, lsum_zeros. exact Hz.
    Qed.
  End MASK.
End PHIST.

Lemma xrun_all A (O : Ops A) m rawpi rawtr (ops : list (@xop A)) :
  let s := xrun O m ops (init O rawpi rawtr) in
  let c := cur_run O m ops (cur_init O rawpi rawtr) in
  stPi s = cuPi c /\ stTr s = cuTr c /\ stStart s = cuStart c /\ stFinal s = cuFinal c /\
  stTf s = tf_of O (cuTr c) (cuFinal c).
Proof.
  intros s c.
  destruct (xrun_params O m rawpi rawtr ops) as [H1 [H2 [H3 H4]]].
  repeat split; try assumption. exact (xrun_tf O m rawpi rawtr ops).
Qed.

Lemma xconfig_error_minus1 A (O : Ops A) (CF : CSemifield O) m (s : @hst A) :
  let s1 := fst (step O m s (OStart [(-1)%Z])) in
  xstep O m s1 XConfig = (s1, true, false).
Proof. intros s1. unfold xstep, s1. rewrite (config_fails_after_minus1 O m CF s). reflexivity. Qed.

(* no call panics *)
Lemma xstep_never_panics A (O : Ops A) m (s : @hst A) o : snd (xstep O m s o) = false.
Proof. destruct o as [o|]; simpl; [reflexivity|]. destruct (config_fails O s); reflexivity. Qed.

(* ---- inference after any extended history ---- *)
Section PHINF.
  Context {A : Type} (O : Ops A).
  Variable m : nat.
  Variables (rawpi : list A) (rawtr : list (list A)) (ops : list (@xop A)).
  Let s := xrun O m ops (init O rawpi rawtr).
  Let c := cur_run O m ops (cur_init O rawpi rawtr).
  Let Pi := vfun O (stPi s).
  Let Tr := mfun O (stTr s).
  Let TfSpec := mfun O (tf_of O (cuTr c) (cuFinal c)).

  Lemma xlogpdf_after (CS : CSemiring O) smap e n :
    logpdf O m Pi Tr (mfun O (stTf s)) smap e n = enum_likelihood O m Pi Tr TfSpec smap e n.
  Proof. unfold s, TfSpec, c. rewrite (xtf_is_spec O m rawpi rawtr ops). apply (logpdf_enum O CS). Qed.

  Lemma xmarginals_after (CF : CSemifield O) smap e n : 0 < n ->
    marginals O m Pi Tr (mfun O (stTf s)) smap e n =
    if ois0 O (enum_likelihood O m Pi Tr TfSpec smap e n) then None
    else Some (map (fun k => map (fun i => odiv O (enum_marginal O m Pi Tr TfSpec smap e n k i)
                                                  (enum_likelihood O m Pi Tr TfSpec smap e n)) (seq 0 m)) (seq 0 n)).
  Proof. unfold s, TfSpec, c. rewrite (xtf_is_spec O m rawpi rawtr ops). apply (marginals_spec O CF). Qed.

  Lemma xposterior_after (CF : CSemifield O) smap e n sts :
    0 < n -> length sts = n ->
    (forall x, In x sts -> NoDup x /\ forall i, In i x -> i < m) ->
    posterior O m Pi Tr (mfun O (stTf s)) smap e n sts =
    if ois0 O (enum_likelihood O m Pi Tr TfSpec smap e n) then PNaN
    else PVal (odiv O (enum_sets O m Pi Tr TfSpec smap e n sts) (enum_likelihood O m Pi Tr TfSpec smap e n)).
  Proof. unfold s, TfSpec, c. rewrite (xtf_is_spec O m rawpi rawtr ops). apply (posterior_enum A O CF). Qed.

  Lemma xcls_after (CF : CSemifield O) smap e n l :
    0 < n -> NoDup l -> (forall i, In i l -> i < m) ->
    cls_posterior O m Pi Tr (mfun O (stTf s)) smap e n n (map Z.of_nat l) =
    if ois0 O (enum_likelihood O m Pi Tr TfSpec smap e n) then CErr
    else COk (map (fun k => odiv O (enum_in_set O m Pi Tr TfSpec smap e n k l)
                                   (enum_likelihood O m Pi Tr TfSpec smap e n)) (seq 0 n)).
  Proof. unfold s, TfSpec, c. rewrite (xtf_is_spec O m rawpi rawtr ops). apply (cls_posterior_set O CF). Qed.
End PHINF.

Lemma xviterbi_after m rawpi rawtr (ops : list (@xop Qc)) smap e n :
  let s := xrun OpsQc m ops (init OpsQc rawpi rawtr) in
  let c := cur_run OpsQc m ops (cur_init OpsQc rawpi rawtr) in
  let Pi := vfun OpsQc (stPi s) in
  let Tr := mfun OpsQc (stTr s) in
  let TfSpec := mfun OpsQc (tf_of OpsQc (cuTr c) (cuFinal c)) in
  (forall i, 0 <= Pi i)%Qc -> (forall i j, 0 <= Tr i j)%Qc -> (forall i j, 0 <= TfSpec i j)%Qc ->
  (forall c k, 0 <= e c k)%Qc -> 0 < m -> 0 < n ->
  is_path m n (viterbi VOpsQc m Pi Tr (mfun OpsQc (stTf s)) smap e n) /\
  forall q, is_path m n q ->
    (weight OpsQc Pi Tr TfSpec smap e n q <=
     weight OpsQc Pi Tr TfSpec smap e n (viterbi VOpsQc m Pi Tr (mfun OpsQc (stTf s)) smap e n))%Qc.
Proof.
  intros s c Pi Tr TfSpec H1 H2 H3 H4 Hm Hn.
  unfold s, TfSpec, c in *. rewrite (xtf_is_spec OpsQc m rawpi rawtr ops).
  apply viterbi_rational; assumption.
Qed.
