(* C01/ProofsLoop.v — the tie by translation for the seven reductions over vectors / matrices.

   C01/Ops_gen.v [gen_loops] is printed by /verif/go2coq_c01 from scalar_real{64,32}_math.go on every run:
   guards, local, prologue, loop body (straight line of method calls; Mnorm: the i == 0 && j == 0 split) and
   epilogue of SmoothMax LogSmoothMax Vmean VdotV Vnorm Mtrace Mnorm.  Here: for EVERY carrier, EVERY vector
   (any length) and all registers, the denotation [run_loop] of each generated loop IS the model's program
   do_smoothmax .. do_mnorm of C01/Model.v that the theorems of C01/Props.v are about.  A source edit that
   changes a call, an operand, the order of the calls, the initial value of an accumulator, the iteration
   scheme or a guard makes one of these equalities (or [gen_loops_shape]) unprovable. *)
From Coq Require Import ZArith QArith List Bool Arith String Lia.
From ADV Require Import Base.Fl C01.Model C01.ProofsSeq C01.ModelOpsLang C01.Ops_gen.
Import ListNotations.
Local Open Scope nat_scope.
Local Open Scope string_scope.

Section Loops.
Context {A : Type} (F : Fl A) (r32 : A -> A).
Notation StA := (@St A).

Definition no_loop : lbody := mkLoop "" "" 0 0 0 "" [] "" [] false [] [] [].
Definition gen_loop (recv meth : string) : lbody :=
  match find (fun b => String.eqb (lp_recv b) recv && String.eqb (lp_meth b) meth) gen_loops with
  | Some b => b
  | None => no_loop       (* a no-op: never equal to a model program that writes the receiver *)
  end.

(* loops whose body has no first-element split: prologue; fold of the body over the items; epilogue *)
Lemma run_loop_nosplit lb c items csts tmps loc s : lp_split lb = false ->
  run_loop F r32 lb c items csts tmps loc s =
  let n := List.length items in
  let b := fun el => mkSenv c (largs F el csts n) tmps loc in
  let none := repeat (Im (fofZ F 0)) (lp_nvec lb) in
  let s0 := if String.eqb (lp_local lb) "" then s else upd s loc (null_reg F (rk (s c))) in
  bind (lexec F r32 (b none) (lp_pre lb) s0) (fun s1 =>
  bind (fold_left (fun m it => bind m (lexec F r32 (b it) (lp_body lb))) items (Ok s1)) (fun s3 =>
  lexec F r32 (b none) (lp_post lb) s3)).
Proof. intro H. unfold run_loop. rewrite H. destruct items; reflexivity. Qed.

(* normal form of a concrete straight-line block: nested binds of model steps *)
Ltac lnorm :=
  lazy beta iota zeta delta -[do_mon do_dy do_pow set_reg do_reset do_setf do_sqrt do_logadd bind seqm upd null_reg rd
                              Nat.max fofZ finf fofQ List.length Z.of_nat St].
Ltac block_tac :=
  lnorm; repeat (rewrite (@seqm_cons A); apply bind_ext; intro); try rewrite (@seqm_nil' A); reflexivity.
Ltac recv_cases H := destruct H as [H|[H|[]]]; subst.

Lemma seqm_loop {X} (pre post : list (StA -> res StA)) (body : X -> list (StA -> res StA)) xs s :
  seqm (pre ++ flat_map body xs ++ post) s =
  bind (seqm pre s) (fun s1 => bind (fold_left (fun m x => bind m (fun s => seqm (body x) s)) xs (Ok s1))
                                    (fun s3 => seqm post s3)).
Proof.
  rewrite seqm_app'. apply bind_ext. intro s1. rewrite seqm_app', seqm_flat_map. reflexivity.
Qed.

(* the three pieces of a generated loop are the three pieces of a model program *)
Lemma loop_generic {X} lb c (h : X -> list (opd A)) xs csts tmps loc s
      (pre post : list (StA -> res StA)) (body : X -> list (StA -> res StA)) :
  lp_split lb = false ->
  let b := fun el => mkSenv c (largs F el csts (List.length xs)) tmps loc in
  let none := repeat (Im (fofZ F 0)) (lp_nvec lb) in
  (forall s', lexec F r32 (b none) (lp_pre lb) s' = seqm pre s') ->
  (forall x s', lexec F r32 (b (h x)) (lp_body lb) s' = seqm (body x) s') ->
  (forall s', lexec F r32 (b none) (lp_post lb) s' = seqm post s') ->
  run_loop F r32 lb c (map h xs) csts tmps loc s =
  seqm (pre ++ flat_map body xs ++ post) (if String.eqb (lp_local lb) "" then s else upd s loc (null_reg F (rk (s c)))).
Proof.
  intros Hs b none Hpre Hbody Hpost. rewrite run_loop_nosplit by exact Hs. cbv zeta. rewrite map_length.
  fold b. fold none. rewrite seqm_loop. rewrite Hpre. apply bind_ext. intro s1.
  rewrite fold_map_items. rewrite (fold_bind_ext _ (fun x s => seqm (body x) s)) by exact Hbody.
  apply bind_ext. exact Hpost.
Qed.

Ltac loop_tac pre post body :=
  rewrite (loop_generic _ _ _ _ _ _ _ _ pre post body); [reflexivity|reflexivity|intros; block_tac ..].

Lemma loop_SmoothMax recv r xs alpha t0 t1 loc s : In recv ["Real64"; "Real32"] ->
  run_loop F r32 (gen_loop recv "SmoothMax") r (map (fun x => [x]) xs) [alpha] [t0; t1] loc s =
  do_smoothmax F r32 r xs alpha t0 t1 s.
Proof.
  intro H; recv_cases H; unfold do_smoothmax;
  loop_tac [do_reset F r; do_reset F t1] [do_dy F r32 ODiv r (Rg r) (Rg t1)]
           (fun x => [do_dy F r32 OMul t0 (Im alpha) x; do_mon F r32 OExp t0 (Rg t0); do_dy F r32 OAdd t1 (Rg t1) (Rg t0);
                      do_dy F r32 OMul t0 (Rg t0) x; do_dy F r32 OAdd r (Rg r) (Rg t0)]).
Qed.

Lemma loop_LogSmoothMax recv r xs alpha t0 t1 t2 loc s : In recv ["Real64"; "Real32"] ->
  run_loop F r32 (gen_loop recv "LogSmoothMax") r (map (fun x => [x]) xs) [alpha] [t0; t1; t2] loc s =
  do_logsmoothmax F r32 r xs alpha t0 t1 t2 s.
Proof.
  intro H; recv_cases H; unfold do_logsmoothmax;
  loop_tac [do_setf F r32 r (finf F (-1)); do_setf F r32 t2 (finf F (-1))]
           [do_dy F r32 OSub r (Rg r) (Rg t2); do_mon F r32 OExp r (Rg r)]
           (fun x => [do_dy F r32 OMul t0 x (Im alpha); do_logadd F r32 t2 (Rg t2) (Rg t0) t1; do_mon F r32 OLog t1 x;
                      do_dy F r32 OAdd t0 (Rg t0) (Rg t1); do_logadd F r32 r (Rg r) (Rg t0) t1]).
Qed.

Lemma loop_Vmean recv r xs loc s : In recv ["Real64"; "Real32"] ->
  run_loop F r32 (gen_loop recv "Vmean") r (map (fun x => [x]) xs) [] [] loc s = do_vmean F r32 r xs s.
Proof.
  intro H; recv_cases H; unfold do_vmean; rewrite (map_as_flat_map (fun x => do_dy F r32 OAdd r (Rg r) x));
  loop_tac [do_reset F r] [do_dy F r32 ODiv r (Rg r) (Im (lit F (Z.of_nat (List.length xs))))]
           (fun x => [do_dy F r32 OAdd r (Rg r) x]).
Qed.

Lemma loop_VdotV recv r xs ys t s : In recv ["Real64"; "Real32"] ->
  run_loop F r32 (gen_loop recv "VdotV") r (map (fun xy => [fst xy; snd xy]) (combine xs ys)) [] [] t s =
  do_vdotv F r32 r xs ys t s.
Proof.
  intro H; recv_cases H; unfold do_vdotv; cbv zeta;
  rewrite <- (app_nil_r (flat_map _ (combine xs ys)));
  loop_tac [do_reset F r] (@nil (StA -> res StA))
           (fun xy : opd A * opd A => [do_dy F r32 OMul t (fst xy) (snd xy); do_dy F r32 OAdd r (Rg r) (Rg t)]).
Qed.

Lemma loop_Vnorm recv r xs t s : In recv ["Real64"; "Real32"] ->
  run_loop F r32 (gen_loop recv "Vnorm") r (map (fun x => [x]) xs) [] [] t s = do_vnorm F r32 r xs t s.
Proof.
  intro H; recv_cases H; unfold do_vnorm; cbv zeta;
  loop_tac [do_reset F r] [do_sqrt F r32 r (Rg r)]
           (fun x => [do_pow F r32 t x (Im (two F)); do_dy F r32 OAdd r (Rg r) (Rg t)]).
Qed.

Lemma loop_Mtrace recv r diag loc s : In recv ["Real64"; "Real32"] ->
  run_loop F r32 (gen_loop recv "Mtrace") r (map (fun x => [x]) diag) [] [] loc s = do_mtrace F r32 r diag s.
Proof.
  intro H; recv_cases H; unfold do_mtrace; rewrite (map_as_flat_map (fun x => do_dy F r32 OAdd r (Rg r) x));
  rewrite <- (app_nil_r (flat_map _ diag));
  loop_tac [do_reset F r] (@nil (StA -> res StA)) (fun x => [do_dy F r32 OAdd r (Rg r) x]).
Qed.

(* Mnorm: the first element (i == 0 && j == 0) goes through the receiver, the others through the local *)
Lemma loop_generic_split {X} lb c (h : X -> list (opd A)) x0 rest csts tmps loc s
      (first : StA -> res StA) (body : X -> list (StA -> res StA)) :
  lp_split lb = true -> lp_pre lb = [] -> lp_post lb = [] ->
  let b := fun el => mkSenv c (largs F el csts (List.length (x0 :: rest))) tmps loc in
  (forall s', lexec F r32 (b (h x0)) (lp_first lb) s' = first s') ->
  (forall x s', lexec F r32 (b (h x)) (lp_body lb) s' = seqm (body x) s') ->
  run_loop F r32 lb c (map h (x0 :: rest)) csts tmps loc s =
  seqm (first :: flat_map body rest) (if String.eqb (lp_local lb) "" then s else upd s loc (null_reg F (rk (s c)))).
Proof.
  intros Hs Hpre Hpost b Hfirst Hbody. unfold run_loop. rewrite Hs, Hpre, Hpost, map_length. fold b.
  cbn [map lexec bind]. rewrite bind_ok_r, seqm_cons, Hfirst. apply bind_ext. intro s2.
  rewrite seqm_flat_map, fold_map_items. apply fold_bind_ext. exact Hbody.
Qed.

Lemma loop_Mnorm recv r xs t s : In recv ["Real64"; "Real32"] ->
  run_loop F r32 (gen_loop recv "Mnorm") r (map (fun x => [x]) xs) [] [] t s = do_mnorm F r32 r xs t s.
Proof.
  intro H; recv_cases H; unfold do_mnorm; cbv zeta.
  all: destruct xs as [|x0 rest]; [reflexivity|].
  all: rewrite (loop_generic_split _ _ _ _ _ _ _ _ _ (do_pow F r32 r x0 (Im (two F)))
                  (fun x => [do_pow F r32 t x (Im (two F)); do_dy F r32 OAdd r (Rg r) (Rg t)]));
       [reflexivity|reflexivity|reflexivity|reflexivity|intros; lnorm; rewrite bind_ok_r; reflexivity|intros; block_tac].
Qed.

(* the part of each loop that is not a statement list: how many vector / constant / temporary parameters, the
   iteration scheme, the guards before the first write, the local; and nothing else is in the generated list *)
Definition loop_shape (b : lbody) := (lp_meth b, (lp_nvec b, lp_ncst b, lp_ntmp b), lp_iter b, lp_guards b, lp_local b, lp_split b).
Definition expected_shapes :=
  [("SmoothMax", (1, 1, 2), "index", @nil string, "", false);
   ("LogSmoothMax", (1, 1, 3), "index", [], "", false);
   ("Vmean", (1, 0, 0), "index", [], "", false);
   ("VdotV", (2, 0, 0), "index", ["dim-mismatch-panics"], "NullReal", false);
   ("Vnorm", (1, 0, 0), "iterator", [], "NullReal", false);
   ("Mtrace", (1, 0, 0), "diag", ["not-square-panics"; "n-zero-returns-nil"], "", false);
   ("Mnorm", (1, 0, 0), "rowmajor", ["empty-returns-nil"], "NewScalar", true)].
End Loops.

Lemma gen_loops_shape :
  map loop_shape (filter (fun b => String.eqb (lp_recv b) "Real64") gen_loops) = expected_shapes /\
  map loop_shape (filter (fun b => String.eqb (lp_recv b) "Real32") gen_loops) = expected_shapes /\
  forallb (fun b => String.eqb (lp_recv b) "Real64" || String.eqb (lp_recv b) "Real32") gen_loops = true.
Proof. split; [|split]; reflexivity. Qed.
