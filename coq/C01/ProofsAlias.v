(* C01/ProofsAlias.v — receiver = operand aliasing, for every combinator copy.

   (1) the eight Go combinators (C01/ModelVariants.v, one definition per Go function) ARE the two
       shared loops of C01/Model.v, for every carrier;
   (2) for every copy, the call with the receiver among the operands (c = a, c = b, c = a = b) leaves
       in the receiver the same value / order / N / gradient / Hessian as the call with a fresh
       receiver — corollaries of monadic_spec / dyadic_spec of ProofsComb.v, which hold for every
       aliasing because the Hessian block only reads storage it has not yet written, the gradient
       loop runs after it and the value is written last;
       (property C08 proves receiver-independence for the generic operation table over an arbitrary
       carrier: coq/C08/Props.v  combinator_one_operand_closed_form, combinator_two_operands_closed_form,
       scalar_operation_receiver_independent, alias_one_operand, alias_two_operands; nothing is imported
       from there);
   (3) the statement order matters: [dyadic_gradient_first] (gradient loop above the Hessian block — the
       seeded regression) is refuted on c.MUL(c, y);
   (4) AllocForTwo may REALLOCATE a receiver that is an operand (x.Add(x, y) with x of order 0: the first
       iteration of every reduction on a fresh accumulator).  [dyadic_spec_any] / [rep_dy_any] replace the
       side condition [alloc_keeps] by "the receiver-operand has the result's shape or is a constant"
       and so cover that case. *)
From Coq Require Import Reals ZArith List Bool Arith Lia Lra FunctionalExtensionality.
From ADV Require Import Base.Fl Base.Num C01.Model C01.ModelR C01.ModelVariants C01.ProofsList C01.ProofsComb
     C01.ProofsStore C01.ProofsOps.
Import ListNotations.
Open Scope R_scope.
Local Arguments Nat.leb : simpl never.
Local Arguments Nat.eqb : simpl never.
Local Arguments Nat.ltb : simpl never.

(* ------------------------------------------------------------------ (1) eight copies, two loops: every carrier *)
Section Copies.
Context {A : Type} (F : Fl A) (r32 : A -> A).

Lemma cmb_monadic_eq c a v0 v1 v2 s : cmb_monadic F r32 c a v0 v1 v2 s = monadic F r32 c a v0 v1 v2 s.
Proof. reflexivity. Qed.
Lemma cmb_monadicLazy_eq c a v0 f1 f2 s : cmb_monadicLazy F r32 c a v0 f1 f2 s = monadic_lazy F r32 c a v0 f1 f2 s.
Proof. reflexivity. Qed.
Lemma cmb_realMonadic_eq c a v0 v1 v2 s : cmb_realMonadic F r32 c a v0 v1 v2 s = monadic F r32 c (Rg a) v0 v1 v2 s.
Proof. reflexivity. Qed.
Lemma cmb_realMonadicLazy_eq c a v0 f1 f2 s :
  cmb_realMonadicLazy F r32 c a v0 f1 f2 s = monadic_lazy F r32 c (Rg a) v0 f1 f2 s.
Proof. reflexivity. Qed.
Lemma cmb_dyadic_eq c a b v0 v10 v01 v11 v20 v02 s :
  cmb_dyadic F r32 c a b v0 v10 v01 v11 v20 v02 s = dyadic F r32 c a b v0 v10 v01 v11 v20 v02 s.
Proof. reflexivity. Qed.
Lemma cmb_dyadicLazy_eq c a b v0 f1 f2 s : cmb_dyadicLazy F r32 c a b v0 f1 f2 s = dyadic_lazy F r32 c a b v0 f1 f2 s.
Proof. reflexivity. Qed.
Lemma cmb_realDyadic_eq c a b v0 v10 v01 v11 v20 v02 s :
  cmb_realDyadic F r32 c a b v0 v10 v01 v11 v20 v02 s = dyadic F r32 c (Rg a) (Rg b) v0 v10 v01 v11 v20 v02 s.
Proof. reflexivity. Qed.
Lemma cmb_realDyadicLazy_eq c a b v0 f1 f2 s :
  cmb_realDyadicLazy F r32 c a b v0 f1 f2 s = dyadic_lazy F r32 c a b v0 f1 f2 s.
Proof. reflexivity. Qed.

Lemma cmb_mon_eq v c a v0 v1 v2 s : cmb_mon F r32 v c a v0 v1 v2 s = monadic F r32 c (Rg a) v0 v1 v2 s.
Proof. destruct v; reflexivity. Qed.
Lemma cmb_dy_eq v c a b v0 v10 v01 v11 v20 v02 s :
  cmb_dy F r32 v c a b v0 v10 v01 v11 v20 v02 s = dyadic F r32 c (Rg a) (Rg b) v0 v10 v01 v11 v20 v02 s.
Proof. destruct v; reflexivity. Qed.

(* the generic method and its concrete twin are the same instruction of the model: [exec] need not know the variant *)
Lemma do_mon_v_eq conc op c a s : do_mon_v F r32 conc op c a s = do_mon F r32 op c (Rg a) s.
Proof. unfold do_mon_v. rewrite cmb_mon_eq. reflexivity. Qed.
Lemma do_dy_v_eq conc op c a b s : do_dy_v F r32 conc op c a b s = do_dy F r32 op c (Rg a) (Rg b) s.
Proof. unfold do_dy_v. rewrite cmb_dy_eq. reflexivity. Qed.
End Copies.

Section Alias.
Variable S : Special.
Notation F := (FlR S).
Notation StR := (@St R).
Notation gdR := (gd F).
Notation ghR := (gh F).

(* what the property observes of a register *)
Definition same_jet (r1 r2 : Reg R) : Prop :=
  rval r1 = rval r2 /\ rorder r1 = rorder r2 /\ rn r1 = rn r2 /\
  (forall i, (i < rn r1)%nat -> gdR r1 i = gdR r2 i) /\
  (forall i j, (i < rn r1)%nat -> (j < rn r1)%nat -> ghR r1 i j = ghR r2 i j).

Lemma gh_low_order (r : Reg R) i j : (rorder r < 2)%nat -> ghR r i j = 0.
Proof. intro H. unfold gh. destruct (Nat.leb_spec 2 (rorder r)); [lia|reflexivity]. Qed.

(* ------------------------------------------------------------------ (2) one argument *)
Theorem monadic_any_receiver c c' a v0 v1 v2 (s : StR) :
  wf (s c) -> wf (s c') -> wf (rd s a) -> sym_reg S (rd s a) ->
  exists s1 s2, monadic F idR c a v0 v1 v2 s = Ok s1 /\ monadic F idR c' a v0 v1 v2 s = Ok s2 /\
                same_jet (s1 c) (s2 c').
Proof.
  intros Hc Hc' Ha Hs.
  destruct (monadic_spec S c a v0 v1 v2 s Hc Ha Hs) as [s1 [E1 [_ [_ [V1 [O1 [N1 [_ [G1 H1]]]]]]]]].
  destruct (monadic_spec S c' a v0 v1 v2 s Hc' Ha Hs) as [s2 [E2 [_ [_ [V2 [O2 [N2 [_ [G2 H2]]]]]]]]].
  exists s1, s2. split; [exact E1|]. split; [exact E2|].
  split; [congruence|]. split; [congruence|]. split; [congruence|]. rewrite N1. split.
  - intros i Hi. rewrite G1, G2 by auto. reflexivity.
  - intros i j Hi Hj. destruct (le_lt_dec 2 (rorder (rd s a))) as [L|L].
    + rewrite H1, H2 by auto. reflexivity.
    + rewrite !gh_low_order by lia. reflexivity.
Qed.

(* every one-argument copy, receiver = operand:  c.Op(c)  vs  fresh.Op(c) *)
Corollary monadic_copies_alias v c c' v0 v1 v2 (s : StR) :
  wf (s c) -> wf (s c') -> sym_reg S (s c) ->
  exists s1 s2, cmb_mon F idR v c c v0 v1 v2 s = Ok s1 /\ cmb_mon F idR v c' c v0 v1 v2 s = Ok s2 /\
                same_jet (s1 c) (s2 c').
Proof. intros Hc Hc' Hs. rewrite !cmb_mon_eq. apply monadic_any_receiver; auto. Qed.

(* ------------------------------------------------------------------ (2) two arguments *)
Theorem dyadic_any_receiver c c' a b v0 v10 v01 v11 v20 v02 (s : StR) :
  wf (s c) -> wf (s c') -> wf (rd s a) -> wf (rd s b) -> sym_reg S (rd s a) -> sym_reg S (rd s b) ->
  dy_guard (rd s a) (rd s b) = None -> alloc_keeps c a b s -> alloc_keeps c' a b s ->
  exists s1 s2, dyadic F idR c a b v0 v10 v01 v11 v20 v02 s = Ok s1 /\
                dyadic F idR c' a b v0 v10 v01 v11 v20 v02 s = Ok s2 /\ same_jet (s1 c) (s2 c').
Proof.
  intros Hc Hc' Ha Hb Sa Sb Hg K K'.
  destruct (dyadic_spec S c a b v0 v10 v01 v11 v20 v02 s Hc Ha Hb Sa Sb Hg K) as [s1 [E1 [_ [_ [V1 [O1 [N1 [_ [G1 H1]]]]]]]]].
  destruct (dyadic_spec S c' a b v0 v10 v01 v11 v20 v02 s Hc' Ha Hb Sa Sb Hg K') as [s2 [E2 [_ [_ [V2 [O2 [N2 [_ [G2 H2]]]]]]]]].
  exists s1, s2. split; [exact E1|]. split; [exact E2|].
  split; [congruence|]. split; [congruence|]. split; [congruence|]. rewrite N1. split.
  - intros i Hi. rewrite G1, G2 by auto. reflexivity.
  - intros i j Hi Hj. destruct (le_lt_dec 2 (Nat.max (rorder (rd s a)) (rorder (rd s b)))) as [L|L].
    + rewrite H1, H2 by auto. reflexivity.
    + rewrite !gh_low_order by lia. reflexivity.
Qed.

Lemma keeps_a c b (s : StR) : (rn (s b) <= rn (s c))%nat -> (rorder (s b) <= rorder (s c))%nat -> alloc_keeps c (Rg c) (Rg b) s.
Proof. intros Hn Ho k _ _. cbn [rd]. lia. Qed.
Lemma keeps_b c a (s : StR) : (rn (s a) <= rn (s c))%nat -> (rorder (s a) <= rorder (s c))%nat -> alloc_keeps c (Rg a) (Rg c) s.
Proof. intros Hn Ho k _ _. cbn [rd]. lia. Qed.
Lemma keeps_ab c (s : StR) : alloc_keeps c (Rg c) (Rg c) s.
Proof. intros k _ _. cbn [rd]. lia. Qed.
Lemma keeps_other c' a b (s : StR) : c' <> a -> c' <> b -> alloc_keeps c' (Rg a) (Rg b) s.
Proof. intros H1 H2. apply alloc_keeps_fresh; intros k E; inversion E; subst; auto. Qed.

(* every two-argument copy, the three alias patterns.  The receiver-operand carries the computation's
   shape (N and order at least those of the other operand) — otherwise AllocForTwo clears it first
   (F-ALLOC, property C08; the order-0 accumulator is (4) below). *)
Corollary dyadic_copies_alias_c_is_a v c c' b v0 v10 v01 v11 v20 v02 (s : StR) :
  c' <> c -> c' <> b -> wf (s c) -> wf (s c') -> wf (s b) -> sym_reg S (s c) -> sym_reg S (s b) ->
  dy_guard (s c) (s b) = None -> (rn (s b) <= rn (s c))%nat -> (rorder (s b) <= rorder (s c))%nat ->
  exists s1 s2, cmb_dy F idR v c c b v0 v10 v01 v11 v20 v02 s = Ok s1 /\
                cmb_dy F idR v c' c b v0 v10 v01 v11 v20 v02 s = Ok s2 /\ same_jet (s1 c) (s2 c').
Proof.
  intros N1 N2 Hc Hc' Hb Sc Sb Hg Hn Ho. rewrite !cmb_dy_eq.
  apply dyadic_any_receiver; auto; [apply keeps_a; auto|apply keeps_other; auto].
Qed.
Corollary dyadic_copies_alias_c_is_b v c c' a v0 v10 v01 v11 v20 v02 (s : StR) :
  c' <> c -> c' <> a -> wf (s c) -> wf (s c') -> wf (s a) -> sym_reg S (s c) -> sym_reg S (s a) ->
  dy_guard (s a) (s c) = None -> (rn (s a) <= rn (s c))%nat -> (rorder (s a) <= rorder (s c))%nat ->
  exists s1 s2, cmb_dy F idR v c a c v0 v10 v01 v11 v20 v02 s = Ok s1 /\
                cmb_dy F idR v c' a c v0 v10 v01 v11 v20 v02 s = Ok s2 /\ same_jet (s1 c) (s2 c').
Proof.
  intros N1 N2 Hc Hc' Ha Sc Sa Hg Hn Ho. rewrite !cmb_dy_eq.
  apply dyadic_any_receiver; auto; [apply keeps_b; auto|apply keeps_other; auto].
Qed.
Corollary dyadic_copies_alias_c_is_a_is_b v c c' v0 v10 v01 v11 v20 v02 (s : StR) :
  c' <> c -> wf (s c) -> wf (s c') -> sym_reg S (s c) -> dy_guard (s c) (s c) = None ->
  exists s1 s2, cmb_dy F idR v c c c v0 v10 v01 v11 v20 v02 s = Ok s1 /\
                cmb_dy F idR v c' c c v0 v10 v01 v11 v20 v02 s = Ok s2 /\ same_jet (s1 c) (s2 c').
Proof.
  intros N1 Hc Hc' Sc Hg. rewrite !cmb_dy_eq.
  apply dyadic_any_receiver; auto; [apply keeps_ab|apply keeps_other; auto].
Qed.

(* a non-trivial instance of the hypotheses: order 2, N = 2, gradients (1/2, 3/4) and (1, -1/4) — non-zero and
   not proportional — non-zero symmetric Hessians; register 2 is a fresh NewReal64(0) *)
Definition st_alias : StR :=
  upd (upd (upd stR0 0 (mkReg K64 (3/2) 2 2 [1/2; 3/4] [[1/8; 1/4]; [1/4; 3/8]]))
           1 (mkReg K64 (9/4) 2 2 [1; -1/4] [[-3/8; 1/8]; [1/8; -5/16]])) 2 (mkReg K64 0 0 0 [] []).
Lemma wf22 v d0 d1 h00 h01 h10 h11 : wf (mkReg K64 v 2 2 [d0; d1] [[h00; h01]; [h10; h11]]).
Proof. split; intros _; cbn; [reflexivity|]. split; [reflexivity|]. intros [|[|i]] H; cbn; try reflexivity. lia. Qed.
Lemma sym22 v d0 d1 h00 h01 h11 : sym_reg S (mkReg K64 v 2 2 [d0; d1] [[h00; h01]; [h01; h11]]).
Proof.
  intros [|[|i]] [|[|j]]; unfold gh, hget; cbn; try reflexivity;
    try (destruct i; reflexivity); try (destruct j; reflexivity); destruct i; destruct j; reflexivity.
Qed.
Lemma alias_hyps_nontrivial :
  wf (st_alias 0%nat) /\ wf (st_alias 1%nat) /\ wf (st_alias 2%nat) /\ sym_reg S (st_alias 0%nat) /\ sym_reg S (st_alias 1%nat) /\
  dy_guard (st_alias 0%nat) (st_alias 1%nat) = None /\ dy_guard (st_alias 1%nat) (st_alias 0%nat) = None /\
  dy_guard (st_alias 0%nat) (st_alias 0%nat) = None /\
  (rn (st_alias 1%nat) <= rn (st_alias 0%nat))%nat /\ (rorder (st_alias 1%nat) <= rorder (st_alias 0%nat))%nat /\
  gdR (st_alias 0%nat) 0 * gdR (st_alias 1%nat) 1 <> gdR (st_alias 0%nat) 1 * gdR (st_alias 1%nat) 0.
Proof.
  change (st_alias 0%nat) with (mkReg K64 (3/2) 2 2 [1/2; 3/4] [[1/8; 1/4]; [1/4; 3/8]]).
  change (st_alias 1%nat) with (mkReg K64 (9/4) 2 2 [1; -1/4] [[-3/8; 1/8]; [1/8; -5/16]]).
  change (st_alias 2%nat) with (mkReg K64 0 0 0 [] []).
  split; [apply wf22|]. split; [apply wf22|]. split; [split; cbn; intros; lia|].
  split; [apply sym22|]. split; [apply sym22|]. split; [reflexivity|]. split; [reflexivity|]. split; [reflexivity|].
  split; [cbn; lia|]. split; [cbn; lia|]. cbv -[Rplus Rminus Rmult Rdiv Ropp Rinv IZR Rlt Rle not]. lra.
Qed.

(* ------------------------------------------------------------------ (3) the statement order matters *)
(* c.MUL(c, y), c and y two copies of the variable x = 3/2 (order 2, N = 1):  d2/dx2 (x * x) = 2 *)
Definition st_sq : StR :=
  upd (upd stR0 0 (mkReg K64 (3/2) 2 1 [1] [[0]])) 1 (mkReg K64 (3/2) 2 1 [1] [[0]]).
Ltac run_R := cbv -[Rplus Rminus Rmult Rdiv Ropp Rinv IZR Rlt Rle]; try lra.
Lemma mul_in_place_hessian :
  exists s', dyadic F idR 0 (Rg 0) (Rg 1) (3/2 * (3/2)) (3/2) (3/2) 1 0 0 st_sq = Ok s' /\
             rval (s' 0%nat) = 9/4 /\ gdR (s' 0%nat) 0 = 3 /\ ghR (s' 0%nat) 0 0 = 2.
Proof. eexists. split; [reflexivity|]. split; [|split]; run_R. Qed.
Lemma gradient_first_refuted :
  exists s', dyadic_gradient_first F idR 0 (Rg 0) (Rg 1) (3/2 * (3/2)) (3/2) (3/2) 1 0 0 st_sq = Ok s' /\
             rval (s' 0%nat) = 9/4 /\ gdR (s' 0%nat) 0 = 3 /\ ghR (s' 0%nat) 0 0 = 6.
Proof. eexists. split; [reflexivity|]. split; [|split]; run_R. Qed.
(* with a fresh receiver the reordered loop is indistinguishable: the regression needs the aliasing *)
Lemma gradient_first_fresh_receiver_agrees :
  exists s', dyadic_gradient_first F idR 2 (Rg 0) (Rg 1) (3/2 * (3/2)) (3/2) (3/2) 1 0 0 st_sq = Ok s' /\
             rval (s' 2%nat) = 9/4 /\ gdR (s' 2%nat) 0 = 3 /\ ghR (s' 2%nat) 0 0 = 2.
Proof. eexists. split; [reflexivity|]. split; [|split]; run_R. Qed.

(* ------------------------------------------------------------------ (4) AllocForTwo reallocating a receiver-operand *)
(* the receiver, when it is an operand, either has the result's shape already or is a constant (order 0) *)
Definition alloc_ok (c : nat) (a b : opd R) (s : StR) : Prop :=
  forall k, (a = Rg k \/ b = Rg k) -> k = c ->
    (rn (s c) = Nat.max (rn (rd s a)) (rn (rd s b)) /\ rorder (s c) = Nat.max (rorder (rd s a)) (rorder (rd s b)))
    \/ rorder (s c) = 0%nat.

Lemma alloc_keeps_ok c a b s : alloc_keeps c a b s -> alloc_ok c a b s.
Proof. intros H k Hk Ek. left. apply (H k); auto. Qed.

Lemma nth_repeat_zero n i : nth i (repeat (zero F) n) (zero F) = 0.
Proof. change (zero F) with 0. apply nth_repeat0. Qed.

Lemma gd_alloc_const (r : Reg R) n o i : rorder r = 0%nat -> gdR (alloc F r n o) i = 0.
Proof.
  intro H0. unfold alloc. destruct (Nat.eqb (rn r) n && Nat.eqb (rorder r) o).
  - unfold gd. rewrite H0. reflexivity.
  - unfold gd. cbn [rorder rderiv]. destruct (Nat.leb_spec 1 o); [apply nth_repeat_zero|reflexivity].
Qed.
Lemma gh_alloc_const (r : Reg R) n o i j : rorder r = 0%nat -> ghR (alloc F r n o) i j = 0.
Proof.
  intro H0. unfold alloc. destruct (Nat.eqb (rn r) n && Nat.eqb (rorder r) o).
  - unfold gh. rewrite H0. reflexivity.
  - unfold gh. cbn [rorder rhess]. destruct (Nat.leb_spec 2 o); [|reflexivity].
    destruct (Nat.leb_spec 1 o); [|lia]. apply (hget_repeat0 S).
Qed.
Lemma gd_const (r : Reg R) i : rorder r = 0%nat -> gdR r i = 0.
Proof. intro H. unfold gd. rewrite H. reflexivity. Qed.
Lemma gh_const (r : Reg R) i j : rorder r = 0%nat -> ghR r i j = 0.
Proof. intro H. unfold gh. rewrite H. reflexivity. Qed.

Section Any.
Variables (c : nat) (a b : opd R) (s : StR).
Let n := Nat.max (rn (rd s a)) (rn (rd s b)).
Let o := Nat.max (rorder (rd s a)) (rorder (rd s b)).
Let s0 := alloc_for_two F c a b s.

Lemma s0_c : s0 c = alloc F (s c) n o. Proof. unfold s0, alloc_for_two. apply upd_same. Qed.
Lemma s0_other q : q <> c -> s0 q = s q. Proof. intro H. unfold s0, alloc_for_two. apply upd_other. exact H. Qed.

(* an operand seen through the allocated state: itself, or the allocated receiver *)
Lemma rd_s0 (x : opd R) : (x = Rg c /\ rd s0 x = alloc F (s c) n o) \/ (x <> Rg c /\ rd s0 x = rd s x).
Proof.
  destruct x as [k|v]; [|right; split; [discriminate|reflexivity]].
  destruct (Nat.eq_dec k c) as [E|E]; [subst k; left; split; [reflexivity|cbn [rd]; apply s0_c]|].
  right. split; [congruence|]. cbn [rd]. apply s0_other. exact E.
Qed.

Lemma s0_shape_a : (rn (rd s0 a) <= n)%nat /\ (rorder (rd s0 a) <= o)%nat /\ (rn (rd s a) <= rn (rd s0 a) \/ a = Rg c)%nat.
Proof.
  destruct (rd_s0 a) as [[E1 E2]|[E1 E2]]; rewrite E2.
  - rewrite alloc_n, alloc_order. split; [lia|]. split; [lia|]. right; exact E1.
  - unfold n, o. split; [lia|]. split; [lia|]. left; lia.
Qed.

Lemma max_shape_s0 :
  (a = Rg c \/ b = Rg c) ->
  Nat.max (rn (rd s0 a)) (rn (rd s0 b)) = n /\ Nat.max (rorder (rd s0 a)) (rorder (rd s0 b)) = o.
Proof.
  intros Hc.
  destruct (rd_s0 a) as [[A1 A2]|[A1 A2]]; destruct (rd_s0 b) as [[B1 B2]|[B1 B2]]; rewrite A2, B2;
    rewrite ?alloc_n, ?alloc_order; unfold n, o; try lia.
Qed.

Lemma alloc_for_two_idem : alloc_for_two F c a b s0 = s0.
Proof.
  apply functional_extensionality. intro k. unfold alloc_for_two at 1, upd.
  destruct (Nat.eqb_spec k c) as [E|E]; [subst k|reflexivity].
  assert (Hm : Nat.max (rn (rd s0 a)) (rn (rd s0 b)) = n /\ Nat.max (rorder (rd s0 a)) (rorder (rd s0 b)) = o).
  { destruct (rd_s0 a) as [[A1 A2]|[A1 A2]]; destruct (rd_s0 b) as [[B1 B2]|[B1 B2]]; rewrite A2, B2;
      rewrite ?alloc_n, ?alloc_order; unfold n, o; lia. }
  destruct Hm as [M1 M2]. rewrite M1, M2, s0_c.
  rewrite <- (alloc_n S (s c) n o) at 2. rewrite <- (alloc_order S (s c) n o) at 3. apply alloc_noop.
Qed.

Lemma dyadic_on_allocated v0 v10 v01 v11 v20 v02 :
  dyadic F idR c a b v0 v10 v01 v11 v20 v02 s = dyadic F idR c a b v0 v10 v01 v11 v20 v02 s0.
Proof. rewrite !dyadic_unfold. cbv zeta. rewrite alloc_for_two_idem. reflexivity. Qed.

Hypothesis Hwc : wf (s c).
Hypothesis Hwa : wf (rd s a).
Hypothesis Hwb : wf (rd s b).
Hypothesis Hsa : sym_reg S (rd s a).
Hypothesis Hsb : sym_reg S (rd s b).
Hypothesis Hok : alloc_ok c a b s.

Lemma wf_s0c : wf (s0 c). Proof. rewrite s0_c. apply wf_alloc. exact Hwc. Qed.

(* the getters of an operand are not changed by the allocation *)
Lemma getters_s0 (x : opd R) : (x = a \/ x = b) ->
  wf (rd s0 x) /\ sym_reg S (rd s0 x) /\ rval (rd s0 x) = rval (rd s x) /\
  (forall i, gdR (rd s0 x) i = gdR (rd s x) i) /\ (forall i j, ghR (rd s0 x) i j = ghR (rd s x) i j).
Proof.
  intro Hx.
  assert (Hwx : wf (rd s x)) by (destruct Hx; subst; assumption).
  assert (Hsx : sym_reg S (rd s x)) by (destruct Hx; subst; assumption).
  destruct (rd_s0 x) as [[E1 E2]|[E1 E2]]; rewrite E2.
  2:{ split; [exact Hwx|]. split; [exact Hsx|]. split; [reflexivity|]. split; intros; reflexivity. }
  subst x. cbn [rd] in *.
  destruct (Hok c) as [[Kn Ko]|K0]; [destruct Hx as [Hx|Hx]; [left|right]; symmetry; exact Hx|reflexivity| |].
  - fold n in Kn. fold o in Ko. rewrite <- Kn, <- Ko, alloc_noop.
    split; [exact Hwx|]. split; [exact Hsx|]. split; [reflexivity|]. split; intros; reflexivity.
  - split; [apply wf_alloc; exact Hwc|]. split.
    + intros i j. rewrite !gh_alloc_const by exact K0. reflexivity.
    + split; [apply (alloc_kv S)|]. split.
      * intro i. rewrite gd_alloc_const, gd_const by exact K0. reflexivity.
      * intros i j. rewrite gh_alloc_const, gh_const by exact K0. reflexivity.
Qed.

Lemma keeps_s0 : alloc_keeps c a b s0.
Proof. intros k Hk Ek. subst k. rewrite s0_c, alloc_n, alloc_order. destruct (max_shape_s0) as [M1 M2]; [tauto|]. lia. Qed.

Theorem dyadic_spec_any v0 v10 v01 v11 v20 v02 :
  dy_guard (rd s0 a) (rd s0 b) = None ->
  exists s', dyadic F idR c a b v0 v10 v01 v11 v20 v02 s = Ok s' /\
    (forall q, q <> c -> s' q = s q) /\
    rk (s' c) = rk (s c) /\ rval (s' c) = v0 /\ rorder (s' c) = o /\ rn (s' c) = n /\ wf (s' c) /\
    (forall i, (i < n)%nat -> gdR (s' c) i = gdR (rd s a) i * v10 + gdR (rd s b) i * v01) /\
    ((2 <= o)%nat -> forall i j, (i < n)%nat -> (j < n)%nat ->
       ghR (s' c) i j = ghR (rd s a) i j * v10 + ghR (rd s b) i j * v01
                        + gdR (rd s a) i * gdR (rd s a) j * v20 + gdR (rd s b) i * gdR (rd s b) j * v02
                        + gdR (rd s a) i * gdR (rd s b) j * v11 + gdR (rd s b) i * gdR (rd s a) j * v11).
Proof.
  intro Hg.
  destruct (getters_s0 a (or_introl eq_refl)) as [Wa [Sa [_ [Ga Ha]]]].
  destruct (getters_s0 b (or_intror eq_refl)) as [Wb [Sb [_ [Gb Hb]]]].
  destruct (dyadic_spec S c a b v0 v10 v01 v11 v20 v02 s0 wf_s0c Wa Wb Sa Sb Hg keeps_s0)
    as [s' [E [Fr [K [V [O [N [W [G H]]]]]]]]].
  assert (Hm : Nat.max (rn (rd s0 a)) (rn (rd s0 b)) = n /\ Nat.max (rorder (rd s0 a)) (rorder (rd s0 b)) = o).
  { destruct (rd_s0 a) as [[A1 A2]|[A1 A2]]; destruct (rd_s0 b) as [[B1 B2]|[B1 B2]]; rewrite A2, B2;
      rewrite ?alloc_n, ?alloc_order; unfold n, o; lia. }
  destruct Hm as [M1 M2]. rewrite M1 in *. rewrite M2 in *.
  exists s'. split; [rewrite dyadic_on_allocated; exact E|].
  split; [intros q Hq; rewrite Fr by exact Hq; apply s0_other; exact Hq|].
  split; [rewrite K, s0_c; apply (alloc_kv S)|].
  split; [exact V|]. split; [exact O|]. split; [exact N|]. split; [exact W|]. split.
  - intros i Hi. rewrite G by exact Hi. rewrite Ga, Gb. reflexivity.
  - intros H2 i j Hi Hj. rewrite H by auto. rewrite !Ga, !Gb, Ha, Hb. reflexivity.
Qed.
End Any.

(* ------------------------------------------------------------------ the instruction-level step for ANY aliasing *)
Definition shp (n o : nat) (r : Reg R) : Prop := (rorder r = o /\ rn r = n) \/ (rorder r = 0 /\ rn r = 0)%nat.

Lemma dy_guard_shape n o (ra rb : Reg R) : shp n o ra -> shp n o rb -> dy_guard ra rb = None.
Proof.
  intros Ra Rb. unfold dy_guard.
  destruct Ra as [[Oa Na]|[Oa Na]]; destruct Rb as [[Ob Nb]|[Ob Nb]]; rewrite Oa, Ob, Na, Nb;
    repeat match goal with
           | |- context [(?a <=? ?b)%nat] => destruct (Nat.leb_spec a b)
           | |- context [(?a <? ?b)%nat] => destruct (Nat.ltb_spec a b)
           | |- context [Nat.eqb ?a ?b] => destruct (Nat.eqb_spec a b)
           end; cbn; try reflexivity; try lia.
Qed.

(* one table operation on represented operands: receiver ANY register — fresh, stale, an operand of the
   computation's shape, or an operand that is still a constant (the fresh accumulator of r.Add(r, x)) *)
Theorem rep_dy_any n o op c a b (s : StR) A B :
  wf (s c) -> rep S n o (rd s a) A -> rep S n o (rd s b) B ->
  exists s', do_dy F idR op c a b s = Ok s' /\ frame c s s' /\ rk (s' c) = rk (s c) /\
    rep S n o (s' c) (jdy (d_v0 F op (jv A) (jv B)) (d_f10 F op (jv A) (jv B)) (d_f01 F op (jv A) (jv B))
                          (d_f11 F op (jv A) (jv B)) (d_f20 F op (jv A) (jv B)) (d_f02 F op (jv A) (jv B)) A B) /\
    rorder (s' c) = Nat.max (rorder (rd s a)) (rorder (rd s b)) /\ rn (s' c) = Nat.max (rn (rd s a)) (rn (rd s b)).
Proof.
  intros Hwc RA RB.
  pose proof (rep_shape S _ _ _ _ RA) as ShA. pose proof (rep_shape S _ _ _ _ RB) as ShB.
  destruct RA as [Wa [Sa [Va [Ca [Ga Ha]]]]]. destruct RB as [Wb [Sb [Vb [Cb [Gb Hb]]]]].
  set (nn := Nat.max (rn (rd s a)) (rn (rd s b))). set (oo := Nat.max (rorder (rd s a)) (rorder (rd s b))).
  assert (Hshape : (oo = o /\ nn = n) \/ (oo = 0 /\ nn = 0)%nat).
  { unfold oo, nn. destruct Ca as [[Oa Na]|[Oa Na]]; destruct Cb as [[Ob Nb]|[Ob Nb]]; rewrite Oa, Ob, Na, Nb;
      rewrite ?Nat.max_id, ?Nat.max_0_r, ?Nat.max_0_l; auto. }
  assert (Hok : alloc_ok c a b s).
  { intros k Hk Ek. subst k.
    assert (Hc : shp n o (s c)) by (destruct Hk as [E|E]; subst; cbn [rd] in *; assumption).
    destruct Hc as [[Oc Nc]|[Oc Nc]]; [|right; exact Oc].
    destruct (Nat.eq_dec o 0) as [Z|NZ]; [right; lia|].
    left. fold nn oo. destruct Hshape as [[E1 E2]|[E1 E2]]; [lia|].
    exfalso. destruct Hk as [E|E]; subst; cbn [rd] in *; unfold oo in E1; lia. }
  assert (Hg : dy_guard (rd (alloc_for_two F c a b s) a) (rd (alloc_for_two F c a b s) b) = None).
  { assert (Sh0 : forall x, shp n o (rd s x) -> shp n o (rd (alloc_for_two F c a b s) x)).
    { intros x Hx. destruct (rd_s0 c a b s x) as [[E1 E2]|[E1 E2]]; rewrite E2; [|exact Hx].
      unfold shp. rewrite alloc_n, alloc_order. fold nn oo. destruct Hshape as [[E3 E4]|[E3 E4]]; [left|right]; lia. }
    apply (dy_guard_shape n o); apply Sh0; assumption. }
  set (x := jv A). set (y := jv B).
  destruct (dyadic_spec_any c a b s Hwc Wa Wb Sa Sb Hok (d_v0 F op x y) (d_f10 F op x y) (d_f01 F op x y) (d_f11 F op x y)
              (d_f20 F op x y) (d_f02 F op x y) Hg)
    as [s' [E [Fr [K [V [O [N [W [G H]]]]]]]]].
  fold nn in N, G, H. fold oo in O, H.
  exists s'. split.
  { unfold do_dy. rewrite Va, Vb. exact E. }
  split; [exact Fr|]. split; [exact K|]. split; [|split; assumption].
  assert (Hsym : sym_reg S (s' c)).
  { apply sym_of_range; [exact W|]. intros i j Hi Hj. rewrite N in Hi, Hj.
    destruct (le_lt_dec 2 oo) as [H2|H2].
    - rewrite !H by auto. rewrite (Sa i j), (Sb i j). ring.
    - unfold gh. rewrite O. destruct (Nat.leb_spec 2 oo); [lia|reflexivity]. }
  split; [exact W|]. split; [exact Hsym|]. split; [exact V|].
  split; [rewrite O, N; exact Hshape|]. split.
  - intros H1 i Hi. cbn [jdy jg]. destruct Hshape as [[Eo En]|[Eo En]].
    + rewrite G by lia. rewrite Ga, Gb by auto. reflexivity.
    + unfold gd at 1. rewrite O, Eo. leb0. rewrite <- Ga, <- Gb by auto.
      assert (Za : rorder (rd s a) = 0%nat) by (unfold oo in Eo; lia). assert (Zb : rorder (rd s b) = 0%nat) by (unfold oo in Eo; lia).
      unfold gd. rewrite Za, Zb. leb0. unfold zero, lit; simpl; ring.
  - intros H2 i j Hi Hj. cbn [jdy jh jg]. destruct Hshape as [[Eo En]|[Eo En]].
    + rewrite H by lia. rewrite !Ga, !Gb, Ha, Hb by (auto; lia). reflexivity.
    + unfold gh at 1. rewrite O, Eo. leb0. rewrite <- !Ga, <- !Gb, <- Ha, <- Hb by (auto; lia).
      assert (Za : rorder (rd s a) = 0%nat) by (unfold oo in Eo; lia). assert (Zb : rorder (rd s b) = 0%nat) by (unfold oo in Eo; lia).
      unfold gd, gh. rewrite Za, Zb. leb0. unfold zero, lit; simpl; ring.
Qed.

Theorem rep_pow_var_any n o c a k (s : StR) A K :
  wf (s c) -> rep S n o (rd s a) A -> rep S n o (rd s k) K -> (1 <= rorder (rd s k))%nat ->
  exists s', do_pow F idR c a k s = Ok s' /\ frame c s s' /\ rk (s' c) = rk (s c) /\
    rep S n o (s' c) (jdy (d_v0 F OPowV (jv A) (jv K)) (d_f10 F OPowV (jv A) (jv K)) (d_f01 F OPowV (jv A) (jv K))
                        (d_f11 F OPowV (jv A) (jv K)) (d_f20 F OPowV (jv A) (jv K)) (d_f02 F OPowV (jv A) (jv K)) A K) /\
    rorder (s' c) = Nat.max (rorder (rd s a)) (rorder (rd s k)) /\ rn (s' c) = Nat.max (rn (rd s a)) (rn (rd s k)).
Proof.
  intros Hwc RA RK Hk. unfold do_pow. destruct (Nat.leb_spec 1 (rorder (rd s k))); [|lia]. apply rep_dy_any; auto.
Qed.

End Alias.
