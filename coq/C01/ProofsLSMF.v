(* C01/ProofsLSMF.v — the binary64 replay carrier of C01/Corr.v (any oracle table) with Go's float32 conversion
   satisfies the three laws about -Inf that logsmoothmax_is_peeled needs: the peeling of LogSmoothMax is a statement
   about the carrier the bit-exact correspondence runs on, not only about abstract carriers. *)
From Coq Require Import ZArith List Bool Floats.
From ADV Require Import Base.Fl C01.Model C01.Corr C01.ProofsLSM.

Lemma ltb_neg_infinity (x : float) : PrimFloat.ltb x neg_infinity = false.
Proof.
  rewrite ltb_spec. replace (Prim2SF neg_infinity) with (S754_infinity true) by reflexivity.
  destruct (Prim2SF x) as [s|s| |s m e]; try destruct s; reflexivity.
Qed.

Lemma float_inf_laws (t : oracle) : inf_laws (FlF t) round32.
Proof.
  split; [reflexivity|]. split; [|reflexivity].
  intro x. exact (ltb_neg_infinity x).
Qed.
