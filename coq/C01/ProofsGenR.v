(* C01/ProofsGenR.v — transfer of the coefficient theorems (C01/ProofsCoef.v, over the reals)
   to the expressions the translator printed from the Go source (C01/Ops_gen.v):
   the value expression of a generated call site, read over R, has the generated f1 as its
   derivative and the generated f2 as the derivative of f1 (one argument); the generated
   f10 f01 f11 f20 f02 are the first and second partials (two arguments). *)
From Coq Require Import Reals ZArith QArith Qreals List Bool String Lra.
From Coquelicot Require Import Coquelicot.
From ADV Require Import Base.Fl Base.Num C01.Model C01.ModelR C01.ProofsCoef C01.ProofsSound C01.ProofsChain2.
From ADV Require Import C01.ModelOpsLang C01.Ops_gen C01.ProofsGen.
Import ListNotations.
Open Scope R_scope.

Section GenR.
Variable S : Special.
Notation F := (FlR S).
Notation ev := (eval (FlR S) idR).

Definition gen_m_ok (e : entry) (x y p : R) (k : nat) : Prop :=
  match en_fs e with
  | [f1; f2] =>
      is_derive (fun t => ev (en_v0 e) (env2 t y p k)) x (ev f1 (env2 x y p k)) /\
      is_derive (fun t => ev f1 (env2 t y p k)) x (ev f2 (env2 x y p k))
  | _ => False
  end.

(* two arguments: along every curve through (x, y) — the form ad_sound consumes (ProofsSound.d_curve) *)
Definition gen_d_curve (e : entry) (x y p : R) (k : nat) : Prop :=
  match en_fs e with
  | [f10; f01; f11; f20; f02] =>
      forall (G H : R -> R) t0 G' H', G t0 = x -> H t0 = y -> is_derive G t0 G' -> is_derive H t0 H' ->
      is_derive (fun t => ev (en_v0 e) (env2 (G t) (H t) p k)) t0 (G' * ev f10 (env2 x y p k) + H' * ev f01 (env2 x y p k)) /\
      is_derive (fun t => ev f10 (env2 (G t) (H t) p k)) t0 (G' * ev f20 (env2 x y p k) + H' * ev f11 (env2 x y p k)) /\
      is_derive (fun t => ev f01 (env2 (G t) (H t) p k)) t0 (G' * ev f11 (env2 x y p k) + H' * ev f02 (env2 x y p k))
  | _ => False
  end.

Lemma entry_ok_in e : In e gen_table -> entry_ok F idR e.
Proof. intro H. exact (proj1 (List.Forall_forall _ _) (gen_table_ok F idR) e H). Qed.

Lemma gen_m_transfer e real mk x y p k :
  In e gen_table -> target_of F (en_meth e) (en_path e) = Some (TMon real mk) ->
  m_ok S (mk p y k) x -> gen_m_ok e x y p k.
Proof.
  intros Hin Ht [D1 D2]. pose proof (entry_ok_in e Hin) as H. unfold entry_ok in H. rewrite Ht in H.
  destruct H as (_ & _ & _ & f1 & f2 & Efs & Heq). unfold gen_m_ok. rewrite Efs. split.
  - destruct (Heq x y p k) as (_ & E1 & _). rewrite E1.
    apply (is_derive_ext (m_v0 F (mk p y k))); [|exact D1]. intro t. destruct (Heq t y p k) as (E0 & _). symmetry. exact E0.
  - destruct (Heq x y p k) as (_ & _ & E2). rewrite E2.
    apply (is_derive_ext (m_f1 F (mk p y k))); [|exact D2]. intro t. destruct (Heq t y p k) as (_ & E1 & _). symmetry. exact E1.
Qed.

Lemma gen_d_transfer e real op x y p k :
  In e gen_table -> target_of F (en_meth e) (en_path e) = Some (TDy real op) ->
  d_curve S op x y -> gen_d_curve e x y p k.
Proof.
  intros Hin Ht D. pose proof (entry_ok_in e Hin) as H. unfold entry_ok in H. rewrite Ht in H.
  destruct H as (_ & _ & _ & f10 & f01 & f11 & f20 & f02 & Efs & Heq). unfold gen_d_curve. rewrite Efs.
  assert (E : forall a b, ev (en_v0 e) (env2 a b p k) = d_v0 F op a b /\ ev f10 (env2 a b p k) = d_f10 F op a b /\
                          ev f01 (env2 a b p k) = d_f01 F op a b /\ ev f11 (env2 a b p k) = d_f11 F op a b /\
                          ev f20 (env2 a b p k) = d_f20 F op a b /\ ev f02 (env2 a b p k) = d_f02 F op a b)
    by (intros a b; exact (Heq a b p k)).
  intros G H t0 G' H' EG EH dG dH.
  destruct (E x y) as (_ & X10 & X01 & X11 & X20 & X02). rewrite X10, X01, X11, X20, X02.
  destruct (D G H t0 G' H' EG EH dG dH) as (D1 & D2 & D3).
  split; [|split].
  - apply (is_derive_ext (fun t => d_v0 F op (G t) (H t))); [|exact D1]. intro t. symmetry. apply (E (G t) (H t)).
  - apply (is_derive_ext (fun t => d_f10 F op (G t) (H t))); [|exact D2]. intro t. symmetry. apply (E (G t) (H t)).
  - apply (is_derive_ext (fun t => d_f01 F op (G t) (H t))); [|exact D3]. intro t. symmetry. apply (E (G t) (H t)).
Qed.

(* the instances for the elementary operations: domain of the method, by name *)
Local Open Scope string_scope.
Definition mem (m : string) (l : list string) : bool := existsb (String.eqb m) l.
Definition elem_dom (meth : string) (x y : R) : Prop :=
  if mem meth ["Neg"; "Sin"; "Cos"; "Sinh"; "Cosh"; "Exp"; "Tanh"; "NEG"; "EXP"; "Add"; "Sub"; "Mul"; "ADD"; "SUB"; "MUL"] then True
  else if mem meth ["Tan"] then cos x <> 0
  else if mem meth ["Log"; "LOG"; "Pow"; "POW"; "SQRT"] then 0 < x
  else if mem meth ["Log1p"; "LOG1P"] then -1 < x
  else if mem meth ["Div"; "DIV"] then y <> 0
  else False.

Ltac coef_tac D :=
  first [ apply neg_ok | apply sin_ok | apply cos_ok | apply sinh_ok | apply cosh_ok | apply exp_ok | apply tanh_ok
        | apply tan_ok; exact D | apply log_ok; exact D | apply log1p_ok; exact D | apply powc_ok; exact D
        | apply d_curve_table; first [exact I | exact D] ].

Lemma gen_elementary e x y p k :
  In e gen_table -> elem_dom (en_meth e) x y ->
  if comb_is_mon (en_comb e) then gen_m_ok e x y p k else gen_d_curve e x y p k.
Proof.
  intros Hin D.
  assert (Hin' := Hin). unfold gen_table in Hin.
  repeat (destruct Hin as [Hin|Hin];
    [ subst e;
      first [ exfalso; exact D
            | lazy beta iota delta [comb_is_mon en_comb];
              first [ eapply gen_m_transfer | eapply gen_d_transfer ]; [exact Hin' | lazy; reflexivity | coef_tac D ] ]
    | ]).
  destruct Hin.
Qed.
End GenR.
