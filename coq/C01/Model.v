(* C01/Model.v — the shared scalar model of pbenner/autodiff's magic scalars
   (Real64 / Real32): register file, storage (Alloc/Set/Reset/SetVariable),
   the chain-rule combinators of scalar_real{64,32}_derivative.go, the table of
   scalar operations of scalar_real{64,32}_math.go (+ _math_concrete.go) and the
   composite programs built from them.

   Written once over the carrier record [Fl A] of Base/Fl.v plus a storage
   rounding hook [r32] (Go's float32(v) conversion on every store into a
   Real32); instances:  R (theorems, C01/ModelR.v), Coq primitive floats with
   the libm / special calls supplied as a per-case oracle (bit-exact replay,
   C01/Corr.v).

   SHAPE (for importers: C02 values per type, C08 aliasing, C09 generic vs
   concrete, C12 read-only operands)
   - A register [Reg] is a Go scalar object: kind, Value, Order, N, Derivative,
     Hessian.  [rderiv]/[rhess] are Go's slices *as they are in memory* ([] = nil),
     so stale storage kept by Alloc/Set is represented.
   - The state [St] is a register file  nat -> Reg.  Receivers, operands and
     temporaries are register *ids*, so  c.Add(c,b)  is  IDy OAdd c (Rg c) (Rg b):
     the combinators read operands THROUGH the state while they overwrite the
     receiver slot by slot, in Go's order: upper triangle j >= i with the mirror
     write (j,i), then the gradient, the value last.
   - An operand [opd] is a register id or an immediate constant (ConstFloat64(1.0)
     in Sigmoid/Logistic...): a non-magic scalar, Order 0, N 0, all derivative
     getters 0.
   - Every operation is  St -> res St ;  [Panic e] when Go panics.  Out-of-range
     slice accesses are decided up front from Order/N/len (see [dy_guard],
     [set_reg]); this is exact for registers satisfying the storage invariant
     (Order>=1 -> len Derivative = N, Order>=2 -> Hessian N x N) which every
     operation preserves (C01/ProofsComb.v: wf lemmas).
   - The eight Go combinators (monadic, monadicLazy, realMonadic, realMonadicLazy,
     dyadic, dyadicLazy, realDyadic, realDyadicLazy) are four textual copies of
     two loops; they are [monadic] and [dyadic] here, the Lazy forms only delay
     the (pure) coefficient closures.  The harness reaches all eight.
   No proofs in this file. *)
From Coq Require Import ZArith QArith List Bool Arith.
From ADV Require Import Base.Fl.
Import ListNotations.

Inductive kind := K64 | K32 | KBare.
(* K64 = *Real64, K32 = *Real32, KBare = any non-magic scalar (Float64, Float32,
   ConstFloat64, ...): GetOrder = GetN = 0, derivative getters return 0. *)

Record Reg (A : Type) := mkReg {
  rk : kind; rval : A; rorder : nat; rn : nat; rderiv : list A; rhess : list (list A) }.
Arguments mkReg {A}. Arguments rk {A}. Arguments rval {A}. Arguments rorder {A}.
Arguments rn {A}. Arguments rderiv {A}. Arguments rhess {A}.

Inductive err := EDiffN | EIndex.        (* explicit panic of dyadic | index out of range *)
Inductive res (X : Type) := Ok (x : X) | Panic (e : err).
Arguments Ok {X}. Arguments Panic {X}.

Definition bind {X Y} (m : res X) (f : X -> res Y) : res Y :=
  match m with Ok x => f x | Panic e => Panic e end.

(* ---------------------------------------------------------------- lists *)
Fixpoint upd_nth {X} (i : nat) (x : X) (l : list X) : list X :=
  match l, i with
  | [], _ => []
  | _ :: t, O => x :: t
  | h :: t, S i' => h :: upd_nth i' x t
  end.

(* for i := 0; i < n; i++ { for j := i; j < n; j++ {...} } *)
Definition upairs (n : nat) : list (nat * nat) :=
  flat_map (fun i => map (pair i) (seq i (n - i))) (seq 0 n).
(* for i := 0; i < n; i++ { for j := 0; j < n; j++ {...} } *)
Definition allpairs (n : nat) : list (nat * nat) :=
  flat_map (fun i => map (pair i) (seq 0 n)) (seq 0 n).

Inductive opd (A : Type) := Rg (i : nat) | Im (v : A).
Arguments Rg {A}. Arguments Im {A}.

(* ------------------------------------------------------------ operation names *)
Inductive mop (A : Type) :=
| ONeg | OSin | OSinh | OCos | OCosh | OTan | OTanh | OExp | OLog | OLog1p
| OErf | OErfc | OLogErfc | OGamma | OLgamma
| OMlgamma (k : nat) | OGammaP (a : A) | OBesselI (v : A) | OLogBesselI (v : A)
| OPowC (y : A).          (* Pow with an exponent of Order 0 *)
Arguments ONeg {A}. Arguments OSin {A}. Arguments OSinh {A}. Arguments OCos {A}.
Arguments OCosh {A}. Arguments OTan {A}. Arguments OTanh {A}. Arguments OExp {A}.
Arguments OLog {A}. Arguments OLog1p {A}. Arguments OErf {A}. Arguments OErfc {A}.
Arguments OLogErfc {A}. Arguments OGamma {A}. Arguments OLgamma {A}.
Arguments OMlgamma {A}. Arguments OGammaP {A}. Arguments OBesselI {A}.
Arguments OLogBesselI {A}. Arguments OPowC {A}.

Inductive dop := OAdd | OSub | OMul | ODiv | OPowV.   (* OPowV: exponent of Order >= 1 *)

Inductive instr (A : Type) :=
| IMon (op : mop A) (c : nat) (a : opd A)
| IDy (op : dop) (c : nat) (a b : opd A)
| IPow (c : nat) (a k : opd A)
| ISet (c : nat) (b : opd A)
| IReset (c : nat)
| ISetF (c : nat) (v : A)                       (* SetFloat64 *)
| ISetVar (c : nat) (i n order : nat)           (* SetVariable (order <= 2) *)
| IMin (c : nat) (a b : opd A) | IMax (c : nat) (a b : opd A)
| IAbs (c : nat) (a : opd A)
| IABSc (c : nat) (a : opd A)                   (* concrete ABS (same body as Abs since HEAD 2fc8894) *)
| ILogAdd (c : nat) (a b : opd A) (t : nat)
| ILogSub (c : nat) (a b : opd A) (t : nat)
| ILog1pExp (c : nat) (a : opd A)
| ISigmoid (c : nat) (a : opd A) (t : nat)
| ILogistic (c : nat) (a : opd A)
| ISqrt (c : nat) (a : opd A)
| ISmoothMax (r : nat) (xs : list (opd A)) (alpha : A) (t0 t1 : nat)
| ILogSmoothMax (r : nat) (xs : list (opd A)) (alpha : A) (t0 t1 t2 : nat)
| IVmean (r : nat) (xs : list (opd A))
| IVdotV (r : nat) (xs ys : list (opd A)) (t : nat)   (* t: the fresh NullReal of the Go body *)
| IVnorm (r : nat) (xs : list (opd A)) (t : nat)
| IMtrace (r : nat) (diag : list (opd A))             (* n >= 1 *)
| IMnorm (r : nat) (xs : list (opd A)) (t : nat).     (* row-major elements, at least one *)
Arguments IMon {A}. Arguments IDy {A}. Arguments IPow {A}. Arguments ISet {A}.
Arguments IReset {A}. Arguments ISetF {A}. Arguments ISetVar {A}. Arguments IMin {A}.
Arguments IMax {A}. Arguments IAbs {A}. Arguments IABSc {A}. Arguments ILogAdd {A}.
Arguments ILogSub {A}. Arguments ILog1pExp {A}. Arguments ISigmoid {A}. Arguments ILogistic {A}.
Arguments ISqrt {A}. Arguments ISmoothMax {A}. Arguments ILogSmoothMax {A}. Arguments IVmean {A}.
Arguments IVdotV {A}. Arguments IVnorm {A}. Arguments IMtrace {A}. Arguments IMnorm {A}.

Section Model.
Context {A : Type} (F : Fl A) (r32 : A -> A).

Notation "x + y" := (fadd F x y). Notation "x - y" := (fsub F x y).
Notation "x * y" := (fmul F x y). Notation "x / y" := (fdiv F x y).
Notation "- x" := (fneg F x).
Definition lit (z : Z) : A := fofZ F z.
Definition zero : A := lit 0.
Definition one : A := lit 1.

Definition St := nat -> Reg A.
Definition upd (s : St) (c : nat) (r : Reg A) : St := fun k => if Nat.eqb k c then r else s k.

Definition rndk (k : kind) (v : A) : A := match k with K32 => r32 v | _ => v end.

Definition bare (v : A) : Reg A := mkReg KBare v 0 0 [] [].
Definition null_reg (k : kind) : Reg A := mkReg k zero 0 0 [] [].   (* NewReal64(0.0) *)
Definition rd (s : St) (o : opd A) : Reg A := match o with Rg i => s i | Im v => bare v end.

Definition hget (h : list (list A)) (i j : nat) : A := nth j (nth i h []) zero.
Definition hset (h : list (list A)) (i j : nat) (v : A) : list (list A) :=
  upd_nth i (upd_nth j v (nth i h [])) h.

(* GetDerivative / GetHessian with their Order guards *)
Definition gd (r : Reg A) (i : nat) : A := if 1 <=? rorder r then nth i (rderiv r) zero else zero.
Definition gh (r : Reg A) (i j : nat) : A := if 2 <=? rorder r then hget (rhess r) i j else zero.

(* SetDerivative / SetHessian / setFloat64: raw stores, converted to the storage type *)
Definition set_d (r : Reg A) (i : nat) (v : A) : Reg A :=
  mkReg (rk r) (rval r) (rorder r) (rn r) (upd_nth i (rndk (rk r) v) (rderiv r)) (rhess r).
Definition set_h (r : Reg A) (i j : nat) (v : A) : Reg A :=
  mkReg (rk r) (rval r) (rorder r) (rn r) (rderiv r) (hset (rhess r) i j (rndk (rk r) v)).
Definition set_v (r : Reg A) (v : A) : Reg A :=
  mkReg (rk r) (rndk (rk r) v) (rorder r) (rn r) (rderiv r) (rhess r).

(* func (a *Real64) Alloc(n, order int): nothing happens when N and Order are
   unchanged (old content stays!), otherwise fresh zeroed storage; at order 0
   the Hessian slice is left as it is. *)
Definition alloc (r : Reg A) (n order : nat) : Reg A :=
  if Nat.eqb (rn r) n && Nat.eqb (rorder r) order then r else
  mkReg (rk r) (rval r) order n
        (if 1 <=? order then repeat zero n else [])
        (if 1 <=? order then (if 2 <=? order then repeat (repeat zero n) n else []) else rhess r).

Definition alloc_for_one (c : nat) (a : opd A) (s : St) : St :=
  upd s c (alloc (s c) (rn (rd s a)) (rorder (rd s a))).
Definition alloc_for_two (c : nat) (a b : opd A) (s : St) : St :=
  upd s c (alloc (s c) (Nat.max (rn (rd s a)) (rn (rd s b))) (Nat.max (rorder (rd s a)) (rorder (rd s b)))).

(* ------------------------------------------------------- chain-rule combinators *)
(* c.SetHessian(i,j, a.D(i)*a.D(j)*v2 + a.H(i,j)*v1); c.SetHessian(j,i, c.GetHessian(i,j)) *)
Definition mon_hstep (c : nat) (a : opd A) (v1 v2 : A) (s : St) (p : nat * nat) : St :=
  let '(i, j) := p in
  let v := gd (rd s a) i * gd (rd s a) j * v2 + gh (rd s a) i j * v1 in
  let s1 := upd s c (set_h (s c) i j v) in
  upd s1 c (set_h (s1 c) j i (gh (s1 c) i j)).
Definition mon_gstep (c : nat) (a : opd A) (v1 : A) (s : St) (i : nat) : St :=
  upd s c (set_d (s c) i (gd (rd s a) i * v1)).

(* monadic / monadicLazy / realMonadic / realMonadicLazy.  f1, f2 are the
   coefficient closures (pure), forced where Go forces them. *)
Definition monadic_lazy (c : nat) (a : opd A) (v0 : A) (f1 f2 : unit -> A) (s : St) : res St :=
  let s := alloc_for_one c a s in
  let o := rorder (s c) in
  let n := rn (s c) in
  let s :=
    if 1 <=? o then
      let v1 := f1 tt in
      let s := if 2 <=? o then let v2 := f2 tt in fold_left (mon_hstep c a v1 v2) (upairs n) s else s in
      fold_left (mon_gstep c a v1) (seq 0 n) s
    else s in
  Ok (upd s c (set_v (s c) v0)).
Definition monadic (c : nat) (a : opd A) (v0 v1 v2 : A) : St -> res St :=
  monadic_lazy c a v0 (fun _ => v1) (fun _ => v2).

Definition dy_hstep (c : nat) (a b : opd A) (v10 v01 v11 v20 v02 : A) (s : St) (p : nat * nat) : St :=
  let '(i, j) := p in
  let ra := rd s a in let rb := rd s b in
  let v := gh ra i j * v10 + gh rb i j * v01
           + gd ra i * gd ra j * v20 + gd rb i * gd rb j * v02
           + gd ra i * gd rb j * v11 + gd rb i * gd ra j * v11 in
  let s1 := upd s c (set_h (s c) i j v) in
  upd s1 c (set_h (s1 c) j i (gh (s1 c) i j)).
Definition dy_gstep (c : nat) (a b : opd A) (v10 v01 : A) (s : St) (i : nat) : St :=
  upd s c (set_d (s c) i (gd (rd s a) i * v10 + gd (rd s b) i * v01)).

(* Go panics inside the combinator iff (given the storage invariant):
   explicit panic when both operands are magic with different N; index out of
   range when a magic operand has fewer slots than the receiver got. *)
Definition dy_guard (ra rb : Reg A) : option err :=
  let n := Nat.max (rn ra) (rn rb) in
  let o := Nat.max (rorder ra) (rorder rb) in
  if 1 <=? o then
    if (1 <=? rorder ra) && (1 <=? rorder rb) && negb (Nat.eqb (rn ra) (rn rb)) then Some EDiffN
    else if ((1 <=? rorder ra) && (rn ra <? n)) || ((1 <=? rorder rb) && (rn rb <? n)) then Some EIndex
    else None
  else None.

Definition dyadic_lazy (c : nat) (a b : opd A) (v0 : A) (f1 : unit -> A * A) (f2 : unit -> A * A * A)
           (s : St) : res St :=
  let s := alloc_for_two c a b s in
  (* the checks happen AFTER AllocForTwo: a receiver that is itself an operand has already been resized *)
  match dy_guard (rd s a) (rd s b) with Some e => Panic e | None =>
  let o := rorder (s c) in
  let n := rn (s c) in
  let s :=
    if 1 <=? o then
      let '(v10, v01) := f1 tt in
      let s := if 2 <=? o then
                 let '(v11, v20, v02) := f2 tt in
                 fold_left (dy_hstep c a b v10 v01 v11 v20 v02) (upairs n) s
               else s in
      fold_left (dy_gstep c a b v10 v01) (seq 0 n) s
    else s in
  Ok (upd s c (set_v (s c) v0))
  end.
Definition dyadic (c : nat) (a b : opd A) (v0 v10 v01 v11 v20 v02 : A) : St -> res St :=
  dyadic_lazy c a b v0 (fun _ => (v10, v01)) (fun _ => (v11, v20, v02)).

(* ----------------------------------------------- table of scalar operations *)
(* value v0 and coefficient closures f1, f2 of scalar_real64_math.go, as
   functions of x = a.GetFloat64(); float operation order as in the Go text. *)
Definition two : A := lit 2.
Definition sumk (f : A -> A) (x : A) (k : nat) : A :=   (* s := 0.0; for j := 1..k { s += f(x + float64(1-j)/2.0) } *)
  fold_left (fun s j => s + f (x + lit (1 - Z.of_nat j) / two)) (seq 1 k) zero.

Definition m_v0 (op : mop A) (x : A) : A :=
  match op with
  | ONeg => - x
  | OSin => fSin F x | OSinh => fSinh F x | OCos => fCos F x | OCosh => fCosh F x
  | OTan => fTan F x | OTanh => fTanh F x | OExp => fExp F x | OLog => fLog F x
  | OLog1p => fLog1p F x | OErf => fErf F x | OErfc => fErfc F x | OLogErfc => fLogErfc F x
  | OGamma => fGamma F x
  | OLgamma => if Z.eqb (fLgammaSign F x) (-1) then fnan F else fLgamma F x
  | OMlgamma k => fMlgamma F x (Z.of_nat k)
  | OGammaP a => fGammaP F a x
  | OBesselI v => fBesselI F v x
  | OLogBesselI v => fLogBesselI F v x
  | OPowC y => fPow F x y
  end.

Definition m_f1 (op : mop A) (x : A) : A :=
  match op with
  | ONeg => lit (-1)
  | OSin => fCos F x | OSinh => fCosh F x | OCos => - fSin F x | OCosh => fSinh F x
  | OTan => one + fPowZ F (fTan F x) 2
  | OTanh => one - fPowZ F (fTanh F x) 2
  | OExp => fExp F x
  | OLog => one / x
  | OLog1p => one / (one + x)
  | OErf => two / (fExp F (x * x) * fSqrtPi F)
  | OErfc => lit (-2) / (fExp F (x * x) * fSqrtPi F)
  | OLogErfc => lit (-2) / (fExp F (x * x) * fSqrtPi F * fErfc F x)
  | OGamma => fGamma F x * fDigamma F x
  | OLgamma => fDigamma F x
  | OMlgamma k => sumk (fDigamma F) x k
  | OGammaP a => fGammaPd1 F a x
  | OBesselI v => fBesselI F (v - one) x - v / x * fBesselI F v x
  | OLogBesselI v => fExp F (fLogBesselI F (v - one) x - fLogBesselI F v x) - v / x
  | OPowC y => fPow F x (y - one) * y
  end.

Definition m_f2 (op : mop A) (x : A) : A :=
  match op with
  | ONeg => zero
  | OSin => - fSin F x | OSinh => fSinh F x | OCos => - fCos F x | OCosh => fCosh F x
  | OTan => two * fTan F x * m_f1 OTan x
  | OTanh => lit (-2) * fTanh F x * m_f1 OTanh x
  | OExp => fExp F x
  | OLog => lit (-1) / (x * x)
  | OLog1p => lit (-1) / ((one + x) * (one + x))
  | OErf => lit (-4) / (fExp F (x * x) * fSqrtPi F) * x
  | OErfc => lit 4 / (fExp F (x * x) * fSqrtPi F) * x
  | OLogErfc =>
      let t := fErfc F x in
      lit 4 * (fExp F (x * x) * fSqrtPi F * t * x - one) / (fExp F (two * x * x) * fPi F * t * t)
  | OGamma => fGamma F x * (fDigamma F x * fDigamma F x + fTrigamma F x)
  | OLgamma => fTrigamma F x
  | OMlgamma k => sumk (fTrigamma F) x k
  | OGammaP a => fGammaPd2 F a x
  | OBesselI v =>
      fofQ F (1 # 4) * (fBesselI F (v - two) x + two * fBesselI F v x + fBesselI F (v + two) x)
  | OLogBesselI v =>
      let v0 := fLogBesselI F v x in
      let v1 := fLogBesselI F (v - one) x in
      let v2 := fLogBesselI F (v - two) x in
      let v3 := fLogBesselI F (v + two) x in
      let t1 := fofQ F (1 # 4) * (fExp F (v2 - v0) + two + fExp F (v3 - v0)) in
      let t2 := fExp F (v1 - v0) - v / x in
      t1 - t2 * t2
  | OPowC y => fPow F x (y - two) * (y - one) * y
  end.

(* dyadic table: (v0, v10, v01, v11, v20, v02) as functions of x = a.value, y = b.value *)
Definition d_v0 (op : dop) (x y : A) : A :=
  match op with OAdd => x + y | OSub => x - y | OMul => x * y | ODiv => x / y | OPowV => fPow F x y end.
Definition d_f10 (op : dop) (x y : A) : A :=
  match op with OAdd => one | OSub => one | OMul => y | ODiv => one / y
              | OPowV => fPow F x (y - one) * y end.
Definition d_f01 (op : dop) (x y : A) : A :=
  match op with OAdd => one | OSub => lit (-1) | OMul => x | ODiv => - x / (y * y)
              | OPowV => fPow F x (y - zero) * fLog F x end.
Definition d_f11 (op : dop) (x y : A) : A :=
  match op with OAdd => zero | OSub => zero | OMul => one | ODiv => lit (-1) / (y * y)
              | OPowV => fPow F x (y - one) * (one + y * fLog F x) end.
Definition d_f20 (op : dop) (x y : A) : A :=
  match op with OAdd => zero | OSub => zero | OMul => zero | ODiv => zero
              | OPowV => fPow F x (y - two) * (y - one) * y end.
Definition d_f02 (op : dop) (x y : A) : A :=
  match op with OAdd => zero | OSub => zero | OMul => zero | ODiv => two * x / (y * y * y)
              | OPowV => fPow F x (y - zero) * fLog F x * fLog F x end.

Definition do_mon (op : mop A) (c : nat) (a : opd A) (s : St) : res St :=
  let x := rval (rd s a) in
  monadic_lazy c a (m_v0 op x) (fun _ => m_f1 op x) (fun _ => m_f2 op x) s.
Definition do_dy (op : dop) (c : nat) (a b : opd A) (s : St) : res St :=
  let x := rval (rd s a) in let y := rval (rd s b) in
  dyadic_lazy c a b (d_v0 op x y) (fun _ => (d_f10 op x y, d_f01 op x y))
              (fun _ => (d_f11 op x y, d_f20 op x y, d_f02 op x y)) s.
(* Pow: dyadic iff the exponent is magic with Order >= 1 *)
Definition do_pow (c : nat) (a k : opd A) (s : St) : res St :=
  if 1 <=? rorder (rd s k) then do_dy OPowV c a k s else do_mon (OPowC (rval (rd s k))) c a s.

(* ------------------------------------------------------- storage operations *)
Definition reset_derivs (r : Reg A) : Reg A :=
  if 1 <=? rorder r then
    mkReg (rk r) (rval r) (rorder r) (rn r)
          (fold_left (fun d i => upd_nth i zero d) (seq 0 (rn r)) (rderiv r))
          (if 2 <=? rorder r then fold_left (fun h p => hset h (fst p) (snd p) zero) (allpairs (rn r)) (rhess r)
           else rhess r)
  else r.
Definition do_reset (c : nat) (s : St) : res St :=
  let r := s c in
  Ok (upd s c (reset_derivs (mkReg (rk r) zero (rorder r) (rn r) (rderiv r) (rhess r)))).
Definition do_setf (c : nat) (v : A) (s : St) : res St :=
  Ok (upd s c (reset_derivs (set_v (s c) v))).

Definition square_ge (n : nat) (h : list (list A)) : bool :=
  (n <=? length h) && forallb (fun row => n <=? length row) (firstn n h).

(* func (a *Real64) Set(b ConstScalar) — and SET (HEAD d9fca78):
     a.Value = b.GetFloat64(); a.Alloc(b.GetN(), b.GetOrder()); a.Order = b.GetOrder(); copy loops.
   Alloc reallocates (zeroed) whenever N or Order differ and leaves Order = b's order, so the
   assignment after it changes nothing.  The length checks before the copy loops are Go's slice
   bounds; they never fire for a receiver satisfying the storage invariant. *)
Definition set_reg (c : nat) (b : opd A) (s : St) : res St :=
  let rb := rd s b in
  let r0 := s c in
  let r1 := mkReg (rk r0) (rndk (rk r0) (rval rb)) (rorder r0) (rn r0) (rderiv r0) (rhess r0) in
  let r2 := alloc r1 (rn rb) (rorder rb) in
  let n := rn rb in
  if 1 <=? rorder r2 then
    if negb (n <=? length (rderiv r2)) then Panic EIndex else
    (* the gradient is copied from the operand as it is BEFORE (aliasing c = b is the identity) *)
    let s1 := upd s c r2 in
    let s2 := fold_left (fun s i => upd s c (set_d (s c) i (gd (rd s b) i))) (seq 0 n) s1 in
    if 2 <=? rorder r2 then
      if negb (square_ge n (rhess r2)) then Panic EIndex else
      Ok (fold_left (fun s p => upd s c (set_h (s c) (fst p) (snd p) (gh (rd s b) (fst p) (snd p))))
                    (allpairs n) s2)
    else Ok s2
  else Ok (upd s c r2).

(* SetVariable(i, n, order), order <= 2.  HEAD 8241a1e: a.Alloc(n, order); a.ResetDerivatives(); Derivative[i] = 1 —
   a scalar that already has n variables at this order keeps its storage in Alloc, so the stale gradient / Hessian
   of an earlier computation is cleared explicitly *)
Definition set_variable (c i n order : nat) (s : St) : res St :=
  let r := reset_derivs (alloc (s c) n order) in
  if 1 <=? order then
    if i <? length (rderiv r) then Ok (upd s c (set_d r i one)) else Panic EIndex
  else Ok (upd s c r).

(* ------------------------------------------------------- composite programs *)
Definition sign_of (x : A) : Z :=
  if fltb F x zero then (-1)%Z else if fltb F zero x then 1%Z else 0%Z.
(* Greater/Smaller/Min/Max of a Real32 receiver compare GetFloat32() of both sides *)
Definition cmpv (k : kind) (x : A) : A := rndk k x.

Definition seqm (fs : list (St -> res St)) (s : St) : res St :=
  fold_left (fun m f => bind m f) fs (Ok s).

Definition do_min (c : nat) (a b : opd A) (s : St) : res St :=
  let k := rk (s c) in
  if fltb F (cmpv k (rval (rd s a))) (cmpv k (rval (rd s b))) then set_reg c a s else set_reg c b s.
Definition do_max (c : nat) (a b : opd A) (s : St) : res St :=
  let k := rk (s c) in
  if fltb F (cmpv k (rval (rd s b))) (cmpv k (rval (rd s a))) then set_reg c a s else set_reg c b s.
Definition do_abs (c : nat) (a : opd A) (s : St) : res St :=
  let sg := sign_of (rval (rd s a)) in
  if Z.eqb sg (-1) then do_mon ONeg c a s
  else if Z.eqb sg 0 then do_reset c s
  else set_reg c a s.
(* scalar_real64_math_concrete.go (HEAD 2fc8894): ABS switches on a.Sign() exactly like Abs (NEG / Reset / SET) *)
Definition do_ABS_concrete (c : nat) (a : opd A) (s : St) : res St := do_abs c a s.

Definition is_inf (x : A) : bool := fisinf F x 0.

(* LogAdd: a.Greater(b) is the method of a's type: a Real32 compares GetFloat32() of both sides *)
Definition do_logadd (c : nat) (a b : opd A) (t : nat) (s : St) : res St :=
  let ka := rk (rd s a) in
  let '(a, b) := if fltb F (rndk ka (rval (rd s b))) (rndk ka (rval (rd s a))) then (b, a) else (a, b) in
  if is_inf (rval (rd s a)) then set_reg c b s else
  seqm [do_dy OSub t a b; do_mon OExp t (Rg t); do_mon OLog1p t (Rg t); do_dy OAdd c (Rg t) b] s.
Definition do_logsub (c : nat) (a b : opd A) (t : nat) (s : St) : res St :=
  if fisinf F (rval (rd s b)) (-1) then set_reg c a s else
  seqm [do_dy OSub t b a; do_mon OExp t (Rg t); do_mon ONeg t (Rg t); do_mon OLog1p t (Rg t);
        do_dy OAdd c (Rg t) a] s.
Definition do_log1pexp (c : nat) (a : opd A) (s : St) : res St :=
  let v := rval (rd s a) in
  if fleb F v (lit (-37)) then do_mon OExp c a s
  else if fleb F v (lit 18) then seqm [do_mon OExp c a; do_mon OLog1p c (Rg c)] s
  else if fleb F v (fofQ F (333 # 10)) then
    (* HEAD 7035970: t := NewScalar(c.Type(), 0.0); t.Neg(a); t.Exp(t); c.Add(a, t).  The fresh object is a
       register id different from c and a, restored afterwards (it is garbage in Go). *)
    let t := S (Nat.max c (match a with Rg i => i | Im _ => 0 end)) in
    let saved := s t in
    match seqm [do_mon ONeg t a; do_mon OExp t (Rg t); do_dy OAdd c a (Rg t)] (upd s t (null_reg (rk (s c)))) with
    | Ok s' => Ok (upd s' t saved)
    | Panic e => Panic e
    end
  else set_reg c a s.
Definition do_sigmoid (c : nat) (a : opd A) (t : nat) (s : St) : res St :=
  if fleb F zero (rval (rd s a)) then
    seqm [do_mon ONeg c a; do_mon OExp c (Rg c); do_dy OAdd c (Rg c) (Im one); do_dy ODiv c (Im one) (Rg c)] s
  else
    seqm [do_mon OExp t a; set_reg c (Rg t); do_dy OAdd t (Rg t) (Im one); do_dy ODiv c (Rg c) (Rg t)] s.
Definition do_logistic (c : nat) (a : opd A) (s : St) : res St :=
  seqm [do_mon ONeg c a; do_mon OExp c (Rg c); do_dy OAdd c (Im one) (Rg c); do_dy ODiv c (Im one) (Rg c)] s.
Definition do_sqrt (c : nat) (a : opd A) (s : St) : res St := do_pow c a (Im (fofQ F (1 # 2))) s.

(* vector / matrix reductions; xs are the elements x.ConstAt(i) in iteration order *)
Definition do_smoothmax (r : nat) (xs : list (opd A)) (alpha : A) (t0 t1 : nat) (s : St) : res St :=
  let body x := [do_dy OMul t0 (Im alpha) x; do_mon OExp t0 (Rg t0); do_dy OAdd t1 (Rg t1) (Rg t0);
                 do_dy OMul t0 (Rg t0) x; do_dy OAdd r (Rg r) (Rg t0)] in
  seqm ([do_reset r; do_reset t1] ++ flat_map body xs ++ [do_dy ODiv r (Rg r) (Rg t1)]) s.
Definition do_logsmoothmax (r : nat) (xs : list (opd A)) (alpha : A) (t0 t1 t2 : nat) (s : St) : res St :=
  let body x := [do_dy OMul t0 x (Im alpha); do_logadd t2 (Rg t2) (Rg t0) t1; do_mon OLog t1 x;
                 do_dy OAdd t0 (Rg t0) (Rg t1); do_logadd r (Rg r) (Rg t0) t1] in
  seqm ([do_setf r (finf F (-1)); do_setf t2 (finf F (-1))] ++ flat_map body xs ++
        [do_dy OSub r (Rg r) (Rg t2); do_mon OExp r (Rg r)]) s.
Definition do_vmean (r : nat) (xs : list (opd A)) (s : St) : res St :=
  seqm ([do_reset r] ++ map (fun x => do_dy OAdd r (Rg r) x) xs ++
        [do_dy ODiv r (Rg r) (Im (lit (Z.of_nat (length xs))))]) s.
Definition do_vdotv (r : nat) (xs ys : list (opd A)) (t : nat) (s : St) : res St :=
  let s := upd s t (null_reg (rk (s r))) in
  seqm ([do_reset r] ++ flat_map (fun xy => [do_dy OMul t (fst xy) (snd xy); do_dy OAdd r (Rg r) (Rg t)])
                                 (combine xs ys)) s.
Definition do_vnorm (r : nat) (xs : list (opd A)) (t : nat) (s : St) : res St :=
  let s := upd s t (null_reg (rk (s r))) in
  seqm ([do_reset r] ++ flat_map (fun x => [do_pow t x (Im two); do_dy OAdd r (Rg r) (Rg t)]) xs ++
        [do_sqrt r (Rg r)]) s.
Definition do_mtrace (r : nat) (diag : list (opd A)) (s : St) : res St :=
  seqm ([do_reset r] ++ map (fun x => do_dy OAdd r (Rg r) x) diag) s.
(* "Frobenius norm" as coded: sum of squares, no square root *)
Definition do_mnorm (r : nat) (xs : list (opd A)) (t : nat) (s : St) : res St :=
  let s := upd s t (null_reg (rk (s r))) in
  match xs with
  | [] => Ok s
  | x0 :: rest =>
      seqm (do_pow r x0 (Im two) :: flat_map (fun x => [do_pow t x (Im two); do_dy OAdd r (Rg r) (Rg t)]) rest) s
  end.

Definition exec (i : instr A) : St -> res St :=
  match i with
  | IMon op c a => do_mon op c a
  | IDy op c a b => do_dy op c a b
  | IPow c a k => do_pow c a k
  | ISet c b => set_reg c b
  | IReset c => do_reset c
  | ISetF c v => do_setf c v
  | ISetVar c i n o => set_variable c i n o
  | IMin c a b => do_min c a b
  | IMax c a b => do_max c a b
  | IAbs c a => do_abs c a
  | IABSc c a => do_ABS_concrete c a
  | ILogAdd c a b t => do_logadd c a b t
  | ILogSub c a b t => do_logsub c a b t
  | ILog1pExp c a => do_log1pexp c a
  | ISigmoid c a t => do_sigmoid c a t
  | ILogistic c a => do_logistic c a
  | ISqrt c a => do_sqrt c a
  | ISmoothMax r xs al t0 t1 => do_smoothmax r xs al t0 t1
  | ILogSmoothMax r xs al t0 t1 t2 => do_logsmoothmax r xs al t0 t1 t2
  | IVmean r xs => do_vmean r xs
  | IVdotV r xs ys t => do_vdotv r xs ys t
  | IVnorm r xs t => do_vnorm r xs t
  | IMtrace r d => do_mtrace r d
  | IMnorm r xs t => do_mnorm r xs t
  end.

Definition run (p : list (instr A)) (s : St) : res St := seqm (map exec p) s.

End Model.
