(* C01/ProofsSpecial.v — coefficient correctness of the special-function entries of the
   operation table RELATIVE to the defining relations of the special functions (Section
   hypotheses; no axioms): f1, f2 of scalar_real64_math.go are the first and second
   derivative of the value GIVEN

     LogErfc   ln erfc x, erfc' = -2 exp(-x^2)/sqrt(pi), erfc > 0
     Mlgamma   ln Gamma_k(x) = k(k-1)/4 ln pi + sum_{j=1..k} ln Gamma(x + (1-j)/2),  (ln Gamma)' = psi, psi' = psi_1
     GammaP    the two derivative routines are the derivatives of P(a, .)
     BesselI   the recurrences  I_v' = I_{v-1} - (v/x) I_v  and  I_v' = (I_{v-1} + I_{v+1})/2

   For LogErfc the second derivative is also given in the overflow-free form
   -2 x f1 - f1^2: this is what the known finding F-LOGERFC-D2 violates (the coded
   expression divides by exp(2x^2)*pi*erfc(x)^2, which is +Inf * 0 in binary64 for
   x >= 18.84, although the quotient is a modest number close to -2). *)
From Coq Require Import Reals ZArith QArith Qreals List Lra Lia.
From Coquelicot Require Import Coquelicot.
From ADV Require Import Base.Fl Base.Num C01.Model C01.ModelR C01.ProofsCoef.
Import ListNotations.
Open Scope R_scope.

Lemma is_derive_ln_pos y : 0 < y -> is_derive ln y (/ y).
Proof. intro H. auto_derive; [exact H|field; lra]. Qed.

Section LogErfc.
Variable S : Special.
Notation F := (FlR S).
Hypothesis erfc_deriv : forall x, is_derive (sErfc S) x (- (2 / sqrt PI * exp (- (x * x)))).
Hypothesis erfc_pos : forall x, 0 < sErfc S x.
Hypothesis logerfc_def : forall x, sLogErfc S x = ln (sErfc S x).

Lemma logerfc_first x : is_derive (m_v0 F OLogErfc) x (m_f1 F OLogErfc x).
Proof.
  pose proof sqrtPI_pos as Hp. pose proof (exp_pos (x * x)) as He. pose proof (erfc_pos x) as Ht.
  cbn [m_v0 m_f1 FlR fLogErfc fErfc fExp fmul fdiv fSqrtPi lit fofZ].
  apply (is_derive_ext (fun t => ln (sErfc S t))); [intro t; symmetry; apply logerfc_def|].
  pose proof (is_derive_comp ln (sErfc S) x (/ sErfc S x) _ (is_derive_ln_pos _ Ht) (erfc_deriv x)) as H.
  replace (-2 / (exp (x * x) * sqrt PI * sErfc S x)) with (scal (- (2 / sqrt PI * exp (- (x * x)))) (/ sErfc S x)); [exact H|].
  unfold scal; cbn. unfold mult; cbn. rewrite exp_Ropp. field. repeat split; lra.
Qed.

Lemma logerfc_second x : is_derive (m_f1 F OLogErfc) x (m_f2 F OLogErfc x).
Proof.
  pose proof sqrtPI_pos as Hp. pose proof (exp_pos (x * x)) as He. pose proof (erfc_pos x) as Ht.
  assert (Hpi : sqrt PI * sqrt PI = PI) by (apply sqrt_sqrt; left; apply PI_RGT_0).
  cbn [m_f1 m_f2 FlR fLogErfc fErfc fExp fmul fdiv fsub fSqrtPi fPi lit one two fofZ].
  (* denominator D(t) = exp(t^2) sqrt(pi) erfc t *)
  set (D := fun t => exp (t * t) * sqrt PI * sErfc S t).
  assert (HD : is_derive D x (2 * x * exp (x * x) * sqrt PI * sErfc S x - 2)).
  { unfold D.
    assert (H1 : is_derive (fun t => exp (t * t) * sqrt PI) x (2 * x * exp (x * x) * sqrt PI)) by (auto_derive; [exact I|ring]).
    pose proof (is_derive_mult _ _ x _ _ H1 (erfc_deriv x) Rmult_comm) as H.
    eapply is_derive_ext; [|match goal with |- is_derive _ _ ?v => replace v with
      (plus (mult (2 * x * exp (x * x) * sqrt PI) (sErfc S x)) (mult (exp (x * x) * sqrt PI) (- (2 / sqrt PI * exp (- (x * x)))))) end; [exact H|]].
    - intro t. reflexivity.
    - unfold plus, mult; cbn. rewrite exp_Ropp. field. split; lra. }
  assert (HDx : D x <> 0) by (unfold D; apply Rgt_not_eq; repeat apply Rmult_lt_0_compat; lra).
  assert (Hq : is_derive (fun t => -2 / D t) x (- (-2) * (2 * x * exp (x * x) * sqrt PI * sErfc S x - 2) / (D x * D x))).
  { pose proof (is_derive_inv D x _ HD HDx) as Hi.
    pose proof (is_derive_scal (fun t => / D t) x (-2) _ Hi) as Hs.
    eapply is_derive_ext; [|match goal with |- is_derive _ _ ?v => replace v with
      (scal (-2) (- (2 * x * exp (x * x) * sqrt PI * sErfc S x - 2) / D x ^ 2)) end; [exact Hs|]].
    - intro t. cbn. unfold scal; cbn; unfold mult; cbn. unfold Rdiv. ring.
    - unfold scal; cbn; unfold mult; cbn. revert HDx. generalize (D x). intros d Hd. field. exact Hd. }
  eapply is_derive_ext; [|match goal with |- is_derive _ _ ?v => replace v with
    (- (-2) * (2 * x * exp (x * x) * sqrt PI * sErfc S x - 2) / (D x * D x)) end; [exact Hq|]].
  - intro t. reflexivity.
  - unfold D. replace (exp (2 * x * x)) with (exp (x * x) * exp (x * x)) by (rewrite <- exp_plus; f_equal; ring).
    set (sp := sqrt PI) in *. rewrite <- Hpi. field. repeat split; lra.
Qed.

Theorem logerfc_ok x : m_ok S OLogErfc x.
Proof. split; [apply logerfc_first|apply logerfc_second]. Qed.

(* d/dx ln erfc x = -2 exp(-x^2) / (sqrt(pi) erfc x) *)
Lemma logerfc_f1_closed x : m_f1 F OLogErfc x = - 2 * exp (- (x * x)) / (sqrt PI * sErfc S x).
Proof.
  pose proof sqrtPI_pos as Hp. pose proof (exp_pos (x * x)) as He. pose proof (erfc_pos x) as Ht.
  cbn [m_f1 FlR fErfc fExp fmul fdiv fSqrtPi lit fofZ]. rewrite exp_Ropp. field. repeat split; lra.
Qed.
(* the second derivative without any overflowing sub-expression: f2 = -2 x f1 - f1^2 *)
Theorem logerfc_f2_overflow_free x :
  m_f2 F OLogErfc x = - 2 * x * m_f1 F OLogErfc x - m_f1 F OLogErfc x * m_f1 F OLogErfc x.
Proof.
  pose proof sqrtPI_pos as Hp. pose proof (exp_pos (x * x)) as He. pose proof (erfc_pos x) as Ht.
  assert (Hpi : sqrt PI * sqrt PI = PI) by (apply sqrt_sqrt; left; apply PI_RGT_0).
  cbn [m_f1 m_f2 FlR fLogErfc fErfc fExp fmul fdiv fsub fSqrtPi fPi lit one two fofZ].
  replace (exp (2 * x * x)) with (exp (x * x) * exp (x * x)) by (rewrite <- exp_plus; f_equal; ring).
  set (sp := sqrt PI) in *. rewrite <- Hpi. field. repeat split; lra.
Qed.
End LogErfc.

(* ------------------------------------------------------------------ Mlgamma *)
Section Mlgamma.
Variable S : Special.
Notation F := (FlR S).
Hypothesis lgamma_deriv : forall x, 0 < x -> is_derive (sLgamma S) x (sDigamma S x).
Hypothesis digamma_deriv : forall x, 0 < x -> is_derive (sDigamma S) x (sTrigamma S x).
(* ln Gamma_k(x) = k(k-1)/4 ln(pi) + sum_{j=1..k} ln Gamma(x + (1-j)/2) *)
Hypothesis mlgamma_def : forall x k, sMlgamma S x (Z.of_nat k) =
  INR k * (INR k - 1) / 4 * ln PI + sumk F (sLgamma S) x k.

Lemma sumk_derive (f f' : R -> R) (k : nat) x :
  (forall j, (1 <= j <= k)%nat -> is_derive f (x + IZR (1 - Z.of_nat j) / 2) (f' (x + IZR (1 - Z.of_nat j) / 2))) ->
  is_derive (fun t => sumk F f t k) x (sumk F f' x k).
Proof.
  unfold sumk. cbn [fadd fdiv FlR lit two zero fofZ].
  assert (G : forall l a a', (forall j, In j l -> is_derive f (x + IZR (1 - Z.of_nat j) / 2) (f' (x + IZR (1 - Z.of_nat j) / 2))) ->
              is_derive a x a' ->
              is_derive (fun t => fold_left (fun s j => s + f (t + IZR (1 - Z.of_nat j) / 2)) l (a t)) x
                        (fold_left (fun s j => s + f' (x + IZR (1 - Z.of_nat j) / 2)) l a')).
  { induction l as [|j l IH]; intros a a' Hl Ha; cbn [fold_left]; [exact Ha|].
    apply (IH (fun t => a t + f (t + IZR (1 - Z.of_nat j) / 2))); [intros; apply Hl; right; auto|].
    apply (is_derive_plus a (fun t => f (t + IZR (1 - Z.of_nat j) / 2))); [exact Ha|].
    assert (Hs : is_derive (fun t : R => t + IZR (1 - Z.of_nat j) / 2) x 1) by (auto_derive; [exact I|ring]).
    pose proof (is_derive_comp f (fun t => t + IZR (1 - Z.of_nat j) / 2) x _ _ (Hl j (or_introl eq_refl)) Hs) as H.
    unfold scal in H; cbn in H; unfold mult in H; cbn in H. rewrite Rmult_1_l in H. exact H. }
  intro H. apply (G (seq 1 k) (fun _ => 0) 0); [|exact (is_derive_const 0 x)].
  intros j Hj. apply in_seq in Hj. apply H. lia.
Qed.

Theorem mlgamma_ok k x : (forall j, (1 <= j <= k)%nat -> 0 < x + IZR (1 - Z.of_nat j) / 2) -> m_ok S (OMlgamma k) x.
Proof.
  intro Hd. split; cbn [m_v0 m_f1 m_f2 FlR fMlgamma fDigamma fTrigamma].
  - apply (is_derive_ext (fun t => INR k * (INR k - 1) / 4 * ln PI + sumk F (sLgamma S) t k)); [intro t; symmetry; apply mlgamma_def|].
    replace (sumk F (sDigamma S) x k) with (plus 0 (sumk F (sDigamma S) x k)) by (unfold plus; cbn; ring).
    apply (is_derive_plus (fun _ => INR k * (INR k - 1) / 4 * ln PI)); [exact (is_derive_const _ x)|].
    apply sumk_derive. intros j Hj. apply lgamma_deriv. apply Hd. exact Hj.
  - apply sumk_derive. intros j Hj. apply digamma_deriv. apply Hd. exact Hj.
Qed.
End Mlgamma.

(* ------------------------------------------------------------------ GammaP, BesselI *)
Section GammaBessel.
Variable S : Special.
Notation F := (FlR S).

(* GammaP: f1, f2 are library routines (special.GammaPfirstDerivative / SecondDerivative): correct iff those are *)
Theorem gammap_ok a x :
  is_derive (sGammaP S a) x (sGammaPd1 S a x) -> is_derive (sGammaPd1 S a) x (sGammaPd2 S a x) -> m_ok S (OGammaP a) x.
Proof. intros H1 H2. split; cbn [m_v0 m_f1 m_f2 FlR fGammaP fGammaPd1 fGammaPd2]; assumption. Qed.

(* modified Bessel functions of the first kind: the two classical recurrences *)
Hypothesis bessel_down : forall v x, 0 < x -> is_derive (sBesselI S v) x (sBesselI S (v - 1) x - v / x * sBesselI S v x).
Hypothesis bessel_mean : forall v x, 0 < x -> is_derive (sBesselI S v) x ((sBesselI S (v - 1) x + sBesselI S (v + 1) x) / 2).

Lemma besseli_first v x : 0 < x -> is_derive (m_v0 F (OBesselI v)) x (m_f1 F (OBesselI v) x).
Proof. intro H. cbn [m_v0 m_f1 FlR fBesselI fsub fdiv fmul one lit fofZ]. apply bessel_down. exact H. Qed.

(* f1 = I_{v-1} - (v/x) I_v = (I_{v-1} + I_{v+1})/2 (both are I_v'), so f1' = (I_{v-1}' + I_{v+1}')/2 =
   (I_{v-2} + 2 I_v + I_{v+2})/4 *)
Lemma besseli_second v x : 0 < x -> is_derive (m_f1 F (OBesselI v)) x (m_f2 F (OBesselI v) x).
Proof.
  intro H. cbn [m_f1 m_f2 FlR fBesselI fsub fadd fdiv fmul one two lit fofZ fofQ].
  apply (is_derive_ext_loc (fun t => (sBesselI S (v - 1) t + sBesselI S (v + 1) t) / 2)).
  { assert (Hl : locally x (fun t => 0 < t)).
    { exists (mkposreal x H). intros t Ht. unfold ball in Ht; cbn in Ht. unfold AbsRing_ball, abs, minus, plus, opp in Ht; cbn in Ht.
      apply Rabs_def2 in Ht. lra. }
    apply (filter_imp (fun t => 0 < t)); [|exact Hl]. intros t Ht.
    cbn [m_f1 FlR fBesselI fsub fdiv fmul one lit fofZ].
    rewrite <- (is_derive_unique _ _ _ (bessel_mean v t Ht)). apply is_derive_unique. apply bessel_down. exact Ht. }
  pose proof (bessel_mean (v - 1) x H) as H1. pose proof (bessel_mean (v + 1) x H) as H2.
  replace (v - 1 - 1) with (v - 2) in H1 by ring. replace (v - 1 + 1) with v in H1 by ring.
  replace (v + 1 - 1) with v in H2 by ring. replace (v + 1 + 1) with (v + 2) in H2 by ring.
  pose proof (is_derive_plus _ _ _ _ _ H1 H2) as Hp.
  pose proof (is_derive_scal _ x (/ 2) _ Hp) as Hs.
  eapply is_derive_ext; [|match goal with |- is_derive _ _ ?w => replace w with
    (scal (/ 2) (plus ((sBesselI S (v - 2) x + sBesselI S v x) / 2) ((sBesselI S v x + sBesselI S (v + 2) x) / 2))) end; [exact Hs|]].
  - intro t. unfold scal, plus; cbn. unfold mult; cbn. field.
  - unfold scal, plus; cbn. unfold mult; cbn. unfold Q2R; cbn. field.
Qed.

Theorem besseli_ok v x : 0 < x -> m_ok S (OBesselI v) x.
Proof. intro H. split; [apply besseli_first|apply besseli_second]; exact H. Qed.
End GammaBessel.
