(* C01/ProofsRefuted.v — defects of the unchanged library that the faithful model exhibits. *)
From Coq Require Import Reals ZArith List Lra Lia.
From ADV Require Import Base.Fl Base.Num C01.Model C01.ModelR.
Import ListNotations.
Open Scope R_scope.

(* F-SETORD: x.Set(y), x of order 1 and y of order 2 over the same two variables *)
Definition st_setord : St (A := R) :=
  upd (upd stR0 0 (mkReg K64 1 1 2 [1; 0] [])) 1 (mkReg K64 3 2 2 [1; 0] [[0; 0]; [0; 0]]).
Lemma set_order_before_alloc_refuted : set_reg (FlR Sp0) idR 0 (Rg 1) st_setord = Panic EIndex.
Proof. reflexivity. Qed.

(* F-ABSC: the concrete ABS looks at the receiver's sign: c = 0, a = -2 gives -2 *)
Definition st_absc : St (A := R) := upd (upd stR0 0 (mkReg K64 0 0 0 [] [])) 1 (mkReg K64 (-2) 0 0 [] []).
Lemma abs_concrete_refuted :
  exists s', do_ABS_concrete (FlR Sp0) idR 0 (Rg 1) st_absc = Ok s' /\ rval (s' 0%nat) = -2.
Proof.
  unfold do_ABS_concrete, sign_of. cbn [st_absc upd Nat.eqb rval stR0 FlR fltb zero lit fofZ].
  unfold Rltb. destruct (Rlt_dec 0 0) as [H|H]; [lra|].
  cbn [Z.eqb]. eexists. split; [reflexivity|]. reflexivity.
Qed.
