(* C01/ProofsRefuted.v — former defects of the library on the model.
   F-SETORD (Set assigned Order before Alloc) and F-ABSC (concrete ABS tested the
   receiver's sign) were fixed in /repo (d9fca78, 2fc8894); the model follows HEAD and
   the former witnesses now behave: kept here as regression lemmas. *)
From Coq Require Import Reals ZArith List Lra Lia.
From ADV Require Import Base.Fl Base.Num C01.Model C01.ModelR.
Import ListNotations.
Open Scope R_scope.

(* x.Set(y), x of order 1 and y of order 2 over the same two variables: used to panic *)
Definition st_setord : St (A := R) :=
  upd (upd stR0 0 (mkReg K64 1 1 2 [1; 0] [])) 1 (mkReg K64 3 2 2 [0; 1] [[0; 0]; [0; 5]]).
Lemma set_order_witness_fixed :
  exists s', set_reg (FlR Sp0) idR 0 (Rg 1) st_setord = Ok s' /\
             rorder (s' 0%nat) = 2%nat /\ rn (s' 0%nat) = 2%nat /\ rval (s' 0%nat) = 3 /\
             rderiv (s' 0%nat) = [0; 1] /\ rhess (s' 0%nat) = [[0; 0]; [0; 5]].
Proof. eexists. split; [reflexivity|]. repeat split; reflexivity. Qed.

(* the concrete ABS is the generic Abs *)
Lemma abs_concrete_is_abs : forall S c a (s : St (A := R)),
  do_ABS_concrete (FlR S) idR c a s = do_abs (FlR S) idR c a s.
Proof. reflexivity. Qed.
