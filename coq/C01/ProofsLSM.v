(* C01/ProofsLSM.v — LogSmoothMax.

   r.LogSmoothMax(x, alpha, t) starts its two log-sum accumulators r and t[2] at -Inf; the first LogAdd onto each is the
   `IsInf` short cut (a plain Set).  The reals have no infinities, so the statement comes in two halves:

   (1) for EVERY carrier that satisfies three laws about -Inf (float32(-Inf) = -Inf, nothing is smaller than -Inf,
       IsInf(-Inf, 0)) — the binary64 replay carrier does: C01/ProofsLSMF.v — and every non-empty vector, the model
       program do_logsmoothmax IS the PEELED program in which the two first LogAdd calls are the Set they reduce to and
       every later iteration is unchanged;
   (2) over the reals, the peeled program leaves in r the jet of
         exp( LSE_i (alpha x_i + ln x_i) - LSE_i (alpha x_i) ),   LSE = the left fold of ln(exp a + exp b),
       value, gradient and Hessian, for any admissible receiver / temporaries (reused or fresh), and its value is
       (sum_i x_i exp(alpha x_i)) / (sum_i exp(alpha x_i)) on positive elements.

   Also here: LogAdd for ANY receiver — the accumulator pattern c.LogAdd(c, b, t) included (logadd_program needed the
   receiver to be different from both operands). *)
From Coq Require Import Reals ZArith QArith Qreals List Bool Arith Lia Lra.
From Coquelicot Require Import Coquelicot.
From ADV Require Import Base.Fl Base.Num C01.Model C01.ModelR C01.Spec C01.ProofsList C01.ProofsComb C01.ProofsStore
     C01.ProofsOps C01.ProofsCoef C01.ProofsProg C01.ModelVariants C01.ProofsAlias C01.ProofsRed C01.ProofsSmooth C01.ProofsSeq.
Import ListNotations.
Local Arguments Nat.leb : simpl never.
Local Arguments Nat.eqb : simpl never.
Local Arguments Nat.ltb : simpl never.

(* ================================================================== (1) every carrier *)
Section Peel.
Context {A : Type} (F : Fl A) (r32 : A -> A).
Notation StA := (@St A).

Definition inf_laws : Prop :=
  r32 (finf F (-1)) = finf F (-1) /\ (forall x, fltb F x (finf F (-1)) = false) /\ fisinf F (finf F (-1)) 0 = true.

Definition lsm_body (r : nat) (alpha : A) (t0 t1 t2 : nat) (x : opd A) : list (StA -> res StA) :=
  [do_dy F r32 OMul t0 x (Im alpha); do_logadd F r32 t2 (Rg t2) (Rg t0) t1; do_mon F r32 OLog t1 x;
   do_dy F r32 OAdd t0 (Rg t0) (Rg t1); do_logadd F r32 r (Rg r) (Rg t0) t1].
Definition lsm_first (r : nat) (alpha : A) (t0 t1 t2 : nat) (x : opd A) : list (StA -> res StA) :=
  [do_dy F r32 OMul t0 x (Im alpha); set_reg F r32 t2 (Rg t0); do_mon F r32 OLog t1 x;
   do_dy F r32 OAdd t0 (Rg t0) (Rg t1); set_reg F r32 r (Rg t0)].
Definition lsm_pre (r t2 : nat) : list (StA -> res StA) := [do_setf F r32 r (finf F (-1)); do_setf F r32 t2 (finf F (-1))].
Definition lsm_post (r t2 : nat) : list (StA -> res StA) := [do_dy F r32 OSub r (Rg r) (Rg t2); do_mon F r32 OExp r (Rg r)].

Definition do_logsmoothmax_peeled (r : nat) (x0 : opd A) (rest : list (opd A)) (alpha : A) (t0 t1 t2 : nat) (s : StA) : res StA :=
  seqm (lsm_pre r t2 ++ (lsm_first r alpha t0 t1 t2 x0 ++ flat_map (lsm_body r alpha t0 t1 t2) rest) ++ lsm_post r t2) s.

Lemma rndk_neg_inf k : inf_laws -> rndk r32 k (finf F (-1)) = finf F (-1).
Proof. intros [H _]. destruct k; [reflexivity|exact H|reflexivity]. Qed.

Lemma rval_reset_derivs (x : Reg A) : rval (reset_derivs F x) = rval x.
Proof. unfold reset_derivs. destruct (1 <=? rorder x); reflexivity. Qed.

(* LogAdd onto an accumulator that holds -Inf is a Set, whatever the other operand is *)
Lemma logadd_onto_neg_inf c b t (s : StA) : inf_laws ->
  rval (s c) = finf F (-1) -> do_logadd F r32 c (Rg c) b t s = set_reg F r32 c b s.
Proof.
  intros L V. apply logadd_inf_shortcut; cbn [rd]; rewrite V.
  - rewrite (rndk_neg_inf _ L). destruct L as [_ [L2 _]]. apply L2.
  - destruct L as [_ [_ L3]]. exact L3.
Qed.

Theorem logsmoothmax_is_peeled r x0 rest alpha t0 t1 t2 (s : StA) : inf_laws ->
  r <> t0 -> r <> t1 -> r <> t2 -> t2 <> t0 ->
  do_logsmoothmax F r32 r (x0 :: rest) alpha t0 t1 t2 s = do_logsmoothmax_peeled r x0 rest alpha t0 t1 t2 s.
Proof.
  intros L N0 N1 N2 N20.
  change (do_logsmoothmax F r32 r (x0 :: rest) alpha t0 t1 t2 s) with
    (seqm (lsm_pre r t2 ++ (lsm_body r alpha t0 t1 t2 x0 ++ flat_map (lsm_body r alpha t0 t1 t2) rest) ++ lsm_post r t2) s).
  unfold do_logsmoothmax_peeled. rewrite !seqm_app'. unfold lsm_pre.
  (* the prologue always succeeds *)
  set (ra := reset_derivs F (set_v r32 (s r) (finf F (-1)))).
  set (sa := upd s r ra).
  set (sb := upd sa t2 (reset_derivs F (set_v r32 (sa t2) (finf F (-1))))).
  assert (Epre : seqm [do_setf F r32 r (finf F (-1)); do_setf F r32 t2 (finf F (-1))] s = Ok sb) by reflexivity.
  rewrite Epre. cbn [bind].
  assert (Vr : rval (sb r) = finf F (-1)).
  { unfold sb. unfold upd at 1. apply Nat.eqb_neq in N2. rewrite N2. unfold sa, upd. rewrite Nat.eqb_refl.
    unfold ra. rewrite rval_reset_derivs. cbn [set_v rval]. apply rndk_neg_inf. exact L. }
  assert (Vt : rval (sb t2) = finf F (-1)).
  { unfold sb, upd. rewrite Nat.eqb_refl. rewrite rval_reset_derivs. cbn [set_v rval]. apply rndk_neg_inf. exact L. }
  clearbody sb. clear Epre.
  (* the first iteration *)
  assert (Hx : seqm (lsm_body r alpha t0 t1 t2 x0) sb = seqm (lsm_first r alpha t0 t1 t2 x0) sb);
    [|rewrite !seqm_app', Hx; reflexivity].
  unfold lsm_body, lsm_first. rewrite !seqm_cons.
  destruct (do_dy F r32 OMul t0 x0 (Im alpha) sb) as [s1|e] eqn:E1; [|reflexivity]. cbn [bind].
  pose proof (do_dy_only F r32 _ _ _ _ _ _ E1) as F1.
  rewrite !seqm_cons.
  rewrite (logadd_onto_neg_inf t2 (Rg t0) t1 s1 L) by (rewrite F1 by auto; exact Vt).
  destruct (set_reg F r32 t2 (Rg t0) s1) as [s2|e] eqn:E2; [|reflexivity]. cbn [bind].
  pose proof (set_reg_only F r32 _ _ _ _ E2) as F2.
  rewrite !seqm_cons.
  destruct (do_mon F r32 OLog t1 x0 s2) as [s3|e] eqn:E3; [|reflexivity]. cbn [bind].
  pose proof (do_mon_only F r32 _ _ _ _ _ E3) as F3.
  rewrite !seqm_cons.
  destruct (do_dy F r32 OAdd t0 (Rg t0) (Rg t1) s3) as [s4|e] eqn:E4; [|reflexivity]. cbn [bind].
  pose proof (do_dy_only F r32 _ _ _ _ _ _ E4) as F4.
  rewrite !seqm_cons.
  rewrite (logadd_onto_neg_inf r (Rg t0) t1 s4 L) by (rewrite F4, F3, F2, F1 by auto; exact Vr).
  reflexivity.
Qed.
End Peel.

(* ================================================================== (2) the reals *)
Open Scope R_scope.
Section LSM.
Variable S : Special.
Notation F := (FlR S).
Notation StR := (@St R).

Ltac unfold_jets :=
  cbn [jdy jmon jconst jv jg jh m_v0 m_f1 m_f2 d_v0 d_f10 d_f01 d_f11 d_f20 d_f02 FlR
       fneg fExp fLog fLog1p fadd fsub fdiv fmul fofZ fofQ fPow one two zero lit].

(* ------------------------------------------------------------------ LogAdd for ANY receiver *)
Lemma logadd_core_any n o c a b t (s : StR) A B :
  wf (s c) -> wf (s t) -> t <> c -> not_reg a t -> not_reg b t ->
  rep S n o (rd s a) A -> rep S n o (rd s b) B ->
  exists s', seqm [do_dy F idR OSub t a b; do_mon F idR OExp t (Rg t); do_mon F idR OLog1p t (Rg t);
                   do_dy F idR OAdd c (Rg t) b] s = Ok s' /\
    (forall q, q <> c -> q <> t -> s' q = s q) /\ wf (s' t) /\ rep S n o (s' c) (logadd_jet A B).
Proof.
  intros Hwc Hwt Htc Hat Hbt RA RB.
  destruct (rep_dy_any S n o OSub t a b s A B Hwt RA RB) as [s1 [E1 [F1 [_ [R1 _]]]]].
  destruct (rep_mon S n o OExp t (Rg t) s1 _ (rep_wf _ _ _ _ _ R1) R1) as [s2 [E2 [F2 [_ [R2 _]]]]].
  destruct (rep_mon S n o OLog1p t (Rg t) s2 _ (rep_wf _ _ _ _ _ R2) R2) as [s3 [E3 [F3 [_ [R3 _]]]]].
  assert (Hc3 : s3 c = s c) by (rewrite F3, F2, F1; auto).
  assert (Eb3 : rd s3 b = rd s b).
  { destruct b as [k|v]; cbn [rd]; [|reflexivity]. assert (k <> t) by (apply Hbt; reflexivity). rewrite F3, F2, F1; auto. }
  destruct (rep_dy_any S n o OAdd c (Rg t) b s3 _ B ltac:(rewrite Hc3; exact Hwc) R3 ltac:(rewrite Eb3; exact RB))
    as [s4 [E4 [F4 [_ [R4 _]]]]].
  exists s4. split.
  { rewrite (seqm_step _ _ _ _ E1), (seqm_step _ _ _ _ E2), (seqm_step _ _ _ _ E3), (seqm_step _ _ _ _ E4). apply seqm_nil. }
  split; [intros q Hqc Hqt; rewrite F4, F3, F2, F1; auto|].
  split; [rewrite F4 by auto; exact (rep_wf _ _ _ _ _ R3)|].
  eapply rep_jeq; [exact R4|].
  set (x := jv A). set (y := jv B).
  pose proof (exp_pos (x - y)) as Hu.
  unfold logadd_jet, jeq. fold x y. unfold_jets. fold x y. unfold sigm.
  replace (- (y - x)) with (x - y) by ring. rewrite exp_Ropp.
  split; [apply logadd_value|]. split.
  - intros _ i _. field. lra.
  - intros _ i j _ _. field. lra.
Qed.

Definition lse_step (A B : jet) : jet := if Rlt_dec (jv B) (jv A) then logadd_jet B A else logadd_jet A B.

Theorem logadd_any n o c a b t (s : StR) A B :
  wf (s c) -> wf (s t) -> t <> c -> not_reg a t -> not_reg b t ->
  rep S n o (rd s a) A -> rep S n o (rd s b) B ->
  exists s', do_logadd F idR c a b t s = Ok s' /\ (forall q, q <> c -> q <> t -> s' q = s q) /\ wf (s' t) /\
    rep S n o (s' c) (lse_step A B).
Proof.
  intros Hwc Hwt Htc Hat Hbt RA RB. unfold do_logadd, lse_step. rewrite !rndk_id.
  assert (Va : rval (rd s a) = jv A) by (destruct RA as [_ [_ [V _]]]; exact V).
  assert (Vb : rval (rd s b) = jv B) by (destruct RB as [_ [_ [V _]]]; exact V).
  rewrite Va, Vb. cbn [fltb FlR]. unfold Rltb. destruct (Rlt_dec (jv B) (jv A)); unfold is_inf; cbn [fisinf FlR];
    apply logadd_core_any; auto.
Qed.

(* the jet of ln(exp a + exp b) does not depend on which operand the program treats as the larger one *)
Lemma lse_step_slots A B :
  let w := sigm (jv A - jv B) * sigm (jv B - jv A) in
  jv (lse_step A B) = ln (exp (jv A) + exp (jv B)) /\
  (forall i, jg (lse_step A B) i = jg A i * sigm (jv A - jv B) + jg B i * sigm (jv B - jv A)) /\
  (forall i j, jh (lse_step A B) i j =
     jh A i j * sigm (jv A - jv B) + jh B i j * sigm (jv B - jv A)
     + w * (jg A i - jg B i) * (jg A j - jg B j)).
Proof.
  unfold lse_step, logadd_jet, logadd_fn. destruct (Rlt_dec (jv B) (jv A)); cbn [jdy jv jg jh].
  - split; [rewrite Rplus_comm; reflexivity|]. split; intros; ring.
  - split; [reflexivity|]. split; intros; ring.
Qed.

(* ------------------------------------------------------------------ the coefficients of logadd_jet are derivatives *)
(* along every differentiable curve (G, H) through (x, y): value ln(exp G + exp H), d/da = sigm(a - b), d/db = sigm(b - a)
   and their derivatives -w, w, w with w = sigm(x - y) sigm(y - x) — the curve form [d_curve] that ad_sound uses for the
   dyadic table entries, here for the composite LogAdd (a smooth function on the whole plane: no domain hypothesis) *)
Ltac fixD G' H' dG dH :=
  repeat match goal with
  | |- context [Derive ?g ?t] =>
      first [ replace (Derive g t) with G' by (symmetry; apply is_derive_unique; exact dG)
            | replace (Derive g t) with H' by (symmetry; apply is_derive_unique; exact dH) ]
  end.
Lemma logadd_along_curves x y (G H : R -> R) t0 G' H' :
  G t0 = x -> H t0 = y -> is_derive G t0 G' -> is_derive H t0 H' ->
  let w := sigm (x - y) * sigm (y - x) in
  is_derive (fun t => logadd_fn (G t) (H t)) t0 (G' * sigm (x - y) + H' * sigm (y - x)) /\
  is_derive (fun t => sigm (G t - H t)) t0 (G' * w + H' * (- w)) /\
  is_derive (fun t => sigm (H t - G t)) t0 (G' * (- w) + H' * w).
Proof.
  intros EG EH dG dH w. unfold w, logadd_fn, sigm.
  pose proof (exp_pos x) as Px. pose proof (exp_pos y) as Py.
  pose proof (exp_pos (- (x - y))) as P1. pose proof (exp_pos (- (y - x))) as P2.
  assert (E12 : exp (- (y - x)) = / exp (- (x - y))) by (rewrite <- exp_Ropp; f_equal; ring).
  split; [|split].
  - auto_derive; [rewrite ?EG, ?EH; repeat split; try (eexists; eassumption); lra|].
    fixD G' H' dG dH. rewrite ?EG, ?EH.
    replace (- (x - y)) with (y + - x) by ring. replace (- (y - x)) with (x + - y) by ring.
    rewrite !exp_plus, !exp_Ropp. field. repeat split; lra.
  - auto_derive; [rewrite ?EG, ?EH; unfold Rminus in P1; repeat split; try (eexists; eassumption); lra|].
    fixD G' H' dG dH. rewrite ?EG, ?EH. unfold Rminus in *. rewrite E12. field. lra.
  - auto_derive; [rewrite ?EG, ?EH; unfold Rminus in P2; repeat split; try (eexists; eassumption); lra|].
    fixD G' H' dG dH. rewrite ?EG, ?EH. unfold Rminus in *. rewrite E12. field. lra.
Qed.

(* ------------------------------------------------------------------ the peeled program *)
Definition jlog (A : jet) : jet := jmon (m_v0 F OLog (jv A)) (m_f1 F OLog (jv A)) (m_f2 F OLog (jv A)) A.
Definition jsub (A B : jet) : jet :=
  jdy (d_v0 F OSub (jv A) (jv B)) (d_f10 F OSub (jv A) (jv B)) (d_f01 F OSub (jv A) (jv B))
      (d_f11 F OSub (jv A) (jv B)) (d_f20 F OSub (jv A) (jv B)) (d_f02 F OSub (jv A) (jv B)) A B.
Definition lsm_den (alpha : R) (X : jet) : jet := jmul S X (jconst alpha).              (* alpha x *)
Definition lsm_num (alpha : R) (X : jet) : jet := jadd S (lsm_den alpha X) (jlog X).     (* alpha x + ln x *)

Definition frame4 (r t0 t1 t2 : nat) (s s' : StR) : Prop := forall q, q <> r -> q <> t0 -> q <> t1 -> q <> t2 -> s' q = s q.
Definition elt4 (n o r t0 t1 t2 : nat) (x : opd R) (J : jet) (s : StR) : Prop :=
  rep S n o (rd s x) J /\ not_reg x r /\ not_reg x t0 /\ not_reg x t1 /\ not_reg x t2.
Lemma elt4_stable n o r t0 t1 t2 x J s s' : frame4 r t0 t1 t2 s s' -> elt4 n o r t0 t1 t2 x J s -> elt4 n o r t0 t1 t2 x J s'.
Proof.
  intros Fr [R [Hr [H0 [H1 H2]]]]. split; [|auto].
  destruct x as [k|v]; cbn [rd] in *; [|exact R].
  rewrite Fr; [exact R|apply Hr|apply H0|apply H1|apply H2]; reflexivity.
Qed.
Lemma elt4_rd n o r t0 t1 t2 x J s s' : frame4 r t0 t1 t2 s s' -> elt4 n o r t0 t1 t2 x J s -> rep S n o (rd s' x) J.
Proof. intros Fr E. exact (proj1 (elt4_stable _ _ _ _ _ _ _ _ _ _ Fr E)). Qed.

Section Distinct.
Variables (n o r t0 t1 t2 : nat) (alpha : R).
Hypotheses (N0 : r <> t0) (N1 : r <> t1) (N2 : r <> t2) (N01 : t0 <> t1) (N02 : t0 <> t2) (N12 : t1 <> t2).

Lemma lsm_loop : forall its (s : StR) AccR AccT,
  rep S n o (s r) AccR -> rep S n o (s t2) AccT -> wf (s t0) -> wf (s t1) ->
  List.Forall (fun i => elt4 n o r t0 t1 t2 (fst i) (snd i) s) its ->
  exists s', seqm (flat_map (lsm_body F idR r alpha t0 t1 t2) (map fst its)) s = Ok s' /\
    frame4 r t0 t1 t2 s s' /\ wf (s' t0) /\ wf (s' t1) /\
    rep S n o (s' r) (fold_left (fun acc i => lse_step acc (lsm_num alpha (snd i))) its AccR) /\
    rep S n o (s' t2) (fold_left (fun acc i => lse_step acc (lsm_den alpha (snd i))) its AccT).
Proof.
  induction its as [|[x X] its IH]; intros s AccR AccT RR RT W0 W1 HF; cbn [map flat_map fold_left fst snd].
  - exists s. split; [apply seqm_nil|]. split; [intros q _ _ _ _; reflexivity|]. auto.
  - inversion HF as [|i0 l0 EX HF']; subst. cbn [fst snd] in EX.
    assert (RX : rep S n o (rd s x) X) by exact (proj1 EX).
    (* t0 = x * alpha *)
    destruct (rep_dy_any S n o OMul t0 x (Im alpha) s _ _ W0 RX (rep_im S n o s alpha)) as [s1 [E1 [F1 [_ [R1 _]]]]].
    assert (Fr1 : frame4 r t0 t1 t2 s s1) by (intros q _ Q _ _; apply F1; exact Q).
    (* t2 = LogAdd(t2, t0) through t1 *)
    assert (RT1 : rep S n o (rd s1 (Rg t2)) AccT) by (cbn [rd]; rewrite F1 by auto; exact RT).
    destruct (logadd_any n o t2 (Rg t2) (Rg t0) t1 s1 _ _ (rep_wf _ _ _ _ _ RT1) ltac:(rewrite F1 by auto; exact W1) N12
                ltac:(intros k Ek; inversion Ek; subst; auto) ltac:(intros k Ek; inversion Ek; subst; auto) RT1 R1)
      as [s2 [E2 [F2 [W12 R2]]]].
    assert (Fr2 : frame4 r t0 t1 t2 s s2) by (intros q Q0 Q1 Q2 Q3; rewrite F2, F1; auto).
    (* t1 = ln x *)
    destruct (rep_mon S n o OLog t1 x s2 X W12 (elt4_rd _ _ _ _ _ _ _ _ _ _ Fr2 EX)) as [s3 [E3 [F3 [_ [R3 _]]]]].
    assert (Fr3 : frame4 r t0 t1 t2 s s3) by (intros q Q0 Q1 Q2 Q3; rewrite F3, F2, F1; auto).
    (* t0 = t0 + t1 *)
    assert (R13 : rep S n o (rd s3 (Rg t0)) (lsm_den alpha X)) by (cbn [rd]; rewrite F3, F2 by auto; exact R1).
    destruct (rep_dy_any S n o OAdd t0 (Rg t0) (Rg t1) s3 _ _ (rep_wf _ _ _ _ _ R13) R13 R3) as [s4 [E4 [F4 [_ [R4 _]]]]].
    (* r = LogAdd(r, t0) through t1 *)
    assert (RR4 : rep S n o (rd s4 (Rg r)) AccR) by (cbn [rd]; rewrite F4, F3, F2, F1 by auto; exact RR).
    destruct (logadd_any n o r (Rg r) (Rg t0) t1 s4 _ _ (rep_wf _ _ _ _ _ RR4)
                ltac:(rewrite F4 by auto; exact (rep_wf _ _ _ _ _ R3)) (not_eq_sym N1)
                ltac:(intros k Ek; inversion Ek; subst; auto) ltac:(intros k Ek; inversion Ek; subst; auto) RR4 R4)
      as [s5 [E5 [F5 [W15 R5]]]].
    assert (Fr5 : frame4 r t0 t1 t2 s s5) by (intros q Q0 Q1 Q2 Q3; rewrite F5, F4, F3, F2, F1; auto).
    assert (RT5 : rep S n o (s5 t2) (lse_step AccT (lsm_den alpha X))) by (rewrite F5, F4, F3 by auto; exact R2).
    assert (W05 : wf (s5 t0)) by (rewrite F5 by auto; exact (rep_wf _ _ _ _ _ R4)).
    destruct (IH s5 _ _ R5 RT5 W05 W15) as [s6 [E6 [F6 [W06 [W16 [R6 T6]]]]]].
    { rewrite Forall_forall in *. intros i Hi. eapply elt4_stable; [exact Fr5|]. apply HF'. exact Hi. }
    exists s6. split.
    { unfold lsm_body at 1. cbn [app].
      rewrite (seqm_step _ _ _ _ E1), (seqm_step _ _ _ _ E2), (seqm_step _ _ _ _ E3), (seqm_step _ _ _ _ E4),
              (seqm_step _ _ _ _ E5). exact E6. }
    split; [intros q Q0 Q1 Q2 Q3; rewrite F6, Fr5; auto|]. auto.
Qed.

Theorem logsmoothmax_peeled_jet x0 X0 its (s : StR) :
  wf (s r) -> wf (s t0) -> wf (s t1) -> wf (s t2) -> shp n o (s r) -> shp n o (s t2) ->
  elt4 n o r t0 t1 t2 x0 X0 s -> List.Forall (fun i => elt4 n o r t0 t1 t2 (fst i) (snd i) s) its ->
  exists s', do_logsmoothmax_peeled F idR r x0 (map fst its) alpha t0 t1 t2 s = Ok s' /\ frame4 r t0 t1 t2 s s' /\
    rep S n o (s' r)
      (jexp S (jsub (fold_left (fun acc i => lse_step acc (lsm_num alpha (snd i))) its (lsm_num alpha X0))
                    (fold_left (fun acc i => lse_step acc (lsm_den alpha (snd i))) its (lsm_den alpha X0)))).
Proof.
  intros Wr W0 W1 W2 Sr S2 EX0 HF. unfold do_logsmoothmax_peeled.
  (* prologue *)
  destruct (rep_setf S n o r (finf F (-1)) s Wr Sr) as [sa [Ea [Fa [_ Ra]]]].
  destruct (rep_setf S n o t2 (finf F (-1)) sa ltac:(rewrite Fa by auto; exact W2) ltac:(rewrite Fa by auto; exact S2))
    as [sb [Eb [Fb [_ Rb]]]].
  assert (Frb : frame4 r t0 t1 t2 s sb) by (intros q Q0 Q1 Q2 Q3; rewrite Fb, Fa; auto).
  (* first iteration: the two LogAdd are Set *)
  destruct (rep_dy_any S n o OMul t0 x0 (Im alpha) sb _ _ ltac:(rewrite Fb, Fa by auto; exact W0)
              (elt4_rd _ _ _ _ _ _ _ _ _ _ Frb EX0) (rep_im S n o sb alpha)) as [s1 [E1 [F1 [_ [R1 _]]]]].
  destruct (rep_set S n o t2 (Rg t0) s1 _ ltac:(rewrite F1 by auto; exact (rep_wf _ _ _ _ _ Rb)) R1
              ltac:(intros k Ek; inversion Ek; subst; auto)) as [s2 [E2 [F2 [_ [R2 _]]]]].
  assert (Fr2 : frame4 r t0 t1 t2 s s2) by (intros q Q0 Q1 Q2 Q3; rewrite F2, F1, Frb; auto).
  destruct (rep_mon S n o OLog t1 x0 s2 X0 ltac:(rewrite F2, F1, Fb, Fa by auto; exact W1) (elt4_rd _ _ _ _ _ _ _ _ _ _ Fr2 EX0))
    as [s3 [E3 [F3 [_ [R3 _]]]]].
  assert (R13 : rep S n o (rd s3 (Rg t0)) (lsm_den alpha X0)) by (cbn [rd]; rewrite F3, F2 by auto; exact R1).
  destruct (rep_dy_any S n o OAdd t0 (Rg t0) (Rg t1) s3 _ _ (rep_wf _ _ _ _ _ R13) R13 R3) as [s4 [E4 [F4 [_ [R4 _]]]]].
  destruct (rep_set S n o r (Rg t0) s4 _ ltac:(rewrite F4, F3, F2, F1, Fb by auto; exact (rep_wf _ _ _ _ _ Ra)) R4
              ltac:(intros k Ek; inversion Ek; subst; auto)) as [s5 [E5 [F5 [_ [R5 _]]]]].
  assert (Fr5 : frame4 r t0 t1 t2 s s5) by (intros q Q0 Q1 Q2 Q3; rewrite F5, F4, F3, Fr2; auto).
  assert (RT5 : rep S n o (s5 t2) (lsm_den alpha X0)) by (rewrite F5, F4, F3 by auto; exact R2).
  destruct (lsm_loop its s5 _ _ R5 RT5 ltac:(rewrite F5 by auto; exact (rep_wf _ _ _ _ _ R4))
              ltac:(rewrite F5, F4 by auto; exact (rep_wf _ _ _ _ _ R3)))
    as [s6 [E6 [F6 [_ [_ [R6 T6]]]]]].
  { rewrite Forall_forall in *. intros i Hi. eapply elt4_stable; [exact Fr5|]. apply HF. exact Hi. }
  (* epilogue *)
  destruct (rep_dy_any S n o OSub r (Rg r) (Rg t2) s6 _ _ (rep_wf _ _ _ _ _ R6) R6 T6) as [s7 [E7 [F7 [_ [R7 _]]]]].
  destruct (rep_mon S n o OExp r (Rg r) s7 _ (rep_wf _ _ _ _ _ R7) R7) as [s8 [E8 [F8 [_ [R8 _]]]]].
  exists s8. split.
  { rewrite (seqm_app (lsm_pre F idR r t2) _ s sb)
      by (unfold lsm_pre; rewrite (seqm_step _ _ _ _ Ea), (seqm_step _ _ _ _ Eb); apply seqm_nil).
    rewrite <- app_assoc.
    rewrite (seqm_app (lsm_first F idR r alpha t0 t1 t2 x0) _ sb s5)
      by (unfold lsm_first; rewrite (seqm_step _ _ _ _ E1), (seqm_step _ _ _ _ E2), (seqm_step _ _ _ _ E3),
            (seqm_step _ _ _ _ E4), (seqm_step _ _ _ _ E5); apply seqm_nil).
    rewrite (seqm_app _ _ s5 s6 E6). unfold lsm_post.
    rewrite (seqm_step _ _ _ _ E7), (seqm_step _ _ _ _ E8). apply seqm_nil. }
  split; [intros q Q0 Q1 Q2 Q3; rewrite F8, F7, F6, Fr5; auto|exact R8].
Qed.
End Distinct.

(* ------------------------------------------------------------------ the value: the softmax-weighted mean *)
Lemma lse_fold_value (f : jet -> jet) (its : list (opd R * jet)) A0 :
  jv (fold_left (fun acc i => lse_step acc (f (snd i))) its A0) =
  ln (fold_left (fun acc i => acc + exp (jv (f (snd i)))) its (exp (jv A0))).
Proof.
  revert A0. induction its as [|[x X] its IH]; intro A0; cbn [fold_left snd].
  - rewrite ln_exp. reflexivity.
  - rewrite IH. destruct (lse_step_slots A0 (f X)) as [V _]. rewrite V.
    rewrite exp_ln; [reflexivity|]. pose proof (exp_pos (jv A0)). pose proof (exp_pos (jv (f X))). lra.
Qed.
Lemma fold_sum_pos (g : opd R * jet -> R) its a : 0 < a -> (forall i, 0 < g i) -> 0 < fold_left (fun acc i => acc + g i) its a.
Proof. revert a. induction its as [|i its IH]; intros a Ha Hg; cbn [fold_left]; [exact Ha|]. apply IH; [|exact Hg]. specialize (Hg i). lra. Qed.
Lemma fold_sum_ext (g h : opd R * jet -> R) its a :
  List.Forall (fun i => g i = h i) its -> fold_left (fun acc i => acc + g i) its a = fold_left (fun acc i => acc + h i) its a.
Proof.
  revert a. induction its as [|i its IH]; intros a HF; cbn [fold_left]; [reflexivity|].
  inversion HF as [|? ? E HF']; subst. rewrite E. apply IH. exact HF'.
Qed.
Lemma lsm_num_exp alpha X : 0 < jv X -> exp (jv (lsm_num alpha X)) = jv X * exp (alpha * jv X).
Proof.
  intro H. unfold lsm_num, lsm_den, jadd, jmul, jlog. unfold_jets. rewrite exp_plus, exp_ln by exact H.
  rewrite (Rmult_comm (jv X) alpha). ring.
Qed.
Lemma lsm_den_exp alpha X : exp (jv (lsm_den alpha X)) = exp (alpha * jv X).
Proof. unfold lsm_den, jmul. unfold_jets. rewrite (Rmult_comm (jv X) alpha). reflexivity. Qed.

Theorem logsmoothmax_value alpha X0 (its : list (opd R * jet)) :
  0 < jv X0 -> List.Forall (fun i => 0 < jv (snd i)) its ->
  jv (jexp S (jsub (fold_left (fun acc i => lse_step acc (lsm_num alpha (snd i))) its (lsm_num alpha X0))
                   (fold_left (fun acc i => lse_step acc (lsm_den alpha (snd i))) its (lsm_den alpha X0)))) =
  fold_left (fun acc i => acc + jv (snd i) * exp (alpha * jv (snd i))) its (jv X0 * exp (alpha * jv X0)) /
  fold_left (fun acc i => acc + exp (alpha * jv (snd i))) its (exp (alpha * jv X0)).
Proof.
  intros H0 HF. unfold jexp, jsub. unfold_jets.
  rewrite (lse_fold_value (lsm_num alpha)), (lse_fold_value (lsm_den alpha)).
  rewrite (lsm_num_exp alpha X0 H0), lsm_den_exp.
  rewrite (fold_sum_ext (fun i => exp (jv (lsm_num alpha (snd i)))) (fun i => jv (snd i) * exp (alpha * jv (snd i))))
    by (eapply Forall_impl; [|exact HF]; intros i Hi; apply lsm_num_exp; exact Hi).
  rewrite (fold_sum_ext (fun i => exp (jv (lsm_den alpha (snd i)))) (fun i => exp (alpha * jv (snd i))))
    by (apply Forall_forall; intros i _; apply lsm_den_exp).
  set (N := fold_left _ its (jv X0 * exp (alpha * jv X0))). set (D := fold_left _ its (exp (alpha * jv X0))).
  assert (HD : 0 < D) by (apply fold_sum_pos; [apply exp_pos|intro; apply exp_pos]).
  assert (HN : 0 < N).
  { unfold N. clear N D HD. revert HF. generalize (jv X0 * exp (alpha * jv X0)) (Rmult_lt_0_compat _ _ H0 (exp_pos (alpha * jv X0))).
    induction its as [|i its IH]; intros a Ha HF; cbn [fold_left]; [exact Ha|].
    inversion HF as [|? ? Hi HF']; subst. apply IH; [|exact HF'].
    pose proof (Rmult_lt_0_compat _ _ Hi (exp_pos (alpha * jv (snd i)))). lra. }
  unfold Rminus. rewrite exp_plus, exp_Ropp, !exp_ln by assumption. reflexivity.
Qed.
End LSM.
