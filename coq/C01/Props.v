(* C01 — property theorems (statements only; proofs in Proofs*.v).
   Carrier: the reals (C01/ModelR.v); S ranges over all interpretations of the
   special functions. *)
From Coq Require Import Reals ZArith List Lra Lia.
From Coquelicot Require Import Coquelicot.
From ADV Require Import Base.Fl Base.Num C01.Model C01.ModelR C01.Spec C01.ProofsComb C01.ProofsCoef C01.ProofsJet C01.ProofsRefuted.
Import ListNotations.
Open Scope R_scope.

(* (1) combinator algebra, one argument: for every n, every order, every aliasing of
   receiver and operand, the in-place loops leave f(g), g_i f', g_i g_j f'' + H_ij f'. *)
Theorem monadic_jet_algebra : forall S c a v0 v1 v2 (s : St),
  wf (s c) -> wf (rd s a) -> sym_reg S (rd s a) ->
  exists s', monadic (FlR S) idR c a v0 v1 v2 s = Ok s' /\
    (forall q, q <> c -> s' q = s q) /\
    rk (s' c) = rk (s c) /\ rval (s' c) = v0 /\
    rorder (s' c) = rorder (rd s a) /\ rn (s' c) = rn (rd s a) /\ wf (s' c) /\
    (forall i, (i < rn (rd s a))%nat -> gd (FlR S) (s' c) i = gd (FlR S) (rd s a) i * v1) /\
    ((2 <= rorder (rd s a))%nat -> forall i j, (i < rn (rd s a))%nat -> (j < rn (rd s a))%nat ->
       gh (FlR S) (s' c) i j =
       gd (FlR S) (rd s a) i * gd (FlR S) (rd s a) j * v2 + gh (FlR S) (rd s a) i j * v1).
Proof. exact monadic_spec. Qed.

(* (1) two arguments: the six-term Hessian; result order/N = max of the operands.
   [alloc_keeps] excludes the receiver being an operand of smaller N / lower order
   (then AllocForTwo clears it: DESIGN §4 F-ALLOC, property C08). *)
Theorem dyadic_jet_algebra : forall S c a b v0 v10 v01 v11 v20 v02 (s : St),
  wf (s c) -> wf (rd s a) -> wf (rd s b) -> sym_reg S (rd s a) -> sym_reg S (rd s b) ->
  dy_guard (rd s a) (rd s b) = None -> alloc_keeps c a b s ->
  let n := Nat.max (rn (rd s a)) (rn (rd s b)) in
  let o := Nat.max (rorder (rd s a)) (rorder (rd s b)) in
  exists s', dyadic (FlR S) idR c a b v0 v10 v01 v11 v20 v02 s = Ok s' /\
    (forall q, q <> c -> s' q = s q) /\
    rk (s' c) = rk (s c) /\ rval (s' c) = v0 /\ rorder (s' c) = o /\ rn (s' c) = n /\ wf (s' c) /\
    (forall i, (i < n)%nat -> gd (FlR S) (s' c) i = gd (FlR S) (rd s a) i * v10 + gd (FlR S) (rd s b) i * v01) /\
    ((2 <= o)%nat -> forall i j, (i < n)%nat -> (j < n)%nat ->
       gh (FlR S) (s' c) i j =
         gh (FlR S) (rd s a) i j * v10 + gh (FlR S) (rd s b) i j * v01
         + gd (FlR S) (rd s a) i * gd (FlR S) (rd s a) j * v20 + gd (FlR S) (rd s b) i * gd (FlR S) (rd s b) j * v02
         + gd (FlR S) (rd s a) i * gd (FlR S) (rd s b) j * v11 + gd (FlR S) (rd s b) i * gd (FlR S) (rd s a) j * v11).
Proof. exact dyadic_spec. Qed.

Theorem monadic_hessian_symmetric : forall S c a v0 v1 v2 (s s' : St),
  wf (s c) -> wf (rd s a) -> sym_reg S (rd s a) -> monadic (FlR S) idR c a v0 v1 v2 s = Ok s' ->
  forall i j, (i < rn (s' c))%nat -> (j < rn (s' c))%nat -> gh (FlR S) (s' c) i j = gh (FlR S) (s' c) j i.
Proof. exact monadic_result_symmetric. Qed.

(* the hypotheses are satisfiable by a non-trivial instance: c.Exp(c) on a variable of order 2, N = 2 *)
Example monadic_hyps_nontrivial :
  let s : St := upd stR0 0 (mkReg K64 (1/2) 2 2 [1; 0] [[0; 0]; [0; 0]]) in
  wf (s 0%nat) /\ wf (rd s (Rg 0)) /\ sym_reg Sp0 (rd s (Rg 0)).
Proof.
  cbv zeta. cbn [rd upd Nat.eqb]. split; [|split].
  - split; intros _; cbn; [reflexivity|]. split; [reflexivity|]. intros [|[|i]] H; cbn; try reflexivity. lia.
  - split; intros _; cbn; [reflexivity|]. split; [reflexivity|]. intros [|[|i]] H; cbn; try reflexivity. lia.
  - intros [|[|i]] [|[|j]]; unfold gh, hget; cbn; try reflexivity; try (destruct i; reflexivity); try (destruct j; reflexivity); destruct i; destruct j; reflexivity.
Qed.

(* (2) coefficient correctness of the elementary operations on their domains *)
Theorem coefficients_elementary : forall S x,
  m_ok S ONeg x /\ m_ok S OSin x /\ m_ok S OCos x /\ m_ok S OSinh x /\ m_ok S OCosh x /\ m_ok S OExp x /\
  m_ok S OTanh x /\ (cos x <> 0 -> m_ok S OTan x) /\ (0 < x -> m_ok S OLog x) /\ (-1 < x -> m_ok S OLog1p x) /\
  (forall y, 0 < x -> m_ok S (OPowC y) x).
Proof.
  intros S x.
  split; [apply neg_ok|]. split; [apply sin_ok|]. split; [apply cos_ok|]. split; [apply sinh_ok|].
  split; [apply cosh_ok|]. split; [apply exp_ok|]. split; [apply tanh_ok|].
  split; [intro H; apply tan_ok; exact H|]. split; [intro H; apply log_ok; exact H|].
  split; [intro H; apply log1p_ok; exact H|]. intros y H. apply powc_ok. exact H.
Qed.

Theorem coefficients_dyadic : forall S x y,
  d_ok S OAdd x y /\ d_ok S OSub x y /\ d_ok S OMul x y /\ (y <> 0 -> d_ok S ODiv x y).
Proof. intros S x y. split; [apply add_ok|split; [apply sub_ok|split; [apply mul_ok|apply div_ok]]]. Qed.

(* special functions: relative to their defining differential relations (Section hypotheses, no axioms) *)
Theorem coefficients_special_relative : forall S,
  (forall x, is_derive (sErf S) x (2 / sqrt PI * exp (- (x * x)))) ->
  (forall x, is_derive (sErfc S) x (- (2 / sqrt PI * exp (- (x * x))))) ->
  (forall x, 0 < x -> is_derive (sGamma S) x (sGamma S x * sDigamma S x)) ->
  (forall x, 0 < x -> is_derive (sLgamma S) x (sDigamma S x)) ->
  (forall x, 0 < x -> is_derive (sDigamma S) x (sTrigamma S x)) ->
  forall x, m_ok S OErf x /\ m_ok S OErfc x /\ (0 < x -> m_ok S OGamma x) /\ (0 < x -> m_ok S OLgamma x).
Proof.
  intros S H1 H2 H3 H4 H5 x. split; [apply erf_ok; auto|]. split; [apply erfc_ok; auto|].
  split; intro Hx; [apply gamma_ok; auto|apply lgamma_ok; auto].
Qed.

(* the chain-rule formulas the combinators compute are the partial derivatives of f o G *)
Theorem chain_rule_first_order : forall (G : (nat -> R) -> R) (f : R -> R) y i dG f1,
  partial G i y dG -> is_derive f (G y) f1 -> partial (fun z => f (G z)) i y (dG * f1).
Proof. exact chain1_first. Qed.
Theorem chain_rule_second_order : forall (G Gi : (nat -> R) -> R) (f1 : R -> R) y j dGj ddGij f2,
  partial G j y dGj -> partial Gi j y ddGij -> is_derive f1 (G y) f2 ->
  partial (fun z => Gi z * f1 (G z)) j y (Gi y * dGj * f2 + ddGij * f1 (G y)).
Proof. exact chain1_second. Qed.

(* former defects (fixed in /repo: d9fca78, 2fc8894): the witnesses now behave on the model *)
Theorem set_order_witness_behaves :
  exists s', set_reg (FlR Sp0) idR 0 (Rg 1) st_setord = Ok s' /\
             rorder (s' 0%nat) = 2%nat /\ rn (s' 0%nat) = 2%nat /\ rval (s' 0%nat) = 3 /\
             rderiv (s' 0%nat) = [0; 1] /\ rhess (s' 0%nat) = [[0; 0]; [0; 5]].
Proof. exact set_order_witness_fixed. Qed.
Theorem concrete_abs_is_generic_abs : forall S c a (s : St),
  do_ABS_concrete (FlR S) idR c a s = do_abs (FlR S) idR c a s.
Proof. exact abs_concrete_is_abs. Qed.

(* Not proved (stated for the record):
   ad_sound_partial — soundness of whole expression trees by structural induction from
     monadic_jet_algebra + dyadic_jet_algebra + coefficients_* + chain_rule_*: the induction step is what
     these theorems give for one operation; the induction itself, the composite programs (Sigmoid, LogAdd,
     Log1pExp per branch, SmoothMax, Vnorm ...) and the variable-exponent Pow / LogErfc / Mlgamma / GammaP /
     Bessel coefficient lemmas are tied by the correspondence run only. *)
