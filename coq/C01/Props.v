(* C01 — property theorems (statements only; proofs in Proofs*.v).
   Carrier: the reals (C01/ModelR.v); S ranges over all interpretations of the
   special functions. *)
From Coq Require Import Reals ZArith QArith Qreals List Lra Lia.
From Coquelicot Require Import Coquelicot.
From ADV Require Import Base.Fl Base.Num C01.Model C01.ModelR C01.Spec C01.ProofsComb C01.ProofsCoef C01.ProofsJet C01.ProofsRefuted
     C01.ProofsStore C01.ProofsOps C01.ProofsSound C01.ProofsChain2 C01.ProofsProg C01.ModelVariants C01.ProofsAlias C01.ProofsSpecial C01.ProofsRed C01.ProofsSmooth C01.ProofsDag.
Import ListNotations.
Open Scope R_scope.

(* (1) combinator algebra, one argument: for every n, every order, every aliasing of
   receiver and operand, the in-place loops leave f(g), g_i f', g_i g_j f'' + H_ij f'. *)
Theorem monadic_jet_algebra : forall S c a v0 v1 v2 (s : St),
  wf (s c) -> wf (rd s a) -> sym_reg S (rd s a) ->
  exists s', monadic (FlR S) idR c a v0 v1 v2 s = Ok s' /\
    (forall q, q <> c -> s' q = s q) /\
    rk (s' c) = rk (s c) /\ rval (s' c) = v0 /\
    rorder (s' c) = rorder (rd s a) /\ rn (s' c) = rn (rd s a) /\ wf (s' c) /\
    (forall i, (i < rn (rd s a))%nat -> gd (FlR S) (s' c) i = gd (FlR S) (rd s a) i * v1) /\
    ((2 <= rorder (rd s a))%nat -> forall i j, (i < rn (rd s a))%nat -> (j < rn (rd s a))%nat ->
       gh (FlR S) (s' c) i j =
       gd (FlR S) (rd s a) i * gd (FlR S) (rd s a) j * v2 + gh (FlR S) (rd s a) i j * v1).
Proof. exact monadic_spec. Qed.

(* (1) two arguments: the six-term Hessian; result order/N = max of the operands.
   [alloc_keeps] excludes the receiver being an operand of smaller N / lower order
   (then AllocForTwo clears it: DESIGN §4 F-ALLOC, property C08). *)
Theorem dyadic_jet_algebra : forall S c a b v0 v10 v01 v11 v20 v02 (s : St),
  wf (s c) -> wf (rd s a) -> wf (rd s b) -> sym_reg S (rd s a) -> sym_reg S (rd s b) ->
  dy_guard (rd s a) (rd s b) = None -> alloc_keeps c a b s ->
  let n := Nat.max (rn (rd s a)) (rn (rd s b)) in
  let o := Nat.max (rorder (rd s a)) (rorder (rd s b)) in
  exists s', dyadic (FlR S) idR c a b v0 v10 v01 v11 v20 v02 s = Ok s' /\
    (forall q, q <> c -> s' q = s q) /\
    rk (s' c) = rk (s c) /\ rval (s' c) = v0 /\ rorder (s' c) = o /\ rn (s' c) = n /\ wf (s' c) /\
    (forall i, (i < n)%nat -> gd (FlR S) (s' c) i = gd (FlR S) (rd s a) i * v10 + gd (FlR S) (rd s b) i * v01) /\
    ((2 <= o)%nat -> forall i j, (i < n)%nat -> (j < n)%nat ->
       gh (FlR S) (s' c) i j =
         gh (FlR S) (rd s a) i j * v10 + gh (FlR S) (rd s b) i j * v01
         + gd (FlR S) (rd s a) i * gd (FlR S) (rd s a) j * v20 + gd (FlR S) (rd s b) i * gd (FlR S) (rd s b) j * v02
         + gd (FlR S) (rd s a) i * gd (FlR S) (rd s b) j * v11 + gd (FlR S) (rd s b) i * gd (FlR S) (rd s a) j * v11).
Proof. exact dyadic_spec. Qed.

Theorem monadic_hessian_symmetric : forall S c a v0 v1 v2 (s s' : St),
  wf (s c) -> wf (rd s a) -> sym_reg S (rd s a) -> monadic (FlR S) idR c a v0 v1 v2 s = Ok s' ->
  forall i j, (i < rn (s' c))%nat -> (j < rn (s' c))%nat -> gh (FlR S) (s' c) i j = gh (FlR S) (s' c) j i.
Proof. exact monadic_result_symmetric. Qed.

(* the hypotheses are satisfiable by a non-trivial instance: c.Exp(c) on a variable of order 2, N = 2 *)
Example monadic_hyps_nontrivial :
  let s : St := upd stR0 0 (mkReg K64 (1/2) 2 2 [1; 0] [[0; 0]; [0; 0]]) in
  wf (s 0%nat) /\ wf (rd s (Rg 0)) /\ sym_reg Sp0 (rd s (Rg 0)).
Proof.
  cbv zeta. cbn [rd upd Nat.eqb]. split; [|split].
  - split; intros _; cbn; [reflexivity|]. split; [reflexivity|]. intros [|[|i]] H; cbn; try reflexivity. lia.
  - split; intros _; cbn; [reflexivity|]. split; [reflexivity|]. intros [|[|i]] H; cbn; try reflexivity. lia.
  - intros [|[|i]] [|[|j]]; unfold gh, hget; cbn; try reflexivity; try (destruct i; reflexivity); try (destruct j; reflexivity); destruct i; destruct j; reflexivity.
Qed.

(* (2) coefficient correctness of the elementary operations on their domains *)
Theorem coefficients_elementary : forall S x,
  m_ok S ONeg x /\ m_ok S OSin x /\ m_ok S OCos x /\ m_ok S OSinh x /\ m_ok S OCosh x /\ m_ok S OExp x /\
  m_ok S OTanh x /\ (cos x <> 0 -> m_ok S OTan x) /\ (0 < x -> m_ok S OLog x) /\ (-1 < x -> m_ok S OLog1p x) /\
  (forall y, 0 < x -> m_ok S (OPowC y) x).
Proof.
  intros S x.
  split; [apply neg_ok|]. split; [apply sin_ok|]. split; [apply cos_ok|]. split; [apply sinh_ok|].
  split; [apply cosh_ok|]. split; [apply exp_ok|]. split; [apply tanh_ok|].
  split; [intro H; apply tan_ok; exact H|]. split; [intro H; apply log_ok; exact H|].
  split; [intro H; apply log1p_ok; exact H|]. intros y H. apply powc_ok. exact H.
Qed.

Theorem coefficients_dyadic : forall S x y,
  d_ok S OAdd x y /\ d_ok S OSub x y /\ d_ok S OMul x y /\ (y <> 0 -> d_ok S ODiv x y).
Proof. intros S x y. split; [apply add_ok|split; [apply sub_ok|split; [apply mul_ok|apply div_ok]]]. Qed.

(* special functions: relative to their defining differential relations (Section hypotheses, no axioms) *)
Theorem coefficients_special_relative : forall S,
  (forall x, is_derive (sErf S) x (2 / sqrt PI * exp (- (x * x)))) ->
  (forall x, is_derive (sErfc S) x (- (2 / sqrt PI * exp (- (x * x))))) ->
  (forall x, 0 < x -> is_derive (sGamma S) x (sGamma S x * sDigamma S x)) ->
  (forall x, 0 < x -> is_derive (sLgamma S) x (sDigamma S x)) ->
  (forall x, 0 < x -> is_derive (sDigamma S) x (sTrigamma S x)) ->
  forall x, m_ok S OErf x /\ m_ok S OErfc x /\ (0 < x -> m_ok S OGamma x) /\ (0 < x -> m_ok S OLgamma x).
Proof.
  intros S H1 H2 H3 H4 H5 x. split; [apply erf_ok; auto|]. split; [apply erfc_ok; auto|].
  split; intro Hx; [apply gamma_ok; auto|apply lgamma_ok; auto].
Qed.

(* the chain-rule formulas the combinators compute are the partial derivatives of f o G *)
Theorem chain_rule_first_order : forall (G : (nat -> R) -> R) (f : R -> R) y i dG f1,
  partial G i y dG -> is_derive f (G y) f1 -> partial (fun z => f (G z)) i y (dG * f1).
Proof. exact chain1_first. Qed.
Theorem chain_rule_second_order : forall (G Gi : (nat -> R) -> R) (f1 : R -> R) y j dGj ddGij f2,
  partial G j y dGj -> partial Gi j y ddGij -> is_derive f1 (G y) f2 ->
  partial (fun z => Gi z * f1 (G z)) j y (Gi y * dGj * f2 + ddGij * f1 (G y)).
Proof. exact chain1_second. Qed.

(* former defects (fixed in /repo: d9fca78, 2fc8894): the witnesses now behave on the model *)
Theorem set_order_witness_behaves :
  exists s', set_reg (FlR Sp0) idR 0 (Rg 1) st_setord = Ok s' /\
             rorder (s' 0%nat) = 2%nat /\ rn (s' 0%nat) = 2%nat /\ rval (s' 0%nat) = 3 /\
             rderiv (s' 0%nat) = [0; 1] /\ rhess (s' 0%nat) = [[0; 0]; [0; 5]].
Proof. exact set_order_witness_fixed. Qed.
Theorem concrete_abs_is_generic_abs : forall S c a (s : St),
  do_ABS_concrete (FlR S) idR c a s = do_abs (FlR S) idR c a s.
Proof. exact abs_concrete_is_abs. Qed.

(* ------------------------------------------------------------------ round 2 *)

(* (S2) Reset / SetFloat64 leave EVERY derivative slot of the receiver zero — the full square of the
   Hessian, upper and lower triangle — whatever its gradient / Hessian storage held before (a reused
   register with stale content), for every N and order. *)
Theorem reset_zeroes_every_slot : forall S c (s : St), wf (s c) ->
  exists s', do_reset (FlR S) c s = Ok s' /\ (forall q, q <> c -> s' q = s q) /\
    wf (s' c) /\ rk (s' c) = rk (s c) /\ rval (s' c) = 0 /\ rorder (s' c) = rorder (s c) /\ rn (s' c) = rn (s c) /\
    (forall i, gd (FlR S) (s' c) i = 0) /\ (forall i j, gh (FlR S) (s' c) i j = 0).
Proof. exact reset_clears_all_slots. Qed.
Theorem setfloat_zeroes_every_slot : forall S c v (s : St), wf (s c) ->
  exists s', do_setf (FlR S) idR c v s = Ok s' /\ (forall q, q <> c -> s' q = s q) /\
    wf (s' c) /\ rk (s' c) = rk (s c) /\ rval (s' c) = v /\ rorder (s' c) = rorder (s c) /\ rn (s' c) = rn (s c) /\
    (forall i, gd (FlR S) (s' c) i = 0) /\ (forall i j, gh (FlR S) (s' c) i j = 0).
Proof. exact setfloat_clears_all_slots. Qed.
Example reset_hyps_nontrivial :   (* a receiver whose storage is full of stale, non-symmetric content *)
  wf (mkReg K64 7 2 2 [3; -5] [[1; 2]; [30; 4]]).
Proof. split; intros _; cbn; [reflexivity|]. split; [reflexivity|]. intros [|[|i]] H; cbn; try reflexivity. lia. Qed.

(* Set (HEAD d9fca78): the receiver is reallocated whenever N or Order differ and ends up with the
   operand's value, order, N and every gradient / Hessian slot — never a panic on well-formed registers. *)
Theorem set_copies_the_jet : forall S c b (s : St),
  wf (s c) -> wf (rd s b) -> not_reg b c ->
  exists s', set_reg (FlR S) idR c b s = Ok s' /\ frame c s s' /\ rk (s' c) = rk (s c) /\
    wf (s' c) /\ rval (s' c) = rval (rd s b) /\ rorder (s' c) = rorder (rd s b) /\ rn (s' c) = rn (rd s b) /\
    (forall i, gd (FlR S) (s' c) i = gd (FlR S) (rd s b) i) /\ (forall i j, gh (FlR S) (s' c) i j = gh (FlR S) (rd s b) i j).
Proof. exact set_reg_spec. Qed.

(* one instruction on represented operands (rep = well-formed, symmetric, magic of order o over n
   variables OR a constant / plain operand; jets = value, gradient, Hessian): table operations,
   Pow with a constant and with a magic exponent, SetVariable *)
Theorem step_monadic : forall S n o op c a (s : St) A,
  wf (s c) -> rep S n o (rd s a) A ->
  exists s', do_mon (FlR S) idR op c a s = Ok s' /\ frame c s s' /\ rk (s' c) = rk (s c) /\
    rep S n o (s' c) (jmon (m_v0 (FlR S) op (jv A)) (m_f1 (FlR S) op (jv A)) (m_f2 (FlR S) op (jv A)) A) /\
    rorder (s' c) = rorder (rd s a) /\ rn (s' c) = rn (rd s a).
Proof. exact rep_mon. Qed.
Theorem step_dyadic : forall S n o op c a b (s : St) A B,
  wf (s c) -> rep S n o (rd s a) A -> rep S n o (rd s b) B -> alloc_keeps c a b s ->
  exists s', do_dy (FlR S) idR op c a b s = Ok s' /\ frame c s s' /\ rk (s' c) = rk (s c) /\
    rep S n o (s' c) (jdy (d_v0 (FlR S) op (jv A) (jv B)) (d_f10 (FlR S) op (jv A) (jv B)) (d_f01 (FlR S) op (jv A) (jv B))
                          (d_f11 (FlR S) op (jv A) (jv B)) (d_f20 (FlR S) op (jv A) (jv B)) (d_f02 (FlR S) op (jv A) (jv B)) A B) /\
    rorder (s' c) = Nat.max (rorder (rd s a)) (rorder (rd s b)) /\ rn (s' c) = Nat.max (rn (rd s a)) (rn (rd s b)).
Proof. exact rep_dy. Qed.
Theorem step_pow_variable_exponent : forall S n o c a k (s : St) A K,
  wf (s c) -> rep S n o (rd s a) A -> rep S n o (rd s k) K -> (1 <= rorder (rd s k))%nat -> alloc_keeps c a k s ->
  exists s', do_pow (FlR S) idR c a k s = Ok s' /\ frame c s s' /\ rk (s' c) = rk (s c) /\
    rep S n o (s' c) (jdy (d_v0 (FlR S) OPowV (jv A) (jv K)) (d_f10 (FlR S) OPowV (jv A) (jv K)) (d_f01 (FlR S) OPowV (jv A) (jv K))
                          (d_f11 (FlR S) OPowV (jv A) (jv K)) (d_f20 (FlR S) OPowV (jv A) (jv K)) (d_f02 (FlR S) OPowV (jv A) (jv K)) A K) /\
    rorder (s' c) = Nat.max (rorder (rd s a)) (rorder (rd s k)) /\ rn (s' c) = Nat.max (rn (rd s a)) (rn (rd s k)).
Proof. exact rep_pow_var. Qed.
Theorem step_set_variable : forall S n o c k (s : St),
  (1 <= o)%nat -> (k < n)%nat -> (rn (s c) <> n \/ rorder (s c) <> o) ->
  exists s', set_variable (FlR S) idR c k n o s = Ok s' /\ frame c s s' /\ rk (s' c) = rk (s c) /\
             rep S n o (s' c) (jvar (rval (s c)) k).
Proof. exact rep_setvar. Qed.

(* (b) the two-argument chain rule: the dyadic / dyadicLazy formulas are the coordinate partial
   derivatives of z |-> f (G z) (H z) for f differentiable in two variables *)
Theorem chain_rule_two_arguments_first : forall (G H : (nat -> R) -> R) (f : R -> R -> R) y i dG dH f10 f01,
  partial G i y dG -> partial H i y dH -> differentiable_pt_lim f (G y) (H y) f10 f01 ->
  partial (fun z => f (G z) (H z)) i y (dG * f10 + dH * f01).
Proof. exact chain2_first. Qed.
Theorem chain_rule_two_arguments_second :
  forall (G H Gi Hi : (nat -> R) -> R) (f10 f01 : R -> R -> R) y j dGj dHj ddGij ddHij f20 f11 f02,
  partial G j y dGj -> partial H j y dHj -> partial Gi j y ddGij -> partial Hi j y ddHij ->
  differentiable_pt_lim f10 (G y) (H y) f20 f11 -> differentiable_pt_lim f01 (G y) (H y) f11 f02 ->
  partial (fun z => Gi z * f10 (G z) (H z) + Hi z * f01 (G z) (H z)) j y
    (ddGij * f10 (G y) (H y) + ddHij * f01 (G y) (H y)
     + Gi y * dGj * f20 + Hi y * dHj * f02 + Gi y * dHj * f11 + Hi y * dGj * f11).
Proof. exact chain2_second. Qed.
(* the five coefficients of every dyadic table entry — Add Sub Mul, Div (y <> 0), Pow with a VARIABLE
   exponent (x > 0) — are the derivatives of value / d-da / d-db entries along every curve through (x, y) *)
Theorem coefficients_dyadic_along_curves : forall S op x y,
  match op with ODiv => y <> 0 | OPowV => 0 < x | _ => True end -> d_curve S op x y.
Proof. exact d_curve_table. Qed.

(* (c) ad_sound.  Programs = compiled expression trees in SSA-like register discipline (temporaries
   n, n+1, .. may hold ANY well-formed stale content); variables seeded by Variables(order, x_0..x_{n-1}).
   The result register holds the value; its gradient slots are the first partial derivatives of the denoted
   function [den S e]; at order 2 its Hessian slots are the partial derivatives of the first partials, and
   symmetric; slots of variables the expression does not mention are exactly 0.  Constants (EConst: a
   ConstFloat64 / Float64 operand) carry the zero jet. *)
Theorem compiled_program_computes_sem : forall S n o x e nx (s : St),
  wfe n e -> (n <= nx)%nat ->
  (forall k, (k < n)%nat -> rep S n o (s k) (jvar (x k) k)) ->
  (forall q, (nx <= q)%nat -> wf (s q)) ->
  exists s', run (FlR S) idR (fst (fst (compile e nx))) s = Ok s' /\
    (nx <= snd (compile e nx))%nat /\
    (forall q, (q < nx)%nat \/ (snd (compile e nx) <= q)%nat -> s' q = s q) /\
    res_ok n nx (snd (compile e nx)) (snd (fst (compile e nx))) /\
    rep S n o (rd s' (snd (fst (compile e nx)))) (sem S e x).
Proof. exact compile_sound. Qed.
Theorem sem_is_the_derivative : forall S e x, dom S e x ->
  forall i, partial (den S e) i x (jg (sem S e x) i) /\
            forall j, partial (fun y => jg (sem S e y) i) j x (jh (sem S e x) i j).
Proof. exact D_correct. Qed.
Theorem ad_sound : forall S n o e x (s : St),
  (1 <= o)%nat -> wfe n e -> sdom S e x ->
  (forall k, (k < n)%nat -> rorder (s k) = 0%nat /\ rval (s k) = x k) ->
  (forall q, (n <= q)%nat -> wf (s q)) ->
  exists s', run (FlR S) idR (vars_prog n o ++ fst (fst (compile e n))) s = Ok s' /\
    let r := rd s' (snd (fst (compile e n))) in
    rval r = den S e x /\
    (forall i, (i < n)%nat -> partial (den S e) i x (gd (FlR S) r i)) /\
    ((2 <= o)%nat -> forall i j, (i < n)%nat -> (j < n)%nat ->
        partial (fun y => jg (sem S e y) i) j x (gh (FlR S) r i j) /\ gh (FlR S) r i j = gh (FlR S) r j i) /\
    (forall i, (i < n)%nat -> gd (FlR S) r i = jg (sem S e x) i) /\
    (forall k, (k < n)%nat -> ~ mentions e k ->
        gd (FlR S) r k = 0 /\ ((2 <= o)%nat -> forall j, (j < n)%nat -> gh (FlR S) r k j = 0 /\ gh (FlR S) r j k = 0)).
Proof. exact ad_sound_sdom. Qed.
Theorem constants_contribute_no_derivative : forall S e v x i j,
  jg (sem S (EDy OAdd e (EConst v)) x) i = jg (sem S e x) i /\ jh (sem S (EDy OAdd e (EConst v)) x) i j = jh (sem S e x) i j.
Proof. exact sem_add_const. Qed.
Example ad_sound_hyps_nontrivial :
  wfe 3 ex_expr /\ sdom Sp0 ex_expr ex_point /\ mentions ex_expr 2 /\ ~ mentions (EMon OExp (EDy OMul (EVar 0) (EVar 1))) 2.
Proof. exact ex_hyps. Qed.

(* (a) composite programs: after the program the receiver represents the jet of the NAMED function of the
   operand jets; lift1 f f' f'' A = (f(x), g_i f'(x), g_i g_j f''(x) + H_ij f'(x)) at x = value of A *)
Theorem named_functions_derivatives : forall x,
  (is_derive sigm x (sigm1 x) /\ is_derive sigm1 x (sigm2 x)) /\
  (is_derive l1pe x (sigm x) /\ is_derive sigm x (sigm1 x)) /\
  (is_derive l1pe3 x (l1pe3' x) /\ is_derive l1pe3' x (l1pe3'' x)).
Proof. intro x. split; [apply sigm_derive|split; [apply l1pe_derive|apply l1pe3_derive]]. Qed.
Theorem logistic_program : forall S n o c a (s : St) A,      (* any aliasing, incl. c.Logistic(c) *)
  wf (s c) -> rep S n o (rd s a) A ->
  exists s', do_logistic (FlR S) idR c a s = Ok s' /\ frame c s s' /\ rep S n o (s' c) (lift1 sigm sigm1 sigm2 A).
Proof. exact logistic_jet. Qed.
Theorem sigmoid_program : forall S n o c a t (s : St) A,     (* both sign branches *)
  wf (s c) -> wf (s t) -> t <> c -> rep S n o (rd s a) A ->
  exists s', do_sigmoid (FlR S) idR c a t s = Ok s' /\ (forall q, q <> c -> q <> t -> s' q = s q) /\
             rep S n o (s' c) (lift1 sigm sigm1 sigm2 A).
Proof. exact sigmoid_jet. Qed.
(* Log1pExp: exp on x <= -37, EXACT ln(1+exp x) on (-37, 18], x + exp(-x) on (18, 33.3] (through the fresh
   temporary of HEAD 7035970: correct for c.Log1pExp(c) too), the identity above; the coefficient errors of
   the three approximating branches are bounded below (value: C02_log1pexp_error_bound of coq/C02) *)
Theorem log1pexp_program : forall S n o c a (s : St) A,
  wf (s c) -> rep S n o (rd s a) A ->
  (Rleb (jv A) (Q2R (333 # 10)%Q) = false -> not_reg a c) ->
  exists s', do_log1pexp (FlR S) idR c a s = Ok s' /\ frame c s s' /\ rep S n o (s' c) (log1pexp_branch_jet A).
Proof. exact log1pexp_jet. Qed.
Theorem log1pexp_branch_errors : forall x,
  (x <= -37 -> 0 <= exp x - sigm x <= exp (2 * x)) /\ 0 <= sigm x - l1pe3' x <= exp (- (2 * x)) /\ 0 <= 1 - sigm x <= exp (- x).
Proof. intro x. split; [apply log1pexp_branch1_coeff|split; [apply log1pexp_branch3_coeff|apply log1pexp_branch4_coeff]]. Qed.
Theorem sqrt_program : forall S n o c a (s : St) A,          (* Sqrt = Pow(a, 0.5) *)
  wf (s c) -> rep S n o (rd s a) A -> 0 < jv A ->
  exists s', do_sqrt (FlR S) idR c a s = Ok s' /\ frame c s s' /\
    rep S n o (s' c) (lift1 sqrt (fun x => / (2 * sqrt x)) (fun x => - / (4 * x * sqrt x)) A).
Proof. exact sqrt_jet. Qed.
Theorem abs_program : forall S n o c a (s : St) A,           (* Abs off 0; the concrete ABS is the same program *)
  wf (s c) -> rep S n o (rd s a) A -> jv A <> 0 -> (0 < jv A -> not_reg a c) ->
  exists s', do_abs (FlR S) idR c a s = Ok s' /\ frame c s s' /\
    rep S n o (s' c) (lift1 Rabs (fun x => if Rlt_dec x 0 then -1 else 1) (fun _ => 0) A).
Proof. exact abs_jet. Qed.
Theorem min_program : forall S n o c a b (s : St) A B,
  wf (s c) -> rk (s c) = K64 -> rep S n o (rd s a) A -> rep S n o (rd s b) B -> not_reg a c -> not_reg b c ->
  exists s', do_min (FlR S) idR c a b s = Ok s' /\ frame c s s' /\ rep S n o (s' c) (if Rlt_dec (jv A) (jv B) then A else B).
Proof. exact min_jet. Qed.
Theorem max_program : forall S n o c a b (s : St) A B,
  wf (s c) -> rk (s c) = K64 -> rep S n o (rd s a) A -> rep S n o (rd s b) B -> not_reg a c -> not_reg b c ->
  exists s', do_max (FlR S) idR c a b s = Ok s' /\ frame c s s' /\ rep S n o (s' c) (if Rlt_dec (jv B) (jv A) then A else B).
Proof. exact max_jet. Qed.
Theorem logadd_program : forall S n o c a b t (s : St) A B,  (* ln(exp x + exp y): value, sigm(x-y), sigm(y-x), -w, w, w *)
  wf (s c) -> wf (s t) -> t <> c -> not_reg a t -> not_reg b t -> not_reg a c -> not_reg b c ->
  rep S n o (rd s a) A -> rep S n o (rd s b) B ->
  exists s', do_logadd (FlR S) idR c a b t s = Ok s' /\ (forall q, q <> c -> q <> t -> s' q = s q) /\
    rep S n o (s' c) (if Rlt_dec (jv B) (jv A) then logadd_jet B A else logadd_jet A B).
Proof. exact logadd_jet_thm. Qed.
Theorem logsub_program : forall S n o c a b t (s : St) A B,  (* ln(exp x - exp y), y < x *)
  wf (s c) -> wf (s t) -> t <> c -> not_reg a t -> not_reg b t -> not_reg a c ->
  rep S n o (rd s a) A -> rep S n o (rd s b) B -> jv B < jv A ->
  exists s', do_logsub (FlR S) idR c a b t s = Ok s' /\ (forall q, q <> c -> q <> t -> s' q = s q) /\
    rep S n o (s' c) (logsub_jet A B).
Proof. exact logsub_jet_thm. Qed.
(* the -Inf short cuts, for every carrier (binary64 included): LogSub(a, -Inf) = Set(a); LogAdd with the smaller operand infinite = Set(b) *)
Theorem logsub_neg_inf_is_set : forall T (Fl0 : Fl T) r32 c a b t (s : St),
  fisinf Fl0 (rval (rd s b)) (-1) = true -> do_logsub Fl0 r32 c a b t s = set_reg Fl0 r32 c a s.
Proof. exact @logsub_neg_inf_shortcut. Qed.
Theorem logadd_inf_is_set : forall T (Fl0 : Fl T) r32 c a b t (s : St),
  fltb Fl0 (rndk r32 (rk (rd s a)) (rval (rd s b))) (rndk r32 (rk (rd s a)) (rval (rd s a))) = false ->
  is_inf Fl0 (rval (rd s a)) = true -> do_logadd Fl0 r32 c a b t s = set_reg Fl0 r32 c b s.
Proof. exact @logadd_inf_shortcut. Qed.
(* reductions on a REUSED accumulator (same N and order as the computation, arbitrary stale content) *)
Theorem mtrace_program : forall S n o r diag Js (s : St),
  wf (s r) -> rorder (s r) = o -> rn (s r) = n ->
  Forall2 (fun x J => rep S n o (rd s x) J /\ not_reg x r) diag Js ->
  exists s', do_mtrace (FlR S) idR r diag s = Ok s' /\ frame r s s' /\ rep S n o (s' r) (fold_left (jadd S) Js (jconst 0)).
Proof. exact mtrace_jet. Qed.
Theorem vmean_program : forall S n o r xs Js (s : St),
  wf (s r) -> rorder (s r) = o -> rn (s r) = n -> xs <> [] ->
  Forall2 (fun x J => rep S n o (rd s x) J /\ not_reg x r) xs Js ->
  exists s', do_vmean (FlR S) idR r xs s = Ok s' /\ frame r s s' /\
    exists M, rep S n o (s' r) M /\ let T := fold_left (jadd S) Js (jconst 0) in let N := INR (length xs) in
      jv M = jv T / N /\ ((1 <= o)%nat -> forall i, (i < n)%nat -> jg M i = jg T i / N) /\
      ((2 <= o)%nat -> forall i j, (i < n)%nat -> (j < n)%nat -> jh M i j = jh T i j / N).
Proof. exact vmean_jet. Qed.
Theorem jadd_is_slotwise_sum : forall S A B,
  jv (jadd S A B) = jv A + jv B /\ (forall i, jg (jadd S A B) i = jg A i + jg B i) /\
  (forall i j, jh (jadd S A B) i j = jh A i j + jh B i j).
Proof. exact jadd_slots. Qed.

(* ------------------------------------------------------------------ round 3 *)

(* (A) receiver = operand aliasing, for EVERY combinator copy.  C01/ModelVariants.v transliterates the eight Go
   functions (monadic, monadicLazy, realMonadic, realMonadicLazy, dyadic, dyadicLazy, realDyadic, realDyadicLazy)
   one by one; for every carrier (binary64 replay included) each is the shared loop of C01/Model.v, so the generic
   method and its concrete twin are the same instruction of the model. *)
Theorem eight_combinators_two_loops : forall T (Fl0 : Fl T) (r32 : T -> T),
  (forall v c a v0 v1 v2 (s : St), cmb_mon Fl0 r32 v c a v0 v1 v2 s = monadic Fl0 r32 c (Rg a) v0 v1 v2 s) /\
  (forall v c a b v0 v10 v01 v11 v20 v02 (s : St),
     cmb_dy Fl0 r32 v c a b v0 v10 v01 v11 v20 v02 s = dyadic Fl0 r32 c (Rg a) (Rg b) v0 v10 v01 v11 v20 v02 s) /\
  (forall conc op c a s, do_mon_v Fl0 r32 conc op c a s = do_mon Fl0 r32 op c (Rg a) s) /\
  (forall conc op c a b s, do_dy_v Fl0 r32 conc op c a b s = do_dy Fl0 r32 op c (Rg a) (Rg b) s).
Proof.
  intros T Fl0 r32. split; [apply cmb_mon_eq|]. split; [apply cmb_dy_eq|]. split; [apply do_mon_v_eq|apply do_dy_v_eq].
Qed.
(* the aliased call leaves in the receiver what the call with a fresh receiver c' leaves in c': value, order, N,
   every gradient slot, every Hessian slot.  (C08 proves receiver-independence of the generic operation table over
   an arbitrary carrier: coq/C08/Props.v combinator_one_operand_closed_form, combinator_two_operands_closed_form,
   scalar_operation_receiver_independent, alias_one_operand, alias_two_operands.) *)
Theorem alias_one_argument_every_copy : forall S v c c' v0 v1 v2 (s : St),        (* c.Op(c) *)
  wf (s c) -> wf (s c') -> sym_reg S (s c) ->
  exists s1 s2, cmb_mon (FlR S) idR v c c v0 v1 v2 s = Ok s1 /\ cmb_mon (FlR S) idR v c' c v0 v1 v2 s = Ok s2 /\
                same_jet S (s1 c) (s2 c').
Proof. exact monadic_copies_alias. Qed.
Theorem alias_two_arguments_c_is_a : forall S v c c' b v0 v10 v01 v11 v20 v02 (s : St),   (* c.Op(c, b) *)
  c' <> c -> c' <> b -> wf (s c) -> wf (s c') -> wf (s b) -> sym_reg S (s c) -> sym_reg S (s b) ->
  dy_guard (s c) (s b) = None -> (rn (s b) <= rn (s c))%nat -> (rorder (s b) <= rorder (s c))%nat ->
  exists s1 s2, cmb_dy (FlR S) idR v c c b v0 v10 v01 v11 v20 v02 s = Ok s1 /\
                cmb_dy (FlR S) idR v c' c b v0 v10 v01 v11 v20 v02 s = Ok s2 /\ same_jet S (s1 c) (s2 c').
Proof. exact dyadic_copies_alias_c_is_a. Qed.
Theorem alias_two_arguments_c_is_b : forall S v c c' a v0 v10 v01 v11 v20 v02 (s : St),   (* c.Op(a, c) *)
  c' <> c -> c' <> a -> wf (s c) -> wf (s c') -> wf (s a) -> sym_reg S (s c) -> sym_reg S (s a) ->
  dy_guard (s a) (s c) = None -> (rn (s a) <= rn (s c))%nat -> (rorder (s a) <= rorder (s c))%nat ->
  exists s1 s2, cmb_dy (FlR S) idR v c a c v0 v10 v01 v11 v20 v02 s = Ok s1 /\
                cmb_dy (FlR S) idR v c' a c v0 v10 v01 v11 v20 v02 s = Ok s2 /\ same_jet S (s1 c) (s2 c').
Proof. exact dyadic_copies_alias_c_is_b. Qed.
Theorem alias_two_arguments_c_is_a_is_b : forall S v c c' v0 v10 v01 v11 v20 v02 (s : St),   (* c.Op(c, c) *)
  c' <> c -> wf (s c) -> wf (s c') -> sym_reg S (s c) -> dy_guard (s c) (s c) = None ->
  exists s1 s2, cmb_dy (FlR S) idR v c c c v0 v10 v01 v11 v20 v02 s = Ok s1 /\
                cmb_dy (FlR S) idR v c' c c v0 v10 v01 v11 v20 v02 s = Ok s2 /\ same_jet S (s1 c) (s2 c').
Proof. exact dyadic_copies_alias_c_is_a_is_b. Qed.
(* hypotheses satisfiable: order 2, N = 2, gradients (1/2, 3/4) and (1, -1/4) non-zero and not proportional *)
Example alias_hyps_nontrivial_instance : forall S,
  wf (st_alias 0%nat) /\ wf (st_alias 1%nat) /\ wf (st_alias 2%nat) /\ sym_reg S (st_alias 0%nat) /\ sym_reg S (st_alias 1%nat) /\
  dy_guard (st_alias 0%nat) (st_alias 1%nat) = None /\ dy_guard (st_alias 1%nat) (st_alias 0%nat) = None /\
  dy_guard (st_alias 0%nat) (st_alias 0%nat) = None /\
  (rn (st_alias 1%nat) <= rn (st_alias 0%nat))%nat /\ (rorder (st_alias 1%nat) <= rorder (st_alias 0%nat))%nat /\
  gd (FlR S) (st_alias 0%nat) 0 * gd (FlR S) (st_alias 1%nat) 1 <> gd (FlR S) (st_alias 0%nat) 1 * gd (FlR S) (st_alias 1%nat) 0.
Proof. exact alias_hyps_nontrivial. Qed.
(* the statement order of the copies matters: with the gradient loop moved above the Hessian block (the seeded
   regression of realDyadic) c.MUL(c, y) at x = y = 3/2 reports d2/dx2 = 6 instead of 2; value and gradient are right,
   and with a fresh receiver nothing shows *)
Theorem in_place_square_hessian : forall S,
  exists s', dyadic (FlR S) idR 0 (Rg 0) (Rg 1) (3/2 * (3/2)) (3/2) (3/2) 1 0 0 st_sq = Ok s' /\
             rval (s' 0%nat) = 9/4 /\ gd (FlR S) (s' 0%nat) 0 = 3 /\ gh (FlR S) (s' 0%nat) 0 0 = 2.
Proof. exact mul_in_place_hessian. Qed.
Theorem gradient_before_hessian_refuted : forall S,
  exists s', dyadic_gradient_first (FlR S) idR 0 (Rg 0) (Rg 1) (3/2 * (3/2)) (3/2) (3/2) 1 0 0 st_sq = Ok s' /\
             rval (s' 0%nat) = 9/4 /\ gd (FlR S) (s' 0%nat) 0 = 3 /\ gh (FlR S) (s' 0%nat) 0 0 = 6.
Proof. exact gradient_first_refuted. Qed.
(* (B) one table operation for ANY receiver: fresh, stale, an operand of the computation's shape, or an operand that
   is still a constant — r.Add(r, x) on a fresh accumulator, which AllocForTwo reallocates (no [alloc_keeps]) *)
Theorem step_dyadic_any_receiver : forall S n o op c a b (s : St) A B,
  wf (s c) -> rep S n o (rd s a) A -> rep S n o (rd s b) B ->
  exists s', do_dy (FlR S) idR op c a b s = Ok s' /\ frame c s s' /\ rk (s' c) = rk (s c) /\
    rep S n o (s' c) (jdy (d_v0 (FlR S) op (jv A) (jv B)) (d_f10 (FlR S) op (jv A) (jv B)) (d_f01 (FlR S) op (jv A) (jv B))
                          (d_f11 (FlR S) op (jv A) (jv B)) (d_f20 (FlR S) op (jv A) (jv B)) (d_f02 (FlR S) op (jv A) (jv B)) A B) /\
    rorder (s' c) = Nat.max (rorder (rd s a)) (rorder (rd s b)) /\ rn (s' c) = Nat.max (rn (rd s a)) (rn (rd s b)).
Proof. exact rep_dy_any. Qed.

(* (C) reductions for a receiver of ANY admissible shape — reused (the computation's N and order, any stale
   content) or FRESH (order 0: reallocated by AllocForTwo in the first r.Add(r, x)); elements are registers
   other than the accumulator / temporary.  shp n o r: (order, N) = (o, n) or (0, 0). *)
Theorem mtrace_program_any_receiver : forall S n o r diag Js (s : St),
  wf (s r) -> shp n o (s r) ->
  Forall2 (fun x J => rep S n o (rd s x) J /\ not_reg x r) diag Js ->
  exists s', do_mtrace (FlR S) idR r diag s = Ok s' /\ frame r s s' /\ rep S n o (s' r) (fold_left (jadd S) Js (jconst 0)).
Proof. exact mtrace_any. Qed.
Theorem vmean_program_any_receiver : forall S n o r xs Js (s : St),
  wf (s r) -> shp n o (s r) -> xs <> [] ->
  Forall2 (fun x J => rep S n o (rd s x) J /\ not_reg x r) xs Js ->
  exists s', do_vmean (FlR S) idR r xs s = Ok s' /\ frame r s s' /\
    exists M, rep S n o (s' r) M /\ let T := fold_left (jadd S) Js (jconst 0) in let N := INR (length xs) in
      jv M = jv T / N /\ ((1 <= o)%nat -> forall i, (i < n)%nat -> jg M i = jg T i / N) /\
      ((2 <= o)%nat -> forall i j, (i < n)%nat -> (j < n)%nat -> jh M i j = jh T i j / N).
Proof. exact vmean_any. Qed.
Example fresh_accumulator_is_admissible : forall n o, shp n o (mkReg K64 0 0 0 [] []) /\ wf (mkReg K64 0 0 0 [] []).
Proof. intros n o. split; [right; split; reflexivity|split; cbn; intros; lia]. Qed.
(* VdotV: sum_i a_i b_i (jmul = the Mul entry of the table: value a b, gradient a' b + b' a, Hessian with the cross terms) *)
Theorem vdotv_program : forall S n o r t its (s : St),
  t <> r -> wf (s r) -> shp n o (s r) ->
  List.Forall (fun i => elt S n o r t (it_a i) (it_A i) s /\ elt S n o r t (it_b i) (it_B i) s) its ->
  exists s', do_vdotv (FlR S) idR r (map it_a its) (map it_b its) t s = Ok s' /\ frame2 r t s s' /\
    rep S n o (s' r) (fold_left (fun acc i => jadd S acc (jmul S (it_A i) (it_B i))) its (jconst 0)).
Proof. exact vdotv_jet. Qed.
Theorem jmul_is_the_product_rule : forall S A B,
  jv (jmul S A B) = jv A * jv B /\ (forall i, jg (jmul S A B) i = jg A i * jv B + jg B i * jv A) /\
  (forall i j, jh (jmul S A B) i j = jh A i j * jv B + jh B i j * jv A + jg A i * jg B j + jg B i * jg A j).
Proof. exact jmul_slots. Qed.
(* Vnorm = sqrt (sum of squares), on a non-zero vector *)
Theorem vnorm_program : forall S n o r t its (s : St),
  t <> r -> wf (s r) -> shp n o (s r) -> List.Forall (fun i => elt S n o r t (fst i) (snd i) s) its ->
  let T := fold_left (fun acc i => jadd S acc (sq_it S i)) its (jconst 0) in
  0 < jv T ->
  exists s', do_vnorm (FlR S) idR r (map fst its) t s = Ok s' /\ frame2 r t s s' /\
    rep S n o (s' r) (lift1 sqrt (fun x => / (2 * sqrt x)) (fun x => - / (4 * x * sqrt x)) T).
Proof. exact vnorm_jet. Qed.
(* Mnorm AS CODED: the sum of squares, no square root (known finding F-MNORM-SQRT, property C02) *)
Theorem mnorm_program_as_coded : forall S n o r t x0 J0 its (s : St),
  t <> r -> wf (s r) -> elt S n o r t x0 J0 s -> List.Forall (fun i => elt S n o r t (fst i) (snd i) s) its ->
  exists s', do_mnorm (FlR S) idR r (x0 :: map fst its) t s = Ok s' /\ frame2 r t s s' /\
    rep S n o (s' r) (fold_left (fun acc i => jadd S acc (sq_it S i)) its (jsq S J0)).
Proof. exact mnorm_jet. Qed.
Theorem jsq_is_the_square : forall S A, 0 < jv A ->
  jv (jsq S A) = jv A * jv A /\ (forall i, jg (jsq S A) i = 2 * jv A * jg A i) /\
  (forall i j, jh (jsq S A) i j = 2 * jg A i * jg A j + 2 * jv A * jh A i j).
Proof. exact jsq_slots. Qed.
(* SmoothMax: (sum_i x_i exp(alpha x_i)) / (sum_i exp(alpha x_i)); two accumulators and a scratch register *)
Theorem smoothmax_program : forall S n o r t0 t1 alpha its (s : St),
  r <> t0 -> r <> t1 -> t0 <> t1 -> wf (s r) -> wf (s t0) -> wf (s t1) -> shp n o (s r) -> shp n o (s t1) ->
  List.Forall (fun i => elt3 S n o r t0 t1 (fst i) (snd i) s) its ->
  exists s', do_smoothmax (FlR S) idR r (map fst its) alpha t0 t1 s = Ok s' /\ frame3 r t0 t1 s s' /\
    rep S n o (s' r) (jdiv S (fold_left (fun acc i => jadd S acc (jmul S (jw S alpha (snd i)) (snd i))) its (jconst 0))
                             (fold_left (fun acc i => jadd S acc (jw S alpha (snd i))) its (jconst 0))).
Proof. exact smoothmax_jet. Qed.

(* (D) ad_sound's program class extended: expression DAGs (XLet / XRef: a sub-result computed once, read by several
   parents) and composite nodes (Logistic, Sigmoid, Sqrt, Abs off 0, Min, Max, LogAdd; Pow with a variable exponent
   is XDy OPowV).  The compiled program leaves the jet [xsem env e x] in its result operand... *)
Theorem dag_program_computes_xsem : forall S n o x e cenv env nx (s : St),
  xwfe n (length env) e -> xinv S n o x cenv env nx s -> xdomc S env e x -> xres S n o env x e cenv nx s.
Proof. exact xcompile_sound. Qed.
Theorem dag_ad_run : forall S n o e x (s : St),
  (1 <= o)%nat -> xwfe n 0 e -> xdomc S [] e x ->
  (forall k, (k < n)%nat -> rorder (s k) = 0%nat /\ rval (s k) = x k) -> (forall q, (n <= q)%nat -> wf (s q)) ->
  exists s', run (FlR S) idR (vars_prog n o ++ fst (fst (xcompile [] e n))) s = Ok s' /\
    let r := rd s' (snd (fst (xcompile [] e n))) in
    rval r = jv (xsem S [] e x) /\
    (forall i, (i < n)%nat -> gd (FlR S) r i = jg (xsem S [] e x) i) /\
    ((2 <= o)%nat -> forall i j, (i < n)%nat -> (j < n)%nat ->
        gh (FlR S) r i j = jh (xsem S [] e x) i j /\ gh (FlR S) r i j = gh (FlR S) r j i).
Proof. exact xad_run. Qed.
(* ... sharing does not change the jet: the DAG and the tree it unfolds to have the same jet ... *)
Theorem sharing_preserves_the_jet : forall S e x, xsem S [] e x = xsem S [] (unlet [] e) x.
Proof. exact xsem_closed_unlet. Qed.
(* ... and for let-free expressions over the table operations, Logistic, Sigmoid and Sqrt the jet is value / first /
   second partial derivatives of the denoted function *)
Theorem dag_jets_are_derivatives : forall S e x, xdom S e x ->
  forall i, partial (xden S e) i x (jg (xsem S [] e x) i) /\
            forall j, partial (fun y => jg (xsem S [] e y) i) j x (jh (xsem S [] e x) i j).
Proof. exact xD_correct. Qed.
Definition ex_dag : xexpr :=     (* let u = x0 * x1 in logistic(u) * sqrt(u) + u : u is read three times *)
  XLet (XDy OMul (XVar 0) (XVar 1)) (XDy OAdd (XDy OMul (XLogistic (XRef 0)) (XSqrt (XRef 0))) (XRef 0)).
Example dag_hyps_nontrivial : xwfe 2 0 ex_dag /\ xdomc Sp0 [] ex_dag (fun k => match k with O => 2 | _ => 3 end).
Proof.
  split; [cbn; repeat split; lia|]. cbn [ex_dag xdomc xsem app nth]. repeat split.
  cbn [jv jdy d_v0 jvar FlR fmul]. lra.
Qed.

(* (E) special-function coefficients relative to the defining relations (hypotheses of the statement, no axioms) *)
Theorem logerfc_coefficients : forall S,
  (forall x, is_derive (sErfc S) x (- (2 / sqrt PI * exp (- (x * x))))) -> (forall x, 0 < sErfc S x) ->
  (forall x, sLogErfc S x = ln (sErfc S x)) ->
  forall x, m_ok S OLogErfc x /\
            m_f1 (FlR S) OLogErfc x = - 2 * exp (- (x * x)) / (sqrt PI * sErfc S x) /\
            m_f2 (FlR S) OLogErfc x = - 2 * x * m_f1 (FlR S) OLogErfc x - m_f1 (FlR S) OLogErfc x * m_f1 (FlR S) OLogErfc x.
Proof.
  intros S H1 H2 H3 x. split; [apply logerfc_ok; auto|]. split; [apply logerfc_f1_closed; auto|apply logerfc_f2_overflow_free; auto].
Qed.
Theorem mlgamma_coefficients : forall S,
  (forall x, 0 < x -> is_derive (sLgamma S) x (sDigamma S x)) -> (forall x, 0 < x -> is_derive (sDigamma S) x (sTrigamma S x)) ->
  (forall x k, sMlgamma S x (Z.of_nat k) = INR k * (INR k - 1) / 4 * ln PI + sumk (FlR S) (sLgamma S) x k) ->
  forall k x, (forall j, (1 <= j <= k)%nat -> 0 < x + IZR (1 - Z.of_nat j) / 2) -> m_ok S (OMlgamma k) x.
Proof. intros S H1 H2 H3 k x. apply mlgamma_ok; auto. Qed.
Theorem gammap_coefficients : forall S a x,
  is_derive (sGammaP S a) x (sGammaPd1 S a x) -> is_derive (sGammaPd1 S a) x (sGammaPd2 S a x) -> m_ok S (OGammaP a) x.
Proof. exact gammap_ok. Qed.
Theorem besseli_coefficients : forall S,
  (forall v x, 0 < x -> is_derive (sBesselI S v) x (sBesselI S (v - 1) x - v / x * sBesselI S v x)) ->
  (forall v x, 0 < x -> is_derive (sBesselI S v) x ((sBesselI S (v - 1) x + sBesselI S (v + 1) x) / 2)) ->
  forall v x, 0 < x -> m_ok S (OBesselI v) x.
Proof. intros S H1 H2 v x. apply besseli_ok; auto. Qed.

(* Round 6 theorems are in C01/PropsLSM.v (LogSmoothMax in two halves: the -Inf short cut on every carrier with the three
   inf laws — the binary64 replay carrier has them — and the jet / value of the peeled program over the reals; LogAdd for
   any receiver; carrier-generic frames) and C01/PropsGen.v (G6: the seven vector / matrix loops, G7: the predicates,
   regenerated from the source on every run).

   Not proved (stated for the record):
   dag_jets_are_derivatives_partial — for Abs, Min, Max, LogAdd nodes the program is proved to compute the jet of the
     named closed form (lift1 Rabs .., the selected operand, logadd_jet: dag_program_computes_xsem) but the statement
     that this jet is the derivative of the denoted function (off the kink / off ties) is only proved for the
     let-free fragment over table operations, Logistic, Sigmoid, Sqrt.  The same holds for lse_step inside
     logsmoothmax_program: its slots are the closed forms of lse_step_closed_form, not proved to be partial derivatives.
   LogBesselI coefficients: correspondence and certificates only.
   Log1pExp as a DAG node: its branch jets are log1pexp_program. *)
