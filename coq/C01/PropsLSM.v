(* C01 — property theorems of round 6 (statements only; proofs in ProofsLSM.v / ProofsLSMF.v / ProofsSeq.v):
   LogSmoothMax, LogAdd for any receiver, frames of the model steps for every carrier. *)
From Coq Require Import Reals ZArith QArith Qreals List Lra Lia.
From Coquelicot Require Import Coquelicot.
From ADV Require Import Base.Fl Base.Num C01.Model C01.ModelR C01.Spec C01.ProofsComb C01.ProofsOps C01.ProofsProg
     C01.ProofsAlias C01.ProofsRed C01.ProofsSmooth C01.ProofsSeq C01.ProofsLSM C01.Corr C01.ProofsLSMF C01.ProofsFar.
Import ListNotations.
Open Scope R_scope.

(* (F) every model step with receiver c changes no other register — for EVERY carrier (binary64 / binary32 replay
   included), whatever the aliasing: the frame clause of the single-step theorems, carrier-generic *)
Theorem model_steps_write_only_the_receiver : forall (T : Type) (Fl0 : Fl T) (r32 : T -> T) c (s s' : St),
  (forall op a, do_mon Fl0 r32 op c a s = Ok s' -> only c s s') /\
  (forall op a b, do_dy Fl0 r32 op c a b s = Ok s' -> only c s s') /\
  (forall a k, do_pow Fl0 r32 c a k s = Ok s' -> only c s s') /\
  (forall b, set_reg Fl0 r32 c b s = Ok s' -> only c s s') /\
  (forall v, do_setf Fl0 r32 c v s = Ok s' -> only c s s') /\
  (do_reset Fl0 c s = Ok s' -> only c s s').
Proof. exact @steps_only. Qed.

(* (L1) LogAdd for ANY receiver: c.LogAdd(a, b, t) with c = a or c = b (the accumulator pattern r.LogAdd(r, x, t) of
   LogSmoothMax) or a fresh c; only the temporary must be a third register.  The result jet does not depend on which
   operand the program treats as the larger one. *)
Theorem logadd_program_any_receiver : forall S n o c a b t (s : St) A B,
  wf (s c) -> wf (s t) -> t <> c -> not_reg a t -> not_reg b t ->
  rep S n o (rd s a) A -> rep S n o (rd s b) B ->
  exists s', do_logadd (FlR S) idR c a b t s = Ok s' /\ (forall q, q <> c -> q <> t -> s' q = s q) /\ wf (s' t) /\
    rep S n o (s' c) (lse_step A B).
Proof. exact logadd_any. Qed.
(* (L1') round 7 — the operand-ordering prologue keeps exp() away from overflow, however far apart the operands are:
   after c.LogAdd(a, b, t) the temporary holds ln (1 + exp (min - max)), the argument handed to exp is never positive,
   and the temporary lies in (0, ln 2] (so the result max + t is representable whenever max is) *)
Theorem logadd_temporary_bounded : forall S n o c a b t (s : St) A B,
  wf (s c) -> wf (s t) -> t <> c -> not_reg a t -> not_reg b t -> not_reg a c -> not_reg b c ->
  rep S n o (rd s a) A -> rep S n o (rd s b) B ->
  exists s', (do_logadd (FlR S) idR c a b t s = Ok s') /\
    (rval (s' t) = ln (1 + exp (Rmin (jv A) (jv B) - Rmax (jv A) (jv B)))) /\
    (Rmin (jv A) (jv B) - Rmax (jv A) (jv B) <= 0) /\ (0 < rval (s' t) <= ln 2).
Proof. exact logadd_tmp_bounded. Qed.
Example logadd_far_hyps_nontrivial :   (* operands 998 apart: exp 998 is not representable in binary64 *)
  let s : @St R := upd (upd stR0 0 (mkReg K64 2 1 1 [1] [])) 1 (mkReg K64 1000 1 1 [5] []) in
  wf (s 2%nat) /\ wf (s 3%nat) /\ 3%nat <> 2%nat /\ not_reg (Rg 0) 3 /\ not_reg (Rg 1) 3 /\ not_reg (Rg 0) 2 /\ not_reg (Rg 1) 2 /\
  rep Sp0 1 1 (rd s (Rg 0)) (jvar 2 0) /\ rep Sp0 1 1 (rd s (Rg 1)) (mkJet 1000 (fun _ => 5) (fun _ _ => 0)) /\
  709 < Rmax (jv (jvar 2 0)) 1000 - Rmin (jv (jvar 2 0)) 1000.
Proof. exact logadd_far_hyps. Qed.
(* (L1'') round 7 — exact stationary points on a REUSED receiver: a chain-rule coefficient that is exactly 0 still
   overwrites the slot.  After c.Op(a) at a point with f'(a) = 0 every gradient slot of c is 0 whatever c held before
   (stale jet of an earlier computation with the same N and order) and the Hessian is g_i g_j f''(a); after c.Op(a, b)
   with both first-order partials 0 (x * y at (0, 0)) every gradient slot is 0, for every receiver (operands included) *)
Theorem stationary_point_overwrites_stale_slots : forall S n o op c a (s : St) A,
  wf (s c) -> rep S n o (rd s a) A -> m_f1 (FlR S) op (jv A) = 0 ->
  exists s', do_mon (FlR S) idR op c a s = Ok s' /\
    ((1 <= o)%nat -> forall i, (i < n)%nat -> gd (FlR S) (s' c) i = 0) /\
    ((2 <= o)%nat -> forall i j, (i < n)%nat -> (j < n)%nat ->
       gh (FlR S) (s' c) i j = jg A i * jg A j * m_f2 (FlR S) op (jv A)).
Proof. exact stationary_mon. Qed.
Theorem stationary_point_two_arguments : forall S n o op c a b (s : St) A B,
  wf (s c) -> rep S n o (rd s a) A -> rep S n o (rd s b) B ->
  d_f10 (FlR S) op (jv A) (jv B) = 0 -> d_f01 (FlR S) op (jv A) (jv B) = 0 ->
  exists s', do_dy (FlR S) idR op c a b s = Ok s' /\
    ((1 <= o)%nat -> forall i, (i < n)%nat -> gd (FlR S) (s' c) i = 0).
Proof. exact stationary_dy. Qed.
Example stationary_hyps_nontrivial :   (* cos at 0 and x * x at 0; the receiver (register 1) holds a stale gradient 3 *)
  let s : @St R := upd (upd stR0 0 (mkReg K64 0 1 1 [1] [])) 1 (mkReg K64 7 1 1 [3] []) in
  wf (s 1%nat) /\ rep Sp0 1 1 (rd s (Rg 0)) (jvar 0 0) /\
  m_f1 (FlR Sp0) OCos (jv (jvar 0 0)) = 0 /\
  d_f10 (FlR Sp0) OMul (jv (jvar 0 0)) (jv (jvar 0 0)) = 0 /\ d_f01 (FlR Sp0) OMul (jv (jvar 0 0)) (jv (jvar 0 0)) = 0 /\
  gd (FlR Sp0) (s 1%nat) 0 = 3.
Proof. exact stationary_hyps. Qed.
Theorem lse_step_closed_form : forall A B,
  let w := sigm (jv A - jv B) * sigm (jv B - jv A) in
  jv (lse_step A B) = ln (exp (jv A) + exp (jv B)) /\
  (forall i, jg (lse_step A B) i = jg A i * sigm (jv A - jv B) + jg B i * sigm (jv B - jv A)) /\
  (forall i j, jh (lse_step A B) i j =
     jh A i j * sigm (jv A - jv B) + jh B i j * sigm (jv B - jv A) + w * (jg A i - jg B i) * (jg A j - jg B j)).
Proof. exact lse_step_slots. Qed.
(* the coefficients of that jet ARE derivatives: along every differentiable curve (G, H) through (x, y) the value
   ln(exp G + exp H) has derivative G' sigm(x-y) + H' sigm(y-x), and the two first-order coefficients have the derivatives
   built from -w, w, w — the curve form (Props.coefficients_dyadic_along_curves) that ad_sound requires of a two-argument
   table entry, for the composite LogAdd; no domain restriction *)
Theorem logadd_coefficients_along_curves : forall x y (G H : R -> R) t0 G' H',
  G t0 = x -> H t0 = y -> is_derive G t0 G' -> is_derive H t0 H' ->
  let w := sigm (x - y) * sigm (y - x) in
  is_derive (fun t => logadd_fn (G t) (H t)) t0 (G' * sigm (x - y) + H' * sigm (y - x)) /\
  is_derive (fun t => sigm (G t - H t)) t0 (G' * w + H' * (- w)) /\
  is_derive (fun t => sigm (H t - G t)) t0 (G' * (- w) + H' * w).
Proof. exact logadd_along_curves. Qed.
Example logadd_any_hyps_nontrivial :     (* r.LogAdd(r, x, t): receiver = first operand, order 1, N = 1 *)
  let s : St := upd (upd stR0 0 (mkReg K64 2 1 1 [1] [])) 1 (mkReg K64 3 1 1 [5] []) in
  wf (s 1%nat) /\ wf (s 2%nat) /\ 2%nat <> 1%nat /\ not_reg (Rg 1) 2 /\ not_reg (Rg 0) 2 /\
  rep Sp0 1 1 (rd s (Rg 1)) (mkJet 3 (fun _ => 5) (fun _ _ => 0)) /\ rep Sp0 1 1 (rd s (Rg 0)) (jvar 2 0).
Proof.
  cbv zeta. cbn [rd upd Nat.eqb].
  assert (W : forall v d, wf (mkReg K64 v 1 1 [d] [])) by (intros v d; split; cbn; intros; [reflexivity|lia]).
  assert (Rp : forall v d J, jv J = v -> jg J 0 = d -> rep Sp0 1 1 (mkReg K64 v 1 1 [d] []) J).
  { intros v d J Hv Hd. split; [apply W|]. split; [intros i j; reflexivity|]. split; [cbn; congruence|].
    split; [left; split; reflexivity|]. split.
    - intros _ i Hi. assert (i = 0%nat) by lia. subst. cbn. congruence.
    - intros H2. lia. }
  split; [apply W|]. split; [split; cbn; intros; lia|]. split; [lia|].
  split; [intros k E; inversion E; lia|]. split; [intros k E; inversion E; lia|].
  split; apply Rp; reflexivity.
Qed.

(* (L2) LogSmoothMax, first half — EVERY carrier satisfying three laws about -Inf: on a non-empty vector the program
   r.SetFloat64(-Inf); t2.SetFloat64(-Inf); for each x { t0 = x*alpha; t2 = LogAdd(t2,t0); t1 = Log x; t0 += t1;
   r = LogAdd(r,t0) }; r -= t2; r = Exp r   IS the program whose first iteration has Set in place of the two LogAdd
   (the IsInf short cut) — for all registers and values, NaN and -Inf elements included ... *)
Theorem logsmoothmax_first_iteration_is_set : forall (T : Type) (Fl0 : Fl T) (r32 : T -> T) r x0 rest alpha t0 t1 t2 (s : St),
  inf_laws Fl0 r32 -> r <> t0 -> r <> t1 -> r <> t2 -> t2 <> t0 ->
  do_logsmoothmax Fl0 r32 r (x0 :: rest) alpha t0 t1 t2 s = do_logsmoothmax_peeled Fl0 r32 r x0 rest alpha t0 t1 t2 s.
Proof. exact @logsmoothmax_is_peeled. Qed.
(* ... and the carrier of the bit-exact correspondence (binary64 with Go's float32 conversion, any libm oracle)
   satisfies the laws: the hypothesis is not vacuous and the statement covers what the replay executes *)
Theorem binary64_carrier_satisfies_the_inf_laws : forall t : oracle, inf_laws (FlF t) round32.
Proof. exact float_inf_laws. Qed.

(* (L3) LogSmoothMax, second half — over the reals the peeled program leaves in r the jet (value, every gradient and
   Hessian slot) of  exp(LSE_i(alpha x_i + ln x_i) - LSE_i(alpha x_i))  built with the model's own Mul / Log / Add / Sub /
   Exp entries (whose coefficients are coefficients_elementary / coefficients_dyadic) and lse_step; receiver and t[2]
   reused or fresh, t[0] t[1] any well-formed registers, elements any represented operands other than the four *)
Theorem logsmoothmax_program : forall S n o r t0 t1 t2 alpha,
  r <> t0 -> r <> t1 -> r <> t2 -> t0 <> t1 -> t0 <> t2 -> t1 <> t2 -> forall x0 X0 its (s : St),
  wf (s r) -> wf (s t0) -> wf (s t1) -> wf (s t2) -> shp n o (s r) -> shp n o (s t2) ->
  elt4 S n o r t0 t1 t2 x0 X0 s -> List.Forall (fun i => elt4 S n o r t0 t1 t2 (fst i) (snd i) s) its ->
  exists s', do_logsmoothmax_peeled (FlR S) idR r x0 (map fst its) alpha t0 t1 t2 s = Ok s' /\ frame4 r t0 t1 t2 s s' /\
    rep S n o (s' r)
      (jexp S (jsub S (fold_left (fun acc i => lse_step acc (lsm_num S alpha (snd i))) its (lsm_num S alpha X0))
                      (fold_left (fun acc i => lse_step acc (lsm_den S alpha (snd i))) its (lsm_den S alpha X0)))).
Proof. exact logsmoothmax_peeled_jet. Qed.
(* its value on positive elements is the softmax-weighted mean — the same number SmoothMax computes *)
Theorem logsmoothmax_value_is_smoothmax : forall S alpha X0 (its : list (opd R * jet)),
  0 < jv X0 -> List.Forall (fun i => 0 < jv (snd i)) its ->
  jv (jexp S (jsub S (fold_left (fun acc i => lse_step acc (lsm_num S alpha (snd i))) its (lsm_num S alpha X0))
                     (fold_left (fun acc i => lse_step acc (lsm_den S alpha (snd i))) its (lsm_den S alpha X0)))) =
  fold_left (fun acc i => acc + jv (snd i) * exp (alpha * jv (snd i))) its (jv X0 * exp (alpha * jv X0)) /
  fold_left (fun acc i => acc + exp (alpha * jv (snd i))) its (exp (alpha * jv X0)).
Proof. exact logsmoothmax_value. Qed.
Example logsmoothmax_hyps_nontrivial :   (* two variables of order 1 in registers 0, 1; fresh r = 10, t = 11, 12, 13 *)
  let s : St := upd (upd stR0 0 (mkReg K64 2 1 2 [1; 0] [])) 1 (mkReg K64 3 1 2 [0; 1] []) in
  wf (s 10%nat) /\ wf (s 11%nat) /\ wf (s 12%nat) /\ wf (s 13%nat) /\ shp 2 1 (s 10%nat) /\ shp 2 1 (s 13%nat) /\
  elt4 Sp0 2 1 10 11 12 13 (Rg 0) (jvar 2 0) s /\
  List.Forall (fun i => elt4 Sp0 2 1 10 11 12 13 (fst i) (snd i) s) [(Rg 1, jvar 3 1)] /\
  0 < jv (jvar 2 0) /\ List.Forall (fun i : opd R * jet => 0 < jv (snd i)) [(Rg 1, jvar 3 1)].
Proof.
  cbv zeta.
  assert (W0 : wf (mkReg K64 0 0 0 [] [])) by (split; cbn; intros; lia).
  assert (Rp : forall v d0 d1 k, d0 = (if Nat.eqb 0 k then 1 else 0) -> d1 = (if Nat.eqb 1 k then 1 else 0) ->
               rep Sp0 2 1 (mkReg K64 v 1 2 [d0; d1] []) (jvar v k)).
  { intros v d0 d1 k H0 H1. split; [split; cbn; intros; [reflexivity|lia]|]. split; [intros i j; reflexivity|].
    split; [reflexivity|]. split; [left; split; reflexivity|]. split.
    - intros _ i Hi. destruct i as [|[|i]]; cbn; [exact H0|exact H1|lia].
    - intros H2. lia. }
  assert (NR : forall k q, k <> q -> not_reg (Rg k) q) by (intros k q H j E; inversion E; subst; exact H).
  cbn [upd Nat.eqb stR0].
  repeat (split; [first [exact W0 | right; split; reflexivity]|]).
  split.
  { split; [cbn [rd upd Nat.eqb]; apply Rp; reflexivity|]. repeat split; apply NR; lia. }
  split.
  { constructor; [|constructor]. cbn [fst snd]. split; [cbn [rd upd Nat.eqb]; apply Rp; reflexivity|]. repeat split; apply NR; lia. }
  split; [cbn; lra|]. constructor; [cbn; lra|constructor].
Qed.

(* (V) SetVariable on ANY well-formed receiver (HEAD 8241a1e: Alloc, then ResetDerivatives, then Derivative[i] = 1):
   a scalar that already holds n variables at this order — the result of an earlier computation, re-activated by
   Variables(order, ...) — ends as the k-th variable with every other gradient slot and the whole Hessian zero.
   (Props.step_set_variable needed the receiver to be reallocated.) *)
Theorem step_set_variable_any_receiver : forall S n o c k (s : St),
  (1 <= o)%nat -> (k < n)%nat -> wf (s c) ->
  exists s', set_variable (FlR S) idR c k n o s = Ok s' /\ frame c s s' /\ rk (s' c) = rk (s c) /\
             rep S n o (s' c) (jvar (rval (s c)) k).
Proof. exact rep_setvar_any. Qed.
Example set_variable_any_hyps_nontrivial :   (* order 2, N = 2, full of stale non-symmetric content: no reallocation *)
  let s : St := upd stR0 0 (mkReg K64 7 2 2 [3; -5] [[1; 2]; [30; 4]]) in
  (1 <= 2)%nat /\ (1 < 2)%nat /\ wf (s 0%nat) /\ rn (s 0%nat) = 2%nat /\ rorder (s 0%nat) = 2%nat.
Proof.
  cbv zeta. cbn [upd Nat.eqb]. split; [lia|]. split; [lia|]. split; [|split; reflexivity].
  split; intros _; cbn; [reflexivity|]. split; [reflexivity|]. intros [|[|i]] H; cbn; try reflexivity. lia.
Qed.
