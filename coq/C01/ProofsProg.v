(* C01/ProofsProg.v — the composite programs of scalar_real*_math.go on the model:
   after the program the receiver represents the jet of the NAMED function of the
   operand jets (value, gradient, Hessian by the one-argument chain rule with the
   closed-form first and second derivative of the named function). *)
From Coq Require Import Reals ZArith QArith Qreals List Bool Arith Lia Lra.
From Coquelicot Require Import Coquelicot.
From ADV Require Import Base.Fl Base.Num C01.Model C01.ModelR C01.Spec C01.ProofsList C01.ProofsComb C01.ProofsStore
     C01.ProofsOps C01.ProofsCoef.
Import ListNotations.
Open Scope R_scope.
Local Arguments Nat.leb : simpl never.
Local Arguments Nat.eqb : simpl never.
Local Arguments Nat.ltb : simpl never.

(* f o A for a named real function with derivatives f1, f2 *)
Definition lift1 (f f1 f2 : R -> R) (A : jet) : jet := jmon (f (jv A)) (f1 (jv A)) (f2 (jv A)) A.

(* the logistic function and its derivatives *)
Definition sigm (x : R) : R := 1 / (1 + exp (- x)).
Definition sigm1 (x : R) : R := sigm x * (1 - sigm x).
Definition sigm2 (x : R) : R := sigm x * (1 - sigm x) * (1 - 2 * sigm x).
Definition l1pe (x : R) : R := ln (1 + exp x).

Lemma exp_den x : 1 + exp x <> 0.
Proof. pose proof (exp_pos x). lra. Qed.

Lemma sigm_derive x : is_derive sigm x (sigm1 x) /\ is_derive sigm1 x (sigm2 x).
Proof.
  pose proof (exp_den (- x)) as Hd.
  split; unfold sigm2, sigm1, sigm.
  - auto_derive; [exact Hd|]. field. exact Hd.
  - auto_derive; [repeat split; exact Hd|]. field. exact Hd.
Qed.
Lemma l1pe_derive x : is_derive l1pe x (sigm x) /\ is_derive sigm x (sigm1 x).
Proof.
  split; [|apply sigm_derive]. unfold l1pe, sigm. pose proof (exp_pos x) as Hp.
  auto_derive; [lra|]. rewrite exp_Ropp. field. split; lra.
Qed.

Section Prog.
Variable S : Special.
Notation F := (FlR S).
Notation StR := (@St R).

Lemma seqm_step (f : StR -> res StR) fs (s s1 : StR) : f s = Ok s1 -> seqm (f :: fs) s = seqm fs s1.
Proof. intro H. unfold seqm. cbn [fold_left bind]. rewrite H. reflexivity. Qed.
Lemma seqm_nil (s : StR) : seqm [] s = Ok s. Proof. reflexivity. Qed.

Lemma alloc_keeps_im_l c v (s : StR) : alloc_keeps c (Im v) (Rg c) s.
Proof. intros k _ _. cbn. split; reflexivity. Qed.
Lemma alloc_keeps_im_r c v (s : StR) : alloc_keeps c (Rg c) (Im v) s.
Proof. intros k _ _. cbn. rewrite !Nat.max_0_r. split; reflexivity. Qed.

Lemma rep_wf n o r J : rep S n o r J -> wf r. Proof. intros [W _]. exact W. Qed.

(* ------------------------------------------------------------------ Logistic: 1 / (1 + exp(-x)), any aliasing *)
Theorem logistic_jet n o c a (s : StR) A :
  wf (s c) -> rep S n o (rd s a) A ->
  exists s', do_logistic F idR c a s = Ok s' /\ frame c s s' /\ rep S n o (s' c) (lift1 sigm sigm1 sigm2 A).
Proof.
  intros Hwc RA. unfold do_logistic.
  destruct (rep_mon S n o ONeg c a s A Hwc RA) as [s1 [E1 [F1 [_ [R1 _]]]]].
  destruct (rep_mon S n o OExp c (Rg c) s1 _ (rep_wf _ _ _ _ R1) R1) as [s2 [E2 [F2 [_ [R2 _]]]]].
  destruct (rep_dy S n o OAdd c (Im (one F)) (Rg c) s2 _ _ (rep_wf _ _ _ _ R2) (rep_im S n o s2 (one F)) R2
              (alloc_keeps_im_l c _ s2)) as [s3 [E3 [F3 [_ [R3 _]]]]].
  destruct (rep_dy S n o ODiv c (Im (one F)) (Rg c) s3 _ _ (rep_wf _ _ _ _ R3) (rep_im S n o s3 (one F)) R3
              (alloc_keeps_im_l c _ s3)) as [s4 [E4 [F4 [_ [R4 _]]]]].
  exists s4. split.
  { rewrite (seqm_step _ _ _ _ E1), (seqm_step _ _ _ _ E2), (seqm_step _ _ _ _ E3), (seqm_step _ _ _ _ E4). apply seqm_nil. }
  split; [intros q Hq; rewrite F4, F3, F2, F1; auto|].
  eapply rep_jeq; [exact R4|].
  pose proof (exp_den (- jv A)) as Hd.
  unfold lift1, jeq. cbn [jdy jmon jconst jv jg jh m_v0 m_f1 m_f2 d_v0 d_f10 d_f01 d_f11 d_f20 d_f02 FlR
                          fneg fExp fadd fdiv fmul fofZ one two zero lit].
  unfold sigm2, sigm1, sigm.
  split; [reflexivity|]. split.
  - intros _ i _. field. exact Hd.
  - intros _ i j _ _. field. exact Hd.
Qed.


(* ------------------------------------------------------------------ Sigmoid: both sign branches compute the logistic function *)
Ltac unfold_jets :=
  cbn [jdy jmon jconst jv jg jh m_v0 m_f1 m_f2 d_v0 d_f10 d_f01 d_f11 d_f20 d_f02 FlR
       fneg fExp fLog fLog1p fadd fsub fdiv fmul fofZ fofQ fPow one two zero lit].

Theorem sigmoid_jet n o c a t (s : StR) A :
  wf (s c) -> wf (s t) -> t <> c -> rep S n o (rd s a) A ->
  exists s', do_sigmoid F idR c a t s = Ok s' /\ (forall q, q <> c -> q <> t -> s' q = s q) /\
             rep S n o (s' c) (lift1 sigm sigm1 sigm2 A).
Proof.
  intros Hwc Hwt Htc RA. unfold do_sigmoid.
  destruct (fleb F (zero F) (rval (rd s a))).
  - (* x >= 0: the Logistic program *)
    destruct (rep_mon S n o ONeg c a s A Hwc RA) as [s1 [E1 [F1 [_ [R1 _]]]]].
    destruct (rep_mon S n o OExp c (Rg c) s1 _ (rep_wf _ _ _ _ R1) R1) as [s2 [E2 [F2 [_ [R2 _]]]]].
    destruct (rep_dy S n o OAdd c (Rg c) (Im (one F)) s2 _ _ (rep_wf _ _ _ _ R2) R2 (rep_im S n o s2 (one F))
                (alloc_keeps_im_r c _ s2)) as [s3 [E3 [F3 [_ [R3 _]]]]].
    destruct (rep_dy S n o ODiv c (Im (one F)) (Rg c) s3 _ _ (rep_wf _ _ _ _ R3) (rep_im S n o s3 (one F)) R3
                (alloc_keeps_im_l c _ s3)) as [s4 [E4 [F4 [_ [R4 _]]]]].
    exists s4. split.
    { rewrite (seqm_step _ _ _ _ E1), (seqm_step _ _ _ _ E2), (seqm_step _ _ _ _ E3), (seqm_step _ _ _ _ E4). apply seqm_nil. }
    split; [intros q Hq _; rewrite F4, F3, F2, F1; auto|].
    eapply rep_jeq; [exact R4|].
    pose proof (exp_den (- jv A)) as Hd. pose proof (exp_pos (- jv A)) as Hp.
    unfold lift1, jeq. unfold_jets. unfold sigm2, sigm1, sigm.
    split; [field; lra|]. split.
    + intros _ i _. field. lra.
    + intros _ i j _ _. field. lra.
  - (* x < 0: exp x / (exp x + 1) through the temporary *)
    destruct (rep_mon S n o OExp t a s A Hwt RA) as [s1 [E1 [F1 [_ [R1 [O1 N1]]]]]].
    assert (Hc1 : s1 c = s c) by (apply F1; auto).
    destruct (rep_set S n o c (Rg t) s1 _ ltac:(rewrite Hc1; exact Hwc) R1 ltac:(intros k Ek; inversion Ek; subst; auto))
      as [s2 [E2 [F2 [_ [R2 [O2 N2]]]]]].
    assert (Ht2 : s2 t = s1 t) by (apply F2; auto).
    assert (R1' : rep S n o (rd s2 (Rg t)) _) by (cbn [rd]; rewrite Ht2; exact R1).
    destruct (rep_dy S n o OAdd t (Rg t) (Im (one F)) s2 _ _ ltac:(rewrite Ht2; exact (rep_wf _ _ _ _ R1)) R1'
                (rep_im S n o s2 (one F)) (alloc_keeps_im_r t _ s2)) as [s3 [E3 [F3 [_ [R3 [O3 N3]]]]]].
    assert (Hc3 : s3 c = s2 c) by (apply F3; auto).
    assert (R2' : rep S n o (rd s3 (Rg c)) _) by (cbn [rd]; rewrite Hc3; exact R2).
    assert (Hkeep : alloc_keeps c (Rg c) (Rg t) s3).
    { intros k _ _. cbn [rd] in *. rewrite Hc3, O3, N3, O2, N2. cbn [rd bare rorder rn]. rewrite Ht2. lia. }
    destruct (rep_dy S n o ODiv c (Rg c) (Rg t) s3 _ _ ltac:(rewrite Hc3; exact (rep_wf _ _ _ _ R2)) R2' R3 Hkeep)
      as [s4 [E4 [F4 [_ [R4 _]]]]].
    exists s4. split.
    { rewrite (seqm_step _ _ _ _ E1), (seqm_step _ _ _ _ E2), (seqm_step _ _ _ _ E3), (seqm_step _ _ _ _ E4). apply seqm_nil. }
    split.
    { intros q Hqc Hqt. rewrite F4, F3, F2, F1; auto. }
    eapply rep_jeq; [exact R4|].
    pose proof (exp_den (- jv A)) as Hd. pose proof (exp_pos (jv A)) as Hp.
    unfold lift1, jeq. unfold_jets. unfold sigm2, sigm1, sigm. rewrite exp_Ropp.
    split; [field; lra|]. split.
    + intros _ i _. field. lra.
    + intros _ i j _ _. field. lra.
Qed.


(* ------------------------------------------------------------------ Log1pExp, branch by branch (HEAD 7035970) *)
Definition l1pe3 (x : R) : R := x + exp (- x).          (* the branch 18 < x <= 33.3 *)
Definition l1pe3' (x : R) : R := 1 - exp (- x).
Definition l1pe3'' (x : R) : R := exp (- x).
Lemma l1pe3_derive x : is_derive l1pe3 x (l1pe3' x) /\ is_derive l1pe3' x (l1pe3'' x).
Proof. split; unfold l1pe3, l1pe3', l1pe3''; auto_derive; auto; ring. Qed.

Definition log1pexp_branch_jet (A : jet) : jet :=
  let x := jv A in
  if Rleb x (IZR (-37)) then lift1 exp exp exp A
  else if Rleb x (IZR 18) then lift1 l1pe sigm sigm1 A
  else if Rleb x (Q2R (333 # 10)) then lift1 l1pe3 l1pe3' l1pe3'' A
  else A.

Lemma rd_upd_fresh (s : StR) t r (a : opd R) : (forall k, a = Rg k -> k <> t) -> rd (upd s t r) a = rd s a.
Proof. intro H. destruct a as [k|v]; cbn [rd]; [|reflexivity]. apply upd_other. apply H. reflexivity. Qed.

Theorem log1pexp_jet n o c a (s : StR) A :
  wf (s c) -> rep S n o (rd s a) A ->
  (Rleb (jv A) (Q2R (333 # 10)) = false -> not_reg a c) ->      (* x > 33.3 is c.Set(a) *)
  exists s', do_log1pexp F idR c a s = Ok s' /\ frame c s s' /\ rep S n o (s' c) (log1pexp_branch_jet A).
Proof.
  intros Hwc RA Hset. unfold do_log1pexp, log1pexp_branch_jet.
  assert (Va : rval (rd s a) = jv A) by (destruct RA as [_ [_ [V _]]]; exact V).
  rewrite Va. cbn [fleb FlR lit fofZ fofQ]. cbv zeta.
  destruct (Rleb (jv A) (IZR (-37))).
  { destruct (rep_mon S n o OExp c a s A Hwc RA) as [s1 [E1 [F1 [_ [R1 _]]]]].
    exists s1. split; [exact E1|]. split; [exact F1|]. exact R1. }
  destruct (Rleb (jv A) (IZR 18)).
  { destruct (rep_mon S n o OExp c a s A Hwc RA) as [s1 [E1 [F1 [_ [R1 _]]]]].
    destruct (rep_mon S n o OLog1p c (Rg c) s1 _ (rep_wf _ _ _ _ R1) R1) as [s2 [E2 [F2 [_ [R2 _]]]]].
    exists s2. split; [rewrite (seqm_step _ _ _ _ E1), (seqm_step _ _ _ _ E2); apply seqm_nil|].
    split; [intros q Hq; rewrite F2, F1; auto|].
    eapply rep_jeq; [exact R2|].
    pose proof (exp_pos (jv A)) as Hp.
    unfold lift1, jeq. unfold_jets. unfold l1pe, sigm1, sigm. rewrite exp_Ropp.
    split; [reflexivity|]. split.
    - intros _ i _. field. lra.
    - intros _ i j _ _. field. lra. }
  destruct (Rleb (jv A) (Q2R (333 # 10))) eqn:E33.
  2:{ destruct (rep_set S n o c a s A Hwc RA (Hset eq_refl)) as [s1 [E1 [F1 [_ [R1 _]]]]].
      exists s1. split; [exact E1|]. split; [exact F1|]. exact R1. }
  (* 18 < x <= 33.3: t := NewScalar(c.Type(), 0.0); t.Neg(a); t.Exp(t); c.Add(a, t) *)
  set (t := Datatypes.S (Nat.max c (match a with Rg i => i | Im _ => 0%nat end))).
  assert (Htc : t <> c) by (unfold t; lia).
  assert (Hta : forall k, a = Rg k -> k <> t) by (intros k Ek; subst a; unfold t; lia).
  set (s0 := upd s t (null_reg F (rk (s c)))).
  assert (Ea0 : rd s0 a = rd s a) by (apply rd_upd_fresh; exact Hta).
  assert (Hwt0 : wf (s0 t)) by (unfold s0; rewrite upd_same; split; cbn; intros; lia).
  destruct (rep_mon S n o ONeg t a s0 A Hwt0 ltac:(rewrite Ea0; exact RA)) as [s1 [E1 [F1 [_ [R1 [O1 N1]]]]]].
  destruct (rep_mon S n o OExp t (Rg t) s1 _ (rep_wf _ _ _ _ R1) R1) as [s2 [E2 [F2 [_ [R2 [O2 N2]]]]]].
  assert (Hc2 : s2 c = s c).
  { rewrite F2, F1 by auto. unfold s0. apply upd_other. auto. }
  assert (Ea2 : rd s2 a = rd s a).
  { destruct a as [k|v]; cbn [rd]; [|reflexivity]. assert (k <> t) by (apply Hta; reflexivity).
    rewrite F2, F1 by auto. unfold s0. apply upd_other. auto. }
  assert (Hkeep : alloc_keeps c a (Rg t) s2).
  { intros k Hk Ek. subst k. destruct Hk as [E|E]; [|inversion E; congruence].
    subst a. cbn [rd] in *. rewrite O2, N2, O1, N1, Ea0. cbn [rd]. rewrite Hc2. lia. }
  destruct (rep_dy S n o OAdd c a (Rg t) s2 A _ ltac:(rewrite Hc2; exact Hwc) ltac:(rewrite Ea2; exact RA) R2 Hkeep)
    as [s3 [E3 [F3 [_ [R3 _]]]]].
  exists (upd s3 t (s t)). split.
  { fold t. fold s0. rewrite (seqm_step _ _ _ _ E1), (seqm_step _ _ _ _ E2), (seqm_step _ _ _ _ E3), seqm_nil. reflexivity. }
  split.
  { intros q Hq. destruct (Nat.eq_dec q t) as [Eq|Nq]; [subst q; apply upd_same|].
    rewrite upd_other by auto. rewrite F3, F2, F1 by auto. unfold s0. apply upd_other. auto. }
  rewrite upd_other by auto.
  eapply rep_jeq; [exact R3|].
  unfold lift1, jeq. unfold_jets. unfold l1pe3, l1pe3', l1pe3''.
  split; [reflexivity|]. split.
  - intros _ i _. ring.
  - intros _ i j _ _. ring.
Qed.

(* how far the approximating branches are from ln(1 + exp x): first-derivative coefficient *)
Lemma log1pexp_branch1_coeff x : x <= -37 -> 0 <= exp x - sigm x <= exp (2 * x).
Proof.
  intro Hx. unfold sigm. rewrite exp_Ropp. pose proof (exp_pos x) as Hp.
  replace (exp (2 * x)) with (exp x * exp x) by (rewrite <- exp_plus; f_equal; ring).
  assert (E : exp x - 1 / (1 + / exp x) = exp x * exp x / (1 + exp x)) by (field; lra).
  rewrite E. split.
  - apply Rmult_le_pos; [nra|]. left. apply Rinv_0_lt_compat. lra.
  - apply Rle_div_l; [lra|]. nra.
Qed.
Lemma log1pexp_branch3_coeff x : 0 <= sigm x - l1pe3' x <= exp (- (2 * x)).
Proof.
  unfold sigm, l1pe3'. pose proof (exp_pos (- x)) as Hp.
  replace (exp (- (2 * x))) with (exp (- x) * exp (- x)) by (rewrite <- exp_plus; f_equal; ring).
  assert (E : 1 / (1 + exp (- x)) - (1 - exp (- x)) = exp (- x) * exp (- x) / (1 + exp (- x))) by (field; lra).
  rewrite E. split.
  - apply Rmult_le_pos; [nra|]. left. apply Rinv_0_lt_compat. lra.
  - apply Rle_div_l; [lra|]. nra.
Qed.
Lemma log1pexp_branch4_coeff x : 0 <= 1 - sigm x <= exp (- x).
Proof.
  unfold sigm. pose proof (exp_pos (- x)) as Hp.
  assert (E : 1 - 1 / (1 + exp (- x)) = exp (- x) / (1 + exp (- x))) by (field; lra).
  rewrite E. split.
  - apply Rmult_le_pos; [lra|]. left. apply Rinv_0_lt_compat. lra.
  - apply Rle_div_l; [lra|]. nra.
Qed.


(* ------------------------------------------------------------------ Sqrt = Pow(a, 0.5) on x > 0 *)
Lemma Rpower_half x : 0 < x -> Rpower x (Q2R (1 # 2)) = sqrt x.
Proof. intro H. replace (Q2R (1 # 2)) with (/ 2) by (unfold Q2R; cbn; lra). apply Rpower_sqrt. exact H. Qed.

Theorem sqrt_jet n o c a (s : StR) A :
  wf (s c) -> rep S n o (rd s a) A -> 0 < jv A ->
  exists s', do_sqrt F idR c a s = Ok s' /\ frame c s s' /\
    rep S n o (s' c) (lift1 sqrt (fun x => / (2 * sqrt x)) (fun x => - / (4 * x * sqrt x)) A).
Proof.
  intros Hwc RA Hx. unfold do_sqrt.
  destruct (rep_pow_const S n o c a (Im (fofQ F (1 # 2))) s A Hwc RA eq_refl) as [s1 [E1 [F1 [_ [R1 _]]]]].
  exists s1. split; [exact E1|]. split; [exact F1|].
  eapply rep_jeq; [exact R1|].
  pose proof (sqrt_lt_R0 _ Hx) as Hs. pose proof (sqrt_sqrt (jv A) (Rlt_le _ _ Hx)) as Hss.
  unfold lift1, jeq. cbn [rd bare rval]. unfold_jets.
  rewrite !Rpow_go_pos' by exact Hx.
  replace (Q2R (1 # 2) - 2) with (Q2R (1 # 2) - 1 - 1) by ring.
  rewrite !Rpower_sub1, Rpower_half by exact Hx.
  replace (Q2R (1 # 2)) with (/ 2) by (unfold Q2R; cbn; lra).
  split; [reflexivity|].
  remember (sqrt (jv A)) as r eqn:Er. rewrite <- Hss.
  split.
  - intros _ i _. field. lra.
  - intros _ i j _ _. field. lra.
Qed.

(* ------------------------------------------------------------------ Abs off 0, Min, Max *)
Lemma sign_neg x : x < 0 -> sign_of F x = (-1)%Z.
Proof. intro H. unfold sign_of. cbn [fltb FlR zero lit fofZ]. unfold Rltb. destruct (Rlt_dec x 0); [reflexivity|lra]. Qed.
Lemma sign_pos x : 0 < x -> sign_of F x = 1%Z.
Proof.
  intro H. unfold sign_of. cbn [fltb FlR zero lit fofZ]. unfold Rltb.
  destruct (Rlt_dec x 0); [lra|]. destruct (Rlt_dec 0 x); [reflexivity|lra].
Qed.

Theorem abs_jet n o c a (s : StR) A :
  wf (s c) -> rep S n o (rd s a) A -> jv A <> 0 -> (0 < jv A -> not_reg a c) ->
  exists s', do_abs F idR c a s = Ok s' /\ frame c s s' /\
    rep S n o (s' c) (lift1 Rabs (fun x => if Rlt_dec x 0 then -1 else 1) (fun _ => 0) A).
Proof.
  intros Hwc RA Hx Hnr. unfold do_abs.
  assert (Va : rval (rd s a) = jv A) by (destruct RA as [_ [_ [V _]]]; exact V). rewrite Va.
  destruct (Rlt_dec (jv A) 0) as [Hneg|Hnn].
  - rewrite sign_neg by exact Hneg. cbn [Z.eqb].
    destruct (rep_mon S n o ONeg c a s A Hwc RA) as [s1 [E1 [F1 [_ [R1 _]]]]].
    exists s1. split; [exact E1|]. split; [exact F1|]. eapply rep_jeq; [exact R1|].
    unfold lift1, jeq. unfold_jets. destruct (Rlt_dec (jv A) 0); [|lra]. rewrite Rabs_left by exact Hneg.
    split; [reflexivity|]. split; intros; ring.
  - assert (Hpos : 0 < jv A) by lra. rewrite sign_pos by exact Hpos. cbn [Z.eqb].
    destruct (rep_set S n o c a s A Hwc RA (Hnr Hpos)) as [s1 [E1 [F1 [_ [R1 _]]]]].
    exists s1. split; [exact E1|]. split; [exact F1|]. eapply rep_jeq; [exact R1|].
    unfold lift1, jeq. cbn [jmon jv jg jh]. destruct (Rlt_dec (jv A) 0); [lra|]. rewrite Rabs_right by lra.
    split; [reflexivity|]. split; intros; ring.
Qed.
(* the concrete ABS is the same program (HEAD 2fc8894) *)
Corollary abs_concrete_jet n o c a (s : StR) A :
  wf (s c) -> rep S n o (rd s a) A -> jv A <> 0 -> (0 < jv A -> not_reg a c) ->
  exists s', do_ABS_concrete F idR c a s = Ok s' /\ frame c s s' /\
    rep S n o (s' c) (lift1 Rabs (fun x => if Rlt_dec x 0 then -1 else 1) (fun _ => 0) A).
Proof. exact (abs_jet n o c a s A). Qed.

(* Min / Max: the jet of the selected operand (ties: the second operand) *)
Theorem min_jet n o c a b (s : StR) A B :
  wf (s c) -> rk (s c) = K64 -> rep S n o (rd s a) A -> rep S n o (rd s b) B -> not_reg a c -> not_reg b c ->
  exists s', do_min F idR c a b s = Ok s' /\ frame c s s' /\
    rep S n o (s' c) (if Rlt_dec (jv A) (jv B) then A else B).
Proof.
  intros Hwc Hk RA RB Ha Hb. unfold do_min. rewrite Hk. unfold cmpv, rndk.
  assert (Va : rval (rd s a) = jv A) by (destruct RA as [_ [_ [V _]]]; exact V).
  assert (Vb : rval (rd s b) = jv B) by (destruct RB as [_ [_ [V _]]]; exact V).
  rewrite Va, Vb. cbn [fltb FlR]. unfold Rltb. destruct (Rlt_dec (jv A) (jv B)).
  - destruct (rep_set S n o c a s A Hwc RA Ha) as [s1 [E1 [F1 [_ [R1 _]]]]]. exists s1. auto.
  - destruct (rep_set S n o c b s B Hwc RB Hb) as [s1 [E1 [F1 [_ [R1 _]]]]]. exists s1. auto.
Qed.
Theorem max_jet n o c a b (s : StR) A B :
  wf (s c) -> rk (s c) = K64 -> rep S n o (rd s a) A -> rep S n o (rd s b) B -> not_reg a c -> not_reg b c ->
  exists s', do_max F idR c a b s = Ok s' /\ frame c s s' /\
    rep S n o (s' c) (if Rlt_dec (jv B) (jv A) then A else B).
Proof.
  intros Hwc Hk RA RB Ha Hb. unfold do_max. rewrite Hk. unfold cmpv, rndk.
  assert (Va : rval (rd s a) = jv A) by (destruct RA as [_ [_ [V _]]]; exact V).
  assert (Vb : rval (rd s b) = jv B) by (destruct RB as [_ [_ [V _]]]; exact V).
  rewrite Va, Vb. cbn [fltb FlR]. unfold Rltb. destruct (Rlt_dec (jv B) (jv A)).
  - destruct (rep_set S n o c a s A Hwc RA Ha) as [s1 [E1 [F1 [_ [R1 _]]]]]. exists s1. auto.
  - destruct (rep_set S n o c b s B Hwc RB Hb) as [s1 [E1 [F1 [_ [R1 _]]]]]. exists s1. auto.
Qed.


(* ------------------------------------------------------------------ LogAdd: ln(exp x + exp y) *)
Definition logadd_fn (x y : R) : R := ln (exp x + exp y).
(* value, d/dx = sigm(x-y), d/dy = sigm(y-x), d2/dxdy = -w, d2/dx2 = d2/dy2 = w with w = sigm(x-y) sigm(y-x) *)
Definition logadd_jet (A B : jet) : jet :=
  let x := jv A in let y := jv B in let w := sigm (x - y) * sigm (y - x) in
  jdy (logadd_fn x y) (sigm (x - y)) (sigm (y - x)) (- w) w w A B.

Lemma logadd_value x y : ln (1 + exp (x - y)) + y = logadd_fn x y.
Proof.
  unfold logadd_fn. pose proof (exp_pos x). pose proof (exp_pos y). pose proof (exp_pos (x - y)).
  replace (exp x + exp y) with (exp y * (1 + exp (x - y))).
  - rewrite ln_mult by lra. rewrite ln_exp. ring.
  - unfold Rminus. rewrite exp_plus, exp_Ropp. field. lra.
Qed.

(* the shortcuts: an operand that is -Inf / +Inf (any carrier) makes LogAdd / LogSub a plain Set *)
Lemma logsub_neg_inf_shortcut {T} (Fl0 : Fl T) r32 c a b t (s : St) :
  fisinf Fl0 (rval (rd s b)) (-1) = true -> do_logsub Fl0 r32 c a b t s = set_reg Fl0 r32 c a s.
Proof. intro H. unfold do_logsub. rewrite H. reflexivity. Qed.
Lemma logadd_inf_shortcut {T} (Fl0 : Fl T) r32 c a b t (s : St) :
  fltb Fl0 (rndk r32 (rk (rd s a)) (rval (rd s b))) (rndk r32 (rk (rd s a)) (rval (rd s a))) = false ->
  is_inf Fl0 (rval (rd s a)) = true -> do_logadd Fl0 r32 c a b t s = set_reg Fl0 r32 c b s.
Proof. intros H1 H2. unfold do_logadd. rewrite H1, H2. reflexivity. Qed.

Lemma logadd_core n o c a b t (s : StR) A B :
  wf (s c) -> wf (s t) -> t <> c -> not_reg a t -> not_reg b t -> not_reg b c ->
  rep S n o (rd s a) A -> rep S n o (rd s b) B ->
  exists s', seqm [do_dy F idR OSub t a b; do_mon F idR OExp t (Rg t); do_mon F idR OLog1p t (Rg t);
                   do_dy F idR OAdd c (Rg t) b] s = Ok s' /\
    (forall q, q <> c -> q <> t -> s' q = s q) /\ rep S n o (s' c) (logadd_jet A B).
Proof.
  intros Hwc Hwt Htc Hat Hbt Hbc RA RB.
  destruct (rep_dy S n o OSub t a b s A B Hwt RA RB (alloc_keeps_fresh t a b s Hat Hbt)) as [s1 [E1 [F1 [_ [R1 _]]]]].
  destruct (rep_mon S n o OExp t (Rg t) s1 _ (rep_wf _ _ _ _ R1) R1) as [s2 [E2 [F2 [_ [R2 _]]]]].
  destruct (rep_mon S n o OLog1p t (Rg t) s2 _ (rep_wf _ _ _ _ R2) R2) as [s3 [E3 [F3 [_ [R3 _]]]]].
  assert (Hc3 : s3 c = s c) by (rewrite F3, F2, F1; auto).
  assert (Eb3 : rd s3 b = rd s b).
  { destruct b as [k|v]; cbn [rd]; [|reflexivity]. assert (k <> t) by (apply Hbt; reflexivity). rewrite F3, F2, F1; auto. }
  destruct (rep_dy S n o OAdd c (Rg t) b s3 _ B ltac:(rewrite Hc3; exact Hwc) R3 ltac:(rewrite Eb3; exact RB)
              (alloc_keeps_fresh c (Rg t) b s3 ltac:(intros k Ek; inversion Ek; subst; auto) Hbc))
    as [s4 [E4 [F4 [_ [R4 _]]]]].
  exists s4. split.
  { rewrite (seqm_step _ _ _ _ E1), (seqm_step _ _ _ _ E2), (seqm_step _ _ _ _ E3), (seqm_step _ _ _ _ E4). apply seqm_nil. }
  split; [intros q Hqc Hqt; rewrite F4, F3, F2, F1; auto|].
  eapply rep_jeq; [exact R4|].
  set (x := jv A). set (y := jv B).
  pose proof (exp_pos (x - y)) as Hu.
  unfold logadd_jet, jeq. fold x y. unfold_jets. fold x y. unfold sigm.
  replace (- (y - x)) with (x - y) by ring. rewrite exp_Ropp.
  split; [apply logadd_value|]. split.
  - intros _ i _. field. lra.
  - intros _ i j _ _. field. lra.
Qed.

Theorem logadd_jet_thm n o c a b t (s : StR) A B :
  wf (s c) -> wf (s t) -> t <> c -> not_reg a t -> not_reg b t -> not_reg a c -> not_reg b c ->
  rep S n o (rd s a) A -> rep S n o (rd s b) B ->
  exists s', do_logadd F idR c a b t s = Ok s' /\ (forall q, q <> c -> q <> t -> s' q = s q) /\
    rep S n o (s' c) (if Rlt_dec (jv B) (jv A) then logadd_jet B A else logadd_jet A B).
Proof.
  intros Hwc Hwt Htc Hat Hbt Hac Hbc RA RB. unfold do_logadd. rewrite !rndk_id.
  assert (Va : rval (rd s a) = jv A) by (destruct RA as [_ [_ [V _]]]; exact V).
  assert (Vb : rval (rd s b) = jv B) by (destruct RB as [_ [_ [V _]]]; exact V).
  rewrite Va, Vb. cbn [fltb FlR]. unfold Rltb. destruct (Rlt_dec (jv B) (jv A)); cbn [is_inf fisinf FlR].
  - unfold is_inf. cbn [fisinf FlR]. apply logadd_core; auto.
  - unfold is_inf. cbn [fisinf FlR]. apply logadd_core; auto.
Qed.


(* ------------------------------------------------------------------ LogSub: ln(exp x - exp y), y < x *)
Definition logsub_fn (x y : R) : R := x + ln (1 - exp (y - x)).
Definition logsub_jet (A B : jet) : jet :=
  let x := jv A in let y := jv B in let e := exp (y - x) in let w := e / ((1 - e) * (1 - e)) in
  jdy (logsub_fn x y) (1 / (1 - e)) (- e / (1 - e)) w (- w) (- w) A B.

Theorem logsub_jet_thm n o c a b t (s : StR) A B :
  wf (s c) -> wf (s t) -> t <> c -> not_reg a t -> not_reg b t -> not_reg a c ->
  rep S n o (rd s a) A -> rep S n o (rd s b) B -> jv B < jv A ->
  exists s', do_logsub F idR c a b t s = Ok s' /\ (forall q, q <> c -> q <> t -> s' q = s q) /\
    rep S n o (s' c) (logsub_jet A B).
Proof.
  intros Hwc Hwt Htc Hat Hbt Hac RA RB Hlt. unfold do_logsub. cbn [fisinf FlR].
  destruct (rep_dy S n o OSub t b a s B A Hwt RB RA (alloc_keeps_fresh t b a s Hbt Hat)) as [s1 [E1 [F1 [_ [R1 _]]]]].
  destruct (rep_mon S n o OExp t (Rg t) s1 _ (rep_wf _ _ _ _ R1) R1) as [s2 [E2 [F2 [_ [R2 _]]]]].
  destruct (rep_mon S n o ONeg t (Rg t) s2 _ (rep_wf _ _ _ _ R2) R2) as [s3 [E3 [F3 [_ [R3 _]]]]].
  destruct (rep_mon S n o OLog1p t (Rg t) s3 _ (rep_wf _ _ _ _ R3) R3) as [s4 [E4 [F4 [_ [R4 _]]]]].
  assert (Hc4 : s4 c = s c) by (rewrite F4, F3, F2, F1; auto).
  assert (Ea4 : rd s4 a = rd s a).
  { destruct a as [k|v]; cbn [rd]; [|reflexivity]. assert (k <> t) by (apply Hat; reflexivity). rewrite F4, F3, F2, F1; auto. }
  destruct (rep_dy S n o OAdd c (Rg t) a s4 _ A ltac:(rewrite Hc4; exact Hwc) R4 ltac:(rewrite Ea4; exact RA)
              (alloc_keeps_fresh c (Rg t) a s4 ltac:(intros k Ek; inversion Ek; subst; auto) Hac))
    as [s5 [E5 [F5 [_ [R5 _]]]]].
  exists s5. split.
  { rewrite (seqm_step _ _ _ _ E1), (seqm_step _ _ _ _ E2), (seqm_step _ _ _ _ E3), (seqm_step _ _ _ _ E4),
            (seqm_step _ _ _ _ E5). apply seqm_nil. }
  split; [intros q Hqc Hqt; rewrite F5, F4, F3, F2, F1; auto|].
  eapply rep_jeq; [exact R5|].
  set (x := jv A) in *. set (y := jv B) in *.
  assert (He : exp (y - x) < 1) by (rewrite <- exp_0; apply exp_increasing; lra).
  unfold logsub_jet, logsub_fn, jeq. fold x y. unfold_jets. fold x y.
  split; [unfold Rminus; ring|]. split.
  - intros _ i _. field. lra.
  - intros _ i j _ _. field. lra.
Qed.

(* ------------------------------------------------------------------ Mtrace / Vmean on a reused receiver *)
(* the accumulator r already has the shape of the computation (a register reused with the same N and
   order: its stale content is irrelevant, Reset clears every slot); elements are other registers *)
Definition jadd (A B : jet) : jet :=
  jdy (d_v0 F OAdd (jv A) (jv B)) (d_f10 F OAdd (jv A) (jv B)) (d_f01 F OAdd (jv A) (jv B))
      (d_f11 F OAdd (jv A) (jv B)) (d_f20 F OAdd (jv A) (jv B)) (d_f02 F OAdd (jv A) (jv B)) A B.

Lemma jadd_slots A B :
  jv (jadd A B) = jv A + jv B /\ (forall i, jg (jadd A B) i = jg A i + jg B i) /\
  (forall i j, jh (jadd A B) i j = jh A i j + jh B i j).
Proof. unfold jadd. unfold_jets. split; [reflexivity|]. split; intros; ring. Qed.

Lemma Forall2_weaken {X Y} (P Q : X -> Y -> Prop) (l : list X) (m : list Y) :
  (forall x y, P x y -> Q x y) -> Forall2 P l m -> Forall2 Q l m.
Proof. intros H HF. induction HF; constructor; auto. Qed.

Lemma accumulate n o r : forall xs Js (s : StR) Acc,
  rep S n o (s r) Acc -> rorder (s r) = o -> rn (s r) = n ->
  Forall2 (fun x J => rep S n o (rd s x) J /\ not_reg x r) xs Js ->
  exists s', seqm (map (fun x => do_dy F idR OAdd r (Rg r) x) xs) s = Ok s' /\ frame r s s' /\
    rep S n o (s' r) (fold_left jadd Js Acc) /\ rorder (s' r) = o /\ rn (s' r) = n.
Proof.
  induction xs as [|x xs IH]; intros Js s Acc RAcc Ho Hn HF; revert Ho Hn; inversion HF as [|x0 J xs0 Js0 [RJ Hxr] HF']; subst; intros Ho Hn; cbn [map fold_left].
  - exists s. split; [apply seqm_nil|]. split; [intros q _; reflexivity|]. auto.
  - assert (Hkeep : alloc_keeps r (Rg r) x s).
    { intros k Hk Ek. subst k. destruct Hk as [E|E]; [|exfalso; apply (Hxr r); auto].
      cbn [rd]. pose proof (rep_shape S _ _ _ _ RJ) as Sh. lia. }
    destruct (rep_dy S n o OAdd r (Rg r) x s Acc J (rep_wf _ _ _ _ RAcc) RAcc RJ Hkeep) as [s1 [E1 [F1 [_ [R1 [O1 N1]]]]]].
    cbn [rd] in O1, N1. pose proof (rep_shape S _ _ _ _ RJ) as Sh.
    destruct (IH Js0 s1 (jadd Acc J) R1 ltac:(lia) ltac:(lia)) as [s2 [E2 [F2 [R2 [O2 N2]]]]].
    { eapply Forall2_weaken; [|exact HF']. intros y K [RK Hy]. split; [|exact Hy].
      destruct y as [k|v]; cbn [rd] in *; [|exact RK]. rewrite F1; [exact RK|]. apply Hy. reflexivity. }
    exists s2. split; [rewrite (seqm_step _ _ _ _ E1); exact E2|]. split; [intros q Hq; rewrite F2, F1; auto|]. auto.
Qed.

Lemma seqm_app (fs gs : list (StR -> res StR)) (s s1 : StR) : seqm fs s = Ok s1 -> seqm (fs ++ gs) s = seqm gs s1.
Proof. intro H. unfold seqm in *. rewrite fold_left_app, H. reflexivity. Qed.

Theorem mtrace_jet n o r diag Js (s : StR) :
  wf (s r) -> rorder (s r) = o -> rn (s r) = n ->
  Forall2 (fun x J => rep S n o (rd s x) J /\ not_reg x r) diag Js ->
  exists s', do_mtrace F idR r diag s = Ok s' /\ frame r s s' /\ rep S n o (s' r) (fold_left jadd Js (jconst 0)).
Proof.
  intros Hw Ho Hn HF. unfold do_mtrace.
  destruct (rep_reset S n o r s Hw (or_introl (conj Ho Hn))) as [s0 [E0 [F0 [_ R0]]]].
  destruct (reset_clears_all_slots S r s Hw) as [s0' [E0' [_ [_ [_ [_ [O0 [N0 _]]]]]]]].
  rewrite E0 in E0'. inversion E0'; subst s0'.
  destruct (accumulate n o r diag Js s0 (jconst 0) R0 ltac:(lia) ltac:(lia)) as [s1 [E1 [F1 [R1 _]]]].
  { eapply Forall2_weaken; [|exact HF]. intros y K [RK Hy]. split; [|exact Hy].
    destruct y as [k|v]; cbn [rd] in *; [|exact RK]. rewrite F0; [exact RK|]. apply Hy. reflexivity. }
  exists s1. split.
  { change ([do_reset F r] ++ map (fun x => do_dy F idR OAdd r (Rg r) x) diag) with
      ([do_reset F r] ++ map (fun x => do_dy F idR OAdd r (Rg r) x) diag).
    rewrite (seqm_app [do_reset F r] _ s s0); [exact E1|]. rewrite (seqm_step _ _ _ _ E0). apply seqm_nil. }
  split; [intros q Hq; rewrite F1, F0; auto|exact R1].
Qed.

Theorem vmean_jet n o r xs Js (s : StR) :
  wf (s r) -> rorder (s r) = o -> rn (s r) = n -> xs <> [] ->
  Forall2 (fun x J => rep S n o (rd s x) J /\ not_reg x r) xs Js ->
  exists s', do_vmean F idR r xs s = Ok s' /\ frame r s s' /\
    exists M, rep S n o (s' r) M /\ let T := fold_left jadd Js (jconst 0) in let N := INR (length xs) in
      jv M = jv T / N /\ ((1 <= o)%nat -> forall i, (i < n)%nat -> jg M i = jg T i / N) /\
      ((2 <= o)%nat -> forall i j, (i < n)%nat -> (j < n)%nat -> jh M i j = jh T i j / N).
Proof.
  intros Hw Ho Hn Hne HF. unfold do_vmean.
  destruct (rep_reset S n o r s Hw (or_introl (conj Ho Hn))) as [s0 [E0 [F0 [_ R0]]]].
  destruct (reset_clears_all_slots S r s Hw) as [s0' [E0' [_ [_ [_ [_ [O0 [N0 _]]]]]]]].
  rewrite E0 in E0'. inversion E0'; subst s0'.
  destruct (accumulate n o r xs Js s0 (jconst 0) R0 ltac:(lia) ltac:(lia)) as [s1 [E1 [F1 [R1 [O1 N1]]]]].
  { eapply Forall2_weaken; [|exact HF]. intros y K [RK Hy]. split; [|exact Hy].
    destruct y as [k|v]; cbn [rd] in *; [|exact RK]. rewrite F0; [exact RK|]. apply Hy. reflexivity. }
  set (N := lit F (Z.of_nat (length xs))).
  destruct (rep_dy S n o ODiv r (Rg r) (Im N) s1 _ _ (rep_wf _ _ _ _ R1) R1 (rep_im S n o s1 N) (alloc_keeps_im_r r _ s1))
    as [s2 [E2 [F2 [_ [R2 _]]]]].
  exists s2. split.
  { rewrite (seqm_app [do_reset F r] _ s s0) by (rewrite (seqm_step _ _ _ _ E0); apply seqm_nil).
    rewrite (seqm_app _ _ s0 s1 E1). rewrite (seqm_step _ _ _ _ E2). apply seqm_nil. }
  split; [intros q Hq; rewrite F2, F1, F0; auto|].
  eexists. split; [exact R2|]. cbv zeta.
  assert (HN : N = INR (length xs)) by (unfold N, lit; cbn [fofZ FlR]; rewrite <- INR_IZR_INZ; reflexivity).
  assert (HN0 : INR (length xs) <> 0) by (apply not_0_INR; destruct xs; [congruence|cbn; lia]).
  unfold_jets. rewrite HN. split; [reflexivity|]. split.
  - intros _ i _. field. exact HN0.
  - intros _ i j _ _. field. exact HN0.
Qed.

End Prog.
