(* C01/ProofsRed.v — the scalar-valued vector / matrix reductions on the model, for a receiver of ANY
   admissible shape: a reused accumulator (the computation's N and order, arbitrary stale content) or a
   FRESH one (order 0: the first r.Add(r, x) reallocates it inside AllocForTwo — rep_dy_any of ProofsAlias.v).

     Mtrace, Vmean          sum (/ n) of the element jets
     VdotV                  sum_i a_i * b_i        through the fresh temporary t of the Go body
     Vnorm                  sqrt (sum_i x_i^2)     (Pow(x, 2) per element, Pow(r, 1/2) at the end)
     Mnorm                  sum of squares AS CODED (no square root: known finding F-MNORM-SQRT of C02)

   All are instances of one accumulation lemma [acc_terms]: per element a short program leaves the term in
   the temporary t, then r.Add(r, t). *)
From Coq Require Import Reals ZArith QArith Qreals List Bool Arith Lia Lra.
From Coquelicot Require Import Coquelicot.
From ADV Require Import Base.Fl Base.Num C01.Model C01.ModelR C01.Spec C01.ProofsList C01.ProofsComb C01.ProofsStore
     C01.ProofsOps C01.ProofsCoef C01.ProofsProg C01.ModelVariants C01.ProofsAlias.
Import ListNotations.
Open Scope R_scope.
Local Arguments Nat.leb : simpl never.
Local Arguments Nat.eqb : simpl never.
Local Arguments Nat.ltb : simpl never.

Section Red.
Variable S : Special.
Notation F := (FlR S).
Notation StR := (@St R).

Definition frame2 (r t : nat) (s s' : StR) : Prop := forall q, q <> r -> q <> t -> s' q = s q.

Definition jmul (A B : jet) : jet :=
  jdy (d_v0 F OMul (jv A) (jv B)) (d_f10 F OMul (jv A) (jv B)) (d_f01 F OMul (jv A) (jv B))
      (d_f11 F OMul (jv A) (jv B)) (d_f20 F OMul (jv A) (jv B)) (d_f02 F OMul (jv A) (jv B)) A B.
Definition jsq (A : jet) : jet :=      (* Pow(a, 2) *)
  jmon (m_v0 F (OPowC (two F)) (jv A)) (m_f1 F (OPowC (two F)) (jv A)) (m_f2 F (OPowC (two F)) (jv A)) A.

(* ------------------------------------------------------------------ accumulation onto r, any shape of r *)
Lemma accumulate_any n o r : forall xs Js (s : StR) Acc,
  rep S n o (s r) Acc ->
  Forall2 (fun x J => rep S n o (rd s x) J /\ not_reg x r) xs Js ->
  exists s', seqm (map (fun x => do_dy F idR OAdd r (Rg r) x) xs) s = Ok s' /\ frame r s s' /\
    rep S n o (s' r) (fold_left (jadd S) Js Acc).
Proof.
  induction xs as [|x xs IH]; intros Js s Acc RAcc HF; inversion HF as [|x0 J xs0 Js0 [RJ Hxr] HF']; subst; cbn [map fold_left].
  - exists s. split; [apply seqm_nil|]. split; [intros q _; reflexivity|]. exact RAcc.
  - destruct (rep_dy_any S n o OAdd r (Rg r) x s Acc J (rep_wf S _ _ _ _ RAcc) RAcc RJ) as [s1 [E1 [F1 [_ [R1 _]]]]].
    destruct (IH Js0 s1 (jadd S Acc J) R1) as [s2 [E2 [F2 R2]]].
    { eapply Forall2_weaken; [|exact HF']. intros y K [RK Hy]. split; [|exact Hy].
      destruct y as [k|v]; cbn [rd] in *; [|exact RK]. rewrite F1; [exact RK|]. apply Hy. reflexivity. }
    exists s2. split; [rewrite (seqm_step _ _ _ _ E1); exact E2|]. split; [intros q Hq; rewrite F2, F1; auto|]. exact R2.
Qed.

Lemma reset_any n o r (s : StR) : wf (s r) -> shp n o (s r) ->
  exists s0, do_reset F r s = Ok s0 /\ frame r s s0 /\ rep S n o (s0 r) (jconst 0).
Proof. intros Hw Sh. destruct (rep_reset S n o r s Hw Sh) as [s0 [E [Fr [_ R0]]]]. exists s0. auto. Qed.

Lemma forall2_frame n o r (s s0 : StR) xs Js : frame r s s0 ->
  Forall2 (fun x J => rep S n o (rd s x) J /\ not_reg x r) xs Js ->
  Forall2 (fun x J => rep S n o (rd s0 x) J /\ not_reg x r) xs Js.
Proof.
  intros Fr HF. eapply Forall2_weaken; [|exact HF]. intros y K [RK Hy]. split; [|exact Hy].
  destruct y as [k|v]; cbn [rd] in *; [|exact RK]. rewrite Fr; [exact RK|]. apply Hy. reflexivity.
Qed.

Theorem mtrace_any n o r diag Js (s : StR) :
  wf (s r) -> shp n o (s r) ->
  Forall2 (fun x J => rep S n o (rd s x) J /\ not_reg x r) diag Js ->
  exists s', do_mtrace F idR r diag s = Ok s' /\ frame r s s' /\ rep S n o (s' r) (fold_left (jadd S) Js (jconst 0)).
Proof.
  intros Hw Sh HF. unfold do_mtrace.
  destruct (reset_any n o r s Hw Sh) as [s0 [E0 [F0 R0]]].
  destruct (accumulate_any n o r diag Js s0 (jconst 0) R0 (forall2_frame n o r s s0 _ _ F0 HF)) as [s1 [E1 [F1 R1]]].
  exists s1. split.
  { rewrite (seqm_app [do_reset F r] _ s s0); [exact E1|]. rewrite (seqm_step _ _ _ _ E0). apply seqm_nil. }
  split; [intros q Hq; rewrite F1, F0; auto|exact R1].
Qed.

Theorem vmean_any n o r xs Js (s : StR) :
  wf (s r) -> shp n o (s r) -> xs <> [] ->
  Forall2 (fun x J => rep S n o (rd s x) J /\ not_reg x r) xs Js ->
  exists s', do_vmean F idR r xs s = Ok s' /\ frame r s s' /\
    exists M, rep S n o (s' r) M /\ let T := fold_left (jadd S) Js (jconst 0) in let N := INR (length xs) in
      jv M = jv T / N /\ ((1 <= o)%nat -> forall i, (i < n)%nat -> jg M i = jg T i / N) /\
      ((2 <= o)%nat -> forall i j, (i < n)%nat -> (j < n)%nat -> jh M i j = jh T i j / N).
Proof.
  intros Hw Sh Hne HF. unfold do_vmean.
  destruct (reset_any n o r s Hw Sh) as [s0 [E0 [F0 R0]]].
  destruct (accumulate_any n o r xs Js s0 (jconst 0) R0 (forall2_frame n o r s s0 _ _ F0 HF)) as [s1 [E1 [F1 R1]]].
  set (N := lit F (Z.of_nat (length xs))).
  destruct (rep_dy_any S n o ODiv r (Rg r) (Im N) s1 _ _ (rep_wf S _ _ _ _ R1) R1 (rep_im S n o s1 N)) as [s2 [E2 [F2 [_ [R2 _]]]]].
  exists s2. split.
  { rewrite (seqm_app [do_reset F r] _ s s0) by (rewrite (seqm_step _ _ _ _ E0); apply seqm_nil).
    rewrite (seqm_app _ _ s0 s1 E1). rewrite (seqm_step _ _ _ _ E2). apply seqm_nil. }
  split; [intros q Hq; rewrite F2, F1, F0; auto|].
  eexists. split; [exact R2|]. cbv zeta.
  assert (HN : N = INR (length xs)) by (unfold N, lit; cbn [fofZ FlR]; rewrite <- INR_IZR_INZ; reflexivity).
  assert (HN0 : INR (length xs) <> 0) by (apply not_0_INR; destruct xs; [congruence|cbn; lia]).
  cbn [jdy jmon jconst jv jg jh d_v0 d_f10 d_f01 d_f11 d_f20 d_f02 FlR fadd fsub fdiv fmul fneg fofZ one two zero lit].
  rewrite HN. split; [reflexivity|]. split.
  - intros _ i _. field. exact HN0.
  - intros _ i j _ _. field. exact HN0.
Qed.

(* ------------------------------------------------------------------ per-element term through a temporary *)
Lemma acc_terms {X} n o r t (prog : X -> list (StR -> res StR)) (tj : X -> jet) (P : X -> StR -> Prop) :
  t <> r ->
  (forall x s s', frame2 r t s s' -> P x s -> P x s') ->
  (forall x s, P x s -> wf (s t) -> exists s1, seqm (prog x) s = Ok s1 /\ frame t s s1 /\ rep S n o (s1 t) (tj x)) ->
  forall xs (s : StR) Acc, rep S n o (s r) Acc -> wf (s t) -> List.Forall (fun x => P x s) xs ->
  exists s', seqm (flat_map (fun x => prog x ++ [do_dy F idR OAdd r (Rg r) (Rg t)]) xs) s = Ok s' /\ frame2 r t s s' /\
    rep S n o (s' r) (fold_left (fun acc x => jadd S acc (tj x)) xs Acc) /\ wf (s' t).
Proof.
  intros Htr Hstab Hprog. induction xs as [|x xs IH]; intros s Acc RAcc Hwt HP; cbn [flat_map fold_left].
  - exists s. split; [apply seqm_nil|]. split; [intros q _ _; reflexivity|]. auto.
  - inversion HP as [|x0 xs0 Px HP']; subst.
    destruct (Hprog x s Px Hwt) as [s1 [E1 [F1 R1]]].
    assert (Hr1 : s1 r = s r) by (apply F1; auto).
    assert (RAcc1 : rep S n o (rd s1 (Rg r)) Acc) by (cbn [rd]; rewrite Hr1; exact RAcc).
    destruct (rep_dy_any S n o OAdd r (Rg r) (Rg t) s1 Acc (tj x) ltac:(rewrite Hr1; exact (rep_wf S _ _ _ _ RAcc)) RAcc1 R1)
      as [s2 [E2 [F2 [_ [R2 _]]]]].
    assert (Fr12 : frame2 r t s s2).
    { intros q Hqr Hqt. rewrite F2 by exact Hqr. apply F1. exact Hqt. }
    assert (Hwt2 : wf (s2 t)) by (rewrite F2 by exact Htr; exact (rep_wf S _ _ _ _ R1)).
    destruct (IH s2 (jadd S Acc (tj x)) R2 Hwt2) as [s3 [E3 [F3 [R3 W3]]]].
    { rewrite Forall_forall in *. intros y Hy. apply (Hstab y s s2 Fr12). apply HP'. exact Hy. }
    exists s3. split.
    { rewrite <- app_assoc. rewrite (seqm_app (prog x) _ s s1 E1). cbn [app].
      rewrite (seqm_step _ _ _ _ E2). exact E3. }
    split; [intros q Hqr Hqt; rewrite F3, Fr12; auto|]. auto.
Qed.

(* an element operand represented in s, different from the accumulator and the temporary *)
Definition elt (n o r t : nat) (x : opd R) (J : jet) (s : StR) : Prop :=
  rep S n o (rd s x) J /\ not_reg x r /\ not_reg x t.
Lemma elt_stable n o r t x J s s' : frame2 r t s s' -> elt n o r t x J s -> elt n o r t x J s'.
Proof.
  intros Fr [R [Hr Ht]]. split; [|split; assumption].
  destruct x as [k|v]; cbn [rd] in *; [|exact R]. rewrite Fr; [exact R|apply Hr; reflexivity|apply Ht; reflexivity].
Qed.

Lemma combine_map {X Y Z} (f : X -> Y) (g : X -> Z) l : combine (map f l) (map g l) = map (fun i => (f i, g i)) l.
Proof. induction l; cbn; [reflexivity|f_equal; exact IHl]. Qed.
Lemma flat_map_map {X Y Z} (f : Y -> list Z) (g : X -> Y) l : flat_map f (map g l) = flat_map (fun x => f (g x)) l.
Proof. induction l; cbn; [reflexivity|f_equal; exact IHl]. Qed.

Lemma wf_null k : wf (null_reg F k). Proof. split; cbn; intros; lia. Qed.

(* the temporary created inside the Go body: t := NullReal64() *)
Lemma with_temp n o r t (s : StR) : t <> r -> wf (s r) -> shp n o (s r) ->
  let s0 := upd s t (null_reg F (rk (s r))) in
  wf (s0 t) /\ wf (s0 r) /\ shp n o (s0 r) /\ frame t s s0.
Proof.
  intros Htr Hw Sh s0. unfold s0. rewrite upd_same, upd_other by auto.
  split; [apply wf_null|]. split; [exact Hw|]. split; [exact Sh|]. intros q Hq. apply upd_other. exact Hq.
Qed.

(* ------------------------------------------------------------------ VdotV *)
(* items: (a_i, b_i, jet of a_i, jet of b_i) *)
Definition it_a (i : opd R * opd R * jet * jet) := fst (fst (fst i)).
Definition it_b (i : opd R * opd R * jet * jet) := snd (fst (fst i)).
Definition it_A (i : opd R * opd R * jet * jet) := snd (fst i).
Definition it_B (i : opd R * opd R * jet * jet) := snd i.

Theorem vdotv_jet n o r t its (s : StR) :
  t <> r -> wf (s r) -> shp n o (s r) ->
  List.Forall (fun i => elt n o r t (it_a i) (it_A i) s /\ elt n o r t (it_b i) (it_B i) s) its ->
  exists s', do_vdotv F idR r (map it_a its) (map it_b its) t s = Ok s' /\ frame2 r t s s' /\
    rep S n o (s' r) (fold_left (fun acc i => jadd S acc (jmul (it_A i) (it_B i))) its (jconst 0)).
Proof.
  intros Htr Hw Sh HF. unfold do_vdotv.
  destruct (with_temp n o r t s Htr Hw Sh) as [Wt0 [Wr0 [Sh0 Ft0]]].
  set (s0 := upd s t (null_reg F (rk (s r)))) in *.
  destruct (reset_any n o r s0 Wr0 Sh0) as [s1 [E1 [F1 R1]]].
  assert (Fr01 : frame2 r t s s1) by (intros q Hqr Hqt; rewrite F1 by exact Hqr; apply Ft0; exact Hqt).
  destruct (acc_terms n o r t (fun i => [do_dy F idR OMul t (it_a i) (it_b i)]) (fun i => jmul (it_A i) (it_B i))
              (fun i s => elt n o r t (it_a i) (it_A i) s /\ elt n o r t (it_b i) (it_B i) s) Htr) with (xs := its) (s := s1) (Acc := jconst 0)
    as [s2 [E2 [F2 [R2 _]]]].
  - intros i u u' Fr [Ha Hb]. split; eapply elt_stable; eauto.
  - intros i u [[Ra [_ Hat]] [Rb [_ Hbt]]] Hwt.
    destruct (rep_dy_any S n o OMul t (it_a i) (it_b i) u _ _ Hwt Ra Rb) as [u1 [E [Fr [_ [Rr _]]]]].
    exists u1. split; [rewrite (seqm_step _ _ _ _ E); apply seqm_nil|]. split; [exact Fr|exact Rr].
  - exact R1.
  - rewrite F1 by exact Htr. exact Wt0.
  - rewrite Forall_forall in *. intros i Hi. destruct (HF i Hi) as [Ha Hb]. split; eapply elt_stable; eauto.
  - exists s2. split.
    { rewrite (seqm_app [do_reset F r] _ s0 s1) by (rewrite (seqm_step _ _ _ _ E1); apply seqm_nil).
      rewrite combine_map, flat_map_map. exact E2. }
    split; [intros q Hqr Hqt; rewrite F2, Fr01; auto|exact R2].
Qed.

Lemma jmul_slots A B :
  jv (jmul A B) = jv A * jv B /\ (forall i, jg (jmul A B) i = jg A i * jv B + jg B i * jv A) /\
  (forall i j, jh (jmul A B) i j = jh A i j * jv B + jh B i j * jv A + jg A i * jg B j + jg B i * jg A j).
Proof.
  unfold jmul. cbn [jdy jv jg jh d_v0 d_f10 d_f01 d_f11 d_f20 d_f02 FlR fmul one zero lit fofZ].
  split; [reflexivity|]. split; intros; ring.
Qed.

(* ------------------------------------------------------------------ Vnorm / Mnorm *)
Definition sq_it (i : opd R * jet) := jsq (snd i).

Lemma sumsq_terms n o r t its (s1 : StR) Acc :
  t <> r -> rep S n o (s1 r) Acc -> wf (s1 t) -> List.Forall (fun i => elt n o r t (fst i) (snd i) s1) its ->
  exists s2, seqm (flat_map (fun x => [do_pow F idR t x (Im (two F)); do_dy F idR OAdd r (Rg r) (Rg t)]) (map fst its)) s1 = Ok s2 /\
    frame2 r t s1 s2 /\ rep S n o (s2 r) (fold_left (fun acc i => jadd S acc (sq_it i)) its Acc) /\ wf (s2 t).
Proof.
  intros Htr RAcc Hwt HF.
  destruct (acc_terms n o r t (fun i => [do_pow F idR t (fst i) (Im (two F))]) sq_it
              (fun i s => elt n o r t (fst i) (snd i) s) Htr) with (xs := its) (s := s1) (Acc := Acc)
    as [s2 [E2 [F2 [R2 W2]]]].
  - intros i u u' Fr Ha. eapply elt_stable; eauto.
  - intros i u [Ra _] Hwt'.
    destruct (rep_pow_const S n o t (fst i) (Im (two F)) u _ Hwt' Ra eq_refl) as [u1 [E [Fr [_ [Rr _]]]]].
    exists u1. split; [rewrite (seqm_step _ _ _ _ E); apply seqm_nil|]. split; [exact Fr|exact Rr].
  - exact RAcc.
  - exact Hwt.
  - exact HF.
  - exists s2. split; [rewrite flat_map_map; exact E2|]. auto.
Qed.

Theorem vnorm_jet n o r t its (s : StR) :
  t <> r -> wf (s r) -> shp n o (s r) -> List.Forall (fun i => elt n o r t (fst i) (snd i) s) its ->
  let T := fold_left (fun acc i => jadd S acc (sq_it i)) its (jconst 0) in
  0 < jv T ->
  exists s', do_vnorm F idR r (map fst its) t s = Ok s' /\ frame2 r t s s' /\
    rep S n o (s' r) (lift1 sqrt (fun x => / (2 * sqrt x)) (fun x => - / (4 * x * sqrt x)) T).
Proof.
  intros Htr Hw Sh HF T HT. unfold do_vnorm.
  destruct (with_temp n o r t s Htr Hw Sh) as [Wt0 [Wr0 [Sh0 Ft0]]].
  set (s0 := upd s t (null_reg F (rk (s r)))) in *.
  destruct (reset_any n o r s0 Wr0 Sh0) as [s1 [E1 [F1 R1]]].
  assert (Fr01 : frame2 r t s s1) by (intros q Hqr Hqt; rewrite F1 by exact Hqr; apply Ft0; exact Hqt).
  destruct (sumsq_terms n o r t its s1 (jconst 0) Htr R1 ltac:(rewrite F1 by exact Htr; exact Wt0)) as [s2 [E2 [F2 [R2 _]]]].
  { rewrite Forall_forall in *. intros i Hi. eapply elt_stable; eauto. }
  destruct (sqrt_jet S n o r (Rg r) s2 _ (rep_wf S _ _ _ _ R2) R2 HT) as [s3 [E3 [F3 R3]]].
  exists s3. split.
  { rewrite (seqm_app [do_reset F r] _ s0 s1) by (rewrite (seqm_step _ _ _ _ E1); apply seqm_nil).
    rewrite (seqm_app _ _ s1 s2 E2). rewrite (seqm_step _ _ _ _ E3). apply seqm_nil. }
  split; [intros q Hqr Hqt; rewrite F3, F2, Fr01; auto|exact R3].
Qed.

(* Mnorm as coded: r = x_0^2 directly, then + x_i^2 through t; NO square root *)
Theorem mnorm_jet n o r t x0 J0 its (s : StR) :
  t <> r -> wf (s r) -> elt n o r t x0 J0 s -> List.Forall (fun i => elt n o r t (fst i) (snd i) s) its ->
  exists s', do_mnorm F idR r (x0 :: map fst its) t s = Ok s' /\ frame2 r t s s' /\
    rep S n o (s' r) (fold_left (fun acc i => jadd S acc (sq_it i)) its (jsq J0)).
Proof.
  intros Htr Hw H0 HF. unfold do_mnorm.
  set (s0 := upd s t (null_reg F (rk (s r)))).
  assert (Ft0 : frame2 r t s s0) by (intros q _ Hq; unfold s0; apply upd_other; exact Hq).
  assert (Wt0 : wf (s0 t)) by (unfold s0; rewrite upd_same; apply wf_null).
  assert (Wr0 : wf (s0 r)) by (unfold s0; rewrite upd_other by auto; exact Hw).
  destruct (elt_stable n o r t x0 J0 s s0 Ft0 H0) as [R0 [H0r H0t]].
  destruct (rep_pow_const S n o r x0 (Im (two F)) s0 _ Wr0 R0 eq_refl) as [s1 [E1 [F1 [_ [R1 _]]]]].
  assert (Fr01 : frame2 r t s s1) by (intros q Hqr Hqt; rewrite F1 by exact Hqr; apply Ft0; auto).
  destruct (sumsq_terms n o r t its s1 (jsq J0) Htr R1 ltac:(rewrite F1 by exact Htr; exact Wt0)) as [s2 [E2 [F2 [R2 _]]]].
  { rewrite Forall_forall in *. intros i Hi. eapply elt_stable; eauto. }
  exists s2. split; [fold s0; rewrite (seqm_step _ _ _ _ E1); exact E2|].
  split; [intros q Hqr Hqt; rewrite F2, Fr01; auto|exact R2].
Qed.

Lemma jsq_slots A : 0 < jv A ->
  jv (jsq A) = jv A * jv A /\ (forall i, jg (jsq A) i = 2 * jv A * jg A i) /\
  (forall i j, jh (jsq A) i j = 2 * jg A i * jg A j + 2 * jv A * jh A i j).
Proof.
  intro Hx. unfold jsq. cbn [jmon jv jg jh m_v0 m_f1 m_f2 FlR fPow fsub fmul one two lit fofZ].
  rewrite !Rpow_go_pos' by exact Hx.
  replace (2 - 2) with 0 by ring. replace (2 - 1) with 1 by ring.
  rewrite Rpower_O, Rpower_1 by exact Hx.
  replace (Rpower (jv A) 2) with (jv A * jv A).
  - split; [reflexivity|]. split; intros; ring.
  - replace 2 with (1 + 1) by ring. rewrite Rpower_plus, Rpower_1 by exact Hx. reflexivity.
Qed.

End Red.
