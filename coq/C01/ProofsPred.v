(* C01/ProofsPred.v — the tie by translation for the predicates the composite operations branch on.

   C01/Ops_gen.v [gen_preds] is printed by /verif/go2coq_c01 on every run: Greater Smaller Sign and the concrete
   twins GREATER SMALLER SIGN of Real64 / Real32, as the comparison the source writes with the RECEIVER as operand 0.
   Here: for every carrier and all values their denotation is the comparison the model uses —
     a.Greater(b)  =  rnd b < rnd a      (ModelOpsLang.ceval BGreater, Model.do_logadd: the swap test of LogAdd)
     a.Smaller(b)  =  rnd a < rnd b
     a.Sign()      =  sign_of (rnd a)    (Model.do_abs: switch a.Sign())
   with rnd = the conversion of the receiver's type (identity for Real64, float32(.) for Real32: GetFloat32()). *)
From Coq Require Import ZArith QArith List Bool Arith String Lia.
From ADV Require Import Base.Fl C01.Model C01.ModelOpsLang C01.Ops_gen C01.ProofsGen.
Import ListNotations.
Local Open Scope nat_scope.
Local Open Scope string_scope.

Section Preds.
Context {A : Type} (F : Fl A) (r32 : A -> A).

Definition gen_pred (recv meth : string) : pbody :=
  match find (fun p => String.eqb (pd_recv p) recv && String.eqb (pd_meth p) meth) gen_preds with
  | Some p => pd_body p
  | None => PInt [] 2%Z       (* neither a comparison nor a sign *)
  end.

Ltac recv_cases H := destruct H as [H|[H|[]]]; subst.

Lemma pred_Greater recv meth x y : In recv ["Real64"; "Real32"] -> In meth ["Greater"; "GREATER"] ->
  pred_bool F r32 (gen_pred recv meth) x y = Some (fltb F (rndk r32 (kind_of recv) y) (rndk r32 (kind_of recv) x)).
Proof. intros H H'; recv_cases H; recv_cases H'; reflexivity. Qed.

Lemma pred_Smaller recv meth x y : In recv ["Real64"; "Real32"] -> In meth ["Smaller"; "SMALLER"] ->
  pred_bool F r32 (gen_pred recv meth) x y = Some (fltb F (rndk r32 (kind_of recv) x) (rndk r32 (kind_of recv) y)).
Proof. intros H H'; recv_cases H; recv_cases H'; reflexivity. Qed.

Lemma pred_Sign recv meth x : In recv ["Real64"; "Real32"] -> In meth ["Sign"; "SIGN"] ->
  pred_int F r32 (gen_pred recv meth) x = Some (sign_of F (rndk r32 (kind_of recv) x)).
Proof.
  intros H H'; recv_cases H; recv_cases H';
  lazy beta iota zeta delta -[fltb fofZ]; repeat match goal with |- context [if ?b then _ else _] => destruct b end; reflexivity.
Qed.

Lemma gen_preds_complete :
  map (fun p => (pd_recv p, pd_meth p)) gen_preds =
  (list_prod ["Real64"] ["Greater"; "Smaller"; "Sign"] ++ list_prod ["Real32"] ["Greater"; "Smaller"; "Sign"] ++
   list_prod ["Real64"] ["GREATER"; "SMALLER"; "SIGN"] ++ list_prod ["Real32"] ["GREATER"; "SMALLER"; "SIGN"])%list.
Proof. reflexivity. Qed.
End Preds.
