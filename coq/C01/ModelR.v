(* C01/ModelR.v — the real-number instance of the carrier: every field of
   Base.Fl read as the mathematical function it names.  The theorems of C01 are
   about the model of C01/Model.v instantiated here; the certified part of the
   correspondence run (C01/CorrR.v) evaluates this very instance.

   Special functions that have no definition in Coq's library (erf, erfc, Γ,
   lnΓ, ψ, ψ', log erfc, multivariate lnΓ, P(a,x), I_v) come from a record
   [Special]; theorems that mention them are stated inside Sections with the
   defining relations as hypotheses. *)
From Coq Require Import Reals ZArith QArith Qreals List Bool.
From ADV Require Import Base.Fl Base.Num C01.Model.
Import ListNotations.
Open Scope R_scope.

Record Special := mkSpecial {
  sErf : R -> R; sErfc : R -> R; sLogErfc : R -> R;
  sGamma : R -> R; sLgamma : R -> R; sDigamma : R -> R; sTrigamma : R -> R;
  sMlgamma : R -> Z -> R;
  sGammaP : R -> R -> R; sGammaPd1 : R -> R -> R; sGammaPd2 : R -> R -> R;
  sBesselI : R -> R -> R; sLogBesselI : R -> R -> R }.

Definition Sp0 : Special :=
  let z1 := fun _ : R => 0 in let z2 := fun _ _ : R => 0 in
  mkSpecial z1 z1 z1 z1 z1 z1 z1 (fun _ _ => 0) z2 z2 z2 z2 z2.

(* math.Pow on the reals: x^y = exp(y ln x) for a positive base; for a
   non-positive base Go's Pow is defined at integer exponents (as a power), and
   NaN otherwise (0 here, excluded by the domains of the theorems). *)
Definition Rpow_go (x y : R) : R :=
  if Rlt_dec 0 x then Rpower x y
  else if Req_EM_T y (IZR (Int_part y)) then powerRZ x (Int_part y) else 0.

Definition FlR (S : Special) : Fl R :=
  mkFl R Rplus Rminus Rmult Rdiv Ropp
    Rltb Rleb Reqb
    Q2R IZR 0 (fun _ => 0)
    (fun _ => false) (fun _ _ => false)
    Rabs sqrt exp ln (fun x => ln (1 + x))
    sin cos tan sinh cosh tanh
    (sErf S) (sErfc S) (sGamma S) (sLgamma S) (fun _ => 1%Z)
    Rpow_go (fun b z => powerRZ b z)
    (fun x => IZR (Int_part x))
    PI (sqrt PI)
    (sDigamma S) (sTrigamma S) (sLogErfc S) (sMlgamma S)
    (sGammaP S) (sGammaPd1 S) (sGammaPd2 S) (sBesselI S) (sLogBesselI S).

Definition idR (x : R) : R := x.   (* storage rounding over R: none *)

(* a register file over R: variables x_0..x_{nv-1} activated by Variables(order, ...),
   every other register a fresh NewReal64(0.0) *)
Definition stR0 : St (A := R) := fun _ => mkReg K64 0 0 0 [] [].
